#!/usr/bin/env python3
"""Merge the per-property staging files known_findings.d/Cxx.json into the single committed known_findings.json and record the
repaired defects as `fixed: property=<id> <commit> <what failed>` lines (a fixed entry suppresses nothing)."""
import glob, json, os
HERE = os.path.dirname(os.path.dirname(os.path.abspath(__file__)))
FIXED = [
 ("C02", "da605d0", "Povm.matrix_with_sparsity raised NameError on every call (undefined c_sys, self.vec passed instead of vec)"),
 ("C02", "15e40aa", "gate.to_var_from_choi applied the forward HS->Choi conversion: to_var_from_choi(to_choi_from_var(var)) != var"),
 ("C02", "936d10a", "Povm.matrices()/matrix() returned np.matrix, so to_vecs_from_matrices_with_sparsity(c_sys, povm.matrices()) raised ValueError"),
 ("C04", "d072139", "MProcess.calc_proj_eq_constraint_with_var(c_sys, var, on_para_eq_constraint=False) overwrote its argument through reshaped views"),
 ("C13", "d072139", "same call mutated its operand (history fuzzer signature C13/mutation/proj_eq_with_var/mprocess/...)"),
 ("C12", "fc29441", "inverse_sample/unbiased_covariance weights raised a broadcast ValueError for >2 outcomes"),
 ("C12", "ffbe1f9", "fast squared-error loss ignored the weighting mode on a fresh object and used the previous dataset's weights on a re-used one"),
 ("C13", "ffbe1f9", "same stale extended weights observed as history dependence of re-used loss objects / calc_estimate_sequence entries"),
 ("C15", "ffbe1f9", "estimates of the fast squared-error loss with inverse covariance differed between serial and per_estimator_execution>=2 runs"),
 ("C12", "43d758a", "relative-entropy losses never installed option.weights (misspelt hook _sets_weight_by_mode calling a non-existent setter)"),
 ("C12", "2327bba", "inverse-covariance weights rejected as 'not symmetric' for >=3 outcomes (np.linalg.inv asymmetry ~1e-12 vs atol 1e-13)"),
 ("C12", "f1e1e36", "weighting mode 'identity' was `pass`: a re-configured loss kept the earlier custom / inverse-covariance weights"),
 ("C13", "f1e1e36", "same identity-after-weighted-dataset history dependence for the four loss classes"),
 ("C15", "2b5f5c7", "execute_simulation with an integer seed: every repetition re-created Generator(MT19937(seed)), repetitions were copies"),
 ("C19", "72d5a93", "calc_fisher_matrix_total sized its accumulator by the number of outcomes; weights-length validation compared the wrong sizes"),
 ("C19", "00bb448", "calc_direct_sum accepted non-square blocks (shape[0] != shape[0]) and broadcast them"),
 ("C20", "d4e3672", "Experiment(schedules=[None], ...) raised UnboundLocalError instead of QuaraScheduleItemError (stale / unbound j)"),
 ("C20", "d963183", "StandardQmpt accepted [state, mprocess, povm, mprocess] (only items 0..2 inspected)"),
 ("C18", "8192d10", "EffectiveLindbladian.calc_j_mat enumerated basis[1:]: identity component of J dropped, basis[1] halved; parts did not sum, extract->rebuild and calc_proj_ineq_constraint wrong for dissipative generators"),
 ("C09", "3acec41", "LinearEstimator raised ValueError (np.vstack) for schedules with different outcome counts"),
 ("C07", "04df2a5", "_left_permutation_matrix sized identity blocks by the sum of subsystem sizes: 18 of 24 orders of four 1-qubit states raised a matmul shape error"),
 ("C06", "4285218", "compose(M1, M2) for two measurement processes multiplied hs2 @ hs1 and reported shape1+shape2: bracketings of M_a.M_b.rho disagreed"),
 ("C06", "330b3b3", "Povm.generate_mprocess(mode_backaction=1) used rows of the eigenvector matrix without conjugate: to_povm round trip failed / raised"),
 ("C06", "2a78890", "post-measurement states divided by the renormalised probability after eps_zero truncation: trace != 1, State constructor raised"),
 ("C15", "26bcf7f", "StandardPovmt.generate_empi_dists_sequence spelt its keyword seed_or_genrator: execute_simulation / generate_empi_dists_and_calc_estimate with a Povm as the unknown raised TypeError"),
 ("C12", "bd3d6fb", "mode_weight='unbiased_inverse_covariance' accepted by the option class but without a branch in _set_weights_by_mode: the mode silently configured nothing (found by the theorem about the generated mode table)"),
 ("C04", "b9e6103", "MProcess.calc_proj_eq_constraint (object level) applied its correction twice to an ndarray occurring twice in hss (copy.deepcopy keeps the aliasing): hss = [E, E, 0] gave first-row sum 1/3"),
 ("C04", "c6154d5", "Gate.calc_proj_ineq_constraint (object level) did not pass eps_truncate_imaginary_part to to_hs_from_choi_with_sparsity: a Gate built with eps 1e-8 still raised at parameter scale 1e3"),
 ("C06", "d64a062", "compose_qoperations built M.G, G.M and M.M with the default eps_zero: for an MProcess with eps_zero=1e-4 and an outcome of probability 1e-6, (M.G).rho kept the outcome while M.(G.rho) truncated it (found by peer review of the C06 theorems: the associativity theorem only held for the default threshold)"),
 ("C20", "df6ca25", "a schedule given as a generator / dict / set with well-formed items escaped Experiment validation as raw TypeError / KeyError instead of the schedule-order error (found by peer review of the C20 theorems)"),
 ("C14", "007afc6", "_random_number_to_data fell through to the last index: p=[0.1]*10+[0.0], u=nextafter(1,0) returned outcome 10 of probability 0 (found by peer review: exact-rational model vs float running sum)"),
 ("C14", "b42e0b1", "QTomography.reset_seed(0) was ignored (`if seed:`): the explicit seed 0 re-seeded with the experiment's old seed_data (found by the reset_seed oracle added for seeded C14-16)"),
]
findings = []
_staged = sorted(glob.glob(os.path.join(HERE, "known_findings.d", "*.json")))
if _staged:          # staging directory used while the checks were being built (one file per property)
    for f in _staged:
        findings += json.load(open(f))["findings"]
else:                # consolidated: known_findings.json itself is the source; only the FIXED list above is re-written
    findings = json.load(open(os.path.join(HERE, "known_findings.json")))["findings"]
findings = [x for x in findings if x.get("status") == "open"]
out = {
 "_comment": "Genuine defects of tknrsgym/quara that are recorded rather than repaired (status open), identified by the signature the check "
             "computes from the failing call site and input class; and the defects repaired by fix: commits in /repo. Never written at run time.",
 "findings": findings,
 "fixed": [f"fixed: property={p} {c} {w}" for p, c, w in FIXED],
}
json.dump(out, open(os.path.join(HERE, "known_findings.json"), "w"), indent=1)
print(len(findings), "open findings;", len(FIXED), "fixed entries")
