#!/usr/bin/env python3
"""Regenerates the status tables of DESIGN.md §9 (between the STATUS markers) from evidence/*.json, seeded/*/meta.json and the
known-findings files."""
import glob, json, os, re
HERE = os.path.dirname(os.path.dirname(os.path.abspath(__file__)))
props = [json.loads(l) for l in open(os.path.join(HERE, "properties.jsonl"))]
known = []
for f in sorted(glob.glob(os.path.join(HERE, "known_findings.d", "*.json"))) + [os.path.join(HERE, "known_findings.json")]:
    if os.path.exists(f):
        known += json.load(open(f)).get("findings", [])
seen = set(); open_by = {}
for k in known:
    if k.get("status") != "open" or (k["property"], k["signature"]) in seen:
        continue
    seen.add((k["property"], k["signature"]))
    open_by.setdefault(k["property"], {}).setdefault(k["id"], []).append(k["signature"])
rows = ["| id | theorems | partial | corr. ops | evaluations (quick) | quick wall s | open findings (ids) | seeded changes detected |",
        "|---|---|---|---|---|---|---|---|"]
for p in props:
    pid = p["id"]
    ev = os.path.join(HERE, "evidence", pid + ".json")
    if not os.path.exists(ev):
        rows.append(f"| {pid} | – | | | | | | |"); continue
    e = json.load(open(ev)); c = e["coverage"]
    th = c.get("theorems", [])
    npart = sum(1 for t in th if "partial" in t) 
    nfail = sum(1 for t in th if t.endswith("_fails"))
    sd = []
    for m in sorted(glob.glob(os.path.join(HERE, "seeded", pid + "-*", "meta.json")),
                    key=lambda f: int(os.path.basename(os.path.dirname(f)).split("-")[1])):
        mm = json.load(open(m))
        ck = mm.get("check", {})
        mark = "○" if mm.get("out_of_scope") else "?" if ck.get("rc") is None else "✓" if ck.get("detected") else "✗"
        sd.append(os.path.basename(os.path.dirname(m)).split("-")[1] + mark)
    rows.append(f"| {pid} | {len(th)} | {npart} partial, {nfail} negation witnesses | {len(c.get('correspondence_ops', []))} | {c.get('evaluations')} "
                f"| {e.get('wall_s')} | {', '.join(sorted(open_by.get(pid, {}))) or 'none'} | {' '.join(sd)} |")
table = "\n".join(rows)
p = os.path.join(HERE, "DESIGN.md")
s = open(p).read()
s = re.sub(r"<!-- STATUS-TABLE-BEGIN -->.*?<!-- STATUS-TABLE-END -->",
           "<!-- STATUS-TABLE-BEGIN -->\n" + table + "\n<!-- STATUS-TABLE-END -->", s, flags=re.S)
open(p, "w").write(s)
print(table)
