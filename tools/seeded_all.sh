#!/bin/bash
# re-run every stored seeded change against its property's check (scratch worktrees; nothing applied to /repo) and tabulate.
# usage: tools/seeded_all.sh [parallel-streams (default 4)] — one stream handles whole properties, so two runs never share a property's generated files
cd "$(dirname "$0")/.."
P=${1:-4}
one_prop() {
  p=$1
  for d in $(ls -d seeded/$p-* | sort -t- -k2 -n); do
    id=$(basename $d)
    if python3 -c "import json,sys; sys.exit(0 if json.load(open('seeded/$id/meta.json')).get('out_of_scope') else 1)"; then
      echo "$id out-of-scope (not run)"; continue
    fi
    out=$(python3 tools/seeded.py run $id 2>&1 | grep "check rc" | head -1)
    viol=$(python3 - <<PY
import json
m=json.load(open("seeded/$id/meta.json"))
o=m["check"]["output"]
print("concrete" if any(l.startswith("VIOLATION") and "no-failing-input-found" not in l for l in o) else ("weak" if any("no-failing-input-found" in l for l in o) else "MISSED"))
PY
)
    echo "$id $viol $out"
  done
}
export -f one_prop
ls seeded | sed 's/-.*//' | sort -u | xargs -P "$P" -I{} bash -c 'one_prop {}'
