#!/bin/bash
# re-run every stored seeded change against its property's check (scratch worktrees; nothing applied to /repo) and tabulate
cd "$(dirname "$0")/.."
for d in seeded/*/; do
  id=$(basename $d)
  out=$(python3 tools/seeded.py run $id 2>&1 | grep "check rc" | head -1)
  viol=$(python3 - <<PY
import json
m=json.load(open("seeded/$id/meta.json"))
o=m["check"]["output"]
print("concrete" if any(l.startswith("VIOLATION") and "no-failing-input-found" not in l for l in o) else ("weak" if any("no-failing-input-found" in l for l in o) else "MISSED"))
PY
)
  echo "$id $viol $out"
done
