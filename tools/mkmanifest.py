#!/usr/bin/env python3
"""Regenerates /verif/MANIFEST.json from the table below (claimed checks) and properties.jsonl."""
import json, os
HERE = os.path.dirname(os.path.dirname(os.path.abspath(__file__)))
props = [json.loads(l)["id"] for l in open(os.path.join(HERE, "properties.jsonl"))]

NOTE = ("Trusted: Lean 4.33 kernel; axioms propext/Classical.choice/Quot.sound only (audited every run); "
        "the compiled QModel driver and the Python correspondence harness (generators, exact float->rational "
        "conversion, 1e-9 comparison tolerance); numpy/scipy kernels whose results are model parameters; "
        "scipy.linalg.kron import shim. Modelled, not verified: IEEE rounding, numpy view semantics.")

CLAIMED = {
 "C16": dict(
    text="Lean 4 theorems, unbounded in the number of variables and their sizes, about a hand-written executable model of "
         "index_util / MultinomialDistribution (serial<->multi-index mutually inverse, in range, row-major; constructor "
         "normalisation), tied to /repo on every run by an exhaustive correspondence check of the index maps and a "
         "structured one for constructor / marginalize / conditionalize, plus the property oracle on the real code "
         "(marginal = sum, joint = marginal x conditional, ensemble layout).",
    design="§4 C16",
    technique="Lean 4 proof (induction over the length list) + model/implementation correspondence"),
}
PENDING_REASON = "check not built yet in this round (build order in DESIGN.md §8); not claimed until its Lean model, theorems and correspondence exist"

checks = []
for p in props:
    if p in CLAIMED:
        c = CLAIMED[p]
        checks.append({
            "property_id": p,
            "quick_cmd": f"./check {p} --tier quick",
            "thorough_cmd": f"./check {p} --tier thorough",
            "evidence_file": f"evidence/{p}.json",
            "replay_cmd_template": f"./check {p} --replay {{path}}",
            "engine": "lean4-model+correspondence",
            "level_claimed": {"category": "proof", "text": c["text"], "design_ref": c["design"]},
            "level_note": c.get("note", NOTE),
            "technique": c["technique"],
        })
man = {
 "version": 1,
 "setup_cmd": "cd lean && lake build",
 "hooks": {
   "guard": "QUARA_VERIF",
   "enable": "no source hook is needed: the harness imports /repo in-process (PYTHONPATH) after installing the scipy.linalg.kron shim; QUARA_VERIF=1 is exported by harness/shim.py but read by no line of /repo",
   "baseline_off_cmd": "cd /repo && /venv/bin/python -m pytest -ra -q -p no:cacheprovider --timeout=900 --continue-on-collection-errors",
   "source_commits": [],
   "add_only": True,
 },
 "engines": [{
   "name": "lean4-model+correspondence", "path": "lean/ + harness/ + check",
   "serves_properties": sorted(CLAIMED),
   "kind_free_text": "Lean 4 theorems about an executable model (lean/QModel, QProps), model tied to /repo by translator fragments (lean/QGen) and a differential correspondence check through a compiled line-protocol driver; failing-input search on the real code when an obligation breaks",
 }],
 "checks": checks,
 "notes": "See DESIGN.md. known_findings.json lists genuine defects that are recorded rather than repaired.",
 "not_applicable": [{"property_id": p, "reason": PENDING_REASON} for p in props if p not in CLAIMED],
}
json.dump(man, open(os.path.join(HERE, "MANIFEST.json"), "w"), indent=1)
print("claimed", sorted(CLAIMED))
