#!/usr/bin/env python3
"""Regenerates /verif/MANIFEST.json from the table below (claimed checks) and properties.jsonl."""
import json, os
HERE = os.path.dirname(os.path.dirname(os.path.abspath(__file__)))
props = [json.loads(l)["id"] for l in open(os.path.join(HERE, "properties.jsonl"))]

NOTE = ("Trusted: Lean 4.33 kernel; axioms propext/Classical.choice/Quot.sound only (audited every run); "
        "the compiled QModel driver and the Python correspondence harness (generators, exact float->rational "
        "conversion, 1e-9 comparison tolerance); numpy/scipy kernels whose results are model parameters; "
        "scipy.linalg.kron import shim. Modelled, not verified: IEEE rounding, numpy view semantics.")

CLAIMED = {
 "C16": dict(
    text="Lean 4 theorems, unbounded in the number of variables and their sizes, about an executable model of "
         "index_util / MultinomialDistribution / ProbDist tuple access (serial<->multi-index mutually inverse, in range, row-major; constructor "
         "normalisation; marginal mass; joint = marginal x conditional for any set of conditioning variables). The two index-map loops, "
         "their guards and the numeric defaults / tolerances are REGENERATED from /repo's source on every run (ast skeleton matcher -> "
         "lean/QGen/C16.lean) and proved equal to the model for all inputs; the rest is tied by an exhaustive correspondence check of the index maps "
         "(hand model and generated definitions) and a structured one for constructor / marginalize / conditionalize / tuple access, plus the "
         "property oracle on the real code (marginal = sum, joint = marginal x conditional, documented thresholds, ensemble and POVM layouts).",
    design="§4 C16, §9.2",
    technique="Lean 4 proof (induction over the length list) + source-to-Lean translator + model/implementation correspondence"),
 "C04": dict(
    text="Equality projections of all four types: membership, orthogonality of the residual, nearest point, idempotence, fixed points "
         "and object-level = variable-level (both parametrisation flags) proved in Lean 4 for all d, m over any ordered field (hence the "
         "executed rational model). Inequality projections: for orthonormal Hermitian bases of d^2 elements (completeness DERIVED) and an exact "
         "eigh result, the routines do not raise and return the unique nearest parameter vector with PSD operator(s); idempotence and fixed points "
         "proved; effect of eps > 0 bounded coordinate-wise (partial only w.r.t. float eigh accuracy). Model tied to the real code by 32 correspondence ops with numpy's eigh "
         "result passed through; purity, idempotence, VI and KKT certificates are checked on the real code by the oracle.",
    design="§4 C04, §9", technique="Lean 4 proof (affine projections; clip_vi for the PSD cone) + model/implementation correspondence with eigh pass-through"),
 "C05": dict(
    text="Dykstra loop as coded: invariant x+p+q=x0 for every recorded state (induction over sweeps), history consistency and stop rule, "
         "stop value 0 => fixed point, fixed point => nearest point of the intersection and order independence, physical input returned "
         "unchanged after two sweeps — Lean 4 theorems for all sizes and both orders. Convergence / termination below eps is NOT proved "
         "(theorems named _partial); accuracy of the stopped iterate is certified per run by the oracle against an independent Dykstra "
         "reference and the variational inequality. Whole runs are re-executed by the model from the implementation's recorded history.",
    design="§4 C05, §9", technique="Lean 4 proof (loop invariant by induction, fixed-point VI argument) + history correspondence"),
 "C12": dict(
    text="Exact second-order Taylor identity of the weighted squared error (so gradient and Hessian are the derivatives), value formula, "
         "fast = generic value and gradient given equal weights (squared error and relative entropy kernels), gradient of the relative "
         "entropy and its Hessian are the derivatives (Mathlib HasDerivAt) of the modelled kernels incl. clipping, value = sum q log(q/p) away from the thresholds, and wiring "
         "theorems over the loss objects' cached fields as explicit state records: every accepted weighting mode takes effect from any "
         "earlier state, generic and fast, for any number of outcomes. 16 correspondence ops incl. configuration histories.",
    design="§4 C12, §9", technique="Lean 4 proof (algebraic Taylor identity, HasDerivAt, state records) + model/implementation correspondence"),
 "C19": dict(
    text="Covariance of the empirical distributions, MSE of the empirical distributions and of the linear estimate (variable mode and POVM "
         "object mode) are proved in Lean 4 equal to the exact expectations over the multinomial law (defined by recursion on n; induction "
         "proofs) for all n >= 1, all probability vectors and any number of schedules; Fisher matrix / Cramer-Rao formulas and the statistics "
         "helpers proved against their textbook definitions. Model tied to the code by 19 correspondence ops incl. exact rational enumeration "
         "of multinomial outcomes, and an enumeration oracle on all four tomography types.",
    design="§4 C19, §9", technique="Lean 4 proof (induction on the sample size over an exact multinomial model) + correspondence incl. exact enumeration"),
 "C02": dict(
    text="Lean 4 proofs (all d and n, any commutative star-ring including the executed Gaussian-rational instance) about an "
         "executable model of every conversion in state/povm/gate/matrix_basis: agreement of the loop, dict and sparse implementations; "
         "defining formulas; all round trips under orthonormality (completeness proved by dimension count); linearity; basis-change round "
         "trips; exact truncate_hs behaviour. The model is tied to the code by exact-rational differential checking on complete bases plus "
         "physical, non-physical and complex inputs (1 qubit and qutrit quick; 2 qubits and qubit x qutrit thorough) and by an independent "
         "numpy oracle computed from the channel action. Kraus round trip proved for the executable extraction under the explicit eigh/sqrt "
         "contract; process matrix = Choi and column-major = permuted row-major proved for every basis. Float rounding is not modelled.",
    design="§4 C02, §9", technique="Lean 4 proof over a star-ring model + model/implementation correspondence on complete bases + channel-action oracle"),
 "C01": dict(
    text="Proved (rationals, all sizes): verdict <=> defect <= atol for every call site whose relative tolerance, REGENERATED FROM THE SOURCE on "
         "every run, is 0 (gate TP first row; eigenvalue test <=> all eigenvalues >= -atol); for State.is_trace_one / Povm.is_identity_sum "
         "exactness <=> generated rtol = 0, with a negation witness for numpy's default 1e-5; monotonicity in atol of every sub-verdict; "
         "physical = eq and ineq; constructor raises iff required and not physical; gate / mprocess origin objects trace preserving for all d, m. "
         "Not proved: eigenvalue list <-> PosSemidef(M + atol), relation of the two TP branches, float eigvalsh accuracy (inputs keep >= 10 atol "
         "margins). Correspondence and oracle over 4 types, 5 bases incl. unnormalised and non-identity-first Hermitian bases, atol 1e-13..1e-2.",
    design="§4 C01, §9", technique="Lean 4 proof over verdict wiring with tolerances regenerated from source (ast translator) + correspondence + margin oracle"),
 "C03": dict(
    text="Proved for all d >= 1, m, both flags and arbitrary values: the var<->object index maps REGENERATED FROM THE PYTHON SOURCE (ast->Lean) are "
         "mutually inverse bijections between [0, num_variables) and the non-implied entries and point at the entry holding the variable (all "
         "four types); var->object->var, stacked<->var consistency and len(var) = generated num_variables (all four types); object->var->object "
         "<=> built-in constraint (state, gate, POVM); SetQOperations total<->local bijection for arbitrary mixes. Tied to the code by exhaustive "
         "comparison over every variable index of every configuration (4 types x 2 flags x m in 2..5 x 1-qubit/qutrit/2-qubit) and mixed sets. "
         "Not proved: mprocess object->var->object iff-form, gradient one-hot (checked exhaustively on the real code).",
    design="§4 C03, §9", technique="Lean 4 proof over index maps regenerated from source + list-level model of insert/delete/reshape + exhaustive correspondence"),
 "C14": dict(
    text="Lean-checked for all lengths on an exact-rational model: the cumulative-sum inversion maps u to the outcome whose interval contains it, "
         "data are in range with non-zero probability when u < sum p (residual branch explicit); calc_empi_dist_sequence returns exactly "
         "counts(data[:n])/n per requested n — non-negative, sum 1, cumulatively consistent; an int seed gives a function of (seed, args) with "
         "the global store untouched; one generator yields consecutive stream segments; None uses the global state (abstract deterministic PRNG). "
         "Tied to the code by exact comparison on the real generator's uniforms and a reference-stream oracle on 22 entry points. Distribution of "
         "MT19937/multinomial trusted (fixed-bound frequency test, labelled a test).",
    design="§4 C14, §9", technique="Lean 4 proof (list induction; abstract PRNG state machine) + exact correspondence on real uniforms + stream-discipline oracle"),
 "C20": dict(
    text="Lean-checked for all numbers/lengths of schedules and list sizes on a model whose tables and positional specs are REGENERATED FROM THE "
         "SOURCE each run (skeleton-matching ast translator): validation accepts exactly the well-formed schedules, also after any setter history "
         "(invariant by induction over operation lists); rejections carry the right error class and position; Qst/Povmt/Qpt accept exactly their "
         "shape; every rejection is the schedule-item or schedule-order error at the first malformed schedule; accepted schedules ending in their only POVM execute. "
         "Tied to the code by exhaustive comparison (81 list-size configurations, length <= 4, thorough 5; 1.4M cases quick) and an independent "
         "rule oracle with a Born-rule reference.",
    design="§4 C20, §9", technique="Lean 4 proof (decision logic stated outright, setter invariant by induction) + ast-regenerated tables + exhaustive correspondence"),
 "C13": dict(
    text="Machine-checked (Lean 4, induction over arbitrary operation histories) that the stateful parts of the library as modelled are "
         "transparent — the nine CompositeSystem caches under any get/delete history, the forward-model/data fields of loss objects, Settings "
         "tolerance set/restore — together with the exact conditions under which re-used loss and algorithm objects equal fresh ones and proved "
         "counter-examples where they do not; the state-machine model is tied to the real objects by a differential correspondence on attribute "
         "masks, loss values, installed projections and the mutated argument array. Operand immutability, copy independence, read-only bases and "
         "history-independence of ~75 operation kinds are OBSERVED on the real code by a snapshotting history fuzzer with fresh-world "
         "differential and delta-debugged replays (not proved: Python aliasing is not modelled).",
    design="§4 C13, §9", technique="Lean 4 state machines + invariants by induction over op lists + correspondence + snapshotting history fuzzer"),
 "C15": dict(
    text="Machine-checked (Lean 4): the seed plumbing of both simulation entry points over an abstract generator (integer seed, Generator and "
         "None => one stream, repetition k draws the k-th consecutive segment; the result is a pure function of an integer seed; flow repetitions depend only on (seed_data, "
         "index)), schedule- and partition-independence of the collected results for state-independent tasks (with a proved counter-example for "
         "state-dependent ones), re-estimation, the depolarising mixture identity and convexity of the physical set, and an iff-characterisation "
         "of the built-in physicality check for all estimator configurations. Tied to the real code by correspondence on synthetic results, "
         "thresholds, the real repetition loop and the real depolarising channel. Bit-level reproducibility under repetition and under 2-4 "
         "workers at each of the four joblib levels is OBSERVED on real small simulations (joblib/loky scheduling and MT19937/SeedSequence "
         "quality are runtime behaviour the model cannot exhibit).",
    design="§4 C15, §9", technique="Lean 4 model of seed plumbing / task scheduling + correspondence + differential re-execution across worker configurations"),
 "C08": dict(
    text="Proved in Lean 4 for all d, m, tester and schedule lists, both flags and every var (symbolically, not on a basis): dictionary entry (s,x) "
         "of the four tomographies' coefficient construction = Born-rule circuit value on the object built from var, with key order = row order "
         "(QST / POVMT / QPT / QMPT incl. the eliminated first row of the last HS); full rank <=> statistics map injective; calc_prob_dists = circuit "
         "for equal outcome counts, with negation witnesses for mixed counts. Correspondence on matA, vecB, objOf and the compose circuit with mixed "
         "outcome counts and schedule variants (subsets, repetitions, permutations); affine-basis oracle on the real code. Gaps: eps clipping inside "
         "compose, POVMT / QMPT column-count theorems (covered by correspondence).",
    design="§4 C08, §9", technique="Lean 4 proof (symbolic affine identity over list model of _set_coeffs) + correspondence + affine-basis oracle"),
 "C09": dict(
    text="Proved in Lean 4 for all shapes and data over any ordered field under the contract G(A^T A)=1 (numpy's inv is a model parameter): exact "
         "recovery, normal equations, least-squares optimality and uniqueness, sequence = pointwise, independence from sample counts, the rank guard, "
         "and soundness of the executed least-squares certificate checker lsqCert which certifies every implementation output in exact rationals. "
         "Model tied to the code on 4 types x 2 flags x complete / over-complete testers (1 qubit, qutrit, 2 qubits). Rounding and conditioning of "
         "numpy's inv are not proved (generators keep cond <= 1e3).",
    design="§4 C09, §9", technique="Lean 4 proof (normal equations via Mathlib matrices) + verified certificate checker + correspondence"),
 "C10": dict(
    text="Proved in Lean 4 for the model of the three projected-gradient algorithms, the projected linear estimator and the physical projection: every "
         "backtracking iterate and the estimate lie in the (delta-thickened) convex physical set for all step counts (induction); momentum and FISTA "
         "return projection outputs; a stopped physical projection is within sqrt(eps) of both constraint sets; the constraint selection table stated "
         "outright; projected-linear = projection o linear. Partial: termination and eps-accuracy of the loops; exact-data recovery by backtracking "
         "(fails for dependent-element parametrisations: known finding). Tied to the code by step-by-step correspondence of recorded histories "
         "(8 ops) and a physicality / recovery oracle on 1 qubit, qutrit and 2 qubits.",
    design="§4 C10, §9", technique="Lean 4 proof (feasibility invariant by induction over iterations; selection table) + history correspondence + physicality oracle"),
 "C11": dict(
    text="Proved in Lean 4 in a real inner-product space (projection characterised by its variational inequality): projected-gradient fixed point <=> "
         "first-order optimality <=> constrained minimiser; descent direction; the coded sufficient-decrease test => the loss is non-increasing along "
         "a run and iterates are feasible; meaning of the four stopping criteria; the CVXPY objective equals the plain squared error up to 1/S for "
         "equal shots. Partial: eps-optimality of the stopped iterate; the SCS solver is trusted (agreement is an oracle observation on the real "
         "cvxpy 1.9 / SCS 3.3 installation). Line-search correspondence on real loss values; optimality-certificate oracle incl. the CVXPY estimator.",
    design="§4 C11, §9", technique="Lean 4 proof (convex analysis in InnerProductSpace R) + line-search correspondence + optimality-certificate oracle"),
 "C17": dict(
    text="Lean 4 proofs, all dimensions, that the constructions the catalogues are built from (pure vector -> state, ONB -> POVM, unitary -> gate incl. "
         "Choi PSD, Kraus set -> TP/CP map, exp(-iH) unitary) are physical, and soundness of the executed psdCert checker. Every catalogue entry is "
         "ENUMERATED on the real code and checked for physicality, agreement of all alternative descriptions, textbook actions and rejection of unknown "
         "names: quick covers all small catalogues and 348 of the 39 204 2-qutrit names, thorough all 39 204 gate names. A sample of 360 outputs is "
         "certified through the Lean checkers. Execution of checkers and enumeration is not kernel-checked.",
    design="§4 C17, §9", technique="Lean 4 proof of the generic constructions + verified certificate checkers + exhaustive enumeration on the implementation"),
 "C18": dict(
    text="Machine-checked (Lean 4, all dimensions) for the executable model of effective_lindbladian.py: generators built from (H,K) act as the GKSL "
         "equation and are trace-annihilating / first-row-zero; the first row is the trace functional; the equality projection zeroes exactly the first "
         "row and is the Frobenius-nearest point; extraction o rebuild returns K, J and the traceless part of H; the h/j/k parts sum to the whole; the "
         "jump-operator builder is refuted by a proved witness (open known finding); first row of every exponential partial sum is "
         "e0. Tied to the real code by exact-rational correspondence (23 ops; 1 qubit / qutrit / 2 qubits, two basis families). CP of exp(L), the "
         "Matrix.exp limit and K-PSD <=> CP are checked per run on the implementation, not proved.",
    design="§4 C18, §9", technique="Lean 4 proof over a star-field model + exact-rational correspondence + GKSL oracle"),
 "C06": dict(
    text="Proved in Lean 4 for all dims / outcome counts / chain lengths about an executable model of the whole compose_qoperations dispatch: "
         "Heisenberg duality and POVM o MProcess layout, Born and m-process probabilities sum to 1 for identity-sum / TP inputs, p_x = <to_povm(M)_x, rho>, "
         "normalised post states and (earlier, later) ensemble layout in the no-truncation regime (partial), TP o TP and identity-sum preservation, "
         "generalised associativity of instrument chains for the corrected MProcess o MProcess, exact associativity of the M.G.rho, P.G.rho, P.M.G triples, "
         "the mode-2 round trip; proved negation witnesses for the open findings. Not proved: Born non-negativity, CP of compositions, back-action modes "
         "0/1 through sqrtm/eigh. Tied to the real code by a differential correspondence over ALL bracketings of structured chains (length 2-5, different "
         "outcome counts) and a node-by-node Kraus-level numpy oracle.",
    design="§4 C06, §9", technique="Lean 4 proof over an inductive QOp model of the dispatch + correspondence over all bracketings + Kraus-level oracle"),
 "C07": dict(
    text="Proved in Lean 4 for all sizes: K(a,b)(u x v) = v x u; the HS vec-permutation pipeline = Kronecker product; mixed-product action; the "
         "single-swap lemma; bubble-sort termination and sortedness of the final order for any number of subsystems; the product-size version never raises "
         "and sorts for any k; coded = product sizes for <= 3 subsystems; product statistics factorise. Finite decide-tables (labelled as such) for four "
         "subsystems and for the embedding block structure of 1-2 qutrits. Partial: the unbounded semantic loop invariant and embedding physicality are at "
         "oracle level. Tied to the code by a differential correspondence over every permutation and grouping and a numpy Kronecker / isometry oracle.",
    design="§4 C07, §9", technique="Lean 4 proof over run-time-sized matrix model of the permutation code + correspondence over all orders/groupings + Kronecker oracle"),
}
PENDING_REASON = "check not built yet in this round (build order in DESIGN.md §8); not claimed until its Lean model, theorems and correspondence exist"

# the authoritative per-property description is the §9.2 bullet of DESIGN.md (kept current by the builders): use it as the claim text
import re
_design = open(os.path.join(HERE, "DESIGN.md")).read()
def design_bullet(pid):
    m = re.search(r"^\* \*\*" + pid + r"\*\* (.*?)(?=^\* \*\*C\d\d\*\* |^### )", _design, flags=re.S | re.M)
    if not m:
        return None
    return " ".join(m.group(1).replace("`", "").replace("**", "").split())

PREFIX = ("Machine-checked Lean 4 theorems (unbounded in sizes / lengths / steps unless stated) about an executable model of the code, "
          "the model tied to /repo on every run by a source translator (lean/QGen regenerated by the property's translate()) and by a "
          "model/implementation correspondence check through a compiled driver; failing-input search on the real code when an "
          "obligation breaks. What is proved, generated, compared and NOT proved: ")
checks = []
for p in props:
    if p in CLAIMED:
        c = dict(CLAIMED[p])
        b = design_bullet(p)
        if b:
            c["text"] = PREFIX + b
            c["design"] = "§9.2 " + p + " (and §4 " + p + ")"
            if "translator" not in c["technique"]:
                c["technique"] = c["technique"] + " + source-to-Lean translator fragment"
        checks.append({
            "property_id": p,
            "quick_cmd": f"./check {p} --tier quick",
            "thorough_cmd": f"./check {p} --tier thorough",
            "evidence_file": f"evidence/{p}.json",
            "replay_cmd_template": f"./check {p} --replay {{path}}",
            "engine": "lean4-model+correspondence",
            "level_claimed": {"category": "proof", "text": c["text"], "design_ref": c["design"]},
            "level_note": c.get("note", NOTE),
            "technique": c["technique"],
        })
man = {
 "version": 1,
 "setup_cmd": "./tools/setup.py",
 "hooks": {
   "guard": "QUARA_VERIF",
   "enable": "no source hook is needed: the harness imports /repo in-process (PYTHONPATH) after installing the scipy.linalg.kron shim; QUARA_VERIF=1 is exported by harness/shim.py but read by no line of /repo",
   "baseline_off_cmd": "cd /repo && /venv/bin/python -m pytest -ra -q -p no:cacheprovider --timeout=900 --continue-on-collection-errors",
   "source_commits": [],
   "add_only": True,
 },
 "engines": [{
   "name": "lean4-model+correspondence", "path": "lean/ + harness/ + check",
   "serves_properties": sorted(CLAIMED),
   "kind_free_text": "Lean 4 theorems about an executable model (lean/QModel, QProps), model tied to /repo by translator fragments (lean/QGen) and a differential correspondence check through a compiled line-protocol driver; failing-input search on the real code when an obligation breaks",
 }],
 "checks": checks,
 "notes": "See DESIGN.md. known_findings.json lists genuine defects that are recorded rather than repaired.",
 "not_applicable": [{"property_id": p, "reason": PENDING_REASON} for p in props if p not in CLAIMED],
}
json.dump(man, open(os.path.join(HERE, "MANIFEST.json"), "w"), indent=1)
print("claimed", sorted(CLAIMED))
