#!/usr/bin/env python3
"""tools/seeded.py confirm <prop> <srcdir> <seeded-id>   — confirm a candidate breaking change in a scratch worktree
   (demo passes on HEAD, fails with the patch; pinned suite still 113 passed), store it as seeded/<seeded-id>/ and run the
   property's check against it.
   tools/seeded.py run <seeded-id> [tier]                — re-run the check of a stored seeded change (scratch worktree,
   QUARA_REPO) and update meta.json's detection record.
Nothing is ever applied to /repo itself by this tool."""
import json, os, re, shutil, subprocess, sys, time

VERIF = os.path.dirname(os.path.dirname(os.path.abspath(__file__)))
PY = "/venv/bin/python"
PYTEST = [PY, "-m", "pytest", "-q", "-p", "no:cacheprovider", "--timeout=900", "--continue-on-collection-errors"]


for _v in ("OMP_NUM_THREADS", "OPENBLAS_NUM_THREADS", "MKL_NUM_THREADS"):   # BLAS pools oversubscribe badly under load
    os.environ.setdefault(_v, "1")


def sh(cmd, cwd=None, env=None, timeout=3600):
    p = subprocess.run(cmd, cwd=cwd, env=env, capture_output=True, text=True, timeout=timeout)
    return p.returncode, p.stdout + p.stderr


def worktree(name):
    wt = f"/tmp/seedwt-{name}"
    sh(["git", "-C", "/repo", "worktree", "remove", "--force", wt])
    shutil.rmtree(wt, ignore_errors=True)
    rc, out = sh(["git", "-C", "/repo", "worktree", "add", "--detach", wt, "HEAD"])
    assert rc == 0, out
    return wt


def drop(wt, prop=None):
    # a check run against a scratch tree regenerates the property's lean/QGen, lean/QAudit and evidence files from it:
    # put the committed files of THAT property back (other properties may be mid-run)
    if prop:
        for f in (f"lean/QGen/{prop}.lean", f"lean/QAudit/{prop}.lean", f"evidence/{prop}.json"):
            if os.path.exists(os.path.join(VERIF, f)):
                sh(["git", "-C", VERIF, "checkout", "--", f])
    sh(["git", "-C", "/repo", "worktree", "remove", "--force", wt])
    shutil.rmtree(wt, ignore_errors=True)
    sh(["git", "-C", "/repo", "worktree", "prune"])


def run_check(prop, wt, tier="quick", seed="0"):
    env = dict(os.environ, QUARA_REPO=wt, VERIF_SEED=seed)
    t0 = time.time()
    p = subprocess.run([os.path.join(VERIF, "check"), prop, "--tier", tier], cwd=VERIF, env=env, capture_output=True, text=True, timeout=7200)
    rc = p.returncode
    # stdout only (tracebacks of the code under test go to stderr); verdict lines first, then as much detail as fits
    verdict = [l for l in p.stdout.splitlines() if l.startswith(("VIOLATION", "KNOWN-FINDING", "OK "))]
    detail = [l for l in p.stdout.splitlines() if l.startswith("  ") and not l.startswith(("  File ", "    "))]
    return rc, detail[:6] + verdict[-8:], round(time.time() - t0, 1)


def confirm(prop, src, sid):
    dst = os.path.join(VERIF, "seeded", sid)
    wt = worktree(sid)
    try:
        demo_src = os.path.join(src, "demo.py")
        patch = os.path.join(src, "patch.diff")
        demo = os.path.join(wt, "_seeded_demo.py")       # run from inside the checkout so that `import quara` finds it
        shutil.copy(demo_src, demo)
        rc0, out0 = sh([PY, demo], cwd=wt, timeout=1800)
        rca, outa = sh(["git", "apply", patch], cwd=wt)
        assert rca == 0, "patch does not apply: " + outa
        rc1, out1 = sh([PY, demo], cwd=wt, timeout=1800)
        rct, outt = sh(PYTEST, cwd=wt, timeout=3600)
        m = re.search(r"(\d+) passed", outt)
        passed = int(m.group(1)) if m else -1
        failed = re.search(r"(\d+) failed", outt)
        ok = rc0 == 0 and rc1 != 0 and passed == 113 and not failed
        print(f"demo on HEAD rc={rc0}; demo with patch rc={rc1}; pinned suite: {passed} passed, failed={bool(failed)} -> {'CONFIRMED' if ok else 'REJECTED'}")
        if not ok:
            print(out0[-500:], out1[-500:], outt[-500:])
            return 1
        os.makedirs(dst, exist_ok=True)
        shutil.copy(patch, os.path.join(dst, "patch.diff"))
        shutil.copy(demo_src, os.path.join(dst, "demo.py"))
        notes = os.path.join(src, "notes.md")
        if os.environ.get("SEEDED_NOCHECK"):
            rc, lines, wall = None, ["check not run yet (property's check still being built)"], 0
        else:
            rc, lines, wall = run_check(prop, wt)
        meta = {
            "property": prop,
            "needs": open(notes).read() if os.path.exists(notes) else "",
            "confirmed": {"demo_on_head_rc": rc0, "demo_with_patch_rc": rc1, "pinned_suite_passed": passed,
                          "how": "scratch worktree of /repo HEAD; demo.py run before/after `git apply patch.diff`; pinned pytest command of BASELINE.json"},
            "check": {"cmd": f"QUARA_REPO=<worktree> ./check {prop} --tier quick", "rc": rc, "output": lines, "wall_s": wall,
                      "detected": rc == 1},
        }
        json.dump(meta, open(os.path.join(dst, "meta.json"), "w"), indent=1)
        print(f"check rc={rc} ({wall}s)"); print("\n".join(lines))
        return 0
    finally:
        drop(wt, prop)


def rerun(sid, tier="quick"):
    dst = os.path.join(VERIF, "seeded", sid)
    meta = json.load(open(os.path.join(dst, "meta.json")))
    wt = worktree(sid)
    try:
        rca, outa = sh(["git", "apply", os.path.join(dst, "patch.diff")], cwd=wt)
        assert rca == 0, outa
        rc, lines, wall = run_check(meta["property"], wt, tier)
        meta["check"] = {"cmd": f"QUARA_REPO=<worktree> ./check {meta['property']} --tier {tier}", "rc": rc, "output": lines,
                         "wall_s": wall, "detected": rc == 1}
        json.dump(meta, open(os.path.join(dst, "meta.json"), "w"), indent=1)
        print(f"{sid}: check rc={rc} ({wall}s)"); print("\n".join(lines))
        return 0 if rc == 1 else 1
    finally:
        drop(wt, meta["property"])


if __name__ == "__main__":
    if sys.argv[1] == "confirm":
        sys.exit(confirm(sys.argv[2], sys.argv[3], sys.argv[4]))
    if sys.argv[1] == "run":
        sys.exit(rerun(sys.argv[2], *(sys.argv[3:4])))
