#!/venv/bin/python
"""MANIFEST.setup_cmd: build the framework from files on disk only (offline).

For every claimed property: regenerate its translator fragment (lean/QGen/Cxx.lean) from /repo's current source and its axiom-audit
file, then build its Lean targets.  A property whose build fails here is reported but does not stop the others: every check rebuilds
what it needs itself and reports a broken obligation on its own."""
import json, os, subprocess, sys, time, importlib
HERE = os.path.dirname(os.path.dirname(os.path.abspath(__file__)))
sys.path.insert(0, os.path.join(HERE, "harness"))
for v in ("OMP_NUM_THREADS", "OPENBLAS_NUM_THREADS", "MKL_NUM_THREADS"):
    os.environ.setdefault(v, "1")
os.chdir(HERE)
import shim, common  # noqa

props = [c["property_id"] for c in json.load(open(os.path.join(HERE, "MANIFEST.json")))["checks"]]
targets, bad = [], []
for p in props:
    try:
        mod = importlib.import_module(p.lower())
        if hasattr(mod, "translate"):
            mod.translate(common.Ctx(p, "quick", 0))
    except Exception as e:  # reported again by the check itself
        print(f"setup: translate {p} failed: {type(e).__name__}: {e}")
    common.write_audit(p)
    targets += [f"qdriver_{p.lower()}", f"QProps.{p}", f"QAudit.{p}"]
t0 = time.time()
r = subprocess.run(["lake", "build"] + targets, cwd=common.LEAN, capture_output=True, text=True)
if r.returncode != 0:
    print(r.stdout[-3000:], r.stderr[-2000:])
    # isolate: build per property so that one broken property does not leave the others unbuilt
    for p in props:
        rr = subprocess.run(["lake", "build", f"qdriver_{p.lower()}", f"QProps.{p}", f"QAudit.{p}"], cwd=common.LEAN,
                            capture_output=True, text=True)
        if rr.returncode != 0:
            bad.append(p)
print(f"setup: built {len(props)} properties in {time.time()-t0:.0f}s; failing: {bad or 'none'}")
sys.exit(0)
