#!/usr/bin/env python3
"""tools/runall.py [--tier quick] [--seeds 0,1,2] [--props C01,C02] [--jobs N]  — run the claimed checks on /repo and tabulate.
With --jobs > 1 different properties run concurrently (one property's seeds stay sequential: they share generated files)."""
import argparse, json, os, subprocess, sys, time
from concurrent.futures import ThreadPoolExecutor
HERE = os.path.dirname(os.path.dirname(os.path.abspath(__file__)))
ap = argparse.ArgumentParser()
ap.add_argument("--tier", default="quick"); ap.add_argument("--seeds", default="0"); ap.add_argument("--props", default="")
ap.add_argument("--jobs", type=int, default=1)
a = ap.parse_args()
man = json.load(open(os.path.join(HERE, "MANIFEST.json")))
props = a.props.split(",") if a.props else [c["property_id"] for c in man["checks"]]


def one(p):
    bad = 0
    for s in a.seeds.split(","):
        t0 = time.time()
        r = subprocess.run([os.path.join(HERE, "check"), p, "--tier", a.tier], cwd=HERE, capture_output=True, text=True,
                           env=dict(os.environ, VERIF_SEED=s))
        tail = [l for l in r.stdout.splitlines() if l.startswith(("OK", "VIOLATION", "KNOWN"))]
        print(f"{p} seed={s} rc={r.returncode} {time.time()-t0:6.1f}s  " + " | ".join(tail)[:300], flush=True)
        bad += r.returncode != 0
    return bad


with ThreadPoolExecutor(max_workers=max(1, a.jobs)) as ex:
    bad = sum(ex.map(one, props))
sys.exit(1 if bad else 0)
