/-! GENERATED on every run by harness/c16.py:translate (harness/c16_translate.py, harness/pytolean.py) from the Python sources of quara — do not edit.
Import-free. `Int.fdiv` / `Int.fmod` are Python's `//` and `%`. -/
set_option linter.unusedVariables false
namespace QGen.C16

/-! ### quara/utils/index_util.py:6 `index_multi_dimensional_from_index_serial` -/

/-- statements before the loop: initial value of the carried state (tmp_index_serial) -/
def multiInit (index_serial : Int) : Int :=
  let tmp_index_serial : Int := index_serial
  tmp_index_serial

/-- one iteration: carried state (tmp_index_serial), loop variables (local_length); returns (appended value, new state) -/
def multiBody (tmp_index_serial : Int) (local_length : Int) : Int × Int :=
  let local_index : Int := (Int.fmod tmp_index_serial local_length)
  let appended_ : Int := local_index
  let tmp_index_serial : Int := (Int.fdiv tmp_index_serial local_length)
  (appended_, tmp_index_serial)

/-- the loop iterates `reversed(...)` -/
def multiIterReversed : Bool := true
/-- the function returns `tuple(reversed(acc))` -/
def multiResultReversed : Bool := true
/-- the function starts with the length-mismatch ValueError guard -/
def multiLenGuard : Bool := false

/-! ### quara/utils/index_util.py:34 `index_serial_from_index_multi_dimensional` -/

/-- statements before the loop: initial value of the carried state (serial_index, temp_len) -/
def serialInit  : Int × Int :=
  let serial_index : Int := (0 : Int)
  let temp_len : Int := (1 : Int)
  (serial_index, temp_len)

/-- one iteration: carried state (serial_index, temp_len), loop variables (length, local_index); returns the new state -/
def serialBody (serial_index : Int) (temp_len : Int) (length : Int) (local_index : Int) : Int × Int :=
  let serial_index : Int := (serial_index + (local_index * temp_len))
  let temp_len : Int := (temp_len * length)
  (serial_index, temp_len)

/-- the loop iterates `reversed(...)` -/
def serialIterReversed : Bool := true
/-- `return` expression over the final state -/
def serialResult (serial_index : Int) (temp_len : Int) : Int := serial_index
/-- the function starts with the length-mismatch ValueError guard -/
def serialLenGuard : Bool := true

/-! ### the folds that run the generated loop bodies (fixed text) -/

def multiLoop : List Int → Int → List Int
  | [], _ => []
  | l :: ls, s => let r := multiBody s l; r.1 :: multiLoop ls r.2

/-- `index_multi_dimensional_from_index_serial(nums_length, index_serial)` as generated -/
def multiFromSerial (nums_length : List Int) (index_serial : Int) : List Int :=
  let out := multiLoop (if multiIterReversed then nums_length.reverse else nums_length) (multiInit index_serial)
  if multiResultReversed then out.reverse else out

def serialLoop : List (Int × Int) → Int × Int → Int × Int
  | [], st => st
  | p :: r, st => serialLoop r (serialBody st.1 st.2 p.1 p.2)

/-- `index_serial_from_index_multi_dimensional(nums_length, index_multi_dimensional)` as generated; `none` = ValueError -/
def serialFromMulti (nums_length index_multi_dimensional : List Int) : Option Int :=
  if serialLenGuard && nums_length.length != index_multi_dimensional.length then none
  else
    let zs := nums_length.zip index_multi_dimensional
    let st := serialLoop (if serialIterReversed then zs.reverse else zs) serialInit
    some (serialResult st.1 st.2)

/-! ### defaults and tolerances -/

/-- quara/math/probability.py: `if eps == None: eps = 1e-08` -/
def validateEpsDefault : Rat := mkRat 1 100000000
/-- quara/math/probability.py:43 `np.isclose(prob, 0, atol=eps, rtol=0.0)`: rtol -/
def validateNegRtol : Rat := mkRat 0 1
/-- quara/math/probability.py:56 `np.isclose(sum_p, 1.0, atol=eps, rtol=0.0)`: rtol -/
def validateSumRtol : Rat := mkRat 0 1
/-- quara/objects/multinomial_distribution.py: `eps_zero if eps_zero else 1e-08` -/
def epsZeroDefault : Rat := mkRat 1 100000000
/-- quara/objects/multinomial_distribution.py:42 `validate_prob_dist(ps, validate_sum=False)` -/
def ctorValidateSumFirst : Bool := false
/-- quara/objects/multinomial_distribution.py:73 `validate_prob_dist(self.ps, validate_sum=True)` -/
def ctorValidateSumSecond : Bool := true

end QGen.C16
