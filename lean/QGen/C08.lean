import QModel.C08
/-! GENERATED on every run by harness/c08.py:translate (harness/pymat2lean.py) from the Python sources of quara — do not edit. -/
namespace QGen.C08

/-- quara/protocol/qtomography/standard/standard_qst.py:169 `_get_target_index`: position of the unknown in a schedule -/
def qst_target_item : Int := 0

/-- quara/protocol/qtomography/standard/standard_povmt.py:253 `_get_target_index`: position of the unknown in a schedule -/
def povmt_target_item : Int := 1

/-- quara/protocol/qtomography/standard/standard_qpt.py:205 `_get_target_index`: position of the unknown in a schedule -/
def qpt_target_item : Int := 1

/-- quara/protocol/qtomography/standard/standard_qmpt.py:208 `_get_target_index`: position of the unknown in a schedule -/
def qmpt_target_item : Int := 1

/-- quara/protocol/qtomography/standard/standard_qst.py:126 `_set_coeffs`: item of the schedule that names the tester POVM (−1 = last) -/
def qst_tester_item : Int := -1

/-- quara/protocol/qtomography/standard/standard_qst.py: dictionary key of `_coeffs_0th / _coeffs_1st` -/
def qst_key (schedule_index element_index : Nat) : Nat × Nat := (schedule_index, element_index)

/-- quara/protocol/qtomography/standard/standard_qst.py:137 the pair `(_coeffs_1st[key], _coeffs_0th[key])` of one POVM element; `r` = `np.sqrt(dim)` -/
def qst_row {K : Type} [Div K] [Zero K] (flag : Bool) (r : K) (vec : List K) : Option (List K × K) :=
  if flag then (match vec[0]? with | some x0 => some ((List.drop 1 vec), (x0 / r)) | none => none)
  else some (vec, 0)

/-- quara/protocol/qtomography/standard/standard_qpt.py:252 `calc_c_qpt`: items of the schedule naming the tester state / tester POVM -/
def qpt_state_item : Int := 0
def qpt_povm_item : Int := 2

/-- quara/protocol/qtomography/standard/standard_qpt.py: dictionary key -/
def qpt_key (schedule_index element_index : Nat) : Nat × Nat := (schedule_index, element_index)

/-- quara/protocol/qtomography/standard/standard_qpt.py:273 `c = np.outer(povm_vec, state.vec).flatten()` -/
def qpt_c {K : Type} [Mul K] (povm_vec state_vec : List K) : List K := QM.C08.outerFlat povm_vec state_vec

/-- quara/protocol/qtomography/standard/standard_qpt.py:272 the pair `(coeffs_1st[key], coeffs_0th[key])` from the row `c`; `n` = `state.vec.shape[0]` -/
def qpt_row {K : Type} [Zero K] (flag : Bool) (n : Nat) (c : List K) : Option (List K × K) :=
  if flag then (match c[0]? with | some x0 => some ((List.drop n c), x0) | none => none)
  else some (c, 0)

/-- quara/protocol/qtomography/standard/standard_povmt.py:259 `_set_coeffs`: item of the schedule naming the tester state -/
def povmt_state_item : Int := 0

def povmt_key (schedule_index element_index : Nat) : Nat × Nat := (schedule_index, element_index)

/-- quara/protocol/qtomography/standard/standard_povmt.py:277 one row of `_set_coeffs` (hstack order, zero paddings, split point, tile count and offset read from the source); `r` = `np.sqrt(dim)`, `rho` = `state.vec` -/
def povmt_row {K : Type} [Mul K] [Sub K] [Zero K] (flag : Bool) (r : K) (m : Nat) (rho : List K) (m_index : Nat) :
    Option (List K × K) :=
  let vec_size := rho.length
  let c := QM.C08.zeros ((m_index * vec_size)) ++ rho ++ QM.C08.zeros ((((m - 1) - m_index) * vec_size))
  if flag then
    let a_prime := c.take ((vec_size * (m - 1)))
    let c_prime := c.drop ((vec_size * (m - 1)))
    (match c_prime[0]? with | some x0 => some (QM.C08.lsub a_prime (QM.C08.tile ((m - 1)) c_prime), (r * x0)) | none => none)
  else some (c, 0)

/-- quara/protocol/qtomography/standard/standard_qmpt.py:280 `cqpt_to_cqmpt` statement by statement (block_diag / hstack / vstack on lists of rows) -/
def cqpt_to_cqmpt {K : Type} [Neg K] [Zero K] (flag : Bool) (dim m : Nat) (c_qpt : List (List K)) :
    Option (List (List K) × List K) :=
  if flag then
    let d_qpt : List (List K) := (QM.C08.colsTo (dim ^ 2) c_qpt)
    let e_qpt : List (List K) := (QM.C08.colsFrom (dim ^ 2) c_qpt)
    let a_0_left : List (List K) := (QM.C08.blockDiagRep (m - 1) c_qpt)
    let a_0_right : List (List K) := (QM.C08.zerosMat a_0_left.length (QM.C08.matWidth e_qpt))
    let a_0 : List (List K) := (QM.C08.hstack2 a_0_left a_0_right)
    let d_dash : List (List K) := (QM.C08.hstack2 (QM.C08.negMat d_qpt) (QM.C08.zerosMat d_qpt.length ((QM.C08.matWidth c_qpt) - (QM.C08.matWidth d_qpt))))
    let a_1 : List (List K) := (QM.C08.hstackRep (m - 1) d_dash e_qpt)
    let a_qmpt : List (List K) := (a_0 ++ a_1)
    let b_0 : List K := (QM.C08.zeros (d_qpt.length * (m - 1)))
    match (QM.C08.colAt? 0 d_qpt) with
    | none => none
    | some b_1 =>
      let b_qmpt : List K := (b_0 ++ b_1)
      some (a_qmpt, b_qmpt)
  else
    let c_qmpt : List (List K) := (QM.C08.blockDiagRep m c_qpt)
    let a_qmpt : List (List K) := c_qmpt
    let b_qmpt : List K := (QM.C08.zeros c_qmpt.length)
    some (a_qmpt, b_qmpt)

def qmpt_key (schedule_index element_index : Nat) : Nat × Nat := (schedule_index, element_index)

/-- quara/protocol/qtomography/standard/standard_qmpt.py:280 `cqpt_to_cqmpt`: columns of `d_qpt` / start of `e_qpt`, number of diagonal blocks with and without the flag, column of `d_qpt` that gives `b_1` -/
def qmpt_d_cols (dim : Nat) : Nat := (dim ^ 2)
def qmpt_e_from (dim : Nat) : Nat := (dim ^ 2)
def qmpt_blocks_flag (m : Nat) : Nat := (m - 1)
def qmpt_blocks (m : Nat) : Nat := m
def qmpt_b1_col : Nat := 0
/-- quara/protocol/qtomography/standard/standard_qmpt.py:114 `num_outcomes` -/
def qmpt_num_outcomes (num_outcomes_povm num_outcomes_mprocess : Nat) : Nat := (num_outcomes_povm * num_outcomes_mprocess)

/-! Checked structurally by the translator (it raises otherwise, nothing is generated for them): `calc_matA / calc_vecB` = `sorted(dict.items())` → values → vstack; `calc_prob_dists` = `matA @ var + vecB`, `reshape((num_schedules, -1))`, `truncate_and_normalize`; `calc_prob_dist` = entry `[schedule_index]`. -/

end QGen.C08
