/-! GENERATED on every run by harness/c01.py:translate from the Python sources of quara — do not edit.
Effective relative tolerance of every `isclose/allclose` call site inside the verdict functions anchored by C01
(absent `rtol` keyword ⇒ the callee's default, numpy: 1e-5) and the default absolute tolerance of `Settings`.
Every site passes the caller's `atol` (checked by the translator; anything else makes it fail). -/
namespace QGen.C01

/-- quara/objects/state.py:434 `np.isclose(tr, 1, atol=atol)`  (rtol keyword absent: default) -/
def state_is_trace_one_rtol : Rat := (mkRat (1) 100000)

/-- quara/objects/povm.py:601 `np.allclose(sum_matrix, identity, atol=atol)`  (rtol keyword absent: default) -/
def povm_is_identity_sum_rtol : Rat := (mkRat (1) 100000)

/-- quara/objects/gate.py:585 `np.allclose(hs[0], expected_row, atol=atol, rtol=0.0)` -/
def gate_is_tp_row_rtol : Rat := (0 : Rat)

/-- quara/objects/gate.py:604 `np.isclose(trace_after_mapped, trace_before_mapped, atol=atol, rtol=0.0)` -/
def gate_is_tp_trace_rtol : Rat := (0 : Rat)

/-- quara/utils/matrix_util.py:101 `allclose(matrix, adjoint, atol=atol, rtol=0.0)` -/
def mutil_is_hermitian_rtol : Rat := (0 : Rat)

/-- quara/utils/matrix_util.py:124 `np.isclose(eigvals_array, 0, atol=atol, rtol=0.0)` -/
def mutil_is_psd_eig_rtol : Rat := (0 : Rat)

/-- quara/objects/matrix_basis.py:140 `np.isclose(i_product, 0, atol=Settings.get_atol())`  (rtol keyword absent: default) -/
def mb_is_orthogonal_rtol : Rat := (mkRat (1) 100000)

/-- quara/objects/matrix_basis.py:155 `np.isclose(i_product, 1, atol=Settings.get_atol())`  (rtol keyword absent: default) -/
def mb_is_normal_rtol : Rat := (mkRat (1) 100000)

/-- quara/objects/matrix_basis.py:264 `np.isclose(i_product, 0, atol=Settings.get_atol())`  (rtol keyword absent: default) -/
def smb_is_orthogonal_rtol : Rat := (mkRat (1) 100000)

/-- quara/objects/matrix_basis.py:249 `mutil.isclose(i_product, 1, atol=Settings.get_atol())`  (rtol keyword absent: default) -/
def smb_is_normal_rtol : Rat := (mkRat (1) 100000)

/-- quara/settings.py `Settings.__atol` -/
def settings_atol : Rat := (mkRat (1) 10000000000000)

/-! decision wiring (boolean skeletons of the source; operands are parameters) -/

/-- quara/objects/qoperation.py:QOperation.is_physical:242 `return self.is_eq_constraint_satisfied(atol_eq_const) and self.is_ineq_constraint_satisfied(atol_ineq_const)` — `eq` / `ineq` are the sub-verdicts as functions of the
(optional) tolerance handed to them -/
def is_physical (eq ineq : Option Rat → Bool) (atol_eq_const atol_ineq_const : Option Rat) : Bool :=
  (eq atol_eq_const && ineq atol_ineq_const)

/-- quara/objects/state.py:State.__init__:101 `if self.is_physicality_required and (not self.is_physical()): raise ValueError` -/
def state_ctor_raises (required physical : Bool) : Bool :=
  (required && (!physical))

/-- quara/objects/povm.py:Povm.__init__:109 `if self.is_physicality_required and (not self.is_physical()): raise ValueError` -/
def povm_ctor_raises (required physical : Bool) : Bool :=
  (required && (!physical))

/-- quara/objects/gate.py:Gate.__init__:100 `if self.is_physicality_required and (not self.is_physical()): raise ValueError` -/
def gate_ctor_raises (required physical : Bool) : Bool :=
  (required && (!physical))

/-- quara/objects/mprocess.py:MProcess.__init__:105 `if self.is_physicality_required and (not self.is_physical()): raise ValueError` -/
def mprocess_ctor_raises (required physical : Bool) : Bool :=
  (required && (!physical))

/-- quara/objects/elemental_system.py:ElementalSystem.__init__:38 the orthonormal-Hermitian-identity-first flag of one subsystem -/
def elemental_flag (is_normal is_orthogonal is_hermitian is_0thpropI : Bool) : Bool :=
  (is_normal && is_orthogonal && is_hermitian && is_0thpropI)

/-- quara/objects/composite_system.py:CompositeSystem.__init__:65 `self._is_orthonormal_hermitian_0thprop_identity = all(is_orthonormal_hermitian_0thpropIs)` -/
def composite_flag (flags : List Bool) : Bool :=
  flags.all id

/-- quara/objects/gate.py:581 gate.is_tp takes the first-row test exactly when this is true -/
def is_tp_first_row_branch (c_sys_flag : Bool) : Bool :=
  c_sys_flag

end QGen.C01
