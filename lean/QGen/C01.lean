/-! GENERATED on every run by harness/c01.py:translate from the Python sources of quara — do not edit.
Effective relative tolerance of every `isclose/allclose` call site inside the verdict functions anchored by C01
(absent `rtol` keyword ⇒ the callee's default, numpy: 1e-5) and the default absolute tolerance of `Settings`.
Every site passes the caller's `atol` (checked by the translator; anything else makes it fail). -/
namespace QGen.C01

/-- quara/objects/state.py:434 `np.isclose(tr, 1, atol=atol)`  (rtol keyword absent: default) -/
def state_is_trace_one_rtol : Rat := (mkRat (1) 100000)

/-- quara/objects/povm.py:601 `np.allclose(sum_matrix, identity, atol=atol)`  (rtol keyword absent: default) -/
def povm_is_identity_sum_rtol : Rat := (mkRat (1) 100000)

/-- quara/objects/gate.py:581 `np.allclose(hs[0], expected_row, atol=atol, rtol=0.0)` -/
def gate_is_tp_row_rtol : Rat := (0 : Rat)

/-- quara/objects/gate.py:600 `np.isclose(trace_after_mapped, trace_before_mapped, atol=atol, rtol=0.0)` -/
def gate_is_tp_trace_rtol : Rat := (0 : Rat)

/-- quara/utils/matrix_util.py:101 `allclose(matrix, adjoint, atol=atol, rtol=0.0)` -/
def mutil_is_hermitian_rtol : Rat := (0 : Rat)

/-- quara/utils/matrix_util.py:124 `np.isclose(eigvals_array, 0, atol=atol, rtol=0.0)` -/
def mutil_is_psd_eig_rtol : Rat := (0 : Rat)

/-- quara/settings.py `Settings.__atol` -/
def settings_atol : Rat := (mkRat (1) 10000000000000)

end QGen.C01
