/-! GENERATED on every run by harness/c20_translate.py from quara/qcircuit/experiment.py and
quara/protocol/qtomography/standard/standard_{qst,povmt,qpt,qmpt,qtomography}.py - do not edit.
Literal tables of the schedule validation; QModel.C20 / QProps.C20 are stated about these. -/
namespace QGen.C20
def kinds : List String := ["state", "povm", "gate", "mprocess"]
def needNonEmpty : List String := ["povm", "mprocess"]
def minLen : Nat := 2
def firstKind : String := "state"
def lastKinds : List String := ["povm", "mprocess"]
def limits : List (String × Nat) := [("state", 2), ("povm", 2)]
def supportedStrs : List String := ["all"]
/-! the four list setters (states, povms, gates, mprocesses): for each, what `objdict` holds under the keys
state, povm, gate, mprocess (0..3 = the experiment's own states / povms / gates / mprocesses list, 4 = the new value),
and which own list is assigned on success -/
def setterDicts : List (List Nat) := [[4, 1, 2, 3], [0, 4, 2, 3], [0, 1, 4, 3], [0, 1, 2, 4]]
def setterAssigns : List Nat := [0, 1, 2, 3]
/-! per tomography class: positional kind tests `schedule[p][0] != k`, the position whose index must be 0, the optional
leading length test `len(schedule) != n` (none = the class has no such test),
and the lists handed to `Experiment` (states, povms, gates, mprocesses): 0 = `[]`/absent, 1 = `[None]`,
2 = the constructor's parameter of the same name -/
def qstPos : List (Nat × String) := [(0, "state"), (1, "povm")]
def qstZero : Nat := 0
def qstLen : Option Nat := none
def qstLists : List Nat := [1, 2, 0, 0]
def povmtPos : List (Nat × String) := [(0, "state"), (1, "povm")]
def povmtZero : Nat := 1
def povmtLen : Option Nat := none
def povmtLists : List Nat := [2, 1, 0, 0]
def qptPos : List (Nat × String) := [(0, "state"), (1, "gate"), (2, "povm")]
def qptZero : Nat := 1
def qptLen : Option Nat := none
def qptLists : List Nat := [2, 2, 1, 0]
def qmptPos : List (Nat × String) := [(0, "state"), (1, "mprocess"), (2, "povm")]
def qmptZero : Nat := 1
def qmptLen : Option Nat := some 3
def qmptLists : List Nat := [2, 2, 0, 1]
end QGen.C20
