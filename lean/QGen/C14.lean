/-! GENERATED on every run by harness/c14_translate.py from quara/qcircuit/data_generator.py and
quara/utils/number_util.py - do not edit. QModel.C14 is defined with these; QProps.C14 is stated about them. -/
namespace QGen.C14
/-- `if random_number < cumulative_sum:` of `_random_number_to_data` (u = random number, c = running sum) -/
def hit (u c : Rat) : Bool := decide (u < c)
/-- start value of the running sum -/
def cumStart : Rat := 0
/-- the backward loop after a fall-through: `for index in range(len - 1, -1, -1): if probdist[index] > 0: return index` -/
def fallKeep (p : Rat) : Bool := decide (p > 0)
/-- the final `return len(probdist) - 1` (no entry passes the backward test) -/
def fallThrough (len : Int) : Int := len - 1
/-- `to_stream`: what the branches for `None`, an `int`, anything else return.
0 = numpy's global state (`np.random`), 1 = a fresh `Generator(MT19937(seed))`, 2 = the argument itself -/
def streamOfNone : Nat := 0
def streamOfInt : Nat := 1
def streamOfOther : Nat := 2
/-! `calc_empi_dist_sequence`: its tests and offsets -/
/-- `if measurement_num < 0: raise` -/
def empiNegative (m : Int) : Bool := decide (m < 0)
/-- `if next_num_sum > len(data): raise` (both occurrences) -/
def empiTooLarge (n len : Int) : Bool := decide (n > len)
/-- `if not 0 <= d < measurement_num: raise` (the positive condition) -/
def empiInRange (d m : Int) : Bool := decide (0 ≤ d ∧ d < m)
/-- `if index + 1 == next_num_sum:` -/
def empiHit (index : Nat) (next : Int) : Bool := decide ((index : Int) + 1 = next)
/-- divisor of `cumulative_frequency / (index + 1)` -/
def empiDiv (index : Nat) : Nat := index + 1
/-- `if former_num_sum >= next_num_sum: raise` -/
def empiNotIncreasing (former next : Int) : Bool := decide (former ≥ next)
end QGen.C14
