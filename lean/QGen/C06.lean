/-! GENERATED on every run by harness/c06.py:translate (harness/c06_translate.py) from quara/objects/operators.py — do not edit.
Import-free; the scalar/matrix operations are parameters. -/
namespace QGen.C06

/-! ### operators.py:544 `_compose_qoperations_MProcess_MProcess` -/

/-- the nested loops and the `@` product -/
def mmCompose {α : Type} (matmul : α → α → α) (hss1 hss2 : List α) : List α :=
  hss2.flatMap fun hs2 => hss1.map fun hs1 => matmul hs1 hs2

/-- the reported shape -/
def mmShape (shape1 shape2 : List Nat) : List Nat :=
  shape2 ++ shape1

/-! ### operators.py:704 `_compose_qoperations_Povm_MProcess` -/

/-- the nested loops; `tmv hs v` stands for `hs.T @ v` -/
def pmCompose {μ ν : Type} (tmv : μ → ν → ν) (vecs : List ν) (hss : List μ) : List ν :=
  hss.flatMap fun hs => vecs.map fun vec => tmv hs vec

/-! ### operators.py:658 `_compose_qoperations_MProcess_StateEnsemble` -/

def meShape (ensShape mpShape : List Nat) : List Nat :=
  ensShape ++ mpShape

/-! ### operators.py:724 `_compose_qoperations_Povm_StateEnsemble` -/

def peShape (ensShape nums : List Nat) : List Nat :=
  ensShape ++ nums

/-! ### operators.py:569 `_compose_qoperations_MProcess_State_for_States` -/

/-- the truncation test `weight * p_x <= elem1.eps_zero` -/
def truncated {K : Type} [Mul K] [LE K] [DecidableLE K] (weight p_x eps_zero : K) : Bool :=
  decide (weight * p_x ≤ eps_zero)

/-- the post states are divided by the probabilities taken before the renormalisation -/
def postStatesUseRaw : Bool := true

/-! ### operators.py:426 `_compose_qoperations`: the `eps_zero` handed to the composite
(`eps1` / `eps2` = `elem1.eps_zero` / `elem2.eps_zero`) -/

def gmEps (eps1 eps2 : Rat) : Rat := eps2
def mgEps (eps1 eps2 : Rat) : Rat := eps1
def mmEps (eps1 eps2 : Rat) : Rat := (if eps1 < eps2 then eps2 else eps1)
def geEps (eps1 eps2 : Rat) : Rat := eps2

end QGen.C06
