import QModel.C02
/-! GENERATED on every run by harness/c02gen.py (ast skeleton matcher) from the Python sources of quara — do not edit.
Each definition is the translation of ONE expression of the conversion code; QProps/C02.lean proves that the hand-written
model QModel.C02 is built from exactly these terms. -/
set_option linter.unusedVariables false
namespace QGen.C02
open QM QM.C02

/-- gate.py:to_choi_from_hs `tmp = hs[alpha][beta] * bb` -/
def choiLoopTerm {K : Type} [Add K] [Mul K] [Zero K] [HasConj K] {m : Nat} (hs bb : Mat K m m) (alpha beta : Fin m) : Mat K m m :=
  Mat.smul ((hs).get alpha beta) (bb)

/-- gate.py:to_choi_from_hs_with_dict `choi[i, j] += hs[alpha, beta] * coefficient` -/
def choiDictTerm {K : Type} [Add K] [Mul K] [Zero K] [HasConj K] {m : Nat} (hs : Mat K m m) (alpha beta : Fin m) (coefficient : K) : K :=
  ((hs).get alpha beta * coefficient)

/-- gate.py:to_choi_from_hs_with_sparsity reshape of the sparse product -/
def choiShape (dim : Nat) : Nat × Nat :=
  ((dim ^ 2), (dim ^ 2))

/-- gate.py:to_hs_from_choi `b_bc_dag = np.conjugate(b_bc.T)`; `tr = (b_bc_dag @ choi).diagonal().sum()` -/
def hsLoopEntry {K : Type} [Add K] [Mul K] [Zero K] [HasConj K] {m : Nat} (b_bc choi : Mat K m m) : K :=
  Mat.trace (Mat.mul (conjM (Mat.transpose (b_bc))) (choi))

/-- gate.py:to_hs_from_choi_with_dict `hs[alpha, beta] += coefficient * choi[j, i]` -/
def hsDictTerm {K : Type} [Add K] [Mul K] [Zero K] [HasConj K] {m : Nat} (choi : Mat K m m) (i j : Fin m) (coefficient : K) : K :=
  (coefficient * (choi).get j i)

/-- gate.py:convert_hs `[vdot(B_alpha, B_beta) for B_alpha, B_beta in itertools.product(to_basis, from_basis)]` reshaped (n, n) -/
def convertHsU {K : Type} [Add K] [Mul K] [Zero K] [HasConj K] {d n : Nat} (from_basis to_basis : Basis K d n) : Mat K n n :=
  Mat.ofFn fun a b => vdot ((to_basis.get a)) ((from_basis.get b))

/-- gate.py:convert_hs `to_hs = U @ from_hs @ U.conj().T` -/
def convertHsFormula {K : Type} [Add K] [Mul K] [Zero K] [HasConj K] {n : Nat} (U from_hs : Mat K n n) : Mat K n n :=
  Mat.mul (Mat.mul (U) (from_hs)) (Mat.transpose (conjM (U)))

/-- matrix_basis.py:convert_vec `[mutil.vdot(val1, val2) for val1, val2 in itertools.product(to_basis, from_basis)]` reshaped (n, n) -/
def convertVecRep {K : Type} [Add K] [Mul K] [Zero K] [HasConj K] {d n : Nat} (from_basis to_basis : Basis K d n) : Mat K n n :=
  Mat.ofFn fun a b => vdot ((to_basis.get a)) ((from_basis.get b))

/-- matrix_basis.py:convert_vec `converted_vec = rep_mat @ from_vec` -/
def convertVecFormula {K : Type} [Add K] [Mul K] [Zero K] [HasConj K] {n : Nat} (rep_mat : Mat K n n) (from_vec : Vec K n) : Vec K n :=
  Mat.mulVec (rep_mat) (from_vec)

/-- gate.py:to_hs_from_kraus_matrices `[np.kron(mat, mat.conjugate()) for mat in kraus]` -/
def krausTensorTerm {K : Type} [Add K] [Mul K] [Zero K] [HasConj K] {d : Nat} (mat : Mat K d d) : Mat K (d * d) (d * d) :=
  kron (mat) (conjM (mat))

/-- gate.py:to_process_matrix_from_hs `(mutil.kron(B_alpha.conj().T, B_beta.T) @ hs_comp).diagonal().sum()` -/
def processEntry {K : Type} [Add K] [Mul K] [Zero K] [HasConj K] {d : Nat} (B_alpha B_beta : Mat K d d) (hs_comp : Mat K (d * d) (d * d)) : K :=
  Mat.trace (Mat.mul (kron (Mat.transpose (conjM (B_alpha))) (Mat.transpose (B_beta))) (hs_comp))

/-- gate.py:to_var_from_choi `hs = to_hs_from_choi_with_sparsity(c_sys, choi)` -/
def toVarFromChoiHs {K : Type} [Add K] [Mul K] [Zero K] [HasConj K] {d : Nat} (B : Basis K d (d * d)) (choi : Mat K (d * d) (d * d)) : Mat K (d * d) (d * d) :=
  hsOfChoiSparseRaw B choi

/-- gate.py:to_choi_from_var `choi = to_choi_from_hs_with_sparsity(c_sys, hs)` -/
def toChoiFromVarChoi {K : Type} [Add K] [Mul K] [Zero K] [HasConj K] {d : Nat} (B : Basis K d (d * d)) (hs : Mat K (d * d) (d * d)) : Mat K (d * d) (d * d) :=
  choiSparse B hs

/-- state.py:to_density_matrix_from_vec `density_vec = c_sys.basis_T_sparse.dot(vec)`; `density = density_vec.reshape((c_sys.dim, c_sys.dim))` -/
def densitySparseTerm {K : Type} [Add K] [Mul K] [Zero K] [HasConj K] {d n : Nat} (B : Basis K d n) (vec : Vec K n) : Mat K d d :=
  unflat (Mat.mulVec (basisT B) (vec))

/-- state.py:to_vec_from_density_matrix_with_sparsity `vec = c_sys.basisconjugate_sparse.dot(mutil.flatten(density_matrix))` -/
def vecOfDensityTerm {K : Type} [Add K] [Mul K] [Zero K] [HasConj K] {d n : Nat} (B : Basis K d n) (density_matrix : Mat K d d) : Vec K n :=
  Mat.mulVec (basisConj B) (flat (density_matrix))

/-- povm.py:to_vec_from_matrix_with_sparsity `vec = c_sys.basisconjugate_sparse.dot(matrix.flatten())` -/
def povmVecOfMatrixTerm {K : Type} [Add K] [Mul K] [Zero K] [HasConj K] {d n : Nat} (B : Basis K d n) (matrix : Mat K d d) : Vec K n :=
  Mat.mulVec (basisConj B) (flat (matrix))

/-- povm.py:Povm.matrix_with_sparsity `vec = self.vec(index)`; `new_vec = self.composite_system.basis_T_sparse.dot(vec)`; `matrix = new_vec.reshape((self.dim, self.dim))` -/
def povmMatrixSparseTerm {K : Type} [Add K] [Mul K] [Zero K] [HasConj K] {d n : Nat} (B : Basis K d n) (vec : Vec K n) : Mat K d d :=
  unflat (Mat.mulVec (basisT B) (vec))

/-- State.to_density_matrix `for coefficient, basis in zip(self._vec, self.composite_system.basis()): density += coefficient * basis` -/
def densityLoopTerm {K : Type} [Add K] [Mul K] [Zero K] [HasConj K] {d : Nat} (acc : Mat K d d) (coefficient : K) (basis : Mat K d d) : Mat K d d :=
  Mat.add acc (Mat.smul (coefficient) (basis))

/-- Povm.matrices `for coefficient, basis in zip(v, self.composite_system.basis()): matrix += coefficient * basis` -/
def povmMatricesLoopTerm {K : Type} [Add K] [Mul K] [Zero K] [HasConj K] {d : Nat} (acc : Mat K d d) (coefficient : K) (basis : Mat K d d) : Mat K d d :=
  Mat.add acc (Mat.smul (coefficient) (basis))

/-- Povm.matrix `for coefficient, basis in zip(vec, self.composite_system.basis()): matrix += coefficient * basis` -/
def povmMatrixLoopTerm {K : Type} [Add K] [Mul K] [Zero K] [HasConj K] {d : Nat} (acc : Mat K d d) (coefficient : K) (basis : Mat K d d) : Mat K d d :=
  Mat.add acc (Mat.smul (coefficient) (basis))

/-- composite_system.py:basis_basisconjugate `b_alpha = basis[alpha]`; `b_beta_conj = np.conjugate(basis[beta])`; `matrix = matrix_util.kron(b_alpha, b_beta_conj)` -/
def bbc_dense {K : Type} [Mul K] [HasConj K] {d n : Nat} (basis : Basis K d n) (alpha beta : Fin n) : Mat K (d * d) (d * d) :=
  kron ((basis).get alpha) (conjM ((basis).get beta))

/-- composite_system.py:dict_from_hs_to_choi `b_alpha = basis[alpha]`; `b_beta_conj = np.conjugate(basis[beta])`; `matrix = matrix_util.kron(b_alpha, b_beta_conj)` -/
def bbc_dictFwd {K : Type} [Mul K] [HasConj K] {d n : Nat} (basis : Basis K d n) (alpha beta : Fin n) : Mat K (d * d) (d * d) :=
  kron ((basis).get alpha) (conjM ((basis).get beta))

/-- composite_system.py:dict_from_choi_to_hs `b_alpha = basis[alpha]`; `b_beta_conj = np.conjugate(basis[beta])`; `matrix = matrix_util.kron(b_alpha, b_beta_conj)` -/
def bbc_dictInv {K : Type} [Mul K] [HasConj K] {d n : Nat} (basis : Basis K d n) (alpha beta : Fin n) : Mat K (d * d) (d * d) :=
  kron ((basis).get alpha) (conjM ((basis).get beta))

/-- composite_system.py:_calc_basis_basisconjugate_sparse `b_alpha = basis[alpha]`; `b_beta_conj = np.conjugate(basis[beta])`; `matrix = sparse.kron(b_alpha, b_beta_conj, format='csr')` -/
def bbc_sparse {K : Type} [Mul K] [HasConj K] {d n : Nat} (basis : Basis K d n) (alpha beta : Fin n) : Mat K (d * d) (d * d) :=
  kron ((basis).get alpha) (conjM ((basis).get beta))

/-- composite_system.py:_calc_basis_basisconjugate_sparse `element_size = basis[0].shape[0] ** 2 ** 2` -/
def elementSize (d : Nat) : Nat :=
  (d ^ (2 ^ 2))

/-- composite_system.py:_calc_basis_sparse `basis_tmp.append(matrix_util.flatten(b_alpha))` -/
def basisRow {K : Type} [HasConj K] {d : Nat} (b_alpha : Mat K d d) : Vec K (d * d) :=
  flat (b_alpha)

/-- composite_system.py:_calc_basis_sparse `basisconjugate_tmp.append(matrix_util.flatten(b_alpha.conjugate()))` -/
def basisConjRow {K : Type} [HasConj K] {d : Nat} (b_alpha : Mat K d d) : Vec K (d * d) :=
  flat (conjM (b_alpha))

/-- matrix_basis.py:calc_matrix_expansion_coefficient `for bi in basis: c = np.trace(np.conjugate(np.transpose(bi)) @ from_mat)` -/
def expansionCoeff {K : Type} [Add K] [Mul K] [Zero K] [HasConj K] {d : Nat} (bi from_mat : Mat K d d) : K :=
  Mat.trace (Mat.mul (conjM (Mat.transpose (bi))) (from_mat))

/-- matrix_basis.py:calc_mat_from_coefficient_basis `for i, bi in enumerate(basis): ci = coeff[i]; mat += ci * bi` -/
def matFromCoeffTerm {K : Type} [Add K] [Mul K] [Zero K] [HasConj K] {d : Nat} (acc : Mat K d d) (ci : K) (bi : Mat K d d) : Mat K d d :=
  Mat.add acc (Mat.smul (ci) (bi))

/-- matrix_basis.py:get_comp_basis position of the 1 in the basis element built at loop step (outer, inner) -/
def compEntry (rowMajor : Bool) (outer inner : Nat) : Nat × Nat :=
  if rowMajor then (outer, inner) else (inner, outer)

/-- matrix_util.py:vdot `return np.vdot(a, b)` -/
def mutilVdot {K : Type} [Add K] [Mul K] [Zero K] [HasConj K] {m n : Nat} (a b : Mat K m n) : K :=
  vdot (a) (b)

/-- matrix_util.py:flatten `return matrix.flatten()` -/
def mutilFlatten {K : Type} {m n : Nat} (matrix : Mat K m n) : Vec K (m * n) :=
  flat (matrix)

/-- matrix_util.py:truncate_imaginary_part `return np.where(np.abs(matrix.imag) < eps, matrix.real, matrix)` (entrywise condition) -/
def truncImagCond (eps : Rat) (z : CRat) : Bool :=
  decide (rabs ((z).im) < eps)

/-- matrix_util.py:truncate_computational_fluctuation `return np.where(np.abs(matrix) < eps, 0.0, matrix)` (entrywise condition, on the real matrix) -/
def truncFluctCond (eps : Rat) (x : Rat) : Bool :=
  decide (rabs (x) < eps)

/-- matrix_util.py:truncate_hs: statement skeleton `truncate_imaginary_part; if any(imag != 0): raise; .real; truncate_computational_fluctuation` matched -/
def truncEntryGen (eps : Rat) (z : CRat) : Except Err Rat :=
  if !(truncImagCond eps z) && z.im != 0 then .error .imagNonZero
  else .ok (if truncFluctCond eps z.re then 0 else z.re)

/-- gate.py:convert_hs parameter checks: `if size[0] != size[1]: raise`; `if dim ** 2 != size[0]: raise`; `if from_basis.dim != to_basis.dim: raise`; `if len(from_basis) != len(to_basis): raise` -/
def convertHsChecksGen (rows cols fromDim fromLen toDim toLen : Nat) : Except Err Unit :=
  if rows ≠ cols then .error .notSquare
  else if (Nat.sqrt rows) ^ 2 ≠ rows then .error .dimNotSquare
  else if fromDim ≠ toDim then .error .dimMismatch
  else if fromLen ≠ toLen then .error .lenMismatch
  else .ok ()

/-- matrix_basis.py:convert_vec parameter checks: `if len(from_basis) != len(to_basis): raise`; `if from_basis.dim != to_basis.dim: raise` -/
def convertVecChecksGen (fromDim fromLen toDim toLen : Nat) : Except Err Unit :=
  if fromLen ≠ toLen then .error .lenMismatch
  else if fromDim ≠ toDim then .error .dimMismatch
  else .ok ()

/-- gate.py:to_kraus_matrices_from_hs `[… for (eigen_val, eigen_vec) in eigens if not np.isclose(eigen_val, 0, atol=Settings.get_atol())]` (np.isclose(x, 0, atol=a) is |x| <= a) -/
def krausKeep {d : Nat} (atolSettings : Rat) (e : EigPair d) : Bool :=
  !closeZero e.val atolSettings

/-- gate.py:to_kraus_matrices_from_hs `eigens = sorted(eigens, key=lambda x: x[0], reverse=True)` (stable, largest eigenvalue first) -/
def krausSort {d : Nat} (l : List (EigPair d)) : List (EigPair d) :=
  sortDesc l

/-- gate.py:to_kraus_matrices_from_hs `np.sqrt(eigen_val) * eigen_vec.reshape((c_sys.dim, c_sys.dim))` (np.sqrt(eigen_val) is the kernel parameter sqrtVal) -/
def krausScale {d : Nat} (e : EigPair d) : Mat CRat d d :=
  Mat.smul (CRat.ofRat e.sqrtVal) (unflat e.vec)

/-- gate.py:to_kraus_matrices_from_hs step 3: `for i, value in enumerate(k.flatten()): if value == 0: continue / elif value < 0: e_i_theta = value / abs(value); _k = 1 / e_i_theta * k / else: k` and the loop's `else: k` (abs is the kernel parameter absFlat; `<` on complex is numpy's lexicographic order) -/
def phaseFactorGen {d : Nat} (k : Mat CRat d d) (absFlat : Vec Rat (d * d)) : CRat :=
  match (List.finRange (d * d)).find? (fun x => (flat k).get x != 0) with
  | none => 1
  | some x =>
    let value := (flat k).get x
    if cLtZero value then cInv (value * CRat.ofRat (1 / absFlat.get x)) else 1

/-- gate.py:to_kraus_matrices_from_hs step 3: `_k = 1 / e_i_theta * k` -/
def phaseFixGen {d : Nat} (k : Mat CRat d d) (absFlat : Vec Rat (d * d)) : Mat CRat d d :=
  Mat.smul (phaseFactorGen k absFlat) k

/-- gate.py:is_cp = mutil.is_positive_semidefinite(sparse Choi, atol): `if is_hermitian(matrix, atol): … np.all(eigvals_not_close_zero >= 0) else: return False` with `close_zero = np.isclose(eigvals, 0, atol=atol, rtol=0.0)` (eigvalsh is the kernel parameter) -/
def isCpGen {d : Nat} (choi : Mat CRat (d * d) (d * d)) (eigs : List (EigPair d)) (atol : Rat) : Bool :=
  isHermitian choi atol && eigs.all fun e => closeZero e.val atol || decide (0 ≤ e.val)

/-- gate.py:convert_var_to_hs `np.insert(reshaped, 0, np.eye(1, dim ** 2), axis=0)`: index of the inserted row `np.eye(1, dim ** 2)` (axis 0) -/
def varRowIndex : Nat :=
  0

/-- gate.py:convert_hs_to_var `np.delete(hs, 0, axis=0).flatten()`: index of the deleted row (axis 0) -/
def varRowDeleted : Nat :=
  0

-- povm.py:Povm._md_index2serial_index matched the row-major index-table skeleton (generator-side guard: a different body makes
-- the generator fail; the model's `mdSerial` is tied to it by the correspondence on all multi-indices, not by a theorem)

end QGen.C02
