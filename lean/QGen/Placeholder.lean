/-! placeholder so that the QGen library is never empty; real fragments are written by translate() -/
