/-! GENERATED on every run by harness/c07.py:translate (harness/c07_translate.py) from quara/utils/matrix_util.py — do not edit.
Import-free. Integer expressions are over `Nat` (the loop only produces positions ≥ 1). -/
namespace QGen.C07

/-- `reduce(mul, l)` / `reduce(add, l)` on a non-empty list -/
def redMul (l : List Nat) : Nat := l.foldl (· * ·) 1
def redAdd (l : List Nat) : Nat := l.foldl (· + ·) 0

/-! ### quara/utils/matrix_util.py:676 `_left_permutation_matrix` -/

/-- size of `I_head` -/
def headSize (position : Nat) (size_list : List Nat) : Nat :=
  if position < 2 then 1 else redMul (size_list.take (position - 1))

/-- the two arguments of `_K(…)` (`none` = IndexError) -/
def kArgs (position : Nat) (size_list : List Nat) : Option Nat × Option Nat :=
  (size_list[position]?, size_list[(position - 1)]?)

/-- size of `I_tail` -/
def tailSize (position : Nat) (size_list : List Nat) : Nat :=
  if position < (size_list.length - 1) then redMul (size_list.drop (position + 1)) else 1

/-! ### quara/utils/matrix_util.py:716 `calc_permutation_matrix` -/

/-- `perm_matrix = left_perm @ perm_matrix` has the new factor on the left -/
def accumOnLeft : Bool := true

/-- new `(tmp_system_order[position-1], tmp_system_order[position])` from the old pair `p` -/
def swapOrder (p : Nat × Nat) : Nat × Nat := (p.2, p.1)

/-- new `(tmp_size_list[position-1], tmp_size_list[position])` from the old pair `p` -/
def swapSizes (p : Nat × Nat) : Nat × Nat := (p.2, p.1)

end QGen.C07
