import QModel.C09
/-! GENERATED on every run by harness/c09.py:translate (harness/pymat2lean.py) from the Python sources of quara — do not edit. -/
namespace QGen.C09

/-- quara/protocol/qtomography/standard/linear_estimator.py:62 `A_ddag = np.linalg.inv(A.T @ A) @ A.T` (computed once, before the loop over datasets);
`inv` stands for `np.linalg.inv` -/
def A_ddag {K : Type} [Add K] [Mul K] [Zero K] {m n : Nat} (inv : QM.Mat K n n → QM.Mat K n n) (A : QM.Mat K m n) :
    QM.Mat K n m :=
  (QM.Mat.mul (inv (QM.Mat.mul (QM.Mat.transpose A) A)) (QM.Mat.transpose A))

/-- quara/protocol/qtomography/standard/linear_estimator.py:72 `v = A_ddag @ (f - b)` -/
def v {K : Type} [Add K] [Mul K] [Sub K] [Zero K] {m n : Nat} (A_ddag : QM.Mat K n m) (f b : QM.Vec K m) : QM.Vec K n :=
  (QM.Mat.mulVec A_ddag (QM.Vec.sub f b))

/-- quara/protocol/qtomography/standard/linear_estimator.py:70 `[empi_dist[1] for empi_dist in empi_dists]`: the component read from each `(count, distribution)` pair -/
def data_of {K : Type} (e : Nat × List K) : List K := e.2

/-- quara/protocol/qtomography/standard/linear_estimator.py:71 `f = np.concatenate(empi_dists_tmp)` -/
def join {K : Type} (arrs : List (List K)) : Except QM.C09.Err (List K) := QM.C09.concatArrays arrs

/-- quara/protocol/qtomography/standard/standard_qtomography.py:144 `is_fullrank_matA`: `size = min(matA.shape)`, `return size == rank`; `m n` = `matA.shape` -/
def is_fullrank (m n rank : Nat) : Bool := (min m n) == rank

/-- quara/protocol/qtomography/standard/standard_qtomography_estimator.py:27 `estimated_var` = `_estimated_var_sequence[0]` -/
def estimated_var_index : Nat := 0

/-- quara/protocol/qtomography/standard/standard_qtomography_estimator.py:49 `estimated_qoperation` is generated from `_estimated_var_sequence[0]` -/
def estimated_qoperation_index : Nat := 0

end QGen.C09
