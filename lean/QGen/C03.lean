/-! GENERATED on every run by harness/c03.py:translate (harness/pytolean.py) from the Python sources of quara — do not edit.
Python `int` is `Int`; `//`, `%`, `divmod` are `Int.fdiv` / `Int.fmod` (floor semantics). -/
set_option linter.unusedVariables false
namespace QGen.C03

/-- quara/objects/state.py:666 `convert_var_index_to_state_index` -/
def convert_var_index_to_state_index (var_index : Int) (on_para_eq_constraint : Bool) : Int :=
  let state_index : Int := (if (on_para_eq_constraint = true) then (var_index + (1 : Int)) else var_index)
  state_index

/-- quara/objects/state.py:687 `convert_state_index_to_var_index` -/
def convert_state_index_to_var_index (state_index : Int) (on_para_eq_constraint : Bool) : Int :=
  let var_index : Int := (if (on_para_eq_constraint = true) then (state_index - (1 : Int)) else state_index)
  var_index

/-- quara/objects/povm.py:1045 `convert_var_index_to_povm_index` -/
def convert_var_index_to_povm_index (c_sys_dim : Int) (vecs_len : Int) (vecs_size : Int) (var_index : Int) (on_para_eq_constraint : Bool) : Int × Int :=
  let size : Int := vecs_size
  let t_1 : Int × Int := (Int.fdiv var_index size, Int.fmod var_index size)
  let num_measurement : Int := t_1.1
  let measurement_index : Int := t_1.2
  (num_measurement, measurement_index)

/-- quara/objects/povm.py:1076 `convert_povm_index_to_var_index` -/
def convert_povm_index_to_var_index (c_sys_dim : Int) (vecs_len : Int) (vecs_size : Int) (povm_index : Int × Int) (on_para_eq_constraint : Bool) : Int :=
  let size : Int := vecs_size
  let t_1 : Int × Int := povm_index
  let num_measurement : Int := t_1.1
  let measurement_index : Int := t_1.2
  let var_index : Int := ((size * num_measurement) + measurement_index)
  var_index

/-- quara/objects/gate.py:1000 `convert_var_index_to_gate_index` -/
def convert_var_index_to_gate_index (c_sys_dim : Int) (var_index : Int) (on_para_eq_constraint : Bool) : Int × Int :=
  let dim : Int := c_sys_dim
  let t_1 : Int × Int := (Int.fdiv var_index (dim ^ (2 : Nat)), Int.fmod var_index (dim ^ (2 : Nat)))
  let row : Int := t_1.1
  let col : Int := t_1.2
  let row : Int :=
    if (on_para_eq_constraint = true) then
      let row : Int := (row + (1 : Int))
      row
    else
      row
  (row, col)

/-- quara/objects/gate.py:1028 `convert_gate_index_to_var_index` -/
def convert_gate_index_to_var_index (c_sys_dim : Int) (gate_index : Int × Int) (on_para_eq_constraint : Bool) : Int :=
  let dim : Int := c_sys_dim
  let t_1 : Int × Int := gate_index
  let row : Int := t_1.1
  let col : Int := t_1.2
  let var_index : Int := (if (on_para_eq_constraint = true) then (((dim ^ (2 : Nat)) * (row - (1 : Int))) + col) else (((dim ^ (2 : Nat)) * row) + col))
  var_index

/-- quara/objects/mprocess.py:934 `convert_var_index_to_mprocess_index` -/
def convert_var_index_to_mprocess_index (c_sys_dim : Int) (hss_len : Int) (hss_size : Int) (var_index : Int) (on_para_eq_constraint : Bool) : Int × Int × Int :=
  let dim : Int := c_sys_dim
  let hs_size : Int := ((dim ^ (2 : Nat)) * (dim ^ (2 : Nat)))
  let t_1 : Int × Int := (Int.fdiv var_index hs_size, Int.fmod var_index hs_size)
  let hs_index : Int := t_1.1
  let matrix_index : Int := t_1.2
  let t_2 : Int × Int := (Int.fdiv matrix_index (dim ^ (2 : Nat)), Int.fmod matrix_index (dim ^ (2 : Nat)))
  let row : Int := t_2.1
  let col : Int := t_2.2
  let row : Int :=
    if (on_para_eq_constraint = true) then
      let row : Int :=
        if (hs_index = (hss_len - (1 : Int))) then
          let row : Int := (row + (1 : Int))
          row
        else
          row
      row
    else
      row
  (hs_index, row, col)

/-- quara/objects/mprocess.py:972 `convert_mprocess_index_to_var_index` -/
def convert_mprocess_index_to_var_index (c_sys_dim : Int) (mprocess_index : Int × Int × Int) (hss_len : Int) (hss_size : Int) (on_para_eq_constraint : Bool) : Int :=
  let dim : Int := c_sys_dim
  let hs_size : Int := ((dim ^ (2 : Nat)) * (dim ^ (2 : Nat)))
  let t_1 : Int × Int × Int := mprocess_index
  let hs_index : Int := t_1.1
  let row : Int := t_1.2.1
  let col : Int := t_1.2.2
  let var_index : Int := (((hs_index * hs_size) + (row * (dim ^ (2 : Nat)))) + col)
  let var_index : Int :=
    if (on_para_eq_constraint = true) then
      let var_index : Int :=
        if (hs_index = (hss_len - (1 : Int))) then
          let var_index : Int := (var_index - (dim ^ (2 : Nat)))
          var_index
        else
          var_index
      var_index
    else
      var_index
  var_index

/-- quara/protocol/qtomography/standard/standard_qst.py:91 `StandardQst.__init__`: self._num_variables -/
def num_variables_qst (dim : Int) (on_para_eq_constraint : Bool) : Int :=
  if on_para_eq_constraint = true then ((dim ^ (2 : Nat)) - (1 : Int)) else (dim ^ (2 : Nat))

/-- quara/protocol/qtomography/standard/standard_povmt.py:72 `StandardPovmt.__init__`: self._num_variables -/
def num_variables_povmt (dim : Int) (m : Int) (on_para_eq_constraint : Bool) : Int :=
  if on_para_eq_constraint = true then ((m - (1 : Int)) * (dim ^ (2 : Nat))) else (m * (dim ^ (2 : Nat)))

/-- quara/protocol/qtomography/standard/standard_qpt.py:71 `StandardQpt.__init__`: self._num_variables -/
def num_variables_qpt (dim : Int) (on_para_eq_constraint : Bool) : Int :=
  if on_para_eq_constraint = true then ((dim ^ (4 : Nat)) - (dim ^ (2 : Nat))) else (dim ^ (4 : Nat))

/-- quara/protocol/qtomography/standard/standard_qmpt.py:74 `StandardQmpt.__init__`: self._num_variables -/
def num_variables_qmpt (dim : Int) (m : Int) (on_para_eq_constraint : Bool) : Int :=
  if on_para_eq_constraint = true then ((m * (dim ^ (4 : Nat))) - (dim ^ (2 : Nat))) else (m * (dim ^ (4 : Nat)))

/-- quara/objects/qoperation.py:657 `QOperation.generate_from_var`: `on_para_eq_constraint = self.on_para_eq_constraint if on_para_eq_constraint is None else on_para_eq_constraint` -/
def generate_from_var_flag (self_flag : Bool) (on_para_eq_constraint : Option Bool) : Bool :=
  match on_para_eq_constraint with
  | none => self_flag
  | some requested => requested

/-- quara/objects/mprocess.py:584 `MProcess.generate_from_var`: `on_para_eq_constraint = self.on_para_eq_constraint if on_para_eq_constraint is None else on_para_eq_constraint` -/
def generate_from_var_flag_mprocess (self_flag : Bool) (on_para_eq_constraint : Option Bool) : Bool :=
  match on_para_eq_constraint with
  | none => self_flag
  | some requested => requested

end QGen.C03
