import QDriver.Loop
import QModel.C11
def main : IO Unit := QDriver.run QM.C11.handle
