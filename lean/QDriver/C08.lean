import QDriver.Loop
import QModel.C08
def main : IO Unit := QDriver.run QM.C08.handle
