import QDriver.Loop
import QModel.C17
def main : IO Unit := QDriver.run QM.C17.handle
