import QModel
namespace QDriver
def dispatch (p : String) (args : List String) : Option String :=
  match p with
  | "c16" => QM.C16.handle args
  | _ => none
end QDriver
