import QDriver.Loop
import QModel.C09
def main : IO Unit := QDriver.run QM.C09.handle
