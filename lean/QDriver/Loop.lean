/-! line protocol loop shared by the per-property drivers: one request per line, one reply per line.
Unknown / unparsable requests reply `bad-op` (never a default value). -/
namespace QDriver

partial def loop (handle : List String → Option String) (h out : IO.FS.Stream) : IO Unit := do
  let line ← h.getLine
  if line.isEmpty then return ()
  let toks := (line.trimAscii.toString.splitOn " ").filter (· ≠ "")
  out.putStrLn ((handle toks).getD "bad-op")
  loop handle h out

def run (handle : List String → Option String) : IO Unit := do
  let out ← IO.getStdout
  loop handle (← IO.getStdin) out
  out.flush

end QDriver
