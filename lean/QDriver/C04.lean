import QDriver.Loop
import QModel.C04
def main : IO Unit := QDriver.run QM.C04.handle
