import QDriver.Loop
import QModel.C01
def main : IO Unit := QDriver.run QM.C01.handle
