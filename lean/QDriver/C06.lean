import QDriver.Loop
import QModel.C06
def main : IO Unit := QDriver.run QM.C06.handle
