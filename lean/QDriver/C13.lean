import QDriver.Loop
import QModel.C13
def main : IO Unit := QDriver.run QM.C13.handle
