import QDriver.Loop
import QModel.C18
def main : IO Unit := QDriver.run QM.C18.handle
