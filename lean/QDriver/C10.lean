import QDriver.Loop
import QModel.C10
def main : IO Unit := QDriver.run QM.C10.handle
