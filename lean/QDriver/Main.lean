import QDriver.Dispatch
/-! line protocol driver: one request per line `cNN op args…`, one reply per line.
Unknown / unparsable requests reply `bad-op` (never a default value). -/

partial def loop (h : IO.FS.Stream) (out : IO.FS.Stream) : IO Unit := do
  let line ← h.getLine
  if line.isEmpty then return ()
  let toks := (line.trimAscii.toString.splitOn " ").filter (· ≠ "")
  let reply := match toks with
    | p :: args => (QDriver.dispatch p args).getD "bad-op"
    | [] => "bad-op"
  out.putStrLn reply
  loop h out

def main : IO Unit := do
  let out ← IO.getStdout
  loop (← IO.getStdin) out
  out.flush
