import QDriver.Loop
import QModel.C19
def main : IO Unit := QDriver.run QM.C19.handle
