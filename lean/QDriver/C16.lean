import QDriver.Loop
import QModel.C16
def main : IO Unit := QDriver.run QM.C16.handle
