import QDriver.Loop
import QModel.C02
def main : IO Unit := QDriver.run QM.C02.handle
