import QDriver.Loop
import QModel.C03
def main : IO Unit := QDriver.run QM.C03.handle
