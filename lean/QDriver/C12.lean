import QDriver.Loop
import QModel.C12
def main : IO Unit := QDriver.run QM.C12.handle
