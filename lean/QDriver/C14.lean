import QDriver.Loop
import QModel.C14
def main : IO Unit := QDriver.run QM.C14.handle
