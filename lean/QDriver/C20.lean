import QDriver.Loop
import QModel.C20
def main : IO Unit := QDriver.run QM.C20.handle
