import QDriver.Loop
import QModel.C15
def main : IO Unit := QDriver.run QM.C15.handle
