import QDriver.Loop
import QModel.C05
def main : IO Unit := QDriver.run QM.C05.handle
