import QDriver.Loop
import QModel.C07
def main : IO Unit := QDriver.run QM.C07.handle
