import QModel.Core
import QModel.C16
