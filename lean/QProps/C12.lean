import QProofs.C12
import Mathlib.Algebra.Order.Field.Basic
import Mathlib.Analysis.SpecialFunctions.Log.Deriv
import Mathlib.LinearAlgebra.Matrix.NonsingularInverse
/-!
# C12 — property theorems: loss values, derivatives, fast paths, option wiring

All statements are for arbitrary numbers of schedules, outcomes and variables, over any field
(order statements: any linearly ordered field), hence for the executed instance `Rat`.
-/
set_option linter.unusedSectionVars false
open Matrix
namespace QM.C12
open QM

section wseThms
variable {K : Type} [Field K] [CharZero K] {m nv : Nat}

/-- C12 (value formula): when the weight lookup succeeds, `value(x) = Σ_j (p_j(x) − q_j)ᵀ W_j (p_j(x) − q_j)`
with `p_j(x) = A_j x + b_j` and `W_j` the j-th weight matrix (identity when the loss has none). -/
theorem wse_value_formula (ss : List (Sched K m nv)) (Ws : Option (List (Mat K m m))) (x : Vec K nv)
    (l : List (Sched K m nv × Option (Mat K m m))) (hl : resolve Ws ss 0 = some l) :
    wseValue ss Ws x = .ok (l.map fun p =>
      (p.1.A.toM *ᵥ x.toV + p.1.b.toV - p.1.q.toV) ⬝ᵥ
        (wmat p.2 *ᵥ (p.1.A.toM *ᵥ x.toV + p.1.b.toV - p.1.q.toV))).sum := by
  unfold wseValue
  rw [sumSched_eq, hl]
  simp only [bil_eq, resid_toV]

/-- C12 (gradient and Hessian are the derivatives of the value): exact second-order Taylor identity
`value(x+h) = value(x) + ⟨gradient(x), h⟩ + ½ ⟨h, hessian(x) h⟩` for all `x`, `h` (symmetric weights),
with `gradient = 2·wseGradHalf`, `hessian = 2·wseHessHalf` as the code returns them. The value being a
polynomial of degree 2 in `h`, this identifies gradient and Hessian as its first and second derivative. -/
theorem wse_taylor (ss : List (Sched K m nv)) (Ws : Option (List (Mat K m m))) (x h : Vec K nv)
    (l : List (Sched K m nv × Option (Mat K m m))) (hl : resolve Ws ss 0 = some l) (hs : SymWeights l) :
    ∃ v0 v1 : K, ∃ g : Fin nv → K, ∃ H : Fin nv → Fin nv → K,
      wseValue ss Ws x = .ok v0 ∧ wseValue ss Ws (x.add h) = .ok v1 ∧
      (∀ α, wseGradHalf ss Ws x α = .ok (g α)) ∧ (∀ α β, wseHessHalf ss Ws x α β = .ok (H α β)) ∧
      v1 = v0 + ∑ α, (2 * g α) * h.get α + (1 / 2) * ∑ α, ∑ β, h.get α * (2 * H α β) * h.get β := by
  refine ⟨(l.map fun p => bil p.2 (resid p.1 x) (resid p.1 x)).sum,
    (l.map fun p => bil p.2 (resid p.1 (x.add h)) (resid p.1 (x.add h))).sum,
    fun α => (l.map fun p => bil p.2 (gradP p.1 α) (resid p.1 x)).sum,
    fun α β => (l.map fun p => bil p.2 (gradP p.1 α) (gradP p.1 β) + bil p.2 Vec.zero (resid p.1 x)).sum,
    ?_, ?_, fun α => ?_, fun α β => ?_, ?_⟩
  · unfold wseValue; rw [sumSched_eq, hl]
  · unfold wseValue; rw [sumSched_eq, hl]
  · unfold wseGradHalf; rw [sumSched_eq, hl]
  · unfold wseHessHalf; rw [sumSched_eq, hl]
  · simp only []
    have key : ∀ p ∈ l, bil p.2 (resid p.1 (x.add h)) (resid p.1 (x.add h))
        = bil p.2 (resid p.1 x) (resid p.1 x)
          + (2 * ∑ α, h.get α * bil p.2 (gradP p.1 α) (resid p.1 x)
            + ∑ α, ∑ β, h.get α * h.get β *
              (bil p.2 (gradP p.1 α) (gradP p.1 β) + bil p.2 Vec.zero (resid p.1 x))) := by
      intro p hp
      rw [sched_taylor p.1 p.2 (hs p hp) x h]; ring
    rw [List.map_congr_left key, list_sum_add, list_sum_add, list_sum_mul_left, list_sum_finset,
      list_sum_finset]
    have e1 : ∀ α : Fin nv, (l.map fun p => h.get α * bil p.2 (gradP p.1 α) (resid p.1 x)).sum
        = h.get α * (l.map fun p => bil p.2 (gradP p.1 α) (resid p.1 x)).sum :=
      fun α => list_sum_mul_left l _ _
    have e2 : ∀ α : Fin nv, (l.map fun p => ∑ β, h.get α * h.get β *
          (bil p.2 (gradP p.1 α) (gradP p.1 β) + bil p.2 Vec.zero (resid p.1 x))).sum
        = ∑ β, h.get α * h.get β * (l.map fun p =>
            bil p.2 (gradP p.1 α) (gradP p.1 β) + bil p.2 Vec.zero (resid p.1 x)).sum := by
      intro α
      rw [list_sum_finset]
      refine Finset.sum_congr rfl fun β _ => ?_
      exact list_sum_mul_left l _ _
    simp only [e1, e2]
    rw [add_assoc]
    congr 1
    rw [Finset.mul_sum, Finset.mul_sum]
    congr 1
    · refine Finset.sum_congr rfl fun α _ => ?_
      ring
    · refine Finset.sum_congr rfl fun α _ => ?_
      rw [Finset.mul_sum]
      refine Finset.sum_congr rfl fun β _ => ?_
      field_simp

end wseThms

/-- C12 (`SimpleQuadraticLossFunction`): exact Taylor identity `value(x+h) = value(x) + ⟨gradient(x), h⟩ + ½⟨h, (2I)h⟩` for all `x`, `h`. -/
theorem simple_taylor {K : Type} [Field K] [CharZero K] {n : Nat} (ref x h : Vec K n) :
    simpleValue ref (x.add h) = simpleValue ref x + ∑ i, (simpleGrad ref x).get i * h.get i
      + (1 / 2) * ∑ i, ∑ j, h.get i * simpleHess i j * h.get j := by
  simp only [simpleValue, Vec.dot_eq, dotProduct, Vec.toV, simpleGrad, simpleHess, Vec.get_ofFn, Vec.add, Vec.sub]
  simp only [mul_ite, ite_mul, mul_zero, zero_mul, Finset.sum_ite_eq, Finset.mem_univ, if_true]
  rw [Finset.mul_sum, ← Finset.sum_add_distrib, ← Finset.sum_add_distrib]
  refine Finset.sum_congr rfl fun i _ => ?_
  ring

/-! ## fast path = generic path for equal weights -/
section fastThms
variable {K : Type} [Field K] {m nv : Nat}

/-- with one weight matrix per schedule (non-empty list) the lookup pairs them in order -/
theorem resolve_some (Ws : List (Mat K m m)) (ss : List (Sched K m nv)) (j : Nat)
    (hne : Ws ≠ []) (hlen : ss.length + j = Ws.length) :
    resolve (some Ws) ss j = some (ss.zip ((Ws.map some).drop j)) := by
  induction ss generalizing j with
  | nil => simp [resolve]
  | cons s r ih =>
    simp only [List.length_cons] at hlen
    have hj : j < Ws.length := by omega
    have hw : weightAt (some Ws) j = some (some Ws[j]) := by
      cases Ws with
      | nil => exact absurd rfl hne
      | cons W Wr => simp [weightAt, List.getElem?_eq_getElem hj]
    simp only [resolve, hw, ih (j + 1) (by omega)]
    have e : (Ws.map some).drop j = some Ws[j] :: (Ws.map some).drop (j + 1) := by
      rw [List.drop_eq_getElem_cons (by simpa using hj)]; simp
    rw [e]; simp

theorem zip_sum_eq_bilBlocks (f g : Sched K m nv → Vec K m) (ss : List (Sched K m nv))
    (Ws : List (Mat K m m)) (hlen : ss.length = Ws.length) :
    ((ss.zip (Ws.map some)).map fun p => bil p.2 (f p.1) (g p.1)).sum
      = bilBlocks (ss.map f) (ss.map g) Ws := by
  induction ss generalizing Ws with
  | nil => cases Ws <;> simp [bilBlocks]
  | cons s r ih =>
    cases Ws with
    | nil => simp at hlen
    | cons W Wr =>
      simp only [List.length_cons, Nat.add_right_cancel_iff] at hlen
      simp only [List.map_cons, List.zip_cons_cons, List.sum_cons, bilBlocks]
      rw [ih Wr hlen]
      simp [bil]

/-- C12 (fast value = generic value, given equal weights): when the cached block matrix was built from
the same weight matrices the generic loss uses (one per schedule), both `value`s agree — the stacked
`vec · (np.block(W) vec)` is the sum of the per-schedule quadratic forms. -/
theorem fast_eq_generic_value (ss : List (Sched K m nv)) (Ws : List (Mat K m m)) (x : Vec K nv)
    (hne : Ws ≠ []) (hlen : ss.length = Ws.length) :
    fastValue ss (some ⟨Ws⟩) x = wseValue ss (some Ws) x := by
  unfold wseValue fastValue
  rw [sumSched_eq, resolve_some Ws ss 0 hne (by simpa using hlen)]
  simp only [List.drop_zero, hlen, ne_eq, not_true_eq_false, if_false]
  rw [zip_sum_eq_bilBlocks (fun s => resid s x) (fun s => resid s x) ss Ws hlen,
    bilFlat_block _ _ Ws (by simpa using hlen) (by simpa using hlen)]

/-- C12 (fast gradient = generic gradient, given equal weights), componentwise. -/
theorem fast_eq_generic_grad (ss : List (Sched K m nv)) (Ws : List (Mat K m m)) (x : Vec K nv)
    (α : Fin nv) (hne : Ws ≠ []) (hlen : ss.length = Ws.length) :
    fastGradHalf ss (some ⟨Ws⟩) x α = wseGradHalf ss (some Ws) x α := by
  unfold wseGradHalf fastGradHalf
  rw [sumSched_eq, resolve_some Ws ss 0 hne (by simpa using hlen)]
  simp only [List.drop_zero, hlen, ne_eq, not_true_eq_false, if_false]
  rw [zip_sum_eq_bilBlocks (fun s => gradP s α) (fun s => resid s x) ss Ws hlen,
    bilFlat_block _ _ Ws (by simpa using hlen) (by simpa using hlen)]

/-- C12 (fast value = generic value without weight matrices): the stacked `vec · vec` is the sum of the per-schedule
squared distances, for any number of schedules and outcomes. -/
theorem fast_eq_generic_value_noweights (ss : List (Sched K m nv)) (x : Vec K nv) :
    fastValue ss none x = wseValue ss none x := by
  unfold wseValue fastValue
  rw [sumSched_eq, resolve_none]
  simp only
  rw [map_sum_eq_dotBlocks (fun s => resid s x) (fun s => resid s x)]
  have := bilFlat_none_cat (ss.map fun s => resid s x) (ss.map fun s => resid s x) (by simp)
  simp only [List.length_map] at this
  rw [this]

/-- C12 (fast gradient = generic gradient without weight matrices), componentwise. -/
theorem fast_eq_generic_grad_noweights (ss : List (Sched K m nv)) (x : Vec K nv) (α : Fin nv) :
    fastGradHalf ss none x α = wseGradHalf ss none x α := by
  unfold wseGradHalf fastGradHalf
  rw [sumSched_eq, resolve_none]
  simp only
  rw [map_sum_eq_dotBlocks (fun s => gradP s α) (fun s => resid s x)]
  have := bilFlat_none_cat (ss.map fun s => gradP s α) (ss.map fun s => resid s x) (by simp)
  simp only [List.length_map] at this
  rw [this]

end fastThms

section symmHess
/-- C12 (the Hessian of the Taylor identity is symmetric): `hessian[α,β] = hessian[β,α]` for symmetric weights — so `wse_taylor`
determines it completely as the second derivative. -/
theorem wseHessHalf_symm {K : Type} [Field K] {m nv : Nat} (ss : List (Sched K m nv)) (Ws : Option (List (Mat K m m)))
    (x : Vec K nv) (l : List (Sched K m nv × Option (Mat K m m))) (hl : resolve Ws ss 0 = some l)
    (hs : SymWeights l) (α β : Fin nv) :
    wseHessHalf ss Ws x α β = wseHessHalf ss Ws x β α := by
  unfold wseHessHalf
  rw [sumSched_eq, sumSched_eq, hl]
  simp only
  congr 1
  refine congrArg List.sum (List.map_congr_left fun p hp => ?_)
  simp only [bil_eq]
  rw [sym_swap _ (hs p hp)]

end symmHess


/-! ## option wiring -/
section wiringThms
variable {K : Type} [Field K] [LinearOrder K] [IsStrictOrderedRing K] {m : Nat}

theorem weightsByMode_eq (opt : Opt K m) (G : List (Mat K (m - 1) (m - 1))) :
    weightsByMode opt G = some (modeWeights opt G) := by
  unfold weightsByMode modeWeights invCovWeights
  cases opt.mode <;> rfl

/-- the covariance-mode weight matrix is exactly symmetric (the inverse is symmetrised before use) -/
theorem invCovWeight_symm (G : Mat K (m - 1) (m - 1)) (i j : Fin m) :
    (invCovWeight G).get i j = (invCovWeight G).get j i := by
  unfold invCovWeight symmetrise
  split
  · simp only [Mat.get_ofFn]
    by_cases h : i.val = 0 ∧ j.val = 0
    · rw [dif_pos h, dif_pos ⟨h.2, h.1⟩]
    · rw [dif_neg h, dif_neg (fun h' => h ⟨h'.2, h'.1⟩)]
  · simp only [Mat.get_ofFn]
    by_cases h : i.val < m - 1 ∧ j.val < m - 1
    · rw [dif_pos h, dif_pos ⟨h.2, h.1⟩, add_comm]
    · rw [dif_neg h, dif_neg (fun h' => h ⟨h'.2, h'.1⟩)]

theorem symOk_of_symm (atol : K) (hat : 0 ≤ atol) (W : Mat K m m) (h : ∀ i j, W.get i j = W.get j i) :
    symOk atol W = true := by
  unfold symOk
  simp only [List.all_eq_true, List.mem_finRange, true_implies]
  intro i j
  rw [h i j, sub_self]
  simp [not_lt.mpr hat]

/-- C12 (configuration succeeds): `identity` and the covariance modes are accepted from every earlier state
and for every outcome count (their matrices always pass the setter's symmetry validation); `custom` is accepted
exactly when the option's matrices are symmetric within `atol`. -/
theorem configure_ok (atol : K) (hat : 0 ≤ atol) (st : GenWse K m) (opt : Opt K m)
    (G : List (Mat K (m - 1) (m - 1))) :
    (opt.mode ≠ .custom → ∃ st', configureGen atol st opt G = .ok st') ∧
    (opt.mode = .custom → ((∃ st', configureGen atol st opt G = .ok st') ↔ validWs atol opt.weights = true)) := by
  have hinv : validWs atol (some (G.map invCovWeight)) = true := by
    unfold validWs
    simp only [List.all_eq_true, List.mem_map]
    rintro W ⟨g, _, rfl⟩
    exact symOk_of_symm atol hat _ (invCovWeight_symm g)
  unfold configureGen
  rw [weightsByMode_eq]
  unfold modeWeights
  constructor
  · intro hne
    cases hm : opt.mode
    · simp [validWs]
    · exact absurd hm hne
    · simp [hinv]
    · simp [hinv]
    · simp [hinv]
  · intro hc
    simp only [hc]
    by_cases hv : validWs atol opt.weights = true
    · simp [hv]
    · simp [hv]

/-- C12 (every accepted mode string takes effect, generic loss): whenever
`set_from_standard_qtomography_option_data` succeeds, the weight matrices in force are the mode's — identity
weights for `identity`, the option's for `custom`, the inverse-covariance matrices for the covariance modes —
whatever the object was configured with before (fresh or re-used), for any number of outcomes. -/
theorem generic_mode_takes_effect (atol : K) (st st' : GenWse K m) (opt : Opt K m)
    (G : List (Mat K (m - 1) (m - 1))) (h : configureGen atol st opt G = .ok st') :
    st'.weightMatrices = modeWeights opt G := by
  unfold configureGen at h
  rw [weightsByMode_eq] at h
  simp only at h
  split at h
  · injection h with h; subst h; rfl
  · cases h

/-- C12 (every accepted mode string takes effect, fast loss): whenever configuration succeeds — from any
earlier state, fresh or re-used, gradient required or not — the weight matrices in force are the mode's, the
same as for the generic loss, and the cached block matrix `_extend_weight_matrix` is built from exactly these
matrices (none when there are none). Model-level statement about the cached fields; the value-level consequence, with its shape
hypotheses, is `fast_eq_generic_after_configure`. -/
theorem fast_mode_takes_effect (atol : K) (st st' : FastWse K m) (opt : Opt K m) (grad : Bool)
    (G : List (Mat K (m - 1) (m - 1))) (h : configureFast atol st opt grad G = .ok st') :
    st'.weightMatrices = modeWeights opt G ∧ st'.extW.map (·.blocks) = modeWeights opt G := by
  unfold configureFast at h
  rw [weightsByMode_eq] at h
  simp only at h
  split at h
  · cases h
  · split at h
    · cases h
    · split at h
      · unfold setWeightsFast calcExt at h
        cases hw : modeWeights opt G with
        | none => simp only [hw] at h; injection h with h; subst h; simp
        | some ws =>
          cases ws with
          | nil => simp [hw] at h
          | cons w r => simp only [hw] at h; injection h with h; subst h; simp
      · cases h

/-- C12 (inverse-covariance modes, every outcome count): the weight matrix is the symmetrised inverse of the
reduced covariance in the leading `(m−1)×(m−1)` block and zero in the last row and column. -/
theorem inv_cov_weight_entries (G : Mat K (m - 1) (m - 1)) (i j : Fin m) :
    (invCovWeight G).get i j =
      if h : i.val < m - 1 ∧ j.val < m - 1 then
        (G.get ⟨i.val, h.1⟩ ⟨j.val, h.2⟩ + G.get ⟨j.val, h.2⟩ ⟨i.val, h.1⟩) / (1 + 1) else 0 := by
  unfold invCovWeight symmetrise
  split
  · rename_i hm
    subst hm
    simp only [Mat.get_ofFn]
    by_cases h : i.val = 0 ∧ j.val = 0
    · rw [dif_pos h, dif_pos (by omega)]
      have hi : (⟨i.val, by omega⟩ : Fin (2 - 1)) = ⟨0, by omega⟩ := Fin.ext h.1
      have hj : (⟨j.val, by omega⟩ : Fin (2 - 1)) = ⟨0, by omega⟩ := Fin.ext h.2
      rw [hi, hj]
    · rw [dif_neg h, dif_neg (by omega)]
  · simp only [Mat.get_ofFn]

/-- C12 (relative entropy, `custom` mode takes effect): the option's weights become the loss's `weights`, and
the fast variant's `_extend_weights` is rebuilt from them (each weight repeated once per outcome). -/
theorem wre_option_weights_installed (st : WreState K) (w : List K) (lens : List Nat) (fast grad : Bool) :
    (configureWre st (some w) lens fast grad).weights = some w ∧
    (fast = true → (configureWre st (some w) lens fast grad).extWeights
        = some ((w.zip lens).flatMap fun (a, n) => List.replicate n a)) := by
  unfold configureWre calcExtWeights
  cases fast <;> cases grad <;> cases hw : st.weights <;> simp [hw]

/-- C12 (relative entropy, `identity` mode takes effect): whatever weights were in force before, afterwards
there are none (the value is the unweighted sum). -/
theorem wre_identity_resets_weights (st : WreState K) (lens : List Nat) (fast grad : Bool) :
    (configureWre st none lens fast grad).weights = none := by
  unfold configureWre calcExtWeights
  cases fast <;> cases grad <;> cases hw : st.weights <;> simp [hw]

/-- an EMPTY custom weight list: the generic loss configures (and then evaluates unweighted, `if self.weight_matrices:`), the fast loss
raises `IndexError` in `_calc_extend_weight_matrix` (`self.weight_matrices[0]`) — from any earlier state. -/
theorem configureFast_empty_custom_raises (atol : K) (st : FastWse K m) (sg : GenWse K m) (grad : Bool)
    (G : List (Mat K (m - 1) (m - 1))) (h0 : ∃ st1, calcExt st = .ok st1) :
    configureFast atol st (mkOpt .custom (some [])) grad G = .error .index ∧
    configureGen atol sg (mkOpt .custom (some [])) G = .ok ⟨some []⟩ := by
  obtain ⟨st1, h1⟩ := h0
  constructor
  · unfold configureFast
    have h2 : calcExt st1 = .ok st1 := by
      unfold calcExt at h1 ⊢
      cases hw : st.weightMatrices with
      | none => simp only [hw] at h1; injection h1 with h1; subst h1; simp
      | some ws =>
        cases ws with
        | nil => simp [hw] at h1
        | cons w r => simp only [hw] at h1; injection h1 with h1; subst h1; simp
    cases grad <;> simp only [h1, h2, mkOpt, weightsByMode, validWs, List.all_nil, if_true, setWeightsFast,
      Bool.false_eq_true, if_false] <;> rfl
  · simp [configureGen, mkOpt, weightsByMode, validWs]

/-- C12 (fast = generic after configuration, end to end): when both the fast and the generic loss have been configured with the same
option (from ANY earlier states) and the mode's weight list, if any, is non-empty with one matrix per schedule, the fast value and every
gradient component equal the generic ones. (Without the shape hypothesis the two classes differ: an empty custom list is an `IndexError`
for the fast class only — `configureFast_empty_custom_raises` — and surplus matrices are ignored by the generic loss but a shape error
for the fast one.) -/
theorem fast_eq_generic_after_configure {K : Type} [Field K] [LinearOrder K] [IsStrictOrderedRing K] {m nv : Nat}
    (atol : K) (sf sf' : FastWse K m) (sg sg' : GenWse K m) (opt : Opt K m) (grad : Bool)
    (G : List (Mat K (m - 1) (m - 1))) (ss : List (Sched K m nv)) (x : Vec K nv)
    (hf : configureFast atol sf opt grad G = .ok sf') (hg : configureGen atol sg opt G = .ok sg')
    (hshape : ∀ Ws, modeWeights opt G = some Ws → Ws ≠ [] ∧ ss.length = Ws.length) :
    fastValue ss sf'.extW x = wseValue ss sg'.weightMatrices x ∧
    ∀ α, fastGradHalf ss sf'.extW x α = wseGradHalf ss sg'.weightMatrices x α := by
  have h1 := fast_mode_takes_effect atol sf sf' opt grad G hf
  have h2 := generic_mode_takes_effect atol sg sg' opt G hg
  rw [h2]
  cases hw : modeWeights opt G with
  | none =>
    have : sf'.extW = none := by
      have := h1.2; rw [hw] at this
      cases he : sf'.extW <;> simp_all
    rw [this]
    exact ⟨fast_eq_generic_value_noweights ss x, fun α => fast_eq_generic_grad_noweights ss x α⟩
  | some Ws =>
    obtain ⟨hne, hlen⟩ := hshape Ws hw
    have : sf'.extW = some ⟨Ws⟩ := by
      have := h1.2; rw [hw] at this
      cases he : sf'.extW with
      | none => simp [he] at this
      | some e => cases e; simp_all
    rw [this]
    exact ⟨fast_eq_generic_value ss Ws x hne hlen, fun α => fast_eq_generic_grad ss Ws x α hne hlen⟩


end wiringThms

section invWeight
variable {K : Type} [Field K] [LinearOrder K] [IsStrictOrderedRing K] {m : Nat}

/-- numpy's inverse of a SYMMETRIC matrix is symmetric when it is exact, so the symmetrisation step leaves it unchanged -/
theorem symmetrise_of_inverse {n : Nat} (X G : Mat K n n) (hX : X.toMᵀ = X.toM) (hG : G.toM * X.toM = 1) :
    symmetrise G = G ∧ G.toM = X.toM⁻¹ := by
  have hinv : X.toM⁻¹ = G.toM := Matrix.inv_eq_left_inv hG
  have hsym : G.toMᵀ = G.toM := by
    rw [← hinv, Matrix.transpose_nonsing_inv, hX]
  refine ⟨?_, hinv.symm⟩
  apply Mat.ext'
  intro i j
  have hij : G.get j i = G.get i j := by
    have := congrFun (congrFun hsym i) j
    simpa [Matrix.transpose_apply] using this
  simp only [symmetrise, Mat.get_ofFn, hij]
  have h2 : (1 + 1 : K) ≠ 0 := by norm_num
  field_simp

theorem extractedFor_symm (md : Mode) (q : Vec K m) (eps nn n32 : K) :
    (extractedFor md q eps nn n32).toMᵀ = (extractedFor md q eps nn n32).toM := by
  ext i j
  simp only [Matrix.transpose_apply, Mat.toM_apply, extractedFor, extracted, covMat, Mat.get_ofFn]
  by_cases h : i = j
  · subst h; rfl
  · have h' : ¬ j = i := fun hh => h hh.symm
    have hv : ¬ (⟨j.val, by omega⟩ : Fin m) = ⟨i.val, by omega⟩ := fun hh => h' (Fin.ext (by simpa using congrArg Fin.val hh))
    have hv' : ¬ (⟨i.val, by omega⟩ : Fin m) = ⟨j.val, by omega⟩ := fun hh => h (Fin.ext (by simpa using congrArg Fin.val hh))
    simp only [h, h', hv, hv', if_false]
    ring

/-- C12 (covariance modes, what the weight IS): with numpy's inverse abstracted by its contract `G·X = 1`, `X` the regularised reduced
(sample resp. unbiased, `extractedFor`) covariance of the clipped empirical distribution, the installed weight is `X⁻¹` of the regularised reduced covariance, padded with a zero last row/column -/
theorem inv_cov_weight_is_inverse (md : Mode) (q : Vec K m) (eps nn n32 : K) (G : Mat K (m - 1) (m - 1))
    (hG : G.toM * (extractedFor md q eps nn n32).toM = 1) (i j : Fin m) :
    (invCovWeight G).get i j =
      if h : i.val < m - 1 ∧ j.val < m - 1 then ((extractedFor md q eps nn n32).toM⁻¹) ⟨i.val, h.1⟩ ⟨j.val, h.2⟩ else 0 := by
  obtain ⟨hs, hinv⟩ := symmetrise_of_inverse (extractedFor md q eps nn n32) G (extractedFor_symm md q eps nn n32) hG
  rw [inv_cov_weight_entries]
  split
  · rename_i h
    have e := congrArg (fun M : Mat K (m - 1) (m - 1) => M.get ⟨i.val, h.1⟩ ⟨j.val, h.2⟩) hs
    simp only [symmetrise, Mat.get_ofFn] at e
    rw [e, ← hinv]; rfl
  · rfl
end invWeight


/-! ## the hand-written wiring model is the interpretation of the GENERATED tables (QGen.C12, from the source) -/
section generatedThms
variable {K : Type} [Field K] [LinearOrder K] {m : Nat}

/-- C12 (source tie, mode table): for every mode the model handles, the if/elif chain of
`WeightedProbabilityBasedSquaredError._set_weights_by_mode` as generated from the source takes the branch the model
implements — setter(None) for `identity`, setter(option.weights) for `custom`, the covariance loop with `num_data`
for `inverse_sample_covariance` and with `num_data - 1` for `inverse_unbiased_covariance` and its alias. A renamed or re-wired mode in
the source changes `QGen.C12.wseBranch` and breaks this proof. -/
theorem gen_wse_branches (md : Mode) : QGen.C12.wseBranch (modeName md) = some (expectedBranch md) := by
  cases md <;> decide

/-- C12 (source tie, weights handed to the setter): `weightsByMode` is the interpretation of the generated branch. -/
theorem weightsByMode_eq_generated (opt : Opt K m) (G : List (Mat K (m - 1) (m - 1))) :
    weightsByMode opt G = (QGen.C12.wseBranch (modeName opt.mode)).map (interpBranch opt G) := by
  rw [gen_wse_branches]
  unfold weightsByMode expectedBranch interpBranch
  cases opt.mode <;> rfl

/-- C12 (source tie, call order): the model of `set_from_standard_qtomography_option_data` on the fast loss is the
interpretation, call by call, of the method-call list generated from the source (option, q, model → cache rebuild,
gradient model if required → cache rebuild, Hessian model if required, and last `_set_weights_by_mode`, whose setter
rebuilds the cache). Moving or renaming a call in the source breaks this proof. -/
theorem configureFast_eq_generated (atol : K) (st : FastWse K m) (opt : Opt K m) (grad : Bool)
    (G : List (Mat K (m - 1) (m - 1))) :
    configureFast atol st opt grad G = interpFast atol opt grad G QGen.C12.wiringOrder st := by
  unfold configureFast
  rw [weightsByMode_eq_generated]
  cases grad <;> cases hb : QGen.C12.wseBranch (modeName opt.mode) <;>
    simp only [QGen.C12.wiringOrder, interpFast, stepFast, hb, bind, Except.bind, Option.map] <;>
    simp only [String.reduceEq, Bool.or_false, Bool.false_or, Bool.or_true, Bool.true_or, Bool.and_true, Bool.and_false,
      decide_true, decide_false, if_true, if_false, Bool.false_eq_true, Bool.or_self, Bool.true_and, Bool.false_and] <;>
    (cases calcExt st with
     | error e => rfl
     | ok st1 =>
       first
         | rfl
         | ((try dsimp only); split_ifs <;> (first | rfl | (generalize setWeightsFast _ _ = x; cases x <;> rfl)))
         | ((try dsimp only)
            cases calcExt st1 with
            | error e => rfl
            | ok st2 =>
              first
                | rfl
                | ((try dsimp only); split_ifs <;> (first | rfl | (generalize setWeightsFast _ _ = x; cases x <;> rfl)))))

/-- C12 (source tie, cache discipline of the fast classes): the generated facts the state machine relies on —
the fast squared-error `set_weight_matrices` is `super()` + rebuild, `_calc_extend_weight_matrix` resets the cache
when there are no weights and is called by both model setters; the fast relative-entropy `set_weights` rebuilds. -/
theorem gen_fast_cache_discipline :
    QGen.C12.fastWseSetterRebuilds = true ∧ QGen.C12.fastWseCalcResetsOnNone = true ∧
    QGen.C12.fastWseModelSetterRebuilds = true ∧ QGen.C12.fastWseGradSetterRebuilds = true ∧
    QGen.C12.fastWreSetterRebuilds = true := by decide

/-- C12 (source tie, relative entropy): both accepted mode strings are handled, `identity` by `set_weights(None)`,
`custom` by `set_weights(option.weights)` — what `configureWre` implements for `optWeights = none / some w`. -/
theorem gen_wre_modes_handled :
    (∀ md ∈ QGen.C12.wreAccepted, (QGen.C12.wreBranch md).isSome = true) ∧
    QGen.C12.wreBranch "identity" = some .reset ∧ QGen.C12.wreBranch "custom" = some .optionWeights ∧
    QGen.C12.wreForcesCustom = true ∧ QGen.C12.wseForcesCustom = true := by decide

/-- C12 (every accepted mode is handled): every mode string the squared-error option accepts has a branch in
`_set_weights_by_mode`, is one of the model's modes, and the alias `"unbiased_inverse_covariance"` takes the covariance
branch with the unbiased (`num_data − 1`) denominator. -/
theorem gen_wse_accepted_handled :
    (∀ md ∈ QGen.C12.wseAccepted, (QGen.C12.wseBranch md).isSome = true) ∧
    (∀ md ∈ QGen.C12.wseAccepted, md ∈ [Mode.identity, .custom, .invSample, .invUnbiased, .unbiasedInv].map modeName) ∧
    QGen.C12.wseBranch "unbiased_inverse_covariance" = some (.invCov true) := by
  decide

/-- C12 (source tie, sample vs unbiased covariance): the denominator flag the driver uses (`modeUnbiased`) is the one of the generated
branch — a mode wired to the other covariance in the source breaks this proof — and the matrix handed to `np.linalg.inv` differs between
the two kinds of mode exactly in that denominator (`num_data − 1` vs `num_data`). -/
theorem gen_unbiased_flag (md : Mode) (b : Bool) (h : QGen.C12.wseBranch (modeName md) = some (.invCov b)) :
    modeUnbiased md = b := by
  cases md <;> revert h <;> cases b <;> decide

theorem extractedFor_denominator (md : Mode) (q : Vec K m) (eps n n32 : K) :
    extractedFor md q eps n n32
      = extracted (covMat (replaceVec q eps) (if modeUnbiased md then n - 1 else n)) n32 := by
  unfold extractedFor covDenom; rfl

end generatedThms

/-! ## relative entropy: fast (vector) kernels equal the generic ones -/
section entropyThms
variable {K : Type} [Field K] [LinearOrder K] [IsStrictOrderedRing K]

theorem truncQ_of_ge {q eps : K} (h0 : 0 ≤ q) (h : eps ≤ q) : truncQ q eps = q := by
  unfold truncQ
  rw [if_neg (not_lt.mpr h0), if_neg (not_lt.mpr h)]

theorem truncQ_of_lt {q eps : K} (h0 : 0 ≤ q) (h : q < eps) : truncQ q eps = 0 := by
  unfold truncQ
  rw [if_neg (not_lt.mpr h0), if_pos h]

theorem roundVarz_of_ge {q eps : K} (h : eps ≤ q) : roundVarz q eps = q := by
  unfold roundVarz
  rcases lt_or_eq_of_le h with h1 | h1
  · rw [if_pos h1]
  · rw [if_neg (by rw [h1]; exact lt_irrefl _), h1]

/-- C12 (fast = generic, relative entropy value): for non-negative data `q` the vectorised kernel
`Σ truncate(q)·log(…)` equals the loop `Σ_{q ≥ eps_q} round(q)·log(…)` for the same log values. -/
theorem relEntVec_eq_relEnt (epsq epsp : K) (qs ps ls : List K) (hq : ∀ q ∈ qs, 0 ≤ q) :
    relEntVec epsq epsp qs ps ls = relEnt epsq epsp qs ps ls := by
  induction qs generalizing ps ls with
  | nil => simp [relEntVec, relEnt]
  | cons q qs ih =>
    cases ps with
    | nil => simp [relEntVec, relEnt]
    | cons p ps =>
      cases ls with
      | nil => simp [relEntVec, relEnt]
      | cons l ls =>
        simp only [relEntVec, relEnt]
        rw [ih ps ls fun x hx => hq x (List.mem_cons_of_mem _ hx)]
        congr 1
        have h0 := hq q (List.mem_cons_self ..)
        by_cases h : epsq ≤ q
        · rw [if_pos h, truncQ_of_ge h0 h, roundVarz_of_ge h]
        · rw [if_neg h, truncQ_of_lt h0 (lt_of_not_ge h), zero_mul]

/-- C12 (fast = generic, relative entropy gradient), componentwise. -/
theorem relEntGradVec_eq_relEntGrad (epsq epsp : K) (qs ps gs : List K) (hq : ∀ q ∈ qs, 0 ≤ q) :
    relEntGradVec epsq epsp qs ps gs = relEntGrad epsq epsp qs ps gs := by
  induction qs generalizing ps gs with
  | nil => simp [relEntGradVec, relEntGrad]
  | cons q qs ih =>
    cases ps with
    | nil => simp [relEntGradVec, relEntGrad]
    | cons p ps =>
      cases gs with
      | nil => simp [relEntGradVec, relEntGrad]
      | cons g gs =>
        simp only [relEntGradVec, relEntGrad]
        rw [ih ps gs fun x hx => hq x (List.mem_cons_of_mem _ hx)]
        congr 1
        have h0 := hq q (List.mem_cons_self ..)
        by_cases h : epsq ≤ q
        · rw [if_pos h, truncQ_of_ge h0 h]; ring
        · rw [if_neg h, truncQ_of_lt h0 (lt_of_not_ge h)]; simp

section linearityThms
/-- C12 (the directional derivative is ⟨gradient, h⟩): the gradient kernel is additive and homogeneous in the gradient rows, so its value for
the direction `d = A h = Σ_α h_α·(column α)` is `Σ_α h_α ·` (component α of the reported gradient). -/
theorem relEntGrad_add (epsq epsp : K) (qs ps g1 g2 : List K) (h : g1.length = g2.length) :
    relEntGrad epsq epsp qs ps (List.zipWith (· + ·) g1 g2)
      = relEntGrad epsq epsp qs ps g1 + relEntGrad epsq epsp qs ps g2 := by
  induction qs generalizing ps g1 g2 with
  | nil => simp [relEntGrad]
  | cons q qs ih =>
    cases ps with
    | nil => simp [relEntGrad]
    | cons p ps =>
      cases g1 with
      | nil => cases g2 <;> simp_all [relEntGrad]
      | cons a g1 =>
        cases g2 with
        | nil => simp at h
        | cons b g2 =>
          simp only [List.length_cons, Nat.add_right_cancel_iff] at h
          simp only [List.zipWith_cons_cons, relEntGrad, ih ps g1 g2 h]
          split <;> ring

theorem relEntGrad_smul (epsq epsp c : K) (qs ps g : List K) :
    relEntGrad epsq epsp qs ps (g.map (c * ·)) = c * relEntGrad epsq epsp qs ps g := by
  induction qs generalizing ps g with
  | nil => simp [relEntGrad]
  | cons q qs ih =>
    cases ps with
    | nil => simp [relEntGrad]
    | cons p ps =>
      cases g with
      | nil => simp [relEntGrad]
      | cons a g =>
        simp only [List.map_cons, relEntGrad, ih ps g]
        split <;> ring
theorem lincomb_length (n : Nat) (l : List (K × List K)) (h : ∀ x ∈ l, x.2.length = n) : (lincomb n l).length = n := by
  induction l with
  | nil => simp [lincomb]
  | cons x r ih =>
    obtain ⟨c, col⟩ := x
    have := ih fun y hy => h y (List.mem_cons_of_mem _ hy)
    have hc : col.length = n := h (c, col) (List.mem_cons_self ..)
    simp [lincomb, this, hc]

theorem relEntGrad_zero (epsq epsp : K) (qs ps : List K) (n : Nat) :
    relEntGrad epsq epsp qs ps (List.replicate n 0) = 0 := by
  induction qs generalizing ps n with
  | nil => simp [relEntGrad]
  | cons q qs ih =>
    cases ps with
    | nil => simp [relEntGrad]
    | cons p ps =>
      cases n with
      | zero => simp [relEntGrad]
      | succ n => simp [List.replicate_succ, relEntGrad, ih ps n]

/-- C12 (⟨gradient, h⟩): the gradient kernel evaluated on the direction `d = Σ_α h_α·column_α` is `Σ_α h_α ·` (its value on column α) = ⟨gradient, h⟩ -/
theorem relEntGrad_lincomb (epsq epsp : K) (qs ps : List K) (n : Nat) (l : List (K × List K))
    (h : ∀ x ∈ l, x.2.length = n) :
    relEntGrad epsq epsp qs ps (lincomb n l) = (l.map fun x => x.1 * relEntGrad epsq epsp qs ps x.2).sum := by
  induction l with
  | nil => simp [lincomb, relEntGrad_zero]
  | cons x r ih =>
    obtain ⟨c, col⟩ := x
    have hr := fun y hy => h y (List.mem_cons_of_mem _ hy)
    have hc : col.length = n := h (c, col) (List.mem_cons_self ..)
    simp only [lincomb, List.map_cons, List.sum_cons]
    rw [relEntGrad_add _ _ _ _ _ _ (by simp [hc, lincomb_length n r hr]), relEntGrad_smul, ih hr]

-- `relEntGrad_lincomb`: two columns of length 2
example : lincomb (K := Rat) 2 [(2, [1, 0]), (3, [0, 1])] = [2, 3] := by decide +kernel

end linearityThms

end entropyThms

/-! ## weighted relative entropy: fast = generic for the same weights -/
section wreWeighted
variable {K : Type} [Field K]

/-- C12 (weighted relative entropy, fast value = generic value for the same weights): with one weight per schedule (non-empty list) and
the extended weights the fast class caches, `np.sum(_extend_weights * vector)` over the stacked per-outcome terms equals
`Σ_j w_j · (sum of schedule j's terms)`, for any number of schedules and outcome counts (which may differ between schedules). -/
theorem fastWre_sum_eq_generic (w : List K) (ts : List (List K)) (hw : w ≠ []) (h : w.length = ts.length) :
    fastWreSum ⟨some w, some (extendW w (ts.map List.length))⟩ ts.flatten = wreSum (some w) (ts.map lsum) := by
  have hl := extendW_length w ts h
  cases w with
  | nil => exact absurd rfl hw
  | cons a w =>
    simp only [fastWreSum, bmul, hl, if_true, Except.map, wreSum, List.length_map, ← h, lt_irrefl, if_false]
    rw [extend_dot (a :: w) ts h]

/-- C12 (weighted relative entropy, fast gradient component = generic one): `np.dot(_extend_weights, column)` likewise. -/
theorem fastWre_dot_eq_generic (w : List K) (ts : List (List K)) (hw : w ≠ []) (h : w.length = ts.length) :
    fastWreDot ⟨some w, some (extendW w (ts.map List.length))⟩ ts.flatten = wreSum (some w) (ts.map lsum) := by
  have hl := extendW_length w ts h
  cases w with
  | nil => exact absurd rfl hw
  | cons a w =>
    simp only [fastWreDot, hl, if_true, wreSum, List.length_map, ← h, lt_irrefl, if_false]
    rw [extend_dot (a :: w) ts h]

/-- without weights both fast paths sum the stacked terms, as the generic loop does. -/
theorem fastWre_noweights (e : Option (List K)) (ts : List (List K)) :
    fastWreSum ⟨none, e⟩ ts.flatten = wreSum none (ts.map lsum) ∧
    fastWreDot ⟨none, e⟩ ts.flatten = wreSum none (ts.map lsum) := by
  simp [fastWreSum, fastWreDot, wreSum, lsum_flatten]


theorem relEntVecTerms_sum [LinearOrder K] (epsq epsp : K) (qs ps ls : List K) :
    lsum (relEntVecTerms epsq epsp qs ps ls) = relEntVec epsq epsp qs ps ls := by
  induction qs generalizing ps ls with
  | nil => simp [relEntVecTerms, relEntVec, lsum]
  | cons q qs ih =>
    cases ps with
    | nil => simp [relEntVecTerms, relEntVec, lsum]
    | cons p ps =>
      cases ls with
      | nil => simp [relEntVecTerms, relEntVec, lsum]
      | cons l ls =>
        simp only [relEntVecTerms, relEntVec]
        rw [← ih ps ls]
        simp [lsum]

theorem relEntGradVecTerms_sum [LinearOrder K] (epsq epsp : K) (qs ps gs : List K) :
    lsum (relEntGradVecTerms epsq epsp qs ps gs) = relEntGradVec epsq epsp qs ps gs := by
  induction qs generalizing ps gs with
  | nil => simp [relEntGradVecTerms, relEntGradVec, lsum]
  | cons q qs ih =>
    cases ps with
    | nil => simp [relEntGradVecTerms, relEntGradVec, lsum]
    | cons p ps =>
      cases gs with
      | nil => simp [relEntGradVecTerms, relEntGradVec, lsum]
      | cons g gs =>
        simp only [relEntGradVecTerms, relEntGradVec]
        rw [← ih ps gs]
        simp [lsum]

/-- C12 (weighted relative entropy end to end, value): after `set_from_standard_qtomography_option_data` with custom weights `w`
(one per schedule) the fast loss's value `Σ_i extW_i · vector_i` equals the generic loss's `Σ_j w_j · relative_entropy(q_j, p_j)`
for the same data, predictions and log values — from any earlier state of the fast object, for non-negative data. -/
theorem wre_weighted_fast_eq_generic [LinearOrder K] [IsStrictOrderedRing K] (epsq epsp : K) (st : WreState K) (w : List K)
    (scheds : List (List K × List K × List K)) (grad : Bool) (hw : w ≠ []) (h : w.length = scheds.length)
    (hq : ∀ s ∈ scheds, ∀ q ∈ s.1, 0 ≤ q) :
    fastWreSum (configureWre st (some w) (scheds.map fun s => (relEntVecTerms epsq epsp s.1 s.2.1 s.2.2).length) true grad)
        (scheds.map fun s => relEntVecTerms epsq epsp s.1 s.2.1 s.2.2).flatten
      = wreSum (configureWre st (some w) (scheds.map fun s => s.1.length) false grad).weights
          (scheds.map fun s => relEnt epsq epsp s.1 s.2.1 s.2.2) := by
  have hi := wre_option_weights_installed st w (scheds.map fun s => (relEntVecTerms epsq epsp s.1 s.2.1 s.2.2).length) true grad
  have hg := (wre_option_weights_installed st w (scheds.map fun s => s.1.length) false grad).1
  rw [hg]
  set st' := configureWre st (some w) (scheds.map fun s => (relEntVecTerms epsq epsp s.1 s.2.1 s.2.2).length) true grad with hst
  have e : st' = ⟨some w, some (extendW w ((scheds.map fun s => relEntVecTerms epsq epsp s.1 s.2.1 s.2.2).map List.length))⟩ := by
    cases hs : st' with
    | mk a b =>
      rw [hs] at hi
      simp only [List.map_map, Function.comp_def] at hi ⊢
      rw [hi.1, hi.2 trivial]
      rfl
  rw [e, fastWre_sum_eq_generic w _ hw (by simpa using h)]
  congr 1
  rw [List.map_map]
  apply List.map_congr_left
  intro s hs
  simp only [Function.comp_apply]
  rw [relEntVecTerms_sum, relEntVec_eq_relEnt _ _ _ _ _ (hq s hs)]

/-- C12 (weighted relative entropy end to end, gradient component α): likewise `np.dot(_extend_weights, column α)` equals
`Σ_j w_j · gradient_relative_entropy_2nd(q_j, p_j, ·)[α]`. -/
theorem wre_weighted_fast_grad_eq_generic [LinearOrder K] [IsStrictOrderedRing K] (epsq epsp : K) (st : WreState K) (w : List K)
    (scheds : List (List K × List K × List K)) (grad : Bool) (hw : w ≠ []) (h : w.length = scheds.length)
    (hq : ∀ s ∈ scheds, ∀ q ∈ s.1, 0 ≤ q) :
    fastWreDot (configureWre st (some w) (scheds.map fun s => (relEntGradVecTerms epsq epsp s.1 s.2.1 s.2.2).length) true grad)
        (scheds.map fun s => relEntGradVecTerms epsq epsp s.1 s.2.1 s.2.2).flatten
      = wreSum (some w) (scheds.map fun s => relEntGrad epsq epsp s.1 s.2.1 s.2.2) := by
  have hi := wre_option_weights_installed st w (scheds.map fun s => (relEntGradVecTerms epsq epsp s.1 s.2.1 s.2.2).length) true grad
  set st' := configureWre st (some w) (scheds.map fun s => (relEntGradVecTerms epsq epsp s.1 s.2.1 s.2.2).length) true grad with hst
  have e : st' = ⟨some w, some (extendW w ((scheds.map fun s => relEntGradVecTerms epsq epsp s.1 s.2.1 s.2.2).map List.length))⟩ := by
    cases hs : st' with
    | mk a b =>
      rw [hs] at hi
      simp only [List.map_map, Function.comp_def] at hi ⊢
      rw [hi.1, hi.2 trivial]
      rfl
  rw [e, fastWre_dot_eq_generic w _ hw (by simpa using h)]
  congr 1
  rw [List.map_map]
  apply List.map_congr_left
  intro s hs
  simp only [Function.comp_apply]
  rw [relEntGradVecTerms_sum, relEntGradVec_eq_relEntGrad _ _ _ _ _ (hq s hs)]

end wreWeighted


/-! ## relative entropy: the gradient is the derivative (real analysis) -/
section deriv
open Filter Topology

theorem roundVarz_of_lt {z eps : ℝ} (h : eps < z) : roundVarz z eps = z := by
  unfold roundVarz; rw [if_pos h]
theorem roundVarz_of_le {z eps : ℝ} (h : eps ≤ z) : roundVarz z eps = z := by
  unfold roundVarz
  rcases lt_or_eq_of_le h with h1 | h1
  · rw [if_pos h1]
  · rw [if_neg (by rw [h1]; exact lt_irrefl _), h1]

theorem relEnt_value_tie (epsq epsp : ℝ) (l : List Pt) (t : ℝ) (h : AwayAt epsq epsp l t) :
    relEnt epsq epsp (qsOf l) (psAt l t) (logsAt epsq epsp l t)
      = (l.map fun x => x.q * Real.log (x.q / (x.p + t * x.d))).sum := by
  induction l with
  | nil => simp [qsOf, psAt, logsAt, relEnt]
  | cons x r ih =>
    have hx := h x (List.mem_cons_self ..)
    have ih' := ih fun y hy => h y (List.mem_cons_of_mem _ hy)
    simp only [qsOf, psAt, logsAt, List.map_cons, relEnt, List.sum_cons] at ih' ⊢
    rw [ih', if_pos hx.2.1, roundVarz_of_le hx.2.1]
    unfold logArg
    rw [roundVarz_of_le hx.2.1, roundVarz_of_lt hx.2.2.2.1, roundVarz_of_lt hx.2.2.2.2]

theorem relEntGrad_tie (epsq epsp : ℝ) (l : List Pt) (t : ℝ) (h : AwayAt epsq epsp l t) :
    relEntGrad epsq epsp (qsOf l) (psAt l t) (gsOf l)
      = (l.map fun x => -x.q * x.g / (x.p + t * x.d)).sum := by
  induction l with
  | nil => simp [qsOf, psAt, gsOf, relEntGrad]
  | cons x r ih =>
    have hx := h x (List.mem_cons_self ..)
    have ih' := ih fun y hy => h y (List.mem_cons_of_mem _ hy)
    simp only [qsOf, psAt, gsOf, List.map_cons, relEntGrad, List.sum_cons] at ih' ⊢
    rw [ih', if_pos hx.2.1, roundVarz_of_lt hx.2.2.2.1]

theorem relEntHess_tie (epsq epsp : ℝ) (l : List Pt) (h : AwayAt epsq epsp l 0) :
    relEntHess epsq epsp (qsOf l) (psAt l 0) (gsOf l) (dsOf l)
      = (l.map fun x => x.q * x.g * x.d / x.p ^ 2).sum := by
  induction l with
  | nil => simp [qsOf, psAt, gsOf, dsOf, relEntHess]
  | cons x r ih =>
    have hx := h x (List.mem_cons_self ..)
    have ih' := ih fun y hy => h y (List.mem_cons_of_mem _ hy)
    simp only [qsOf, psAt, gsOf, dsOf, List.map_cons, relEntHess, List.sum_cons] at ih' ⊢
    rw [ih', if_pos hx.2.1, roundVarz_of_lt hx.2.2.2.1]
    have hp : x.p ≠ 0 := by have := hx.2.2.1; simp at this; exact this.ne'
    simp only [zero_mul, add_zero]
    field_simp
    ring

/-- the thresholds stay inactive in a neighbourhood of `t = 0` -/
theorem awayAt_eventually (epsq epsp : ℝ) (l : List Pt) (h : AwayAt epsq epsp l 0) :
    ∀ᶠ t in 𝓝 (0 : ℝ), AwayAt epsq epsp l t := by
  induction l with
  | nil => exact Eventually.of_forall fun t x hx => by simp at hx
  | cons x r ih =>
    have hx := h x (List.mem_cons_self ..)
    have ihr := ih fun y hy => h y (List.mem_cons_of_mem _ hy)
    simp only [zero_mul, add_zero] at hx
    have hc : ContinuousAt (fun t : ℝ => x.p + t * x.d) 0 := by fun_prop
    have hc0 : (fun t : ℝ => x.p + t * x.d) 0 = x.p := by simp
    have e1 : ∀ᶠ t in 𝓝 (0 : ℝ), 0 < x.p + t * x.d :=
      hc.eventually (lt_mem_nhds (by rw [hc0]; exact hx.2.2.1))
    have e2 : ∀ᶠ t in 𝓝 (0 : ℝ), epsp < x.p + t * x.d :=
      hc.eventually (lt_mem_nhds (by rw [hc0]; exact hx.2.2.2.1))
    have hcd : ContinuousAt (fun t : ℝ => x.q / (x.p + t * x.d)) 0 :=
      continuousAt_const.div hc (by simp only [zero_mul, add_zero]; exact hx.2.2.1.ne')
    have e3 : ∀ᶠ t in 𝓝 (0 : ℝ), epsp < x.q / (x.p + t * x.d) :=
      hcd.eventually (lt_mem_nhds (by simp only [zero_mul, add_zero]; exact hx.2.2.2.2))
    filter_upwards [e1, e2, e3, ihr] with t h1 h2 h3 hr
    intro y hy
    rcases List.mem_cons.mp hy with rfl | hy
    · exact ⟨hx.1, hx.2.1, h1, h2, h3⟩
    · exact hr y hy

theorem list_sum_hasDerivAt {α : Type} (l : List α) (f : α → ℝ → ℝ) (f' : α → ℝ)
    (h : ∀ x ∈ l, HasDerivAt (f x) (f' x) 0) :
    HasDerivAt (fun t => (l.map fun x => f x t).sum) (l.map f').sum 0 := by
  induction l with
  | nil => simpa using hasDerivAt_const (0 : ℝ) (0 : ℝ)
  | cons x r ih =>
    simp only [List.map_cons, List.sum_cons]
    exact (h x (List.mem_cons_self ..)).add (ih fun y hy => h y (List.mem_cons_of_mem _ hy))

theorem gterm_hasDerivAt (q p g d : ℝ) (hp : 0 < p) :
    HasDerivAt (fun t : ℝ => -q * g / (p + t * d)) (q * g * d / p ^ 2) 0 := by
  have h1 : HasDerivAt (fun t : ℝ => p + t * d) d 0 := by
    simpa using ((hasDerivAt_id (0 : ℝ)).mul_const d).const_add p
  have hp0 : p + 0 * d ≠ 0 := by simpa using hp.ne'
  have h2 := (hasDerivAt_const (0 : ℝ) (-q * g)).div h1 hp0
  have h2' : HasDerivAt (fun t : ℝ => -q * g / (p + t * d))
      ((0 * (p + 0 * d) - -q * g * d) / (p + 0 * d) ^ 2) 0 := h2
  refine h2'.congr_deriv ?_
  simp only [zero_mul, add_zero, zero_sub]
  ring

/-- one outcome's term: `d/dt q·log(q/(p+td)) = −q d / p` at `t = 0` (Mathlib `HasDerivAt`, `Real.log`) -/
theorem term_hasDerivAt (q p d : ℝ) (hq : 0 < q) (hp : 0 < p) :
    HasDerivAt (fun t : ℝ => q * Real.log (q / (p + t * d))) (-q * d / p) 0 := by
  have h1 : HasDerivAt (fun t : ℝ => p + t * d) d 0 := by
    simpa using ((hasDerivAt_id (0 : ℝ)).mul_const d).const_add p
  have hp0 : p + 0 * d ≠ 0 := by simpa using hp.ne'
  have h2 := (hasDerivAt_const (0 : ℝ) q).div h1 hp0
  have hne : q / (p + 0 * d) ≠ 0 := by
    simp only [zero_mul, add_zero]; exact div_ne_zero hq.ne' hp.ne'
  have h3 := (h2.log hne).const_mul q
  have h3' : HasDerivAt (fun t : ℝ => q * Real.log (q / (p + t * d)))
      (q * ((0 * (p + 0 * d) - q * d) / (p + 0 * d) ^ 2 / (q / (p + 0 * d)))) 0 := h3
  refine h3'.congr_deriv ?_
  have hp' : p ≠ 0 := hp.ne'
  have hq' : q ≠ 0 := hq.ne'
  simp only [zero_mul, add_zero, zero_sub]
  field_simp

/-- C12 (relative entropy, value = defining formula): away from the clipping thresholds (`q ≥ eps_q`, `p > eps_p`,
`q/p > eps_p`) the model's kernel of `relative_entropy`, fed with `Real.log` of the clipped ratios as numpy's
`log` values, is `Σ_i q_i log(q_i / p_i)`. -/
theorem wre_value_formula (epsq epsp : ℝ) (l : List Pt) (h : AwayAt epsq epsp l 0) :
    valueAt epsq epsp l 0 = (l.map fun x => x.q * Real.log (x.q / x.p)).sum := by
  unfold valueAt
  rw [relEnt_value_tie epsq epsp l 0 h]
  simp

/-- C12 (relative entropy, gradient is the derivative of the value): along every line `x + t h`
(`p(t) = p + t·d`, `d = A h`) the model's value kernel — clipping included — has at `t = 0` the derivative
that the model of `gradient_relative_entropy_2nd` returns for the direction `d`, provided the point is away
from the clipping thresholds (they then stay inactive in a neighbourhood). -/
theorem wre_gradient_hasDerivAt (epsq epsp : ℝ) (l : List Pt) (h : AwayAt epsq epsp l 0) :
    HasDerivAt (valueAt epsq epsp l) (relEntGrad epsq epsp (qsOf l) (psAt l 0) (dsOf l)) 0 := by
  have hF : HasDerivAt (fun t => (l.map fun x => x.q * Real.log (x.q / (x.p + t * x.d))).sum)
      (l.map fun x => -x.q * x.d / x.p).sum 0 := by
    apply list_sum_hasDerivAt l (fun x t => x.q * Real.log (x.q / (x.p + t * x.d)))
    intro x hx
    have hh := h x hx
    simp only [zero_mul, add_zero] at hh
    exact term_hasDerivAt x.q x.p x.d hh.1 hh.2.2.1
  have hEq : valueAt epsq epsp l =ᶠ[𝓝 0]
      fun t => (l.map fun x => x.q * Real.log (x.q / (x.p + t * x.d))).sum := by
    filter_upwards [awayAt_eventually epsq epsp l h] with t ht
    exact relEnt_value_tie epsq epsp l t ht
  have hD := hF.congr_of_eventuallyEq hEq
  refine hD.congr_deriv ?_
  have := relEntGrad_tie epsq epsp (l.map fun x => { x with g := x.d }) 0
    (by intro y hy; simp only [List.mem_map] at hy; obtain ⟨x, hx, rfl⟩ := hy; exact h x hx)
  simp only [qsOf, psAt, gsOf, dsOf, List.map_map, Function.comp_def, zero_mul, add_zero] at this ⊢
  rw [this]

/-- C12 (relative entropy, Hessian is the derivative of the gradient): along every line the component
`g = ∂_α p` of the model's gradient kernel has at `t = 0` the derivative that the model of
`hessian_relative_entropy_2nd` returns for `(g, d)` (affine `p`, so the `hess_p` term vanishes), away from the
clipping thresholds. -/
theorem wre_hessian_hasDerivAt (epsq epsp : ℝ) (l : List Pt) (h : AwayAt epsq epsp l 0) :
    HasDerivAt (fun t => relEntGrad epsq epsp (qsOf l) (psAt l t) (gsOf l))
      (relEntHess epsq epsp (qsOf l) (psAt l 0) (gsOf l) (dsOf l)) 0 := by
  have hF : HasDerivAt (fun t => (l.map fun x => -x.q * x.g / (x.p + t * x.d)).sum)
      (l.map fun x => x.q * x.g * x.d / x.p ^ 2).sum 0 := by
    apply list_sum_hasDerivAt l (fun x t => -x.q * x.g / (x.p + t * x.d))
    intro x hx
    have hh := h x hx
    simp only [zero_mul, add_zero] at hh
    exact gterm_hasDerivAt x.q x.p x.g x.d hh.2.2.1
  have hEq : (fun t => relEntGrad epsq epsp (qsOf l) (psAt l t) (gsOf l)) =ᶠ[𝓝 0]
      fun t => (l.map fun x => -x.q * x.g / (x.p + t * x.d)).sum := by
    filter_upwards [awayAt_eventually epsq epsp l h] with t ht
    exact relEntGrad_tie epsq epsp l t ht
  have hD := hF.congr_of_eventuallyEq hEq
  exact hD.congr_deriv (relEntHess_tie epsq epsp l h).symm

/-- C12 (clipping branches, region `q < eps_q`): the outcome is skipped — its contribution to value, gradient and
Hessian is identically zero for every `p` (so the gradient is trivially the derivative there). -/
theorem relEnt_region_q_below (epsq epsp q p g a b : ℝ) (hq : q < epsq) :
    termAt epsq epsp q p = 0 ∧ relEntGrad epsq epsp [q] [p] [g] = 0 ∧
      relEntHess epsq epsp [q] [p] [a] [b] = 0 := by
  have h : ¬ epsq ≤ q := not_le.mpr hq
  simp [termAt, relEnt, relEntGrad, relEntHess, h]

/-- C12 (clipping branches, region `q ≥ eps_q`, `p < eps_p`): `p` is replaced by `eps_p`, so the value term is locally
constant in `p` (derivative `0`, Mathlib `HasDerivAt`), while `gradient_relative_entropy_2nd` returns `−q·∂p/eps_p`:
inside the clipping region the reported gradient is NOT the derivative of the reported value (unless `q·∂p = 0`) —
which is why the property is stated "away from the documented clipping thresholds". -/
theorem relEnt_region_p_clipped (epsq epsp q p g : ℝ) (hq : epsq ≤ q) (hp : p < epsp) (_hpos : 0 < epsp) :
    HasDerivAt (termAt epsq epsp q) 0 p ∧ relEntGrad epsq epsp [q] [p] [g] = -q * g / epsp := by
  constructor
  · have hconst : termAt epsq epsp q =ᶠ[𝓝 p] fun _ => termAt epsq epsp q p := by
      filter_upwards [gt_mem_nhds hp] with p' hp'
      have r1 : roundVarz p' epsp = epsp := by unfold roundVarz; rw [if_neg (not_lt.mpr (le_of_lt hp'))]
      have r2 : roundVarz p epsp = epsp := by unfold roundVarz; rw [if_neg (not_lt.mpr (le_of_lt hp))]
      simp only [termAt, relEnt, logArg, r1, r2]
    exact (hasDerivAt_const p _).congr_of_eventuallyEq hconst
  · have r2 : roundVarz p epsp = epsp := by unfold roundVarz; rw [if_neg (not_lt.mpr (le_of_lt hp))]
    simp [relEntGrad, hq, r2]

/-- C12 (clipping branches, region `q ≥ eps_q`, `p > eps_p`, `q/p < eps_p`): the ratio is replaced by `eps_p`, the value
term is locally constant (`q·log eps_p`, derivative `0`), the gradient kernel returns `−q·∂p/p`. Together with
`relEnt_region_q_below`, `relEnt_region_p_clipped` and `wre_gradient_hasDerivAt` (the open region where no threshold is
active) this lists every branch of the kernel and its derivative on the interior of each region. -/
theorem relEnt_region_ratio_clipped (epsq epsp q p g : ℝ) (hq : epsq ≤ q) (hp : epsp < p) (hpos : 0 < epsp)
    (hr : q / p < epsp) :
    HasDerivAt (termAt epsq epsp q) 0 p ∧ relEntGrad epsq epsp [q] [p] [g] = -q * g / p := by
  have hp0 : p ≠ 0 := (lt_trans hpos hp).ne'
  constructor
  · have hc : ContinuousAt (fun p' : ℝ => q / p') p := continuousAt_const.div continuousAt_id hp0
    have e1 : ∀ᶠ p' in 𝓝 p, q / p' < epsp := hc.eventually (gt_mem_nhds hr)
    have e2 : ∀ᶠ p' in 𝓝 p, epsp < p' := lt_mem_nhds hp
    have hconst : termAt epsq epsp q =ᶠ[𝓝 p] fun _ => roundVarz q epsq * Real.log epsp + 0 := by
      filter_upwards [e1, e2] with p' h1 h2
      have r1 : roundVarz p' epsp = p' := by unfold roundVarz; rw [if_pos h2]
      have rq : roundVarz q epsq = q := roundVarz_of_le hq
      have r3 : roundVarz (q / p') epsp = epsp := by unfold roundVarz; rw [if_neg (not_lt.mpr (le_of_lt h1))]
      simp only [termAt, relEnt, logArg, r1, rq, r3, if_pos hq]
    exact (hasDerivAt_const p _).congr_of_eventuallyEq hconst
  · have r1 : roundVarz p epsp = p := by unfold roundVarz; rw [if_pos hp]
    simp [relEntGrad, hq, r1]

-- non-vacuity of the region hypotheses
example := relEnt_region_q_below (1/10) (1/10) (1/20) (1/2) 1 1 1 (by norm_num)
example := relEnt_region_p_clipped (1/10) (1/10) (1/2) (1/20) 1 (by norm_num) (by norm_num) (by norm_num)
example := relEnt_region_ratio_clipped (1/100) (1/10) (1/50) (1/2) 1 (by norm_num) (by norm_num) (by norm_num) (by norm_num)
example : AwayAt (1/10) (1/10) [⟨1/2, 1/2, 1, 1⟩] 0 := by
  intro x hx
  simp only [List.mem_singleton] at hx
  subst hx
  norm_num

theorem valueAt_kept (epsq epsp : ℝ) (l : List Pt) (t : ℝ) :
    valueAt epsq epsp l t = valueAt epsq epsp (kept epsq l) t := by
  unfold valueAt kept
  induction l with
  | nil => rfl
  | cons x r ih =>
    by_cases h : epsq ≤ x.q
    · simp only [qsOf, psAt, logsAt, List.map_cons, relEnt, List.filter_cons, h, decide_true, if_true] at ih ⊢
      rw [ih]
    · simp only [qsOf, psAt, logsAt, List.map_cons, relEnt, List.filter_cons, h, decide_false, if_false,
        Bool.false_eq_true, zero_add] at ih ⊢
      rw [ih]

theorem relEntGrad_kept (epsq epsp : ℝ) (l : List Pt) (t : ℝ) :
    relEntGrad epsq epsp (qsOf l) (psAt l t) (dsOf l)
      = relEntGrad epsq epsp (qsOf (kept epsq l)) (psAt (kept epsq l) t) (dsOf (kept epsq l)) := by
  unfold kept
  induction l with
  | nil => rfl
  | cons x r ih =>
    by_cases h : epsq ≤ x.q
    · simp only [qsOf, psAt, dsOf, List.map_cons, relEntGrad, List.filter_cons, h, decide_true, if_true] at ih ⊢
      rw [ih]
    · simp only [qsOf, psAt, dsOf, List.map_cons, relEntGrad, List.filter_cons, h, decide_false, if_false,
        Bool.false_eq_true, zero_add] at ih ⊢
      rw [ih]

/-- C12 (relative entropy, gradient is the derivative — data WITH zero entries): every outcome is either skipped by the kernel
(`q < eps_q`, in particular an exactly-zero empirical entry) or away from all clipping thresholds; then along every line the model's value
kernel has the model's gradient as derivative. This is the statement for the property's quantifier "all empirical distributions including
zero entries". -/
theorem wre_gradient_hasDerivAt_mixed (epsq epsp : ℝ) (l : List Pt) (h : AwayOrSkipped epsq epsp l 0) :
    HasDerivAt (valueAt epsq epsp l) (relEntGrad epsq epsp (qsOf l) (psAt l 0) (dsOf l)) 0 := by
  have hk : AwayAt epsq epsp (kept epsq l) 0 := by
    intro x hx
    simp only [kept, List.mem_filter, decide_eq_true_eq] at hx
    rcases h x hx.1 with h1 | h1
    · exact absurd hx.2 (not_le.mpr h1)
    · exact h1
  have := wre_gradient_hasDerivAt epsq epsp (kept epsq l) hk
  rw [← relEntGrad_kept] at this
  have hfun : valueAt epsq epsp l = valueAt epsq epsp (kept epsq l) := funext (valueAt_kept epsq epsp l)
  rw [hfun]
  exact this

-- non-vacuity with a zero empirical entry
example : AwayOrSkipped (1/10) (1/10) [⟨0, 1/2, 1, 1⟩, ⟨1/2, 1/2, 1, -1⟩] 0 := by
  intro x hx
  simp only [List.mem_cons, List.not_mem_nil, or_false] at hx
  rcases hx with rfl | rfl
  · left; norm_num
  · right; norm_num


/-- C12 (relative entropy, value formula with zero entries): the kernel's value is `Σ_{q_i ≥ eps_q} q_i log(q_i/p_i)` — skipped outcomes
contribute nothing. -/
theorem wre_value_formula_mixed (epsq epsp : ℝ) (l : List Pt) (h : AwayOrSkipped epsq epsp l 0) :
    valueAt epsq epsp l 0 = ((kept epsq l).map fun x => x.q * Real.log (x.q / x.p)).sum := by
  have hk : AwayAt epsq epsp (kept epsq l) 0 := by
    intro x hx
    simp only [kept, List.mem_filter, decide_eq_true_eq] at hx
    rcases h x hx.1 with h1 | h1
    · exact absurd hx.2 (not_le.mpr h1)
    · exact h1
  rw [valueAt_kept, wre_value_formula epsq epsp _ hk]

theorem relEntGradG_kept (epsq epsp : ℝ) (l : List Pt) (t : ℝ) :
    relEntGrad epsq epsp (qsOf l) (psAt l t) (gsOf l)
      = relEntGrad epsq epsp (qsOf (kept epsq l)) (psAt (kept epsq l) t) (gsOf (kept epsq l)) := by
  unfold kept
  induction l with
  | nil => rfl
  | cons x r ih =>
    by_cases h : epsq ≤ x.q
    · simp only [qsOf, psAt, gsOf, List.map_cons, relEntGrad, List.filter_cons, h, decide_true, if_true] at ih ⊢
      rw [ih]
    · simp only [qsOf, psAt, gsOf, List.map_cons, relEntGrad, List.filter_cons, h, decide_false, if_false,
        Bool.false_eq_true, zero_add] at ih ⊢
      rw [ih]

theorem relEntHess_kept (epsq epsp : ℝ) (l : List Pt) :
    relEntHess epsq epsp (qsOf l) (psAt l 0) (gsOf l) (dsOf l)
      = relEntHess epsq epsp (qsOf (kept epsq l)) (psAt (kept epsq l) 0) (gsOf (kept epsq l)) (dsOf (kept epsq l)) := by
  unfold kept
  induction l with
  | nil => rfl
  | cons x r ih =>
    by_cases h : epsq ≤ x.q
    · simp only [qsOf, psAt, gsOf, dsOf, List.map_cons, relEntHess, List.filter_cons, h, decide_true, if_true] at ih ⊢
      rw [ih]
    · simp only [qsOf, psAt, gsOf, dsOf, List.map_cons, relEntHess, List.filter_cons, h, decide_false, if_false,
        Bool.false_eq_true, zero_add] at ih ⊢
      rw [ih]

/-- C12 (relative entropy, Hessian is the derivative of the gradient — data WITH zero entries). -/
theorem wre_hessian_hasDerivAt_mixed (epsq epsp : ℝ) (l : List Pt) (h : AwayOrSkipped epsq epsp l 0) :
    HasDerivAt (fun t => relEntGrad epsq epsp (qsOf l) (psAt l t) (gsOf l))
      (relEntHess epsq epsp (qsOf l) (psAt l 0) (gsOf l) (dsOf l)) 0 := by
  have hk : AwayAt epsq epsp (kept epsq l) 0 := by
    intro x hx
    simp only [kept, List.mem_filter, decide_eq_true_eq] at hx
    rcases h x hx.1 with h1 | h1
    · exact absurd hx.2 (not_le.mpr h1)
    · exact h1
  have := wre_hessian_hasDerivAt epsq epsp (kept epsq l) hk
  rw [← relEntHess_kept] at this
  have hfun : (fun t => relEntGrad epsq epsp (qsOf l) (psAt l t) (gsOf l))
      = fun t => relEntGrad epsq epsp (qsOf (kept epsq l)) (psAt (kept epsq l) t) (gsOf (kept epsq l)) :=
    funext (relEntGradG_kept epsq epsp l)
  rw [hfun]
  exact this

/-- C12 (weighted relative entropy, loss level): the model's weighted value is this sum — `wreSum (some w) (per-schedule kernel values)` -/
theorem lossAt_eq_wreSum (epsq epsp : ℝ) (scheds : List (ℝ × List Pt)) (t : ℝ) (hne : scheds ≠ []) :
    wreSum (some (scheds.map (·.1))) (scheds.map fun s => valueAt epsq epsp s.2 t) = .ok (lossAt epsq epsp scheds t) := by
  cases scheds with
  | nil => exact absurd rfl hne
  | cons s r =>
    simp only [wreSum, List.map_cons, List.length_cons, List.length_map, lt_irrefl, if_false, lossAt]
    rw [lsum_eq_sum]
    congr 1
    simp only [List.zip_cons_cons, List.map_cons, List.sum_cons]
    congr 1
    induction r with
    | nil => rfl
    | cons a r ih => simp [ih]

/-- C12 (weighted relative entropy, loss level): along every line the weighted loss value has as derivative the weighted sum of the
model's per-schedule gradients (direction `d`), for data with zero entries, away from the clipping thresholds. -/
theorem wre_loss_hasDerivAt (epsq epsp : ℝ) (scheds : List (ℝ × List Pt))
    (h : ∀ s ∈ scheds, AwayOrSkipped epsq epsp s.2 0) :
    HasDerivAt (lossAt epsq epsp scheds)
      (scheds.map fun s => s.1 * relEntGrad epsq epsp (qsOf s.2) (psAt s.2 0) (dsOf s.2)).sum 0 := by
  unfold lossAt
  apply list_sum_hasDerivAt scheds (fun s t => s.1 * valueAt epsq epsp s.2 t)
  intro s hs
  exact (wre_gradient_hasDerivAt_mixed epsq epsp s.2 (h s hs)).const_mul s.1

/-- C12 (weighted relative entropy, loss level): the weighted gradient component has the weighted Hessian entry as derivative. -/
theorem wre_loss_grad_hasDerivAt (epsq epsp : ℝ) (scheds : List (ℝ × List Pt))
    (h : ∀ s ∈ scheds, AwayOrSkipped epsq epsp s.2 0) :
    HasDerivAt (fun t => (scheds.map fun s => s.1 * relEntGrad epsq epsp (qsOf s.2) (psAt s.2 t) (gsOf s.2)).sum)
      (scheds.map fun s => s.1 * relEntHess epsq epsp (qsOf s.2) (psAt s.2 0) (gsOf s.2) (dsOf s.2)).sum 0 := by
  apply list_sum_hasDerivAt scheds (fun s t => s.1 * relEntGrad epsq epsp (qsOf s.2) (psAt s.2 t) (gsOf s.2))
  intro s hs
  exact (wre_hessian_hasDerivAt_mixed epsq epsp s.2 (h s hs)).const_mul s.1


-- loss-level derivative: two schedules with weights 2 and 0 (a switched-off schedule), one zero data entry
example : ∀ s ∈ [((2 : ℝ), [(⟨0, 1/2, 1, 1⟩ : Pt), ⟨1/2, 1/2, 1, -1⟩]), (0, [⟨1/2, 1/2, 1, 1⟩])], AwayOrSkipped (1/10) (1/10) s.2 0 := by
  intro s hs
  simp only [List.mem_cons, List.not_mem_nil, or_false] at hs
  rcases hs with rfl | rfl <;> intro x hx <;> simp only [List.mem_cons, List.not_mem_nil, or_false] at hx
  · rcases hx with rfl | rfl
    · left; norm_num
    · right; norm_num
  · subst hx; right; norm_num
end deriv

/-! ## concrete instances of the repaired wiring -/

-- `identity` after `custom` resets the weights (generic loss)
example :
    (((configureGen (K := Rat) (m := 1) 0 ⟨none⟩ (mkOpt .custom (some [Mat.ofFn fun _ _ => 5])) []).toOption.bind
        fun st => (configureGen 0 st (mkOpt .identity none) []).toOption).map
      fun st => st.weightMatrices.isNone) = some true := by
  decide +kernel

-- a fresh fast loss configured with custom weights has them in its cache; re-configuration replaces them
example :
    ((configureFast (K := Rat) (m := 1) 0 ⟨none, none⟩ (mkOpt .custom (some [Mat.ofFn fun _ _ => 5])) true []).toOption.bind
      fun st => (configureFast 0 st (mkOpt .custom (some [Mat.ofFn fun _ _ => 7])) true []).toOption.map
        fun st' => (st.extW.map fun e => e.blocks.map fun W => W.get 0 0,
                    st'.extW.map fun e => e.blocks.map fun W => W.get 0 0)) = some (some [5], some [7]) := by
  decide +kernel
-- an asymmetric float inverse is symmetrised and accepted; an asymmetric custom matrix is rejected
example : ((configureGen (K := Rat) (m := 3) (1/10000000000000) ⟨none⟩ (mkOpt .invSample none)
    [Mat.ofFn fun i j => if i.val < j.val then 1 else 2]).toOption.map fun st =>
      st.weightMatrices.map fun l => l.map fun W => W.toList.map (·.toList))
    = some (some [[[2, 3/2, 0], [3/2, 2, 0], [0, 0, 0]]]) := by
  decide +kernel
example : (configureGen (K := Rat) (m := 2) (1/10000000000000) ⟨none⟩
    (mkOpt .custom (some [Mat.ofFn fun i j => if i.val < j.val then 1 else 2])) []).toOption.isNone = true := by
  decide +kernel
-- three outcomes: the symmetrised inverse fills the leading 2×2 block
example : (invCovWeight (K := Rat) (m := 3) (Mat.ofFn fun i j => (i.val : Rat) * 2 + j.val + 1)).toList.map (·.toList)
    = [[1, 5/2, 0], [5/2, 4, 0], [0, 0, 0]] := by
  decide +kernel

-- `inv_cov_weight_is_inverse`: two outcomes, q = (1/4, 3/4), 4 shots, regulariser 1/8: X = [11/64], exact inverse [64/11]
example : ∃ G : Mat Rat (2 - 1) (2 - 1),
    G.toM * (extractedFor (m := 2) .invSample (Vec.ofFn fun i => if i.val = 0 then (1/4 : Rat) else 3/4) (1/100) 4 8).toM = 1 := by
  refine ⟨Mat.ofFn fun _ _ => 64/11, ?_⟩
  have h : (Mat.ofFn (m := 2 - 1) (n := 2 - 1) fun _ _ => (64/11 : Rat)).mul
      (extractedFor (m := 2) .invSample (Vec.ofFn fun i => if i.val = 0 then (1/4 : Rat) else 3/4) (1/100) 4 8) = Mat.one := by
    decide +kernel
  have := congrArg Mat.toM h
  simpa using this
-- data with a zero entry satisfy the hypothesis of the mixed derivative theorems
example : AwayOrSkipped (1/10) (1/10) [⟨0, 1/2, 1, 1⟩, ⟨1/2, 1/2, 1, -1⟩] 0 := by
  intro x hx
  simp only [List.mem_cons, List.not_mem_nil, or_false] at hx
  rcases hx with rfl | rfl
  · left; norm_num
  · right; norm_num
-- full instantiation of `wse_taylor` (all hypotheses at once)
example : True := by
  have s1 : Sched Rat 1 1 := ⟨Mat.ofFn fun _ _ => 2, Vec.ofFn fun _ => 1, Vec.ofFn fun _ => 0⟩
  have x1 : Vec Rat 1 := Vec.ofFn fun _ => 1
  have := wse_taylor (K := Rat) [s1] none x1 x1 [(s1, none)] (by simp [resolve, weightAt])
    (by intro p hp; simp only [List.mem_singleton] at hp; subst hp; simp [wmat])
  trivial
-- weighted relative entropy: two schedules with 2 and 3 outcomes, weights [2, 3] — fast sum = generic sum
example : fastWreSum (K := Rat) ⟨some [2, 3], some (extendW [2, 3] [2, 3])⟩ [1, 1, 5, 5, 5]
    = wreSum (some [2, 3]) [2, 15] := by decide +kernel
-- an empty custom list: generic evaluates unweighted, the fast relative-entropy value is numpy's broadcast error
example : (wreSum (K := Rat) (some []) [1, 2]).toOption = some 3 ∧
    (fastWreSum (K := Rat) ⟨some [], some []⟩ [1, 2]).toOption = none := by decide +kernel
-- a length-1 weight vector broadcasts in the fast value (numpy), it does not truncate
example : (fastWreSum (K := Rat) ⟨some [2], some [2]⟩ [1, 10, 100]).toOption = some 222 := by decide +kernel
-- non-vacuity: the hypotheses of the Taylor identity / fast-path theorems are satisfiable
example (s : Sched Rat 2 1) :
    resolve (none : Option (List (Mat Rat 2 2))) [s] 0 = some [(s, none)] := by
  simp [resolve, weightAt]
example (s : Sched Rat 2 1) : SymWeights [(s, (none : Option (Mat Rat 2 2)))] := by
  intro p hp
  simp only [List.mem_singleton] at hp
  subst hp
  simp [wmat]
example (s : Sched Rat 2 1) (W : Mat Rat 2 2) (h : W.toMᵀ = W.toM) : SymWeights [(s, some W)] := by
  intro p hp
  simp only [List.mem_singleton] at hp
  subst hp
  simpa [wmat] using h
example : (fastValue (K := Rat) (m := 1) (nv := 1)
    [⟨Mat.ofFn fun _ _ => 2, Vec.ofFn fun _ => 1, Vec.ofFn fun _ => 0⟩]
    (some ⟨[Mat.ofFn fun _ _ => 3]⟩) (Vec.ofFn fun _ => 1)).toOption = some 27 := by
  decide +kernel

end QM.C12
