import QProofs.C03
/-!
# C03 — optimisation variables ↔ objects are in one-to-one correspondence: property theorems

All statements are unbounded in the dimension `d ≥ 1`, the outcome count `m`, and the values (arbitrary,
non-physical); scalars `K` are any type with the operations used (the driver runs `K = Rat`).
The integer index maps `convert_*_index*` and `num_variables_*` are the definitions GENERATED from the Python
source (`QGen.C03`, regenerated on every run): a source edit that changes them re-opens these proofs.
`XFree d m f a` = "`a` is an entry of the object that is not implied by the built-in equality constraint".
-/
open QGen.C03
namespace QM.C03
variable {K : Type}

/-! ## clause "every index conversion … is a bijection" (generated maps, ∀ d ≥ 1, ∀ m) -/

/-- C03.4 state: var index ↦ state index maps `[0, num_variables)` into the free entries and is inverted by
the generated obj→var map. -/
theorem state_index_var_obj_var (d i : Int) (f : Bool) (h0 : 0 ≤ i) (h : i < num_variables_qst d f) :
    StateFree d f (convert_var_index_to_state_index i f) ∧
      convert_state_index_to_var_index (convert_var_index_to_state_index i f) f = i :=
  state_v2o d i f h0 h

/-- C03.4 state: conversely every free entry comes from exactly one variable index in range. -/
theorem state_index_obj_var_obj (d a : Int) (f : Bool) (h : StateFree d f a) :
    (0 ≤ convert_state_index_to_var_index a f ∧
        convert_state_index_to_var_index a f < num_variables_qst d f) ∧
      convert_var_index_to_state_index (convert_state_index_to_var_index a f) f = a :=
  state_o2v d a f h

/-- C03.4 POVM (`vecs[0].shape[0] = d²`). -/
theorem povm_index_var_obj_var (d m i : Int) (f : Bool) (hd : 0 < d) (h0 : 0 ≤ i)
    (h : i < num_variables_povmt d m f) :
    PovmFree d m f (convert_var_index_to_povm_index d m (d ^ (2:Nat)) i f) ∧
      convert_povm_index_to_var_index d m (d ^ (2:Nat))
        (convert_var_index_to_povm_index d m (d ^ (2:Nat)) i f) f = i :=
  povm_v2o d m i f hd h0 h

/-- C03.4 POVM: conversely every free entry (element, coefficient) comes from exactly one variable index in range. -/
theorem povm_index_obj_var_obj (d m : Int) (a : Int × Int) (f : Bool) (hd : 0 < d)
    (h : PovmFree d m f a) :
    (0 ≤ convert_povm_index_to_var_index d m (d ^ (2:Nat)) a f ∧
        convert_povm_index_to_var_index d m (d ^ (2:Nat)) a f < num_variables_povmt d m f) ∧
      convert_var_index_to_povm_index d m (d ^ (2:Nat))
        (convert_povm_index_to_var_index d m (d ^ (2:Nat)) a f) f = a :=
  povm_o2v d m a f hd h

/-- C03.4 gate. -/
theorem gate_index_var_obj_var (d i : Int) (f : Bool) (hd : 0 < d) (h0 : 0 ≤ i)
    (h : i < num_variables_qpt d f) :
    GateFree d f (convert_var_index_to_gate_index d i f) ∧
      convert_gate_index_to_var_index d (convert_var_index_to_gate_index d i f) f = i :=
  gate_v2o d i f hd h0 h

/-- C03.4 gate: conversely every free entry (row ≥ 1 with the constraint) comes from exactly one variable index in range. -/
theorem gate_index_obj_var_obj (d : Int) (a : Int × Int) (f : Bool) (hd : 0 < d) (h : GateFree d f a) :
    (0 ≤ convert_gate_index_to_var_index d a f ∧
        convert_gate_index_to_var_index d a f < num_variables_qpt d f) ∧
      convert_var_index_to_gate_index d (convert_gate_index_to_var_index d a f) f = a :=
  gate_o2v d a f hd h

/-- C03.4 measurement process (`len(hss) = m`; the implied entries are the first row of the last HS). -/
theorem mprocess_index_var_obj_var (d m s i : Int) (f : Bool) (hd : 0 < d) (h0 : 0 ≤ i)
    (h : i < num_variables_qmpt d m f) :
    MpFree d m f (convert_var_index_to_mprocess_index d m s i f) ∧
      convert_mprocess_index_to_var_index d (convert_var_index_to_mprocess_index d m s i f) m s f = i := by
  have hn : 0 < d ^ (2:Nat) := Int.pow_pos hd
  have h4 : d ^ (4:Nat) = d ^ (2:Nat) * d ^ (2:Nat) := by ring
  rw [gen_mpV2O, gen_mpO2V]
  have := mpN_v2o (d ^ (2:Nat)) m i f hn h0 (by
    unfold num_variables_qmpt at h; rw [h4] at h
    cases f <;> simpa using h)
  exact this

/-- C03.4 measurement process: conversely every free entry comes from exactly one variable index in range. -/
theorem mprocess_index_obj_var_obj (d m s : Int) (a : Int × Int × Int) (f : Bool) (hd : 0 < d)
    (h : MpFree d m f a) :
    (0 ≤ convert_mprocess_index_to_var_index d a m s f ∧
        convert_mprocess_index_to_var_index d a m s f < num_variables_qmpt d m f) ∧
      convert_var_index_to_mprocess_index d m s (convert_mprocess_index_to_var_index d a m s f) f = a := by
  have hn : 0 < d ^ (2:Nat) := Int.pow_pos hd
  have h4 : d ^ (4:Nat) = d ^ (2:Nat) * d ^ (2:Nat) := by ring
  rw [gen_mpV2O, gen_mpO2V]
  have := mpN_o2v (d ^ (2:Nat)) m a f hn h
  unfold num_variables_qmpt; rw [h4]
  cases f <;> simpa using this

/-! ## clause "var → object → var", "object → var → object", stacked forms, length = num_variables -/

/-- C03.1 state: var → vec → var is the identity, both flags, any values. -/
theorem state_var_roundtrip (s : K) (var : List K) (f : Bool) :
    varOfVec (vecOfVar s var f) f = some var := by
  cases f <;> rfl

/-- C03.1 state: vec → var → vec reproduces the vec exactly when the flag is off or the implied first
coefficient already is `s = 1/√d`. -/
theorem state_obj_roundtrip (s : K) (vec var : List K) (f : Bool) (h : varOfVec vec f = some var) :
    vecOfVar s var f = vec ↔ (f = true → vec.head? = some s) := by
  cases f
  · simp [varOfVec] at h; simp [vecOfVar, h]
  · cases vec with
    | nil => simp [varOfVec] at h
    | cons a t =>
      simp [varOfVec] at h; subst h
      simp [vecOfVar, eq_comm]

/-- C03.3 state: a variable vector of the generated `num_variables_qst` length gives a vec of length `d²`
(the stacked vector of a state is its vec). -/
theorem state_length (d : Nat) (s : K) (var : List K) (f : Bool) (hd : 0 < d)
    (h : (var.length : Int) = num_variables_qst d f) : (vecOfVar s var f).length = d ^ 2 := by
  have := (nv_qst d var.length f hd).1 h
  have h1 : 1 ≤ d ^ 2 := Nat.pow_pos hd
  cases f <;> simp [vecOfVar] at * <;> omega

/-- C03.1–3 gate: for a variable vector of the generated `num_variables_qpt` length: `convert_var_to_hs` succeeds with a
`d² × d²` array, `convert_hs_to_var` gives the vector back, the stacked form is the flattened HS and
`convert_stacked_vector_to_var` inverts it. -/
theorem gate_var_roundtrip [Zero K] [One K] (d : Nat) (var : List K) (f : Bool) (hd : 0 < d)
    (h : (var.length : Int) = num_variables_qpt d f) :
    ∃ hs, hsOfVar d var f = some hs ∧ hs.length = d ^ 2 ∧ (∀ r ∈ hs, r.length = d ^ 2) ∧
      varOfHs hs f = some var ∧ gateStackedOfVar d var f = some hs.flatten ∧
      gateVarOfStacked d hs.flatten f = var := by
  have hl := (nv_qpt d var.length f hd).1 h
  have h1 : 1 ≤ d ^ 2 := Nat.pow_pos hd
  have hd0 : d ≠ 0 := by omega
  cases f
  · simp only [Bool.false_eq_true, ↓reduceIte] at hl
    refine ⟨rows (d ^ 2) (d ^ 2) var, ?_, rows_length _ _ _, rows_row_length _ _ _ hl, ?_, ?_, ?_⟩
    · simp [hsOfVar, hd0, reshape2, hl]
    · simp [varOfHs, rows_flatten _ _ _ hl]
    · simp [gateStackedOfVar, hd0, rows_flatten _ _ _ hl]
    · simp [gateVarOfStacked, rows_flatten _ _ _ hl]
  · simp only [↓reduceIte] at hl
    have he : (e0 (1:K) (d ^ 2)).length = d ^ 2 := e0_length _ _ h1
    refine ⟨e0 1 (d ^ 2) :: rows (d ^ 2) (d ^ 2 - 1) var, ?_, ?_, ?_, ?_, ?_, ?_⟩
    · simp [hsOfVar, hd0, reshape2, hl]
    · simp [rows_length]; omega
    · intro r hr
      simp only [List.mem_cons] at hr
      rcases hr with rfl | hr
      · exact he
      · exact rows_row_length _ _ _ hl r hr
    · simp [varOfHs, rows_flatten _ _ _ hl]
    · simp [gateStackedOfVar, hd0, rows_flatten _ _ _ hl]
    · simp only [gateVarOfStacked, List.flatten_cons, rows_flatten _ _ _ hl, ↓reduceIte]
      exact List.drop_left' he

/-- C03.1 gate: HS → var → HS; `len(var) = num_variables`; the HS is reproduced exactly when the flag is off or
its first row is `e₀` (the built-in TP constraint). -/
theorem gate_obj_roundtrip [Zero K] [One K] (d : Nat) (hs : List (List K)) (f : Bool) (hd : 0 < d)
    (hl : hs.length = d ^ 2) (hr : ∀ r ∈ hs, r.length = d ^ 2) :
    ∃ var, varOfHs hs f = some var ∧ (var.length : Int) = num_variables_qpt d f ∧
      (hsOfVar d var f = some hs ↔ (f = true → hs.head? = some (e0 1 (d ^ 2)))) := by
  have h1 : 1 ≤ d ^ 2 := Nat.pow_pos hd
  have hd0 : d ≠ 0 := by omega
  cases f
  · have hfl := flatten_length_of _ hs hr
    refine ⟨hs.flatten, rfl, (nv_qpt d _ false hd).2 (by simp [hfl, hl]), ?_⟩
    have := rows_of_flatten _ hs hr
    rw [hl] at this
    simp [hsOfVar, hd0, reshape2, hfl, hl, this]
  · cases hs with
    | nil => simp at hl; omega
    | cons a t =>
      have ht : ∀ r ∈ t, r.length = d ^ 2 := fun r hr' => hr r (by simp [hr'])
      have htl : t.length = d ^ 2 - 1 := by simp at hl; omega
      have hfl := flatten_length_of _ t ht
      refine ⟨t.flatten, rfl, (nv_qpt d _ true hd).2 (by simp [hfl, htl]), ?_⟩
      have := rows_of_flatten _ t ht
      rw [htl] at this
      simp [hsOfVar, hd0, reshape2, hfl, htl, this, eq_comm]

/-- C03.1–3 POVM (`m ≥ 2` outcomes with the flag, `m ≥ 1` without): var → vecs gives `m` vectors of length `d²`,
vecs → var gives the vector back, stacked = `hstack(vecs)`, stacked → var inverts it. -/
theorem povm_var_roundtrip [Add K] [Sub K] [Zero K] (d m : Nat) (sq : K) (var : List K) (f : Bool)
    (hd : 0 < d) (hm : (if f then 2 else 1) ≤ m)
    (h : (var.length : Int) = num_variables_povmt d m f) :
    ∃ vecs, vecsOfVar d sq var f = some vecs ∧ vecs.length = m ∧ (∀ r ∈ vecs, r.length = d ^ 2) ∧
      varOfVecs vecs f = some var ∧ povmStackedOfVar d sq var f = some vecs.flatten ∧
      povmVarOfStacked d sq vecs.flatten f = some var := by
  have hm1 : 1 ≤ m := by cases f <;> simp at hm <;> omega
  have hl := (nv_povmt d m var.length f hm1).1 h
  have h1 : 1 ≤ d ^ 2 := Nat.pow_pos hd
  have hd0 : d ≠ 0 := by omega
  cases f
  · simp only [Bool.false_eq_true, ↓reduceIte] at hl hm
    have hdiv : var.length / d ^ 2 = m := by rw [hl]; exact Nat.mul_div_cancel _ h1
    have hne : (rows (d ^ 2) m var).isEmpty = false := by
      cases hh : rows (d ^ 2) m var with
      | nil => have := rows_length (d ^ 2) m var; rw [hh] at this; simp at this; omega
      | cons a t => rfl
    refine ⟨rows (d ^ 2) m var, ?_, rows_length _ _ _, rows_row_length _ _ _ hl, ?_, ?_, ?_⟩
    · simp [vecsOfVar, hd0, reshape2, hdiv, hl]
    · simp [varOfVecs, hne, rows_flatten _ _ _ hl]
    · simp [povmStackedOfVar, rows_flatten _ _ _ hl]
    · simp [povmVarOfStacked, rows_flatten _ _ _ hl]
  · simp only [↓reduceIte] at hl hm
    obtain ⟨k, rfl⟩ : ∃ k, m = k + 2 := ⟨m - 2, by omega⟩
    simp only [Nat.add_sub_cancel, show k + 2 - 1 = k + 1 by omega] at hl
    have hdiv : var.length / d ^ 2 = k + 1 := by rw [hl]; exact Nat.mul_div_cancel _ h1
    set pre := rows (d ^ 2) (k + 1) var with hpre
    have hprel : pre.length = k + 1 := rows_length _ _ _
    have hprer : ∀ r ∈ pre, r.length = d ^ 2 := rows_row_length _ _ _ hl
    have hpref : pre.flatten = var := rows_flatten _ _ _ hl
    set last := povmLast d sq pre with hlast
    have hlastl : last.length = d ^ 2 := povmLast_length d sq pre hd hprer
    have hrows : rows (d ^ 2) (k + 1 + 1) (var ++ last) = pre ++ [last] := by
      rw [rows_append _ _ _ _ _ hl, rows_one _ _ hlastl]
    have hv : vecsOfVar d sq var true = some (pre ++ [last]) := by
      have hl2 : (var ++ last).length = (k + 1 + 1) * d ^ 2 := by
        rw [List.length_append, hl, hlastl]; ring
      simp only [vecsOfVar, hd0, ↓reduceIte, hdiv, Nat.add_sub_cancel, reshape2_ok _ _ _ hl,
        Option.bind_eq_bind, Option.bind_some, ← hpre, hpref, ← hlast, reshape2_ok _ _ _ hl2, hrows]
    have hfl : (pre ++ [last]).flatten = var ++ last := by simp [hpref]
    have hne : pre.isEmpty = false := by
      cases hh : pre with
      | nil => rw [hh] at hprel; simp at hprel
      | cons a t => rfl
    have hvv : varOfVecs (pre ++ [last]) true = some var := by
      simp [varOfVecs, hne, hpref]
    refine ⟨pre ++ [last], hv, by simp [hprel], ?_, hvv, ?_, ?_⟩
    · intro r hr
      simp only [List.mem_append, List.mem_singleton] at hr
      rcases hr with hr | rfl
      · exact hprer r hr
      · exact hlastl
    · simp [povmStackedOfVar, hv]
    · have hlen : (var ++ last).length = (k + 1 + 1) * d ^ 2 := by
        rw [List.length_append, hl, hlastl]; ring
      have hdiv2 : (var ++ last).length / d ^ 2 = k + 1 + 1 := by rw [hlen]; exact Nat.mul_div_cancel _ h1
      simp only [povmVarOfStacked, ↓reduceIte, hfl, vecsOfVar, hd0, Bool.false_eq_true, hdiv2,
        reshape2_ok _ _ _ hlen, Option.bind_eq_bind, Option.bind_some, hrows, hvv]

/-- C03.1 POVM: vecs → var → vecs; `len(var) = num_variables`; reproduced exactly when the flag is off or the last
element is the implied one `√d e₀ − Σ others`. -/
theorem povm_obj_roundtrip [Add K] [Sub K] [Zero K] (d m : Nat) (sq : K) (vecs : List (List K)) (f : Bool)
    (hd : 0 < d) (hm : (if f then 2 else 1) ≤ m) (hl : vecs.length = m)
    (hr : ∀ r ∈ vecs, r.length = d ^ 2) :
    ∃ var, varOfVecs vecs f = some var ∧ (var.length : Int) = num_variables_povmt d m f ∧
      (vecsOfVar d sq var f = some vecs ↔
        (f = true → vecs.getLast? = some (povmLast d sq vecs.dropLast))) := by
  have hm1 : 1 ≤ m := by cases f <;> simp at hm <;> omega
  have h1 : 1 ≤ d ^ 2 := Nat.pow_pos hd
  have hd0 : d ≠ 0 := by omega
  cases f
  · have hfl := flatten_length_of _ vecs hr
    rw [hl] at hfl
    have hne : vecs.isEmpty = false := by
      cases vecs with
      | nil => simp at hl; omega
      | cons a t => rfl
    have hdiv : vecs.flatten.length / d ^ 2 = m := by rw [hfl]; exact Nat.mul_div_cancel _ h1
    have hrf := rows_of_flatten _ vecs hr
    rw [hl] at hrf
    refine ⟨vecs.flatten, by simp [varOfVecs, hne], (nv_povmt d m _ false hm1).2 (by simp [hfl]), ?_⟩
    simp only [vecsOfVar, hd0, ↓reduceIte, Bool.false_eq_true, hdiv, reshape2_ok _ _ _ hfl, hrf]
    simp
  · simp only [↓reduceIte] at hm
    obtain ⟨k, rfl⟩ : ∃ k, m = k + 2 := ⟨m - 2, by omega⟩
    have hnil : vecs ≠ [] := by intro h; rw [h] at hl; simp at hl
    obtain ⟨pre, lst, rfl⟩ : ∃ pre lst, vecs = pre ++ [lst] :=
      ⟨vecs.dropLast, vecs.getLast hnil, (List.dropLast_concat_getLast hnil).symm⟩
    have hprel : pre.length = k + 1 := by simp at hl; omega
    have hprer : ∀ r ∈ pre, r.length = d ^ 2 := fun r h => hr r (by simp [h])
    have hlstl : lst.length = d ^ 2 := hr lst (by simp)
    have hfl := flatten_length_of _ pre hprer
    rw [hprel] at hfl
    have hne : pre.isEmpty = false := by
      cases pre with
      | nil => simp at hprel
      | cons a t => rfl
    have hdiv : pre.flatten.length / d ^ 2 = k + 1 := by rw [hfl]; exact Nat.mul_div_cancel _ h1
    have hrf := rows_of_flatten _ pre hprer
    rw [hprel] at hrf
    have hlastl : (povmLast d sq pre).length = d ^ 2 := povmLast_length d sq pre hd hprer
    have hl2 : (pre.flatten ++ povmLast d sq pre).length = (k + 1 + 1) * d ^ 2 := by
      rw [List.length_append, hfl, hlastl]; ring
    have hrows : rows (d ^ 2) (k + 1 + 1) (pre.flatten ++ povmLast d sq pre) = pre ++ [povmLast d sq pre] := by
      rw [rows_append _ _ _ _ _ hfl, rows_one _ _ hlastl, hrf]
    refine ⟨pre.flatten, by simp [varOfVecs, hne], (nv_povmt d (k + 2) _ true hm1).2 (by simp [hfl]), ?_⟩
    simp only [vecsOfVar, hd0, ↓reduceIte, hdiv, Nat.add_sub_cancel, reshape2_ok _ _ _ hfl,
      Option.bind_eq_bind, Option.bind_some, hrf, reshape2_ok _ _ _ hl2, hrows]
    simp [eq_comm]

/-- C03.1–3 measurement process (`m ≥ 1`): for a variable vector of the generated `num_variables_qmpt` length:
stacked vector and `hss` exist, `hss` is the reshape of the stacked vector (`m` arrays of `d⁴` entries),
`convert_hss_to_var` and `convert_stacked_vector_to_var` give the vector back. -/
theorem mp_var_roundtrip [Add K] [Sub K] [Zero K] [One K] (d m : Nat) (var : List K) (f : Bool)
    (hd : 0 < d) (hm : 1 ≤ m) (h : (var.length : Int) = num_variables_qmpt d m f) :
    ∃ st hss, mpStackedOfVar d var f = some st ∧ hssOfVar d var f = some hss ∧ hss.flatten = st ∧
      hss.length = m ∧ (∀ r ∈ hss, r.length = hsSize d) ∧
      varOfHss d hss f = some var ∧ mpVarOfStacked d st f = some var := by
  have hl := (nv_qmpt d m var.length f hd hm).1 h
  have h1 : 1 ≤ d ^ 2 := Nat.pow_pos hd
  have hH : 0 < hsSize d := by unfold hsSize; exact Nat.mul_pos h1 h1
  have hd0 : d ≠ 0 := by omega
  cases f
  · simp only [Bool.false_eq_true, ↓reduceIte] at hl
    have hdiv : var.length / hsSize d = m := by rw [hl]; exact Nat.mul_div_cancel _ hH
    refine ⟨var, rows (hsSize d) m var, by simp [mpStackedOfVar, hd0], ?_, rows_flatten _ _ _ hl,
      rows_length _ _ _, rows_row_length _ _ _ hl, ?_, by simp [mpVarOfStacked]⟩
    · simp [hssOfVar, hd0, hdiv, reshape2_ok _ _ _ hl]
    · rw [varOfHss_rows d m var false hd hm hl]; simp [mpVarOfStacked]
  · simp only [↓reduceIte] at hl
    obtain ⟨k, rfl⟩ : ∃ k, m = k + 1 := ⟨m - 1, by omega⟩
    simp only [Nat.add_sub_cancel] at hl
    have hlt : (d ^ 2 - 1) * d ^ 2 < hsSize d := by
      unfold hsSize; exact Nat.mul_lt_mul_of_pos_right (by omega) (by omega)
    have hdiv : var.length / hsSize d = k := by
      rw [hl, Nat.mul_comm k, Nat.mul_add_div hH, Nat.div_eq_of_lt hlt]; rfl
    have hple : hsSize d * k ≤ var.length := by rw [hl, Nat.mul_comm]; omega
    have hlast : (mpLast d k var).length = d ^ 2 := by
      apply mpLast_length d k var hd
      intro o ho
      have : hsSize d * (o + 1) ≤ hsSize d * k := Nat.mul_le_mul_left _ (by omega)
      have h2 : d ^ 2 ≤ hsSize d := by unfold hsSize; exact Nat.le_mul_of_pos_left _ h1
      rw [Nat.mul_succ] at this; omega
    have hsub : (d ^ 2 - 1) * d ^ 2 + d ^ 2 = hsSize d := by
      unfold hsSize
      obtain ⟨j, hj⟩ : ∃ j, d ^ 2 = j + 1 := ⟨d ^ 2 - 1, by omega⟩
      rw [hj]; simp; ring
    set st := var.take (hsSize d * k) ++ mpLast d k var ++ var.drop (hsSize d * k) with hst
    have hstl : st.length = (k + 1) * hsSize d := by
      simp only [hst, List.length_append, List.length_take, List.length_drop, hlast, Nat.min_eq_left hple]
      have ec : k * hsSize d = hsSize d * k := Nat.mul_comm _ _
      rw [Nat.succ_mul]; omega
    have hstacked : mpStackedOfVar d var true = some st := by
      simp [mpStackedOfVar, hd0, hdiv, hst]
    have hback : mpVarOfStacked d st true = some var := by
      have hdiv2 : st.length / hsSize d = k + 1 := by rw [hstl]; exact Nat.mul_div_cancel _ hH
      have htl : (var.take (hsSize d * k)).length = hsSize d * k := by
        rw [List.length_take]; exact Nat.min_eq_left hple
      simp only [mpVarOfStacked, ↓reduceIte, hd0, hdiv2, Nat.add_sub_cancel, Nat.succ_ne_zero]
      have e1 : st.take (hsSize d * k) = var.take (hsSize d * k) := by
        rw [hst, List.append_assoc, List.take_left' htl]
      have e2 : st.drop (hsSize d * k + d ^ 2) = var.drop (hsSize d * k) := by
        rw [hst, ← List.drop_drop, List.append_assoc, List.drop_left' htl, List.drop_left' hlast]
      rw [e1, e2, List.take_append_drop]
    refine ⟨st, rows (hsSize d) (k + 1) st, hstacked, ?_, rows_flatten _ _ _ hstl, rows_length _ _ _,
      rows_row_length _ _ _ hstl, ?_, hback⟩
    · simp only [hssOfVar, hd0, ↓reduceIte, hdiv, hstacked, Option.bind_eq_bind, Option.bind_some,
        reshape2_ok _ _ _ hstl]
    · rw [varOfHss_rows d (k + 1) st true hd hm hstl, hback]

/-! ## clause "… points at the entry holding that variable's value" -/

/-- C03.4 state: the generated var→state index points at the entry of `vec` that holds variable `i`. -/
theorem state_index_points_at (s : K) (var : List K) (f : Bool) (i : Nat) :
    (vecOfVar s var f)[(convert_var_index_to_state_index i f).toNat]? = var[i]? := by
  unfold convert_var_index_to_state_index vecOfVar
  cases f
  · simp
  · simp only [↓reduceIte]
    have : ((i : Int) + 1).toNat = i + 1 := by omega
    rw [this]; simp

/-- C03.4 gate: the generated var→gate index (row, col), flattened row-major, points at the entry of the
stacked vector (= flattened HS) that holds variable `i`. -/
theorem gate_index_points_at [Zero K] [One K] (d : Nat) (var st : List K) (f : Bool) (i : Nat)
    (hd : 0 < d) (hst : gateStackedOfVar d var f = some st) :
    st[(flat2 ((d : Int) ^ (2:Nat)) (convert_var_index_to_gate_index d i f)).toNat]? = var[i]? := by
  have hn : (0 : Int) < (d : Int) ^ (2:Nat) := Int.pow_pos (by exact_mod_cast hd)
  have h1 : 1 ≤ d ^ 2 := Nat.pow_pos hd
  obtain ⟨h1', h2, h3⟩ := fdm_spec (i : Int) ((d : Int) ^ (2:Nat)) hn
  have hd0 : d ≠ 0 := by omega
  have hpos : flat2 ((d : Int) ^ (2:Nat)) (convert_var_index_to_gate_index d i f) =
      (i : Int) + (if f = true then ((d ^ 2 : Nat) : Int) else 0) := by
    unfold flat2 convert_var_index_to_gate_index
    dsimp only
    push_cast
    generalize ((d : Int) ^ (2:Nat)) = n at *
    generalize (i : Int).fdiv n = q at *
    generalize (i : Int).fmod n = r at *
    have e1 : q * n = n * q := Int.mul_comm _ _
    have e2 : (q + 1) * n = n * q + n := by ring
    cases f
    · simp only [Bool.false_eq_true, ↓reduceIte]; omega
    · simp only [↓reduceIte]; omega
  rw [hpos]
  cases f
  · simp [gateStackedOfVar, hd0] at hst; subst hst; simp
  · simp [gateStackedOfVar, hd0] at hst; subst hst
    have he : (e0 (1:K) (d ^ 2)).length = d ^ 2 := e0_length _ _ h1
    have : ((i : Int) + (if true = true then ((d ^ 2 : Nat) : Int) else 0)).toNat = i + d ^ 2 := by
      simp only [↓reduceIte]; omega
    rw [this, List.getElem?_append_right (by omega), he]; simp

/-- C03.4 POVM: the generated var→POVM index (element, entry), flattened, points at the entry of the stacked
vector that holds variable `i`. -/
theorem povm_index_points_at [Add K] [Sub K] [Zero K] (d m : Nat) (sq : K) (var st : List K) (f : Bool)
    (i : Nat) (hd : 0 < d) (hi : i < var.length) (hst : povmStackedOfVar d sq var f = some st) :
    st[(flat2 ((d : Int) ^ (2:Nat))
      (convert_var_index_to_povm_index d m ((d : Int) ^ (2:Nat)) i f)).toNat]? = var[i]? := by
  have hn : (0 : Int) < (d : Int) ^ (2:Nat) := Int.pow_pos (by exact_mod_cast hd)
  obtain ⟨h1', h2, h3⟩ := fdm_spec (i : Int) ((d : Int) ^ (2:Nat)) hn
  have hpos : flat2 ((d : Int) ^ (2:Nat)) (convert_var_index_to_povm_index d m ((d : Int) ^ (2:Nat)) i f) = i := by
    unfold flat2 convert_var_index_to_povm_index
    dsimp only
    rw [Int.mul_comm]; exact h1'
  obtain ⟨last, rfl⟩ := povm_stacked_prefix d sq var st f hst
  rw [hpos, Int.toNat_natCast, List.getElem?_append_left hi]

/-- C03.4 measurement process: the generated var→mprocess index (outcome, row, col), flattened, points at the
entry of the stacked vector that holds variable `i` (for every variable vector of the generated length). -/
theorem mprocess_index_points_at [Add K] [Sub K] [Zero K] [One K] (d m : Nat) (s : Int) (var st : List K)
    (f : Bool) (i : Nat) (hd : 0 < d) (hm : 1 ≤ m)
    (hlen : (var.length : Int) = num_variables_qmpt d m f) (hi : i < var.length)
    (hst : mpStackedOfVar d var f = some st) :
    st[(flat3 ((d : Int) ^ (2:Nat)) (convert_var_index_to_mprocess_index d m s i f)).toNat]? = var[i]? := by
  have hl := (nv_qmpt d m var.length f hd hm).1 hlen
  have h1 : 1 ≤ d ^ 2 := Nat.pow_pos hd
  have hHn : 0 < hsSize d := by unfold hsSize; exact Nat.mul_pos h1 h1
  have hd0 : d ≠ 0 := by omega
  have hn : (0 : Int) < (d : Int) ^ (2:Nat) := Int.pow_pos (by exact_mod_cast hd)
  have hnn : (0 : Int) < (d : Int) ^ (2:Nat) * (d : Int) ^ (2:Nat) := Int.mul_pos hn hn
  rw [gen_mpV2O]
  obtain ⟨a1, a2, a3⟩ := fdm_spec (i : Int) ((d : Int) ^ (2:Nat) * (d : Int) ^ (2:Nat)) hnn
  obtain ⟨g1, g2, g3⟩ := fdm_spec ((i : Int).fmod ((d : Int) ^ (2:Nat) * (d : Int) ^ (2:Nat))) ((d : Int) ^ (2:Nat)) hn
  have hncast : ((d ^ 2 : Nat) : Int) = (d : Int) ^ (2:Nat) := by push_cast; rfl
  have hHcast : ((hsSize d : Nat) : Int) = (d : Int) ^ (2:Nat) * (d : Int) ^ (2:Nat) := by
    unfold hsSize; push_cast; rfl
  cases f
  · simp [mpStackedOfVar, hd0] at hst; subst hst
    have hpos : flat3 ((d : Int) ^ (2:Nat)) (mpV2O ((d : Int) ^ (2:Nat)) m i false) = i := by
      unfold flat3 mpV2O
      simp only [Bool.false_eq_true, false_and, ↓reduceIte, Int.add_zero]
      generalize ((d : Int) ^ (2:Nat)) = n at *
      generalize (i : Int).fdiv (n * n) = k at *
      generalize (i : Int).fmod (n * n) = mi at *
      generalize mi.fdiv n = r at *
      generalize mi.fmod n = c at *
      have e1 : k * (n * n) = n * n * k := Int.mul_comm _ _
      have e2 : r * n = n * r := Int.mul_comm _ _
      omega
    rw [hpos, Int.toNat_natCast]
  · simp only [↓reduceIte] at hl
    obtain ⟨j, rfl⟩ : ∃ j, m = j + 1 := ⟨m - 1, by omega⟩
    simp only [Nat.add_sub_cancel] at hl
    have hlt : (d ^ 2 - 1) * d ^ 2 < hsSize d := by
      unfold hsSize; exact Nat.mul_lt_mul_of_pos_right (by omega) (by omega)
    have hdiv : var.length / hsSize d = j := by
      rw [hl, Nat.mul_comm j, Nat.mul_add_div hHn, Nat.div_eq_of_lt hlt]; rfl
    have hple : hsSize d * j ≤ var.length := by rw [hl, Nat.mul_comm]; omega
    have hlast : (mpLast d j var).length = d ^ 2 := by
      apply mpLast_length d j var hd
      intro o ho
      have : hsSize d * (o + 1) ≤ hsSize d * j := Nat.mul_le_mul_left _ (by omega)
      have h2 : d ^ 2 ≤ hsSize d := by unfold hsSize; exact Nat.le_mul_of_pos_left _ h1
      rw [Nat.mul_succ] at this; omega
    simp only [mpStackedOfVar, hd0, ↓reduceIte, hdiv, Nat.add_sub_cancel, Option.some.injEq] at hst
    subst hst
    have key := getElem?_insert var (mpLast d j var) (hsSize d * j) i hple
    rw [hlast] at key
    rw [← key]
    congr 1
    -- the flat position of the generated index is `i` before the implied row and `i + d²` after it
    generalize (d ^ 2 - 1) * d ^ 2 = X at hl hlt
    have hiI : (i : Int) < (hsSize d : Int) * j + (X : Int) := by
      have : i < j * hsSize d + X := by omega
      have e : j * hsSize d = hsSize d * j := Nat.mul_comm _ _
      rw [e] at this; exact_mod_cast this
    have hltI : (X : Int) < (hsSize d : Int) := by exact_mod_cast hlt
    have hp_iff : (i < hsSize d * j) ↔ ((i : Int) < (hsSize d : Int) * j) := by
      constructor <;> intro h <;> exact_mod_cast h
    unfold flat3 mpV2O
    dsimp only
    simp only [Nat.cast_add, Nat.cast_one, Int.add_sub_cancel]
    rw [hHcast] at hiI hltI hp_iff
    have hfin : ((i + d ^ 2 : Nat) : Int) = (i : Int) + (d : Int) ^ (2:Nat) := by
      rw [Nat.cast_add, hncast]
    clear hlen hl hdiv hple hlast key hlt hHcast hncast
    generalize ((d : Int) ^ (2:Nat)) = n at *
    generalize (i : Int).fdiv (n * n) = k at *
    generalize (i : Int).fmod (n * n) = mi at *
    generalize mi.fdiv n = r at *
    generalize mi.fmod n = c at *
    have e1 : k * (n * n) = n * n * k := Int.mul_comm _ _
    have e2 : r * n = n * r := Int.mul_comm _ _
    have e3 : (r + 1) * n = n * r + n := by ring
    have hk0 := q_nonneg (n * n) k mi hnn a3 (by omega)
    have hkj : k < (j : Int) + 1 := q_lt (n * n) k mi (j + 1) hnn a2 (by
      have : n * n * ((j : Int) + 1) = n * n * j + n * n := by ring
      omega)
    by_cases hk : k = (j : Int)
    · have hge : ¬ (i < hsSize d * j) := by
        rw [hp_iff]; subst hk; omega
      simp only [hk, true_and, Int.add_sub_cancel, ↓reduceIte, hge]
      subst hk
      omega
    · have hlt' : i < hsSize d * j := by
        rw [hp_iff]
        have := lin_lt (n * n) k mi j hnn a3 (by omega)
        omega
      simp only [hk, and_false, ↓reduceIte, hlt', Int.add_zero]
      omega

/-- C03.1 measurement process, object → var → object on stacked vectors: a stacked vector of `m ≥ 1` HS matrices is
reproduced from its variables exactly when the first row of its last HS is the implied one
`e₀ − Σ (first rows of the other HS)` (the built-in constraint); and `len(var) = num_variables`. -/
theorem mp_obj_roundtrip [Add K] [Sub K] [Zero K] [One K] (d m : Nat) (st : List K) (hd : 0 < d) (hm : 1 ≤ m)
    (h : st.length = m * hsSize d) :
    ∃ var, mpVarOfStacked d st true = some var ∧ (var.length : Int) = num_variables_qmpt d m true ∧
      (mpStackedOfVar d var true = some st ↔
        (st.drop (hsSize d * (m - 1))).take (d ^ 2) = mpLast d (m - 1) var) := by
  have h1 : 1 ≤ d ^ 2 := Nat.pow_pos hd
  have hH : 0 < hsSize d := by unfold hsSize; exact Nat.mul_pos h1 h1
  have hnH : d ^ 2 ≤ hsSize d := by unfold hsSize; exact Nat.le_mul_of_pos_left _ h1
  have hd0 : d ≠ 0 := by omega
  obtain ⟨k, rfl⟩ : ∃ k, m = k + 1 := ⟨m - 1, by omega⟩
  simp only [Nat.add_sub_cancel]
  have hdiv : st.length / hsSize d = k + 1 := by rw [h]; exact Nat.mul_div_cancel _ hH
  set p := hsSize d * k with hp
  have hpl : p + hsSize d = st.length := by rw [h, hp, Nat.succ_mul, Nat.mul_comm]
  set var := st.take p ++ st.drop (p + d ^ 2) with hvar
  have htl : (st.take p).length = p := by rw [List.length_take]; omega
  have hvl : var.length = p + (hsSize d - d ^ 2) := by
    simp only [hvar, List.length_append, htl, List.length_drop]; omega
  have hsub : (d ^ 2 - 1) * d ^ 2 + d ^ 2 = hsSize d := by
    unfold hsSize
    obtain ⟨j, hj⟩ : ∃ j, d ^ 2 = j + 1 := ⟨d ^ 2 - 1, by omega⟩
    rw [hj]; simp; ring
  have hvdiv : var.length / hsSize d = k := by
    rw [hvl, hp, Nat.mul_add_div hH, Nat.div_eq_of_lt (by omega)]; rfl
  refine ⟨var, ?_, ?_, ?_⟩
  · simp [mpVarOfStacked, hd0, hdiv, hvar, hp]
  · rw [nv_qmpt d (k + 1) var.length true hd hm]
    simp only [↓reduceIte, Nat.add_sub_cancel]
    rw [hvl, hp, Nat.mul_comm k]; omega
  · have e1 : var.take p = st.take p := by rw [hvar, List.take_left' htl]
    have e2 : var.drop p = st.drop (p + d ^ 2) := by rw [hvar, List.drop_left' htl]
    have hsplit : st = st.take p ++ ((st.drop p).take (d ^ 2) ++ st.drop (p + d ^ 2)) := by
      conv_lhs => rw [← List.take_append_drop p st, ← List.take_append_drop (d ^ 2) (st.drop p)]
      rw [List.drop_drop]
    simp only [mpStackedOfVar, hd0, ↓reduceIte, hvdiv, Nat.add_sub_cancel, Option.some.injEq, ← hp, e1, e2]
    constructor
    · intro heq
      rw [List.append_assoc] at heq
      conv_rhs at heq => rw [hsplit]
      have h2 := List.append_cancel_left heq
      have hlen : (mpLast d k var).length = ((st.drop p).take (d ^ 2)).length := by
        have := congrArg List.length h2
        simp only [List.length_append] at this
        omega
      exact ((List.append_inj h2 hlen).1).symm
    · intro heq
      rw [List.append_assoc, ← heq]
      exact hsplit.symm

/-- C03.1 the same on the list of HS matrices (`convert_hss_to_var` / `convert_var_to_hss`). -/
theorem mp_hss_roundtrip [Add K] [Sub K] [Zero K] [One K] (d m : Nat) (hss : List (List K)) (hd : 0 < d)
    (hm : 1 ≤ m) (hl : hss.length = m) (hr : ∀ r ∈ hss, r.length = hsSize d) :
    ∃ var, varOfHss d hss true = some var ∧ (var.length : Int) = num_variables_qmpt d m true ∧
      (hssOfVar d var true = some hss ↔
        (hss.flatten.drop (hsSize d * (m - 1))).take (d ^ 2) = mpLast d (m - 1) var) := by
  have hfl : hss.flatten.length = m * hsSize d := by rw [flatten_length_of _ hss hr, hl]
  have hrows : rows (hsSize d) m hss.flatten = hss := by rw [← hl]; exact rows_of_flatten _ hss hr
  obtain ⟨var, hv, hlen, hiff⟩ := mp_obj_roundtrip d m hss.flatten hd hm hfl
  refine ⟨var, ?_, hlen, ?_⟩
  · rw [← hrows, varOfHss_rows d m hss.flatten true hd hm hfl]; exact hv
  · rw [← hiff]
    have hd0 : d ≠ 0 := by omega
    have h1 : 1 ≤ d ^ 2 := Nat.pow_pos hd
    have hH : 0 < hsSize d := by unfold hsSize; exact Nat.mul_pos h1 h1
    have hvl := (nv_qmpt d m var.length true hd hm).1 hlen
    simp only [↓reduceIte] at hvl
    have hlt : (d ^ 2 - 1) * d ^ 2 < hsSize d := by
      unfold hsSize; exact Nat.mul_lt_mul_of_pos_right (by omega) (by omega)
    have hdiv : var.length / hsSize d + 1 = m := by
      rw [hvl, Nat.mul_comm (m - 1), Nat.mul_add_div hH, Nat.div_eq_of_lt hlt]; omega
    cases hs : mpStackedOfVar d var true with
    | none => simp [hssOfVar, hd0, hs]
    | some st' =>
      simp only [hssOfVar, hd0, ↓reduceIte, hs, Option.bind_eq_bind, Option.bind_some, hdiv, Option.some.injEq]
      constructor
      · intro h
        obtain ⟨hl', hr'⟩ := reshape2_some _ _ _ _ h
        rw [hr', rows_flatten _ _ _ hl']
      · intro h
        rw [h, reshape2_ok _ _ _ hfl, hrows]

/-! ## `calc_gradient`: the exact statement that holds -/

/-- C03.4 state: `calc_gradient(i)` is the derivative of `var ↦ vec` in coordinate `i`, both flags:
`vec(var + t·e_i) = vec(var) + t·gradient`. -/
theorem state_gradient_is_derivative [CommRing K] (d : Nat) (s t : K) (v : List K) (f : Bool) (i : Nat)
    (hd : 0 < d) (hlen : (v.length : Int) = num_variables_qst d f) (g : List K)
    (hg : gradState d i f = some g) :
    vecOfVar s (perturb v i t) f = vadd (vecOfVar s v f) (lsmul t g) := by
  have hl := (nv_qst d v.length f hd).1 hlen
  have h1 : 1 ≤ d ^ 2 := Nat.pow_pos hd
  unfold gradState convert_var_index_to_state_index natOf? at hg
  cases f
  · simp only [Bool.false_eq_true, ↓reduceIte] at hg hl
    split at hg
    · simp only [Option.bind_eq_bind, Option.bind_some, Int.toNat_natCast, Option.some.injEq] at hg
      subst hg
      simp [vecOfVar, perturb, hl]
    · simp at hg
  · simp only [↓reduceIte] at hg hl
    split at hg
    · simp only [Option.bind_eq_bind, Option.bind_some, Option.some.injEq] at hg
      subst hg
      have e : ((i : Int) + 1).toNat = i + 1 := by omega
      have e2 : d ^ 2 = v.length + 1 := by omega
      rw [e, e2, oneHot_succ]
      simp [vecOfVar, perturb, vadd, lsmul]
    · simp at hg

/-- C03.4 gate: the stacked vector (flattened HS) of `var + t·e_i` is the stacked vector of `var` plus `t` times the
one-hot vector at the flat position of the generated var→gate index — the vector `calc_gradient(i)` holds. -/
theorem gate_gradient_is_derivative [CommRing K] (d : Nat) (t : K) (v st : List K) (f : Bool) (i : Nat)
    (hd : 0 < d) (hst : gateStackedOfVar d v f = some st) :
    gateStackedOfVar d (perturb v i t) f =
      some (vadd st (lsmul t (oneHot st.length (if f then d ^ 2 + i else i)))) := by
  have h1 : 1 ≤ d ^ 2 := Nat.pow_pos hd
  have hd0 : d ≠ 0 := by omega
  cases f
  · simp [gateStackedOfVar, hd0] at hst; subst hst
    simp [gateStackedOfVar, hd0, perturb]
  · simp [gateStackedOfVar, hd0] at hst; subst hst
    have he : (e0 (1 : K) (d ^ 2)).length = d ^ 2 := e0_length _ _ h1
    simp only [gateStackedOfVar, hd0, ↓reduceIte, perturb, Option.some.injEq, List.length_append, he]
    rw [oneHot_shift]
    unfold lsmul
    rw [List.map_append, vadd_append _ _ _ _ (by simp [he])]
    congr 1
    have := vadd_zero_smul (e0 (1 : K) (d ^ 2)) t
    rw [he] at this
    exact this.symm

/-- C03.4 the model's gate gradient (what `calc_gradient(i).to_stacked_vector()` is compared with) is that one-hot vector. -/
theorem gate_gradient_onehot [Zero K] [One K] (d i : Nat) (f : Bool) (hd : 0 < d)
    (hi : (i : Int) < num_variables_qpt d f) :
    (gradGate d i f : Option (List K)) = some (oneHot (hsSize d) (if f then d ^ 2 + i else i)) :=
  gradGate_eq d i f hd hi

/-- C03.4 concrete witness that the one-hot `calc_gradient` is not the full derivative when the constraint is built in
(the implied last element changes by `−t·e_{i mod d²}`, see `povm_stacked_derivative`):
concrete witness (`d = 1`, two outcomes, `var = [5]`, `t = 1`): the stacked vector moves from `[5, −4]` to `[6, −5]`,
`vec(var) + gradient = [6, −4]`. -/
theorem povm_gradient_is_not_derivative_on_implied_block :
    povmStackedOfVar 1 (1 : Rat) [5] true = some [5, -4] ∧
    povmStackedOfVar 1 (1 : Rat) (perturb [5] 0 1) true = some [6, -5] ∧
    (gradPovm 1 2 0 true : Option (List Rat)) = some [1, 0] ∧
    vadd [5, -4] (lsmul (1 : Rat) [1, 0]) = [6, -4] := by
  decide +kernel

/-- C03.4 state: `calc_gradient(i)` is the indicator of the entry the generated var→state index points at. -/
theorem state_gradient_onehot_at_index [Zero K] [One K] (d i : Nat) (f : Bool)
    (hi : (i : Int) < num_variables_qst d f) :
    (gradState d i f : Option (List K)) =
      some (oneHot (d ^ 2) (convert_var_index_to_state_index i f).toNat) := by
  obtain ⟨hfree, _⟩ := state_v2o (d : Int) (i : Int) f (by omega) hi
  unfold StateFree at hfree
  unfold gradState
  have hcast : (((d ^ 2 : Nat)) : Int) = (d : Int) ^ (2:Nat) := by push_cast; rfl
  rw [natOf?_of_range _ _ (by cases f <;> simp at hfree <;> omega) (by rw [hcast]; exact hfree.2)]
  rfl

/-- C03.4 POVM: `calc_gradient(i)` is the indicator of the entry (element, coefficient) the generated index points at. -/
theorem povm_gradient_onehot_at_index [Zero K] [One K] (d m i : Nat) (f : Bool) (hd : 0 < d)
    (hi : (i : Int) < num_variables_povmt d m f) :
    (gradPovm d m i f : Option (List K)) =
      some (oneHot (m * d ^ 2) (flat2 ((d : Int) ^ (2:Nat))
        (convert_var_index_to_povm_index d m ((d : Int) ^ (2:Nat)) i f)).toNat) := by
  have hdI : (0 : Int) < (d : Int) := by exact_mod_cast hd
  obtain ⟨hfree, _⟩ := povm_v2o (d : Int) (m : Int) (i : Int) f hdI (by omega) hi
  unfold PovmFree at hfree
  have hcast : (((d ^ 2 : Nat)) : Int) = (d : Int) ^ (2:Nat) := by push_cast; rfl
  unfold gradPovm
  dsimp only
  rw [hcast]
  generalize convert_var_index_to_povm_index (↑d) (↑m) ((d : Int) ^ (2:Nat)) (↑i) f = ix at *
  obtain ⟨k, j⟩ := ix
  simp only at hfree
  have hkm : k < (m : Int) := by cases f <;> simp at hfree <;> omega
  rw [natOf?_of_range k m hfree.1 hkm, natOf?_of_range j (d ^ 2) hfree.2.2.1 (by rw [hcast]; exact hfree.2.2.2)]
  simp only [Option.bind_eq_bind, Option.bind_some, Option.some.injEq, flat2]
  rw [toNat_lin k j (d ^ 2) hfree.1 hfree.2.2.1, hcast]

/-- C03.4 gate, in the same form. -/
theorem gate_gradient_onehot_at_index [Zero K] [One K] (d i : Nat) (f : Bool) (hd : 0 < d)
    (hi : (i : Int) < num_variables_qpt d f) :
    (gradGate d i f : Option (List K)) =
      some (oneHot (hsSize d) (flat2 ((d : Int) ^ (2:Nat)) (convert_var_index_to_gate_index d i f)).toNat) := by
  have hdI : (0 : Int) < (d : Int) := by exact_mod_cast hd
  obtain ⟨hfree, _⟩ := gate_v2o (d : Int) (i : Int) f hdI (by omega) hi
  unfold GateFree at hfree
  have hcast : (((d ^ 2 : Nat)) : Int) = (d : Int) ^ (2:Nat) := by push_cast; rfl
  unfold gradGate
  dsimp only
  generalize convert_var_index_to_gate_index (↑d) (↑i) f = ix at *
  obtain ⟨r, c⟩ := ix
  simp only at hfree
  have hr0 : 0 ≤ r := by cases f <;> simp at hfree <;> omega
  rw [natOf?_of_range r (d ^ 2) hr0 (by rw [hcast]; exact hfree.2.1),
    natOf?_of_range c (d ^ 2) hfree.2.2.1 (by rw [hcast]; exact hfree.2.2.2)]
  simp only [Option.bind_eq_bind, Option.bind_some, Option.some.injEq, flat2]
  rw [toNat_lin r c (d ^ 2) hr0 hfree.2.2.1, hcast]

/-- C03.4 measurement process: `calc_gradient(i)` is the indicator of the entry (outcome, row, col) the generated index points at. -/
theorem mprocess_gradient_onehot_at_index [Zero K] [One K] (d m i : Nat) (f : Bool) (hd : 0 < d)
    (hi : (i : Int) < num_variables_qmpt d m f) :
    (gradMp d m i f : Option (List K)) =
      some (oneHot (m * hsSize d) (flat3 ((d : Int) ^ (2:Nat))
        (convert_var_index_to_mprocess_index d m ((d : Int) ^ (2:Nat)) i f)).toNat) := by
  have hdI : (0 : Int) < (d : Int) := by exact_mod_cast hd
  have hn : (0 : Int) < (d : Int) ^ (2:Nat) := Int.pow_pos hdI
  have h4 : (d : Int) ^ (4:Nat) = (d : Int) ^ (2:Nat) * (d : Int) ^ (2:Nat) := by ring
  have hcast : (((d ^ 2 : Nat)) : Int) = (d : Int) ^ (2:Nat) := by push_cast; rfl
  have hHcast : ((hsSize d : Nat) : Int) = (d : Int) ^ (2:Nat) * (d : Int) ^ (2:Nat) := by
    unfold hsSize; push_cast; rfl
  have hfree := (mpN_v2o ((d : Int) ^ (2:Nat)) m i f hn (by omega) (by
    unfold num_variables_qmpt at hi; rw [h4] at hi
    cases f <;> simpa using hi)).1
  unfold MpFreeN at hfree
  unfold gradMp
  dsimp only
  rw [hcast, gen_mpV2O]
  generalize mpV2O ((d : Int) ^ (2:Nat)) (↑m) (↑i) f = ix at *
  obtain ⟨k, r, c⟩ := ix
  simp only at hfree
  obtain ⟨hk0, hkm, hr1, hrn, hc0, hcn⟩ := hfree
  have hr0 : 0 ≤ r := by split at hr1 <;> omega
  rw [natOf?_of_range k m hk0 hkm, natOf?_of_range r (d ^ 2) hr0 (by rw [hcast]; exact hrn),
    natOf?_of_range c (d ^ 2) hc0 (by rw [hcast]; exact hcn)]
  simp only [Option.bind_eq_bind, Option.bind_some, Option.some.injEq, flat3]
  congr 1
  have h : ((k.toNat * hsSize d + r.toNat * d ^ 2 + c.toNat : Nat) : Int) =
      k * ((d : Int) ^ (2:Nat) * (d : Int) ^ (2:Nat)) + r * (d : Int) ^ (2:Nat) + c := by
    push_cast
    rw [Int.toNat_of_nonneg hk0, Int.toNat_of_nonneg hr0, Int.toNat_of_nonneg hc0, hHcast]
  have hnn : 0 ≤ k * ((d : Int) ^ (2:Nat) * (d : Int) ^ (2:Nat)) + r * (d : Int) ^ (2:Nat) + c := by
    have := Int.mul_nonneg hk0 (Int.le_of_lt (Int.mul_pos hn hn))
    have := Int.mul_nonneg hr0 (Int.le_of_lt hn)
    omega
  omega

/-- C03.4 POVM with the built-in constraint — the exact derivative of var ↦ stacked vector in coordinate `i`:
the free entry `i` moves by `t` (the one-hot `calc_gradient`) AND the implied last element moves by `−t` in
coefficient `i mod d²` (which `calc_gradient` does not contain). -/
theorem povm_stacked_derivative [CommRing K] (d m : Nat) (sq t : K) (v st : List K) (i : Nat) (hd : 0 < d)
    (hm : 2 ≤ m) (hlen : (v.length : Int) = num_variables_povmt d m true) (hi : i < v.length)
    (hst : povmStackedOfVar d sq v true = some st) :
    povmStackedOfVar d sq (perturb v i t) true =
      some (vadd st (lsmul t (oneHot v.length i) ++ lsmul (-t) (oneHot (d ^ 2) (i % d ^ 2)))) := by
  have hl := (nv_povmt d m v.length true (by omega)).1 hlen
  simp only [↓reduceIte] at hl
  obtain ⟨k, rfl⟩ : ∃ k, m = k + 2 := ⟨m - 2, by omega⟩
  have e : k + 2 - 1 = k + 1 := by omega
  rw [e] at hl
  have h1 : 1 ≤ d ^ 2 := Nat.pow_pos hd
  have hpl : (perturb v i t).length = (k + 1) * d ^ 2 := by simp [perturb, vadd, lsmul, oneHot, hl]
  rw [povmStacked_explicit d k sq v hd hl] at hst
  injection hst with hst
  subst hst
  rw [povmStacked_explicit d k sq _ hd hpl]
  congr 1
  rw [vadd_append _ _ _ _ (by simp [lsmul, oneHot])]
  congr 1
  unfold povmLast colSum
  have hfold := foldl_rows_perturb (d ^ 2) (k + 1) h1 v (List.replicate (d ^ 2) 0) i t hl (by omega)
  unfold perturb
  rw [hl, hfold, vsub_vadd_smul]

/-- C03.4 measurement process with the built-in constraint — the exact derivative of var ↦ stacked vector in coordinate `i`:
the free entry moves by `t` (the one-hot `calc_gradient`), and, when variable `i` lies in the FIRST ROW of a non-last HS matrix
(`i < d⁴(m−1)`, `i mod d⁴ < d²`), the implied first row of the last HS moves by `−t` in column `i mod d⁴`; otherwise nothing else moves. -/
theorem mprocess_stacked_derivative [CommRing K] (d m : Nat) (t : K) (v st : List K) (i : Nat) (hd : 0 < d) (hm : 1 ≤ m)
    (hlen : (v.length : Int) = num_variables_qmpt d m true)
    (hst : mpStackedOfVar d v true = some st) :
    mpStackedOfVar d (perturb v i t) true =
      some (vadd st
        ((lsmul t (oneHot v.length i)).take (hsSize d * (m - 1)) ++
          lsmul (-t) (if i < hsSize d * (m - 1) ∧ i % hsSize d < d ^ 2 then oneHot (d ^ 2) (i % hsSize d)
                      else List.replicate (d ^ 2) 0) ++
          (lsmul t (oneHot v.length i)).drop (hsSize d * (m - 1)))) := by
  have hl := (nv_qmpt d m v.length true hd hm).1 hlen
  simp only [↓reduceIte] at hl
  obtain ⟨k, rfl⟩ : ∃ k, m = k + 1 := ⟨m - 1, by omega⟩
  simp only [Nat.add_sub_cancel] at hl ⊢
  have h1 : 1 ≤ d ^ 2 := Nat.pow_pos hd
  have hH : 0 < hsSize d := by unfold hsSize; exact Nat.mul_pos h1 h1
  have hd0 : d ≠ 0 := by omega
  have hlt : (d ^ 2 - 1) * d ^ 2 < hsSize d := by
    unfold hsSize; exact Nat.mul_lt_mul_of_pos_right (by omega) (by omega)
  have hdiv : v.length / hsSize d = k := by
    rw [hl, Nat.mul_comm k, Nat.mul_add_div hH, Nat.div_eq_of_lt hlt]; rfl
  have hple : hsSize d * k ≤ v.length := by rw [hl, Nat.mul_comm]; omega
  have hpl : (perturb v i t).length = v.length := by simp [perturb, vadd, lsmul, oneHot]
  have hlastl : (mpLast d k v).length = d ^ 2 := by
    apply mpLast_length d k v hd
    intro o ho
    have : hsSize d * (o + 1) ≤ hsSize d * k := Nat.mul_le_mul_left _ (by omega)
    have h2 : d ^ 2 ≤ hsSize d := by unfold hsSize; exact Nat.le_mul_of_pos_left _ h1
    rw [Nat.mul_succ] at this; omega
  simp only [mpStackedOfVar, hd0, ↓reduceIte, hdiv, Nat.add_sub_cancel, Option.some.injEq] at hst
  subst hst
  simp only [mpStackedOfVar, hd0, ↓reduceIte, hpl, hdiv, Nat.add_sub_cancel, Option.some.injEq]
  unfold perturb
  rw [take_vadd, drop_vadd]
  unfold mpLast
  rw [firstRowSum_perturb d k hd v i t hple, vsub_vadd_smul]
  have htl : (v.take (hsSize d * k)).length = ((lsmul t (oneHot v.length i : List K)).take (hsSize d * k)).length := by
    simp [lsmul, oneHot]
  simp only [List.append_assoc]
  rw [vadd_append _ _ _ _ htl, vadd_append _ _ _ _ (by
    have := hlastl; unfold mpLast at this; rw [this]; split <;> simp [lsmul, oneHot])]

/-- C03.4 without the built-in constraint the stacked vector IS the variable vector (POVM, m-process) — definitional in the model
(`…StackedOfVar … false = some var`), recorded only to complete the case split of `povm_stacked_derivative` / `mprocess_stacked_derivative`. -/
theorem stacked_derivative_flag_off [CommRing K] (d : Nat) (sq t : K) (v : List K) (i : Nat) (hd : 0 < d) :
    povmStackedOfVar d sq (perturb v i t) false = some (vadd v (lsmul t (oneHot v.length i))) ∧
    mpStackedOfVar d (perturb v i t) false = some (vadd v (lsmul t (oneHot v.length i))) := by
  have hd0 : d ≠ 0 := by omega
  simp [povmStackedOfVar, mpStackedOfVar, hd0, perturb]

example : (gradMp 1 2 0 true : Option (List Rat)) = some [1, 0] := by decide +kernel
example : (((([5] : List Rat)).length : Int) = num_variables_povmt 1 2 true) ∧
    povmStackedOfVar 1 (1 : Rat) [5] true = some [5, -4] := by decide +kernel
example : (((([3] : List Rat)).length : Int) = num_variables_qmpt 1 2 true) ∧
    mpStackedOfVar 1 ([3] : List Rat) true = some [3, -2] ∧
    mpStackedOfVar 1 (perturb ([3] : List Rat) 0 1) true = some [4, -3] := by decide +kernel

/-- C03.1 flag resolution of `generate_from_var` (base class and the MProcess override): an explicitly requested parametrisation —
`True` or `False` — is used as given; only `None` falls back to the template object's flag. NOTE: the generated definition is a fixed
template that the translator emits only after matching the source expression (`harness/c03.py:flag_fragment`); a source edit makes the
TRANSLATOR fail (broken obligation) rather than this proof — the content is the matcher plus the `gen_flag` correspondence. -/
theorem generate_from_var_flag_resolution (template b : Bool) :
    resolveFlag template (some b) = b ∧ resolveFlag template none = template ∧
    resolveFlagMp template (some b) = b ∧ resolveFlagMp template none = template := by
  simp [resolveFlag, resolveFlagMp, generate_from_var_flag, generate_from_var_flag_mprocess]

example : resolveFlag true (some false) = false ∧ resolveFlagMp true none = true := by decide

/-- C03.3 state: a vec of length `d²` always has a variable vector, of the generated `num_variables_qst` length (both flags). -/
theorem state_to_var_length (d : Nat) (vec : List K) (f : Bool) (hd : 0 < d) (hl : vec.length = d ^ 2) :
    ∃ var, varOfVec vec f = some var ∧ (var.length : Int) = num_variables_qst d f := by
  have h1 : 1 ≤ d ^ 2 := Nat.pow_pos hd
  cases f
  · exact ⟨vec, rfl, (nv_qst d _ false hd).2 (by simp [hl])⟩
  · cases vec with
    | nil => simp at hl; omega
    | cons a t =>
      refine ⟨t, rfl, (nv_qst d _ true hd).2 ?_⟩
      simp at hl ⊢; omega

/-- C03.1/3 measurement process WITHOUT the built-in constraint: object → var → object is the identity on every list of `m ≥ 1`
HS matrices and `len(var) = num_variables_qmpt` (the flag-on case is `mp_hss_roundtrip`). -/
theorem mp_hss_roundtrip_flag_off [Add K] [Sub K] [Zero K] [One K] (d m : Nat) (hss : List (List K)) (hd : 0 < d)
    (hm : 1 ≤ m) (hl : hss.length = m) (hr : ∀ r ∈ hss, r.length = hsSize d) :
    ∃ var, varOfHss d hss false = some var ∧ (var.length : Int) = num_variables_qmpt d m false ∧
      hssOfVar d var false = some hss ∧ mpStackedOfVar d var false = some hss.flatten ∧
      mpVarOfStacked d hss.flatten false = some var := by
  have h1 : 1 ≤ d ^ 2 := Nat.pow_pos hd
  have hH : 0 < hsSize d := by unfold hsSize; exact Nat.mul_pos h1 h1
  have hd0 : d ≠ 0 := by omega
  have hfl : hss.flatten.length = m * hsSize d := by rw [flatten_length_of _ hss hr, hl]
  have hrows : rows (hsSize d) m hss.flatten = hss := by rw [← hl]; exact rows_of_flatten _ hss hr
  have hdiv : hss.flatten.length / hsSize d = m := by rw [hfl]; exact Nat.mul_div_cancel _ hH
  refine ⟨hss.flatten, rfl, (nv_qmpt d m _ false hd hm).2 (by simp [hfl]), ?_, by simp [mpStackedOfVar, hd0],
    by simp [mpVarOfStacked]⟩
  simp only [hssOfVar, hd0, ↓reduceIte, Bool.false_eq_true, hdiv, reshape2_ok _ _ _ hfl, hrows]

/-- C03.2 gate: `convert_stacked_vector_to_var` on the stacked vector of ANY `d² × d²` HS array is `convert_hs_to_var` of it
(not only on stacked vectors that came from a variable vector). -/
theorem gate_stacked_to_var_any [Zero K] [One K] (d : Nat) (hs : List (List K)) (f : Bool) (hd : 0 < d)
    (hl : hs.length = d ^ 2) (hr : ∀ r ∈ hs, r.length = d ^ 2) :
    varOfHs hs f = some (gateVarOfStacked d hs.flatten f) := by
  have h1 : 1 ≤ d ^ 2 := Nat.pow_pos hd
  cases f
  · simp [varOfHs, gateVarOfStacked]
  · cases hs with
    | nil => simp at hl; omega
    | cons a t =>
      have ha : a.length = d ^ 2 := hr a (by simp)
      simp only [varOfHs, gateVarOfStacked, ↓reduceIte, List.flatten_cons, Option.some.injEq]
      exact (List.drop_left' ha).symm

/-- C03.2 POVM: `convert_stacked_vector_to_var` on the stacked vector of ANY list of `m` vectors of length `d²`
(`m ≥ 2` with the constraint, `m ≥ 1` without) is `convert_vecs_to_var` of it. -/
theorem povm_stacked_to_var_any [Add K] [Sub K] [Zero K] (d m : Nat) (sq : K) (vecs : List (List K)) (f : Bool)
    (hd : 0 < d) (hm : 1 ≤ m) (hl : vecs.length = m) (hr : ∀ r ∈ vecs, r.length = d ^ 2) :
    povmVarOfStacked d sq vecs.flatten f = varOfVecs vecs f := by
  have h1 : 1 ≤ d ^ 2 := Nat.pow_pos hd
  have hd0 : d ≠ 0 := by omega
  have hfl : vecs.flatten.length = m * d ^ 2 := by rw [flatten_length_of _ vecs hr, hl]
  have hrows : rows (d ^ 2) m vecs.flatten = vecs := by rw [← hl]; exact rows_of_flatten _ vecs hr
  have hdiv : vecs.flatten.length / d ^ 2 = m := by rw [hfl]; exact Nat.mul_div_cancel _ h1
  have hne : vecs.isEmpty = false := by
    cases vecs with
    | nil => simp at hl; omega
    | cons a t => rfl
  cases f
  · simp [povmVarOfStacked, varOfVecs, hne]
  · simp only [povmVarOfStacked, ↓reduceIte, vecsOfVar, hd0, Bool.false_eq_true, hdiv, reshape2_ok _ _ _ hfl, hrows,
      Option.bind_eq_bind, Option.bind_some]


example : ∃ var, varOfVec ([1/2, 3, 4, 5] : List Rat) true = some var ∧ (var.length : Int) = num_variables_qst 2 true :=
  state_to_var_length 2 _ true (by decide) (by decide)
example : povmVarOfStacked 1 (1 : Rat) [5, 7, -11] true = varOfVecs [[5], [7], [-11]] true :=
  povm_stacked_to_var_any 1 3 1 [[5], [7], [-11]] true (by decide) (by decide) (by decide) (by decide)

/-- C03.3 converse for gates: `convert_var_to_hs` accepts ONLY variable vectors of the generated `num_variables_qpt` length
(any other length raises in `reshape`). -/
theorem gate_var_length_of_ok [Zero K] [One K] (d : Nat) (var : List K) (f : Bool) (hs : List (List K)) (hd : 0 < d)
    (h : hsOfVar d var f = some hs) : (var.length : Int) = num_variables_qpt d f := by
  have hd0 : d ≠ 0 := by omega
  rw [nv_qpt d var.length f hd]
  unfold hsOfVar at h
  rw [if_neg hd0] at h
  cases f
  · simp only [Bool.false_eq_true, ↓reduceIte] at h ⊢
    exact (reshape2_some _ _ _ _ h).1
  · simp only [↓reduceIte, Option.bind_eq_bind] at h ⊢
    cases hr : reshape2 (d ^ 2 - 1) (d ^ 2) var with
    | none => rw [hr] at h; cases h
    | some r => exact (reshape2_some _ _ _ _ hr).1

/-- C03.3 converse for POVMs: `convert_var_to_vecs` accepts exactly the variable vectors whose length is a multiple of `d²`
(the outcome count is read off the length: `len/d²` elements, plus the implied one with the constraint). -/
theorem povm_var_length_of_ok [Add K] [Sub K] [Zero K] (d : Nat) (sq : K) (var : List K) (f : Bool)
    (vecs : List (List K)) (h : vecsOfVar d sq var f = some vecs) :
    d ≠ 0 ∧ var.length = (var.length / d ^ 2) * d ^ 2 ∧ vecs.length = var.length / d ^ 2 + (if f then 1 else 0) := by
  unfold vecsOfVar at h
  split at h
  · cases h
  · rename_i hd0
    refine ⟨hd0, ?_⟩
    cases f
    · simp only [Bool.false_eq_true, ↓reduceIte] at h ⊢
      obtain ⟨h1, h2⟩ := reshape2_some _ _ _ _ h
      exact ⟨h1, by rw [h2, rows_length]; simp⟩
    · simp only [↓reduceIte, Option.bind_eq_bind, Nat.add_sub_cancel] at h ⊢
      cases hr : reshape2 (var.length / d ^ 2) (d ^ 2) var with
      | none => rw [hr] at h; cases h
      | some pre =>
        rw [hr] at h
        simp only [Option.bind_some] at h
        obtain ⟨h1, _⟩ := reshape2_some _ _ _ _ hr
        obtain ⟨_, h4⟩ := reshape2_some _ _ _ _ h
        exact ⟨h1, by rw [h4, rows_length]⟩

/-- C03.4 state, with the range hypothesis: the entry the generated index points at IS the variable. -/
theorem state_index_points_at_some (s : K) (var : List K) (f : Bool) (i : Nat) (hi : i < var.length) :
    (vecOfVar s var f)[(convert_var_index_to_state_index i f).toNat]? = some var[i] := by
  rw [state_index_points_at, List.getElem?_eq_getElem hi]

example : (vecOfVar (1/2 : Rat) [3, 4, 5] true)[(convert_var_index_to_state_index 1 true).toNat]? = some 4 :=
  state_index_points_at_some _ _ true 1 (by decide)
example : ¬ ∃ hs, hsOfVar 2 (List.replicate 11 (1 : Rat)) true = some hs := by
  rintro ⟨hs, h⟩
  have := gate_var_length_of_ok 2 _ true hs (by decide) h
  revert this; decide

/-- C03.1 measurement process, the constraint read off the OBJECT itself: a stacked vector of `m ≥ 1` HS matrices is reproduced
from its variables exactly when the first row of its last HS equals `e₀ − Σ (first rows of the other HS)` computed from that same
stacked vector (the built-in "sum is trace preserving" constraint). -/
theorem mp_obj_roundtrip_on_object [Add K] [Sub K] [Zero K] [One K] (d m : Nat) (st : List K) (hd : 0 < d) (hm : 1 ≤ m)
    (h : st.length = m * hsSize d) :
    ∃ var, mpVarOfStacked d st true = some var ∧ (var.length : Int) = num_variables_qmpt d m true ∧
      (mpStackedOfVar d var true = some st ↔
        (st.drop (hsSize d * (m - 1))).take (d ^ 2) = mpLast d (m - 1) st) := by
  obtain ⟨var, hv, hlen, hiff⟩ := mp_obj_roundtrip d m st hd hm h
  refine ⟨var, hv, hlen, ?_⟩
  rw [hiff]
  -- `var` and `st` share their first `H·(m−1)` entries, which is all the implied row reads
  have h1 : 1 ≤ d ^ 2 := Nat.pow_pos hd
  have hH : 0 < hsSize d := by unfold hsSize; exact Nat.mul_pos h1 h1
  have hd0 : d ≠ 0 := by omega
  obtain ⟨k, rfl⟩ : ∃ k, m = k + 1 := ⟨m - 1, by omega⟩
  have hdiv : st.length / hsSize d = k + 1 := by rw [h]; exact Nat.mul_div_cancel _ hH
  simp only [mpVarOfStacked, ↓reduceIte, hd0, hdiv, Nat.add_sub_cancel, Nat.succ_ne_zero, Option.some.injEq] at hv
  simp only [Nat.add_sub_cancel]
  have hpl : hsSize d * k ≤ st.length := by rw [h, Nat.succ_mul, Nat.mul_comm]; omega
  have htake : var.take (hsSize d * k) = st.take (hsSize d * k) := by
    rw [← hv, List.take_left' (by rw [List.length_take]; omega)]
  have e : mpLast d k var = mpLast d k st := by
    unfold mpLast
    rw [← firstRowSum_take d k var hd, ← firstRowSum_take d k st hd, htake]
  rw [e]

example := mp_obj_roundtrip_on_object 1 2 ([3, -2] : List Rat) (by decide) (by decide) (by decide)
example : (([3, -2] : List Rat).drop (hsSize 1 * (2 - 1))).take (1 ^ 2) = mpLast 1 (2 - 1) [3, -2] := by decide +kernel

/-- C03.3 converse for measurement processes: `convert_var_to_hss` accepts exactly the variable vectors whose length is
`k·d⁴` (without the constraint) resp. `k·d⁴ − d²` for the outcome count `k = len // d⁴ + 1` read off the length (with it). -/
theorem mp_var_length_of_ok [Add K] [Sub K] [Zero K] [One K] (d : Nat) (var : List K) (f : Bool) (hss : List (List K))
    (h : hssOfVar d var f = some hss) :
    d ≠ 0 ∧ hss.length = var.length / hsSize d + (if f then 1 else 0) ∧
      var.length + (if f then d ^ 2 else 0) = hss.length * hsSize d := by
  unfold hssOfVar at h
  split at h
  · cases h
  · rename_i hd0
    refine ⟨hd0, ?_⟩
    cases f
    · simp only [Bool.false_eq_true, ↓reduceIte, Nat.add_zero] at h ⊢
      obtain ⟨h1, h2⟩ := reshape2_some _ _ _ _ h
      rw [h2, rows_length]; exact ⟨rfl, h1⟩
    · simp only [↓reduceIte, Option.bind_eq_bind] at h ⊢
      cases hs : mpStackedOfVar d var true with
      | none => rw [hs] at h; cases h
      | some st =>
        rw [hs] at h
        simp only [Option.bind_some] at h
        obtain ⟨h1, h2⟩ := reshape2_some _ _ _ _ h
        rw [h2, rows_length]
        refine ⟨rfl, ?_⟩
        rw [← h1]
        simp only [mpStackedOfVar, hd0, ↓reduceIte, Option.some.injEq] at hs
        have hH : 0 < hsSize d := by
          unfold hsSize; exact Nat.mul_pos (Nat.pow_pos (Nat.pos_of_ne_zero hd0)) (Nat.pow_pos (Nat.pos_of_ne_zero hd0))
        have hp : hsSize d * (var.length / hsSize d) ≤ var.length := Nat.mul_div_le _ _
        rw [← hs]
        simp only [Nat.add_sub_cancel, List.length_append, List.length_take, List.length_drop, Nat.min_eq_left hp]
        have hl : (mpLast d (var.length / hsSize d) var).length = d ^ 2 := by
          apply mpLast_length d _ var (Nat.pos_of_ne_zero hd0)
          intro o ho
          have : hsSize d * (o + 1) ≤ hsSize d * (var.length / hsSize d) := Nat.mul_le_mul_left _ (by omega)
          have h2' : d ^ 2 ≤ hsSize d := by
            unfold hsSize; exact Nat.le_mul_of_pos_left _ (Nat.pow_pos (Nat.pos_of_ne_zero hd0))
          rw [Nat.mul_succ] at this; omega
        rw [hl]; omega

/-! ## clause "across a whole set of operations" -/

/-- C03.5 SetQOperations: local (mode, operation k, local index j) ↦ total index lands in range and
`local_info_from_index_var_total` inverts it — arbitrary mixes and counts of the four types. -/
theorem total_local_roundtrip (S : Sizes) (mode k j : Nat) (sizes : List Nat)
    (hm : S.ofMode mode = some sizes) (hk : k < sizes.length) (hj : j < sizes[k]) :
    ∃ t, totalFromLocal S mode k j = some t ∧ t < S.total ∧ localFromTotal S t = some (mode, k, j) := by
  have hle := nsum_take_le sizes k hk
  have hloc := locate_spec sizes 0 k j hk hj
  refine ⟨S.first mode + nsum (sizes.take k) + j, ?_, ?_, ?_⟩
  · simp [totalFromLocal, hm, itemFirst, Nat.le_of_lt hk]
  · match mode, hm with
    | 0, hm => simp [Sizes.ofMode] at hm; subst hm; simp [Sizes.first, Sizes.total]; omega
    | 1, hm => simp [Sizes.ofMode] at hm; subst hm; simp [Sizes.first, Sizes.total]; omega
    | 2, hm => simp [Sizes.ofMode] at hm; subst hm; simp [Sizes.first, Sizes.total]; omega
    | 3, hm => simp [Sizes.ofMode] at hm; subst hm; simp [Sizes.first, Sizes.total]; omega
    | n + 4, hm => simp [Sizes.ofMode] at hm
  · have hmode : modeOfTotal S (S.first mode + nsum (sizes.take k) + j) = some mode := by
      match mode, hm with
      | 0, hm =>
        simp [Sizes.ofMode] at hm; subst hm
        simp only [modeOfTotal, Sizes.first]; rw [if_pos (by omega)]
      | 1, hm =>
        simp [Sizes.ofMode] at hm; subst hm
        simp only [modeOfTotal, Sizes.first]; rw [if_neg (by omega), if_pos (by omega)]
      | 2, hm =>
        simp [Sizes.ofMode] at hm; subst hm
        simp only [modeOfTotal, Sizes.first]; rw [if_neg (by omega), if_neg (by omega), if_pos (by omega)]
      | 3, hm =>
        simp [Sizes.ofMode] at hm; subst hm
        simp only [modeOfTotal, Sizes.first, Sizes.total]
        rw [if_neg (by omega), if_neg (by omega), if_neg (by omega), if_pos (by omega)]
      | n + 4, hm => simp [Sizes.ofMode] at hm
    have hsub : S.first mode + nsum (sizes.take k) + j - S.first mode = nsum (sizes.take k) + j := by omega
    simp [localFromTotal, hmode, hm, hsub, hloc]

/-- C03.5 SetQOperations: every total index in range is the image of exactly the local triple that
`local_info_from_index_var_total` returns (onto). -/
theorem local_total_roundtrip (S : Sizes) (t : Nat) (ht : t < S.total) :
    ∃ mode k j sizes, ∃ hk : k < sizes.length, localFromTotal S t = some (mode, k, j) ∧
      S.ofMode mode = some sizes ∧ j < sizes[k] ∧ totalFromLocal S mode k j = some t := by
  have key : ∀ mode sizes, S.ofMode mode = some sizes → modeOfTotal S t = some mode →
      S.first mode ≤ t → t - S.first mode < nsum sizes →
      ∃ mode k j sizes, ∃ hk : k < sizes.length, localFromTotal S t = some (mode, k, j) ∧
        S.ofMode mode = some sizes ∧ j < sizes[k] ∧ totalFromLocal S mode k j = some t := by
    intro mode sizes hm hmode hle hlt
    obtain ⟨k, j, hk, h1, h2, h3⟩ := locate_some sizes 0 (t - S.first mode) hlt
    refine ⟨mode, k, j, sizes, hk, ?_, hm, h2, ?_⟩
    · simp [localFromTotal, hmode, hm, h1]
    · simp [totalFromLocal, hm, itemFirst, Nat.le_of_lt hk]; omega
  unfold Sizes.total at ht
  by_cases h0 : t < nsum S.state
  · exact key 0 S.state rfl (by simp [modeOfTotal, Sizes.first, h0]) (by simp [Sizes.first]) (by simpa [Sizes.first] using h0)
  · by_cases h1 : t < nsum S.state + nsum S.gate
    · exact key 1 S.gate rfl (by simp only [modeOfTotal, Sizes.first]; rw [if_neg h0, if_pos ⟨by omega, h1⟩])
        (by simp [Sizes.first]; omega) (by simp [Sizes.first]; omega)
    · by_cases h2 : t < nsum S.state + nsum S.gate + nsum S.povm
      · exact key 2 S.povm rfl (by simp only [modeOfTotal, Sizes.first]; rw [if_neg h0, if_neg (by omega), if_pos ⟨by omega, h2⟩])
          (by simp [Sizes.first]; omega) (by simp [Sizes.first]; omega)
      · exact key 3 S.mprocess rfl (by simp only [modeOfTotal, Sizes.first, Sizes.total]; rw [if_neg h0, if_neg (by omega), if_neg (by omega), if_pos ⟨by omega, ht⟩])
          (by simp [Sizes.first]; omega) (by simp [Sizes.first]; omega)

/-- C03.5 through the EXECUTED `index_var_total_from_local_info` (all four type groups, with the offsets between groups): the total
index of (mode, operation k, local index j) points at that variable of that operation inside `var_total`. -/
theorem total_index_points_at (B : Blocks K) (mode k j t : Nat) (blk : List (List K)) (hb : B.ofMode mode = some blk)
    (hk : k < blk.length) (hj : j < blk[k].length)
    (ht : totalFromLocal B.sizes mode k j = some t) : B.varTotal[t]? = some (blk[k][j]) := by
  have hp := flatten_points_at blk k j hk hj
  have hlt : nsum ((blk.map List.length).take k) + j < blk.flatten.length := by
    by_contra hc
    have := List.getElem?_eq_none (l := blk.flatten) (Nat.le_of_not_lt hc)
    rw [this] at hp; cases hp
  have hk' : k ≤ (blk.map List.length).length := by simp; omega
  match mode, hb with
  | 0, hb =>
    simp only [Blocks.ofMode, Option.some.injEq] at hb; subst hb
    simp only [totalFromLocal, Blocks.sizes, Sizes.ofMode, itemFirst, hk', ↓reduceIte, Option.bind_eq_bind,
      Option.bind_some, Sizes.first, Option.some.injEq] at ht
    subst ht
    unfold Blocks.varTotal
    rw [List.append_assoc, List.append_assoc, List.getElem?_append_left (by omega), ← hp]; congr 1; omega
  | 1, hb =>
    simp only [Blocks.ofMode, Option.some.injEq] at hb; subst hb
    simp only [totalFromLocal, Blocks.sizes, Sizes.ofMode, itemFirst, hk', ↓reduceIte, Option.bind_eq_bind,
      Option.bind_some, Sizes.first, Option.some.injEq] at ht
    subst ht
    unfold Blocks.varTotal
    rw [List.append_assoc, List.append_assoc, List.getElem?_append_right (by simp only [flatten_len_nsum]; omega),
      List.getElem?_append_left (by simp only [flatten_len_nsum] at *; omega), ← hp]
    congr 1; simp only [flatten_len_nsum]; omega
  | 2, hb =>
    simp only [Blocks.ofMode, Option.some.injEq] at hb; subst hb
    simp only [totalFromLocal, Blocks.sizes, Sizes.ofMode, itemFirst, hk', ↓reduceIte, Option.bind_eq_bind,
      Option.bind_some, Sizes.first, Option.some.injEq] at ht
    subst ht
    unfold Blocks.varTotal
    rw [List.getElem?_append_left (by simp only [List.length_append, flatten_len_nsum] at *; omega),
      List.getElem?_append_right (by simp only [List.length_append, flatten_len_nsum]; omega), ← hp]
    congr 1; simp only [List.length_append, flatten_len_nsum]; omega
  | 3, hb =>
    simp only [Blocks.ofMode, Option.some.injEq] at hb; subst hb
    simp only [totalFromLocal, Blocks.sizes, Sizes.ofMode, itemFirst, hk', ↓reduceIte, Option.bind_eq_bind,
      Option.bind_some, Sizes.first, Option.some.injEq] at ht
    subst ht
    unfold Blocks.varTotal
    rw [List.getElem?_append_right (by simp only [List.length_append, flatten_len_nsum]; omega), ← hp]
    congr 1; simp only [List.length_append, flatten_len_nsum]; omega
  | n + 4, hb => simp [Blocks.ofMode] at hb

/-- C03.5 the EXECUTED `set_qoperations_from_var_total` slices `var_total` back into exactly the blocks it was stacked from
(and accepts it: the length check passes). -/
theorem set_from_var_total_blocks (B : Blocks K) :
    setFromVarTotal B.sizes B.varTotal = some (B.state ++ B.gate ++ B.povm ++ B.mprocess) := by
  have := splitBy_flatten (B.state ++ B.gate ++ B.povm ++ B.mprocess)
  simp only [List.map_append] at this
  unfold setFromVarTotal Blocks.sizes Blocks.varTotal
  simp only
  rw [if_pos (by simp only [Sizes.total, List.length_append, flatten_len_nsum]), ← List.flatten_append,
    ← List.flatten_append, ← List.flatten_append, this]

example : totalFromLocal (Blocks.sizes (⟨[[1, 2, 3]], [], [[4, 5], [6, 7]], [[8]]⟩ : Blocks Rat)) 2 1 1 = some 6 ∧
    (Blocks.varTotal (⟨[[1, 2, 3]], [], [[4, 5], [6, 7]], [[8]]⟩ : Blocks Rat))[6]? = some 7 := by decide +kernel

/-! ## the hypotheses are satisfiable (concrete non-trivial instances) -/

example : (0:Int) ≤ 5 ∧ (5:Int) < num_variables_qmpt 2 3 true := by decide
example : MpFree 2 3 true (2, 1, 0) := by unfold MpFree; decide
example : ¬ MpFree 2 3 true (2, 0, 0) := by unfold MpFree; decide
example : GateFree 3 true (1, 8) := by unfold GateFree; decide
example : PovmFree 2 4 true (2, 3) := by unfold PovmFree; decide
example : convert_var_index_to_mprocess_index 2 3 4 37 true = (2, 2, 1) := by decide
example : convert_mprocess_index_to_var_index 2 (2, 2, 1) 3 4 true = 37 := by decide
example : (([1, 2, 3] : List Rat).length : Int) = num_variables_qst 2 true := by decide
example : ((List.replicate 12 (1 : Rat)).length : Int) = num_variables_qpt 2 true := by decide
example : ((List.replicate 8 (1 : Rat)).length : Int) = num_variables_povmt 2 3 true := by decide
example : ((List.replicate 28 (1 : Rat)).length : Int) = num_variables_qmpt 2 2 true := by decide
example : vecsOfVar 1 (1 : Rat) [5, 7] true = some [[5], [7], [-11]] := by decide +kernel
example : totalFromLocal ⟨[3, 3], [12], [4, 8], [28]⟩ 2 1 5 = some 27 := by decide
example : localFromTotal ⟨[3, 3], [12], [4, 8], [28]⟩ 27 = some (2, 1, 5) := by decide

end QM.C03
