import QProofs.C01
/-!
# C01 — physicality verdicts match the mathematical definitions at the given tolerance: property theorems

The relative tolerances `QGen.C01.*_rtol` and `settings_atol` are GENERATED from the Python source on every run.
Sites generated with `rtol = 0` (gate.is_tp both branches, matrix_util.is_hermitian / is_positive_semidefinite) carry
exact `verdict ↔ defect ≤ atol` theorems that only type-check while the source keeps `rtol=0.0`.
`State.is_trace_one` and `Povm.is_identity_sum` are generated with numpy's default `1e-5` on the current tree
(defect D1): for them the exact statement is proved to be EQUIVALENT to `rtol = 0`, the verdict is characterised with
the slack, and the default slack is refuted by a concrete witness (trace 1 + 5·10⁻⁶ at atol 10⁻¹³).
All statements are for arbitrary sizes and values (ℚ, the executed instance).
-/
open QGen.C01
namespace QM.C01

/-! ## clause "the absolute tolerance given by the caller is the only slack" -/

/-- C01.1 numpy closeness is `|a − b| ≤ atol + rtol·|b|`; with `rtol = 0` it is exactly `defect ≤ atol`. -/
theorem isClose_exact (a b atol : Rat) : isClose a b atol 0 = true ↔ |a - b| ≤ atol :=
  isClose_zero_rtol a b atol

/-- C01.1 State.is_trace_one for a density matrix with (real) trace `x`: the verdict as it is on the current tree —
true exactly when `|x − 1| ≤ atol + (generated rtol)·|1|`. -/
theorem traceOne_verdict_iff (rho : CMat) (x atol : Rat) (h : rho.trace = some (x, 0)) :
    stateTraceOne rho atol = some true ↔ |x - 1| ≤ atol + state_is_trace_one_rtol := by
  unfold stateTraceOne
  rw [h]
  simp only [Option.bind_eq_bind, Option.bind_some, Option.some.injEq, isCloseCR_real, isClose_iff]
  simp

/-- C01.1 State.is_trace_one is the exact test `|tr ρ − 1| ≤ atol` for every trace and tolerance IF AND ONLY IF the
generated relative tolerance is 0. (On the current tree it is 1e-5: defect D1.) -/
theorem traceOne_exact_iff_rtol_zero :
    (∀ x atol : Rat, 0 ≤ atol → (isCloseCR (x, 0) 1 atol state_is_trace_one_rtol = true ↔ |x - 1| ≤ atol)) ↔
      state_is_trace_one_rtol = 0 := by
  simp only [isCloseCR_real]
  exact exact_iff_rtol_zero _ (by decide)

/-- C01.1 Povm.is_identity_sum, diagonal entries (reference value 1): exact iff the generated rtol is 0. -/
theorem identitySum_exact_iff_rtol_zero :
    (∀ x atol : Rat, 0 ≤ atol → (isCloseCR (x, 0) 1 atol povm_is_identity_sum_rtol = true ↔ |x - 1| ≤ atol)) ↔
      povm_is_identity_sum_rtol = 0 := by
  simp only [isCloseCR_real]
  exact exact_iff_rtol_zero _ (by decide)

/-- D1 negation witness, independent of the source: with numpy's default `rtol = 1e-5` a trace of `1 + 5·10⁻⁶`
is accepted at `atol = 10⁻¹³` although its defect exceeds the tolerance. -/
theorem numpy_default_rtol_fails :
    ¬ (∀ x atol : Rat, 0 ≤ atol → (isCloseCR (x, 0) 1 atol (mkRat 1 100000) = true ↔ |x - 1| ≤ atol)) := by
  intro h
  have h1 := (h (1 + 5 / 1000000) (1 / 10000000000000) (by norm_num)).1 (by decide +kernel)
  rw [abs_le] at h1
  norm_num at h1

/-- D1 on the generated constants: whenever the source leaves the default relative tolerance in
State.is_trace_one, the exact statement fails (holds vacuously once the source passes `rtol=0.0`). -/
theorem traceOne_exact_fails_of_default_rtol (h : state_is_trace_one_rtol = mkRat 1 100000) :
    ¬ (∀ x atol : Rat, 0 ≤ atol → (isCloseCR (x, 0) 1 atol state_is_trace_one_rtol = true ↔ |x - 1| ≤ atol)) := by
  rw [h]; exact numpy_default_rtol_fails

theorem identitySum_exact_fails_of_default_rtol (h : povm_is_identity_sum_rtol = mkRat 1 100000) :
    ¬ (∀ x atol : Rat, 0 ≤ atol → (isCloseCR (x, 0) 1 atol povm_is_identity_sum_rtol = true ↔ |x - 1| ≤ atol)) := by
  rw [h]; exact numpy_default_rtol_fails

/-- C01.1 gate.is_tp, first-row branch (generated `rtol = 0`): the verdict is exactly
"every entry of the first HS row is within `atol` of `e₀`". -/
theorem tp_row_iff (n : Nat) (hs : List Rat) (atol : Rat) (v : Bool) (h : tpRow n hs atol = some v) :
    v = true ↔ ∀ p ∈ (hs.take n).zipIdx, |p.1 - (if p.2 = 0 then 1 else 0)| ≤ atol :=
  tpRow_iff n hs atol v h

/-- C01.4 eigenvalue part of matrix_util.is_positive_semidefinite (generated `rtol = 0`): "eigenvalues within `atol`
of 0 are ignored, the rest must be ≥ 0" is exactly "every eigenvalue ≥ −atol". -/
theorem psdVerdict_eigs_iff (eigs : List Rat) (atol : Rat) (h : 0 ≤ atol) :
    psdEig eigs atol = true ↔ ∀ l ∈ eigs, -atol ≤ l :=
  psdEig_iff eigs atol h

/-- C01.4 the PSD verdict is "Hermitian within atol" and the eigenvalue test. -/
theorem psdVerdict_iff (M : CMat) (eigs : List Rat) (atol : Rat) (hM : isHermitian M atol = some true)
    (h : 0 ≤ atol) : psdVerdict M eigs atol = some true ↔ ∀ l ∈ eigs, -atol ≤ l := by
  unfold psdVerdict
  rw [hM]
  simp only [Option.bind_eq_bind, Option.bind_some, Bool.true_and, Option.some.injEq]
  exact psdEig_iff eigs atol h

section spectral
open Matrix
open scoped ComplexOrder
variable {n : Type*} [Fintype n] [DecidableEq n]
/-- C01.4 the eigenvalue test of `is_positive_semidefinite` decides positive semidefiniteness of `M + atol•1`:
for a Hermitian complex matrix `M` whose (Mathlib) eigenvalues are exactly the values of the model's parameter list
`eigs` (the contract of `np.linalg.eigvalsh`), `psdEig eigs atol ⇔ PosSemidef (M + atol•1)`. -/
theorem psdVerdict_eigs_iff_posSemidef (M : Matrix n n ℂ) (hM : M.IsHermitian) (eigs : List ℚ) (atol : ℚ)
    (ha : 0 ≤ atol)
    (heig : ∀ x : ℝ, (∃ l ∈ eigs, ((l : ℚ) : ℝ) = x) ↔ ∃ i, hM.eigenvalues i = x) :
    psdEig eigs atol = true ↔ (M + (((atol : ℚ) : ℝ) : ℂ) • (1 : Matrix n n ℂ)).PosSemidef := by
  rw [psdEig_iff eigs atol ha]
  have := eigenvalues_ge_neg_iff_posSemidef (𝕜 := ℂ) hM ((atol : ℚ) : ℝ)
  simp only [Complex.coe_algebraMap] at this
  rw [← this]
  constructor
  · intro h i
    obtain ⟨l, hl, hlx⟩ := (heig (hM.eigenvalues i)).2 ⟨i, rfl⟩
    have := h l hl
    rw [← hlx]; exact_mod_cast this
  · intro h l hl
    obtain ⟨i, hi⟩ := (heig l).1 ⟨l, hl, rfl⟩
    have := h i
    rw [hi] at this; exact_mod_cast this

example : psdEig [0, 0] (1 / 10) = true ↔
    ((0 : Matrix (Fin 2) (Fin 2) ℂ) + ((((1 / 10 : ℚ)) : ℝ) : ℂ) • (1 : Matrix (Fin 2) (Fin 2) ℂ)).PosSemidef := by
  have hM : (0 : Matrix (Fin 2) (Fin 2) ℂ).IsHermitian := isHermitian_zero
  have h0 : hM.eigenvalues = 0 := hM.eigenvalues_eq_zero_iff.2 rfl
  refine psdVerdict_eigs_iff_posSemidef 0 hM [0, 0] (1 / 10) (by norm_num) ?_
  intro x
  simp [h0, eq_comm]
end spectral

/-! ## clause "loosening the tolerance never turns a true verdict false" (any generated rtol) -/

/-- C01.2 -/
theorem isClose_atol_mono (a b atol atol' rtol : Rat) (h : atol ≤ atol') (hc : isClose a b atol rtol = true) :
    isClose a b atol' rtol = true := isClose_mono a b atol atol' rtol h hc

theorem traceOne_mono (rho : CMat) (atol atol' : Rat) (h : atol ≤ atol')
    (hc : stateTraceOne rho atol = some true) : stateTraceOne rho atol' = some true :=
  stateTraceOne_mono rho atol atol' h hc

theorem identitySum_mono (S : CMat) (atol atol' : Rat) (h : atol ≤ atol')
    (hc : povmIdentitySum S atol = some true) : povmIdentitySum S atol' = some true :=
  povmIdentitySum_mono S atol atol' h hc

theorem tp_row_mono (n : Nat) (hs : List Rat) (atol atol' : Rat) (h : atol ≤ atol')
    (hc : tpRow n hs atol = some true) : tpRow n hs atol' = some true :=
  tpRow_mono n hs atol atol' h hc

theorem psdEig_atol_mono (eigs : List Rat) (atol atol' : Rat) (h : atol ≤ atol')
    (hc : psdEig eigs atol = true) : psdEig eigs atol' = true := psdEig_mono eigs atol atol' h hc

/-- entries of the Hermiticity / generic-basis TP tests (complex against complex, generated `rtol = 0`) -/
theorem closeCC_mono (a b : C) (atol atol' rtol : Rat) (h : atol ≤ atol')
    (hc : isCloseCC a b atol rtol = some true) : isCloseCC a b atol' rtol = some true :=
  isCloseCC_mono a b atol atol' rtol h hc

/-! ## clause "physical = equality verdict ∧ inequality verdict", "constructor raises iff not physical" -/

/-- C01.5 -/
theorem physical_eq_and (a b : Bool) : physical a b = true ↔ a = true ∧ b = true := physical_iff a b

/-- C01.5 with exactly one tolerance given, the other sub-verdict is taken at the global setting — independently:
`is_physical(atol_eq_const=a)` is `eq(a) ∧ ineq(global)`, `is_physical(atol_ineq_const=a)` is `eq(global) ∧ ineq(a)`. -/
theorem physical_one_tolerance (eq ineq : Rat → Bool) (a g : Rat) :
    (physicalArgs eq ineq (some a) none g = true ↔ eq a = true ∧ ineq g = true) ∧
    (physicalArgs eq ineq none (some a) g = true ↔ eq g = true ∧ ineq a = true) ∧
    (physicalArgs eq ineq none none g = true ↔ eq g = true ∧ ineq g = true) := by
  simp [physicalArgs, is_physical, resolveTol]

theorem statePhysical_iff (rho : CMat) (eigs : List Rat) (ae ai : Rat) :
    statePhysical rho eigs ae ai = some true ↔
      stateTraceOne rho ae = some true ∧ psdVerdict rho eigs ai = some true := by
  unfold statePhysical
  cases h1 : stateTraceOne rho ae with
  | none => simp
  | some a =>
    cases h2 : psdVerdict rho eigs ai with
    | none => simp
    | some b => simp [physical]

theorem gatePhysical_iff (onh0 : Bool) (n : Nat) (t : List C) (hs : List Rat) (choi : CMat)
    (eigs : List Rat) (ae ai : Rat) :
    gatePhysical onh0 n t hs choi eigs ae ai = some true ↔
      isTp onh0 n t hs ae = some true ∧ psdVerdict choi eigs ai = some true := by
  unfold gatePhysical
  cases h1 : isTp onh0 n t hs ae with
  | none => simp
  | some a =>
    cases h2 : psdVerdict choi eigs ai with
    | none => simp
    | some b => simp [physical]

/-- C01.5 the constructor succeeds exactly when physicality is not required or the object is physical. -/
theorem mk_ok_iff_physical (req phys : Bool) : mk req phys = Ctor.ok ↔ (req = true → phys = true) :=
  mk_ok_iff req phys

theorem mk_raises_iff (req phys : Bool) : mk req phys = Ctor.notPhysical ↔ (req = true ∧ phys = false) := by
  cases req <;> cases phys <;> simp [mk, mkWith, state_ctor_raises]

section bridge
open Matrix
open scoped ComplexOrder
/-- C01.4 `is_positive_semidefinite` on the model matrix: for a (exactly) Hermitian `M` and under the contract
"`np.linalg.eigvalsh` returns the eigenvalues of `M`", the verdict at `atol ≥ 0` is true exactly when `M + atol•1`
is positive semidefinite. -/
theorem psdVerdict_iff_posSemidef_matrix (M : CMat) (eigs : List ℚ) (atol : ℚ) (hok : M.ok = true) (ha : 0 ≤ atol)
    (hH : M.toMatrix.IsHermitian)
    (heig : ∀ x : ℝ, (∃ l ∈ eigs, ((l : ℚ) : ℝ) = x) ↔ ∃ i, hH.eigenvalues i = x) :
    psdVerdict M eigs atol = some true ↔
      (M.toMatrix + (((atol : ℚ) : ℝ) : ℂ) • (1 : Matrix (Fin M.d) (Fin M.d) ℂ)).PosSemidef := by
  rw [psdVerdict_iff M eigs atol (isHermitian_of_toMatrix M atol hok ha hH) ha,
    ← psdVerdict_eigs_iff_posSemidef M.toMatrix hH eigs atol ha heig, psdEig_iff eigs atol ha]

/-- C01 state: physical ⇔ unit trace within the (generated) slack ∧ density matrix PSD up to `atol`, stated on the matrix. -/
theorem statePhysical_iff_matrix (rho : CMat) (eigs : List ℚ) (x ae ai : ℚ) (hok : rho.ok = true) (ha : 0 ≤ ai)
    (htr : rho.trace = some (x, 0)) (hH : rho.toMatrix.IsHermitian)
    (heig : ∀ y : ℝ, (∃ l ∈ eigs, ((l : ℚ) : ℝ) = y) ↔ ∃ i, hH.eigenvalues i = y) :
    statePhysical rho eigs ae ai = some true ↔
      |x - 1| ≤ ae + state_is_trace_one_rtol ∧
      (rho.toMatrix + (((ai : ℚ) : ℝ) : ℂ) • (1 : Matrix (Fin rho.d) (Fin rho.d) ℂ)).PosSemidef := by
  rw [statePhysical_iff, traceOne_verdict_iff rho x ae htr,
    psdVerdict_iff_posSemidef_matrix rho eigs ai hok ha hH heig]

/-- C01 gate: physical ⇔ TP verdict ∧ Choi matrix PSD up to `atol` (complete positivity), stated on the Choi matrix. -/
theorem gatePhysical_iff_matrix (onh0 : Bool) (n : Nat) (t : List C) (hs : List Rat) (choi : CMat) (eigs : List ℚ)
    (ae ai : ℚ) (hok : choi.ok = true) (ha : 0 ≤ ai) (hH : choi.toMatrix.IsHermitian)
    (heig : ∀ y : ℝ, (∃ l ∈ eigs, ((l : ℚ) : ℝ) = y) ↔ ∃ i, hH.eigenvalues i = y) :
    gatePhysical onh0 n t hs choi eigs ae ai = some true ↔
      isTp onh0 n t hs ae = some true ∧
      (choi.toMatrix + (((ai : ℚ) : ℝ) : ℂ) • (1 : Matrix (Fin choi.d) (Fin choi.d) ℂ)).PosSemidef := by
  rw [gatePhysical_iff, psdVerdict_iff_posSemidef_matrix choi eigs ai hok ha hH heig]

example : psdVerdict ⟨2, [(0,0),(0,0),(0,0),(0,0)]⟩ [0, 0] (1/10) = some true ↔
    ((⟨2, [(0,0),(0,0),(0,0),(0,0)]⟩ : CMat).toMatrix + ((((1/10 : ℚ)) : ℝ) : ℂ) • 1).PosSemidef := by
  have hH : (⟨2, [(0,0),(0,0),(0,0),(0,0)]⟩ : CMat).toMatrix.IsHermitian := by
    rw [zeroMat_toMatrix]; exact isHermitian_zero
  refine psdVerdict_iff_posSemidef_matrix _ [0, 0] (1/10) (by decide) (by norm_num) hH ?_
  have h0 : hH.eigenvalues = 0 := by
    apply hH.eigenvalues_eq_zero_iff.2; exact zeroMat_toMatrix
  intro x; simp [h0, eq_comm]
end bridge

/-! ## decision wiring regenerated from the source (`QGen.C01`): a source edit of these expressions re-opens the proofs -/

/-- C01.5 on the GENERATED `QOperation.is_physical`: it is the conjunction of the equality verdict at the (optional)
equality tolerance and the inequality verdict at the (optional) inequality tolerance — each handed on unchanged. -/
theorem generated_is_physical_iff (eq ineq : Option Rat → Bool) (ae ai : Option Rat) :
    is_physical eq ineq ae ai = true ↔ eq ae = true ∧ ineq ai = true := by
  simp [is_physical]

/-- C01.5 on the GENERATED constructor guards of all four types: raise ⇔ physicality required ∧ not physical
(`is_physical()` with the default tolerances). -/
theorem generated_ctor_raises_iff (req phys : Bool) :
    (state_ctor_raises req phys = true ↔ (req = true ∧ phys = false)) ∧
    (povm_ctor_raises req phys = true ↔ (req = true ∧ phys = false)) ∧
    (gate_ctor_raises req phys = true ↔ (req = true ∧ phys = false)) ∧
    (mprocess_ctor_raises req phys = true ↔ (req = true ∧ phys = false)) := by
  cases req <;> cases phys <;> simp [state_ctor_raises, povm_ctor_raises, gate_ctor_raises, mprocess_ctor_raises]

theorem mk_all_types_iff (req phys : Bool) :
    (mkPovm req phys = Ctor.ok ↔ (req = true → phys = true)) ∧
    (mkGate req phys = Ctor.ok ↔ (req = true → phys = true)) ∧
    (mkMProcess req phys = Ctor.ok ↔ (req = true → phys = true)) := by
  cases req <;> cases phys <;>
    simp [mkPovm, mkGate, mkMProcess, mkWith, povm_ctor_raises, gate_ctor_raises, mprocess_ctor_raises]

/-- C01.3 on the GENERATED basis-flag aggregation: the composite system is "orthonormal, Hermitian, identity-first"
exactly when EVERY subsystem's basis passes all four basis verdicts; and gate.is_tp uses the first-row test exactly then. -/
theorem generated_basis_flag_iff (subs : List (Bool × Bool × Bool × Bool)) :
    onh0Flag subs = true ↔ ∀ s ∈ subs, s.1 = true ∧ s.2.1 = true ∧ s.2.2.1 = true ∧ s.2.2.2 = true := by
  simp [onh0Flag, composite_flag, elemental_flag, List.all_eq_true, and_assoc]

theorem isTp_branch (onh0 : Bool) (n : Nat) (t : List C) (hs : List Rat) (atol : Rat) :
    isTp onh0 n t hs atol = if onh0 = true then tpRow n hs atol else tpTrace n t hs atol := by
  cases onh0 <;> simp [isTp, is_tp_first_row_branch]

example : onh0Flag [(true, true, true, true), (true, true, true, false)] = false := by decide
example : is_physical (fun a => a == some (1/2)) (fun a => a == none) (some (1/2)) none = true := by decide +kernel
example : gate_ctor_raises true false = true := by decide

/-! ## clause "the origin object is physical" (equality part, ∀ d, ∀ m ≥ 1, every atol ≥ 0) -/

/-- C01.6 gate origin (`hs = E₀₀`, the completely depolarising map) is trace preserving for every dimension. -/
theorem origin_gate_tp (n : Nat) (atol : Rat) (hn : 0 < n) (ha : 0 ≤ atol) :
    tpRow n (originGate n) atol = some true := originGate_tp n atol hn ha

/-- C01.6 mprocess origin (`m` copies of `E₀₀/m`): the sum is trace preserving for every `d`, `m ≥ 1`. -/
theorem origin_mprocess_sum_tp (n m : Nat) (t : List C) (atol : Rat) (hn : 0 < n) (hm : 0 < m)
    (ha : 0 ≤ atol) : mpSumTp true n t (originMp n m) atol = some true :=
  originMp_sumTp n m t atol hn hm ha

/-- C01.6 state / POVM origin: an operator with trace exactly 1 passes the trace test at every `atol ≥ 0`
(`tr(I/d) = 1`; the float `1/np.sqrt(d)` enters only through the trace parameter). -/
theorem traceOne_of_trace_one (rho : CMat) (atol : Rat) (h : rho.trace = some (1, 0)) (ha : 0 ≤ atol) :
    stateTraceOne rho atol = some true := by
  rw [traceOne_verdict_iff rho 1 atol h]
  have : (0 : Rat) ≤ state_is_trace_one_rtol := by decide
  simp; linarith

/-- C01.6 PSD part of every origin object: non-negative eigenvalues pass at every `atol ≥ 0`. -/
theorem psdEig_of_nonneg (eigs : List Rat) (atol : Rat) (ha : 0 ≤ atol) (h : ∀ l ∈ eigs, 0 ≤ l) :
    psdEig eigs atol = true :=
  (psdEig_iff eigs atol ha).2 fun l hl => by have := h l hl; linarith

/-- C01.6 PSD part of the origin objects: a scalar matrix `c·1` with a non-negative eigenvalue list passes
`is_positive_semidefinite` at every `atol ≥ 0` (state `I/d`, POVM `I/m`, gate / mprocess Choi `1/d`, `1/(m d)`). -/
theorem psdVerdict_scalar (d : Nat) (c atol : Rat) (eigs : List Rat) (hd : 0 < d) (ha : 0 ≤ atol)
    (he : ∀ l ∈ eigs, 0 ≤ l) : psdVerdict (scalarMat d c) eigs atol = some true := by
  unfold psdVerdict
  rw [isHermitian_scalar d c atol hd ha]
  simp only [Option.bind_eq_bind, Option.bind_some, Bool.true_and, Option.some.injEq]
  exact (psdEig_iff eigs atol ha).2 fun l hl => by have := he l hl; linarith

/-! ## the two branches of gate.is_tp -/

/-- C01.3 the two branches of `gate.is_tp` under the ONH0 hypothesis (traces `(τ,0,…,0)`, `τ = Tr B₀ > 0`):
the per-basis trace test at tolerance `τ·a` is the first-row test at tolerance `a` — the trace defect is `τ = √d`
times the first-row defect; in particular both are the exact TP condition at tolerance 0. -/
theorem tp_branches_relation (n : Nat) (hs : List Rat) (τ a : Rat) (hτ : 0 < τ) :
    tpTrace n (onh0Traces τ n) hs (τ * a) = tpRow n hs a := by
  have hrt : gate_is_tp_trace_rtol = 0 := by decide
  have hrr : gate_is_tp_row_rtol = 0 := by decide
  unfold tpTrace tpRow
  by_cases hn : n = 0
  · subst hn; simp [onh0Traces]
  by_cases hl : hs.length = n * n
  swap
  · simp [hl]
  have hnpos : 0 < n := Nat.pos_of_ne_zero hn
  have htl : (onh0Traces τ n).length = n := by simp [onh0Traces]; omega
  simp only [hl, htl, ne_eq, not_true_eq_false, Bool.false_or, decide_false, Bool.false_eq_true, ↓reduceIte,
    hn, Bool.or_self, decide_false]
  -- every column test is the corresponding first-row entry test
  have hF : ∀ c ∈ List.range n,
      (do
        let col ← (List.range n).mapM fun b => hs[b * n + c]?
        let after : C := ((col.zip (onh0Traces τ n)).foldl (fun acc (p : Rat × C) => acc + p.1 * p.2.1) 0,
                          (col.zip (onh0Traces τ n)).foldl (fun acc (p : Rat × C) => acc + p.1 * p.2.2) 0)
        let before ← (onh0Traces τ n)[c]?
        isCloseCC after before (τ * a) gate_is_tp_trace_rtol) =
      some (isClose (hs.getD c 0) (if c = 0 then 1 else 0) a 0) := by
    intro c hc
    rw [List.mem_range] at hc
    have hcol : (List.range n).mapM (fun b => hs[b * n + c]?) = some ((List.range n).map fun b => hs.getD (b * n + c) 0) := by
      apply mapM_some_map
      intro b hb
      rw [List.mem_range] at hb
      have : b * n + c < hs.length := by
        rw [hl]
        calc b * n + c < b * n + n := by omega
          _ = (b + 1) * n := by ring
          _ ≤ n * n := Nat.mul_le_mul_right _ hb
      simp [List.getD_eq_getElem?_getD, List.getElem?_eq_getElem this]
    obtain ⟨k, rfl⟩ : ∃ k, n = k + 1 := ⟨n - 1, by omega⟩
    have hbefore : (onh0Traces τ (k + 1))[c]? = some (τ * (if c = 0 then 1 else 0), 0) := by
      unfold onh0Traces
      cases c with
      | zero => simp
      | succ c =>
        simp only [Nat.add_sub_cancel, List.getElem?_cons_succ, Nat.succ_ne_zero, ↓reduceIte, mul_zero]
        rw [List.getElem?_replicate]; simp; omega
    rw [hcol, hbefore]
    simp only [Option.bind_eq_bind, Option.bind_some, List.range_succ_eq_map, List.map_cons, onh0Traces,
      Nat.add_sub_cancel, List.zip_cons_cons, List.foldl_cons, foldl_zip_zeros1, foldl_zip_zeros2, hrt,
      Nat.zero_mul, Nat.zero_add, mul_zero, add_zero]
    exact closeCC_scaled _ _ τ a hτ
  rw [List.map_congr_left hF, allSome_map_some]
  congr 1
  -- both sides quantify over the first n entries
  rw [Bool.eq_iff_iff, List.all_eq_true, List.all_eq_true]
  simp only [hrr]
  constructor
  · intro h p hp
    rw [List.mem_zipIdx_iff_getElem?, List.getElem?_take] at hp
    split at hp
    · rename_i hlt
      have := h p.2 (List.mem_range.2 hlt)
      rw [List.getD_eq_getElem?_getD, hp] at this
      exact this
    · cases hp
  · intro h c hc
    rw [List.mem_range] at hc
    have hcl : c < hs.length := by rw [hl]; exact lt_of_lt_of_le hc (Nat.le_mul_of_pos_left _ hnpos)
    have := h (hs[c], c) (by
      rw [List.mem_zipIdx_iff_getElem?, List.getElem?_take, if_pos hc, List.getElem?_eq_getElem hcl])
    simpa [List.getD_eq_getElem?_getD, List.getElem?_eq_getElem hcl] using this

/-! ## the hypotheses are satisfiable / concrete instances -/

example : tpTrace 2 (onh0Traces 2 2) [1, 0, 0, 1/2] 0 = some true := by decide +kernel
example : psdVerdict (scalarMat 2 (1/2)) [1/2, 1/2] 0 = some true := by decide +kernel
example : physicalArgs (fun t => decide (1/1000 ≤ t)) (fun t => decide (1/1000 ≤ t)) (some (1/100)) none (1/10000000000000) = false := by decide +kernel


example : stateTraceOne ⟨2, [(1/2, 0), (0, 0), (0, 0), (1/2, 0)]⟩ (1 / 10000000000000) = some true := by decide +kernel
example : (⟨2, [(1/2, 0), (0, 0), (0, 0), (1/2, 0)]⟩ : CMat).trace = some (1, 0) := by decide +kernel
example : isHermitian ⟨2, [(1/2, 0), (1/4, 1/8), (1/4, -1/8), (1/2, 0)]⟩ 0 = some true := by decide +kernel
example : psdEig [-1/100000000000000, 0, 1/2] (1 / 10000000000000) = true := by decide +kernel
example : psdEig [-1/1000000000000, 1/2] (1 / 10000000000000) = false := by decide +kernel
example : tpRow 2 [1, 0, 0, 1/2] 0 = some true := by decide +kernel
example : tpRow 2 [1, 1/1000000, 0, 1/2] (1 / 10000000000000) = some false := by decide +kernel
example : mk true false = Ctor.notPhysical := by decide
/-- the current tree: a trace of 1 + 5·10⁻⁶ is "trace one" at atol 10⁻¹³ with the default relative tolerance -/
example : isCloseCR (1 + 5 / 1000000, 0) 1 (1 / 10000000000000) (mkRat 1 100000) = true := by decide +kernel

end QM.C01
