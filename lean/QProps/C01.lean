import QProofs.C01
/-!
# C01 — physicality verdicts match the mathematical definitions at the given tolerance: property theorems

The relative tolerances `QGen.C01.*_rtol` and `settings_atol` are GENERATED from the Python source on every run.
Sites generated with `rtol = 0` (gate.is_tp both branches, matrix_util.is_hermitian / is_positive_semidefinite) carry
exact `verdict ↔ defect ≤ atol` theorems that only type-check while the source keeps `rtol=0.0`.
`State.is_trace_one` and `Povm.is_identity_sum` are generated with numpy's default `1e-5` on the current tree
(defect D1): for them the exact statement is proved to be EQUIVALENT to `rtol = 0`, the verdict is characterised with
the slack, and the default slack is refuted by a concrete witness (trace 1 + 5·10⁻⁶ at atol 10⁻¹³).
All statements are for arbitrary sizes and values (ℚ, the executed instance). The PSD link to Mathlib's `PosSemidef` is stated as a
sandwich under an `ε`-accuracy contract for `np.linalg.eigvalsh` (`EigApprox`), since a rational eigenvalue list cannot equal an
irrational spectrum; POVM and measurement-process verdicts, monotonicity and the constructor clause are stated on the executed composite
functions (`povmPhysical`, `mpPhysical`, …).
-/
open QGen.C01
namespace QM.C01

/-! ## clause "the absolute tolerance given by the caller is the only slack" -/

/-- C01.1 numpy closeness is `|a − b| ≤ atol + rtol·|b|`; with `rtol = 0` it is exactly `defect ≤ atol`. -/
theorem isClose_exact (a b atol : Rat) : isClose a b atol 0 = true ↔ |a - b| ≤ atol :=
  isClose_zero_rtol a b atol

/-- C01.1 State.is_trace_one for a density matrix with (real) trace `x`: the verdict as it is on the current tree —
true exactly when `|x − 1| ≤ atol + (generated rtol)·|1|`. -/
theorem traceOne_verdict_iff (rho : CMat) (x atol : Rat) (h : rho.trace = some (x, 0)) :
    stateTraceOne rho atol = some true ↔ |x - 1| ≤ atol + state_is_trace_one_rtol := by
  unfold stateTraceOne
  rw [h]
  simp only [Option.bind_eq_bind, Option.bind_some, Option.some.injEq, isCloseCR_real, isClose_iff]
  simp

/-- C01.1 State.is_trace_one is the exact test `|tr ρ − 1| ≤ atol` for every trace and tolerance IF AND ONLY IF the
generated relative tolerance is 0. (On the current tree it is 1e-5: defect D1.) -/
theorem traceOne_exact_iff_rtol_zero :
    (∀ x atol : Rat, 0 ≤ atol → (isCloseCR (x, 0) 1 atol state_is_trace_one_rtol = true ↔ |x - 1| ≤ atol)) ↔
      state_is_trace_one_rtol = 0 := by
  simp only [isCloseCR_real]
  exact exact_iff_rtol_zero _ (by decide)

/-- C01.1 Povm.is_identity_sum, diagonal entries (reference value 1): exact iff the generated rtol is 0. -/
theorem identitySum_exact_iff_rtol_zero :
    (∀ x atol : Rat, 0 ≤ atol → (isCloseCR (x, 0) 1 atol povm_is_identity_sum_rtol = true ↔ |x - 1| ≤ atol)) ↔
      povm_is_identity_sum_rtol = 0 := by
  simp only [isCloseCR_real]
  exact exact_iff_rtol_zero _ (by decide)

/-- D1 negation witness, independent of the source: with numpy's default `rtol = 1e-5` a trace of `1 + 5·10⁻⁶`
is accepted at `atol = 10⁻¹³` although its defect exceeds the tolerance. -/
theorem numpy_default_rtol_fails :
    ¬ (∀ x atol : Rat, 0 ≤ atol → (isCloseCR (x, 0) 1 atol (mkRat 1 100000) = true ↔ |x - 1| ≤ atol)) := by
  intro h
  have h1 := (h (1 + 5 / 1000000) (1 / 10000000000000) (by norm_num)).1 (by decide +kernel)
  rw [abs_le] at h1
  norm_num at h1

/-- D1 on the generated constants: whenever the source leaves the default relative tolerance in
State.is_trace_one, the exact statement fails (holds vacuously once the source passes `rtol=0.0`). -/
theorem traceOne_exact_fails_of_default_rtol (h : state_is_trace_one_rtol = mkRat 1 100000) :
    ¬ (∀ x atol : Rat, 0 ≤ atol → (isCloseCR (x, 0) 1 atol state_is_trace_one_rtol = true ↔ |x - 1| ≤ atol)) := by
  rw [h]; exact numpy_default_rtol_fails

theorem identitySum_exact_fails_of_default_rtol (h : povm_is_identity_sum_rtol = mkRat 1 100000) :
    ¬ (∀ x atol : Rat, 0 ≤ atol → (isCloseCR (x, 0) 1 atol povm_is_identity_sum_rtol = true ↔ |x - 1| ≤ atol)) := by
  rw [h]; exact numpy_default_rtol_fails

/-- C01.1 gate.is_tp, first-row branch (generated `rtol = 0`): the verdict is exactly
"every entry of the first HS row is within `atol` of `e₀`". -/
theorem tp_row_iff (n : Nat) (hs : List Rat) (atol : Rat) (v : Bool) (h : tpRow n hs atol = some v) :
    v = true ↔ ∀ p ∈ (hs.take n).zipIdx, |p.1 - (if p.2 = 0 then 1 else 0)| ≤ atol :=
  tpRow_iff n hs atol v h

/-- C01.4 eigenvalue part of matrix_util.is_positive_semidefinite (generated `rtol = 0`): "eigenvalues within `atol`
of 0 are ignored, the rest must be ≥ 0" is exactly "every eigenvalue ≥ −atol". -/
theorem psdVerdict_eigs_iff (eigs : List Rat) (atol : Rat) (h : 0 ≤ atol) :
    psdEig eigs atol = true ↔ ∀ l ∈ eigs, -atol ≤ l :=
  psdEig_iff eigs atol h

/-- C01.4 the PSD verdict is "Hermitian within atol" and the eigenvalue test. -/
theorem psdVerdict_iff (M : CMat) (eigs : List Rat) (atol : Rat) (hl : eigs.length = M.d)
    (hM : isHermitian M atol = some true) (h : 0 ≤ atol) :
    psdVerdict M eigs atol = some true ↔ ∀ l ∈ eigs, -atol ≤ l := by
  rw [psdVerdict_true_iff, ← psdEig_iff eigs atol h]
  simp [hl, hM]

section spectral
open Matrix
open scoped ComplexOrder
variable {n : Type*} [Fintype n] [DecidableEq n]
/-- C01.4, idealised special case (`_partial`: it needs the RATIONAL list `eigs` to be exactly the real spectrum, which holds only for
matrices with rational eigenvalues; the general statement with an `ε`-accurate list is `psdVerdict_eigs_sandwich`):
the eigenvalue test of `is_positive_semidefinite` decides positive semidefiniteness of `M + atol•1`:
for a Hermitian complex matrix `M` whose (Mathlib) eigenvalues are exactly the values of the model's parameter list
`eigs` (the contract of `np.linalg.eigvalsh`), `psdEig eigs atol ⇔ PosSemidef (M + atol•1)`. -/
theorem psdVerdict_eigs_iff_posSemidef_exact_partial (M : Matrix n n ℂ) (hM : M.IsHermitian) (eigs : List ℚ) (atol : ℚ)
    (ha : 0 ≤ atol)
    (heig : ∀ x : ℝ, (∃ l ∈ eigs, ((l : ℚ) : ℝ) = x) ↔ ∃ i, hM.eigenvalues i = x) :
    psdEig eigs atol = true ↔ (M + (((atol : ℚ) : ℝ) : ℂ) • (1 : Matrix n n ℂ)).PosSemidef := by
  rw [psdEig_iff eigs atol ha]
  have := eigenvalues_ge_neg_iff_posSemidef (𝕜 := ℂ) hM ((atol : ℚ) : ℝ)
  simp only [Complex.coe_algebraMap] at this
  rw [← this]
  constructor
  · intro h i
    obtain ⟨l, hl, hlx⟩ := (heig (hM.eigenvalues i)).2 ⟨i, rfl⟩
    have := h l hl
    rw [← hlx]; exact_mod_cast this
  · intro h l hl
    obtain ⟨i, hi⟩ := (heig l).1 ⟨l, hl, rfl⟩
    have := h i
    rw [hi] at this; exact_mod_cast this

example : psdEig [0, 0] (1 / 10) = true ↔
    ((0 : Matrix (Fin 2) (Fin 2) ℂ) + ((((1 / 10 : ℚ)) : ℝ) : ℂ) • (1 : Matrix (Fin 2) (Fin 2) ℂ)).PosSemidef := by
  have hM : (0 : Matrix (Fin 2) (Fin 2) ℂ).IsHermitian := isHermitian_zero
  have h0 : hM.eigenvalues = 0 := hM.eigenvalues_eq_zero_iff.2 rfl
  refine psdVerdict_eigs_iff_posSemidef_exact_partial 0 hM [0, 0] (1 / 10) (by norm_num) ?_
  intro x
  simp [h0, eq_comm]
end spectral

/-! ## clause "loosening the tolerance never turns a true verdict false" (any generated rtol) -/

/-- C01.2 -/
theorem isClose_atol_mono (a b atol atol' rtol : Rat) (h : atol ≤ atol') (hc : isClose a b atol rtol = true) :
    isClose a b atol' rtol = true := isClose_mono a b atol atol' rtol h hc

theorem traceOne_mono (rho : CMat) (atol atol' : Rat) (h : atol ≤ atol')
    (hc : stateTraceOne rho atol = some true) : stateTraceOne rho atol' = some true :=
  stateTraceOne_mono rho atol atol' h hc

theorem identitySum_mono (S : CMat) (atol atol' : Rat) (h : atol ≤ atol')
    (hc : povmIdentitySum S atol = some true) : povmIdentitySum S atol' = some true :=
  povmIdentitySum_mono S atol atol' h hc

theorem tp_row_mono (n : Nat) (hs : List Rat) (atol atol' : Rat) (h : atol ≤ atol')
    (hc : tpRow n hs atol = some true) : tpRow n hs atol' = some true :=
  tpRow_mono n hs atol atol' h hc

theorem psdEig_atol_mono (eigs : List Rat) (atol atol' : Rat) (h : atol ≤ atol')
    (hc : psdEig eigs atol = true) : psdEig eigs atol' = true := psdEig_mono eigs atol atol' h hc

/-- entries of the Hermiticity / generic-basis TP tests (complex against complex, generated `rtol = 0`) -/
theorem closeCC_mono (a b : C) (atol atol' rtol : Rat) (h : atol ≤ atol')
    (hc : isCloseCC a b atol rtol = some true) : isCloseCC a b atol' rtol = some true :=
  isCloseCC_mono a b atol atol' rtol h hc

/-! ## clause "physical = equality verdict ∧ inequality verdict", "constructor raises iff not physical" -/

/-- C01.5 -/
theorem physical_eq_and (a b : Bool) : physical a b = true ↔ a = true ∧ b = true := physical_iff a b

/-- C01.5 with exactly one tolerance given, the other sub-verdict is taken at the global setting — independently:
`is_physical(atol_eq_const=a)` is `eq(a) ∧ ineq(global)`, `is_physical(atol_ineq_const=a)` is `eq(global) ∧ ineq(a)`. -/
theorem physical_one_tolerance (eq ineq : Rat → Bool) (a g : Rat) :
    (physicalArgs eq ineq (some a) none g = true ↔ eq a = true ∧ ineq g = true) ∧
    (physicalArgs eq ineq none (some a) g = true ↔ eq g = true ∧ ineq a = true) ∧
    (physicalArgs eq ineq none none g = true ↔ eq g = true ∧ ineq g = true) := by
  simp [physicalArgs, is_physical, resolveTol]

theorem statePhysical_iff (rho : CMat) (eigs : List Rat) (ae ai : Rat) :
    statePhysical rho eigs ae ai = some true ↔
      stateTraceOne rho ae = some true ∧ psdVerdict rho eigs ai = some true := by
  unfold statePhysical
  cases h1 : stateTraceOne rho ae with
  | none => simp
  | some a =>
    cases h2 : psdVerdict rho eigs ai with
    | none => simp
    | some b => simp [physical]

theorem gatePhysical_iff (onh0 : Bool) (n : Nat) (t : List C) (hs : List Rat) (choi : CMat)
    (eigs : List Rat) (ae ai : Rat) :
    gatePhysical onh0 n t hs choi eigs ae ai = some true ↔
      isTp onh0 n t hs ae = some true ∧ psdVerdict choi eigs ai = some true := by
  unfold gatePhysical
  cases h1 : isTp onh0 n t hs ae with
  | none => simp
  | some a =>
    cases h2 : psdVerdict choi eigs ai with
    | none => simp
    | some b => simp [physical]

/-- C01.5 the constructor succeeds exactly when physicality is not required or the object is physical. -/
theorem mk_ok_iff_physical (req phys : Bool) : mk req phys = Ctor.ok ↔ (req = true → phys = true) :=
  mk_ok_iff req phys

theorem mk_raises_iff (req phys : Bool) : mk req phys = Ctor.notPhysical ↔ (req = true ∧ phys = false) := by
  cases req <;> cases phys <;> simp [mk, mkWith, state_ctor_raises]

/-! ## POVM and measurement process: the executed verdict functions -/

/-- C01 POVM equality verdict (`Povm.is_identity_sum`) on the executed function: true exactly when EVERY entry `S_k` of the summed
matrix is within `atol + rtol·|δ_k|` of the identity entry `δ_k` (modulus compared squared). Off-diagonal entries (`δ_k = 0`) are
tested exactly at `atol`; only the diagonal ones get the generated relative slack (D1). -/
theorem povmIdentitySum_iff (S : CMat) (atol : Rat) (hok : S.ok = true) (hd : S.d ≠ 0) :
    povmIdentitySum S atol = some true ↔
      ∀ p ∈ S.e.zipIdx, isCloseCR p.1 (delta S.d p.2) atol povm_is_identity_sum_rtol = true := by
  unfold povmIdentitySum
  simp only [hok, Bool.not_true, Bool.false_or, decide_eq_true_eq, hd, ↓reduceIte, Option.some.injEq, List.all_eq_true]

/-- off-diagonal entries of the summed matrix are tested exactly: `|S_k| ≤ atol` (no relative slack there) -/
theorem povmIdentitySum_offdiag_exact (z : C) (atol : Rat) (ha : 0 ≤ atol) :
    isCloseCR z 0 atol povm_is_identity_sum_rtol = true ↔ z.1 * z.1 + z.2 * z.2 ≤ atol * atol := by
  rw [isCloseCR_iff]; simp [ha]

/-- C01 POVM inequality verdict on the executed function: every element passes `is_positive_semidefinite`. -/
theorem povmPsd_iff (Ms : List CMat) (eigss : List (List Rat)) (atol : Rat) :
    povmPsd Ms eigss atol = some true ↔
      Ms.length = eigss.length ∧ ∀ p ∈ Ms.zip eigss, psdVerdict p.1 p.2 atol = some true :=
  povmPsd_true_iff Ms eigss atol

/-- C01 POVM: physical = identity-sum verdict ∧ every element PSD verdict. -/
theorem povmPhysical_iff (S : CMat) (Ms : List CMat) (eigss : List (List Rat)) (ae ai : Rat) :
    povmPhysical S Ms eigss ae ai = some true ↔
      povmIdentitySum S ae = some true ∧ povmPsd Ms eigss ai = some true := by
  unfold povmPhysical; exact physical_do_iff _ _

/-- C01 measurement process equality verdict: `is_sum_tp` is `gate.is_tp` of the entrywise sum of the HS matrices. -/
theorem mpSumTp_eq (onh0 : Bool) (n : Nat) (t : List C) (hss : List (List Rat)) (atol : Rat)
    (h : ∀ hs ∈ hss, hs.length = n * n) : mpSumTp onh0 n t hss atol = isTp onh0 n t (sumHss n hss) atol := by
  unfold mpSumTp
  rw [if_neg]
  simp only [List.any_eq_true, decide_eq_true_eq, not_exists, not_and, not_not]
  exact h

/-- C01 measurement process inequality verdict: every outcome's Choi matrix passes `is_positive_semidefinite` (`is_cp` per outcome). -/
theorem mpCp_iff (chois : List CMat) (eigss : List (List Rat)) (atol : Rat) :
    mpCp chois eigss atol = some true ↔
      chois.length = eigss.length ∧ ∀ p ∈ chois.zip eigss, psdVerdict p.1 p.2 atol = some true :=
  povmPsd_true_iff chois eigss atol

/-- C01 measurement process: physical = sum-TP verdict ∧ every outcome CP verdict. -/
theorem mpPhysical_iff (onh0 : Bool) (n : Nat) (t : List C) (hss : List (List Rat)) (chois : List CMat)
    (eigss : List (List Rat)) (ae ai : Rat) :
    mpPhysical onh0 n t hss chois eigss ae ai = some true ↔
      mpSumTp onh0 n t hss ae = some true ∧ mpCp chois eigss ai = some true := by
  unfold mpPhysical; exact physical_do_iff _ _

/-! ## monotonicity of the composite verdicts (the ones the driver compares) -/

/-- C01.2 `is_hermitian`, `is_positive_semidefinite`, `gate.is_tp` (both branches), `is_sum_tp`, per-element PSD / per-outcome CP. -/
theorem subverdicts_mono (a a' : Rat) (h : a ≤ a') :
    (∀ M, isHermitian M a = some true → isHermitian M a' = some true) ∧
    (∀ M eigs, psdVerdict M eigs a = some true → psdVerdict M eigs a' = some true) ∧
    (∀ onh0 n t hs, isTp onh0 n t hs a = some true → isTp onh0 n t hs a' = some true) ∧
    (∀ onh0 n t hss, mpSumTp onh0 n t hss a = some true → mpSumTp onh0 n t hss a' = some true) ∧
    (∀ Ms eigss, povmPsd Ms eigss a = some true → povmPsd Ms eigss a' = some true) :=
  ⟨fun M => isHermitian_mono M a a' h, fun M e => psdVerdict_mono M e a a' h,
   fun o n t hs => isTp_mono o n t hs a a' h, fun o n t hss => mpSumTp_mono o n t hss a a' h,
   fun Ms e => povmPsd_mono Ms e a a' h⟩

/-- C01.2 the physicality verdict of all four types: loosening either tolerance never turns a true verdict false. -/
theorem physical_mono (ae ae' ai ai' : Rat) (he : ae ≤ ae') (hi : ai ≤ ai') :
    (∀ rho eigs, statePhysical rho eigs ae ai = some true → statePhysical rho eigs ae' ai' = some true) ∧
    (∀ S Ms eigss, povmPhysical S Ms eigss ae ai = some true → povmPhysical S Ms eigss ae' ai' = some true) ∧
    (∀ onh0 n t hs choi eigs, gatePhysical onh0 n t hs choi eigs ae ai = some true →
      gatePhysical onh0 n t hs choi eigs ae' ai' = some true) ∧
    (∀ onh0 n t hss chois eigss, mpPhysical onh0 n t hss chois eigss ae ai = some true →
      mpPhysical onh0 n t hss chois eigss ae' ai' = some true) := by
  refine ⟨?_, ?_, ?_, ?_⟩
  · intro rho eigs hv
    rw [statePhysical_iff] at *
    exact ⟨stateTraceOne_mono rho ae ae' he hv.1, psdVerdict_mono rho eigs ai ai' hi hv.2⟩
  · intro S Ms eigss hv
    rw [povmPhysical_iff] at *
    exact ⟨povmIdentitySum_mono S ae ae' he hv.1, povmPsd_mono Ms eigss ai ai' hi hv.2⟩
  · intro onh0 n t hs choi eigs hv
    rw [gatePhysical_iff] at *
    exact ⟨isTp_mono onh0 n t hs ae ae' he hv.1, psdVerdict_mono choi eigs ai ai' hi hv.2⟩
  · intro onh0 n t hss chois eigss hv
    rw [mpPhysical_iff] at *
    exact ⟨mpSumTp_mono onh0 n t hss ae ae' he hv.1, povmPsd_mono chois eigss ai ai' hi hv.2⟩

/-! ## constructor tied to the verdict at the global tolerance -/

/-- C01.5 the constructor outcome as a function of the ACTUAL verdict `is_physical()` (both tolerances the generated global
`settings_atol`): for a state with density matrix `rho` the constructor succeeds exactly when physicality is not required or the
verdict at `settings_atol` is true; it raises exactly when required and the verdict is false (same for the other three types with
their verdict functions and generated guards). -/
theorem state_ctor_iff (req : Bool) (rho : CMat) (eigs : List Rat) (v : Bool)
    (hv : statePhysical rho eigs settings_atol settings_atol = some v) :
    (mk req v = Ctor.ok ↔ (req = true → statePhysical rho eigs settings_atol settings_atol = some true)) ∧
    (mk req v = Ctor.notPhysical ↔ (req = true ∧ statePhysical rho eigs settings_atol settings_atol = some false)) := by
  rw [hv]; cases req <;> cases v <;> simp [mk, mkWith, state_ctor_raises]

theorem gate_ctor_iff (req onh0 : Bool) (n : Nat) (t : List C) (hs : List Rat) (choi : CMat) (eigs : List Rat) (v : Bool)
    (hv : gatePhysical onh0 n t hs choi eigs settings_atol settings_atol = some v) :
    (mkGate req v = Ctor.ok ↔ (req = true → gatePhysical onh0 n t hs choi eigs settings_atol settings_atol = some true)) ∧
    (mkGate req v = Ctor.notPhysical ↔
      (req = true ∧ gatePhysical onh0 n t hs choi eigs settings_atol settings_atol = some false)) := by
  rw [hv]; cases req <;> cases v <;> simp [mkGate, mkWith, gate_ctor_raises]

theorem povm_ctor_iff (req : Bool) (S : CMat) (Ms : List CMat) (eigss : List (List Rat)) (v : Bool)
    (hv : povmPhysical S Ms eigss settings_atol settings_atol = some v) :
    (mkPovm req v = Ctor.ok ↔ (req = true → povmPhysical S Ms eigss settings_atol settings_atol = some true)) ∧
    (mkPovm req v = Ctor.notPhysical ↔ (req = true ∧ povmPhysical S Ms eigss settings_atol settings_atol = some false)) := by
  rw [hv]; cases req <;> cases v <;> simp [mkPovm, mkWith, povm_ctor_raises]

theorem mprocess_ctor_iff (req onh0 : Bool) (n : Nat) (t : List C) (hss : List (List Rat)) (chois : List CMat)
    (eigss : List (List Rat)) (v : Bool)
    (hv : mpPhysical onh0 n t hss chois eigss settings_atol settings_atol = some v) :
    (mkMProcess req v = Ctor.ok ↔
      (req = true → mpPhysical onh0 n t hss chois eigss settings_atol settings_atol = some true)) ∧
    (mkMProcess req v = Ctor.notPhysical ↔
      (req = true ∧ mpPhysical onh0 n t hss chois eigss settings_atol settings_atol = some false)) := by
  rw [hv]; cases req <;> cases v <;> simp [mkMProcess, mkWith, mprocess_ctor_raises]

/-! ## D1 on the current tree, closed form -/

/-- D1 (open known finding) as a closed negation witness on the constants generated from the CURRENT source:
`State.is_trace_one` is not the exact test `|tr ρ − 1| ≤ atol`. This theorem stops type-checking when the source passes `rtol=0.0`. -/
theorem traceOne_exact_fails :
    ¬ (∀ x atol : Rat, 0 ≤ atol → (isCloseCR (x, 0) 1 atol state_is_trace_one_rtol = true ↔ |x - 1| ≤ atol)) :=
  traceOne_exact_fails_of_default_rtol (by decide +kernel)

/-- D1, POVM twin: `Povm.is_identity_sum` is not the exact test on the diagonal entries of the summed matrix. -/
theorem identitySum_exact_fails :
    ¬ (∀ x atol : Rat, 0 ≤ atol → (isCloseCR (x, 0) 1 atol povm_is_identity_sum_rtol = true ↔ |x - 1| ≤ atol)) :=
  identitySum_exact_fails_of_default_rtol (by decide +kernel)

example : povmIdentitySum ⟨2, [(1, 0), (0, 1/100), (0, -1/100), (1, 0)]⟩ (1/10) = some true := by decide +kernel
example : povmPhysical ⟨2, [(1, 0), (0, 0), (0, 0), (1, 0)]⟩
    [⟨2, [(1/2, 0), (0, 0), (0, 0), (1/2, 0)]⟩, ⟨2, [(1/2, 0), (0, 0), (0, 0), (1/2, 0)]⟩] [[1/2, 1/2], [1/2, 1/2]] 0 0 = some true := by
  decide +kernel
example : mpSumTp true 2 [] [[1/2, 0, 0, 1/4], [1/2, 0, 0, 1/4]] 0 = some true := by decide +kernel

section bridge
open Matrix
open scoped ComplexOrder
/-! ## PSD verdict on the matrix, under the ε-contract of `eigvalsh` (sandwich) -/

/-- C01.4 eigenvalue test vs positive semidefiniteness with an eigenvalue list that is only `ε`-accurate (rational floats against
a possibly irrational spectrum): test true ⇒ `M + (atol+ε)•1` PSD, and `M + (atol−ε)•1` PSD ⇒ test true. -/
theorem psdVerdict_eigs_sandwich {n : Type*} [Fintype n] [DecidableEq n] (M : Matrix n n ℂ) (hM : M.IsHermitian)
    (eigs : List ℚ) (atol : ℚ) (ε : ℝ) (ha : 0 ≤ atol) (hap : EigApprox hM eigs ε) :
    (psdEig eigs atol = true → (M + ((((atol : ℚ) : ℝ) + ε : ℝ) : ℂ) • (1 : Matrix n n ℂ)).PosSemidef) ∧
    ((M + ((((atol : ℚ) : ℝ) - ε : ℝ) : ℂ) • (1 : Matrix n n ℂ)).PosSemidef → psdEig eigs atol = true) :=
  ⟨psdEig_sound M hM eigs atol ε ha hap, psdEig_complete M hM eigs atol ε ha hap⟩

/-- C01.4 `is_positive_semidefinite` on the model matrix (exactly Hermitian `M`, one eigenvalue per row, `ε`-accurate `eigvalsh`). -/
theorem psdVerdict_sandwich_matrix (M : CMat) (eigs : List ℚ) (atol : ℚ) (ε : ℝ) (hok : M.ok = true)
    (hl : eigs.length = M.d) (ha : 0 ≤ atol) (hH : M.toMatrix.IsHermitian) (hap : EigApprox hH eigs ε) :
    (psdVerdict M eigs atol = some true →
        (M.toMatrix + ((((atol : ℚ) : ℝ) + ε : ℝ) : ℂ) • (1 : Matrix (Fin M.d) (Fin M.d) ℂ)).PosSemidef) ∧
    ((M.toMatrix + ((((atol : ℚ) : ℝ) - ε : ℝ) : ℂ) • (1 : Matrix (Fin M.d) (Fin M.d) ℂ)).PosSemidef →
        psdVerdict M eigs atol = some true) := by
  have hh := isHermitian_of_toMatrix M atol hok ha hH
  constructor
  · intro hv
    exact psdEig_sound _ hH eigs atol ε ha hap ((psdVerdict_true_iff M eigs atol).1 hv).2.2
  · intro hp
    exact (psdVerdict_true_iff M eigs atol).2 ⟨hl, hh, psdEig_complete _ hH eigs atol ε ha hap hp⟩

/-- C01 state, on the matrix: physical ⇒ unit trace within the (generated) slack ∧ `ρ + (atol+ε)•1` PSD; and conversely with `atol−ε`. -/
theorem statePhysical_sandwich_matrix (rho : CMat) (eigs : List ℚ) (x ae ai : ℚ) (ε : ℝ) (hok : rho.ok = true)
    (hl : eigs.length = rho.d) (ha : 0 ≤ ai) (htr : rho.trace = some (x, 0)) (hH : rho.toMatrix.IsHermitian)
    (hap : EigApprox hH eigs ε) :
    (statePhysical rho eigs ae ai = some true →
      |x - 1| ≤ ae + state_is_trace_one_rtol ∧
      (rho.toMatrix + ((((ai : ℚ) : ℝ) + ε : ℝ) : ℂ) • (1 : Matrix (Fin rho.d) (Fin rho.d) ℂ)).PosSemidef) ∧
    (|x - 1| ≤ ae + state_is_trace_one_rtol ∧
      (rho.toMatrix + ((((ai : ℚ) : ℝ) - ε : ℝ) : ℂ) • (1 : Matrix (Fin rho.d) (Fin rho.d) ℂ)).PosSemidef →
      statePhysical rho eigs ae ai = some true) := by
  have hs := psdVerdict_sandwich_matrix rho eigs ai ε hok hl ha hH hap
  rw [statePhysical_iff, traceOne_verdict_iff rho x ae htr]
  exact ⟨fun h => ⟨h.1, hs.1 h.2⟩, fun h => ⟨h.1, hs.2 h.2⟩⟩

/-- C01 gate, on the Choi matrix: physical ⇒ TP verdict ∧ `Choi + (atol+ε)•1` PSD; and conversely with `atol−ε`. -/
theorem gatePhysical_sandwich_matrix (onh0 : Bool) (n : Nat) (t : List C) (hs : List Rat) (choi : CMat) (eigs : List ℚ)
    (ae ai : ℚ) (ε : ℝ) (hok : choi.ok = true) (hl : eigs.length = choi.d) (ha : 0 ≤ ai)
    (hH : choi.toMatrix.IsHermitian) (hap : EigApprox hH eigs ε) :
    (gatePhysical onh0 n t hs choi eigs ae ai = some true →
      isTp onh0 n t hs ae = some true ∧
      (choi.toMatrix + ((((ai : ℚ) : ℝ) + ε : ℝ) : ℂ) • (1 : Matrix (Fin choi.d) (Fin choi.d) ℂ)).PosSemidef) ∧
    (isTp onh0 n t hs ae = some true ∧
      (choi.toMatrix + ((((ai : ℚ) : ℝ) - ε : ℝ) : ℂ) • (1 : Matrix (Fin choi.d) (Fin choi.d) ℂ)).PosSemidef →
      gatePhysical onh0 n t hs choi eigs ae ai = some true) := by
  have hs' := psdVerdict_sandwich_matrix choi eigs ai ε hok hl ha hH hap
  rw [gatePhysical_iff]
  exact ⟨fun h => ⟨h.1, hs'.1 h.2⟩, fun h => ⟨h.1, hs'.2 h.2⟩⟩

/-! non-vacuity: the mixed qubit state `diag(2/3, 1/3)` with a float-like eigenvalue list `[0.333, 0.667]` (ε = 10⁻³) -/

/-- the sandwich theorem instantiated: this state is judged physical at atol 10⁻² and `ρ + (10⁻² + 10⁻³)•1` is PSD -/
example : statePhysical exRho [333/1000, 667/1000] (1/100) (1/100) = some true ∧
    (exRho.toMatrix + ((((1/100 : ℚ) : ℝ) + 1/1000 : ℝ) : ℂ) • (1 : Matrix (Fin 2) (Fin 2) ℂ)).PosSemidef := by
  have hv : statePhysical exRho [333/1000, 667/1000] (1/100) (1/100) = some true := by decide +kernel
  have := (statePhysical_sandwich_matrix exRho [333/1000, 667/1000] 1 (1/100) (1/100) (1/1000) (by decide) (by decide)
    (by norm_num) (by decide +kernel) exRho_hermitian exRho_eigApprox).1 hv
  exact ⟨hv, this.2⟩
end bridge

/-! ## decision wiring regenerated from the source (`QGen.C01`): a source edit of these expressions re-opens the proofs -/

/-- C01.5 on the GENERATED `QOperation.is_physical`: it is the conjunction of the equality verdict at the (optional)
equality tolerance and the inequality verdict at the (optional) inequality tolerance — each handed on unchanged. -/
theorem generated_is_physical_iff (eq ineq : Option Rat → Bool) (ae ai : Option Rat) :
    is_physical eq ineq ae ai = true ↔ eq ae = true ∧ ineq ai = true := by
  simp [is_physical]

/-- C01.5 on the GENERATED constructor guards of all four types: raise ⇔ physicality required ∧ not physical
(`is_physical()` with the default tolerances). -/
theorem generated_ctor_raises_iff (req phys : Bool) :
    (state_ctor_raises req phys = true ↔ (req = true ∧ phys = false)) ∧
    (povm_ctor_raises req phys = true ↔ (req = true ∧ phys = false)) ∧
    (gate_ctor_raises req phys = true ↔ (req = true ∧ phys = false)) ∧
    (mprocess_ctor_raises req phys = true ↔ (req = true ∧ phys = false)) := by
  cases req <;> cases phys <;> simp [state_ctor_raises, povm_ctor_raises, gate_ctor_raises, mprocess_ctor_raises]

theorem mk_all_types_iff (req phys : Bool) :
    (mkPovm req phys = Ctor.ok ↔ (req = true → phys = true)) ∧
    (mkGate req phys = Ctor.ok ↔ (req = true → phys = true)) ∧
    (mkMProcess req phys = Ctor.ok ↔ (req = true → phys = true)) := by
  cases req <;> cases phys <;>
    simp [mkPovm, mkGate, mkMProcess, mkWith, povm_ctor_raises, gate_ctor_raises, mprocess_ctor_raises]

/-- C01.3 on the GENERATED basis-flag aggregation: the composite system is "orthonormal, Hermitian, identity-first"
exactly when EVERY subsystem's basis passes all four basis verdicts; and gate.is_tp uses the first-row test exactly then. -/
theorem generated_basis_flag_iff (subs : List (Bool × Bool × Bool × Bool)) :
    onh0Flag subs = true ↔ ∀ s ∈ subs, s.1 = true ∧ s.2.1 = true ∧ s.2.2.1 = true ∧ s.2.2.2 = true := by
  simp [onh0Flag, composite_flag, elemental_flag, List.all_eq_true, and_assoc]

theorem isTp_branch (onh0 : Bool) (n : Nat) (t : List C) (hs : List Rat) (atol : Rat) :
    isTp onh0 n t hs atol = if onh0 = true then tpRow n hs atol else tpTrace n t hs atol := by
  cases onh0 <;> simp [isTp, is_tp_first_row_branch]

example : onh0Flag [(true, true, true, true), (true, true, true, false)] = false := by decide
example : is_physical (fun a => a == some (1/2)) (fun a => a == none) (some (1/2)) none = true := by decide +kernel
example : gate_ctor_raises true false = true := by decide

/-! ## clause "the origin object is physical" (equality part, ∀ d, ∀ m ≥ 1, every atol ≥ 0) -/

/-- C01.6 gate origin (`hs = E₀₀`, the completely depolarising map) is trace preserving for every dimension — for identity-first
orthonormal bases (first-row branch). For other Hermitian bases the library's origin object is NOT physical (finding C01-F2:
`generate_origin_obj` writes `E₀₀` / `e₀` whatever the basis); no theorem is claimed there. -/
theorem origin_gate_tp (n : Nat) (atol : Rat) (hn : 0 < n) (ha : 0 ≤ atol) :
    tpRow n (originGate n) atol = some true := originGate_tp n atol hn ha

/-- C01.6 mprocess origin (`m` copies of `E₀₀/m`): the sum is trace preserving for every `d`, `m ≥ 1`. -/
theorem origin_mprocess_sum_tp (n m : Nat) (t : List C) (atol : Rat) (hn : 0 < n) (hm : 0 < m)
    (ha : 0 ≤ atol) : mpSumTp true n t (originMp n m) atol = some true :=
  originMp_sumTp n m t atol hn hm ha

/-- C01.6 state / POVM origin: an operator with trace exactly 1 passes the trace test at every `atol ≥ 0`
(`tr(I/d) = 1`; the float `1/np.sqrt(d)` enters only through the trace parameter). -/
theorem traceOne_of_trace_one (rho : CMat) (atol : Rat) (h : rho.trace = some (1, 0)) (ha : 0 ≤ atol) :
    stateTraceOne rho atol = some true := by
  rw [traceOne_verdict_iff rho 1 atol h]
  have : (0 : Rat) ≤ state_is_trace_one_rtol := by decide
  simp; linarith

/-- C01.6 PSD part of every origin object: non-negative eigenvalues pass at every `atol ≥ 0`. -/
theorem psdEig_of_nonneg (eigs : List Rat) (atol : Rat) (ha : 0 ≤ atol) (h : ∀ l ∈ eigs, 0 ≤ l) :
    psdEig eigs atol = true :=
  (psdEig_iff eigs atol ha).2 fun l hl => by have := h l hl; linarith

/-- C01.6 PSD part of the origin objects: the scalar matrix `c·1` (`c ≥ 0`) with ITS eigenvalue list `(c, …, c)` passes
`is_positive_semidefinite` at every `atol ≥ 0` (state `I/d`, POVM elements `I/m`, gate / mprocess Choi `1/d`, `1/(m d)`). -/
theorem psdVerdict_scalar (d : Nat) (c atol : Rat) (hd : 0 < d) (ha : 0 ≤ atol) (hc : 0 ≤ c) :
    psdVerdict (scalarMat d c) (List.replicate d c) atol = some true := by
  rw [psdVerdict_true_iff]
  refine ⟨by simp [scalarMat], isHermitian_scalar d c atol hd ha, ?_⟩
  exact (psdEig_iff _ atol ha).2 fun l hl => by rw [List.mem_replicate] at hl; rw [hl.2]; linarith

/-- C01.6 state origin: the maximally mixed operator `(1/d)·1` with its eigenvalue list is physical at every pair of tolerances ≥ 0
(trace `d·(1/d) = 1` exactly; the float `1/np.sqrt(d)` enters only through the density-matrix parameter). -/
theorem origin_state_physical (d : Nat) (ae ai : Rat) (hd : 0 < d) (hae : 0 ≤ ae) (hai : 0 ≤ ai) :
    statePhysical (scalarMat d (1 / (d : Rat))) (List.replicate d (1 / (d : Rat))) ae ai = some true := by
  have hdq : (d : Rat) ≠ 0 := by exact_mod_cast (Nat.pos_iff_ne_zero.mp hd)
  have hc : (0 : Rat) ≤ 1 / (d : Rat) := by positivity
  rw [statePhysical_iff]
  refine ⟨?_, psdVerdict_scalar d _ ai hd hai hc⟩
  apply traceOne_of_trace_one _ _ _ hae
  rw [scalarMat_trace, mul_one_div, div_self hdq]

/-- identity matrix passes the identity-sum test at every `atol ≥ 0` (POVM origin: `m` elements `(1/m)·1` sum to `1`) -/
theorem identitySum_identity (d : Nat) (atol : Rat) (hd : 0 < d) (ha : 0 ≤ atol) :
    povmIdentitySum (scalarMat d 1) atol = some true := by
  have hr : (0 : Rat) ≤ povm_is_identity_sum_rtol := by decide
  rw [povmIdentitySum_iff _ _ (by simp [CMat.ok, scalarMat]) (by simp [scalarMat]; omega)]
  intro p hp
  rw [List.mem_zipIdx_iff_getElem?] at hp
  simp only [scalarMat, List.getElem?_map] at hp
  cases hk : (List.range (d * d))[p.2]? with
  | none => rw [hk] at hp; simp at hp
  | some k =>
    rw [hk] at hp
    have hkk : k = p.2 := by
      have := List.getElem?_eq_some_iff.1 hk
      obtain ⟨h1, h2⟩ := this
      simp at h2; exact h2.symm
    simp only [Option.map_some, Option.some.injEq] at hp
    rw [← hp, hkk, isCloseCR_iff]
    unfold delta
    have hd' : (scalarMat d 1).d = d := rfl
    rw [hd']
    by_cases hdiag : p.2 / d = p.2 % d
    · simp only [hdiag, ↓reduceIte, sub_self, mul_zero, add_zero, abs_one, mul_one]
      exact ⟨by linarith, by nlinarith [mul_self_nonneg (atol + povm_is_identity_sum_rtol)]⟩
    · simp only [hdiag, ↓reduceIte, sub_self, mul_zero, add_zero, abs_zero]
      exact ⟨ha, mul_self_nonneg _⟩

/-- C01.6 POVM origin: `m` copies of `(1/m)·1`, whose sum is the identity, are physical at every pair of tolerances ≥ 0. -/
theorem origin_povm_physical (d m : Nat) (ae ai : Rat) (hd : 0 < d) (hae : 0 ≤ ae) (hai : 0 ≤ ai) :
    povmPhysical (scalarMat d 1) (List.replicate m (scalarMat d (1 / (m : Rat))))
      (List.replicate m (List.replicate d (1 / (m : Rat)))) ae ai = some true := by
  have hc : (0 : Rat) ≤ 1 / (m : Rat) := by positivity
  rw [povmPhysical_iff, povmPsd_iff]
  refine ⟨identitySum_identity d ae hd hae, by simp, ?_⟩
  intro p hp
  rw [List.zip_replicate', List.mem_replicate] at hp
  rw [hp.2]
  exact psdVerdict_scalar d _ ai hd hai hc

/-- C01.6 the zero object: `generate_zero_obj` is the all-zero parameter array … -/
theorem zero_object_is_zero (n : Nat) : ∀ x ∈ zeroVec n, x = 0 := by
  intro x hx; unfold zeroVec at hx; rw [List.mem_replicate] at hx; exact hx.2

/-- … whose operator (the zero matrix) is PSD at every `atol ≥ 0` but not unit trace (`atol + rtol < 1`): not physical. -/
theorem zero_state_verdicts (d : Nat) (ae ai : Rat) (hd : 0 < d) (hai : 0 ≤ ai) (hae : ae + state_is_trace_one_rtol < 1) :
    psdVerdict (scalarMat d 0) (List.replicate d 0) ai = some true ∧ stateTraceOne (scalarMat d 0) ae ≠ some true := by
  refine ⟨psdVerdict_scalar d 0 ai hd hai le_rfl, ?_⟩
  rw [Ne, traceOne_verdict_iff _ 0 ae (by rw [scalarMat_trace]; simp)]
  simp; linarith

example : statePhysical (scalarMat 3 (1/3)) [1/3, 1/3, 1/3] 0 0 = some true :=
  origin_state_physical 3 0 0 (by decide) le_rfl le_rfl

/-! ## the two branches of gate.is_tp -/

/-- C01.3 the two branches of `gate.is_tp` under the ONH0 hypothesis (traces `(τ,0,…,0)`, `τ = Tr B₀ > 0`):
the per-basis trace test at tolerance `τ·a` is the first-row test at tolerance `a` — the trace defect is `τ = √d`
times the first-row defect; in particular both are the exact TP condition at tolerance 0. -/
theorem tp_branches_relation (n : Nat) (hs : List Rat) (τ a : Rat) (hτ : 0 < τ) :
    tpTrace n (onh0Traces τ n) hs (τ * a) = tpRow n hs a := by
  have hrt : gate_is_tp_trace_rtol = 0 := by decide
  have hrr : gate_is_tp_row_rtol = 0 := by decide
  unfold tpTrace tpRow
  by_cases hn : n = 0
  · subst hn; simp [onh0Traces]
  by_cases hl : hs.length = n * n
  swap
  · simp [hl]
  have hnpos : 0 < n := Nat.pos_of_ne_zero hn
  have htl : (onh0Traces τ n).length = n := by simp [onh0Traces]; omega
  simp only [hl, htl, ne_eq, not_true_eq_false, Bool.false_or, decide_false, Bool.false_eq_true, ↓reduceIte,
    hn, Bool.or_self, decide_false]
  -- every column test is the corresponding first-row entry test
  have hF : ∀ c ∈ List.range n,
      (do
        let col ← (List.range n).mapM fun b => hs[b * n + c]?
        let after : C := ((col.zip (onh0Traces τ n)).foldl (fun acc (p : Rat × C) => acc + p.1 * p.2.1) 0,
                          (col.zip (onh0Traces τ n)).foldl (fun acc (p : Rat × C) => acc + p.1 * p.2.2) 0)
        let before ← (onh0Traces τ n)[c]?
        isCloseCC after before (τ * a) gate_is_tp_trace_rtol) =
      some (isClose (hs.getD c 0) (if c = 0 then 1 else 0) a 0) := by
    intro c hc
    rw [List.mem_range] at hc
    have hcol : (List.range n).mapM (fun b => hs[b * n + c]?) = some ((List.range n).map fun b => hs.getD (b * n + c) 0) := by
      apply mapM_some_map
      intro b hb
      rw [List.mem_range] at hb
      have : b * n + c < hs.length := by
        rw [hl]
        calc b * n + c < b * n + n := by omega
          _ = (b + 1) * n := by ring
          _ ≤ n * n := Nat.mul_le_mul_right _ hb
      simp [List.getD_eq_getElem?_getD, List.getElem?_eq_getElem this]
    obtain ⟨k, rfl⟩ : ∃ k, n = k + 1 := ⟨n - 1, by omega⟩
    have hbefore : (onh0Traces τ (k + 1))[c]? = some (τ * (if c = 0 then 1 else 0), 0) := by
      unfold onh0Traces
      cases c with
      | zero => simp
      | succ c =>
        simp only [Nat.add_sub_cancel, List.getElem?_cons_succ, Nat.succ_ne_zero, ↓reduceIte, mul_zero]
        rw [List.getElem?_replicate]; simp; omega
    rw [hcol, hbefore]
    simp only [Option.bind_eq_bind, Option.bind_some, List.range_succ_eq_map, List.map_cons, onh0Traces,
      Nat.add_sub_cancel, List.zip_cons_cons, List.foldl_cons, foldl_zip_zeros1, foldl_zip_zeros2, hrt,
      Nat.zero_mul, Nat.zero_add, mul_zero, add_zero]
    exact closeCC_scaled _ _ τ a hτ
  rw [List.map_congr_left hF, allSome_map_some]
  congr 1
  -- both sides quantify over the first n entries
  rw [Bool.eq_iff_iff, List.all_eq_true, List.all_eq_true]
  simp only [hrr]
  constructor
  · intro h p hp
    rw [List.mem_zipIdx_iff_getElem?, List.getElem?_take] at hp
    split at hp
    · rename_i hlt
      have := h p.2 (List.mem_range.2 hlt)
      rw [List.getD_eq_getElem?_getD, hp] at this
      exact this
    · cases hp
  · intro h c hc
    rw [List.mem_range] at hc
    have hcl : c < hs.length := by rw [hl]; exact lt_of_lt_of_le hc (Nat.le_mul_of_pos_left _ hnpos)
    have := h (hs[c], c) (by
      rw [List.mem_zipIdx_iff_getElem?, List.getElem?_take, if_pos hc, List.getElem?_eq_getElem hcl])
    simpa [List.getD_eq_getElem?_getD, List.getElem?_eq_getElem hcl] using this

/-- C01.3 the basis-generic branch of `gate.is_tp` on the executed function: true exactly when, for every basis index `a`,
the trace after the map is within `atol` (modulus, compared squared) of the trace before: `|Σ_b hs[b][a]·Tr B_b − Tr B_a| ≤ atol`. -/
theorem tpTrace_iff (n : Nat) (t : List C) (hs : List Rat) (atol : Rat) :
    tpTrace n t hs atol = some true ↔
      hs.length = n * n ∧ t.length = n ∧ ∀ a, a < n → ∃ after before, traceAfter n t hs a = some after ∧
        t[a]? = some before ∧ 0 ≤ atol ∧
        (after.1 - before.1) * (after.1 - before.1) + (after.2 - before.2) * (after.2 - before.2) ≤ atol * atol := by
  have hr : gate_is_tp_trace_rtol = 0 := by decide
  unfold tpTrace
  by_cases hg : hs.length = n * n ∧ t.length = n
  · obtain ⟨h1, h2⟩ := hg
    simp only [h1, h2, ne_eq, not_true_eq_false, decide_false, Bool.or_self, Bool.false_eq_true, ↓reduceIte, true_and,
      allSome_true_iff, List.mem_map, List.mem_range]
    constructor
    · intro h a ha
      have := h _ ⟨a, ha, rfl⟩
      unfold traceAfter
      cases hcol : (List.range n).mapM (fun b => hs[b * n + a]?) with
      | none => rw [hcol] at this; simp at this
      | some col =>
        rw [hcol] at this
        cases hb : t[a]? with
        | none => rw [hb] at this; simp at this
        | some before =>
          rw [hb] at this
          simp only [Option.bind_eq_bind, Option.bind_some, isCloseCC, hr, ↓reduceIte, Option.some.injEq,
            Bool.and_eq_true, decide_eq_true_eq] at this
          exact ⟨_, before, rfl, rfl, this.1, this.2⟩
    · rintro h x ⟨a, ha, rfl⟩
      obtain ⟨after, before, h1', h2', h3, h4⟩ := h a ha
      unfold traceAfter at h1'
      cases hcol : (List.range n).mapM (fun b => hs[b * n + a]?) with
      | none => rw [hcol] at h1'; simp at h1'
      | some col =>
        rw [hcol] at h1'
        simp only [Option.map_some, Option.some.injEq] at h1'
        subst h1'
        simp only [h2', Option.bind_eq_bind, Option.bind_some, isCloseCC, hr, ↓reduceIte, Option.some.injEq,
          Bool.and_eq_true, decide_eq_true_eq]
        exact ⟨h3, h4⟩
  · have : (decide (hs.length ≠ n * n) || decide (t.length ≠ n)) = true := by
      by_cases h1 : hs.length = n * n
      · have h2 : t.length ≠ n := fun h => hg ⟨h1, h⟩
        simp [h2]
      · simp [h1]
    rw [if_pos this]
    constructor
    · intro h; cases h
    · rintro ⟨h1, h2, _⟩; exact absurd ⟨h1, h2⟩ hg

/-- a matrix that fails `is_hermitian` never passes `is_positive_semidefinite` -/
theorem psdVerdict_rejects_nonhermitian (M : CMat) (eigs : List Rat) (atol : Rat) (h : isHermitian M atol = some false) :
    psdVerdict M eigs atol ≠ some true := by
  rw [Ne, psdVerdict_true_iff]; rintro ⟨_, h2, _⟩; rw [h] at h2; cases h2

example : tpTrace 2 [(1, 0), (1, 0)] [1/2, 1/2, 1/2, 1/2] 0 = some true := by decide +kernel

section bridge3
open Matrix
open scoped ComplexOrder
/-- C01.4 `is_hermitian` at tolerance 0 on a well-sized model matrix decides exact Hermiticity of the matrix it denotes. -/
theorem isHermitian_zero_iff (M : CMat) (hok : M.ok = true) :
    isHermitian M 0 = some true ↔ M.toMatrix.IsHermitian := by
  constructor
  · intro hv
    have hr : mutil_is_hermitian_rtol = 0 := by decide
    have hlen : M.e.length = M.d * M.d := by simpa [CMat.ok] using hok
    unfold isHermitian at hv
    simp only [hok, Bool.not_true, Bool.false_eq_true, ↓reduceIte, adjoint_eq M hok, Option.bind_eq_bind,
      Option.bind_some, allSome_true_iff, List.mem_map, hr] at hv
    ext i j
    rw [Matrix.conjTranspose_apply]
    simp only [CMat.toMatrix, Matrix.of_apply]
    set k := i.val * M.d + j.val with hk
    have hkl : k < M.d * M.d := by
      calc k < i.val * M.d + M.d := by have := j.isLt; omega
        _ = (i.val + 1) * M.d := by ring
        _ ≤ M.d * M.d := Nat.mul_le_mul_right _ i.isLt
    have hdiv : k / M.d = i.val := by
      rw [hk, Nat.add_comm, Nat.add_mul_div_right _ _ (Nat.pos_of_ne_zero (by have := i.isLt; omega)),
        Nat.div_eq_of_lt j.isLt, Nat.zero_add]
    have hmod : k % M.d = j.val := by
      rw [hk, Nat.add_comm, Nat.add_mul_mod_self_right, Nat.mod_eq_of_lt j.isLt]
    -- the k-th pair of the zip
    have hpair := hv (isCloseCC (M.e.getD k (0,0))
        ((M.e.getD ((k % M.d) * M.d + k / M.d) (0, 0)).1, -(M.e.getD ((k % M.d) * M.d + k / M.d) (0, 0)).2) 0 0)
      ⟨(M.e.getD k (0,0), ((M.e.getD ((k % M.d) * M.d + k / M.d) (0, 0)).1,
          -(M.e.getD ((k % M.d) * M.d + k / M.d) (0, 0)).2)), by
        rw [List.mem_iff_getElem]
        refine ⟨k, by simp [hlen, hkl], ?_⟩
        simp [List.getElem_zip, List.getD_eq_getElem?_getD, List.getElem?_eq_getElem (show k < M.e.length by omega)], rfl⟩
    rw [closeCC_zero_iff, hmod, hdiv] at hpair
    rw [(toC_eq_star_iff _ _).2 hpair]
  · intro hH; exact isHermitian_of_toMatrix M 0 hok le_rfl hH
/-- the trace the model computes (`np.trace` of the density matrix) is the trace of the matrix the model matrix denotes -/
theorem trace_toMatrix (M : CMat) (hok : M.ok = true) (z : C) (h : M.trace = some z) : toC z = M.toMatrix.trace := by
  have hlen : M.e.length = M.d * M.d := by simpa [CMat.ok] using hok
  have hm : (List.range M.d).mapM (fun i => M.e[i * M.d + i]?) =
      some ((List.range M.d).map fun i => M.e.getD (i * M.d + i) (0, 0)) := by
    apply mapM_some_map
    intro i hi
    rw [List.mem_range] at hi
    have hidx : i * M.d + i < M.e.length := by
      rw [hlen]
      calc i * M.d + i < i * M.d + M.d := by omega
        _ = (i + 1) * M.d := by ring
        _ ≤ M.d * M.d := Nat.mul_le_mul_right _ hi
    simp [List.getD_eq_getElem?_getD, List.getElem?_eq_getElem hidx]
  unfold CMat.trace at h
  rw [hm] at h
  simp only [Option.map_some, Option.some.injEq, foldl_add_const, zero_add] at h
  rw [← h, toC_sum, List.map_map, list_range_sum_fin]
  simp [Matrix.trace, CMat.toMatrix]

/-- C01.1 exactness stated on the executed `State.is_trace_one`: it is the exact test `|tr ρ − 1| ≤ atol` for every density matrix
with a real trace and every tolerance if and only if the generated relative tolerance is 0 (it is 1e-5 on the current tree: D1). -/
theorem stateTraceOne_exact_iff_rtol_zero :
    (∀ (rho : CMat) (x atol : Rat), rho.trace = some (x, 0) → 0 ≤ atol →
        (stateTraceOne rho atol = some true ↔ |x - 1| ≤ atol)) ↔ state_is_trace_one_rtol = 0 := by
  rw [← traceOne_exact_iff_rtol_zero]
  constructor
  · intro h x atol ha
    have ht : (⟨1, [(x, 0)]⟩ : CMat).trace = some (x, 0) := by simp [CMat.trace]
    have := h ⟨1, [(x, 0)]⟩ x atol ht ha
    rw [← this]
    unfold stateTraceOne; rw [ht]; simp
  · intro h rho x atol ht ha
    rw [← h x atol ha]
    unfold stateTraceOne; rw [ht]; simp

example : isHermitian ⟨2, [(1/2, 0), (1/4, 1/8), (1/4, -1/8), (1/2, 0)]⟩ 0 = some true := by decide +kernel

/-- C01 state, on the matrix, WITHOUT a separate trace hypothesis: for an exactly Hermitian density matrix the model trace is the
(real) matrix trace `x`, and physical ⇒ `|x − 1| ≤ atol_eq + rtol` ∧ `ρ + (atol_ineq+ε)•1` PSD; conversely with `atol_ineq − ε`. -/
theorem statePhysical_sandwich_matrix_trace (rho : CMat) (eigs : List ℚ) (ae ai : ℚ) (ε : ℝ) (hok : rho.ok = true)
    (hl : eigs.length = rho.d) (ha : 0 ≤ ai) (hH : rho.toMatrix.IsHermitian) (hap : EigApprox hH eigs ε) :
    ∃ x : ℚ, (((x : ℚ) : ℝ) : ℂ) = rho.toMatrix.trace ∧
      (statePhysical rho eigs ae ai = some true →
        |x - 1| ≤ ae + state_is_trace_one_rtol ∧
        (rho.toMatrix + ((((ai : ℚ) : ℝ) + ε : ℝ) : ℂ) • (1 : Matrix (Fin rho.d) (Fin rho.d) ℂ)).PosSemidef) ∧
      (|x - 1| ≤ ae + state_is_trace_one_rtol ∧
        (rho.toMatrix + ((((ai : ℚ) : ℝ) - ε : ℝ) : ℂ) • (1 : Matrix (Fin rho.d) (Fin rho.d) ℂ)).PosSemidef →
        statePhysical rho eigs ae ai = some true) := by
  obtain ⟨x, hx⟩ := trace_real_of_hermitian rho hok hH
  refine ⟨x, ?_, statePhysical_sandwich_matrix rho eigs x ae ai ε hok hl ha hx hH hap⟩
  rw [← trace_toMatrix rho hok (x, 0) hx]
  simp [toC]

-- instantiated at the mixed qubit state diag(2/3, 1/3) with the float-like eigenvalue list (ε = 10⁻³)
example := statePhysical_sandwich_matrix_trace exRho [333/1000, 667/1000] (1/100) (1/100) (1/1000) (by decide) (by decide)
    (by norm_num) exRho_hermitian exRho_eigApprox

end bridge3

/-- C01.3 exact trace preservation: at tolerance 0 the basis-generic branch of `gate.is_tp` is true exactly when the map preserves the
trace of EVERY basis element, `Σ_b hs[b][a]·Tr B_b = Tr B_a` (hence, by linearity, of every operator in the span of the basis). -/
theorem tpTrace_zero_iff (n : Nat) (t : List C) (hs : List Rat) :
    tpTrace n t hs 0 = some true ↔
      hs.length = n * n ∧ t.length = n ∧ ∀ a, a < n → ∃ z, traceAfter n t hs a = some z ∧ t[a]? = some z := by
  rw [tpTrace_iff]
  constructor
  · rintro ⟨h1, h2, h⟩
    refine ⟨h1, h2, fun a ha => ?_⟩
    obtain ⟨after, before, ha1, ha2, _, hle⟩ := h a ha
    have hab : after = before := by
      have := (closeCC_zero_iff after before).1 (by
        unfold isCloseCC
        simp only [↓reduceIte, le_refl, decide_true, Bool.true_and, Option.some.injEq, decide_eq_true_eq]
        simpa using hle)
      exact this
    exact ⟨after, ha1, hab ▸ ha2⟩
  · rintro ⟨h1, h2, h⟩
    refine ⟨h1, h2, fun a ha => ?_⟩
    obtain ⟨z, hz1, hz2⟩ := h a ha
    exact ⟨z, z, hz1, hz2, le_rfl, by simp⟩

example : tpTrace 2 [(1, 0), (1, 0)] [1/2, 1/2, 1/2, 1/2] 0 = some true := by decide +kernel


/-! ## the basis verdicts that feed the identity-first flag -/

/-- C01.3 `MatrixBasis.is_orthogonal` on the executed function: true exactly when every pair of distinct elements (earlier, later) has
`|⟨left, right⟩| ≤ atol` — exact, whatever the generated relative tolerance, because the reference value is 0. -/
theorem basisIsOrthogonal_iff (B : List CMat) (g rtol : Rat) (hg : 0 ≤ g) :
    basisIsOrthogonal B g rtol = true ↔
      ∀ p ∈ pairsBefore B, (vdot p.1.e p.2.e).1 * (vdot p.1.e p.2.e).1 + (vdot p.1.e p.2.e).2 * (vdot p.1.e p.2.e).2 ≤ g * g := by
  unfold basisIsOrthogonal
  rw [List.all_eq_true]
  constructor
  · intro h p hp; have := (isCloseCR_iff _ _ _ _).1 (h p hp); simpa using this.2
  · intro h p hp; rw [isCloseCR_iff]; simpa [hg] using h p hp

/-- C01.3 `is_normal` on the executed function: every element has `|⟨B_α, B_α⟩ − 1| ≤ atol + rtol` with the GENERATED relative
tolerance of that call site (numpy's default 1e-5 on the current tree: the normalisation test has the same relative slack as D1). -/
theorem basisIsNormal_iff (B : List CMat) (g rtol : Rat) :
    basisIsNormal B g rtol = true ↔
      ∀ M ∈ B, 0 ≤ g + rtol ∧
        ((vdot M.e M.e).1 - 1) * ((vdot M.e M.e).1 - 1) + (vdot M.e M.e).2 * (vdot M.e M.e).2 ≤ (g + rtol) * (g + rtol) := by
  unfold basisIsNormal
  rw [List.all_eq_true]
  constructor
  · intro h M hM; have := (isCloseCR_iff _ _ _ _).1 (h M hM); simpa using this
  · intro h M hM; rw [isCloseCR_iff]; simpa using h M hM

/-- C01.3 `is_hermitian` of a basis: every element passes `mutil.is_hermitian` at the global tolerance. -/
theorem basisIsHermitian_iff (B : List CMat) (g : Rat) :
    basisIsHermitian B g = some true ↔ ∀ M ∈ B, isHermitian M g = some true := by
  unfold basisIsHermitian
  rw [allSome_true_iff]
  constructor
  · intro h M hM; exact h _ (List.mem_map.2 ⟨M, hM, rfl⟩)
  · rintro h x hx; rw [List.mem_map] at hx; obtain ⟨M, hM, rfl⟩ := hx; exact h M hM

/-- C01.3 the flag of one subsystem from the modelled basis verdicts through the GENERATED conjunction. -/
theorem elemental_flag_of_basis (B : List CMat) (g ro rn : Rat) (z : Bool) :
    elemental_flag (basisIsNormal B g rn) (basisIsOrthogonal B g ro) (basisIsHermitian B g == some true) z = true ↔
      basisIsNormal B g rn = true ∧ basisIsOrthogonal B g ro = true ∧ basisIsHermitian B g = some true ∧ z = true := by
  simp [elemental_flag, and_assoc]

-- the normalised 1-qubit Pauli basis restricted to (I, Z)/√2 is not available over ℚ; a rational orthonormal pair instead:
example : basisIsOrthogonal [⟨2, [(1,0),(0,0),(0,0),(0,0)]⟩, ⟨2, [(0,0),(0,0),(0,0),(1,0)]⟩] 0 (mkRat 1 100000) = true ∧
    basisIsNormal [⟨2, [(1,0),(0,0),(0,0),(0,0)]⟩, ⟨2, [(0,0),(0,0),(0,0),(1,0)]⟩] 0 (mkRat 1 100000) = true ∧
    basisIsHermitian [⟨2, [(1,0),(0,0),(0,0),(0,0)]⟩, ⟨2, [(0,1),(0,0),(0,0),(1,0)]⟩] 0 = some false := by decide +kernel

/-! ## the hypotheses are satisfiable / concrete instances -/

example : tpTrace 2 (onh0Traces 2 2) [1, 0, 0, 1/2] 0 = some true := by decide +kernel
example : psdVerdict (scalarMat 2 (1/2)) [1/2, 1/2] 0 = some true := by decide +kernel
example : physicalArgs (fun t => decide (1/1000 ≤ t)) (fun t => decide (1/1000 ≤ t)) (some (1/100)) none (1/10000000000000) = false := by decide +kernel


example : stateTraceOne ⟨2, [(1/2, 0), (0, 0), (0, 0), (1/2, 0)]⟩ (1 / 10000000000000) = some true := by decide +kernel
example : (⟨2, [(1/2, 0), (0, 0), (0, 0), (1/2, 0)]⟩ : CMat).trace = some (1, 0) := by decide +kernel
example : isHermitian ⟨2, [(1/2, 0), (1/4, 1/8), (1/4, -1/8), (1/2, 0)]⟩ 0 = some true := by decide +kernel
example : psdEig [-1/100000000000000, 0, 1/2] (1 / 10000000000000) = true := by decide +kernel
example : psdEig [-1/1000000000000, 1/2] (1 / 10000000000000) = false := by decide +kernel
example : tpRow 2 [1, 0, 0, 1/2] 0 = some true := by decide +kernel
example : tpRow 2 [1, 1/1000000, 0, 1/2] (1 / 10000000000000) = some false := by decide +kernel
example : mk true false = Ctor.notPhysical := by decide
/-- the current tree: a trace of 1 + 5·10⁻⁶ is "trace one" at atol 10⁻¹³ with the default relative tolerance -/
example : isCloseCR (1 + 5 / 1000000, 0) 1 (1 / 10000000000000) (mkRat 1 100000) = true := by decide +kernel

end QM.C01
