import QProofs.C09
import QProps.C08
import QGen.C09
/-!
# C09 — linear estimation inverts the forward model (property theorems)

Everything is about the executed definitions of `QModel/C09.lean` (`estOne`, `aDdag`, `estSeq`, `estimate`,
`lsqCert`, `lsqExact`), for **all** shapes `m n`, all matrices/vectors and any field `K` (ordered field
for the optimality clauses), hence in particular for the executed instance `K = ℚ`.

The two numpy kernels are parameters: `G` = value of `np.linalg.inv(A.T @ A)` with contract
`Contract G A : G · (AᵀA) = 1`, `rank` = value of `np.linalg.matrix_rank(A)`.
-/
open Matrix
namespace QM.C09

variable {K : Type} {m n : Nat}

/-- C09.1 `exact data ⇒ exact recovery`: if the data vector is the forward model's prediction
`A v₀ + b` of some variable vector `v₀`, the coded estimate `inv(AᵀA) Aᵀ (f − b)` is `v₀`. -/
theorem est_exact [Field K] (G : Mat K n n) (A : Mat K m n) (b : Vec K m) (v0 : Vec K n)
    (h : Contract G A) : estOne (aDdag G A) b ((A.mulVec v0).add b) = v0 := by
  apply Vec.toV_injective
  rw [toV_estOne]
  simp only [Vec.toV_add, Mat.toV_mulVec]
  exact m_exact h.toM _ _

/-- C09.2 `normal equations`: for *every* data vector `f` (normalised or not) the prediction residual of
the coded estimate is orthogonal to the model: `Aᵀ (A v + b − f) = 0`. -/
theorem est_normal [Field K] (G : Mat K n n) (A : Mat K m n) (b f : Vec K m) (h : Contract G A) :
    normalResidual A b f (estOne (aDdag G A) b f) = Vec.zero := by
  apply Vec.toV_injective
  rw [toV_normalResidual, toV_estOne, Vec.toV_zero]
  exact m_normal h.toM _ _

/-- C09.3a `least squares`: the coded estimate minimises the squared prediction residual over all
variable vectors `w`. -/
theorem est_lsq [Field K] [LinearOrder K] [IsStrictOrderedRing K] (G : Mat K n n) (A : Mat K m n)
    (b f : Vec K m) (h : Contract G A) (w : Vec K n) :
    sqRes A b f (estOne (aDdag G A) b f) ≤ sqRes A b f w := by
  rw [sqRes_eq, sqRes_eq]
  apply m_lsq
  have := congrArg Vec.toV (est_normal G A b f h)
  rwa [toV_normalResidual, Vec.toV_zero] at this

/-- C09.3b the minimiser is unique: any `w` whose residual is not larger is the coded estimate. -/
theorem est_lsq_unique [Field K] [LinearOrder K] [IsStrictOrderedRing K] (G : Mat K n n)
    (A : Mat K m n) (b f : Vec K m) (h : Contract G A) (w : Vec K n)
    (hw : sqRes A b f w ≤ sqRes A b f (estOne (aDdag G A) b f)) :
    w = estOne (aDdag G A) b f := by
  apply Vec.toV_injective
  rw [sqRes_eq, sqRes_eq] at hw
  apply m_lsq_unique h.toM _ _ _ _ _ hw
  have := congrArg Vec.toV (est_normal G A b f h)
  rwa [toV_normalResidual, Vec.toV_zero] at this

/-- C09.3c conversely, every exact solution of the normal equations is the coded estimate. -/
theorem normal_imp_est [Field K] (G : Mat K n n) (A : Mat K m n) (b f : Vec K m) (h : Contract G A)
    (v : Vec K n) (hv : normalResidual A b f v = Vec.zero) : v = estOne (aDdag G A) b f := by
  apply Vec.toV_injective
  rw [toV_estOne]
  apply m_unique_normal h.toM
  have := congrArg Vec.toV hv
  rwa [toV_normalResidual, Vec.toV_zero] at this

/-- the contract can only hold for a forward model of full column rank (informationally complete
testers): `A d = 0 ⇒ d = 0`. -/
theorem contract_injective [Field K] (G : Mat K n n) (A : Mat K m n) (h : Contract G A)
    (d : Vec K n) (hd : A.mulVec d = Vec.zero) : d = Vec.zero := by
  apply Vec.toV_injective
  rw [Vec.toV_zero]
  apply m_injective h.toM
  have := congrArg Vec.toV hd
  rwa [Mat.toV_mulVec, Vec.toV_zero] at this

/-- the right-associated product the driver runs for large shapes is the coded value
`(inv(AᵀA) @ Aᵀ) @ (f − b)`. -/
theorem estOne_fast [Field K] (G : Mat K n n) (A : Mat K m n) (b f : Vec K m) :
    estOneFast G A b f = estOne (aDdag G A) b f := by
  apply Vec.toV_injective
  rw [toV_estOne]
  simp only [estOneFast, Mat.toV_mulVec, Mat.toM_transpose, Vec.toV_sub]
  rw [Matrix.mulVec_mulVec]

/-- C09.4a `full-rank guard`: when numpy's rank differs from `min(shape)` the estimator raises, whatever the data. -/
theorem guard_reject [Add K] [Mul K] [Sub K] [Zero K] (rank : Nat) (G : Mat K n n) (A : Mat K m n)
    (b : Vec K m) (dss : List (List (Nat × List K))) (h : min m n ≠ rank) :
    estSeq rank G A b dss = .error .notFullRank := by
  simp [estSeq, isFullRank, h]

/-- C09.4b `sequence = map`: when the guard passes, the sequence estimate is the list of the single-dataset
estimates, in order, failing at the first dataset that fails. -/
theorem estSeq_pointwise [Add K] [Mul K] [Sub K] [Zero K] (rank : Nat) (G : Mat K n n)
    (A : Mat K m n) (b : Vec K m) (dss : List (List (Nat × List K))) (h : min m n = rank) :
    estSeq rank G A b dss = dss.mapM (estimate rank G A b) := by
  have e : ∀ ds, estimate rank G A b ds = estData (aDdag G A) b ds := by
    intro ds
    simp only [estimate, estSeq, isFullRank, h, beq_self_eq_true, Bool.not_true, Bool.false_eq_true,
      if_false, List.mapM_cons, List.mapM_nil]
    cases estData (aDdag G A) b ds <;> rfl
  simp only [estSeq, isFullRank, h, beq_self_eq_true, Bool.not_true, Bool.false_eq_true, if_false]
  congr 1
  funext ds
  exact (e ds).symm

/-- C09.4c each entry of a successful sequence estimate is the estimate of that dataset alone. -/
theorem estSeq_get [Add K] [Mul K] [Sub K] [Zero K] (rank : Nat) (G : Mat K n n) (A : Mat K m n)
    (b : Vec K m) (dss : List (List (Nat × List K))) (vs : List (Vec K n))
    (h : estSeq rank G A b dss = .ok vs) :
    vs.length = dss.length ∧
      ∀ i (hi : i < dss.length) (hv : i < vs.length), estimate rank G A b dss[i] = .ok vs[i] := by
  by_cases hr : min m n = rank
  · rw [estSeq_pointwise rank G A b dss hr] at h
    clear hr
    induction dss generalizing vs with
    | nil =>
      simp only [List.mapM_nil, pure, Except.pure] at h
      injection h with h; subst h; simp
    | cons ds dss ih =>
      rw [List.mapM_cons] at h
      cases h1 : estimate rank G A b ds with
      | error e => rw [h1] at h; cases h
      | ok v =>
        rw [h1] at h
        cases h2 : List.mapM (estimate rank G A b) dss with
        | error e => rw [h2] at h; cases h
        | ok vs' =>
          rw [h2] at h
          simp only [bind, Except.bind, pure, Except.pure] at h
          injection h with h; subst h
          obtain ⟨hl, hg⟩ := ih vs' h2
          refine ⟨by simp [hl], ?_⟩
          intro i hi hv
          cases i with
          | zero => simpa using h1
          | succ j => simpa using hg j (by simpa using hi) (by simpa using hv)
  · rw [guard_reject rank G A b dss hr] at h; cases h

/-- C09.5 `independence from sample counts`: two sequences of datasets that carry the same distributions
(whatever counts are attached) give the same result, errors included. -/
theorem estSeq_ignores_counts [Add K] [Mul K] [Sub K] [Zero K] (rank : Nat) (G : Mat K n n)
    (A : Mat K m n) (b : Vec K m) (dss dss' : List (List (Nat × List K)))
    (h : dss.map (fun ds => ds.map (·.2)) = dss'.map (fun ds => ds.map (·.2))) :
    estSeq rank G A b dss = estSeq rank G A b dss' := by
  unfold estSeq
  split
  · rfl
  · have e : estData (aDdag G A) b = fun ds => estArr (aDdag G A) b (ds.map (·.2)) := by
      funext ds; exact estData_eq_estArr _ _ _
    rw [e]
    have hm := fun l => mapM_comp (ε := Err) (estArr (aDdag G A) b)
      (fun ds : List (Nat × List K) => ds.map (·.2)) l
    rw [hm dss, hm dss', h]

/-- C09.6a soundness of the checker (`tol`-approximate normal equations ⇒ `tol`-approximate optimality):
if `lsqCert A b f v tol` accepts, then for every `w`
`‖Av+b−f‖² ≤ ‖Aw+b−f‖² + 2·tol·Σᵢ|wᵢ−vᵢ|`. -/
theorem lsqCert_sound [Field K] [LinearOrder K] [IsStrictOrderedRing K] [DecidableLE K]
    (A : Mat K m n) (b f : Vec K m) (v : Vec K n) (tol : K) (h : lsqCert A b f v tol = true)
    (w : Vec K n) :
    sqRes A b f v ≤ sqRes A b f w + 2 * tol * ∑ i, |w.get i - v.get i| := by
  rw [lsqCert_iff] at h
  rw [sqRes_eq, sqRes_eq]
  have hg : ∀ i, -tol ≤ (A.toMᵀ *ᵥ (A.toM *ᵥ Vec.toV v + Vec.toV b - Vec.toV f)) i ∧
      (A.toMᵀ *ᵥ (A.toM *ᵥ Vec.toV v + Vec.toV b - Vec.toV f)) i ≤ tol := by
    intro i
    have := h i
    rw [← toV_normalResidual]
    exact this
  exact m_lsq_tol A.toM (Vec.toV b) (Vec.toV f) (Vec.toV v) tol hg (Vec.toV w)

/-- C09.6b with `tol = 0` an accepted `v` *is* the coded estimate (under the contract), hence the exact
least-squares solution. -/
theorem lsqCert_zero [Field K] [LinearOrder K] [IsStrictOrderedRing K] [DecidableLE K]
    (G : Mat K n n) (A : Mat K m n) (b f : Vec K m) (v : Vec K n) (hc : Contract G A)
    (h : lsqCert A b f v 0 = true) : v = estOne (aDdag G A) b f := by
  apply normal_imp_est G A b f hc
  rw [lsqCert_iff] at h
  apply Vec.ext'
  intro i
  have := h i
  simp only [neg_zero] at this
  simpa [Vec.zero] using le_antisymm this.2 this.1

/-- C09.6c distance of an accepted vector to the coded estimate: componentwise
`|vᵢ − v̂ᵢ| ≤ tol · Σⱼ|Gᵢⱼ|`. -/
theorem lsqCert_dist [Field K] [LinearOrder K] [IsStrictOrderedRing K] [DecidableLE K]
    (G : Mat K n n) (A : Mat K m n) (b f : Vec K m) (v : Vec K n) (tol : K) (hc : Contract G A)
    (h : lsqCert A b f v tol = true) (i : Fin n) :
    |v.get i - (estOne (aDdag G A) b f).get i| ≤ tol * ∑ j, |G.get i j| := by
  rw [lsqCert_iff] at h
  have hd := congrFun (m_dist hc.toM (Vec.toV b) (Vec.toV f) (Vec.toV v)) i
  rw [← toV_estOne, ← toV_normalResidual] at hd
  have e : v.get i - (estOne (aDdag G A) b f).get i =
      ∑ j, G.get i j * (normalResidual A b f v).get j := by
    simpa [Vec.toV, Matrix.mulVec, dotProduct] using hd
  rw [e, Finset.mul_sum]
  refine (Finset.abs_sum_le_sum_abs _ _).trans (Finset.sum_le_sum fun j _ => ?_)
  rw [abs_mul, mul_comm]
  exact mul_le_mul_of_nonneg_right (abs_le.2 (h j)) (abs_nonneg _)

/-- C09.7a the exact solver returns only genuine solutions. -/
theorem solveChecked_sound (M : Mat Rat n n) (y x : Vec Rat n) (h : solveChecked M y = some x) :
    M.mulVec x = y := by
  unfold solveChecked at h
  simp only [Option.bind_eq_bind, Option.bind_eq_some_iff] at h
  obtain ⟨red, -, xs, -, h⟩ := h
  split at h
  · split at h
    · rename_i hx
      injection h with h
      rw [← h]; exact hx
    · cases h
  · cases h

/-- C09.7b the exact reference used by the correspondence check is the least-squares optimum over ℚ. -/
theorem lsqExact_optimal (A : Mat Rat m n) (b f : Vec Rat m) (v : Vec Rat n)
    (h : lsqExact A b f = some v) (w : Vec Rat n) : sqRes A b f v ≤ sqRes A b f w := by
  have hs := solveChecked_sound _ _ _ h
  rw [sqRes_eq, sqRes_eq]
  apply m_lsq
  have := congrArg Vec.toV hs
  simp only [Mat.toV_mulVec, Mat.toM_mul, Mat.toM_transpose, Vec.toV_sub] at this
  have e : A.toM *ᵥ Vec.toV v + Vec.toV b - Vec.toV f = A.toM *ᵥ Vec.toV v - (Vec.toV f - Vec.toV b) := by
    abel
  rw [e, Matrix.mulVec_sub, Matrix.mulVec_mulVec, this, sub_self]

/-! ## numpy's inverse is not exact: the same clauses for an inverse that meets the contract only up to `δ` -/

/-- C09.1' exact data through ANY matrix `G` used as inverse: the recovery error is `(G·AᵀA − 1)·v₀` — an identity, no
hypothesis on `G`. -/
theorem est_exact_err [Field K] (G : Mat K n n) (A : Mat K m n) (b : Vec K m) (v0 : Vec K n) :
    Vec.toV (estOne (aDdag G A) b ((A.mulVec v0).add b)) - Vec.toV v0 =
      (invResidualLeft G A).toM *ᵥ Vec.toV v0 := by
  rw [toV_estOne]
  simp only [Vec.toV_add, Mat.toV_mulVec, invResidualLeft, Mat.toM_sub, Mat.toM_mul, Mat.toM_transpose, Mat.toM_one]
  exact m_exact_err _ _ _ _

/-- C09.2' arbitrary data through ANY `G`: the normal-equation residual of the coded estimate is
`((AᵀA)·G − 1)·Aᵀ(f − b)`. -/
theorem est_normal_err [Field K] (G : Mat K n n) (A : Mat K m n) (b f : Vec K m) :
    Vec.toV (normalResidual A b f (estOne (aDdag G A) b f)) =
      (invResidualRight G A).toM *ᵥ (A.toMᵀ *ᵥ (Vec.toV f - Vec.toV b)) := by
  rw [toV_normalResidual, toV_estOne]
  simp only [invResidualRight, Mat.toM_sub, Mat.toM_mul, Mat.toM_transpose, Mat.toM_one]
  exact m_normal_err _ _ _ _

theorem invCert_iff [Field K] [LinearOrder K] [IsStrictOrderedRing K] [DecidableLE K] (G : Mat K n n)
    (A : Mat K m n) (δ : K) :
    invCert G A δ = true ↔ (∀ i j, |(invResidualLeft G A).get i j| ≤ δ) ∧ (∀ i j, |(invResidualRight G A).get i j| ≤ δ) := by
  simp only [invCert, List.all_eq_true, List.mem_finRange, true_implies, Bool.and_eq_true, decide_eq_true_eq, abs_le]
  constructor
  · intro h; exact ⟨fun i j => ⟨(h i j).1.1.1, (h i j).1.1.2⟩, fun i j => ⟨(h i j).1.2, (h i j).2⟩⟩
  · intro h i j; exact ⟨⟨⟨(h.1 i j).1, (h.1 i j).2⟩, (h.2 i j).1⟩, (h.2 i j).2⟩

/-- C09.1'' soundness of the checker run on numpy's inverse (`invCert G A δ`, evaluated exactly by the driver): exact
data are inverted up to `δ·‖v₀‖₁` componentwise, and the normal equations of every data vector hold up to
`δ·‖Aᵀ(f−b)‖₁` — the exact-contract theorems `est_exact` / `est_normal` are the case `δ = 0`. -/
theorem invCert_sound [Field K] [LinearOrder K] [IsStrictOrderedRing K] [DecidableLE K] (G : Mat K n n)
    (A : Mat K m n) (b : Vec K m) (δ : K) (h : invCert G A δ = true) :
    (∀ (v0 : Vec K n) (i : Fin n),
      |(estOne (aDdag G A) b ((A.mulVec v0).add b)).get i - v0.get i| ≤ δ * ∑ j, |v0.get j|) ∧
    (∀ (f : Vec K m) (i : Fin n),
      |(normalResidual A b f (estOne (aDdag G A) b f)).get i| ≤
        δ * ∑ j, |(A.transpose.mulVec (f.sub b)).get j|) := by
  rw [invCert_iff] at h
  constructor
  · intro v0 i
    have e := congrFun (est_exact_err G A b v0) i
    have hb := m_entry_bound (invResidualLeft G A).toM (Vec.toV v0) δ (fun i j => h.1 i j) i
    rw [← e] at hb
    simpa [Vec.toV] using hb
  · intro f i
    have e := congrFun (est_normal_err G A b f) i
    have hb := m_entry_bound (invResidualRight G A).toM (A.toMᵀ *ᵥ (Vec.toV f - Vec.toV b)) δ (fun i j => h.2 i j) i
    rw [← e] at hb
    have e2 : A.toMᵀ *ᵥ (Vec.toV f - Vec.toV b) = Vec.toV (A.transpose.mulVec (f.sub b)) := by simp
    rw [e2] at hb
    simpa [Vec.toV] using hb

/-- with `δ = 0` an accepted inverse satisfies the exact contract. -/
theorem invCert_zero [Field K] [LinearOrder K] [IsStrictOrderedRing K] [DecidableLE K] (G : Mat K n n)
    (A : Mat K m n) (h : invCert G A 0 = true) : Contract G A := by
  rw [invCert_iff] at h
  unfold Contract
  apply Mat.ext'
  intro i j
  have := h.1 i j
  simp only [abs_nonpos_iff, invResidualLeft, Mat.sub, Mat.get_ofFn, sub_eq_zero] at this
  exact this

/-- C09.4h `np.linalg.inv` raising (`LinAlgError`, exactly singular `AᵀA` — only possible when the contract is
unsolvable): the estimator raises after the guard and before reading any data, also for an empty sequence; otherwise
`estSeqInv` is `estSeq`. -/
theorem estSeqInv_cases [Add K] [Mul K] [Sub K] [Zero K] (rank : Nat) (A : Mat K m n) (b : Vec K m)
    (dss : List (List (Nat × List K))) :
    (min m n = rank → estSeqInv rank (none : Option (Mat K n n)) A b dss = .error .singular) ∧
    (min m n ≠ rank → estSeqInv rank (none : Option (Mat K n n)) A b dss = .error .notFullRank) ∧
    (∀ G : Mat K n n, estSeqInv rank (some G) A b dss = estSeq rank G A b dss) := by
  refine ⟨fun h => by simp [estSeqInv, isFullRank, h], fun h => by simp [estSeqInv, isFullRank, h], fun G => rfl⟩

/-! ## the rank guard as coded: exactly which forward models it lets through -/

/-- C09.4d the inverse contract forces full column rank and a tall (or square) forward model:
`G·(AᵀA) = 1 ⇒ rank A = n ∧ n ≤ m` (`rank` = Mathlib's `Matrix.rank`, the value numpy's `matrix_rank` approximates). -/
theorem contract_rank [Field K] (G : Mat K n n) (A : Mat K m n) (h : Contract G A) :
    A.toM.rank = n ∧ n ≤ m := m_contract_rank h.toM

/-- C09.4e every forward model for which `inv(AᵀA)` exists passes the coded guard `min(shape) == rank`. -/
theorem guard_passes_of_contract [Field K] (G : Mat K n n) (A : Mat K m n) (h : Contract G A) :
    isFullRank m n A.toM.rank = true := by
  obtain ⟨hr, hmn⟩ := contract_rank G A h
  simp [isFullRank, hr, Nat.min_eq_right hmn]

/-- C09.4f a wide forward model (`m < n`, more variables than equations) never admits the inverse the estimator
needs, whatever numpy returns for `inv(AᵀA)`. -/
theorem wide_no_contract [Field K] (A : Mat K m n) (hw : m < n) : ¬ ∃ G : Mat K n n, Contract G A := by
  rintro ⟨G, h⟩
  have := (contract_rank G A h).2
  omega

/-- C09.4g **exactly which matA the coded guard lets through** (ordered field, exact rank): the guard
`min(matA.shape) == rank` passes iff either the inverse contract is solvable (full column rank: the informationally
complete case the property is about) or matA is wide with full ROW rank — and for the latter no valid `inv(AᵀA)`
exists (`wide_no_contract`): the guard is complete but not sound for wide matrices (`size = matA.shape[1]` would be). -/
theorem guard_lets_through_iff [Field K] [LinearOrder K] [IsStrictOrderedRing K] (A : Mat K m n) :
    isFullRank m n A.toM.rank = true ↔ (∃ G : Mat K n n, Contract G A) ∨ (m < n ∧ A.toM.rank = m) := by
  constructor
  · intro h
    have hmin : min m n = A.toM.rank := by simpa [isFullRank] using h
    by_cases hmn : n ≤ m
    · left
      have hr : A.toM.rank = n := by rw [← hmin]; exact Nat.min_eq_right hmn
      obtain ⟨Gm, hG⟩ := m_contract_exists A.toM (m_injective_of_rank A.toM hr)
      exact ⟨_, contract_of_matrix A Gm hG⟩
    · right
      have : m < n := by omega
      exact ⟨this, by rw [← hmin]; exact Nat.min_eq_left (by omega)⟩
  · rintro (⟨G, h⟩ | ⟨hw, hr⟩)
    · exact guard_passes_of_contract G A h
    · simp [isFullRank, hr, Nat.min_eq_left (Nat.le_of_lt hw)]

/-! ## tie to the source: the definitions regenerated from linear_estimator.py / standard_qtomography.py
(`lean/QGen/C09.lean`, rewritten by `harness/c09.py:translate` on every run) ARE the hand-written model -/

/-- C09.src-a the pseudo-inverse expression read from the source (`np.linalg.inv(A.T @ A) @ A.T`, computed once before
the loop) is the model's `aDdag` with numpy's inverse as parameter. -/
theorem gen_A_ddag [Add K] [Mul K] [Zero K] (G : Mat K n n) (A : Mat K m n) :
    QGen.C09.A_ddag (fun _ => G) A = aDdag G A := rfl

/-- C09.src-b the per-dataset expression read from the source (`A_ddag @ (f - b)`) is the model's `estOne`. -/
theorem gen_v [Add K] [Mul K] [Sub K] [Zero K] (Ad : Mat K n m) (b f : Vec K m) :
    QGen.C09.v Ad f b = estOne Ad b f := rfl

/-- C09.src-c the loop body of the model is the generated glue: component `[1]` of every `(count, distribution)` pair,
`np.concatenate`, then `v`. -/
theorem gen_estData [Add K] [Mul K] [Sub K] [Zero K] (Ad : Mat K n m) (b : Vec K m) (ds : List (Nat × List K)) :
    estData Ad b ds = (do
      let flat ← QGen.C09.join (ds.map QGen.C09.data_of)
      let f ← toDataVec m flat
      pure (QGen.C09.v Ad f b)) := rfl

/-- C09.src-d the guard expression read from `is_fullrank_matA` (`size = min(matA.shape)`, `size == rank`) is the model's. -/
theorem gen_is_fullrank (m n rank : Nat) : QGen.C09.is_fullrank m n rank = isFullRank m n rank := rfl

/-- C09.src-e `estimated_var` / `estimated_qoperation` read entry `[0]` of the sequence, as the model's `estimate`. -/
theorem gen_estimated_var [Add K] [Mul K] [Sub K] [Zero K] (rank : Nat) (G : Mat K n n) (A : Mat K m n)
    (b : Vec K m) (ds : List (Nat × List K)) :
    QGen.C09.estimated_var_index = QGen.C09.estimated_qoperation_index ∧
    estimate rank G A b ds = (do
      let vs ← estSeq rank G A b [ds]
      match vs[QGen.C09.estimated_var_index]? with
      | some v => pure v
      | none => .error .index) := by
  refine ⟨rfl, ?_⟩
  unfold estimate
  cases estSeq rank G A b [ds] with
  | error e => rfl
  | ok vs => cases vs <;> rfl

/-- C09.src-f the headline clause restated on the generated definitions: exact data ⇒ exact recovery. -/
theorem gen_est_exact [Field K] (G : Mat K n n) (A : Mat K m n) (b : Vec K m) (v0 : Vec K n)
    (h : Contract G A) :
    QGen.C09.v (QGen.C09.A_ddag (fun _ => G) A) ((A.mulVec v0).add b) b = v0 := by
  rw [gen_A_ddag, gen_v]; exact est_exact G A b v0 h

/-! ## C08 ∘ C09: exact data of the object built from `var₀` are inverted to `var₀` -/

/-- C09.8a end-to-end (any tomography type): let `cs` be the coefficient dictionary of C08, `A`, `b` its
`calc_matA()` / `calc_vecB()` as executable matrix / vector, `G` numpy's `inv(AᵀA)` (contract), and let the data
vector be the forward model's prediction `matA·var₀ + vecB` for some variable vector `var₀`.  Then the coded linear
estimate is `var₀`.  (The contract already forces the statistics map to be injective, `contract_injective`.) -/
theorem lin_recovers_var [Field K] (cs : List (QM.C08.Coeff K)) (A : Mat K m n) (b : Vec K m)
    (G : Mat K n n) (hA : rowsOf A = QM.C08.matA cs) (hb : b.toList = QM.C08.vecB cs) (hc : Contract G A)
    (var0 : Vec K n) (f : Vec K m) (hf : f.toList = QM.C08.predictRaw cs var0.toList) :
    estOne (aDdag G A) b f = var0 := by
  have hfe : f = (A.mulVec var0).add b := by
    apply Vector.toList_inj.1
    rw [hf, forward_toList cs A b hA hb var0]
  rw [hfe]
  exact est_exact G A b var0 hc

/-- C09.8a' end-to-end with numpy's INEXACT inverse: same hypotheses as `lin_recovers_var`, the exact contract replaced
by the accepted certificate `invCert G A δ` (what the driver checks on the float inverse): the linear estimate is `var₀`
up to `δ·‖var₀‖₁` in every component. -/
theorem lin_recovers_var_approx [Field K] [LinearOrder K] [IsStrictOrderedRing K] [DecidableLE K]
    (cs : List (QM.C08.Coeff K)) (A : Mat K m n) (b : Vec K m) (G : Mat K n n) (δ : K)
    (hA : rowsOf A = QM.C08.matA cs) (hb : b.toList = QM.C08.vecB cs) (hc : invCert G A δ = true)
    (var0 : Vec K n) (f : Vec K m) (hf : f.toList = QM.C08.predictRaw cs var0.toList) (i : Fin n) :
    |(estOne (aDdag G A) b f).get i - var0.get i| ≤ δ * ∑ j, |var0.get j| := by
  have hfe : f = (A.mulVec var0).add b := by
    apply Vector.toList_inj.1
    rw [hf, forward_toList cs A b hA hb var0]
  rw [hfe]
  exact (invCert_sound G A b δ hc).1 var0 i

/-- C09.8b' the same through the circuit (conclusion of any C08 `*_affine` theorem as hypothesis): data = circuit
distributions of the object built from `var₀` ⇒ estimate within `δ·‖var₀‖₁` of `var₀`. -/
theorem lin_recovers_from_circuit_approx [Field K] [LinearOrder K] [IsStrictOrderedRing K] [DecidableLE K]
    (per : List (List (List K × K))) (A : Mat K m n) (b : Vec K m) (G : Mat K n n) (δ : K)
    (hA : rowsOf A = QM.C08.matA (QM.C08.mkCoeffs per)) (hb : b.toList = QM.C08.vecB (QM.C08.mkCoeffs per))
    (hc : invCert G A δ = true) (var0 : Vec K n) (circuit : Option (List (List K))) (dists : List (List K))
    (haff : circuit = some (per.map fun rows => rows.map (QM.C08.rowVal var0.toList)))
    (hd : circuit = some dists) (f : Vec K m) (hf : f.toList = dists.flatten) (i : Fin n) :
    |(estOne (aDdag G A) b f).get i - var0.get i| ≤ δ * ∑ j, |var0.get j| := by
  apply lin_recovers_var_approx (QM.C08.mkCoeffs per) A b G δ hA hb hc var0 f
  rw [hf, QM.C08.predictRaw_mkCoeffs]
  rw [haff] at hd
  injection hd with hd
  rw [← hd]

/-- C09.8b end-to-end through the circuit: if the dictionary entries predict the circuits of all schedules on the
object built from `var₀` (conclusion of `QM.C08.qst_affine / povmt_affine / qpt_affine / qmpt_affine`) and the data
are exactly those circuit distributions, concatenated in schedule order, the linear estimate is `var₀` — the
estimator returns the object the data came from. -/
theorem lin_recovers_from_circuit [Field K] (per : List (List (List K × K))) (A : Mat K m n) (b : Vec K m)
    (G : Mat K n n) (hA : rowsOf A = QM.C08.matA (QM.C08.mkCoeffs per))
    (hb : b.toList = QM.C08.vecB (QM.C08.mkCoeffs per)) (hc : Contract G A) (var0 : Vec K n)
    (circuit : Option (List (List K))) (dists : List (List K))
    (haff : circuit = some (per.map fun rows => rows.map (QM.C08.rowVal var0.toList)))
    (hd : circuit = some dists) (f : Vec K m) (hf : f.toList = dists.flatten) :
    estOne (aDdag G A) b f = var0 := by
  apply lin_recovers_var (QM.C08.mkCoeffs per) A b G hA hb hc var0 f
  rw [hf, QM.C08.predictRaw_mkCoeffs]
  rw [haff] at hd
  injection hd with hd
  rw [← hd]

/-- C09.8c the QST instance, hypotheses stated on the model's own functions: dictionary from `qstCoeffs`, data from
`qstCircuit` on the state built from `var₀`. (POVMT / QPT / QMPT: `povmt_object_recovered`, `qpt_object_recovered`,
`qmpt_object_recovered` below.) -/
theorem qst_lin_recovers [Field K] (flag : Bool) (r : K) (povms : List (List (List K))) (scheds : List Nat)
    (cs : List (QM.C08.Coeff K)) (A : Mat K m n) (b : Vec K m) (G : Mat K n n)
    (hcs : QM.C08.qstCoeffs flag r povms scheds = some cs)
    (hA : rowsOf A = QM.C08.matA cs) (hb : b.toList = QM.C08.vecB cs) (hc : Contract G A)
    (var0 : Vec K n) (dists : List (List K))
    (hd : QM.C08.qstCircuit flag r povms scheds var0.toList = some dists)
    (f : Vec K m) (hf : f.toList = dists.flatten) :
    estOne (aDdag G A) b f = var0 := by
  obtain ⟨per, rfl, haff⟩ := QM.C08.qst_affine flag r povms scheds cs var0.toList hcs
  exact lin_recovers_from_circuit per A b G hA hb hc var0 _ dists haff hd f hf

/-! ## `estimated_qoperation(_sequence)`: the objects returned to the caller -/

/-- C09.9a `estimated_qoperation_sequence` is the estimates mapped through `generate_from_var`, one object per dataset in
order; `estimated_qoperation` is its first entry (IndexError on an empty sequence). -/
theorem estimatedQoperation_pointwise [Field K] (kind : Kind) (flag : Bool) (r : K) (d2 mOut : Nat)
    (vs : List (Vec K n)) :
    (estimatedQoperationSeq kind flag r d2 mOut vs).length = vs.length ∧
    (∀ i (h : i < vs.length), (estimatedQoperationSeq kind flag r d2 mOut vs)[i]? =
        some (objOf kind flag r d2 mOut (vs[i]).toList)) ∧
    estimatedQoperation kind flag r d2 mOut vs =
      (match estimatedQoperationSeq kind flag r d2 mOut vs with
       | o :: _ => .ok o
       | [] => .error .index) := by
  refine ⟨by simp [estimatedQoperationSeq], ?_, ?_⟩
  · intro i h
    simp [estimatedQoperationSeq, h]
  · cases vs <;> rfl

/-- C09.9b object-level exact recovery: with exact data `A v₀ + b` of the variable vector `v₀`, the returned object is
the object built from `v₀` (state / POVM / gate / measurement process, both flags). -/
theorem est_object_exact [Field K] (kind : Kind) (flag : Bool) (r : K) (d2 mOut : Nat) (G : Mat K n n)
    (A : Mat K m n) (b : Vec K m) (v0 : Vec K n) (h : Contract G A) :
    estimatedQoperation kind flag r d2 mOut [estOne (aDdag G A) b ((A.mulVec v0).add b)] =
      .ok (objOf kind flag r d2 mOut v0.toList) := by
  rw [est_exact G A b v0 h]; rfl

/-- C09.9c QST end to end at the object level: dictionary from `qstCoeffs`, data = circuit statistics of the state built
from `var₀` ⇒ `estimated_qoperation` is that state. -/
theorem qst_object_recovered [Field K] (flag : Bool) (r : K) (d2 : Nat) (povms : List (List (List K)))
    (scheds : List Nat) (cs : List (QM.C08.Coeff K)) (A : Mat K m n) (b : Vec K m) (G : Mat K n n)
    (hcs : QM.C08.qstCoeffs flag r povms scheds = some cs)
    (hA : rowsOf A = QM.C08.matA cs) (hb : b.toList = QM.C08.vecB cs) (hc : Contract G A)
    (var0 : Vec K n) (dists : List (List K))
    (hd : QM.C08.qstCircuit flag r povms scheds var0.toList = some dists)
    (f : Vec K m) (hf : f.toList = dists.flatten) :
    estimatedQoperation .state flag r d2 1 [estOne (aDdag G A) b f] =
      .ok [QM.C08.stateOf flag r var0.toList] := by
  rw [qst_lin_recovers flag r povms scheds cs A b G hcs hA hb hc var0 dists hd f hf]; rfl

/-- C09.9d the same for POVM, process and measurement-process tomography (and QST again), in one statement: whenever
the dictionary entries predict the circuits of all schedules on the object built from `var₀` — the conclusion of
`QM.C08.qst_affine / povmt_affine / qpt_affine / qmpt_affine` — and the data are those circuit distributions,
`estimated_qoperation` is the object built from `var₀`. -/
theorem object_recovered_from_circuit [Field K] (kind : Kind) (flag : Bool) (r : K) (d2 mOut : Nat)
    (per : List (List (List K × K))) (A : Mat K m n) (b : Vec K m) (G : Mat K n n)
    (hA : rowsOf A = QM.C08.matA (QM.C08.mkCoeffs per)) (hb : b.toList = QM.C08.vecB (QM.C08.mkCoeffs per))
    (hc : Contract G A) (var0 : Vec K n) (circuit : Option (List (List K))) (dists : List (List K))
    (haff : circuit = some (per.map fun rows => rows.map (QM.C08.rowVal var0.toList)))
    (hd : circuit = some dists) (f : Vec K m) (hf : f.toList = dists.flatten) :
    estimatedQoperation kind flag r d2 mOut [estOne (aDdag G A) b f] = .ok (objOf kind flag r d2 mOut var0.toList) := by
  rw [lin_recovers_from_circuit per A b G hA hb hc var0 circuit dists haff hd f hf]; rfl

/-- C09.9e POVM tomography end to end: dictionary from `povmtCoeffs`, data = `povmtCircuit` on the POVM built from `var₀`
⇒ the returned POVM is the one built from `var₀`. -/
theorem povmt_object_recovered [Field K] (flag : Bool) (r : K) (d2 mOut : Nat) (states : List (List K))
    (scheds : List Nat) (cs : List (QM.C08.Coeff K)) (A : Mat K m n) (b : Vec K m) (G : Mat K n n)
    (hm : 0 < mOut) (hstates : ∀ rho ∈ states, rho.length = d2)
    (hcs : QM.C08.povmtCoeffs flag r mOut states scheds = some cs)
    (hA : rowsOf A = QM.C08.matA cs) (hb : b.toList = QM.C08.vecB cs) (hc : Contract G A)
    (var0 : Vec K n) (hvar : n = (if flag then mOut - 1 else mOut) * d2) (dists : List (List K))
    (hd : QM.C08.povmtCircuit flag r d2 mOut states scheds var0.toList = some dists)
    (f : Vec K m) (hf : f.toList = dists.flatten) :
    estimatedQoperation .povm flag r d2 mOut [estOne (aDdag G A) b f] =
      .ok (QM.C08.povmOf flag r d2 mOut var0.toList) := by
  obtain ⟨per, rfl, haff⟩ := QM.C08.povmt_affine flag r d2 mOut states scheds cs var0.toList hm hstates
    (by simp [hvar]) hcs
  exact object_recovered_from_circuit .povm flag r d2 mOut per A b G hA hb hc var0 _ dists haff hd f hf

/-- C09.9f process tomography end to end. -/
theorem qpt_object_recovered [Field K] (flag : Bool) (r : K) (d2 : Nat) (states : List (List K))
    (povms : List (List (List K))) (scheds : List (Nat × Nat)) (cs : List (QM.C08.Coeff K)) (A : Mat K m n)
    (b : Vec K m) (G : Mat K n n) (hstates : ∀ rho ∈ states, rho.length = d2)
    (hcs : QM.C08.qptCoeffs flag states povms scheds = some cs)
    (hA : rowsOf A = QM.C08.matA cs) (hb : b.toList = QM.C08.vecB cs) (hc : Contract G A)
    (var0 : Vec K n) (hvar : n = (if flag then d2 - 1 else d2) * d2) (dists : List (List K))
    (hd : QM.C08.qptCircuit flag d2 states povms scheds var0.toList = some dists)
    (f : Vec K m) (hf : f.toList = dists.flatten) :
    estimatedQoperation .gate flag r d2 1 [estOne (aDdag G A) b f] = .ok (QM.C08.gateOf flag d2 var0.toList) := by
  obtain ⟨per, rfl, haff⟩ := QM.C08.qpt_affine flag d2 states povms scheds cs var0.toList hstates (by simp [hvar]) hcs
  exact object_recovered_from_circuit .gate flag r d2 1 per A b G hA hb hc var0 _ dists haff hd f hf

/-- C09.9g measurement-process tomography end to end (the object is returned as the concatenated rows of its gates). -/
theorem qmpt_object_recovered [Field K] (flag : Bool) (r : K) (d2 mOut : Nat) (states : List (List K))
    (povms : List (List (List K))) (scheds : List (Nat × Nat)) (cs : List (QM.C08.Coeff K)) (A : Mat K m n)
    (b : Vec K m) (G : Mat K n n) (hm : 0 < mOut) (hd2 : 0 < d2) (hstates : ∀ rho ∈ states, rho.length = d2)
    (hpovms : ∀ povm ∈ povms, ∀ e ∈ povm, e.length = d2)
    (hcs : QM.C08.qmptCoeffs flag mOut states povms scheds = some cs)
    (hA : rowsOf A = QM.C08.matA cs) (hb : b.toList = QM.C08.vecB cs) (hc : Contract G A)
    (var0 : Vec K n)
    (hvar : n = if flag then (mOut - 1) * (d2 * d2) + (d2 - 1) * d2 else mOut * (d2 * d2))
    (dists : List (List K))
    (hd : QM.C08.qmptCircuit flag d2 mOut states povms scheds var0.toList = some dists)
    (f : Vec K m) (hf : f.toList = dists.flatten) :
    estimatedQoperation .mprocess flag r d2 mOut [estOne (aDdag G A) b f] =
      .ok (QM.C08.mprocessOf flag d2 mOut var0.toList).flatten := by
  obtain ⟨per, rfl, haff⟩ := QM.C08.qmpt_affine flag d2 mOut states povms scheds cs var0.toList hm hd2 hstates
    hpovms (by simp [hvar]) hcs
  exact object_recovered_from_circuit .mprocess flag r d2 mOut per A b G hA hb hc var0 _ dists haff hd f hf

/-! ## non-vacuity: concrete instances of the hypotheses -/

/-- `lsqCert` with a positive tolerance accepts a slightly perturbed vector (and rejects it at tolerance 0) -/
example : lsqCert (#v[#v[1, 0], #v[0, 1], #v[1, 1]] : Mat Rat 3 2) (#v[0, 0, 1/2] : Vec Rat 3)
    (#v[1/4, 3/4, 3/2] : Vec Rat 3) (#v[1/4 + 1/1000, 3/4] : Vec Rat 2) (1/100) = true ∧
  lsqCert (#v[#v[1, 0], #v[0, 1], #v[1, 1]] : Mat Rat 3 2) (#v[0, 0, 1/2] : Vec Rat 3)
    (#v[1/4, 3/4, 3/2] : Vec Rat 3) (#v[1/4 + 1/1000, 3/4] : Vec Rat 2) 0 = false := by decide +kernel

/-- two sequences that differ only in the attached counts (hypothesis of `estSeq_ignores_counts`) -/
example : ([[(10, [(1 : Rat)/4]), (0, [3/4]), (7, [3/2])]].map fun ds => ds.map (·.2)) =
    ([[(1, [(1 : Rat)/4]), (1, [3/4]), (1000000, [3/2])]].map fun ds => ds.map (·.2)) := by decide +kernel

/-- POVMT toy instance (`d2 = 2`, two outcomes, flag off): hypotheses of `povmt_object_recovered` -/
example : QM.C08.povmtCoeffs false (1 : Rat) 2 [[1, 0], [0, 1]] [0, 1] =
    some (QM.C08.mkCoeffs [[([1, 0, 0, 0], 0), ([0, 0, 1, 0], 0)], [([0, 1, 0, 0], 0), ([0, 0, 0, 1], 0)]]) := by
  decide +kernel
example : QM.C08.povmtCircuit false (1 : Rat) 2 2 [[1, 0], [0, 1]] [0, 1] (#v[1/3, 1/4, 2/3, 3/4] : Vec Rat 4).toList =
    some [[1/3, 2/3], [1/4, 3/4]] := by decide +kernel

example : estimatedQoperation (K := Rat) .state true 2 4 1 [#v[1/4, 3/4, 0]] = .ok [[1/2, 1/4, 3/4, 0]] := by
  decide +kernel
example : estimatedQoperationSeq (K := Rat) .gate true 2 2 1 [#v[1/4, 3/4], #v[0, 1]] =
    [[[1, 0], [1/4, 3/4]], [[1, 0], [0, 1]]] := by decide +kernel

/-- a 3×2 forward model of full column rank and the exact inverse of `AᵀA` -/
example : Contract (K := ℚ)
    (#v[#v[2/3, -1/3], #v[-1/3, 2/3]] : Mat ℚ 2 2)
    (#v[#v[1, 0], #v[0, 1], #v[1, 1]] : Mat ℚ 3 2) := by
  unfold Contract; decide +kernel

example : estimate 2 (#v[#v[2/3, -1/3], #v[-1/3, 2/3]] : Mat Rat 2 2)
    (#v[#v[1, 0], #v[0, 1], #v[1, 1]] : Mat Rat 3 2) (#v[0, 0, 1/2] : Vec Rat 3)
    [(10, [1/4]), (0, [3/4]), (7, [3/2])] = .ok #v[1/4, 3/4] := by decide +kernel

example : (estSeq 1 (#v[#v[2/3, -1/3], #v[-1/3, 2/3]] : Mat Rat 2 2)
    (#v[#v[1, 0], #v[0, 1], #v[1, 1]] : Mat Rat 3 2) (#v[0, 0, 1/2] : Vec Rat 3)
    [[(10, [1/4, 3/4]), (0, [3/2])]]) = .error .notFullRank := by decide +kernel

/-- mixed outcome counts (distributions of lengths 1 and 2) are concatenated -/
example : estimate 2 (#v[#v[2/3, -1/3], #v[-1/3, 2/3]] : Mat Rat 2 2)
    (#v[#v[1, 0], #v[0, 1], #v[1, 1]] : Mat Rat 3 2) (#v[0, 0, 1/2] : Vec Rat 3)
    [(1, [1/4]), (1, [3/4, 3/2])] = .ok #v[1/4, 3/4] := by decide +kernel

example : lsqCert (#v[#v[1, 0], #v[0, 1], #v[1, 1]] : Mat Rat 3 2) (#v[0, 0, 1/2] : Vec Rat 3)
    (#v[1/4, 3/4, 3/2] : Vec Rat 3) (#v[1/4, 3/4] : Vec Rat 2) 0 = true := by decide +kernel

example : lsqExact (#v[#v[1, 0], #v[0, 1], #v[1, 1]] : Mat Rat 3 2) (#v[0, 0, 1/2] : Vec Rat 3)
    (#v[1, 0, 0] : Vec Rat 3) = some #v[1/2, -1/2] := by decide +kernel

/-- toy QST (vectors of length 2, one two-outcome POVM, flag = False): dictionary, its matrix form, the exact
inverse, and exact circuit data — all hypotheses of `qst_lin_recovers` hold -/
example : QM.C08.qstCoeffs false (1 : Rat) [[[1, 0], [1, 1]]] [0] =
    some (QM.C08.mkCoeffs [[([1, 0], 0), ([1, 1], 0)]]) := by decide +kernel

example : rowsOf (#v[#v[1, 0], #v[1, 1]] : Mat Rat 2 2) =
    QM.C08.matA (QM.C08.mkCoeffs [[([1, 0], 0), ([1, 1], 0)]]) := by
  rw [QM.C08.matA, QM.C08.dict_sorted]; decide +kernel

example : Contract (K := ℚ) (#v[#v[1, -1], #v[-1, 2]] : Mat ℚ 2 2) (#v[#v[1, 0], #v[1, 1]] : Mat ℚ 2 2) := by
  unfold Contract; decide +kernel

example : QM.C08.qstCircuit false (1 : Rat) [[[1, 0], [1, 1]]] [0] (#v[1/3, 1/4] : Vec Rat 2).toList =
    some [[1/3, 7/12]] := by decide +kernel

/-- the generated definitions evaluated on the 3×2 instance above -/
example : QGen.C09.v (QGen.C09.A_ddag (fun _ => (#v[#v[2/3, -1/3], #v[-1/3, 2/3]] : Mat Rat 2 2))
    (#v[#v[1, 0], #v[0, 1], #v[1, 1]] : Mat Rat 3 2)) (#v[1/4, 3/4, 3/2] : Vec Rat 3) (#v[0, 0, 1/2] : Vec Rat 3)
    = #v[1/4, 3/4] := by decide +kernel

example : QGen.C09.is_fullrank 3 2 2 = true ∧ QGen.C09.is_fullrank 2 3 2 = true ∧ QGen.C09.is_fullrank 3 2 1 = false := by
  decide

/-- the 3×2 instance passes the guard through the solvable branch of `guard_lets_through_iff` -/
example : isFullRank 3 2 (Mat.toM (#v[#v[1, 0], #v[0, 1], #v[1, 1]] : Mat ℚ 3 2)).rank = true :=
  (guard_lets_through_iff _).2 (Or.inl ⟨(#v[#v[2/3, -1/3], #v[-1/3, 2/3]] : Mat ℚ 2 2), by
    unfold Contract; decide +kernel⟩)

/-- a wide matrix of full row rank passes the guard although no inverse contract can hold for it -/
example : isFullRank 1 2 (Mat.toM (#v[#v[1, 1]] : Mat ℚ 1 2)).rank = true ∧
    ¬ ∃ G : Mat ℚ 2 2, Contract G (#v[#v[1, 1]] : Mat ℚ 1 2) := by
  refine ⟨?_, wide_no_contract _ (by omega)⟩
  rw [guard_lets_through_iff]
  right
  refine ⟨by omega, le_antisymm (Matrix.rank_le_height _) ?_⟩
  set M := Mat.toM (#v[#v[1, 1]] : Mat ℚ 1 2) with hM
  have h1 : (M * Mᵀ).rank ≤ M.rank := Matrix.rank_mul_le_left _ _
  have e : M * Mᵀ = (2 : ℚ) • (1 : Matrix (Fin 1) (Fin 1) ℚ) := by
    ext i j
    fin_cases i; fin_cases j
    simp [hM, Mat.toM, Mat.get, Matrix.mul_apply, Fin.sum_univ_two]
    norm_num
  have hu : IsUnit ((2 : ℚ) • (1 : Matrix (Fin 1) (Fin 1) ℚ)) := by
    rw [Matrix.isUnit_iff_isUnit_det]; simp
  rw [e, Matrix.rank_of_isUnit _ hu] at h1
  simpa using h1

/-- an inexact inverse (`2/3` replaced by `2/3 + 1/1000`) is accepted at `δ = 1/100` and rejected at `δ = 0`;
the exact inverse is accepted at `δ = 0` -/
example : invCert (#v[#v[2/3 + 1/1000, -1/3], #v[-1/3, 2/3]] : Mat Rat 2 2)
      (#v[#v[1, 0], #v[0, 1], #v[1, 1]] : Mat Rat 3 2) (1/100) = true ∧
    invCert (#v[#v[2/3 + 1/1000, -1/3], #v[-1/3, 2/3]] : Mat Rat 2 2)
      (#v[#v[1, 0], #v[0, 1], #v[1, 1]] : Mat Rat 3 2) 0 = false ∧
    invCert (#v[#v[2/3, -1/3], #v[-1/3, 2/3]] : Mat Rat 2 2)
      (#v[#v[1, 0], #v[0, 1], #v[1, 1]] : Mat Rat 3 2) 0 = true := by decide +kernel

/-- the wide matrix `[[1, 1]]` passes the guard (rank 1) and numpy's inverse raises: `singular`, also without data -/
example : estSeqInv 1 (none : Option (Mat Rat 2 2)) (#v[#v[1, 1]] : Mat Rat 1 2) (#v[1/2] : Vec Rat 1) [] =
    .error .singular := by decide +kernel

/-- hypotheses of `lin_recovers_var_approx` on the toy QST: an inverse that is off by 1/1000 is certified at `δ = 1/100` -/
example : invCert (#v[#v[1 + 1/1000, -1], #v[-1, 2]] : Mat Rat 2 2) (#v[#v[1, 0], #v[1, 1]] : Mat Rat 2 2) (1/100) = true := by
  decide +kernel

end QM.C09
