import QProofs.C06
import QGen.C06
import QProofs.Psd
/-!
# C06 — property theorems: composition implements quantum mechanics and is associative

Everything is stated about the executable definitions of `QModel/C06.lean` (arrays of coefficients in an
orthonormal Hermitian basis whose 0th element is `I/√d`; `sd` stands for `√d`, so `tr ρ = sd·ρ₀`,
a gate is trace preserving iff its first row is `e₀`, a POVM sums to the identity iff `Σ_x Π_x = sd·e₀`).
All statements hold for every dimension `n = d²`, every number of outcomes and every list length.
-/
open Matrix
namespace QM.C06
open QM

section algebra
variable {K : Type} [CommRing K] {n : Nat}

/-- C06 "a POVM after a gate is the Heisenberg-picture POVM": the Born statistics of `Π∘G` on `ρ` are those of
`Π` on `Gρ`, outcome by outcome (`⟪(Π∘G)_x, ρ⟫ = ⟪Π_x, Gρ⟫`). -/
theorem heisenberg_gate (vecs : List (Vec K n)) (G : Mat K n n) (rho : Vec K n) :
    bornRaw (povmGate vecs G) rho = bornRaw vecs (G.mulVec rho) := by
  simp [bornRaw, povmGate, dot_vecMat]

/-- C06 "POVM∘MProcess layout": the element stored at serial index `i·|Π| + j` is `HS_iᵀ Π_j`
(measurement-process outcome slow, POVM outcome fast) and there are `|M|·|Π|` elements. -/
theorem povm_mprocess_layout (vecs : List (Vec K n)) (hss : List (Mat K n n)) (i j : Nat)
    (hs : Mat K n n) (v : Vec K n) (hi : hss[i]? = some hs) (hj : vecs[j]? = some v) :
    (povmMProcess vecs hss)[i * vecs.length + j]? = some (vecMat v hs) ∧
      (povmMProcess vecs hss).length = hss.length * vecs.length := by
  refine ⟨?_, length_flatMap_map _ _ _⟩
  have := getElem?_flatMap_map hss vecs (fun hs v => hs.transpose.mulVec v) i j hs v hi hj
  rw [← transpose_mulVec_eq_vecMat]; exact this

/-- C06 "a POVM after a measurement process is the Heisenberg-picture POVM": the statistics of `Π∘M` on `ρ`
are, block by block in the (process outcome, POVM outcome) layout, the Born statistics of `Π` on the
unnormalised post-measurement vectors `HS_i ρ`. -/
theorem heisenberg_mprocess (vecs : List (Vec K n)) (hss : List (Mat K n n)) (rho : Vec K n) :
    bornRaw (povmMProcess vecs hss) rho = hss.flatMap fun hs => bornRaw vecs (hs.mulVec rho) := by
  simp only [bornRaw, povmMProcess, List.map_flatMap, List.map_map]
  congr 1; funext hs; congr 1; funext v
  simp [transpose_mulVec_eq_vecMat, dot_vecMat]

/-- the POVM equality constraint on coefficient arrays: `Σ_x Π_x = sd·e₀` (= the identity matrix) -/
def IdentitySum [NeZero n] (sd : K) (vecs : List (Vec K n)) : Prop :=
  ∀ i : Fin n, lsum (vecs.map fun v => v.get i) = if i = 0 then sd else 0

/-- trace-one state: `sd·ρ₀ = 1` -/
def TraceOne [NeZero n] (sd : K) (rho : Vec K n) : Prop := sd * rho.get 0 = 1

/-- trace preserving gate: first row of the HS matrix is `e₀` -/
def IsTP [NeZero n] (A : Mat K n n) : Prop := ∀ j : Fin n, A.get 0 j = if j = 0 then 1 else 0

/-- measurement process whose outcome maps sum to a trace-preserving map -/
def SumTP [NeZero n] (hss : List (Mat K n n)) : Prop :=
  ∀ j : Fin n, lsum (hss.map fun hs => hs.get 0 j) = if j = 0 then 1 else 0

/-- C06 "Born-rule distribution sums to one": for an identity-sum POVM and a unit-trace state the raw Born
probabilities `⟪Π_x, ρ⟫` sum to exactly 1 (so `truncate_and_normalize` divides by 1). -/
theorem born_sum_one [NeZero n] (sd : K) (vecs : List (Vec K n)) (rho : Vec K n)
    (hP : IdentitySum sd vecs) (hr : TraceOne sd rho) : lsum (bornRaw vecs rho) = 1 := by
  unfold bornRaw Vec.dot
  rw [lsum_fsum_swap vecs (fun v i => v.get i * rho.get i)]
  have : ∀ i : Fin n, lsum (vecs.map fun a => a.get i * rho.get i)
      = (if i = 0 then sd else 0) * rho.get i := by
    intro i
    rw [← hP i]
    have := lsum_map_mul_left (rho.get i) vecs (fun v => v.get i)
    simp only [mul_comm (rho.get i)] at this
    rw [this]
  simp only [this, fsum_eq_sum]
  simp only [ite_mul, zero_mul, Finset.sum_ite_eq', Finset.mem_univ, if_true]
  exact hr

/-- C06 "measurement process probability = probability of the POVM it induces":
`p_x = sd·(HS_x ρ)₀ = ⟪to_povm(M)_x, ρ⟫`. -/
theorem mprocess_prob_eq_to_povm [NeZero n] (sd : K) (hss : List (Mat K n n)) (rho : Vec K n) :
    bornRaw (toPovm sd hss) rho = hss.map fun hs => sd * (hs.mulVec rho).get 0 := by
  simp only [bornRaw, toPovm, List.map_map]
  congr 1; funext hs
  simp [Vec.dot, Vec.smul, row, Mat.mulVec, fsum_eq_sum, Finset.mul_sum, mul_assoc]

/-- C06 "probabilities of a measurement process sum to one": for `Σ_x HS_x` trace preserving and a
unit-trace state, `Σ_x sd·(HS_x ρ)₀ = 1`. -/
theorem mprocess_prob_sum_one [NeZero n] (sd : K) (hss : List (Mat K n n)) (rho : Vec K n)
    (hM : SumTP hss) (hr : TraceOne sd rho) :
    lsum (hss.map fun hs => sd * (hs.mulVec rho).get 0) = 1 := by
  rw [← mprocess_prob_eq_to_povm]
  apply born_sum_one sd _ rho _ hr
  intro i
  have := hM i
  simp only [toPovm, List.map_map]
  have h2 := lsum_map_mul_left sd hss (fun hs => hs.get 0 i)
  have : (fun v : Vec K n => v.get i) ∘ (fun hs : Mat K n n => Vec.smul sd (row hs 0))
      = fun hs => sd * hs.get 0 i := by
    funext hs; simp [Vec.smul, row]
  rw [this, h2, hM i]; split <;> simp

/-- C06 "to_povm ∘ generate_mprocess(mode 2) = id": when every post-selected state has unit trace the
POVM induced by the prepared-state measurement process is the original POVM (zip form). -/
theorem mode2_to_povm_list [NeZero n] (sd : K) (states vecs : List (Vec K n))
    (hlen : states.length = vecs.length) (hs : ∀ s ∈ states, TraceOne sd s) :
    toPovm sd (genMode2List states vecs) = vecs := by
  induction states generalizing vecs with
  | nil => cases vecs <;> simp_all [toPovm, genMode2List]
  | cons s ss ih =>
    cases vecs with
    | nil => simp at hlen
    | cons v vs =>
      have h1 : Vec.smul sd (row (outer s v) 0) = v := by
        apply Vec.ext'; intro i
        have := hs s (by simp)
        unfold TraceOne at this
        simp [Vec.smul, row, outer, ← mul_assoc, this]
      have := ih vs (by simpa using hlen) (fun x hx => hs x (by simp [hx]))
      simp only [toPovm, genMode2List, List.zip_cons_cons, List.map_cons] at *
      rw [h1, this]

/-- single post-selected state form of the same round trip -/
theorem mode2_to_povm [NeZero n] (sd : K) (state : Vec K n) (vecs : List (Vec K n))
    (hs : TraceOne sd state) : toPovm sd (genMode2 state vecs) = vecs := by
  unfold TraceOne at hs
  simp only [toPovm, genMode2, List.map_map]
  conv_rhs => rw [← List.map_id vecs]
  congr 1; funext v
  apply Vec.ext'; intro i
  simp [Vec.smul, row, outer, ← mul_assoc, hs]

/-- C06 "composing physical operations gives a physical result", equality part for gates:
TP ∘ TP is TP (first-row argument). -/
theorem tp_comp_tp [NeZero n] (A B : Mat K n n) (hA : IsTP A) (hB : IsTP B) : IsTP (A.mul B) := by
  unfold IsTP at *
  intro j
  simp only [Mat.mul, Mat.get_ofFn, fsum_eq_sum]
  simp only [hA, ite_mul, one_mul, zero_mul, Finset.sum_ite_eq', Finset.mem_univ, if_true, hB]

/-- a TP gate preserves the trace coefficient of every vector (hence unit trace of states) -/
theorem tp_preserves_trace [NeZero n] (A : Mat K n n) (v : Vec K n) (hA : IsTP A) :
    (A.mulVec v).get 0 = v.get 0 := by
  unfold IsTP at hA
  simp only [Mat.mulVec, Vec.get_ofFn, fsum_eq_sum, hA, ite_mul, one_mul, zero_mul,
    Finset.sum_ite_eq', Finset.mem_univ, if_true]

/-- column sums of `Π∘G` for an arbitrary matrix `G`: `Σ_x (Π_x G)_j = sd·G₀ⱼ` -/
theorem povm_gate_identity_sum_aux [NeZero n] (sd : K) (vecs : List (Vec K n)) (G : Mat K n n)
    (hP : IdentitySum sd vecs) (j : Fin n) :
    lsum ((povmGate vecs G).map fun v => v.get j) = sd * G.get 0 j := by
  simp only [povmGate, List.map_map]
  have : ((fun v : Vec K n => v.get j) ∘ fun v => vecMat v G)
      = fun v => fsum n fun i => v.get i * G.get i j := by
    funext v; simp [vecMat]
  rw [this, lsum_fsum_swap vecs (fun v i => v.get i * G.get i j)]
  have h : ∀ i : Fin n, lsum (vecs.map fun a => a.get i * G.get i j)
      = (if i = 0 then sd else 0) * G.get i j := by
    intro i
    rw [← hP i]
    have := lsum_map_mul_left (G.get i j) vecs (fun v => v.get i)
    simp only [mul_comm (G.get i j)] at this
    rw [this]
  simp only [h, fsum_eq_sum, ite_mul, zero_mul, Finset.sum_ite_eq', Finset.mem_univ, if_true]

/-- Heisenberg-picture POVM of an identity-sum POVM through a TP gate is identity-sum. -/
theorem povm_gate_identity_sum [NeZero n] (sd : K) (vecs : List (Vec K n)) (G : Mat K n n)
    (hP : IdentitySum sd vecs) (hG : IsTP G) : IdentitySum sd (povmGate vecs G) := by
  unfold IsTP at hG
  intro j
  simp only [povmGate, List.map_map]
  have : ((fun v : Vec K n => v.get j) ∘ fun v => vecMat v G)
      = fun v => fsum n fun i => v.get i * G.get i j := by
    funext v; simp [vecMat]
  rw [this, lsum_fsum_swap vecs (fun v i => v.get i * G.get i j)]
  have h : ∀ i : Fin n, lsum (vecs.map fun a => a.get i * G.get i j)
      = (if i = 0 then sd else 0) * G.get i j := by
    intro i
    rw [← hP i]
    have := lsum_map_mul_left (G.get i j) vecs (fun v => v.get i)
    simp only [mul_comm (G.get i j)] at this
    rw [this]
  simp only [h, fsum_eq_sum, ite_mul, zero_mul, Finset.sum_ite_eq', Finset.mem_univ, if_true, hG]
  split <;> simp

/-- Heisenberg-picture POVM of an identity-sum POVM through a sum-TP measurement process is identity-sum
(so `Π∘M` is again a POVM and its Born probabilities sum to one by `born_sum_one`). -/
theorem povm_mprocess_identity_sum [NeZero n] (sd : K) (vecs : List (Vec K n)) (hss : List (Mat K n n))
    (hP : IdentitySum sd vecs) (hM : SumTP hss) : IdentitySum sd (povmMProcess vecs hss) := by
  unfold SumTP at hM
  intro j
  have hblock : ∀ hs : Mat K n n, lsum ((vecs.map fun v => hs.transpose.mulVec v).map fun v => v.get j)
      = sd * hs.get 0 j := by
    intro hs
    have := povm_gate_identity_sum_aux sd vecs hs hP j
    simpa [povmGate, transpose_mulVec_eq_vecMat] using this
  have : lsum ((povmMProcess vecs hss).map fun v => v.get j)
      = lsum (hss.map fun hs => sd * hs.get 0 j) := by
    clear hM
    unfold povmMProcess
    induction hss with
    | nil => simp [lsum]
    | cons hs hss ih =>
      simp only [List.flatMap_cons, List.map_append, lsum_append, List.map_cons]
      rw [hblock hs, ih]
      simp [lsum]
  rw [this, lsum_map_mul_left, hM j]; split <;> simp

/-! ### instruments: sequential composition and its associativity -/

/-- unnormalised action of an instrument on a list of (weighted) states, earlier outcome slow:
`for w in ws: for hs in hss: hs w`. This is what `MProcess∘StateEnsemble` computes before normalisation. -/
def applyInst (hss : List (Mat K n n)) (ws : List (Vec K n)) : List (Vec K n) :=
  ws.flatMap fun w => hss.map fun hs => hs.mulVec w

/-- C06 "any two bracketings give the same statistics with the same labelling", instrument level:
applying `M₂` to the outcome branches of `M₁` equals applying the sequential composition
`mpMp hss₁ hss₂` = `_compose_qoperations_MProcess_MProcess` (elem1 after elem2, HS product `hs1 @ hs2`, layout
(elem2 outcome, elem1 outcome))
— for all outcome counts and dimensions. -/
theorem applyInst_comp (h1 h2 : List (Mat K n n)) (ws : List (Vec K n)) :
    applyInst h1 (applyInst h2 ws) = applyInst (mpMp h1 h2) ws := by
  simp only [applyInst, mpMp, List.flatMap_assoc, List.map_flatMap, List.flatMap_map, List.map_map]
  congr 1; funext w
  simp only [List.flatMap_def, List.map_map]
  congr 2; funext hs2
  congr 1; funext hs1
  simp [mulVec_mulVec]

/-- `MProcess∘MProcess` is associative as a list (i.e. including the outcome layout). -/
theorem mpMp_assoc (a b c : List (Mat K n n)) :
    mpMp (mpMp a b) c = mpMp a (mpMp b c) := by
  simp only [mpMp, List.flatMap_assoc, List.map_flatMap, List.flatMap_map, List.map_map]
  congr 1; funext z
  simp only [List.flatMap_def, List.map_map]
  congr 2; funext y
  congr 1; funext x
  simp [mul_assoc']

/-- layout of `MProcess∘MProcess`: index `i₂·|M₁| + i₁` holds `HS¹_{i₁} HS²_{i₂}`, i.e. row-major in
(elem2 outcome, elem1 outcome) = (earlier, later), matching the shape `shape2 ++ shape1`. -/
theorem mpMp_layout (h1 h2 : List (Mat K n n)) (i1 i2 : Nat) (a b : Mat K n n)
    (ha : h1[i1]? = some a) (hb : h2[i2]? = some b) :
    (mpMp h1 h2)[i2 * h1.length + i1]? = some (a.mul b) :=
  getElem?_flatMap_map h2 h1 (fun hs2 hs1 => hs1.mul hs2) i2 i1 b a hb ha

end algebra

/-! ### normalisation: `truncate_and_normalize`, post-measurement states -/
section field
variable {K : Type} [Field K] {n : Nat}

/-- C06 "Born-rule distribution … summing to one" as computed: whenever `truncate_and_normalize` returns, its
output sums to exactly one. -/
theorem truncNorm_sum_one [LT K] [DecidableLT K] [DecidableEq K] (eps : K) (ps qs : List K)
    (h : truncNorm eps ps = some qs) : lsum qs = 1 := by
  unfold truncNorm at h
  simp only at h
  split at h
  · cases h
  · rename_i hne
    injection h with h; subst h
    rw [lsum_map_div, div_self hne]

/-- in the generic regime (no entry below the threshold, unit sum) `truncate_and_normalize` is the identity, so
the distribution returned by `Povm∘State` *is* the Born distribution `⟪Π_x, ρ⟫`. -/
theorem truncNorm_generic [LT K] [DecidableLT K] [DecidableEq K] (eps : K) (ps : List K)
    (h : ∀ p ∈ ps, ¬ p < eps) (hs : lsum ps = 1) : truncNorm eps ps = some ps := by
  unfold truncNorm
  have ht : (ps.map fun p => if p < eps then 0 else p) = ps := by
    conv_rhs => rw [← List.map_id ps]
    apply List.map_congr_left
    intro p hp; simp [h p hp]
  simp only [ht, hs, one_ne_zero, if_false, div_one, List.map_id']

/-- C06 "normalised post-measurement state": `HS_x ρ / p_x` with `p_x = sd·(HS_x ρ)₀ ≠ 0` has unit trace. -/
theorem post_state_trace_one [NeZero n] (sd : K) (r : Vec K n) (hp : sd * r.get 0 ≠ 0) :
    TraceOne sd (vdiv r (sd * r.get 0)) := by
  unfold TraceOne
  simp only [vdiv, Vec.get_ofFn]
  rw [← mul_div_assoc, div_self hp]

/-- `p_x · (post state) = HS_x ρ`: the ensemble stores exactly the unnormalised Kraus-level state. -/
theorem post_state_scaled (p : K) (r : Vec K n) (hp : p ≠ 0) : Vec.smul p (vdiv r p) = r := by
  apply Vec.ext'; intro i
  simp only [Vec.smul, vdiv, Vec.get_ofFn]
  field_simp

end field

/-! ### the executed dispatch (scalars = ℚ) -/
section dispatch
variable {n : Nat} [NeZero n]

/-- C06 "a measurement process on a state gives each outcome's probability together with the normalised
post-measurement state" (`_compose_qoperations_MProcess_State_for_States`), generic regime = no outcome is
truncated (`weight·p_x > eps_zero ≥ 0` for all x): probabilities are `weight·sd·(HS_x ρ)₀` and post states are
`HS_x ρ / p_x`. Partial: the no-truncation regime only; every branch is stated exactly in `mprocess_state_exact`
(with `truncated_probs_sum`, `truncated_weighted_state`, `post_states_normalised`). -/
theorem mprocess_state_partial (sd eps : Rat) (hss : List (Mat Rat n n)) (rho : Vec Rat n) (w : Rat)
    (heps : 0 ≤ eps) (hno : ∀ hs ∈ hss, ¬ w * (sd * (hs.mulVec rho).get 0) ≤ eps) :
    forStates sd eps hss rho w =
      (hss.map fun hs => vdiv (hs.mulVec rho) (sd * (hs.mulVec rho).get 0),
       hss.map fun hs => w * (sd * (hs.mulVec rho).get 0)) := by
  have hne : ∀ hs ∈ hss, sd * (hs.mulVec rho).get 0 ≠ 0 := by
    intro hs hh h0
    apply hno hs hh
    rw [h0, mul_zero]; exact heps
  unfold forStates
  simp only [List.map_map]
  have hany : (List.map ((fun r : Vec Rat n => sd * r.get 0) ∘ fun hs : Mat Rat n n => hs.mulVec rho) hss).any
      (fun p => decide (w * p ≤ eps)) = false := by
    rw [List.any_eq_false]
    intro p hp
    simp only [List.mem_map, Function.comp] at hp
    obtain ⟨hs, hh, rfl⟩ := hp
    simpa using hno hs hh
  have hps0 : List.map ((fun p => if w * p ≤ eps then 0 else p) ∘
      ((fun r : Vec Rat n => sd * r.get 0) ∘ fun hs : Mat Rat n n => hs.mulVec rho)) hss
      = hss.map fun hs => sd * (hs.mulVec rho).get 0 := by
    apply List.map_congr_left
    intro hs hh
    simp [Function.comp, hno hs hh]
  simp only [hany, hps0, Bool.false_and, Bool.false_eq_true, if_false, List.map_map]
  refine Prod.ext ?_ rfl
  simp only [List.zip_map, List.map_map]
  rw [List.zip_self_eq_map]   -- zip l l
  simp only [List.map_map]
  apply List.map_congr_left
  intro hs hh
  simp [Function.comp, hne hs hh]

/-- `_compose_qoperations_MProcess_State_for_States` of `M∘G` on `ρ` is that of `M` on `Gρ` (all branches,
including truncation decisions). -/
theorem forStates_mul_gate (sd eps : Rat) (hss : List (Mat Rat n n)) (G : Mat Rat n n) (rho : Vec Rat n)
    (w : Rat) :
    forStates sd eps (hss.map fun hs => hs.mul G) rho w = forStates sd eps hss (G.mulVec rho) w := by
  unfold forStates
  simp only [List.map_map, Function.comp_def, mulVec_mulVec]

/-- C06 associativity, exact: `(M∘G)∘ρ` and `M∘(G∘ρ)` are the same model value (same ensemble, same probabilities,
same truncation decisions, same `eps_zero`, same errors), for every well-formed measurement process with **any**
`eps_zero`, every gate and every state (the composite `M∘G` keeps `M`'s `eps_zero`). -/
theorem assoc_mprocess_gate_state (c : Cfg) (s : Nat) (shape : List Nat) (eps : Rat) (hss : List (Mat Rat n n))
    (G : Mat Rat n n) (rho : Vec Rat n) (hsz : hss.length = QM.C16.prod shape) :
    (compose c (.mprocess s shape eps hss) (.gate s G)).bind (fun x => compose c x (.state s rho))
      = (compose c (.gate s G) (.state s rho)).bind (fun y => compose c (.mprocess s shape eps hss) y) := by
  simp only [compose, ne_eq, not_true_eq_false, if_false, mkMProcess, List.length_map, hsz,
    Except.bind, mpState, forStates_mul_gate]

/-- C06 associativity, exact: `(Π∘G)∘ρ = Π∘(G∘ρ)` as model values (Heisenberg = Schrödinger picture). -/
theorem assoc_povm_gate_state (c : Cfg) (s : Nat) (nums : List Nat) (vecs : List (Vec Rat n))
    (G : Mat Rat n n) (rho : Vec Rat n) :
    (compose c (.povm s nums vecs) (.gate s G)).bind (fun x => compose c x (.state s rho))
      = (compose c (.gate s G) (.state s rho)).bind (fun y => compose c (.povm s nums vecs) y) := by
  simp only [compose, ne_eq, not_true_eq_false, if_false, Except.bind, povmState, heisenberg_gate]

/-- C06 associativity, exact, with layout: `(Π∘M)∘G = Π∘(M∘G)` as model values. -/
theorem assoc_povm_mprocess_gate (c : Cfg) (s : Nat) (nums shape : List Nat) (eps : Rat)
    (vecs : List (Vec Rat n)) (hss : List (Mat Rat n n)) (G : Mat Rat n n)
    (hsz : hss.length = QM.C16.prod shape) :
    (compose c (.povm s nums vecs) (.mprocess s shape eps hss)).bind (fun x => compose c x (.gate s G))
      = (compose c (.mprocess s shape eps hss) (.gate s G)).bind (fun y => compose c (.povm s nums vecs) y) := by
  simp only [compose, ne_eq, not_true_eq_false, if_false, Except.bind, mkMProcess, List.length_map, hsz]
  have : povmGate (povmMProcess vecs hss) G = povmMProcess vecs (hss.map fun hs => hs.mul G) := by
    simp only [povmGate, povmMProcess, List.map_flatMap, List.flatMap_map, List.map_map]
    congr 1; funext hs; apply List.map_congr_left; intro v _
    simp only [Function.comp, transpose_mulVec_eq_vecMat]
    apply Vec.toV_injective
    simp [toV_vecMat, Matrix.vecMul_vecMul]
  simp only [povmGate] at this
  simp only [povmGate, Except.ok.injEq, QOp.povm.injEq, true_and]
  rw [← this]
  simp

/-- C06 associativity `(G∘M)∘ρ = G∘(M∘ρ)` at the level of `_compose_qoperations_MProcess_State_for_States`:
for a **trace-preserving** gate the probabilities, the truncation decisions and the renormalisation of `G∘M`
on `ρ` are those of `M` on `ρ`, and the post states are the gate applied to the post states of `M`.
(Without TP the probabilities differ — this is where trace preservation enters.) All outcome counts. -/
theorem forStates_gate_mul (sd eps : Rat) (hss : List (Mat Rat n n)) (G : Mat Rat n n) (rho : Vec Rat n)
    (w : Rat) (hG : IsTP G) :
    forStates sd eps (hss.map fun hs => G.mul hs) rho w
      = (((forStates sd eps hss rho w).1).map fun v => G.mulVec v, (forStates sd eps hss rho w).2) := by
  unfold forStates
  simp only [List.map_map, Function.comp_def, mulVec_mulVec, tp_preserves_trace G _ hG]
  refine Prod.ext ?_ rfl
  simp only [List.zip_map_left, List.map_map, List.zip_map, Function.comp_def]
  apply List.map_congr_left
  intro a _
  simp only [Prod.map_snd, Prod.map_fst, id]
  split
  · simp [mulVec_zero_vec]
  · simp [mulVec_vdiv]

/-- all bracketings of a chain of gates on one system evaluate to the same gate (generalised associativity,
any chain length). -/
theorem gate_chain_bracketing (c : Cfg) (s : Nat) (t : Tree n)
    (h : ∀ x ∈ t.leaves, ∃ A, x = QOp.gate s A) :
    ∃ A, t.eval c = .ok (.gate s A) ∧
      ∀ t' : Tree n, t'.leaves = t.leaves → t'.eval c = .ok (.gate s A) := by
  have key : ∀ t : Tree n, (∀ x ∈ t.leaves, ∃ A, x = QOp.gate s A) →
      t.eval c = .ok (.gate s (gateProd t.leaves)) := by
    intro t
    induction t with
    | leaf x =>
      intro h
      obtain ⟨A, rfl⟩ := h x (by simp [Tree.leaves])
      simp [Tree.eval, Tree.leaves, gateProd, gateOf, mul_one']
    | node l r ihl ihr =>
      intro h
      have hl := ihl (fun x hx => h x (by simp [Tree.leaves, hx]))
      have hr := ihr (fun x hx => h x (by simp [Tree.leaves, hx]))
      simp only [Tree.eval, hl, hr, bind, Except.bind, compose, ne_eq, not_true_eq_false, if_false,
        Tree.leaves]
      rw [gateProd_append _ _ (leaves_ne_nil l) (leaves_ne_nil r)]
  exact ⟨_, key t h, fun t' ht' => by rw [key t' (ht' ▸ h), ht']⟩

end dispatch

/-! ### instruments: all bracketings -/
section inst
variable {K : Type} [CommRing K] {n : Nat}

/-- a bracketing of a chain of instruments (lists of outcome maps) -/
inductive ITree (K : Type) (n : Nat)
  | leaf (hss : List (Mat K n n))
  | node (l r : ITree K n)

/-- evaluation with `MProcess∘MProcess` (`l` after `r`) -/
def ITree.eval : ITree K n → List (Mat K n n)
  | .leaf h => h
  | .node l r => mpMp l.eval r.eval

def ITree.leaves : ITree K n → List (List (Mat K n n))
  | .leaf h => [h]
  | .node l r => l.leaves ++ r.leaves

/-- right-nested composition of a chain (latest first), the trivial one-outcome identity instrument for `[]` -/
def foldInst : List (List (Mat K n n)) → List (Mat K n n)
  | [] => [Mat.one]
  | h :: t => mpMp h (foldInst t)

/-- helper: unit law: composing with the one-outcome identity instrument on the right changes nothing -/
theorem mpMp_one_right (h : List (Mat K n n)) : mpMp h [Mat.one] = h := by
  simp [mpMp, mul_one']

/-- helper: `1·A = A` for the executable matrix product -/
theorem one_mul_mat (A : Mat K n n) : (Mat.one : Mat K n n).mul A = A := by
  apply Mat.toM_injective; simp

/-- helper: unit law: composing with the one-outcome identity instrument on the left changes nothing -/
theorem mpMp_one_left (h : List (Mat K n n)) : mpMp [Mat.one] h = h := by
  simp [mpMp, one_mul_mat]

/-- helper: the right-nested composition of a concatenated chain is the composition of the two right-nested parts (monoid homomorphism; uses `mpMp_assoc`) -/
theorem foldInst_append (a b : List (List (Mat K n n))) :
    foldInst (a ++ b) = mpMp (foldInst a) (foldInst b) := by
  induction a with
  | nil => simp [foldInst, mpMp_one_left]
  | cons h t ih => simp only [List.cons_append, foldInst, ih, mpMp_assoc]

/-- C06 "any two ways of bracketing the same time-ordered chain give the same outcome statistics with the same
outcome labelling", instrument level: every bracketing of a chain of instruments (any length,
any outcome counts) evaluates to the same *list* of outcome maps — same maps, same layout — namely the
right-nested composition of the leaves. -/
theorem instrument_bracketing (t : ITree K n) : t.eval = foldInst t.leaves ∧
    ∀ t' : ITree K n, t'.leaves = t.leaves → t'.eval = t.eval := by
  have key : ∀ t : ITree K n, t.eval = foldInst t.leaves := by
    intro t
    induction t with
    | leaf h => simp [ITree.eval, ITree.leaves, foldInst, mpMp_one_right]
    | node l r ihl ihr => simp only [ITree.eval, ITree.leaves, foldInst_append, ihl, ihr]
  exact ⟨key t, fun t' h => by rw [key t', key t, h]⟩

/-- the branches `Gate∘Gate`, `Gate∘MProcess`, `MProcess∘Gate` of the dispatch are instances of `MProcess∘MProcess`
(a gate is the one-outcome instrument), so `instrument_bracketing` covers every chain of gates and measurement
processes. -/
theorem gate_branches_are_instruments (a b : Mat K n n) (hss : List (Mat K n n)) :
    [a.mul b] = mpMp [a] [b] ∧
    (hss.map fun hs => a.mul hs) = mpMp [a] hss ∧
    (hss.map fun hs => hs.mul b) = mpMp hss [b] := by
  refine ⟨by simp [mpMp], ?_, by simp [mpMp]⟩
  simp only [mpMp, List.map_cons, List.map_nil]
  induction hss with
  | nil => rfl
  | cons h t ih => simp [List.flatMap_cons, ih]

end inst

/-! ### instruments on the executed evaluator (`Tree.eval` / `composeChain` over `compose`) -/
section exec
variable {n : Nat} [NeZero n]

/-- list of outcome maps a gate / measurement process stands for (a gate is the one-outcome instrument) -/
def instOf : QOp n → List (Mat Rat n n)
  | .gate _ A => [A]
  | .mprocess _ _ _ hss => hss
  | _ => []

/-- reported outcome shape (`()` for a gate) -/
def shapeOf : QOp n → List Nat
  | .mprocess _ shape _ _ => shape
  | _ => []

/-- a gate, or a measurement process whose number of outcome maps matches its shape, on system `s` -/
def IsInst (s : Nat) : QOp n → Prop
  | .gate s' _ => s' = s
  | .mprocess s' shape _ hss => s' = s ∧ hss.length = QM.C16.prod shape
  | _ => False

omit [NeZero n] in
theorem c16prod_append (a b : List Nat) : QM.C16.prod (a ++ b) = QM.C16.prod a * QM.C16.prod b := by
  induction a with
  | nil => simp [QM.C16.prod]
  | cons x a ih => simp only [List.cons_append, QM.C16.prod, List.foldr_cons] at *; rw [ih, Nat.mul_assoc]

omit [NeZero n] in
theorem mpMp_length (h1 h2 : List (Mat Rat n n)) : (mpMp h1 h2).length = h2.length * h1.length :=
  length_flatMap_map _ _ _

/-- one composition step of the executed dispatch on instruments: it succeeds, stays an instrument on the same
system, its outcome maps are `mpMp` of the operands' and its shape is `shape(b) ++ shape(a)` -/
theorem compose_inst (c : Cfg) (s : Nat) (a b : QOp n) (ha : IsInst s a) (hb : IsInst s b) :
    ∃ v, compose c a b = .ok v ∧ IsInst s v ∧ instOf v = mpMp (instOf a) (instOf b) ∧
      shapeOf v = shapeOf b ++ shapeOf a := by
  cases a with
  | gate s1 A =>
    cases b with
    | gate s2 B =>
      simp only [IsInst] at ha hb
      exact ⟨.gate s (A.mul B), by simp [compose, ha, hb], by simp [IsInst], by simp [instOf, mpMp], by simp [shapeOf]⟩
    | mprocess s2 sh e hss =>
      simp only [IsInst] at ha hb; obtain ⟨hs, hl⟩ := hb
      exact ⟨.mprocess s sh e (hss.map fun hs => A.mul hs), by simp [compose, mkMProcess, hl, ha, hs],
        by simp [IsInst, hl], (gate_branches_are_instruments A A hss).2.1, by simp [shapeOf]⟩
    | _ => simp [IsInst] at hb
  | mprocess s1 sh1 e1 h1 =>
    cases b with
    | gate s2 B =>
      simp only [IsInst] at ha hb; obtain ⟨hs, hl⟩ := ha
      exact ⟨.mprocess s sh1 e1 (h1.map fun hs => hs.mul B), by simp [compose, mkMProcess, hl, hb, hs],
        by simp [IsInst, hl], by simpa [instOf] using (gate_branches_are_instruments B B h1).2.2, by simp [shapeOf]⟩
    | mprocess s2 sh2 e2 h2 =>
      simp only [IsInst] at ha hb; obtain ⟨hs1, hl1⟩ := ha; obtain ⟨hs2, hl2⟩ := hb
      have hlen : (mpMp h1 h2).length = QM.C16.prod (sh2 ++ sh1) := by
        rw [mpMp_length, c16prod_append, hl1, hl2]
      exact ⟨.mprocess s (sh2 ++ sh1) (if e1 < e2 then e2 else e1) (mpMp h1 h2), by simp [compose, mkMProcess, hlen, hs1, hs2],
        by simp [IsInst, hlen], rfl, rfl⟩
    | _ => simp [IsInst] at hb
  | _ => simp [IsInst] at ha

/-- C06 "any two ways of bracketing the same time-ordered chain give the same outcome statistics with the same
outcome labelling", on the **executed** evaluator (`Tree.eval` over `compose`, the path of the `tree` driver op), for
chains of gates and well-formed measurement processes of any length and any outcome counts: every bracketing
evaluates without error to an instrument whose list of outcome maps is the right-nested composition of the leaves
(`foldInst`, layout included) and whose reported shape is the concatenation of the leaves' shapes, earliest first. -/
theorem tree_eval_instruments (c : Cfg) (s : Nat) (t : Tree n) (h : ∀ x ∈ t.leaves, IsInst s x) :
    ∃ v, t.eval c = .ok v ∧ IsInst s v ∧ instOf v = foldInst (t.leaves.map instOf) ∧
      shapeOf v = ((t.leaves.map shapeOf).reverse).flatten := by
  induction t with
  | leaf x =>
    refine ⟨x, rfl, h x (by simp [Tree.leaves]), ?_, by simp [Tree.leaves]⟩
    simp [Tree.leaves, foldInst, mpMp_one_right]
  | node l r ihl ihr =>
    obtain ⟨a, ha, hai, hainst, hash⟩ := ihl (fun x hx => h x (by simp [Tree.leaves, hx]))
    obtain ⟨b, hb, hbi, hbinst, hbsh⟩ := ihr (fun x hx => h x (by simp [Tree.leaves, hx]))
    obtain ⟨v, hv, hvi, hvinst, hvsh⟩ := compose_inst c s a b hai hbi
    refine ⟨v, by simp [Tree.eval, ha, hb, hv, bind, Except.bind], hvi, ?_, ?_⟩
    · rw [hvinst, hainst, hbinst, Tree.leaves, List.map_append, foldInst_append]
    · rw [hvsh, hash, hbsh, Tree.leaves, List.map_append, List.reverse_append, List.flatten_append]

/-- corollary: two bracketings of the same chain of instruments give results with the same outcome maps, in the same
order, under the same reported shape (the remaining field, `eps_zero`, is the largest `eps_zero` among the measurement
processes of the chain in every bracketing — `max` is associative — which is not stated here) -/
theorem tree_bracketing_instruments (c : Cfg) (s : Nat) (t t' : Tree n) (h : ∀ x ∈ t.leaves, IsInst s x)
    (hl : t'.leaves = t.leaves) :
    ∃ v v', t.eval c = .ok v ∧ t'.eval c = .ok v' ∧ instOf v = instOf v' ∧ shapeOf v = shapeOf v' := by
  obtain ⟨v, hv, _, hi, hs⟩ := tree_eval_instruments c s t h
  obtain ⟨v', hv', _, hi', hs'⟩ := tree_eval_instruments c s t' (hl ▸ h)
  exact ⟨v, v', hv, hv', by rw [hi, hi', hl], by rw [hs, hs', hl]⟩

/-- the right-nested bracketing of a chain -/
def rightNested : List (QOp n) → Option (Tree n)
  | [] => none
  | [x] => some (.leaf x)
  | x :: xs => (rightNested xs).map fun t => .node (.leaf x) t

omit [NeZero n] in
theorem rightNested_leaves (l : List (QOp n)) (t : Tree n) (h : rightNested l = some t) : t.leaves = l := by
  induction l generalizing t with
  | nil => simp [rightNested] at h
  | cons x xs ih =>
    cases xs with
    | nil => simp [rightNested] at h; subst h; simp [Tree.leaves]
    | cons y ys =>
      simp only [rightNested, Option.map_eq_some_iff] at h
      obtain ⟨t', ht', rfl⟩ := h
      simp [Tree.leaves, ih t' ht']

theorem foldl_chain (c : Cfg) (xs : List (QOp n)) (acc : Except Err (QOp n)) :
    (xs.reverse).foldl (fun acc e => acc.bind fun t => compose c e t) acc
      = xs.foldr (fun e r => r.bind fun t => compose c e t) acc := by
  rw [List.foldl_reverse]

/-- the public `compose_qoperations(*elements)` fold is the evaluation of the right-nested bracketing: for a chain
of at least two elements, `composeChain` returns what `Tree.eval` returns on `x₁ ∘ (x₂ ∘ (… ∘ x_k))` whenever that
evaluation succeeds (on errors both fail). -/
theorem composeChain_eq_rightNested (c : Cfg) (l : List (QOp n)) (t : Tree n) (hl : 2 ≤ l.length)
    (ht : rightNested l = some t) (v : QOp n) (hv : t.eval c = .ok v) :
    composeChain c l = some (.ok v) := by
  -- reduce to the foldr form
  have key : ∀ (l : List (QOp n)) (t : Tree n), rightNested l = some t →
      ∀ last init, l = init ++ [last] →
        t.eval c = init.foldr (fun e r => r.bind fun t => compose c e t) (.ok last) := by
    intro l
    induction l with
    | nil => intro t h; simp [rightNested] at h
    | cons x xs ih =>
      intro t h last init hl
      cases xs with
      | nil =>
        simp [rightNested] at h; subst h
        cases init with
        | nil => simp at hl; subst hl; simp [Tree.eval]
        | cons a as => simp at hl
      | cons y ys =>
        simp only [rightNested, Option.map_eq_some_iff] at h
        obtain ⟨t', ht', rfl⟩ := h
        cases init with
        | nil => simp at hl
        | cons a as =>
          simp only [List.cons_append, List.cons.injEq] at hl
          obtain ⟨rfl, hl'⟩ := hl
          have := ih t' ht' last as hl'
          simp only [Tree.eval, List.foldr_cons, this, bind, Except.bind]
  unfold composeChain
  obtain ⟨init, last, rfl⟩ : ∃ init last, l = init ++ [last] := by
    rcases List.eq_nil_or_concat l with h | ⟨i, a, h⟩
    · subst h; simp at hl
    · exact ⟨i, a, by simpa using h⟩
  have hinit : init ≠ [] := by intro h; subst h; simp at hl
  simp only [List.reverse_append, List.reverse_cons, List.reverse_nil, List.nil_append, List.singleton_append]
  cases hr : init.reverse with
  | nil => simp at hr; exact absurd hr hinit
  | cons a as =>
    simp only
    have : (a :: as) = init.reverse := hr.symm
    rw [this, foldl_chain, ← key _ t ht last init rfl, hv]

/-- what remains inexact by design of the thresholding: `(M₁∘M₂)∘ρ` truncates and renormalises over **all** joint
outcomes at once, `M₁∘(M₂∘ρ)` renormalises inside the block of each earlier outcome, so outside the no-truncation
regime (`compose_assoc_mprocess_partial`) the two bracketings can differ by the truncated mass. Witness with the same
`eps_zero = 1/7` on both processes, `M₂ = (2/3, 1/3)`, `M₁ = (3/4, 1/4)`: joint probabilities `(1/2, 1/6, 1/4, 1/12)`;
only `1/12` is truncated; the composite reports `(6/11, 2/11, 3/11, 0)`, the step-by-step evaluation `(1/2, 1/6, 1/3, 0)`. -/
theorem compose_assoc_mprocess_truncation_fails :
    ¬ ∀ (c : Cfg) (a b r : QOp 1),
        distShape ((Tree.node (.node (.leaf a) (.leaf b)) (.leaf r)).eval c)
          = distShape ((Tree.node (.leaf a) (.node (.leaf b) (.leaf r))).eval c) := by
  intro h
  have := h { sd := 1, atol := 0 }
    (.mprocess 0 [2] (1 / 7) [#v[#v[3/4]], #v[#v[1/4]]])
    (.mprocess 0 [2] (1 / 7) [#v[#v[2/3]], #v[#v[1/3]]])
    (.state 0 #v[1])
  revert this
  decide +kernel

/-- C06 "Born-rule distribution (non-negative …)" as computed: whatever the inputs, every entry `truncate_and_normalize`
returns is ≥ 0 for a non-negative threshold (entries below it are zeroed, the rest divided by their positive sum). -/
theorem truncNorm_nonneg (eps : Rat) (ps qs : List Rat) (heps : 0 ≤ eps) (h : truncNorm eps ps = some qs) :
    ∀ q ∈ qs, 0 ≤ q := by
  unfold truncNorm at h
  simp only at h
  split at h
  · cases h
  · rename_i hne
    injection h with h; subst h
    have hnn : ∀ x ∈ ps.map (fun p => if p < eps then 0 else p), 0 ≤ x := by
      intro x hx
      simp only [List.mem_map] at hx
      obtain ⟨p, _, rfl⟩ := hx
      split
      · exact le_rfl
      · rename_i hp; exact le_trans heps (not_lt.mp hp)
    have hs : 0 ≤ lsum (ps.map fun p => if p < eps then 0 else p) := by
      rw [lsum_eq_sum]; exact List.sum_nonneg hnn
    intro q hq
    obtain ⟨x, hx, rfl⟩ := List.mem_map.1 hq
    exact div_nonneg (hnn x hx) hs

/-- non-vacuity of `tree_eval_instruments` / `compose_inst`: a gate and two measurement processes with 2 and 3 outcomes
on a 1-qubit-like system (`n = 2`) are instruments; `hsz`-type hypotheses (`hss.length = prod shape`) hold -/
example : IsInst 0 (.gate 0 (#v[#v[1, 0], #v[1/3, 1/2]] : Mat Rat 2 2)) ∧
    IsInst 0 (.mprocess 0 [2] eps8 [(#v[#v[1/4, 1/8], #v[0, 1/2]] : Mat Rat 2 2), #v[#v[3/4, -1/8], #v[1/3, 0]]]) ∧
    IsInst 0 (.mprocess 0 [3] (1/2) [(Mat.one : Mat Rat 2 2), Mat.one, Mat.one]) := by
  refine ⟨rfl, ⟨rfl, by decide⟩, ⟨rfl, by decide⟩⟩

end exec

/-! ### ensembles -/
section ens
variable {n : Nat} [NeZero n]
/-- the unnormalised (Kraus-level) states an ensemble stands for: `p_x · ρ_x` -/
def weighted (ps : List Rat) (sts : List (Vec Rat n)) : List (Vec Rat n) :=
  List.zipWith (fun p s => Vec.smul p s) ps sts

omit [NeZero n] in
/-- helper: `zipWith` of two maps over the same list -/
theorem zipWith_map_same {α β γ δ : Type} (f : β → γ → δ) (g : α → β) (h : α → γ) (l : List α) :
    List.zipWith f (l.map g) (l.map h) = l.map fun a => f (g a) (h a) := by
  induction l with
  | nil => rfl
  | cons a t ih => simp [ih]

omit [NeZero n] in
/-- helper: linearity of the outcome maps in the ensemble weight: `A(w·v) = w·(A v)` -/
theorem mulVec_smul (A : Mat Rat n n) (w : Rat) (v : Vec Rat n) :
    A.mulVec (Vec.smul w v) = Vec.smul w (A.mulVec v) := by
  apply Vec.ext'; intro i
  simp only [Mat.mulVec, Vec.smul, Vec.get_ofFn, fsum_eq_sum, Finset.mul_sum]
  apply Finset.sum_congr rfl; intro k _; ring

/-- C06 "(earlier, later) labelling of `MProcess∘StateEnsemble`", generic regime (no outcome truncated): the
unnormalised states `p·ρ` of the new ensemble are, block by block, the outcome maps applied to the unnormalised
states of the old ensemble — old outcome slow, new outcome fast — i.e. `applyInst`. With `applyInst_comp` this
gives `M₂∘(M₁∘E) = (M₂∘M₁)∘E` for all outcome counts (`compose_assoc_mprocess_partial`). Partial: truncated outcomes are excluded. -/
theorem ensemble_step_partial (sd eps : Rat) (hss : List (Mat Rat n n)) (sp : List (Vec Rat n × Rat))
    (heps : 0 ≤ eps)
    (hno : ∀ x ∈ sp, ∀ hs ∈ hss, ¬ x.2 * (sd * (hs.mulVec x.1).get 0) ≤ eps) :
    weighted ((sp.map fun x => forStates sd eps hss x.1 x.2).flatMap (·.2))
             ((sp.map fun x => forStates sd eps hss x.1 x.2).flatMap (·.1))
      = applyInst hss (sp.map fun x => Vec.smul x.2 x.1) := by
  induction sp with
  | nil => simp [weighted, applyInst]
  | cons x t ih =>
    have hx := mprocess_state_partial sd eps hss x.1 x.2 heps (hno x (by simp))
    have ih' := ih (fun y hy => hno y (by simp [hy]))
    simp only [List.map_cons, List.flatMap_cons, weighted, applyInst] at *
    rw [List.zipWith_append (by rw [hx]; simp)]
    rw [ih', hx]
    congr 1
    simp only [zipWith_map_same]
    apply List.map_congr_left
    intro hs hh
    have hne : sd * (hs.mulVec x.1).get 0 ≠ 0 := by
      intro h0
      apply hno x (by simp) hs hh
      rw [h0, mul_zero]; exact heps
    rw [mulVec_smul]
    apply Vec.ext'; intro i
    simp only [Vec.smul, vdiv, Vec.get_ofFn]
    rw [mul_assoc, mul_div_cancel₀ _ hne]

end ens

/-! ### measurement process after measurement process, truncation, back-action mode 1 (repaired code) -/
section a
variable {n : Nat} [NeZero n]

omit [NeZero n] in
/-- helper: `zip` of two maps over the same list -/
theorem zip_map_same {α β γ : Type} (g : α → β) (h : α → γ) (l : List α) :
    (l.map g).zip (l.map h) = l.map fun a => (g a, h a) := by
  induction l with
  | nil => rfl
  | cons a t ih => simp [ih]

/-- C06 "each outcome's probability together with the **normalised** post-measurement state", all branches
(truncation and renormalisation included): every post state produced by
`_compose_qoperations_MProcess_State_for_States` is either the zero state (outcome truncated or of probability 0)
or has unit trace — for every measurement process, state, weight and `eps_zero`. -/
theorem post_states_normalised (sd eps : Rat) (hss : List (Mat Rat n n)) (rho : Vec Rat n) (w : Rat) :
    ∀ st ∈ (forStates sd eps hss rho w).1, st = Vec.zero ∨ TraceOne sd st := by
  intro st hst
  simp only [forStates, List.map_map, zip_map_same, List.mem_map, Function.comp] at hst
  obtain ⟨hs, _, rfl⟩ := hst
  split
  · left; simp
  · by_cases h0 : sd * (hs.mulVec rho).get 0 = 0
    · left; simp [h0]
    · right; simp only [if_neg h0]; exact post_state_trace_one sd _ h0

/-- C06 "any two bracketings … same statistics, same labelling" for two measurement processes and a (weighted)
state, generic regime (no outcome of the composed process truncated): the unnormalised post states `p·ρ` of
`(M₁∘M₂)∘ρ` are `M₁` applied to the outcome branches of `M₂` on `ρ`, earlier outcome slow — exactly what
`M₁∘(M₂∘ρ)` computes step by step (`ensemble_step_partial`), and the reported shapes agree
(`compose_mprocess_mprocess_shape`). -/
theorem compose_assoc_mprocess_partial (sd eps : Rat) (h1 h2 : List (Mat Rat n n)) (rho : Vec Rat n) (w : Rat)
    (heps : 0 ≤ eps)
    (hno : ∀ hs ∈ mpMp h1 h2, ¬ w * (sd * (hs.mulVec rho).get 0) ≤ eps) :
    weighted (forStates sd eps (mpMp h1 h2) rho w).2 (forStates sd eps (mpMp h1 h2) rho w).1
      = applyInst h1 (applyInst h2 [Vec.smul w rho]) := by
  have := ensemble_step_partial sd eps (mpMp h1 h2) [(rho, w)] heps (by
    intro x hx hs hh
    simp only [List.mem_singleton] at hx
    subst hx
    exact hno hs hh)
  simp only [List.map_cons, List.map_nil, List.flatMap_cons, List.flatMap_nil, List.append_nil] at this
  rw [this, applyInst_comp]

/-- the dispatch composes two measurement processes as `mpMp` with shape `shape2 ++ shape1` — the shape
`MProcess∘StateEnsemble` gives to `M₁∘(M₂∘ρ)` (ensemble shape first, then the later process) -/
theorem compose_mprocess_mprocess_shape (c : Cfg) (s : Nat) (sh1 sh2 : List Nat) (e1 e2 : Rat)
    (h1 h2 : List (Mat Rat n n)) :
    compose c (.mprocess s sh1 e1 h1) (.mprocess s sh2 e2 h2)
      = mkMProcess s (sh2 ++ sh1) (if e1 < e2 then e2 else e1) (mpMp h1 h2) := by
  simp [compose]

end a

section mode1
variable {K : Type} [CommRing K] [DecidableEq K] {d : Nat}

/-- helper: with pairwise different eigenvalues the `spectral_decomp` dict loop of mode 1 is a plain map: one
rank-one term `v vᵀ` per eigenvector, in order -/
theorem mode1Loop_nodup (pairs : List (K × Vec K d)) (prev : Option K) (dct : List (K × List (Mat K d d)))
    (hnd : (pairs.map (·.1)).Nodup)
    (hdis : ∀ p ∈ pairs, ∀ e ∈ dct, e.1 ≠ p.1)
    (hprev : ∀ p ∈ pairs, prev ≠ some p.1) :
    mode1Loop pairs prev dct = dct ++ pairs.map fun p => (p.1, [outer p.2 p.2]) := by
  induction pairs generalizing prev dct with
  | nil => simp [mode1Loop]
  | cons p t ih =>
    obtain ⟨ev, row⟩ := p
    simp only [List.map_cons, List.nodup_cons] at hnd
    have hp : ¬ prev = some ev := hprev (ev, row) (by simp)
    have hany : dct.any (fun e => decide (e.1 = ev)) = false := by
      rw [List.any_eq_false]
      intro e he
      simpa using hdis (ev, row) (by simp) e he
    simp only [mode1Loop, if_neg hp, dictSet, hany, Bool.false_eq_true, if_false]
    rw [ih (some ev) (dct ++ [(ev, [outer row row])]) hnd.2]
    · simp
    · intro q hq e he
      simp only [List.mem_append, List.mem_singleton] at he
      rcases he with he | rfl
      · exact hdis q (by simp [hq]) e he
      · intro h
        exact hnd.1 (by simp only [List.mem_map]; exact ⟨q, hq, h.symm⟩)
    · intro q hq h
      injection h with h
      exact hnd.1 (by simp only [List.mem_map]; exact ⟨q, hq, h.symm⟩)

/-- helper: a unit vector gives a projector, `(v vᵀ)ᵀ (v vᵀ) = v vᵀ` -/
theorem outer_unit_idem (v : Vec K d) (hv : v.dot v = 1) :
    (outer v v).transpose.mul (outer v v) = outer v v := by
  apply Mat.ext'; intro i j
  simp only [Mat.mul, Mat.transpose, outer, Mat.get_ofFn, fsum_eq_sum]
  have : ∑ k, v.get k * v.get i * (v.get k * v.get j) = (∑ k, v.get k * v.get k) * (v.get i * v.get j) := by
    rw [Finset.sum_mul]; apply Finset.sum_congr rfl; intro k _; ring
  rw [this]
  have hv' : ∑ k, v.get k * v.get k = 1 := by simpa [Vec.dot, fsum_eq_sum] using hv
  rw [hv', one_mul]

/-- helper: folding the one-term groups of unit vectors gives the spectral sum -/
theorem fold_unit_groups (l : List (K × Vec K d)) (z : Mat K d d) (hunit : ∀ p ∈ l, p.2.dot p.2 = 1) :
    (l.map fun p => (p.1, outer p.2 p.2)).foldl
        (fun acc e => acc.add (Mat.smul e.1 (e.2.transpose.mul e.2))) z
      = l.foldl (fun acc p => acc.add (Mat.smul p.1 (outer p.2 p.2))) z := by
  induction l generalizing z with
  | nil => rfl
  | cons p t ih =>
    simp only [List.map_cons, List.foldl_cons]
    rw [outer_unit_idem p.2 (hunit p (by simp))]
    exact ih _ (fun q hq => hunit q (by simp [hq]))

/-- C06 "consistent with the measurement process generated from a POVM in back-action mode 1" (`to_povm ∘
generate_mprocess(1)`), real symmetric element, pairwise different eigenvalues, normalised eigenvectors: the effect
read back from the generated outcome map is the spectral sum `Σ_k λ_k u_k u_kᵀ` over the **columns** `u_k` of the
`eigh` matrix (= `U diag(λ) Uᵀ`, the POVM element, by the `eigh` contract). Partial: stated in fold form over the
columns; repeated eigenvalues (the dict grouping) and complex eigenvectors are not covered. -/
theorem mode1_to_povm_partial (eigvals : List K) (U : Mat K d d)
    (hnd : ((mode1Pairs eigvals U).map (·.1)).Nodup)
    (hunit : ∀ p ∈ mode1Pairs eigvals U, p.2.dot p.2 = 1) :
    mode1Effect eigvals U
      = (mode1Pairs eigvals U).foldl (fun acc p => acc.add (Mat.smul p.1 (outer p.2 p.2))) Mat.zero := by
  have h1 : mode1Groups eigvals U = (mode1Pairs eigvals U).map fun p => (p.1, outer p.2 p.2) := by
    unfold mode1Groups
    rw [mode1Loop_nodup _ none [] hnd (by simp) (by simp)]
    simp
  unfold mode1Effect
  rw [h1]
  exact fold_unit_groups _ _ hunit

end mode1

/-- the former D6 instance: the two bracketings of `M_a ∘ M_b ∘ ρ` (2 and 3 outcomes) now agree, labels included -/
example :
    ((Tree.node (.node (.leaf (.mprocess 0 [2] eps8 [#v[#v[1/3]], #v[#v[2/3]]] : QOp 1))
                      (.leaf (.mprocess 0 [3] eps8 [#v[#v[1/2]], #v[#v[1/4]], #v[#v[1/4]]])))
               (.leaf (.state 0 #v[1]))).eval { sd := 1, atol := 0 } |> distShape)
      = ((Tree.node (.leaf (.mprocess 0 [2] eps8 [#v[#v[1/3]], #v[#v[2/3]]] : QOp 1))
               (.node (.leaf (.mprocess 0 [3] eps8 [#v[#v[1/2]], #v[#v[1/4]], #v[#v[1/4]]]))
                      (.leaf (.state 0 #v[1])))).eval { sd := 1, atol := 0 } |> distShape) := by
  decide +kernel

/-- the former D4 instance: `Π = |ψ⟩⟨ψ|`, `ψ = (3/5, 4/5)`, non-symmetric eigenvector matrix — mode 1 reproduces `Π` -/
example : mode1Effect [0, 1] (#v[#v[4/5, 3/5], #v[-3/5, 4/5]] : Mat Rat 2 2)
    = eighRecon #v[0, 1] #v[#v[4/5, 3/5], #v[-3/5, 4/5]] := by
  decide +kernel

/-- the former D13 instance: weight 2·10⁻⁸, conditional probabilities 1/10 and 9/10 — the surviving post state has
unit trace -/
example : ∀ st ∈ (forStates (1 : Rat) eps8 [(#v[#v[1/10]] : Mat Rat 1 1), #v[#v[9/10]]] #v[1] (2 / 100000000)).1,
    st = Vec.zero ∨ TraceOne (1 : Rat) st :=
  post_states_normalised _ _ _ _ _


/-! ### the `eps_zero` branch stated exactly; further associativity triples -/
section exactbranch
variable {n : Nat} [NeZero n]

/-- raw probability of an outcome map on `ρ`: `sd·(HS ρ)₀` -/
def rawP (sd : Rat) (rho : Vec Rat n) (hs : Mat Rat n n) : Rat := sd * (hs.mulVec rho).get 0

/-- probability kept after the `eps_zero` test: `0` when `weight·p ≤ eps_zero` -/
def keptP (sd eps w : Rat) (rho : Vec Rat n) (hs : Mat Rat n n) : Rat :=
  if w * rawP sd rho hs ≤ eps then 0 else rawP sd rho hs

/-- C06 "probability together with the normalised post-measurement state": closed form of **every branch** of
`_compose_qoperations_MProcess_State_for_States` (a definitional unfolding of the model function into per-outcome
formulas — the content is in its consequences `truncated_probs_sum`, `truncated_weighted_state`,
`post_states_normalised`, `mprocess_state_partial`): with `p̃_x = 0` if `weight·p_x ≤ eps_zero` else
`p_x = sd·(HS_x ρ)₀`, `S = Σ_x p̃_x` and `T` = "some outcome was truncated and `S ≠ 0`":
the post state of outcome `x` is `0` if `p̃_x = 0` and `HS_x ρ / p̃_x` otherwise, and its reported probability is
`weight·p̃_x / S` if `T` and `weight·p̃_x` otherwise. No hypothesis on the inputs. -/
theorem mprocess_state_exact (sd eps : Rat) (hss : List (Mat Rat n n)) (rho : Vec Rat n) (w : Rat) :
    forStates sd eps hss rho w =
      (hss.map fun hs => if keptP sd eps w rho hs = 0 then Vec.zero
                          else vdiv (hs.mulVec rho) (keptP sd eps w rho hs),
       (if (hss.any fun h => decide (w * rawP sd rho h ≤ eps)) &&
              !decide (lsum (hss.map (keptP sd eps w rho)) = 0)
          then (hss.map (keptP sd eps w rho)).map (· / lsum (hss.map (keptP sd eps w rho)))
          else hss.map (keptP sd eps w rho)).map fun p => w * p) := by
  unfold forStates
  simp only [List.map_map, zip_map_same, Function.comp_def, List.any_map]
  rfl

/-- consequence for the truncation branch: if some outcome is truncated and the kept probabilities do not all
vanish, the reported probabilities sum to exactly the incoming weight (the conditional distribution is renormalised) -/
theorem truncated_probs_sum (sd eps : Rat) (hss : List (Mat Rat n n)) (rho : Vec Rat n) (w : Rat)
    (ht : (hss.any fun h => decide (w * rawP sd rho h ≤ eps)) = true)
    (hS : lsum (hss.map (keptP sd eps w rho)) ≠ 0) :
    lsum (forStates sd eps hss rho w).2 = w := by
  rw [mprocess_state_exact]
  simp only [ht, hS, decide_false, Bool.not_false, Bool.and_self, if_true]
  have h2 := lsum_map_mul_left w ((hss.map (keptP sd eps w rho)).map (· / lsum (hss.map (keptP sd eps w rho)))) id
  simp only [id, List.map_id] at h2
  rw [h2, lsum_map_div, div_self hS, mul_one]

omit [NeZero n] in
/-- … and the unnormalised state `p·ρ` the ensemble stores for a kept outcome is the Kraus-level state rescaled by
the common factor `1/S`: `(weight·p̃_x/S)·(HS_x ρ / p̃_x) = (weight/S)·HS_x ρ`. -/
theorem truncated_weighted_state (p S w : Rat) (r : Vec Rat n) (hp : p ≠ 0) :
    Vec.smul (w * (p / S)) (vdiv r p) = Vec.smul (w / S) r := by
  apply Vec.ext'; intro i
  simp only [Vec.smul, vdiv, Vec.get_ofFn]
  field_simp

/-- C06 associativity, exact: `(G₁∘G₂)∘ρ = G₁∘(G₂∘ρ)` as model values. -/
theorem assoc_gate_gate_state (c : Cfg) (s : Nat) (A B : Mat Rat n n) (rho : Vec Rat n) :
    (compose c (.gate s A) (.gate s B)).bind (fun x => compose c x (.state s rho))
      = (compose c (.gate s B) (.state s rho)).bind (fun y => compose c (.gate s A) y) := by
  simp only [compose, ne_eq, not_true_eq_false, if_false, Except.bind, mulVec_mulVec]

/-- C06 associativity, exact, with layout: `(Π∘G)∘M = Π∘(G∘M)` as model values (well-formed measurement process). -/
theorem assoc_povm_gate_mprocess (c : Cfg) (s : Nat) (nums shape : List Nat) (eps : Rat)
    (vecs : List (Vec Rat n)) (G : Mat Rat n n) (hss : List (Mat Rat n n))
    (hsz : hss.length = QM.C16.prod shape) :
    (compose c (.povm s nums vecs) (.gate s G)).bind (fun x => compose c x (.mprocess s shape eps hss))
      = (compose c (.gate s G) (.mprocess s shape eps hss)).bind (fun y => compose c (.povm s nums vecs) y) := by
  have h : povmMProcess (povmGate vecs G) hss = povmMProcess vecs (hss.map fun hs => G.mul hs) := by
    simp only [povmGate, povmMProcess, List.flatMap_map, List.map_map]
    congr 1; funext hs; apply List.map_congr_left; intro v _
    simp only [Function.comp, transpose_mulVec_eq_vecMat]
    apply Vec.toV_injective
    simp [toV_vecMat, Matrix.vecMul_vecMul]
  simp only [compose, ne_eq, not_true_eq_false, if_false, Except.bind, mkMProcess, List.length_map, hsz, h]

/-- C06 associativity `(Π∘M)∘ρ = Π∘(M∘ρ)` at the level of the raw Born weights: the statistics of the
Heisenberg-picture POVM `Π∘M` on `ρ` are, block by block (measurement-process outcome slow), `p_x` times the raw
Born weights of `Π` on the normalised post state `HS_x ρ / p_x` — exactly the blocks `Povm∘StateEnsemble` forms
from the ensemble `M∘ρ`. Partial: outcomes with `p_x = 0` are excluded (there `M∘ρ` stores the zero state). -/
theorem assoc_povm_mprocess_state_partial (sd : Rat) (vecs : List (Vec Rat n)) (hss : List (Mat Rat n n))
    (rho : Vec Rat n) (hne : ∀ hs ∈ hss, sd * (hs.mulVec rho).get 0 ≠ 0) :
    bornRaw (povmMProcess vecs hss) rho
      = hss.flatMap fun hs =>
          (bornRaw vecs (vdiv (hs.mulVec rho) (sd * (hs.mulVec rho).get 0))).map
            fun q => sd * (hs.mulVec rho).get 0 * q := by
  rw [heisenberg_mprocess]
  simp only [List.flatMap_def]
  congr 1
  apply List.map_congr_left
  intro hs hh
  simp only [bornRaw, List.map_map]
  apply List.map_congr_left
  intro v _
  simp only [Function.comp, Vec.dot, vdiv, Vec.get_ofFn, fsum_eq_sum, Finset.mul_sum]
  apply Finset.sum_congr rfl; intro i _
  have := hne hs hh
  field_simp
  rw [mul_assoc (v.get i * (hs.mulVec rho).get i), mul_div_assoc, div_self this, mul_one]

end exactbranch

/-- non-vacuity: an instance where the truncation branch is taken and the kept probabilities do not vanish
(weight 2·10⁻⁸, conditional probabilities 1/10 and 9/10): the reported probabilities sum to the weight -/
example : ([(#v[#v[1/10]] : Mat Rat 1 1), #v[#v[9/10]]].any
      fun h => decide ((2 / 100000000 : Rat) * rawP 1 (#v[1] : Vec Rat 1) h ≤ eps8)) = true ∧
    lsum ([(#v[#v[1/10]] : Mat Rat 1 1), #v[#v[9/10]]].map (keptP 1 eps8 (2 / 100000000) #v[1])) ≠ 0 := by
  decide +kernel

/-- non-vacuity of `assoc_povm_mprocess_state_partial`: both outcome probabilities are non-zero -/
example : ∀ hs ∈ [(#v[#v[1/4, 1/8], #v[0, 1/2]] : Mat Rat 2 2), #v[#v[3/4, -1/8], #v[1/3, 0]]],
    (2 : Rat) * (Mat.mulVec hs (#v[1/2, 1/5] : Vec Rat 2)).get 0 ≠ 0 := by
  decide +kernel

/-! ### tie to the source: the model equals the definitions regenerated from operators.py on every run -/
section source
variable {n : Nat} [NeZero n]

/-- `MProcess∘MProcess` of the model is the loop nest, `@` operand order and shape operand order that
`harness/c06_translate.py` reads off the current source (QGen/C06.lean); reverting the D6 repair (`hs2 @ hs1`,
`shape1 + shape2`) or swapping the loops makes this proof fail. -/
theorem compose_mprocess_mprocess_matches_source (c : Cfg) (s : Nat) (sh1 sh2 : List Nat) (e1 e2 : Rat)
    (h1 h2 : List (Mat Rat n n)) :
    mpMp h1 h2 = QGen.C06.mmCompose Mat.mul h1 h2 ∧
    compose c (.mprocess s sh1 e1 h1) (.mprocess s sh2 e2 h2)
      = mkMProcess s (QGen.C06.mmShape sh1 sh2) (QGen.C06.mmEps e1 e2) (QGen.C06.mmCompose Mat.mul h1 h2) := by
  refine ⟨rfl, ?_⟩
  simp [compose, QGen.C06.mmShape, QGen.C06.mmCompose, QGen.C06.mmEps, mpMp]

/-- the `eps_zero` the dispatch hands to `G∘M`, `M∘G` and `G∘StateEnsemble` is the keyword argument regenerated from
the source (dropping `eps_zero=…` again, the defect D16, makes the generated value the constructor default and this
proof fail) -/
theorem compose_eps_matches_source (c : Cfg) (s : Nat) (shape : List Nat) (eps epsE : Rat)
    (hss : List (Mat Rat n n)) (G : Mat Rat n n) (states : List (Vec Rat n)) (d : Dist) :
    compose c (.gate s G) (.mprocess s shape eps hss)
        = mkMProcess s shape (QGen.C06.gmEps eps8 eps) (hss.map fun hs => G.mul hs) ∧
      compose c (.mprocess s shape eps hss) (.gate s G)
        = mkMProcess s shape (QGen.C06.mgEps eps eps8) (hss.map fun hs => hs.mul G) ∧
      compose c (.gate s G) (.ensemble s states d epsE)
        = .ok (.ensemble s (states.map fun v => G.mulVec v) d (QGen.C06.geEps eps8 epsE)) := by
  refine ⟨?_, ?_, ?_⟩ <;> simp [compose, QGen.C06.gmEps, QGen.C06.mgEps, QGen.C06.geEps]

/-- `Povm∘MProcess` of the model is the generated loop nest with `hs.T @ vec` (seeded change C06-1 breaks this) -/
theorem povmMProcess_matches_source (vecs : List (Vec Rat n)) (hss : List (Mat Rat n n)) :
    povmMProcess vecs hss = QGen.C06.pmCompose (fun hs v => hs.transpose.mulVec v) vecs hss := rfl

/-- `_compose_qoperations_MProcess_State_for_States` of the model, in closed form over the truncation test regenerated
from the source (`weight * p_x <= elem1.eps_zero`): post states are divided by the probabilities kept by that test
*before* the renormalisation — the generated flag `postStatesUseRaw` (reverting the D13 repair makes it false and
this proof fail; the flag itself is a guard emitted by the translator, not a translation). -/
theorem forStates_matches_source (sd eps : Rat) (hss : List (Mat Rat n n)) (rho : Vec Rat n) (w : Rat) :
    (forStates sd eps hss rho w).1 =
        (hss.map fun hs =>
          let kept := if QGen.C06.truncated w (rawP sd rho hs) eps then 0 else rawP sd rho hs
          if kept = 0 then Vec.zero else vdiv (hs.mulVec rho) kept) ∧
      QGen.C06.postStatesUseRaw = true := by
  refine ⟨?_, rfl⟩
  rw [mprocess_state_exact]
  apply List.map_congr_left
  intro hs _
  simp [keptP, QGen.C06.truncated]

/-- the shape reported by `MProcess∘StateEnsemble` is the generated `elem2.prob_dist.shape + elem1.shape`
(seeded change C06-2 breaks this) -/
theorem mpEnsemble_shape_matches_source (c : Cfg) (sys : Nat) (shape : List Nat) (eps : Rat)
    (hss : List (Mat Rat n n)) (states : List (Vec Rat n)) (d : Dist) (epsE : Rat)
    (s' : Nat) (sts : List (Vec Rat n)) (d' : Dist) (e' : Rat)
    (h : mpEnsemble c sys shape eps hss states d epsE = .ok (.ensemble s' sts d' e')) :
    d'.shape = QGen.C06.meShape d.shape shape := by
  unfold mpEnsemble at h
  simp only [bind, Except.bind, pure, Except.pure, liftDist, throw, throwThe, MonadExceptOf.throw] at h
  split at h
  · cases h
  · split at h
    · cases h
    · rename_i dd hd
      split at hd
      · rename_i d0 hc
        injection hd with hd; subst hd
        have hd' : d' = d0 := by
          by_cases hz : d.isZero = true <;>
            simp only [hz, if_true, if_false, Bool.false_eq_true] at h <;>
            (split at h <;> cases h <;> rfl)
        rw [hd']
        exact ctor_shape _ _ _ _ hc
      · cases hd

end source

/-- non-vacuity of `mpEnsemble_shape_matches_source`: a concrete `MProcess∘StateEnsemble` returns an ensemble -/
example : (match mpEnsemble { sd := 1, atol := 0 } 0 [2] eps8 [(#v[#v[1/3]] : Mat Rat 1 1), #v[#v[2/3]]] [#v[1]]
      ⟨[1], [1], false⟩ eps8 with
    | .ok (.ensemble _ _ d _) => d.shape == [1, 2]
    | _ => false) = true := by
  decide +kernel

/-! ### SumTP of M∘M, chains ending in a state, the Kraus action -/
section sumtp
variable {K : Type} [CommRing K] {n : Nat} [NeZero n]

/-- helper: first-row column sums of a list of products `x·y`, `x` ranging over a sum-TP list: `Σ_x (x y)₀ⱼ = y₀ⱼ` -/
theorem sumtp_mul_row (h1 : List (Mat K n n)) (y : Mat K n n) (hM : SumTP h1) (j : Fin n) :
    lsum (h1.map fun x => (x.mul y).get 0 j) = y.get 0 j := by
  unfold SumTP at hM
  have : (fun x : Mat K n n => (x.mul y).get 0 j) = fun x => fsum n fun k => x.get 0 k * y.get k j := by
    funext x; simp [Mat.mul]
  rw [this, lsum_fsum_swap h1 (fun x k => x.get 0 k * y.get k j)]
  have h : ∀ k : Fin n, lsum (h1.map fun x => x.get 0 k * y.get k j) = (if k = 0 then 1 else 0) * y.get k j := by
    intro k
    rw [← hM k]
    have := lsum_map_mul_left (y.get k j) h1 (fun x => x.get 0 k)
    simp only [mul_comm (y.get k j)] at this
    rw [this]
  simp only [h, fsum_eq_sum, ite_mul, one_mul, zero_mul, Finset.sum_ite_eq', Finset.mem_univ, if_true]

/-- C06 "composing physical operations gives a physical result", equality part for `MProcess∘MProcess`: if both
families of outcome maps sum to trace-preserving maps, so does the composite family `mpMp h1 h2` (all outcome counts). -/
theorem sumtp_mpMp (h1 h2 : List (Mat K n n)) (hM1 : SumTP h1) (hM2 : SumTP h2) : SumTP (mpMp h1 h2) := by
  intro j
  have hblock : ∀ l2 : List (Mat K n n),
      lsum ((mpMp h1 l2).map fun hs => hs.get 0 j) = lsum (l2.map fun y => y.get 0 j) := by
    intro l2
    unfold mpMp
    induction l2 with
    | nil => simp [lsum]
    | cons y ys ih =>
      simp only [List.flatMap_cons, List.map_append, lsum_append, List.map_cons, List.map_map]
      have := sumtp_mul_row h1 y hM1 j
      simp only [Function.comp_def] at this ⊢
      rw [this, ih]
      simp [lsum]
  rw [hblock h2]; exact hM2 j

end sumtp

section chainstate
variable {n : Nat} [NeZero n]

/-- helper: evaluation of a bracketing of gates -/
theorem gate_tree_eval (c : Cfg) (s : Nat) (t : Tree n) (h : ∀ x ∈ t.leaves, ∃ A, x = QOp.gate s A) :
    t.eval c = .ok (.gate s (gateProd t.leaves)) := by
  induction t with
  | leaf x =>
    obtain ⟨A, rfl⟩ := h x (by simp [Tree.leaves])
    simp [Tree.eval, Tree.leaves, gateProd, gateOf]
  | node l r ihl ihr =>
    have hl := ihl (fun x hx => h x (by simp [Tree.leaves, hx]))
    have hr := ihr (fun x hx => h x (by simp [Tree.leaves, hx]))
    simp only [Tree.eval, hl, hr, bind, Except.bind, compose, ne_eq, not_true_eq_false, if_false, Tree.leaves]
    rw [gateProd_append _ _ (leaves_ne_nil l) (leaves_ne_nil r)]

omit [NeZero n] in
theorem one_mulVec_rat (v : Vec Rat n) : (Mat.one : Mat Rat n n).mulVec v = v := by
  apply Vec.toV_injective; simp

/-- C06 bracketing on the executed evaluator for chains **ending in a state**: every bracketing of
`G₁ ∘ … ∘ G_k ∘ ρ` (any `k ≥ 0`) evaluates to the state `(G₁⋯G_k)·ρ` — all bracketings agree. -/
theorem gate_chain_state_bracketing (c : Cfg) (s : Nat) (rho : Vec Rat n) (t : Tree n) (gs : List (QOp n))
    (hg : ∀ x ∈ gs, ∃ A, x = QOp.gate s A) (hl : t.leaves = gs ++ [.state s rho]) :
    t.eval c = .ok (.state s ((gateProd gs).mulVec rho)) := by
  induction t generalizing gs with
  | leaf x =>
    simp only [Tree.leaves] at hl
    cases gs with
    | nil => simp at hl; subst hl; simp [Tree.eval, gateProd, one_mulVec_rat]
    | cons g gs' => simp at hl
  | node l r ihl ihr =>
    simp only [Tree.leaves] at hl
    -- the state is the last leaf, so it sits in `r`; `l` consists of gates
    have hrne := leaves_ne_nil r
    obtain ⟨ri, rl, hri⟩ : ∃ ri rl, r.leaves = ri ++ [rl] := by
      rcases List.eq_nil_or_concat r.leaves with h | ⟨i, a, h⟩
      · exact absurd h hrne
      · exact ⟨i, a, by simpa using h⟩
    rw [hri, ← List.append_assoc] at hl
    have hlast := List.append_inj' hl (by simp)
    obtain ⟨hgs, hst⟩ := hlast
    simp only [List.cons.injEq, and_true] at hst
    subst hst
    have hlg : ∀ x ∈ l.leaves, ∃ A, x = QOp.gate s A := fun x hx => hg x (by rw [← hgs]; simp [hx])
    have hrg : ∀ x ∈ ri, ∃ A, x = QOp.gate s A := fun x hx => hg x (by rw [← hgs]; simp [hx])
    have hr := ihr ri hrg hri
    have hle := gate_tree_eval c s l hlg
    simp only [Tree.eval, hle, hr, bind, Except.bind, compose, ne_eq, not_true_eq_false, if_false]
    rw [← hgs]
    cases ri with
    | nil => simp [gateProd, one_mulVec_rat]
    | cons a as => rw [gateProd_append _ _ (leaves_ne_nil l) (by simp), mulVec_mulVec]


/-- non-vacuity of `gate_chain_state_bracketing`: two gates and a state on `n = 2` coefficients -/
example : ∀ x ∈ [QOp.gate 0 (#v[#v[1, 0], #v[1/3, 1/2]] : Mat Rat 2 2), .gate 0 #v[#v[1, 0], #v[0, -1]]],
    ∃ A, x = QOp.gate 0 A := by
  intro x hx; simp at hx; rcases hx with rfl | rfl <;> exact ⟨_, rfl⟩

end chainstate

/-! ### the executed `Povm∘State` and `MProcess∘State` branches -/
section execbranches
variable {n : Nat} [NeZero n]

/-- C06 "a POVM on a state gives the Born-rule distribution", on the **executed** `Povm∘State` branch (`povmState` =
Born weights → `truncate_and_normalize` → `MultinomialDistribution`): for an identity-sum POVM, a unit-trace state and
no Born weight below `Settings.atol`, the dispatch hands exactly the raw Born weights `⟪Π_x, ρ⟫` (which sum to 1) to
the distribution constructor, with the flat shape `(m,)`. -/
theorem povm_state_generic (c : Cfg) (vecs : List (Vec Rat n)) (rho : Vec Rat n)
    (hP : IdentitySum c.sd vecs) (hr : TraceOne c.sd rho) (hno : ∀ p ∈ bornRaw vecs rho, ¬ p < c.atol) :
    povmState c vecs rho = liftDist (QM.C16.ctor (bornRaw vecs rho) [vecs.length] eps8) := by
  unfold povmState
  rw [truncNorm_generic c.atol _ hno (born_sum_one c.sd vecs rho hP hr)]
  simp [bornRaw]

/-- C06 "a measurement process on a state gives each outcome's probability together with the normalised
post-measurement state", on the **executed** `MProcess∘State` branch (`mpState`), no-truncation regime: the dispatch
hands the probabilities `sd·(HS_x ρ)₀` to the distribution constructor with the process's shape and, when that
succeeds with as many entries as outcome maps, returns the ensemble of the post states `HS_x ρ / p_x` with the
process's `eps_zero`. Partial: outcomes with `p_x ≤ eps_zero` excluded (see `mprocess_state_exact`). -/
theorem mpState_generic_partial (c : Cfg) (sys : Nat) (shape : List Nat) (eps : Rat) (hss : List (Mat Rat n n))
    (rho : Vec Rat n) (heps : 0 ≤ eps) (hno : ∀ hs ∈ hss, ¬ 1 * (c.sd * (hs.mulVec rho).get 0) ≤ eps) :
    mpState c sys shape eps hss rho =
      (liftDist (QM.C16.ctor (hss.map fun hs => 1 * (c.sd * (hs.mulVec rho).get 0)) shape eps8)).bind fun d =>
        if (hss.map fun hs => vdiv (hs.mulVec rho) (c.sd * (hs.mulVec rho).get 0)).length ≠ d.ps.length
        then .error .size
        else .ok (.ensemble sys (hss.map fun hs => vdiv (hs.mulVec rho) (c.sd * (hs.mulVec rho).get 0)) d eps) := by
  unfold mpState
  rw [mprocess_state_partial c.sd eps hss rho 1 heps hno]
  rfl

/-- non-vacuity of `povm_state_generic`: identity-sum POVM, unit-trace state, Born weights 11/15 and 4/15 ≥ atol -/
example : ∀ p ∈ bornRaw [(#v[1, 1/3] : Vec Rat 2), #v[1, -1/3]] (#v[1/2, 7/10] : Vec Rat 2), ¬ p < (1 / 10000000000000 : Rat) := by
  decide +kernel

end execbranches

/-! ### Born probabilities are non-negative -/
section born
open scoped ComplexOrder
variable {d n : Nat}

/-- the Hermitian matrix a real coefficient vector stands for in the matrix basis `B`: `Σ_α v_α B_α` -/
noncomputable def matOf (B : Fin n → Matrix (Fin d) (Fin d) ℂ) (v : Vec ℝ n) : Matrix (Fin d) (Fin d) ℂ :=
  ∑ α, ((v.get α : ℝ) : ℂ) • B α

/-- in an orthonormal Hermitian basis (`tr(B_α B_β) = δ_αβ`) the Euclidean inner product of coefficient vectors is
the Hilbert–Schmidt inner product of the matrices: `⟪p, r⟫ = tr(P R)` -/
theorem trace_matOf_mul (B : Fin n → Matrix (Fin d) (Fin d) ℂ)
    (horth : ∀ α β, (B α * B β).trace = if α = β then 1 else 0) (p r : Vec ℝ n) :
    (matOf B p * matOf B r).trace = ((Vec.dot p r : ℝ) : ℂ) := by
  simp only [matOf, Finset.sum_mul, Finset.mul_sum, trace_sum, smul_mul_assoc, mul_smul_comm, trace_smul, horth,
    smul_eq_mul, mul_ite, mul_one, mul_zero, Finset.sum_ite_eq, Finset.mem_univ, if_true]
  rw [Vec.dot_eq]
  simp only [dotProduct, Vec.toV, Complex.ofReal_sum, Complex.ofReal_mul]
  apply Finset.sum_congr rfl; intro α _
  rw [Finset.sum_ite_eq']
  simp [mul_comm]

/-- C06 "a POVM on a state gives the Born-rule distribution (non-negative …)": if the effects `Π_x` and the state
`ρ` are positive semidefinite (as matrices `Σ_α v_α B_α` in an orthonormal Hermitian basis of any dimension), every
raw Born probability `⟪Π_x, ρ⟫` computed by `Povm∘State` is ≥ 0. -/
theorem born_nonneg (B : Fin n → Matrix (Fin d) (Fin d) ℂ)
    (horth : ∀ α β, (B α * B β).trace = if α = β then 1 else 0)
    (vecs : List (Vec ℝ n)) (rho : Vec ℝ n)
    (hP : ∀ v ∈ vecs, (matOf B v).PosSemidef) (hR : (matOf B rho).PosSemidef) :
    ∀ q ∈ bornRaw vecs rho, 0 ≤ q := by
  intro q hq
  simp only [bornRaw, List.mem_map] at hq
  obtain ⟨v, hv, rfl⟩ := hq
  have h := QM.Psd.psd_trace_mul_nonneg (hP v hv) hR
  rw [trace_matOf_mul B horth] at h
  exact_mod_cast h

end born

/-- the orthonormality hypothesis of `born_nonneg` is satisfiable (1-dimensional system, basis `{1}`) -/
example : ∀ α β : Fin 1, ((fun _ : Fin 1 => (1 : Matrix (Fin 1) (Fin 1) ℂ)) α *
    (fun _ : Fin 1 => (1 : Matrix (Fin 1) (Fin 1) ℂ)) β).trace = if α = β then 1 else 0 := by
  intro α β; simp [Subsingleton.elim α β]

section krausaction
variable {d n : Nat}

/-- C06 "a gate acts on a state through its Kraus operators": if the HS matrix of a gate is the HS matrix of the
Kraus operators `K_k` in the matrix basis `B` (`hs_αβ = tr(B_α Σ_k K_k B_β K_kᴴ)`, which is what
`to_hs_from_kraus_matrices` / the harness generators compute for a Hermitian basis), then the vector the dispatch
returns for `Gate∘State`, `hs · vec ρ`, is the coefficient vector of `Σ_k K_k ρ K_kᴴ`:
`(hs·v)_α = tr(B_α Σ_k K_k (Σ_β v_β B_β) K_kᴴ)` — every dimension, every number of Kraus operators, no hypothesis on `B`. -/
theorem gate_state_kraus (B : Fin n → Matrix (Fin d) (Fin d) ℂ) (ks : List (Matrix (Fin d) (Fin d) ℂ))
    (hs : Mat ℝ n n) (v : Vec ℝ n)
    (hhs : ∀ α β, ((hs.get α β : ℝ) : ℂ) = (B α * (ks.map fun K => K * B β * Kᴴ).sum).trace) (α : Fin n) :
    (((hs.mulVec v).get α : ℝ) : ℂ) = (B α * (ks.map fun K => K * matOf B v * Kᴴ).sum).trace := by
  have hlin : (ks.map fun K => K * matOf B v * Kᴴ).sum
      = ∑ β, ((v.get β : ℝ) : ℂ) • (ks.map fun K => K * B β * Kᴴ).sum := by
    clear hhs
    induction ks with
    | nil => simp
    | cons K ks ih =>
      simp only [List.map_cons, List.sum_cons, ih, smul_add, Finset.sum_add_distrib]
      congr 1
      simp only [matOf, Matrix.mul_sum, Matrix.sum_mul, Matrix.mul_smul, Matrix.smul_mul]
  rw [hlin]
  simp only [Matrix.mul_sum, Matrix.mul_smul, trace_sum, trace_smul, ← hhs, smul_eq_mul]
  simp only [Mat.mulVec, Vec.get_ofFn, fsum_eq_sum]
  push_cast
  apply Finset.sum_congr rfl; intro β _; ring

end krausaction

/-- non-vacuity of `gate_state_kraus` (`hhs`): 1-dimensional system, basis `{1}`, one Kraus operator `1`, HS `(1)` -/
example : ∀ α β : Fin 1, ((Mat.get (#v[#v[1]] : Mat ℝ 1 1) α β : ℝ) : ℂ)
    = ((fun _ : Fin 1 => (1 : Matrix (Fin 1) (Fin 1) ℂ)) α *
        ([(1 : Matrix (Fin 1) (Fin 1) ℂ)].map fun K => K * (fun _ : Fin 1 => (1 : Matrix (Fin 1) (Fin 1) ℂ)) β * Kᴴ).sum).trace := by
  intro α β
  fin_cases α; fin_cases β
  simp [Mat.get]

/-! ### non-vacuity: concrete instances of the hypotheses (1 qubit, normalised Pauli basis, `sd² = 2` replaced by
the rational stand-in `sd = 1` on a 1-dimensional system where needed) -/

/-- a genuinely two-outcome identity-sum POVM and a unit-trace state on `n = 2` coefficients with `sd = 2` -/
example : IdentitySum (2 : Rat) [(#v[1, 1/3] : Vec Rat 2), #v[1, -1/3]] := by
  intro i; fin_cases i <;> simp [lsum, Vec.get] <;> norm_num
example : TraceOne (2 : Rat) (#v[1/2, 1/5] : Vec Rat 2) := by simp [TraceOne, Vec.get]
example : IsTP (#v[#v[1, 0], #v[1/3, 1/2]] : Mat Rat 2 2) := by
  intro j; fin_cases j <;> simp [Mat.get]
example : SumTP [(#v[#v[1/4, 1/8], #v[0, 1/2]] : Mat Rat 2 2), #v[#v[3/4, -1/8], #v[1/3, 0]]] := by
  intro j; fin_cases j <;> simp [lsum, Mat.get] <;> norm_num
/-- the generic-regime hypothesis of `mprocess_state_partial` is satisfiable -/
example : ∀ hs ∈ [(#v[#v[1/4, 1/8], #v[0, 1/2]] : Mat Rat 2 2), #v[#v[3/4, -1/8], #v[1/3, 0]]],
    ¬ (1 : Rat) * (2 * (Mat.mulVec hs (#v[1/2, 1/5] : Vec Rat 2)).get 0) ≤ eps8 := by
  decide +kernel
example : truncNorm (0 : Rat) [1/4, 3/4] = some [1/4, 3/4] := by decide +kernel

end QM.C06
