import QProofs.C05
import QProps.C04
/-!
# C05 — physical projection (Dykstra): property theorems about `QModel.C05`

Everything is over an arbitrary linearly ordered field `K` (so literally for the executed instance `Rat`), for all
vector lengths `N` (all types, dimensions, outcome counts), all sweep counts and both projection orders (the order only
decides which projection is `P1` and which is `P2`).  The two constraint sets are abstract predicates `A`, `B` on
parameter vectors and the projections are characterised by their variational inequality (`IsProj`), which QProps.C04
proves for the equality projections and (`_partial`) for eigenvalue clipping.

**Not proved (every theorem here is therefore partial w.r.t. the property text):** convergence of the iteration
(Boyle–Dykstra), hence termination below any `eps > 0` and `eps`-accuracy of the stopped iterate.
-/
open Finset
namespace QM.C05
open QM.C04

variable {K : Type} [Field K] [LinearOrder K] [IsStrictOrderedRing K] {N : Nat}

/-- C05.1 `dyk_invariant`, one sweep: `x' + p' + q' = x + p + q`. -/
theorem dyk_sweep_invariant (P1 P2 : Vec K N → Vec K N) (s : St K N) :
    (sweep P1 P2 s).1.total = s.total := by
  apply Vec.ext'; intro i
  simp only [St.total, sweep, add_get, sub_get]; ring

/-- C05.1 for both values of `mode_proj_order`. -/
theorem dyk_sweepMode_invariant (b : Bool) (Peq Pineq : Vec K N → Vec K N) (s : St K N) :
    (sweepMode b Peq Pineq s).1.total = s.total := by
  unfold sweepMode; split <;> exact dyk_sweep_invariant _ _ s

theorem total_init (x0 : Vec K N) : (⟨x0, Vec.zero, Vec.zero⟩ : St K N).total = x0 := by
  apply Vec.ext'; intro i; simp [St.total]

/-- C05.1 `dyk_invariant`, whole run (induction over sweeps): every recorded state, before and after every sweep,
satisfies `x_k + p_k + q_k = x_0`. -/
theorem dyk_invariant_partial (eps : K) (P1 P2 : Nat → Vec K N → Vec K N) (maxIter : Nat) (x0 : Vec K N)
    (o : Out K N) (h : run eps P1 P2 maxIter x0 = some o) :
    ∀ rec ∈ o.recs, rec.prev.total = x0 ∧ rec.next.total = x0 := by
  unfold run at h
  split at h
  · cases h
  · injection h with h; subst h
    intro rec hrec
    rcases loop_recs eps P1 P2 (fun _ s => s.total = x0)
      (fun k s hs => by rw [dyk_sweep_invariant]; exact hs) maxIter 0 _ [] (total_init x0) rec hrec with h | ⟨j, t, ht, rfl⟩
    · simp at h
    · exact ⟨ht, by simp only [recOf]; rw [dyk_sweep_invariant]; exact ht⟩

/-- C05.6 `history_consistent` (a): every history record is one sweep of the loop body applied to the recorded previous
state, with the recorded `y`, and its `error_value` is `None` for sweep 0 and the Birgin–Raydan value
`Σ (p_k − p_{k+1})² + (q_k − q_{k+1})²` of the recorded entries otherwise (the `k ≥ 1` guard). -/
theorem dyk_history_steps_partial (eps : K) (P1 P2 : Nat → Vec K N → Vec K N) (maxIter : Nat) (x0 : Vec K N)
    (o : Out K N) (h : run eps P1 P2 maxIter x0 = some o) :
    ∀ rec ∈ o.recs, rec.next = (sweep (P1 rec.k) (P2 rec.k) rec.prev).1 ∧
      rec.y = (sweep (P1 rec.k) (P2 rec.k) rec.prev).2 ∧
      rec.err = if 1 ≤ rec.k then some (errVal rec.prev rec.next) else none := by
  unfold run at h
  split at h
  · cases h
  · injection h with h; subst h
    intro rec hrec
    rcases loop_recs eps P1 P2 (fun _ _ => True) (fun _ _ _ => trivial) maxIter 0 _ [] trivial rec hrec
      with h | ⟨j, t, _, rfl⟩
    · simp at h
    · exact ⟨rfl, rfl, rfl⟩

/-- C05.6 `history_consistent` (b): the returned point is the `x` of the newest record, the loop variable is its sweep
index, there is one record per sweep (so the lists `p,q,x,y` have `k+2` entries and `error_value` has `k+1`), the loop
never exceeds `max_iteration`, the warning is printed exactly when the last permitted sweep was executed, the loop ends
early only when the stopping value is below `eps`, and no earlier record had a stopping value below `eps`. -/
theorem dyk_history_returned_partial (eps : K) (P1 P2 : Nat → Vec K N → Vec K N) (maxIter : Nat) (x0 : Vec K N)
    (o : Out K N) (h : run eps P1 P2 maxIter x0 = some o) :
    (∃ rec rest, o.recs = rec :: rest ∧ o.x = rec.next.x ∧ o.k = rec.k ∧
        (o.k + 1 < maxIter → ∃ e, rec.err = some e ∧ e < eps) ∧
        ∀ r' ∈ rest, ∀ e, r'.err = some e → ¬ e < eps) ∧
      o.recs.length = o.k + 1 ∧ (histX x0 o).length = o.k + 2 ∧ (histE o).length = o.k + 1 ∧
      o.k + 1 ≤ maxIter ∧ (o.warned = true ↔ o.k + 1 = maxIter) := by
  unfold run at h
  split at h
  · cases h
  · rename_i hm
    injection h with h; subst h
    obtain ⟨r, rfl⟩ : ∃ r, maxIter = r + 1 := ⟨maxIter - 1, by omega⟩
    obtain ⟨j, t, rest, h1, h2, h3, _, h5, h6, h7⟩ := loop_head eps P1 P2 r 0 ⟨x0, Vec.zero, Vec.zero⟩ []
    have hl := (loop_length eps P1 P2 r 0 ⟨x0, Vec.zero, Vec.zero⟩ []).1
    have ht := loop_tail_not_stopped eps P1 P2 r 0 ⟨x0, Vec.zero, Vec.zero⟩ []
    refine ⟨⟨_, rest, h1, h2, h3, ?_, ?_⟩, ?_, ?_, ?_, ?_, ?_⟩
    · intro hlt; apply h7; rw [h3] at hlt; omega
    · intro r' hr' e he
      rcases ht r' (by rw [h1]; exact hr') with h | h
      · simp at h
      · exact h e he
    · simpa using hl
    · simp only [histX, List.length_cons, List.length_map, List.length_reverse]; simpa using hl
    · simp only [histE, List.length_map, List.length_reverse]; simpa using hl
    · rw [h3]; omega
    · rw [h6, h3]; omega

/-- `max_iteration = 0` is the only input on which the routine fails (`k` is unbound after an empty loop). -/
theorem dyk_run_none_iff (eps : K) (P1 P2 : Nat → Vec K N → Vec K N) (maxIter : Nat) (x0 : Vec K N) :
    run eps P1 P2 maxIter x0 = none ↔ maxIter = 0 := by
  unfold run; split <;> simp_all

/-- C05.2 `dyk_stop_zero_fixed`: a vanishing stopping value means the sweep did not change the state, the
intermediate point `y` equals `x`, and `x` is a common fixed point of the two (shifted) projections. -/
theorem dyk_stop_zero_fixed (P1 P2 : Vec K N → Vec K N) (s : St K N)
    (h : errVal s (sweep P1 P2 s).1 = 0) :
    (sweep P1 P2 s).1 = s ∧ (sweep P1 P2 s).2 = s.x ∧ P1 (s.x.add s.p) = s.x ∧ P2 (s.x.add s.q) = s.x := by
  obtain ⟨hp, hq⟩ := errVal_eq_zero _ _ h
  have hinv := dyk_sweep_invariant P1 P2 s
  have hx : (sweep P1 P2 s).1.x = s.x := by
    apply Vec.ext'; intro i
    have := congrArg (fun v => v.get i) hinv
    simp only [St.total, add_get] at this
    rw [hp, hq] at this
    linarith
  have hy : P1 (s.x.add s.p) = s.x := by
    apply Vec.ext'; intro i
    have := congrArg (fun v => v.get i) hp
    simp only [sweep, sub_get, add_get] at this
    linarith
  refine ⟨St.ext' hx hp hq, hy, hy, ?_⟩
  have hx' := hx
  simp only [sweep] at hx'
  rw [hy] at hx'
  exact hx'

/-- a map is the metric projection onto the set `A` (characterised by membership + variational inequality) -/
def IsProj (A : Vec K N → Prop) (P : Vec K N → Vec K N) : Prop :=
  ∀ u, A (P u) ∧ ∀ z, A z → ip1 (u.sub (P u)) (z.sub (P u)) ≤ 0

/-- C05.3 `dyk_fixed_is_projection`: at a fixed point of the sweep the point `x` lies in both sets and satisfies the
variational inequality of the metric projection of `x_0` onto the intersection. -/
theorem dyk_fixed_is_projection (A B : Vec K N → Prop) (P1 P2 : Vec K N → Vec K N)
    (h1 : IsProj A P1) (h2 : IsProj B P2) (s : St K N) (hfix : (sweep P1 P2 s).1 = s)
    (x0 : Vec K N) (ht : s.total = x0) :
    A s.x ∧ B s.x ∧ ∀ z, A z → B z → ip1 (x0.sub s.x) (z.sub s.x) ≤ 0 := by
  have hp : (sweep P1 P2 s).1.p = s.p := by rw [hfix]
  have hx : (sweep P1 P2 s).1.x = s.x := by rw [hfix]
  have hy : P1 (s.x.add s.p) = s.x := by
    apply Vec.ext'; intro i
    have := congrArg (fun v => v.get i) hp
    simp only [sweep, sub_get, add_get] at this
    linarith
  have hx2 : P2 (s.x.add s.q) = s.x := by
    simp only [sweep] at hx; rw [hy] at hx; exact hx
  have hA := h1 (s.x.add s.p)
  have hB := h2 (s.x.add s.q)
  rw [hy] at hA; rw [hx2] at hB
  refine ⟨hA.1, hB.1, ?_⟩
  intro z hzA hzB
  have e : ip1 (x0.sub s.x) (z.sub s.x)
      = ip1 ((s.x.add s.p).sub s.x) (z.sub s.x) + ip1 ((s.x.add s.q).sub s.x) (z.sub s.x) := by
    subst ht
    simp only [ip1, St.total, sub_get, add_get, ← Finset.sum_add_distrib]
    apply Finset.sum_congr rfl; intro i _; ring
  rw [e]
  exact add_nonpos (hA.2 z hzA) (hB.2 z hzB)

/-- C05.3 hence `x` is the nearest point of `A ∩ B` to `x_0` (Euclidean norm of the stacked parameters). -/
theorem dyk_fixed_nearest (A B : Vec K N → Prop) (P1 P2 : Vec K N → Vec K N)
    (h1 : IsProj A P1) (h2 : IsProj B P2) (s : St K N) (hfix : (sweep P1 P2 s).1 = s)
    (x0 : Vec K N) (ht : s.total = x0) (z : Vec K N) (hzA : A z) (hzB : B z) :
    sqd1 x0 s.x ≤ sqd1 x0 z :=
  nearest1 x0 s.x z ((dyk_fixed_is_projection A B P1 P2 h1 h2 s hfix x0 ht).2.2 z hzA hzB)

/-- C05.3 `dyk_order_independent`: the fixed points of the two projection orders have the same `x`. -/
theorem dyk_order_independent (A B : Vec K N → Prop) (P1 P2 : Vec K N → Vec K N)
    (h1 : IsProj A P1) (h2 : IsProj B P2) (s s' : St K N)
    (hfix : (sweep P1 P2 s).1 = s) (hfix' : (sweep P2 P1 s').1 = s')
    (x0 : Vec K N) (ht : s.total = x0) (ht' : s'.total = x0) : s.x = s'.x := by
  obtain ⟨hA, hB, hvi⟩ := dyk_fixed_is_projection A B P1 P2 h1 h2 s hfix x0 ht
  obtain ⟨hB', hA', hvi'⟩ := dyk_fixed_is_projection B A P2 P1 h2 h1 s' hfix' x0 ht'
  have a := hvi s'.x hA' hB'
  have b := hvi' s.x hB hA
  have hsum : ∑ i, (s'.x.get i - s.x.get i) * (s'.x.get i - s.x.get i) ≤ 0 := by
    have : ∑ i, (s'.x.get i - s.x.get i) * (s'.x.get i - s.x.get i)
        = ip1 (x0.sub s.x) (s'.x.sub s.x) + ip1 (x0.sub s'.x) (s.x.sub s'.x) := by
      simp only [ip1, sub_get, ← Finset.sum_add_distrib]
      apply Finset.sum_congr rfl; intro i _; ring
    rw [this]; exact add_nonpos a b
  have h0 := le_antisymm hsum (Finset.sum_nonneg fun i _ => mul_self_nonneg _)
  apply Vec.ext'; intro i
  have := (Finset.sum_eq_zero_iff_of_nonneg (fun i _ => mul_self_nonneg (s'.x.get i - s.x.get i))).1 h0 i
    (Finset.mem_univ i)
  have := mul_self_eq_zero.1 this
  linarith

theorem add_zero_vec (x : Vec K N) : x.add Vec.zero = x := by
  apply Vec.ext'; intro i; simp

/-- C05.4 `dyk_fix_physical`, one sweep: a point fixed by both projections is reproduced with `p = q = 0`. -/
theorem dyk_sweep_physical (P1 P2 : Vec K N → Vec K N) (x0 : Vec K N) (h1 : P1 x0 = x0) (h2 : P2 x0 = x0) :
    sweep P1 P2 ⟨x0, Vec.zero, Vec.zero⟩ = (⟨x0, Vec.zero, Vec.zero⟩, x0) := by
  have hz : x0.sub x0 = (Vec.zero : Vec K N) := by apply Vec.ext'; intro i; simp
  simp only [sweep, add_zero_vec, h1, h2, hz]

/-- C05.4 `dyk_fix_physical`, whole run: for a physical input, any `eps > 0` and `max_iteration ≥ 2` the routine stops
at `k = 1` (second sweep: stopping value exactly 0) and returns the input. -/
theorem dyk_fix_physical (eps : K) (heps : 0 < eps) (P1 P2 : Nat → Vec K N → Vec K N) (x0 : Vec K N)
    (h1 : ∀ k, P1 k x0 = x0) (h2 : ∀ k, P2 k x0 = x0) (maxIter : Nat) (hm : 2 ≤ maxIter) :
    ∃ o, run eps P1 P2 maxIter x0 = some o ∧ o.x = x0 ∧ o.k = 1 ∧ o.recs.length = 2 := by
  obtain ⟨r, rfl⟩ : ∃ r, maxIter = r + 2 := ⟨maxIter - 2, by omega⟩
  refine ⟨_, by unfold run; rw [if_neg (by omega)], ?_⟩
  have hs : ∀ k, sweep (P1 k) (P2 k) ⟨x0, Vec.zero, Vec.zero⟩ = (⟨x0, Vec.zero, Vec.zero⟩, x0) :=
    fun k => dyk_sweep_physical _ _ x0 (h1 k) (h2 k)
  have e0 : (recOf P1 P2 0 (⟨x0, Vec.zero, Vec.zero⟩ : St K N)).err = none := by simp [recOf]
  have e1 : (recOf P1 P2 1 (⟨x0, Vec.zero, Vec.zero⟩ : St K N)).err = some 0 := by
    simp [recOf, hs, errVal_self]
  rw [loop_succ, e0]
  have : (stopB eps (none : Option K) || r + 1 == 0) = false := by simp [stopB]
  rw [if_neg (by rw [this]; simp), hs]
  rw [loop_succ, e1]
  have : (stopB eps (some (0 : K)) || r == 0) = true := by simp [stopB, heps]
  rw [if_pos this, hs]
  simp

/-- C05.5 `dyk_obj_eq_var`: in the model the object-level and the variable-level routine are the same loop on the
stacked vector (their constraint projections coincide by QProps.C04 `*_var_eq_obj_F`); for the two orders the loop only
swaps the roles of the projections. -/
theorem dyk_runMode_orders (eps : K) (Peq : Vec K N → Vec K N) (Pineq : Nat → Vec K N → Vec K N)
    (maxIter : Nat) (x0 : Vec K N) :
    runMode eps true Peq Pineq maxIter x0 = run eps (fun _ => Peq) Pineq maxIter x0 ∧
    runMode eps false Peq Pineq maxIter x0 = run eps Pineq (fun _ => Peq) maxIter x0 := ⟨rfl, rfl⟩

/-- the hypotheses `IsProj` are satisfiable by the model's own projections: the State equality projection is the
metric projection onto `State.Feas s` (from QProps.C04). -/
theorem isProj_state_eq (s : K) : IsProj (State.Feas s) (peqState (n := N) s) := by
  intro u
  exact ⟨state_projEq_mem s u, fun z hz => le_of_eq (state_projEq_orth s u z hz)⟩

-- non-vacuity: a concrete run of the model (K = ℚ, N = 2): P1 = State equality projection with s = 1/2,
-- P2 = clipping of the second coordinate at 0; input (3, −1)
example : (run (1/100 : Rat) (fun _ => peqState (n := 2) (1/2)) (fun _ v => Vec.ofFn fun i => if i.val = 1 ∧ v.get i < 0 then 0 else v.get i)
    10 (#v[3, -1] : Vec Rat 2)).map (fun o => (o.x, o.k)) = some (#v[1/2, 0], 1) := by decide +kernel

end QM.C05
