import QProofs.C05
import QGen.C05
import QProps.C04
import QProofs.C05Psd
/-!
# C05 — physical projection (Dykstra): property theorems about `QModel.C05`

Everything except the last section is over an arbitrary linearly ordered field `K` (so literally for the executed instance `Rat`),
for all vector lengths `N`, all sweep counts and both projection orders (the order only decides which projection is `P1` and which
is `P2`).  The two constraint sets are abstract predicates `A`, `B` on parameter vectors and the projections are characterised by
their variational inequality (`IsProj`).  `IsProj` instances proved: State equality (`isProj_state_eq`), Gate equality on the flat
vector (`isProj_gate_eq`), the inequality projection for a complete basis over ℝ (`isProj_psd`: State, and Gate via the Choi basis);
Povm and MProcess equality on the flat vector (`isProj_povm_eq`, `isProj_mprocess_eq`) and the block-wise inequality projection of
POVM elements / m-process outcomes (`isProj_psd_blocks`, executed blocks = that projection: `povm_projIneq_eq_psdProjBlocks`):
all four types, and `dyk_runMode_tapped` covers both projection orders.
**Bridge to the executed loop:** the driver replays a run with per-sweep constants in place of the inequality projection;
`dyk_run_congr` (a run depends on the projections only through the arguments actually passed) and `dyk_run_tapped` (constants from
exact eigen-decompositions = the genuine projection `psdProj`) make the `IsProj` theorems statements about that executed run.

**Proved about convergence** (C05.7/8): the Boyle–Dykstra potential decreases by at least the stopping value as coded in every sweep,
hence the iterates stay bounded, the stopping values are summable, the loop as coded TERMINATES by its criterion within `n + 1` sweeps
whenever `n·eps > ‖x₀ − z‖²` for a physical `z` (`dyk_terminates`), returns the iterate after min(first stop index,
max_iteration − 1) + 1 sweeps (`dyk_run_returns_min`), the returned point is physical up to `√eps` (`dyk_returned_physical`) and
satisfies the nearest-point inequality up to `‖p‖·√eps` (`dyk_returned_approx_vi_partial`).
**Not proved:** a bound on the DISTANCE of the stopped iterate to the nearest physical point (strong convergence of Dykstra's
sequence); nearest point / order independence are exact statements only at fixed points (`…_partial`); object level = variable
level is not a theorem (one loop in the model; oracle + correspondence only).
-/
open Finset
namespace QM.C05
open QM.C04

variable {K : Type} [Field K] [LinearOrder K] [IsStrictOrderedRing K] {N : Nat}

/-- C05.1 `dyk_invariant`, one sweep: `x' + p' + q' = x + p + q`. -/
theorem dyk_sweep_invariant (P1 P2 : Vec K N → Vec K N) (s : St K N) :
    (sweep P1 P2 s).1.total = s.total := by
  apply Vec.ext'; intro i
  simp only [St.total, sweep, add_get, sub_get]; ring

/-- C05.1 for both values of `mode_proj_order`. -/
theorem dyk_sweepMode_invariant (b : Bool) (Peq Pineq : Vec K N → Vec K N) (s : St K N) :
    (sweepMode b Peq Pineq s).1.total = s.total := by
  unfold sweepMode; split <;> exact dyk_sweep_invariant _ _ s

theorem total_init (x0 : Vec K N) : (⟨x0, Vec.zero, Vec.zero⟩ : St K N).total = x0 := by
  apply Vec.ext'; intro i; simp [St.total]

/-- C05.1 `dyk_invariant`, whole run (induction over sweeps): every recorded state, before and after every sweep,
satisfies `x_k + p_k + q_k = x_0`. -/
theorem dyk_invariant (eps : K) (P1 P2 : Nat → Vec K N → Vec K N) (maxIter : Nat) (x0 : Vec K N)
    (o : Out K N) (h : run eps P1 P2 maxIter x0 = some o) :
    ∀ rec ∈ o.recs, rec.prev.total = x0 ∧ rec.next.total = x0 := by
  unfold run at h
  split at h
  · cases h
  · injection h with h; subst h
    intro rec hrec
    rcases loop_recs eps P1 P2 (fun _ s => s.total = x0)
      (fun k s hs => by rw [dyk_sweep_invariant]; exact hs) maxIter 0 _ [] (total_init x0) rec hrec with h | ⟨j, t, ht, rfl⟩
    · simp at h
    · exact ⟨ht, by simp only [recOf]; rw [dyk_sweep_invariant]; exact ht⟩

/-- C05.6 `history_consistent` (a): every history record is one sweep of the loop body applied to the recorded previous
state, with the recorded `y`, and its `error_value` is `None` for sweep 0 and the Birgin–Raydan value
`Σ (p_k − p_{k+1})² + (q_k − q_{k+1})²` of the recorded entries otherwise (the `k ≥ 1` guard). -/
theorem dyk_history_steps (eps : K) (P1 P2 : Nat → Vec K N → Vec K N) (maxIter : Nat) (x0 : Vec K N)
    (o : Out K N) (h : run eps P1 P2 maxIter x0 = some o) :
    ∀ rec ∈ o.recs, rec.next = (sweep (P1 rec.k) (P2 rec.k) rec.prev).1 ∧
      rec.y = (sweep (P1 rec.k) (P2 rec.k) rec.prev).2 ∧
      rec.err = if 1 ≤ rec.k then some (errVal rec.prev rec.next) else none := by
  unfold run at h
  split at h
  · cases h
  · injection h with h; subst h
    intro rec hrec
    rcases loop_recs eps P1 P2 (fun _ _ => True) (fun _ _ _ => trivial) maxIter 0 _ [] trivial rec hrec
      with h | ⟨j, t, _, rfl⟩
    · simp at h
    · exact ⟨rfl, rfl, rfl⟩

/-- C05.6 `history_consistent` (b): the returned point is the `x` of the newest record, the loop variable is its sweep
index, there is one record per sweep (so the lists `p,q,x,y` have `k+2` entries and `error_value` has `k+1`), the loop
never exceeds `max_iteration`, the warning is printed exactly when the last permitted sweep was executed, the loop ends
early only when the stopping value is below `eps`, and no earlier record had a stopping value below `eps`. -/
theorem dyk_history_returned (eps : K) (P1 P2 : Nat → Vec K N → Vec K N) (maxIter : Nat) (x0 : Vec K N)
    (o : Out K N) (h : run eps P1 P2 maxIter x0 = some o) :
    (∃ rec rest, o.recs = rec :: rest ∧ o.x = rec.next.x ∧ o.k = rec.k ∧
        (o.k + 1 < maxIter → ∃ e, rec.err = some e ∧ e < eps) ∧
        ∀ r' ∈ rest, ∀ e, r'.err = some e → ¬ e < eps) ∧
      o.recs.length = o.k + 1 ∧ (histX x0 o).length = o.k + 2 ∧ (histE o).length = o.k + 1 ∧
      o.k + 1 ≤ maxIter ∧ (o.warned = true ↔ o.k + 1 = maxIter) := by
  unfold run at h
  split at h
  · cases h
  · rename_i hm
    injection h with h; subst h
    obtain ⟨r, rfl⟩ : ∃ r, maxIter = r + 1 := ⟨maxIter - 1, by omega⟩
    obtain ⟨j, t, rest, h1, h2, h3, _, h5, h6, h7⟩ := loop_head eps P1 P2 r 0 ⟨x0, Vec.zero, Vec.zero⟩ []
    have hl := (loop_length eps P1 P2 r 0 ⟨x0, Vec.zero, Vec.zero⟩ []).1
    have ht := loop_tail_not_stopped eps P1 P2 r 0 ⟨x0, Vec.zero, Vec.zero⟩ []
    refine ⟨⟨_, rest, h1, h2, h3, ?_, ?_⟩, ?_, ?_, ?_, ?_, ?_⟩
    · intro hlt; apply h7; rw [h3] at hlt; omega
    · intro r' hr' e he
      rcases ht r' (by rw [h1]; exact hr') with h | h
      · simp at h
      · exact h e he
    · simpa using hl
    · simp only [histX, List.length_cons, List.length_map, List.length_reverse]; simpa using hl
    · simp only [histE, List.length_map, List.length_reverse]; simpa using hl
    · rw [h3]; omega
    · rw [h6, h3]; omega

/-- within the modelled loop `max_iteration = 0` is the only failing input (`k` is unbound after an empty loop; sampled by the
correspondence).  Failures of the real routine outside the loop logic — `ValueError` of the inequality projection (C04 guard),
configuration mismatches in `__add__` — are not part of this model. -/
theorem dyk_run_none_iff (eps : K) (P1 P2 : Nat → Vec K N → Vec K N) (maxIter : Nat) (x0 : Vec K N) :
    run eps P1 P2 maxIter x0 = none ↔ maxIter = 0 := by
  unfold run; split <;> simp_all

/-- C05.2 `dyk_stop_zero_fixed`: a vanishing stopping value means the sweep did not change the state, the
intermediate point `y` equals `x`, and `x` is a common fixed point of the two (shifted) projections. -/
theorem dyk_stop_zero_fixed (P1 P2 : Vec K N → Vec K N) (s : St K N)
    (h : errVal s (sweep P1 P2 s).1 = 0) :
    (sweep P1 P2 s).1 = s ∧ (sweep P1 P2 s).2 = s.x ∧ P1 (s.x.add s.p) = s.x ∧ P2 (s.x.add s.q) = s.x := by
  obtain ⟨hp, hq⟩ := errVal_eq_zero _ _ h
  have hinv := dyk_sweep_invariant P1 P2 s
  have hx : (sweep P1 P2 s).1.x = s.x := by
    apply Vec.ext'; intro i
    have := congrArg (fun v => v.get i) hinv
    simp only [St.total, add_get] at this
    rw [hp, hq] at this
    linarith
  have hy : P1 (s.x.add s.p) = s.x := by
    apply Vec.ext'; intro i
    have := congrArg (fun v => v.get i) hp
    simp only [sweep, sub_get, add_get] at this
    linarith
  refine ⟨St.ext' hx hp hq, hy, hy, ?_⟩
  have hx' := hx
  simp only [sweep] at hx'
  rw [hy] at hx'
  exact hx'

/-- C05.3 `dyk_fixed_is_projection`: at a fixed point of the sweep the point `x` lies in both sets and satisfies the
variational inequality of the metric projection of `x_0` onto the intersection. -/
theorem dyk_fixed_is_projection (A B : Vec K N → Prop) (P1 P2 : Vec K N → Vec K N)
    (h1 : IsProj A P1) (h2 : IsProj B P2) (s : St K N) (hfix : (sweep P1 P2 s).1 = s)
    (x0 : Vec K N) (ht : s.total = x0) :
    A s.x ∧ B s.x ∧ ∀ z, A z → B z → ip1 (x0.sub s.x) (z.sub s.x) ≤ 0 := by
  have hp : (sweep P1 P2 s).1.p = s.p := by rw [hfix]
  have hx : (sweep P1 P2 s).1.x = s.x := by rw [hfix]
  have hy : P1 (s.x.add s.p) = s.x := by
    apply Vec.ext'; intro i
    have := congrArg (fun v => v.get i) hp
    simp only [sweep, sub_get, add_get] at this
    linarith
  have hx2 : P2 (s.x.add s.q) = s.x := by
    simp only [sweep] at hx; rw [hy] at hx; exact hx
  have hA := h1 (s.x.add s.p)
  have hB := h2 (s.x.add s.q)
  rw [hy] at hA; rw [hx2] at hB
  refine ⟨hA.1, hB.1, ?_⟩
  intro z hzA hzB
  have e : ip1 (x0.sub s.x) (z.sub s.x)
      = ip1 ((s.x.add s.p).sub s.x) (z.sub s.x) + ip1 ((s.x.add s.q).sub s.x) (z.sub s.x) := by
    subst ht
    simp only [ip1, St.total, sub_get, add_get, ← Finset.sum_add_distrib]
    apply Finset.sum_congr rfl; intro i _; ring
  rw [e]
  exact add_nonpos (hA.2 z hzA) (hB.2 z hzB)

/-- C05.3 hence `x` is the nearest point of `A ∩ B` to `x_0` (Euclidean norm of the stacked parameters).
`_partial`: only at an EXACT fixed point (stopping value 0); a real run stops at a value `< eps` — for that see
`dyk_iter_approx_vi` / `dyk_returned_approx_vi_partial`. -/
theorem dyk_fixed_nearest_partial (A B : Vec K N → Prop) (P1 P2 : Vec K N → Vec K N)
    (h1 : IsProj A P1) (h2 : IsProj B P2) (s : St K N) (hfix : (sweep P1 P2 s).1 = s)
    (x0 : Vec K N) (ht : s.total = x0) (z : Vec K N) (hzA : A z) (hzB : B z) :
    sqd1 x0 s.x ≤ sqd1 x0 z :=
  nearest1 x0 s.x z ((dyk_fixed_is_projection A B P1 P2 h1 h2 s hfix x0 ht).2.2 z hzA hzB)

/-- C05.3 `dyk_order_independent_partial`: the fixed points of the two projection orders have the same `x`.
`_partial`: exact fixed points only; for stopped iterates order independence is checked by the oracle (to g(eps)). -/
theorem dyk_order_independent_partial (A B : Vec K N → Prop) (P1 P2 : Vec K N → Vec K N)
    (h1 : IsProj A P1) (h2 : IsProj B P2) (s s' : St K N)
    (hfix : (sweep P1 P2 s).1 = s) (hfix' : (sweep P2 P1 s').1 = s')
    (x0 : Vec K N) (ht : s.total = x0) (ht' : s'.total = x0) : s.x = s'.x := by
  obtain ⟨hA, hB, hvi⟩ := dyk_fixed_is_projection A B P1 P2 h1 h2 s hfix x0 ht
  obtain ⟨hB', hA', hvi'⟩ := dyk_fixed_is_projection B A P2 P1 h2 h1 s' hfix' x0 ht'
  have a := hvi s'.x hA' hB'
  have b := hvi' s.x hB hA
  have hsum : ∑ i, (s'.x.get i - s.x.get i) * (s'.x.get i - s.x.get i) ≤ 0 := by
    have : ∑ i, (s'.x.get i - s.x.get i) * (s'.x.get i - s.x.get i)
        = ip1 (x0.sub s.x) (s'.x.sub s.x) + ip1 (x0.sub s'.x) (s.x.sub s'.x) := by
      simp only [ip1, sub_get, ← Finset.sum_add_distrib]
      apply Finset.sum_congr rfl; intro i _; ring
    rw [this]; exact add_nonpos a b
  have h0 := le_antisymm hsum (Finset.sum_nonneg fun i _ => mul_self_nonneg _)
  apply Vec.ext'; intro i
  have := (Finset.sum_eq_zero_iff_of_nonneg (fun i _ => mul_self_nonneg (s'.x.get i - s.x.get i))).1 h0 i
    (Finset.mem_univ i)
  have := mul_self_eq_zero.1 this
  linarith

theorem add_zero_vec (x : Vec K N) : x.add Vec.zero = x := by
  apply Vec.ext'; intro i; simp

/-- C05.4 `dyk_fix_physical`, one sweep: a point fixed by both projections is reproduced with `p = q = 0`. -/
theorem dyk_sweep_physical (P1 P2 : Vec K N → Vec K N) (x0 : Vec K N) (h1 : P1 x0 = x0) (h2 : P2 x0 = x0) :
    sweep P1 P2 ⟨x0, Vec.zero, Vec.zero⟩ = (⟨x0, Vec.zero, Vec.zero⟩, x0) := by
  have hz : x0.sub x0 = (Vec.zero : Vec K N) := by apply Vec.ext'; intro i; simp
  simp only [sweep, add_zero_vec, h1, h2, hz]

/-- C05.4 `dyk_fix_physical`, whole run: for a physical input, any `eps > 0` and `max_iteration ≥ 2` the routine stops
at `k = 1` (second sweep: stopping value exactly 0) and returns the input. -/
theorem dyk_fix_physical (eps : K) (heps : 0 < eps) (P1 P2 : Nat → Vec K N → Vec K N) (x0 : Vec K N)
    (h1 : ∀ k, P1 k x0 = x0) (h2 : ∀ k, P2 k x0 = x0) (maxIter : Nat) (hm : 2 ≤ maxIter) :
    ∃ o, run eps P1 P2 maxIter x0 = some o ∧ o.x = x0 ∧ o.k = 1 ∧ o.recs.length = 2 := by
  obtain ⟨r, rfl⟩ : ∃ r, maxIter = r + 2 := ⟨maxIter - 2, by omega⟩
  refine ⟨_, by unfold run; rw [if_neg (by omega)], ?_⟩
  have hs : ∀ k, sweep (P1 k) (P2 k) ⟨x0, Vec.zero, Vec.zero⟩ = (⟨x0, Vec.zero, Vec.zero⟩, x0) :=
    fun k => dyk_sweep_physical _ _ x0 (h1 k) (h2 k)
  have e0 : (recOf P1 P2 0 (⟨x0, Vec.zero, Vec.zero⟩ : St K N)).err = none := by simp [recOf]
  have e1 : (recOf P1 P2 1 (⟨x0, Vec.zero, Vec.zero⟩ : St K N)).err = some 0 := by
    simp [recOf, hs, errVal_self]
  rw [loop_succ, e0]
  have : (stopB eps (none : Option K) || r + 1 == 0) = false := by simp [stopB]
  rw [if_neg (by rw [this]; simp), hs]
  rw [loop_succ, e1]
  have : (stopB eps (some (0 : K)) || r == 0) = true := by simp [stopB, heps]
  rw [if_pos this, hs]
  simp

/-- C05.7 one sweep decreases the Boyle–Dykstra potential by at least the stopping value as coded -/
theorem dyk_lyapunov_step (A B : Vec K N → Prop) (P1 P2 : Vec K N → Vec K N) (h1 : IsProj A P1) (h2 : IsProj B P2)
    (s : St K N) (y z : Vec K N) (hp : NormalAt A y s.p) (hq : NormalAt B s.x s.q) :
    lyap z (sweep P1 P2 s).2 (sweep P1 P2 s).1 + errVal s (sweep P1 P2 s).1 ≤ lyap z y s := by
  have hn := sweep_normal A B P1 P2 h1 h2 s
  have r1 := hp _ hn.1
  have r2 := hq _ hn.2.1
  rw [lyap_identity P1 P2 s y z]; linarith

/-- C05.7 whole run: for every point `z` of the intersection, potential after `k` sweeps + all stopping values so far
≤ ‖x₀ − z‖²; the corrections stay normal to their sets -/
theorem dyk_lyapunov_iter (A B : Vec K N → Prop) (P1 P2 : Nat → Vec K N → Vec K N)
    (h1 : ∀ k, IsProj A (P1 k)) (h2 : ∀ k, IsProj B (P2 k)) (x0 z : Vec K N) (k : Nat) :
    NormalAt A (iterSY P1 P2 x0 k).2 (iterSY P1 P2 x0 k).1.p ∧
    NormalAt B (iterSY P1 P2 x0 k).1.x (iterSY P1 P2 x0 k).1.q ∧
    lyap z (iterSY P1 P2 x0 k).2 (iterSY P1 P2 x0 k).1 + ∑ j ∈ Finset.range k, errAt P1 P2 x0 j ≤ sqd1 x0 z := by
  induction k with
  | zero =>
    refine ⟨fun w _ => by simp [iterSY, ip1_zero_left], fun w _ => by simp [iterSY, ip1_zero_left], ?_⟩
    simp [iterSY, lyap, ip1_zero_left]
  | succ k ih =>
    obtain ⟨hp, hq, hl⟩ := ih
    have hn := sweep_normal A B (P1 k) (P2 k) (h1 k) (h2 k) (iterSY P1 P2 x0 k).1
    have hs := dyk_lyapunov_step A B (P1 k) (P2 k) (h1 k) (h2 k) (iterSY P1 P2 x0 k).1 (iterSY P1 P2 x0 k).2 z hp hq
    refine ⟨hn.2.2.1, hn.2.2.2, ?_⟩
    rw [Finset.sum_range_succ]
    have : errAt P1 P2 x0 k = errVal (iterSY P1 P2 x0 k).1 (sweep (P1 k) (P2 k) (iterSY P1 P2 x0 k).1).1 := rfl
    rw [this]
    show lyap z (sweep (P1 k) (P2 k) (iterSY P1 P2 x0 k).1).2 (sweep (P1 k) (P2 k) (iterSY P1 P2 x0 k).1).1 + _ ≤ _
    linarith

/-- C05.7 iterates stay in the ball around any physical point through the start: ‖x_k − z‖² ≤ ‖x₀ − z‖²,
and the stopping values are summable: Σ_{j<k} err_j ≤ ‖x₀ − z‖² -/
theorem dyk_bounded_summable (A B : Vec K N → Prop) (P1 P2 : Nat → Vec K N → Vec K N)
    (h1 : ∀ k, IsProj A (P1 k)) (h2 : ∀ k, IsProj B (P2 k)) (x0 z : Vec K N) (hzA : A z) (hzB : B z) (k : Nat) :
    sqd1 (iterSY P1 P2 x0 k).1.x z ≤ sqd1 x0 z ∧ ∑ j ∈ Finset.range k, errAt P1 P2 x0 j ≤ sqd1 x0 z := by
  obtain ⟨hp, hq, hl⟩ := dyk_lyapunov_iter A B P1 P2 h1 h2 x0 z k
  have hge := lyap_ge A B z _ _ hzA hzB hp hq
  have hs : 0 ≤ ∑ j ∈ Finset.range k, errAt P1 P2 x0 j := Finset.sum_nonneg fun j _ => errVal_nonneg _ _
  have h0 : 0 ≤ sqd1 (iterSY P1 P2 x0 k).1.x z := by
    rw [sqd1_eq]; exact Finset.sum_nonneg fun i _ => mul_self_nonneg _
  constructor <;> linarith

/-- C05.7 the stopping criterion fires: if `n·eps > ‖x₀ − z‖²` for some physical `z`, one of the sweeps `1 … n` has a
stopping value below `eps` -/
theorem dyk_stop_exists (A B : Vec K N → Prop) (P1 P2 : Nat → Vec K N → Vec K N)
    (h1 : ∀ k, IsProj A (P1 k)) (h2 : ∀ k, IsProj B (P2 k)) (x0 z : Vec K N) (hzA : A z) (hzB : B z)
    (eps : K) (n : Nat) (hn : sqd1 x0 z < (n : K) * eps) :
    ∃ j, 1 ≤ j ∧ j ≤ n ∧ errAt P1 P2 x0 j < eps := by
  by_contra hcon
  simp only [not_exists, not_and, not_lt] at hcon
  have hsum := (dyk_bounded_summable A B P1 P2 h1 h2 x0 z hzA hzB (n + 1)).2
  have hlow : (n : K) * eps ≤ ∑ j ∈ Finset.range (n + 1), errAt P1 P2 x0 j := by
    rw [Finset.sum_range_succ']
    have h0 : 0 ≤ errAt P1 P2 x0 0 := errVal_nonneg _ _
    have : (n : K) * eps ≤ ∑ j ∈ Finset.range n, errAt P1 P2 x0 (j + 1) := by
      have : ∑ _j ∈ Finset.range n, eps ≤ ∑ j ∈ Finset.range n, errAt P1 P2 x0 (j + 1) :=
        Finset.sum_le_sum fun j hj => hcon (j + 1) (by omega) (by have := Finset.mem_range.1 hj; omega)
      simpa using this
    linarith
  linarith

/-- C05.6 stopping-rule glue: the routine returns the iterate after `K+1` sweeps where `K` is the smaller of
`max_iteration − 1` and the first sweep index `≥ 1` whose stopping value is `< eps` -/
theorem dyk_run_returns_min (eps : K) (P1 P2 : Nat → Vec K N → Vec K N) (maxIter : Nat) (x0 : Vec K N)
    (o : Out K N) (h : run eps P1 P2 maxIter x0 = some o) :
    o.x = (iterSY P1 P2 x0 (o.k + 1)).1.x ∧ o.k + 1 ≤ maxIter ∧
      (∀ j, j < o.k → ¬ StopAt eps P1 P2 x0 j) ∧ (StopAt eps P1 P2 x0 o.k ∨ o.k + 1 = maxIter) := by
  unfold run at h
  split at h
  · cases h
  · injection h with h; subst h
    obtain ⟨r, rfl⟩ : ∃ r, maxIter = r + 1 := ⟨maxIter - 1, by omega⟩
    have e0 : (⟨x0, Vec.zero, Vec.zero⟩ : St K N) = (iterSY P1 P2 x0 0).1 := rfl
    rw [e0]
    obtain ⟨a1, a2, a3, a4, a5⟩ := loop_iter eps P1 P2 x0 r 0 []
    refine ⟨a3, by omega, ?_, ?_⟩
    · intro j hj hs
      have := a4 j (Nat.zero_le _) hj
      rw [(stopB_errOpt eps P1 P2 x0 j).2 hs] at this
      cases this
    · rcases a5 with h | h
      · exact Or.inl ((stopB_errOpt eps P1 P2 x0 _).1 h)
      · right; change _ + 1 = r + 1; rw [h]; omega

/-- C05.7 termination of the loop as coded: if a physical point `z` exists and `n·eps > ‖x₀ − z‖²`, then with
`max_iteration ≥ n + 2` the routine stops BY THE CRITERION (no max-iteration warning) after at most `n + 1` sweeps -/
theorem dyk_terminates (A B : Vec K N → Prop) (P1 P2 : Nat → Vec K N → Vec K N)
    (h1 : ∀ k, IsProj A (P1 k)) (h2 : ∀ k, IsProj B (P2 k)) (x0 z : Vec K N) (hzA : A z) (hzB : B z)
    (eps : K) (n : Nat) (hn : sqd1 x0 z < (n : K) * eps) (maxIter : Nat) (hm : n + 2 ≤ maxIter)
    (o : Out K N) (h : run eps P1 P2 maxIter x0 = some o) :
    o.k ≤ n ∧ StopAt eps P1 P2 x0 o.k ∧ o.warned = false := by
  obtain ⟨j, hj1, hj2, hj3⟩ := dyk_stop_exists A B P1 P2 h1 h2 x0 z hzA hzB eps n hn
  obtain ⟨_, b2, b3, b4⟩ := dyk_run_returns_min eps P1 P2 maxIter x0 o h
  have hk : o.k ≤ j := by
    by_contra hlt
    exact b3 j (by omega) ⟨hj1, hj3⟩
  have hstop : StopAt eps P1 P2 x0 o.k := by
    rcases b4 with h | h
    · exact h
    · omega
  refine ⟨by omega, hstop, ?_⟩
  have hw := (dyk_history_returned eps P1 P2 maxIter x0 o h).2.2.2.2.2
  cases hwv : o.warned with
  | false => rfl
  | true => have := hw.1 hwv; omega

/-- C05.8 accuracy implied by the stopping threshold, one sweep: the new `x` lies in the second set, the intermediate `y` in the
first, and their squared distance is at most the stopping value (`x' − y' = q − q'`). -/
theorem dyk_sweep_gap (A B : Vec K N → Prop) (P1 P2 : Vec K N → Vec K N) (h1 : IsProj A P1) (h2 : IsProj B P2)
    (s : St K N) :
    A (sweep P1 P2 s).2 ∧ B (sweep P1 P2 s).1.x ∧
      sqd1 (sweep P1 P2 s).1.x (sweep P1 P2 s).2 ≤ errVal s (sweep P1 P2 s).1 := by
  refine ⟨(h1 _).1, (h2 _).1, ?_⟩
  rw [sqd1_eq, errVal_eq]
  apply Finset.sum_le_sum; intro i _
  have e : (sweep P1 P2 s).1.x.get i - (sweep P1 P2 s).2.get i = s.q.get i - (sweep P1 P2 s).1.q.get i := by
    simp only [sweep, sub_get, add_get]; ring
  rw [e]
  nlinarith [mul_self_nonneg (s.p.get i - (sweep P1 P2 s).1.p.get i)]

/-- C05.8 the returned point is physical up to the accuracy implied by `eps_proj_physical`: when the routine stops by the
criterion, the returned `x` lies in the set of the second projection and within `√eps` (squared distance `< eps`) of a point
of the set of the first projection. -/
theorem dyk_returned_physical (A B : Vec K N → Prop) (P1 P2 : Nat → Vec K N → Vec K N)
    (h1 : ∀ k, IsProj A (P1 k)) (h2 : ∀ k, IsProj B (P2 k)) (eps : K) (maxIter : Nat) (x0 : Vec K N)
    (o : Out K N) (h : run eps P1 P2 maxIter x0 = some o) (hs : StopAt eps P1 P2 x0 o.k) :
    B o.x ∧ ∃ y, A y ∧ sqd1 o.x y < eps := by
  obtain ⟨hx, _, _, _⟩ := dyk_run_returns_min eps P1 P2 maxIter x0 o h
  have hg := dyk_sweep_gap A B (P1 o.k) (P2 o.k) (h1 o.k) (h2 o.k) (iterSY P1 P2 x0 o.k).1
  have e : (iterSY P1 P2 x0 (o.k + 1)) = sweep (P1 o.k) (P2 o.k) (iterSY P1 P2 x0 o.k).1 := rfl
  rw [hx, e]
  exact ⟨hg.2.1, _, hg.1, lt_of_le_of_lt hg.2.2 hs.2⟩

/-- the invariant along the iterates: `x_k + p_k + q_k = x₀` -/
theorem iter_total (P1 P2 : Nat → Vec K N → Vec K N) (x0 : Vec K N) (k : Nat) :
    (iterSY P1 P2 x0 k).1.total = x0 := by
  induction k with
  | zero => exact total_init x0
  | succ k ih => show (sweep (P1 k) (P2 k) (iterSY P1 P2 x0 k).1).1.total = x0; rw [dyk_sweep_invariant]; exact ih

/-- the Gate equality projection on the flat vector (`calc_proj_eq_constraint_with_var(…, False)`) is the metric projection
onto the trace-preserving set -/
theorem isProj_gate_eq (n : Nat) : IsProj (GateFlatFeas (K := K) n) (peqGate (n := n)) := by
  intro u
  have hpos : ∀ k : Fin (n * n), 0 < n := fun k => pos_of_lt_mul k.isLt
  refine ⟨?_, fun z hz => ?_⟩
  · intro k hk
    rw [peqGate_get]
    by_cases h0 : k.val = 0
    · simp [h0]
    · simp [h0, hk]
  · apply le_of_eq
    unfold ip1
    apply Finset.sum_eq_zero; intro k _
    simp only [sub_get, peqGate_get]
    by_cases hk : k.val < n
    · have hz' := hz k hk
      by_cases h0 : k.val = 0
      · simp [h0, hz'] 
      · simp [h0, hk, hz']
    · have h0 : k.val ≠ 0 := fun h => hk (by rw [h]; exact hpos k)
      simp [h0, hk]

/-- C05.3 quantitative: at EVERY iterate and for every point `z` of the intersection
`⟪x₀ − x_k, z − x_k⟫ ≤ ⟪p_k, y_k − x_k⟫` — the defect of the nearest-point inequality is controlled by the gap `y_k − x_k` -/
theorem dyk_iter_approx_vi (A B : Vec K N → Prop) (P1 P2 : Nat → Vec K N → Vec K N)
    (h1 : ∀ k, IsProj A (P1 k)) (h2 : ∀ k, IsProj B (P2 k)) (x0 z : Vec K N) (hzA : A z) (hzB : B z) (k : Nat) :
    ip1 (x0.sub (iterSY P1 P2 x0 k).1.x) (z.sub (iterSY P1 P2 x0 k).1.x)
      ≤ ip1 (iterSY P1 P2 x0 k).1.p ((iterSY P1 P2 x0 k).2.sub (iterSY P1 P2 x0 k).1.x) := by
  obtain ⟨hp, hq, _⟩ := dyk_lyapunov_iter A B P1 P2 h1 h2 x0 z k
  have a := hp z hzA
  have b := hq z hzB
  have t := iter_total P1 P2 x0 k
  generalize (iterSY P1 P2 x0 k) = sy at *
  subst t
  have e : ip1 (sy.1.total.sub sy.1.x) (z.sub sy.1.x)
      = ip1 sy.1.p (z.sub sy.2) + ip1 sy.1.p (sy.2.sub sy.1.x) + ip1 sy.1.q (z.sub sy.1.x) := by
    simp only [ip1, St.total, sub_get, add_get, ← Finset.sum_add_distrib]
    apply Finset.sum_congr rfl; intro i _; ring
  rw [e]; linarith

/-- C05 congruence (bridge to the executed loop): a run depends on the two projection families only through their values at
the arguments actually passed.  The driver replays the real run with the per-sweep CONSTANT `fun _ => (result of the tapped
eigh)` in place of the inequality projection; whenever that constant equals a genuine projection `P2' k` at the argument of
sweep `k` (exact eigh contract, C04), the executed run IS the run of `P1' P2'`, to which all `IsProj` theorems apply. -/
theorem dyk_run_congr (eps : K) (P1 P2 P1' P2' : Nat → Vec K N → Vec K N) (maxIter : Nat) (x0 : Vec K N)
    (ha1 : ∀ k, P1 k (arg1 P1' P2' x0 k) = P1' k (arg1 P1' P2' x0 k))
    (ha2 : ∀ k, P2 k (arg2 P1' P2' x0 k) = P2' k (arg2 P1' P2' x0 k)) :
    run eps P1 P2 maxIter x0 = run eps P1' P2' maxIter x0 := by
  have hs : ∀ k, sweep (P1 k) (P2 k) (iterSY P1' P2' x0 k).1 = sweep (P1' k) (P2' k) (iterSY P1' P2' x0 k).1 := by
    intro k
    have e1 := ha1 k
    have e2 := ha2 k
    unfold arg2 at e2
    unfold arg1 at e1 e2
    simp only [sweep, e1, e2]
  unfold run
  split
  · rfl
  · have := loop_congr eps P1 P2 P1' P2' x0 hs maxIter 0 []
    exact congrArg some this

/-- C05.6 `history_consistent` (c): the five lists of the history dict are exactly the sequences of iterates
`x_0 … x_{k+1}`, `p_0 …`, `q_0 …`, `None, y_1 … y_{k+1}`, `None, err_1 … err_k` (so records chain, start at `(x₀,0,0)`, and the
recorded `error_value`s are the stopping values of consecutive list entries). -/
theorem dyk_history_lists (eps : K) (P1 P2 : Nat → Vec K N → Vec K N) (maxIter : Nat) (x0 : Vec K N)
    (o : Out K N) (h : run eps P1 P2 maxIter x0 = some o) :
    histX x0 o = (List.range (o.k + 2)).map (fun j => (iterSY P1 P2 x0 j).1.x) ∧
    histP o = (List.range (o.k + 2)).map (fun j => (iterSY P1 P2 x0 j).1.p) ∧
    histQ o = (List.range (o.k + 2)).map (fun j => (iterSY P1 P2 x0 j).1.q) ∧
    histY o = none :: (List.range (o.k + 1)).map (fun j => some (iterSY P1 P2 x0 (j + 1)).2) ∧
    histE o = (List.range (o.k + 1)).map (fun j => errOpt P1 P2 x0 j) := by
  unfold run at h
  split at h
  · cases h
  · injection h with h; subst h
    obtain ⟨r, rfl⟩ : ∃ r, maxIter = r + 1 := ⟨maxIter - 1, by omega⟩
    have e0 : (⟨x0, Vec.zero, Vec.zero⟩ : St K N) = (iterSY P1 P2 x0 0).1 := rfl
    rw [e0]
    have hr := loop_recs_exact eps P1 P2 x0 r 0 []
    set o := loop eps P1 P2 (r + 1) 0 (iterSY P1 P2 x0 0).1 [] with ho
    have hrev : o.recs.reverse = (List.range (o.k + 1)).map fun j => recOf P1 P2 j (iterSY P1 P2 x0 j).1 := by
      rw [hr]; simp [List.range_eq_range']
    have hsucc : ∀ (f : Nat → Vec K N), (List.range (o.k + 2)).map f = f 0 :: (List.range (o.k + 1)).map (fun j => f (j + 1)) := by
      intro f; rw [List.range_succ_eq_map]; simp [List.map_map, Function.comp_def]
    refine ⟨?_, ?_, ?_, ?_, ?_⟩
    · rw [histX, hrev, hsucc]; simp [List.map_map, Function.comp_def, recOf, iterSY]
    · rw [histP, hrev, hsucc]; simp [List.map_map, Function.comp_def, recOf, iterSY]
    · rw [histQ, hrev, hsucc]; simp [List.map_map, Function.comp_def, recOf, iterSY]
    · rw [histY, hrev]; simp [List.map_map, Function.comp_def, recOf, iterSY]
    · rw [histE, hrev]; simp [List.map_map, Function.comp_def, recOf_iter_err]

/-- C05.3 quantitative, at the returned point (`_partial`: a bound on the defect of the variational inequality, not on the distance
to the nearest point): when the routine stops by its criterion, for every physical `z`
`⟪x₀ − x, z − x⟫ ≤ g` with `g² ≤ ‖p‖²·eps`, `p` the first correction at the stop — the returned point satisfies the nearest-point
inequality up to `‖p‖·√eps`. -/
theorem dyk_returned_approx_vi_partial (A B : Vec K N → Prop) (P1 P2 : Nat → Vec K N → Vec K N)
    (h1 : ∀ k, IsProj A (P1 k)) (h2 : ∀ k, IsProj B (P2 k)) (eps : K) (maxIter : Nat) (x0 : Vec K N)
    (o : Out K N) (h : run eps P1 P2 maxIter x0 = some o) (hs : StopAt eps P1 P2 x0 o.k)
    (z : Vec K N) (hzA : A z) (hzB : B z) :
    ∃ g, ip1 (x0.sub o.x) (z.sub o.x) ≤ g ∧
      g * g ≤ ip1 (iterSY P1 P2 x0 (o.k + 1)).1.p (iterSY P1 P2 x0 (o.k + 1)).1.p * eps := by
  obtain ⟨hx, _, _, _⟩ := dyk_run_returns_min eps P1 P2 maxIter x0 o h
  have hv := dyk_iter_approx_vi A B P1 P2 h1 h2 x0 z hzA hzB (o.k + 1)
  have hg := dyk_sweep_gap A B (P1 o.k) (P2 o.k) (h1 o.k) (h2 o.k) (iterSY P1 P2 x0 o.k).1
  have e : (iterSY P1 P2 x0 (o.k + 1)) = sweep (P1 o.k) (P2 o.k) (iterSY P1 P2 x0 o.k).1 := rfl
  refine ⟨ip1 (iterSY P1 P2 x0 (o.k + 1)).1.p ((iterSY P1 P2 x0 (o.k + 1)).2.sub (iterSY P1 P2 x0 (o.k + 1)).1.x),
    by rw [hx]; exact hv, ?_⟩
  have cs := ip1_sq_le (iterSY P1 P2 x0 (o.k + 1)).1.p ((iterSY P1 P2 x0 (o.k + 1)).2.sub (iterSY P1 P2 x0 (o.k + 1)).1.x)
  have hsq : ip1 ((iterSY P1 P2 x0 (o.k + 1)).2.sub (iterSY P1 P2 x0 (o.k + 1)).1.x)
      ((iterSY P1 P2 x0 (o.k + 1)).2.sub (iterSY P1 P2 x0 (o.k + 1)).1.x) < eps := by
    have : ip1 ((iterSY P1 P2 x0 (o.k + 1)).2.sub (iterSY P1 P2 x0 (o.k + 1)).1.x)
        ((iterSY P1 P2 x0 (o.k + 1)).2.sub (iterSY P1 P2 x0 (o.k + 1)).1.x)
        = sqd1 (iterSY P1 P2 x0 (o.k + 1)).1.x (iterSY P1 P2 x0 (o.k + 1)).2 := by
      rw [sqd1_eq]; simp only [ip1, sub_get]; apply Finset.sum_congr rfl; intro i _; ring
    rw [this, e]
    exact lt_of_le_of_lt hg.2.2 hs.2
  have hpp : 0 ≤ ip1 (iterSY P1 P2 x0 (o.k + 1)).1.p (iterSY P1 P2 x0 (o.k + 1)).1.p :=
    Finset.sum_nonneg fun i _ => mul_self_nonneg _
  calc _ ≤ _ := cs
    _ ≤ _ := mul_le_mul_of_nonneg_left hsq.le hpp

section psd
open Matrix QM.Psd
open scoped ComplexOrder
variable {d : Nat}

/-- C05/H1 an `IsProj` instance for the C04 inequality projection over ℝ: for an orthonormal Hermitian basis of `d²` elements
`psdProj` is the metric projection onto the parameter vectors with PSD operator. -/
theorem isProj_psd (B : Vector (Mat ℂ d d) (d * d)) (hB : OrthoN (basisM B)) (hH : HermB B) :
    IsProj (fun v : Vec ℝ (d * d) => (matOfVec B v).toM.PosSemidef) (psdProj B hB hH) := by
  intro u
  obtain ⟨hp, hspan⟩ := psdProj_spec B hB hH u
  obtain ⟨hU, hA⟩ := eig_contract B hH u
  exact ⟨projIneqCore_feasible_partial B _ _ _ hspan,
    fun z hz => projIneqCore_vi_partial B hB u _ _ hU hA _ hp hspan z hz⟩

/-- whatever exact eigen-decomposition `eigh` returns, the model's result is that projection -/
theorem projIneqCore_eq_psdProj (B : Vector (Mat ℂ d d) (d * d)) (hB : OrthoN (basisM B)) (hH : HermB B)
    (x : Vec ℝ (d * d)) (lam : Vec ℝ d) (U : Mat ℂ d d) (hU : U.toMᴴ * U.toM = 1) (hA : matOfVec B x = rebuild U lam)
    (p : Vec ℝ (d * d)) (hp : projIneqCore B (0 : ℝ) lam U = .ok p) : p = psdProj B hB hH x := by
  obtain ⟨p0, hp0, hspan⟩ := projIneqCore_ok B hB hH lam U
  rw [hp] at hp0; injection hp0 with e; subst e
  have hP := isProj_psd B hB hH x
  have v1 := projIneqCore_vi_partial B hB x lam U hU hA p hp hspan _ hP.1
  have v2 := hP.2 p (projIneqCore_feasible_partial B lam U p hspan)
  exact eq_of_two_vi x p _ v1 v2

/-- C05/H1 the executed loop IS a Dykstra run of genuine projections: the driver replays a run with the inequality projection
replaced by per-sweep constants `c k` computed from the tapped `eigh` results; if every tapped result is an exact
eigen-decomposition of the operator of the argument of its sweep, that run equals the run with the genuine projection `psdProj`
(order `"eq_ineq"`; single-operator types State, and Gate through the Choi basis), so every `IsProj` theorem above applies to it. -/
theorem dyk_run_tapped (B : Vector (Mat ℂ d d) (d * d)) (hB : OrthoN (basisM B)) (hH : HermB B)
    (eps : ℝ) (Peq : Vec ℝ (d * d) → Vec ℝ (d * d)) (c : Nat → Vec ℝ (d * d)) (maxIter : Nat) (x0 : Vec ℝ (d * d))
    (hc : ∀ k, ∃ lam U, U.toMᴴ * U.toM = 1 ∧
      matOfVec B (arg2 (fun _ => Peq) (fun _ => psdProj B hB hH) x0 k) = rebuild U lam ∧
      projIneqCore B (0 : ℝ) lam U = .ok (c k)) :
    run eps (fun _ => Peq) (fun k _ => c k) maxIter x0 = run eps (fun _ => Peq) (fun _ => psdProj B hB hH) maxIter x0 := by
  apply dyk_run_congr
  · intro k; rfl
  · intro k
    obtain ⟨lam, U, hU, hA, hp⟩ := hc k
    exact projIneqCore_eq_psdProj B hB hH _ lam U hU hA (c k) hp

-- non-vacuity of `dyk_run_tapped` on the real qubit basis: constants built from exact eigen-decompositions satisfy its hypothesis
open QM.Psd in
example (Peq : Vec ℝ (2 * 2) → Vec ℝ (2 * 2)) (x0 : Vec ℝ (2 * 2)) :
    ∃ c : Nat → Vec ℝ (2 * 2), ∀ k, ∃ lam U, U.toMᴴ * U.toM = 1 ∧
      matOfVec (pauliB : Vector (Mat ℂ 2 2) (2 * 2)) (arg2 (fun _ => Peq) (fun _ => psdProj pauliB pauli_orthoN pauli_hermB) x0 k)
        = rebuild U lam ∧ projIneqCore (pauliB : Vector (Mat ℂ 2 2) (2 * 2)) (0 : ℝ) lam U = .ok (c k) :=
  ⟨fun k => psdProj pauliB pauli_orthoN pauli_hermB (arg2 (fun _ => Peq) (fun _ => psdProj pauliB pauli_orthoN pauli_hermB) x0 k),
   fun k => ⟨_, _, (eig_contract pauliB pauli_hermB _).1, (eig_contract pauliB pauli_hermB _).2,
     (psdProj_spec pauliB pauli_orthoN pauli_hermB _).1⟩⟩

variable {m : Nat}

/-- C05/H1 both orders: replacing the inequality projection by per-sweep constants `c k` that coincide with a genuine projection
`Pg` at the argument of their sweep does not change the run (`runMode`: `true` = `"eq_ineq"`, inequality second; `false`:
inequality first). -/
theorem dyk_runMode_tapped (eps : K) (eqIneq : Bool) (Peq Pg : Vec K N → Vec K N) (c : Nat → Vec K N)
    (maxIter : Nat) (x0 : Vec K N)
    (hc : ∀ k, c k = Pg (if eqIneq then arg2 (fun _ => Peq) (fun _ => Pg) x0 k else arg1 (fun _ => Pg) (fun _ => Peq) x0 k)) :
    runMode eps eqIneq Peq (fun k _ => c k) maxIter x0 = runMode eps eqIneq Peq (fun _ => Pg) maxIter x0 := by
  cases eqIneq
  · simp only [runMode, Bool.false_eq_true, if_false] at hc ⊢
    exact dyk_run_congr eps _ _ _ _ maxIter x0 (fun k => hc k) (fun k => rfl)
  · simp only [runMode, if_true] at hc ⊢
    exact dyk_run_congr eps _ _ _ _ maxIter x0 (fun k => rfl) (fun k => hc k)

/-- C05/H1 `IsProj` for the POVM / m-process inequality projection on the flat vector (product of PSD cones). -/
theorem isProj_psd_blocks (B : Vector (Mat ℂ d d) (d * d)) (hB : OrthoN (basisM B)) (hH : HermB B) (m : Nat) :
    IsProj (fun v : Vec ℝ (m * (d * d)) => ∀ k : Fin m, (matOfVec B (unflatten v)[k]).toM.PosSemidef)
      (psdProjBlocks B hB hH m) := by
  intro u
  have e : unflatten (psdProjBlocks B hB hH m u) = (Vector.ofFn fun k : Fin m => psdProj B hB hH (unflatten u)[k]) := by
    unfold psdProjBlocks; rw [unflatten_flatten]
  refine ⟨?_, fun z hz => ?_⟩
  · show ∀ k : Fin m, (matOfVec B (unflatten (psdProjBlocks B hB hH m u))[k]).toM.PosSemidef
    intro k; rw [e]; simpa using (isProj_psd B hB hH (unflatten u)[k]).1
  · rw [ip1_flat, unflatten_sub, unflatten_sub, e, ip2_rows]
    apply Finset.sum_nonpos; intro k _
    have := (isProj_psd B hB hH (unflatten u)[k]).2 (unflatten z)[k] (hz k)
    simpa [Mat.sub, Vec.sub, Mat.get, Vec.get, Mat.ofFn, Vec.ofFn] using this

/-- the executed block projection with exact eigh results IS that projection -/
theorem povm_projIneq_eq_psdProjBlocks (B : Vector (Mat ℂ d d) (d * d)) (hB : OrthoN (basisM B)) (hH : HermB B)
    (v : Vec ℝ (m * (d * d))) (eig : Vector (Vec ℝ d × Mat ℂ d d) m)
    (hU : ∀ k : Fin m, eig[k].2.toMᴴ * eig[k].2.toM = 1)
    (hA : ∀ k : Fin m, matOfVec B (unflatten v)[k] = rebuild eig[k].2 eig[k].1)
    (C : Mat ℝ m (d * d)) (hC : Povm.projIneq B (0 : ℝ) eig = .ok C) :
    flatten C = psdProjBlocks B hB hH m v := by
  unfold psdProjBlocks
  congr 1
  apply Vector.ext; intro i hi
  have hk := povm_projIneq_blocks B 0 eig C hC ⟨i, hi⟩
  have := projIneqCore_eq_psdProj B hB hH (unflatten v)[(⟨i, hi⟩ : Fin m)] _ _ (hU ⟨i, hi⟩) (hA ⟨i, hi⟩) _ hk
  simpa using this

/-- C05/H1 Gate: `IsProj` for the CP projection of a gate (Choi basis `B_α ⊗ conj B_β`; orthonormality, Hermiticity and the count
`(d²)²` are derived from those of the operator basis). -/
theorem isProj_psd_choi (B : Vector (Mat ℂ d d) (d * d)) (hB : OrthoN (basisM B)) (hH : HermB B) :
    IsProj (fun v : Vec ℝ ((d * d) * (d * d)) => (matOfVec (kronBasis B) v).toM.PosSemidef)
      (psdProj (kronBasis B) (orthoN_kronBasis B hB) (hermB_kron B hH)) :=
  isProj_psd (kronBasis B) (orthoN_kronBasis B hB) (hermB_kron B hH)

/-- C05/H1 MProcess: `IsProj` for the outcome-wise CP projection of an m-process on the flat vector. -/
theorem isProj_psd_blocks_choi (B : Vector (Mat ℂ d d) (d * d)) (hB : OrthoN (basisM B)) (hH : HermB B) (m : Nat) :
    IsProj (fun v : Vec ℝ (m * ((d * d) * (d * d))) =>
        ∀ k : Fin m, (matOfVec (kronBasis B) (unflatten v)[k]).toM.PosSemidef)
      (psdProjBlocks (kronBasis B) (orthoN_kronBasis B hB) (hermB_kron B hH) m) :=
  isProj_psd_blocks (kronBasis B) (orthoN_kronBasis B hB) (hermB_kron B hH) m

-- non-vacuity on the real qubit basis
example (m : Nat) := isProj_psd_blocks_choi pauliB pauli_orthoN pauli_hermB m
example := isProj_psd_choi pauliB pauli_orthoN pauli_hermB

end psd

/-- tie to the source, loop frame: the start state `(x, p, q)` of the modelled run is the initialisation translated from the source
(`x = input`, `p = q = zero object`), the returned point is the variable the source returns (`x_next` of the last sweep), and the
model's warning flag is the source's condition `k == max_iteration - 1` evaluated at the final `k`. -/
theorem gen_loop_frame (eps : K) (P1 P2 : Nat → Vec K N → Vec K N) (maxIter : Nat) (x0 : Vec K N)
    (o : Out K N) (h : run eps P1 P2 maxIter x0 = some o) :
    (iterSY P1 P2 x0 0).1 = ⟨(QGen.C05.init x0).1, (QGen.C05.init x0).2.1, (QGen.C05.init x0).2.2⟩ ∧
    o.x = QGen.C05.returned (iterSY P1 P2 x0 (o.k + 1)).2 (iterSY P1 P2 x0 (o.k + 1)).1.p
            (iterSY P1 P2 x0 (o.k + 1)).1.x (iterSY P1 P2 x0 (o.k + 1)).1.q ∧
    o.warned = QGen.C05.warns o.k maxIter := by
  refine ⟨rfl, (dyk_run_returns_min eps P1 P2 maxIter x0 o h).1, ?_⟩
  obtain ⟨_, _, _, _, hle, hw⟩ := dyk_history_returned eps P1 P2 maxIter x0 o h
  unfold QGen.C05.warns
  cases hwv : o.warned with
  | true => have := hw.1 hwv; simp; omega
  | false =>
    have : ¬ o.k + 1 = maxIter := fun e => by rw [hw.2 e] at hwv; cases hwv
    simp; omega

section flat
variable {m n : Nat}
/-- the POVM equality projection on the flat vector is the metric projection onto `{v | the elements sum to the identity}` -/
theorem isProj_povm_eq (t : K) (hm : 0 < m) :
    IsProj (fun v : Vec K (m * n) => Povm.Feas t (unflatten v)) (peqPovm (m := m) (n := n) t) := by
  intro u
  have e : unflatten (peqPovm (m := m) (n := n) t u) = Povm.projEq t (unflatten u) := by
    unfold peqPovm; rw [unflatten_flatten]; rfl
  refine ⟨by show Povm.Feas t (unflatten (peqPovm t u)); rw [e]; exact povm_projEq_mem t _ hm, fun z hz => ?_⟩
  rw [ip1_flat, unflatten_sub, unflatten_sub, e]
  exact le_of_eq (povm_projEq_orth t _ _ hm hz)

/-- the m-process equality projection on the flat vector is the metric projection onto `{v | Σ_x first rows = e0}` -/
theorem isProj_mprocess_eq (hm : 0 < m) :
    IsProj (fun v : Vec K (m * (n * n)) => MProcess.Feas (tenOfVec v)) (peqMProcess (m := m) (n := n)) := by
  intro u
  have e : tenOfVec (peqMProcess (m := m) (n := n) u) = MProcess.projEq (tenOfVec u) := by
    unfold peqMProcess; rw [tenOfVec_vecOfTen]; rfl
  refine ⟨by show MProcess.Feas (tenOfVec (peqMProcess u)); rw [e]; exact mprocess_projEq_mem _ hm, fun z hz => ?_⟩
  rw [ip1_ten, tenOfVec_sub, tenOfVec_sub, e]
  exact le_of_eq (mprocess_projEq_orth _ _ hm hz)
end flat

theorem isProj_univ : IsProj (fun _ : Vec K N => True) id := by
  intro u; refine ⟨trivial, fun z _ => ?_⟩
  simp [ip1]

/-! ### tie to the source: definitions regenerated from qoperation.py on every run (QGen.C05) equal the hand model -/

/-- the sweep bodies of `calc_proj_physical` and `calc_proj_physical_with_var`, as translated from the source on this run,
are the model's `sweepMode` (then-branch = `"eq_ineq"`, else-branch = any other order), at both levels. -/
theorem gen_sweep_bodies (Peq Pineq : Vec K N → Vec K N) (x p q : Vec K N) :
    (QGen.C05.objThen Peq Pineq x p q =
        ((sweepMode true Peq Pineq ⟨x, p, q⟩).2, (sweepMode true Peq Pineq ⟨x, p, q⟩).1.p,
         (sweepMode true Peq Pineq ⟨x, p, q⟩).1.x, (sweepMode true Peq Pineq ⟨x, p, q⟩).1.q)) ∧
    (QGen.C05.objElse Peq Pineq x p q =
        ((sweepMode false Peq Pineq ⟨x, p, q⟩).2, (sweepMode false Peq Pineq ⟨x, p, q⟩).1.p,
         (sweepMode false Peq Pineq ⟨x, p, q⟩).1.x, (sweepMode false Peq Pineq ⟨x, p, q⟩).1.q)) ∧
    QGen.C05.varThen Peq Pineq x p q = QGen.C05.objThen Peq Pineq x p q ∧
    QGen.C05.varElse Peq Pineq x p q = QGen.C05.objElse Peq Pineq x p q := ⟨rfl, rfl, rfl, rfl⟩

/-- the stopping value, the `k ≥ 1` guard, the `<` comparison and the branch literal of the source are those of the model. -/
theorem gen_stop_rule (eps e : K) (s s' : St K N) (P1 P2 : Nat → Vec K N → Vec K N) (k : Nat) :
    QGen.C05.stopValue s.p s'.p s.q s'.q = errVal s s' ∧ stopB eps (some e) = QGen.C05.stops e eps ∧
    (recOf P1 P2 k s).err = (if QGen.C05.guardFrom ≤ k then some (errVal s (sweep (P1 k) (P2 k) s).1) else none) ∧
    QGen.C05.branchLiteral = "eq_ineq" := ⟨rfl, rfl, rfl, rfl⟩

/-- C05.5 `dyk_obj_eq_var` is NOT a theorem with content here: the model has one loop for both levels (the translator maps the
object-level and the `_with_var` sweep bodies to the same symbols, `gen_sweep_bodies` proves them equal), and the conversions
`convert_var_to_stacked_vector` / `convert_stacked_vector_to_var` are not modelled; agreement of the two levels on the real code
is established by the oracle and the correspondence only.  What is stated below is definitional: on the
stacked vector (their constraint projections coincide by QProps.C04 `*_var_eq_obj_F`); for the two orders the loop only
swaps the roles of the projections. -/
theorem dyk_runMode_orders (eps : K) (Peq : Vec K N → Vec K N) (Pineq : Nat → Vec K N → Vec K N)
    (maxIter : Nat) (x0 : Vec K N) :
    runMode eps true Peq Pineq maxIter x0 = run eps (fun _ => Peq) Pineq maxIter x0 ∧
    runMode eps false Peq Pineq maxIter x0 = run eps Pineq (fun _ => Peq) maxIter x0 := ⟨rfl, rfl⟩

/-- the hypotheses `IsProj` are satisfiable by the model's own projections: the State equality projection is the
metric projection onto `State.Feas s` (from QProps.C04). -/
theorem isProj_state_eq (s : K) : IsProj (State.Feas s) (peqState (n := N) s) := by
  intro u
  exact ⟨state_projEq_mem s u, fun z hz => le_of_eq (state_projEq_orth s u z hz)⟩

-- non-vacuity of the convergence theorems: A = trace-one states (s = 1/2), P1 its projection, B = everything, P2 = id,
-- x₀ = (3, −1), z = (1/2, 0), eps = 1, n = 8 (‖x₀ − z‖² = 29/4 < 8)
example : ∃ j, 1 ≤ j ∧ j ≤ 8 ∧ errAt (fun _ => peqState (n := 2) (1/2 : Rat)) (fun _ => id) #v[3, -1] j < 1 :=
  dyk_stop_exists (State.Feas (1/2)) (fun _ => True) _ _ (fun _ => isProj_state_eq _) (fun _ => isProj_univ)
    #v[3, -1] #v[1/2, 0] (by intro i hi; fin_cases i <;> simp_all [Vec.get]) trivial 1 8 (by decide +kernel)

-- non-degenerate instance (two genuinely different sets): A = trace-one states (s = 1/2) with P1 its projection, B = {v | 0 ≤ v₁}
-- with P2 = clipping (`isProj_clip`); x₀ = (3, −1), z = (1/2, 0), eps = 1/100, n = 800, max_iteration = 1000:
-- `dyk_terminates` and `dyk_returned_physical`
example (o : Out Rat 2)
    (h : run (1/100 : Rat) (fun _ => peqState (n := 2) (1/2)) (fun _ => clip1) 1000 (#v[3, -1] : Vec Rat 2) = some o) :
    o.k ≤ 800 ∧ o.warned = false ∧ (0 ≤ o.x.get 1) ∧ ∃ y, State.Feas (1/2) y ∧ sqd1 o.x y < 1/100 := by
  have t := dyk_terminates (State.Feas (1/2)) (fun v : Vec Rat 2 => 0 ≤ v.get 1) (fun _ => peqState (n := 2) (1/2)) (fun _ => clip1)
    (fun _ => isProj_state_eq _) (fun _ => isProj_clip) #v[3, -1] #v[1/2, 0]
    (by intro i hi; fin_cases i <;> simp_all [Vec.get]) (by simp [Vec.get]) (1/100) 800 (by decide +kernel) 1000 (by omega) o h
  have r := dyk_returned_physical (State.Feas (1/2)) (fun v : Vec Rat 2 => 0 ≤ v.get 1) (fun _ => peqState (n := 2) (1/2)) (fun _ => clip1)
    (fun _ => isProj_state_eq _) (fun _ => isProj_clip) (1/100) 1000 #v[3, -1] o h t.2.1
  exact ⟨t.1, t.2.2, r.1, r.2⟩

-- `dyk_stop_zero_fixed`, `dyk_fixed_is_projection` / `dyk_fixed_nearest_partial`, `dyk_order_independent_partial` on that fixed point
example : errVal exFix (sweep (peqState (n := 2) (1/2 : Rat)) clip1 exFix).1 = 0 := by decide +kernel
example (z : Vec Rat 2) (hzA : State.Feas (1/2) z) (hzB : 0 ≤ z.get 1) : sqd1 (#v[3, -1] : Vec Rat 2) exFix.x ≤ sqd1 #v[3, -1] z :=
  dyk_fixed_nearest_partial (State.Feas (1/2)) (fun v : Vec Rat 2 => 0 ≤ v.get 1) _ _ (isProj_state_eq _) isProj_clip exFix
    exFix_fixed #v[3, -1] (by decide +kernel) z hzA hzB
example : exFix.x = exFix'.x :=
  dyk_order_independent_partial (State.Feas (1/2)) (fun v : Vec Rat 2 => 0 ≤ v.get 1) _ _ (isProj_state_eq _) isProj_clip
    exFix exFix' exFix_fixed exFix'_fixed #v[3, -1] (by decide +kernel) (by decide +kernel)
-- `dyk_fix_physical`: the physical input (1/2, 2) is returned after two sweeps
example : ∃ o, run (1/100 : Rat) (fun _ => peqState (n := 2) (1/2)) (fun _ => clip1) 5 (#v[1/2, 2] : Vec Rat 2) = some o ∧
    o.x = #v[1/2, 2] ∧ o.k = 1 ∧ o.recs.length = 2 :=
  dyk_fix_physical (1/100) (by norm_num) _ _ #v[1/2, 2] (fun _ => by decide +kernel) (fun _ => by decide +kernel) 5 (by omega)
-- the loop as executed on these two (commuting) sets: criterion stop at k = 1 with stopping value exactly 0
example : (run (1/100 : Rat) (fun _ => peqState (n := 2) (1/2)) (fun _ => clip1) 10 (#v[3, -1] : Vec Rat 2)).map
    (fun o => (o.x, o.k, o.warned)) = some (#v[1/2, 0], 1, false) := by decide +kernel
-- max-iteration branch (max_iteration = 1: the criterion is not evaluated at k = 0, the warning flag is set)
example : (run (1/100 : Rat) (fun _ => peqState (n := 2) (1/2)) (fun _ => clip1) 1 (#v[3, -1] : Vec Rat 2)).map
    (fun o => (o.k, o.warned)) = some (0, true) := by decide +kernel

-- non-commuting sets (trace-one line, half plane v₀ ≤ v₁ with `isProj_half`): the loop CONTINUES over several sweeps and stops by
-- the criterion at k = 5; `dyk_terminates` bounds the sweep count a priori (z = (1/2,1/2), ‖x₀−z‖² = 17/2 < 860·eps)
example : (run (1/100 : Rat) (fun _ => peqState (n := 2) (1/2)) (fun _ => projH) 20 (#v[3, -1] : Vec Rat 2)).map
    (fun o => (o.k, o.warned, decide (o.x.get 0 ≤ o.x.get 1))) = some (5, false, true) := by decide +kernel
example (o : Out Rat 2)
    (h : run (1/100 : Rat) (fun _ => peqState (n := 2) (1/2)) (fun _ => projH) 1000 (#v[3, -1] : Vec Rat 2) = some o) :
    o.k ≤ 860 ∧ o.warned = false :=
  let t := dyk_terminates (State.Feas (1/2)) (fun v : Vec Rat 2 => v.get 0 ≤ v.get 1) (fun _ => peqState (n := 2) (1/2)) (fun _ => projH)
    (fun _ => isProj_state_eq _) (fun _ => isProj_half) #v[3, -1] #v[1/2, 1/2]
    (by intro i hi; fin_cases i <;> simp_all [Vec.get]) (by simp [Vec.get]) (1/100) 860 (by decide +kernel) 1000 (by omega) o h
  ⟨t.1, t.2.2⟩

end QM.C05
