import QProofs.C05
import QGen.C05
import QProps.C04
/-!
# C05 — physical projection (Dykstra): property theorems about `QModel.C05`

Everything is over an arbitrary linearly ordered field `K` (so literally for the executed instance `Rat`), for all
vector lengths `N` (all types, dimensions, outcome counts), all sweep counts and both projection orders (the order only
decides which projection is `P1` and which is `P2`).  The two constraint sets are abstract predicates `A`, `B` on
parameter vectors and the projections are characterised by their variational inequality (`IsProj`), which QProps.C04
proves for the equality projections and (`_partial`) for eigenvalue clipping.

**Proved about convergence** (section C05.7/8): the Boyle–Dykstra potential decreases by at least the stopping value as coded in
every sweep, hence the iterates stay bounded, the stopping values are summable, the loop as coded TERMINATES by its criterion
within `n + 1` sweeps whenever `n·eps > ‖x₀ − z‖²` for a physical `z` (`dyk_terminates`), returns the iterate after
min(first stop index, max_iteration − 1) + 1 sweeps (`dyk_run_returns_min`), and the returned point is physical up to `√eps`
(`dyk_returned_physical`).  **Not proved:** that the stopped iterate is within a stated distance of the NEAREST physical
point (strong convergence of Dykstra's sequence, Boyle–Dykstra); per run this is certified by the oracle.
-/
open Finset
namespace QM.C05
open QM.C04

variable {K : Type} [Field K] [LinearOrder K] [IsStrictOrderedRing K] {N : Nat}

/-- C05.1 `dyk_invariant`, one sweep: `x' + p' + q' = x + p + q`. -/
theorem dyk_sweep_invariant (P1 P2 : Vec K N → Vec K N) (s : St K N) :
    (sweep P1 P2 s).1.total = s.total := by
  apply Vec.ext'; intro i
  simp only [St.total, sweep, add_get, sub_get]; ring

/-- C05.1 for both values of `mode_proj_order`. -/
theorem dyk_sweepMode_invariant (b : Bool) (Peq Pineq : Vec K N → Vec K N) (s : St K N) :
    (sweepMode b Peq Pineq s).1.total = s.total := by
  unfold sweepMode; split <;> exact dyk_sweep_invariant _ _ s

theorem total_init (x0 : Vec K N) : (⟨x0, Vec.zero, Vec.zero⟩ : St K N).total = x0 := by
  apply Vec.ext'; intro i; simp [St.total]

/-- C05.1 `dyk_invariant`, whole run (induction over sweeps): every recorded state, before and after every sweep,
satisfies `x_k + p_k + q_k = x_0`. -/
theorem dyk_invariant_partial (eps : K) (P1 P2 : Nat → Vec K N → Vec K N) (maxIter : Nat) (x0 : Vec K N)
    (o : Out K N) (h : run eps P1 P2 maxIter x0 = some o) :
    ∀ rec ∈ o.recs, rec.prev.total = x0 ∧ rec.next.total = x0 := by
  unfold run at h
  split at h
  · cases h
  · injection h with h; subst h
    intro rec hrec
    rcases loop_recs eps P1 P2 (fun _ s => s.total = x0)
      (fun k s hs => by rw [dyk_sweep_invariant]; exact hs) maxIter 0 _ [] (total_init x0) rec hrec with h | ⟨j, t, ht, rfl⟩
    · simp at h
    · exact ⟨ht, by simp only [recOf]; rw [dyk_sweep_invariant]; exact ht⟩

/-- C05.6 `history_consistent` (a): every history record is one sweep of the loop body applied to the recorded previous
state, with the recorded `y`, and its `error_value` is `None` for sweep 0 and the Birgin–Raydan value
`Σ (p_k − p_{k+1})² + (q_k − q_{k+1})²` of the recorded entries otherwise (the `k ≥ 1` guard). -/
theorem dyk_history_steps_partial (eps : K) (P1 P2 : Nat → Vec K N → Vec K N) (maxIter : Nat) (x0 : Vec K N)
    (o : Out K N) (h : run eps P1 P2 maxIter x0 = some o) :
    ∀ rec ∈ o.recs, rec.next = (sweep (P1 rec.k) (P2 rec.k) rec.prev).1 ∧
      rec.y = (sweep (P1 rec.k) (P2 rec.k) rec.prev).2 ∧
      rec.err = if 1 ≤ rec.k then some (errVal rec.prev rec.next) else none := by
  unfold run at h
  split at h
  · cases h
  · injection h with h; subst h
    intro rec hrec
    rcases loop_recs eps P1 P2 (fun _ _ => True) (fun _ _ _ => trivial) maxIter 0 _ [] trivial rec hrec
      with h | ⟨j, t, _, rfl⟩
    · simp at h
    · exact ⟨rfl, rfl, rfl⟩

/-- C05.6 `history_consistent` (b): the returned point is the `x` of the newest record, the loop variable is its sweep
index, there is one record per sweep (so the lists `p,q,x,y` have `k+2` entries and `error_value` has `k+1`), the loop
never exceeds `max_iteration`, the warning is printed exactly when the last permitted sweep was executed, the loop ends
early only when the stopping value is below `eps`, and no earlier record had a stopping value below `eps`. -/
theorem dyk_history_returned_partial (eps : K) (P1 P2 : Nat → Vec K N → Vec K N) (maxIter : Nat) (x0 : Vec K N)
    (o : Out K N) (h : run eps P1 P2 maxIter x0 = some o) :
    (∃ rec rest, o.recs = rec :: rest ∧ o.x = rec.next.x ∧ o.k = rec.k ∧
        (o.k + 1 < maxIter → ∃ e, rec.err = some e ∧ e < eps) ∧
        ∀ r' ∈ rest, ∀ e, r'.err = some e → ¬ e < eps) ∧
      o.recs.length = o.k + 1 ∧ (histX x0 o).length = o.k + 2 ∧ (histE o).length = o.k + 1 ∧
      o.k + 1 ≤ maxIter ∧ (o.warned = true ↔ o.k + 1 = maxIter) := by
  unfold run at h
  split at h
  · cases h
  · rename_i hm
    injection h with h; subst h
    obtain ⟨r, rfl⟩ : ∃ r, maxIter = r + 1 := ⟨maxIter - 1, by omega⟩
    obtain ⟨j, t, rest, h1, h2, h3, _, h5, h6, h7⟩ := loop_head eps P1 P2 r 0 ⟨x0, Vec.zero, Vec.zero⟩ []
    have hl := (loop_length eps P1 P2 r 0 ⟨x0, Vec.zero, Vec.zero⟩ []).1
    have ht := loop_tail_not_stopped eps P1 P2 r 0 ⟨x0, Vec.zero, Vec.zero⟩ []
    refine ⟨⟨_, rest, h1, h2, h3, ?_, ?_⟩, ?_, ?_, ?_, ?_, ?_⟩
    · intro hlt; apply h7; rw [h3] at hlt; omega
    · intro r' hr' e he
      rcases ht r' (by rw [h1]; exact hr') with h | h
      · simp at h
      · exact h e he
    · simpa using hl
    · simp only [histX, List.length_cons, List.length_map, List.length_reverse]; simpa using hl
    · simp only [histE, List.length_map, List.length_reverse]; simpa using hl
    · rw [h3]; omega
    · rw [h6, h3]; omega

/-- `max_iteration = 0` is the only input on which the routine fails (`k` is unbound after an empty loop). -/
theorem dyk_run_none_iff (eps : K) (P1 P2 : Nat → Vec K N → Vec K N) (maxIter : Nat) (x0 : Vec K N) :
    run eps P1 P2 maxIter x0 = none ↔ maxIter = 0 := by
  unfold run; split <;> simp_all

/-- C05.2 `dyk_stop_zero_fixed`: a vanishing stopping value means the sweep did not change the state, the
intermediate point `y` equals `x`, and `x` is a common fixed point of the two (shifted) projections. -/
theorem dyk_stop_zero_fixed (P1 P2 : Vec K N → Vec K N) (s : St K N)
    (h : errVal s (sweep P1 P2 s).1 = 0) :
    (sweep P1 P2 s).1 = s ∧ (sweep P1 P2 s).2 = s.x ∧ P1 (s.x.add s.p) = s.x ∧ P2 (s.x.add s.q) = s.x := by
  obtain ⟨hp, hq⟩ := errVal_eq_zero _ _ h
  have hinv := dyk_sweep_invariant P1 P2 s
  have hx : (sweep P1 P2 s).1.x = s.x := by
    apply Vec.ext'; intro i
    have := congrArg (fun v => v.get i) hinv
    simp only [St.total, add_get] at this
    rw [hp, hq] at this
    linarith
  have hy : P1 (s.x.add s.p) = s.x := by
    apply Vec.ext'; intro i
    have := congrArg (fun v => v.get i) hp
    simp only [sweep, sub_get, add_get] at this
    linarith
  refine ⟨St.ext' hx hp hq, hy, hy, ?_⟩
  have hx' := hx
  simp only [sweep] at hx'
  rw [hy] at hx'
  exact hx'

/-- C05.3 `dyk_fixed_is_projection`: at a fixed point of the sweep the point `x` lies in both sets and satisfies the
variational inequality of the metric projection of `x_0` onto the intersection. -/
theorem dyk_fixed_is_projection (A B : Vec K N → Prop) (P1 P2 : Vec K N → Vec K N)
    (h1 : IsProj A P1) (h2 : IsProj B P2) (s : St K N) (hfix : (sweep P1 P2 s).1 = s)
    (x0 : Vec K N) (ht : s.total = x0) :
    A s.x ∧ B s.x ∧ ∀ z, A z → B z → ip1 (x0.sub s.x) (z.sub s.x) ≤ 0 := by
  have hp : (sweep P1 P2 s).1.p = s.p := by rw [hfix]
  have hx : (sweep P1 P2 s).1.x = s.x := by rw [hfix]
  have hy : P1 (s.x.add s.p) = s.x := by
    apply Vec.ext'; intro i
    have := congrArg (fun v => v.get i) hp
    simp only [sweep, sub_get, add_get] at this
    linarith
  have hx2 : P2 (s.x.add s.q) = s.x := by
    simp only [sweep] at hx; rw [hy] at hx; exact hx
  have hA := h1 (s.x.add s.p)
  have hB := h2 (s.x.add s.q)
  rw [hy] at hA; rw [hx2] at hB
  refine ⟨hA.1, hB.1, ?_⟩
  intro z hzA hzB
  have e : ip1 (x0.sub s.x) (z.sub s.x)
      = ip1 ((s.x.add s.p).sub s.x) (z.sub s.x) + ip1 ((s.x.add s.q).sub s.x) (z.sub s.x) := by
    subst ht
    simp only [ip1, St.total, sub_get, add_get, ← Finset.sum_add_distrib]
    apply Finset.sum_congr rfl; intro i _; ring
  rw [e]
  exact add_nonpos (hA.2 z hzA) (hB.2 z hzB)

/-- C05.3 hence `x` is the nearest point of `A ∩ B` to `x_0` (Euclidean norm of the stacked parameters). -/
theorem dyk_fixed_nearest (A B : Vec K N → Prop) (P1 P2 : Vec K N → Vec K N)
    (h1 : IsProj A P1) (h2 : IsProj B P2) (s : St K N) (hfix : (sweep P1 P2 s).1 = s)
    (x0 : Vec K N) (ht : s.total = x0) (z : Vec K N) (hzA : A z) (hzB : B z) :
    sqd1 x0 s.x ≤ sqd1 x0 z :=
  nearest1 x0 s.x z ((dyk_fixed_is_projection A B P1 P2 h1 h2 s hfix x0 ht).2.2 z hzA hzB)

/-- C05.3 `dyk_order_independent`: the fixed points of the two projection orders have the same `x`. -/
theorem dyk_order_independent (A B : Vec K N → Prop) (P1 P2 : Vec K N → Vec K N)
    (h1 : IsProj A P1) (h2 : IsProj B P2) (s s' : St K N)
    (hfix : (sweep P1 P2 s).1 = s) (hfix' : (sweep P2 P1 s').1 = s')
    (x0 : Vec K N) (ht : s.total = x0) (ht' : s'.total = x0) : s.x = s'.x := by
  obtain ⟨hA, hB, hvi⟩ := dyk_fixed_is_projection A B P1 P2 h1 h2 s hfix x0 ht
  obtain ⟨hB', hA', hvi'⟩ := dyk_fixed_is_projection B A P2 P1 h2 h1 s' hfix' x0 ht'
  have a := hvi s'.x hA' hB'
  have b := hvi' s.x hB hA
  have hsum : ∑ i, (s'.x.get i - s.x.get i) * (s'.x.get i - s.x.get i) ≤ 0 := by
    have : ∑ i, (s'.x.get i - s.x.get i) * (s'.x.get i - s.x.get i)
        = ip1 (x0.sub s.x) (s'.x.sub s.x) + ip1 (x0.sub s'.x) (s.x.sub s'.x) := by
      simp only [ip1, sub_get, ← Finset.sum_add_distrib]
      apply Finset.sum_congr rfl; intro i _; ring
    rw [this]; exact add_nonpos a b
  have h0 := le_antisymm hsum (Finset.sum_nonneg fun i _ => mul_self_nonneg _)
  apply Vec.ext'; intro i
  have := (Finset.sum_eq_zero_iff_of_nonneg (fun i _ => mul_self_nonneg (s'.x.get i - s.x.get i))).1 h0 i
    (Finset.mem_univ i)
  have := mul_self_eq_zero.1 this
  linarith

theorem add_zero_vec (x : Vec K N) : x.add Vec.zero = x := by
  apply Vec.ext'; intro i; simp

/-- C05.4 `dyk_fix_physical`, one sweep: a point fixed by both projections is reproduced with `p = q = 0`. -/
theorem dyk_sweep_physical (P1 P2 : Vec K N → Vec K N) (x0 : Vec K N) (h1 : P1 x0 = x0) (h2 : P2 x0 = x0) :
    sweep P1 P2 ⟨x0, Vec.zero, Vec.zero⟩ = (⟨x0, Vec.zero, Vec.zero⟩, x0) := by
  have hz : x0.sub x0 = (Vec.zero : Vec K N) := by apply Vec.ext'; intro i; simp
  simp only [sweep, add_zero_vec, h1, h2, hz]

/-- C05.4 `dyk_fix_physical`, whole run: for a physical input, any `eps > 0` and `max_iteration ≥ 2` the routine stops
at `k = 1` (second sweep: stopping value exactly 0) and returns the input. -/
theorem dyk_fix_physical (eps : K) (heps : 0 < eps) (P1 P2 : Nat → Vec K N → Vec K N) (x0 : Vec K N)
    (h1 : ∀ k, P1 k x0 = x0) (h2 : ∀ k, P2 k x0 = x0) (maxIter : Nat) (hm : 2 ≤ maxIter) :
    ∃ o, run eps P1 P2 maxIter x0 = some o ∧ o.x = x0 ∧ o.k = 1 ∧ o.recs.length = 2 := by
  obtain ⟨r, rfl⟩ : ∃ r, maxIter = r + 2 := ⟨maxIter - 2, by omega⟩
  refine ⟨_, by unfold run; rw [if_neg (by omega)], ?_⟩
  have hs : ∀ k, sweep (P1 k) (P2 k) ⟨x0, Vec.zero, Vec.zero⟩ = (⟨x0, Vec.zero, Vec.zero⟩, x0) :=
    fun k => dyk_sweep_physical _ _ x0 (h1 k) (h2 k)
  have e0 : (recOf P1 P2 0 (⟨x0, Vec.zero, Vec.zero⟩ : St K N)).err = none := by simp [recOf]
  have e1 : (recOf P1 P2 1 (⟨x0, Vec.zero, Vec.zero⟩ : St K N)).err = some 0 := by
    simp [recOf, hs, errVal_self]
  rw [loop_succ, e0]
  have : (stopB eps (none : Option K) || r + 1 == 0) = false := by simp [stopB]
  rw [if_neg (by rw [this]; simp), hs]
  rw [loop_succ, e1]
  have : (stopB eps (some (0 : K)) || r == 0) = true := by simp [stopB, heps]
  rw [if_pos this, hs]
  simp

/-- C05.7 one sweep decreases the Boyle–Dykstra potential by at least the stopping value as coded -/
theorem dyk_lyapunov_step (A B : Vec K N → Prop) (P1 P2 : Vec K N → Vec K N) (h1 : IsProj A P1) (h2 : IsProj B P2)
    (s : St K N) (y z : Vec K N) (hp : NormalAt A y s.p) (hq : NormalAt B s.x s.q) :
    lyap z (sweep P1 P2 s).2 (sweep P1 P2 s).1 + errVal s (sweep P1 P2 s).1 ≤ lyap z y s := by
  have hn := sweep_normal A B P1 P2 h1 h2 s
  have r1 := hp _ hn.1
  have r2 := hq _ hn.2.1
  rw [lyap_identity P1 P2 s y z]; linarith

/-- C05.7 whole run: for every point `z` of the intersection, potential after `k` sweeps + all stopping values so far
≤ ‖x₀ − z‖²; the corrections stay normal to their sets -/
theorem dyk_lyapunov_iter (A B : Vec K N → Prop) (P1 P2 : Nat → Vec K N → Vec K N)
    (h1 : ∀ k, IsProj A (P1 k)) (h2 : ∀ k, IsProj B (P2 k)) (x0 z : Vec K N) (k : Nat) :
    NormalAt A (iterSY P1 P2 x0 k).2 (iterSY P1 P2 x0 k).1.p ∧
    NormalAt B (iterSY P1 P2 x0 k).1.x (iterSY P1 P2 x0 k).1.q ∧
    lyap z (iterSY P1 P2 x0 k).2 (iterSY P1 P2 x0 k).1 + ∑ j ∈ Finset.range k, errAt P1 P2 x0 j ≤ sqd1 x0 z := by
  induction k with
  | zero =>
    refine ⟨fun w _ => by simp [iterSY, ip1_zero_left], fun w _ => by simp [iterSY, ip1_zero_left], ?_⟩
    simp [iterSY, lyap, ip1_zero_left]
  | succ k ih =>
    obtain ⟨hp, hq, hl⟩ := ih
    have hn := sweep_normal A B (P1 k) (P2 k) (h1 k) (h2 k) (iterSY P1 P2 x0 k).1
    have hs := dyk_lyapunov_step A B (P1 k) (P2 k) (h1 k) (h2 k) (iterSY P1 P2 x0 k).1 (iterSY P1 P2 x0 k).2 z hp hq
    refine ⟨hn.2.2.1, hn.2.2.2, ?_⟩
    rw [Finset.sum_range_succ]
    have : errAt P1 P2 x0 k = errVal (iterSY P1 P2 x0 k).1 (sweep (P1 k) (P2 k) (iterSY P1 P2 x0 k).1).1 := rfl
    rw [this]
    show lyap z (sweep (P1 k) (P2 k) (iterSY P1 P2 x0 k).1).2 (sweep (P1 k) (P2 k) (iterSY P1 P2 x0 k).1).1 + _ ≤ _
    linarith

/-- C05.7 iterates stay in the ball around any physical point through the start: ‖x_k − z‖² ≤ ‖x₀ − z‖²,
and the stopping values are summable: Σ_{j<k} err_j ≤ ‖x₀ − z‖² -/
theorem dyk_bounded_summable (A B : Vec K N → Prop) (P1 P2 : Nat → Vec K N → Vec K N)
    (h1 : ∀ k, IsProj A (P1 k)) (h2 : ∀ k, IsProj B (P2 k)) (x0 z : Vec K N) (hzA : A z) (hzB : B z) (k : Nat) :
    sqd1 (iterSY P1 P2 x0 k).1.x z ≤ sqd1 x0 z ∧ ∑ j ∈ Finset.range k, errAt P1 P2 x0 j ≤ sqd1 x0 z := by
  obtain ⟨hp, hq, hl⟩ := dyk_lyapunov_iter A B P1 P2 h1 h2 x0 z k
  have hge := lyap_ge A B z _ _ hzA hzB hp hq
  have hs : 0 ≤ ∑ j ∈ Finset.range k, errAt P1 P2 x0 j := Finset.sum_nonneg fun j _ => errVal_nonneg _ _
  have h0 : 0 ≤ sqd1 (iterSY P1 P2 x0 k).1.x z := by
    rw [sqd1_eq]; exact Finset.sum_nonneg fun i _ => mul_self_nonneg _
  constructor <;> linarith

/-- C05.7 the stopping criterion fires: if `n·eps > ‖x₀ − z‖²` for some physical `z`, one of the sweeps `1 … n` has a
stopping value below `eps` -/
theorem dyk_stop_exists (A B : Vec K N → Prop) (P1 P2 : Nat → Vec K N → Vec K N)
    (h1 : ∀ k, IsProj A (P1 k)) (h2 : ∀ k, IsProj B (P2 k)) (x0 z : Vec K N) (hzA : A z) (hzB : B z)
    (eps : K) (n : Nat) (hn : sqd1 x0 z < (n : K) * eps) :
    ∃ j, 1 ≤ j ∧ j ≤ n ∧ errAt P1 P2 x0 j < eps := by
  by_contra hcon
  simp only [not_exists, not_and, not_lt] at hcon
  have hsum := (dyk_bounded_summable A B P1 P2 h1 h2 x0 z hzA hzB (n + 1)).2
  have hlow : (n : K) * eps ≤ ∑ j ∈ Finset.range (n + 1), errAt P1 P2 x0 j := by
    rw [Finset.sum_range_succ']
    have h0 : 0 ≤ errAt P1 P2 x0 0 := errVal_nonneg _ _
    have : (n : K) * eps ≤ ∑ j ∈ Finset.range n, errAt P1 P2 x0 (j + 1) := by
      have : ∑ _j ∈ Finset.range n, eps ≤ ∑ j ∈ Finset.range n, errAt P1 P2 x0 (j + 1) :=
        Finset.sum_le_sum fun j hj => hcon (j + 1) (by omega) (by have := Finset.mem_range.1 hj; omega)
      simpa using this
    linarith
  linarith

/-- C05.6 stopping-rule glue: the routine returns the iterate after `K+1` sweeps where `K` is the smaller of
`max_iteration − 1` and the first sweep index `≥ 1` whose stopping value is `< eps` -/
theorem dyk_run_returns_min (eps : K) (P1 P2 : Nat → Vec K N → Vec K N) (maxIter : Nat) (x0 : Vec K N)
    (o : Out K N) (h : run eps P1 P2 maxIter x0 = some o) :
    o.x = (iterSY P1 P2 x0 (o.k + 1)).1.x ∧ o.k + 1 ≤ maxIter ∧
      (∀ j, j < o.k → ¬ StopAt eps P1 P2 x0 j) ∧ (StopAt eps P1 P2 x0 o.k ∨ o.k + 1 = maxIter) := by
  unfold run at h
  split at h
  · cases h
  · injection h with h; subst h
    obtain ⟨r, rfl⟩ : ∃ r, maxIter = r + 1 := ⟨maxIter - 1, by omega⟩
    have e0 : (⟨x0, Vec.zero, Vec.zero⟩ : St K N) = (iterSY P1 P2 x0 0).1 := rfl
    rw [e0]
    obtain ⟨a1, a2, a3, a4, a5⟩ := loop_iter eps P1 P2 x0 r 0 []
    refine ⟨a3, by omega, ?_, ?_⟩
    · intro j hj hs
      have := a4 j (Nat.zero_le _) hj
      rw [(stopB_errOpt eps P1 P2 x0 j).2 hs] at this
      cases this
    · rcases a5 with h | h
      · exact Or.inl ((stopB_errOpt eps P1 P2 x0 _).1 h)
      · right; change _ + 1 = r + 1; rw [h]; omega

/-- C05.7 termination of the loop as coded: if a physical point `z` exists and `n·eps > ‖x₀ − z‖²`, then with
`max_iteration ≥ n + 2` the routine stops BY THE CRITERION (no max-iteration warning) after at most `n + 1` sweeps -/
theorem dyk_terminates (A B : Vec K N → Prop) (P1 P2 : Nat → Vec K N → Vec K N)
    (h1 : ∀ k, IsProj A (P1 k)) (h2 : ∀ k, IsProj B (P2 k)) (x0 z : Vec K N) (hzA : A z) (hzB : B z)
    (eps : K) (n : Nat) (hn : sqd1 x0 z < (n : K) * eps) (maxIter : Nat) (hm : n + 2 ≤ maxIter)
    (o : Out K N) (h : run eps P1 P2 maxIter x0 = some o) :
    o.k ≤ n ∧ StopAt eps P1 P2 x0 o.k ∧ o.warned = false := by
  obtain ⟨j, hj1, hj2, hj3⟩ := dyk_stop_exists A B P1 P2 h1 h2 x0 z hzA hzB eps n hn
  obtain ⟨_, b2, b3, b4⟩ := dyk_run_returns_min eps P1 P2 maxIter x0 o h
  have hk : o.k ≤ j := by
    by_contra hlt
    exact b3 j (by omega) ⟨hj1, hj3⟩
  have hstop : StopAt eps P1 P2 x0 o.k := by
    rcases b4 with h | h
    · exact h
    · omega
  refine ⟨by omega, hstop, ?_⟩
  have hw := (dyk_history_returned_partial eps P1 P2 maxIter x0 o h).2.2.2.2.2
  cases hwv : o.warned with
  | false => rfl
  | true => have := hw.1 hwv; omega

/-- C05.8 accuracy implied by the stopping threshold, one sweep: the new `x` lies in the second set, the intermediate `y` in the
first, and their squared distance is at most the stopping value (`x' − y' = q − q'`). -/
theorem dyk_sweep_gap (A B : Vec K N → Prop) (P1 P2 : Vec K N → Vec K N) (h1 : IsProj A P1) (h2 : IsProj B P2)
    (s : St K N) :
    A (sweep P1 P2 s).2 ∧ B (sweep P1 P2 s).1.x ∧
      sqd1 (sweep P1 P2 s).1.x (sweep P1 P2 s).2 ≤ errVal s (sweep P1 P2 s).1 := by
  refine ⟨(h1 _).1, (h2 _).1, ?_⟩
  rw [sqd1_eq, errVal_eq]
  apply Finset.sum_le_sum; intro i _
  have e : (sweep P1 P2 s).1.x.get i - (sweep P1 P2 s).2.get i = s.q.get i - (sweep P1 P2 s).1.q.get i := by
    simp only [sweep, sub_get, add_get]; ring
  rw [e]
  nlinarith [mul_self_nonneg (s.p.get i - (sweep P1 P2 s).1.p.get i)]

/-- C05.8 the returned point is physical up to the accuracy implied by `eps_proj_physical`: when the routine stops by the
criterion, the returned `x` lies in the set of the second projection and within `√eps` (squared distance `< eps`) of a point
of the set of the first projection. -/
theorem dyk_returned_physical (A B : Vec K N → Prop) (P1 P2 : Nat → Vec K N → Vec K N)
    (h1 : ∀ k, IsProj A (P1 k)) (h2 : ∀ k, IsProj B (P2 k)) (eps : K) (maxIter : Nat) (x0 : Vec K N)
    (o : Out K N) (h : run eps P1 P2 maxIter x0 = some o) (hs : StopAt eps P1 P2 x0 o.k) :
    B o.x ∧ ∃ y, A y ∧ sqd1 o.x y < eps := by
  obtain ⟨hx, _, _, _⟩ := dyk_run_returns_min eps P1 P2 maxIter x0 o h
  have hg := dyk_sweep_gap A B (P1 o.k) (P2 o.k) (h1 o.k) (h2 o.k) (iterSY P1 P2 x0 o.k).1
  have e : (iterSY P1 P2 x0 (o.k + 1)) = sweep (P1 o.k) (P2 o.k) (iterSY P1 P2 x0 o.k).1 := rfl
  rw [hx, e]
  exact ⟨hg.2.1, _, hg.1, lt_of_le_of_lt hg.2.2 hs.2⟩

theorem isProj_univ : IsProj (fun _ : Vec K N => True) id := by
  intro u; refine ⟨trivial, fun z _ => ?_⟩
  simp [ip1]

/-! ### tie to the source: definitions regenerated from qoperation.py on every run (QGen.C05) equal the hand model -/

/-- the sweep bodies of `calc_proj_physical` and `calc_proj_physical_with_var`, as translated from the source on this run,
are the model's `sweepMode` (then-branch = `"eq_ineq"`, else-branch = any other order), at both levels. -/
theorem gen_sweep_bodies (Peq Pineq : Vec K N → Vec K N) (x p q : Vec K N) :
    (QGen.C05.objThen Peq Pineq x p q =
        ((sweepMode true Peq Pineq ⟨x, p, q⟩).2, (sweepMode true Peq Pineq ⟨x, p, q⟩).1.p,
         (sweepMode true Peq Pineq ⟨x, p, q⟩).1.x, (sweepMode true Peq Pineq ⟨x, p, q⟩).1.q)) ∧
    (QGen.C05.objElse Peq Pineq x p q =
        ((sweepMode false Peq Pineq ⟨x, p, q⟩).2, (sweepMode false Peq Pineq ⟨x, p, q⟩).1.p,
         (sweepMode false Peq Pineq ⟨x, p, q⟩).1.x, (sweepMode false Peq Pineq ⟨x, p, q⟩).1.q)) ∧
    QGen.C05.varThen Peq Pineq x p q = QGen.C05.objThen Peq Pineq x p q ∧
    QGen.C05.varElse Peq Pineq x p q = QGen.C05.objElse Peq Pineq x p q := ⟨rfl, rfl, rfl, rfl⟩

/-- the stopping value, the `k ≥ 1` guard, the `<` comparison and the branch literal of the source are those of the model. -/
theorem gen_stop_rule (eps e : K) (s s' : St K N) (P1 P2 : Nat → Vec K N → Vec K N) (k : Nat) :
    QGen.C05.stopValue s.p s'.p s.q s'.q = errVal s s' ∧ stopB eps (some e) = QGen.C05.stops e eps ∧
    (recOf P1 P2 k s).err = (if QGen.C05.guardFrom ≤ k then some (errVal s (sweep (P1 k) (P2 k) s).1) else none) ∧
    QGen.C05.branchLiteral = "eq_ineq" := ⟨rfl, rfl, rfl, rfl⟩

/-- C05.5 `dyk_obj_eq_var`: in the model the object-level and the variable-level routine are the same loop on the
stacked vector (their constraint projections coincide by QProps.C04 `*_var_eq_obj_F`); for the two orders the loop only
swaps the roles of the projections. -/
theorem dyk_runMode_orders (eps : K) (Peq : Vec K N → Vec K N) (Pineq : Nat → Vec K N → Vec K N)
    (maxIter : Nat) (x0 : Vec K N) :
    runMode eps true Peq Pineq maxIter x0 = run eps (fun _ => Peq) Pineq maxIter x0 ∧
    runMode eps false Peq Pineq maxIter x0 = run eps Pineq (fun _ => Peq) maxIter x0 := ⟨rfl, rfl⟩

/-- the hypotheses `IsProj` are satisfiable by the model's own projections: the State equality projection is the
metric projection onto `State.Feas s` (from QProps.C04). -/
theorem isProj_state_eq (s : K) : IsProj (State.Feas s) (peqState (n := N) s) := by
  intro u
  exact ⟨state_projEq_mem s u, fun z hz => le_of_eq (state_projEq_orth s u z hz)⟩

-- non-vacuity of the convergence theorems: A = trace-one states (s = 1/2), P1 its projection, B = everything, P2 = id,
-- x₀ = (3, −1), z = (1/2, 0), eps = 1, n = 8 (‖x₀ − z‖² = 29/4 < 8)
example : ∃ j, 1 ≤ j ∧ j ≤ 8 ∧ errAt (fun _ => peqState (n := 2) (1/2 : Rat)) (fun _ => id) #v[3, -1] j < 1 :=
  dyk_stop_exists (State.Feas (1/2)) (fun _ => True) _ _ (fun _ => isProj_state_eq _) (fun _ => isProj_univ)
    #v[3, -1] #v[1/2, 0] (by intro i hi; fin_cases i <;> simp_all [Vec.get]) trivial 1 8 (by decide +kernel)

-- non-vacuity: a concrete run of the model (K = ℚ, N = 2): P1 = State equality projection with s = 1/2,
-- P2 = clipping of the second coordinate at 0; input (3, −1)
example : (run (1/100 : Rat) (fun _ => peqState (n := 2) (1/2)) (fun _ v => Vec.ofFn fun i => if i.val = 1 ∧ v.get i < 0 then 0 else v.get i)
    10 (#v[3, -1] : Vec Rat 2)).map (fun o => (o.x, o.k)) = some (#v[1/2, 0], 1) := by decide +kernel

end QM.C05
