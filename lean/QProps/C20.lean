import QProofs.C20
set_option linter.unusedSimpArgs false
/-!
# C20 — property theorems: experiments and tomographies accept exactly the well-formed schedules

Everything is about `QM.C20.validateSchedules tables …` / `tomoCtor tables …`, where `tables` and the four
`…Spec`s are assembled from `QGen.C20` (regenerated from quara's source on every run): a source edit that changes a
kind, the minimum length, a limit, a positional test or a list handed to `Experiment` re-opens `tables_eq` /
`specs_eq` and with them every theorem below.
All statements are unbounded in the number of schedules, their lengths and the sizes of the object lists.
The spec predicates `InRange`, `OrderRule`, `WellFormed` are defined in QProofs/C20.lean; the three `…_def`
theorems pin their meaning here.
-/
namespace QM.C20

/-- spec pin: known kind and in-range integer index -/
theorem inRange_def (L : Lists) (p : String × Int) : InRange L p ↔
    ((p.1 = "state" ∧ 0 ≤ p.2 ∧ p.2 < (L.state.length : Int)) ∨
     (p.1 = "povm" ∧ 0 ≤ p.2 ∧ p.2 < (L.povm.length : Int)) ∨
     (p.1 = "gate" ∧ 0 ≤ p.2 ∧ p.2 < (L.gate.length : Int)) ∨
     (p.1 = "mprocess" ∧ 0 ≤ p.2 ∧ p.2 < (L.mprocess.length : Int))) := Iff.rfl

/-- spec pin: at least two items, starts with the only state, at most one POVM, ends with a POVM or a measurement process -/
theorem orderRule_def (names : List String) : OrderRule names ↔
    (2 ≤ names.length ∧ names.head? = some "state" ∧ names.count "state" = 1 ∧ names.count "povm" ≤ 1 ∧
      (names.getLast? = some "povm" ∨ names.getLast? = some "mprocess")) := Iff.rfl

/-- spec pin: a well-formed schedule is a sequence of `(str, int)` 2-tuples, each of known kind with in-range index,
obeying the order rule -/
theorem wellFormed_def (L : Lists) (s : Schedule) : WellFormed L s ↔
    ∃ ps : List (String × Int), s = .items (ps.map fun p => Item.mk p.1 p.2) ∧
      (∀ p ∈ ps, InRange L p) ∧ OrderRule (ps.map (·.1)) := Iff.rfl

/-- (T) the generated tables are the ones the property talks about -/
theorem tables_eq : tables =
    { kinds := ["state", "povm", "gate", "mprocess"], needNonEmpty := ["povm", "mprocess"], minLen := 2,
      firstKind := "state", lastKinds := ["povm", "mprocess"], limits := [("state", 2), ("povm", 2)] } := rfl


/-- **C20.a `accept_iff_wellformed`** — `Experiment._validate_schedules` (constructor, `schedules` setter)
accepts a schedule list exactly when every schedule is well formed. ∀ number of schedules, lengths, list sizes. -/
theorem accept_iff_wellformed (L : Lists) (ss : List Schedule) :
    validateSchedules tables L ss = .ok () ↔ ∀ s ∈ ss, WellFormed L s := by
  exact accept_iff_wellformed' L ss

example : validateSchedules tables ⟨[none], [none, some [2]], [], [some [3]]⟩
    [.items [Item.mk "state" 0, Item.mk "mprocess" 0, Item.mk "povm" 1]] = .ok () := by decide

/-- **C20.b `reject_item_or_order`** (which of the two exceptions, and where) — for EVERY kind of schedule the model knows:
sequences, objects that cannot be iterated, and iterables that are not sequences (generator, dict, set; rejected with the
order error since fix df6ca25, former defect D18). If a schedule list is rejected, the result is always the schedule-item or
the schedule-order error, decided by the first schedule that is not well formed:
a schedule that cannot be iterated (`None`, an int …) gives the schedule-item error (no item position); an iterable with a
malformed item gives the schedule-item error carrying that schedule's position and the position `j` of its *first* malformed
item (all items before `j` are well-formed pairs); a sequence whose items are fine gives the schedule-order error because its
kinds violate the order rule; an iterable that is not a sequence and whose items are fine gives the schedule-order error. -/
theorem reject_item_or_order (L : Lists) (ss : List Schedule) (e : Err)
    (h : validateSchedules tables L ss = .error e) :
    ∃ pre s post, ss = pre ++ s :: post ∧ (∀ x ∈ pre, WellFormed L x) ∧ ¬ WellFormed L s ∧
      ((s = .nonIterable ∧ e = .itemNoPos pre.length) ∨
       (∃ its j ex pre' it post', s.itemsOf? = some its ∧ e = .item pre.length j ex ∧ its = pre' ++ it :: post' ∧
          j = pre'.length ∧ validateItem tables L it = .error ex ∧
          ∀ x ∈ pre', ∃ p, x = Item.mk p.1 p.2 ∧ InRange L p) ∨
       (∃ (its : List Item) (ps : List (String × Int)) (r : OrderErr), s = .items its ∧ e = .order pre.length r ∧
          its = ps.map (fun p => Item.mk p.1 p.2) ∧ (∀ p ∈ ps, InRange L p) ∧ ¬ OrderRule (ps.map (·.1))) ∨
       (∃ (k : NonSeq) (its : List Item) (ps : List (String × Int)) (r : OrderErr), s = .nonSequence k its ∧
          e = .order pre.length r ∧ its = ps.map (fun p => Item.mk p.1 p.2) ∧ ∀ p ∈ ps, InRange L p)) := by
  obtain ⟨pre, s, post, h1, h2, h3, h4⟩ :=
    validateSchedulesAux_error tables tables_minLen tables_kindsAreKeys L ss 0 e h
  refine ⟨pre, s, post, h1, fun x hx => (schedOk_iff_wellFormed L x).1 (h2 x hx),
    fun hw => h3 ((schedOk_iff_wellFormed L _).2 hw), ?_⟩
  rcases h4 with ⟨hs, he⟩ | ⟨its, j, ex, hs, he, hj⟩ | ⟨its, names, r, hs, he, hn, ho⟩ | ⟨k, its, names, r, hs, he, hn⟩
  · left; exact ⟨hs, by simpa using he⟩
  · right; left
    obtain ⟨pre', it, post', g1, g2, g3, g4⟩ := validateItems_error tables L its 0 j ex hj
    refine ⟨its, j, ex, pre', it, post', hs, by simpa using he, g1, by simpa using g2, g3, ?_⟩
    intro x hx
    obtain ⟨n, hn⟩ := g4 x hx
    obtain ⟨i, hi, hp⟩ := (validateItem_ok_iff tables L x n).1 hn
    exact ⟨(n, i), hi, (pairOk_iff_inRange L (n, i)).1 hp⟩
  · right; right; left
    obtain ⟨ps, g1, g2, g3⟩ := (validateItems_ok_iff tables L its 0 names).1 hn
    refine ⟨its, ps, r, hs, by simpa using he, g1, fun p hp => (pairOk_iff_inRange L p).1 (g3 p hp), ?_⟩
    intro hr
    have := (validateOrder_ok_iff tables tables_minLen names).2 (by rw [g2]; exact (orderOk_iff_orderRule _).2 hr)
    rw [ho] at this; cases this
  · right; right; right
    obtain ⟨ps, g1, _, g3⟩ := (validateItems_ok_iff tables L its 0 names).1 hn
    exact ⟨k, its, ps, r, hs, by simpa using he, g1, fun p hp => (pairOk_iff_inRange L p).1 (g3 p hp)⟩

/-- **C20.b' `reject_is_schedule_error`** — every rejection, of any schedule list, is one of the two schedule errors
(violated for non-iterables before fix d4e3672 — D13 — and for non-sequence iterables before fix df6ca25 — D18). -/
theorem reject_is_schedule_error (L : Lists) (ss : List Schedule) (e : Err)
    (h : validateSchedules tables L ss = .error e) :
    (∃ i, e = .itemNoPos i) ∨ (∃ i j ex, e = .item i j ex) ∨ (∃ i r, e = .order i r) := by
  obtain ⟨pre, s, post, _, _, _, h4⟩ := reject_item_or_order L ss e h
  rcases h4 with ⟨_, he⟩ | ⟨_, j, ex, _, _, _, _, he, _⟩ | ⟨_, _, r, _, he, _⟩ | ⟨_, _, _, r, _, he, _⟩
  · exact Or.inl ⟨_, he⟩
  · exact Or.inr (Or.inl ⟨_, j, ex, he⟩)
  · exact Or.inr (Or.inr ⟨_, r, he⟩)
  · exact Or.inr (Or.inr ⟨_, r, he⟩)

example : validateSchedules tables ⟨[none], [none], [], []⟩
    [.items [Item.mk "state" 0, Item.mk "povm" 0], .nonIterable] = .error (.itemNoPos 1) := by decide

/-- `reject_item_or_order` instantiated: the hypothesis holds for a list whose second schedule has an order error -/
example := reject_item_or_order ⟨[none], [none], [], []⟩
  [.items [Item.mk "state" 0, Item.mk "povm" 0], .items [Item.mk "povm" 0, Item.mk "state" 0]] (.order 1 .first) (by decide)

/-- generator / dict / set schedules (former defect D18): order error when the items are fine, item error otherwise -/
example : validateSchedules tables ⟨[none], [none], [], []⟩ [.nonSequence .noLen [Item.mk "state" 0, Item.mk "povm" 0]] =
    .error (.order 0 .notSequence) := by decide
example : validateSchedules tables ⟨[none], [none], [], []⟩ [.nonSequence .keyed [Item.mk "state" 0, Item.mk "povm" 0]] =
    .error (.order 0 .notSequence) := by decide
example : validateSchedules tables ⟨[none], [none], [], []⟩ [.nonSequence .unordered [Item.mk "state" 0]] =
    .error (.order 0 .tooShort) := by decide
example : validateSchedules tables ⟨[none], [none], [], []⟩ [.nonSequence .noLen [Item.mk "state" 0, Item.mk "povm" 7]] =
    .error (.item 0 1 .indexError) := by decide

/-- the malformed item shapes and the Python exception `_validate_schedule_item` raises for each
(all three are converted to the schedule-item error) -/
theorem item_exceptions (L : Lists) :
    validateItem tables L .nonTuple = .error .typeError ∧
    (∀ fs, fs.length ≠ 2 → validateItem tables L (.tuple fs) = .error .valueError) ∧
    (∀ a b, (∀ s, a ≠ .str s) → validateItem tables L (.tuple [a, b]) = .error .typeError) ∧
    (∀ s b, (∀ i, b ≠ .int i) → validateItem tables L (.tuple [.str s, b]) = .error .typeError) ∧
    (∀ s i, s ∉ ["state", "povm", "gate", "mprocess"] →
        validateItem tables L (.tuple [.str s, .int i]) = .error .valueError) ∧
    (∀ s i, s ∈ ["state", "povm", "gate", "mprocess"] → ¬ InRange L (s, i) →
        validateItem tables L (.tuple [.str s, .int i]) = .error .indexError) := by
  refine ⟨rfl, ?_, ?_, ?_, ?_, ?_⟩
  · intro fs hfs
    match fs, hfs with
    | [], _ => rfl
    | [_], _ => rfl
    | [_, _], h => simp at h
    | _ :: _ :: _ :: _, _ => rfl
  · intro a b ha
    cases a <;> first | rfl | exact absurd rfl (ha _)
  · intro s b hb
    cases b <;> first | rfl | exact absurd rfl (hb _)
  · intro s i hs
    rw [tables_eq]
    simp only [validateItem]
    simp [hs]
  · intro s i hs hr
    have hk : tables.kinds.contains s = true := by rw [tables_eq]; simpa using hs
    obtain ⟨l, hl⟩ := get?_isSome_of_key L s (tables_kindsAreKeys s hk)
    simp only [validateItem, hk, hl]
    have : ¬ (0 ≤ i ∧ i < (l.length : Int)) := by
      intro hh
      exact hr ((pairOk_iff_inRange L (s, i)).1 ⟨hk, l, hl, hh.1, hh.2⟩)
    simp only [Bool.not_true, Bool.false_eq_true, if_false]
    split
    · rfl
    · first | rfl | rw [if_neg this]

/-- bool indices are not ints: `("povm", True)` is a malformed item although `True == 1` -/
example : validateItem tables ⟨[none], [none, none], [], []⟩ (.tuple [.str "povm", .bool true]) = .error .typeError := rfl

/-! ## setters -/

/-- **C20.c `setter_same_rule`** — a list setter succeeds exactly when every current schedule is well formed w.r.t.
the *new* lists, then replaces exactly that list; otherwise it raises and changes nothing (`runOps` keeps `st`). -/
theorem setter_same_rule (st : ExpState) (w : Which) (v : ObjList) :
    (step tables st (.setList w v) = .ok { st with lists := st.lists.set w v } ∧
        ∀ s ∈ st.schedules, WellFormed (st.lists.set w v) s) ∨
    ((∃ e, step tables st (.setList w v) = .error e) ∧
        ¬ ∀ s ∈ st.schedules, WellFormed (st.lists.set w v) s) := by
  rw [step_setList]
  cases h : validateSchedules tables (st.lists.set w v) st.schedules with
  | ok u => exact Or.inl ⟨rfl, (accept_iff_wellformed _ _).1 (by rw [h])⟩
  | error e =>
    refine Or.inr ⟨⟨e, rfl⟩, fun hw => ?_⟩
    rw [(accept_iff_wellformed _ _).2 hw] at h; cases h

/-- a failing list setter raises exactly the error of validating the current schedules against the would-be lists
(so `reject_item_or_order` classifies it) -/
theorem setter_error_iff (st : ExpState) (w : Which) (v : ObjList) (e : Err) :
    step tables st (.setList w v) = .error e ↔ validateSchedules tables (st.lists.set w v) st.schedules = .error e := by
  rw [step_setList]
  cases validateSchedules tables (st.lists.set w v) st.schedules <;> simp

/-- … and the `schedules` setter the error of validating the new schedules against the current lists -/
theorem schedules_setter_error_iff (st : ExpState) (ss : List Schedule) (e : Err) :
    step tables st (.setSchedules ss) = .error e ↔ validateSchedules tables st.lists ss = .error e := by
  simp only [step]
  cases validateSchedules tables st.lists ss <;> simp

example : step tables ⟨⟨[none], [none], [], []⟩, [.items [Item.mk "state" 0, Item.mk "povm" 0]]⟩ (.setList .povm []) =
    .error (.item 0 1 .indexError) := by decide

/-- the `schedules` setter: same rule against the current lists -/
theorem schedules_setter_same_rule (st : ExpState) (ss : List Schedule) :
    (step tables st (.setSchedules ss) = .ok { st with schedules := ss } ∧ ∀ s ∈ ss, WellFormed st.lists s) ∨
    ((∃ e, step tables st (.setSchedules ss) = .error e) ∧ ¬ ∀ s ∈ ss, WellFormed st.lists s) := by
  simp only [step]
  cases h : validateSchedules tables st.lists ss with
  | ok u => exact Or.inl ⟨rfl, (accept_iff_wellformed _ _).1 (by rw [h])⟩
  | error e =>
    refine Or.inr ⟨⟨e, rfl⟩, fun hw => ?_⟩
    rw [(accept_iff_wellformed _ _).2 hw] at h; cases h

/-- **C20.d `reachable_wellformed`** — invariant over all histories: after a successful construction and any
sequence of (succeeding or failing) setter calls, every schedule the experiment holds is well formed w.r.t. the
lists it holds. -/
theorem reachable_wellformed (L : Lists) (ss : List Schedule) (st : ExpState)
    (h : construct tables L ss = .ok st) (ops : List Op) :
    ∀ s ∈ (runOps tables st ops).2.schedules, WellFormed (runOps tables st ops).2.lists s := by
  have h0 : ∀ s ∈ st.schedules, WellFormed st.lists s := by
    unfold construct at h
    split at h
    · cases h
    · rename_i hv
      injection h with h; subst h
      exact (accept_iff_wellformed L ss).1 hv
  clear h
  induction ops generalizing st with
  | nil => simpa [runOps] using h0
  | cons o os ih =>
    simp only [runOps]
    cases hs : step tables st o with
    | error e => simpa using ih st h0
    | ok st' =>
      have h1 : ∀ s ∈ st'.schedules, WellFormed st'.lists s := by
        cases o with
        | setList w v =>
          rcases setter_same_rule st w v with ⟨g1, g2⟩ | ⟨⟨e, g1⟩, _⟩
          · rw [g1] at hs; injection hs with hs; subst hs; exact g2
          · rw [g1] at hs; cases hs
        | setSchedules ss' =>
          rcases schedules_setter_same_rule st ss' with ⟨g1, g2⟩ | ⟨⟨e, g1⟩, _⟩
          · rw [g1] at hs; injection hs with hs; subst hs; exact g2
          · rw [g1] at hs; cases hs
      simpa using ih st' h1

example : (runOps tables ⟨⟨[none], [none], [], []⟩, [.items [Item.mk "state" 0, Item.mk "povm" 0]]⟩
    [.setList .povm [], .setList .povm [none, none], .setSchedules [.items [Item.mk "state" 0, Item.mk "povm" 1]],
     .setList .povm [none]]).1 = [some (.item 0 1 .indexError), none, none, some (.item 0 1 .indexError)] := by decide


/-! ## tomography classes -/
theorem specs_eq :
    qstSpec = ⟨[(0, "state"), (1, "povm")], 0, [1, 2, 0, 0], none⟩ ∧
    povmtSpec = ⟨[(0, "state"), (1, "povm")], 1, [2, 1, 0, 0], none⟩ ∧
    qptSpec = ⟨[(0, "state"), (1, "gate"), (2, "povm")], 1, [2, 2, 1, 0], none⟩ ∧
    qmptSpec = ⟨[(0, "state"), (1, "mprocess"), (2, "povm")], 1, [2, 2, 0, 1], some 3⟩ := ⟨rfl, rfl, rfl, rfl⟩

/-- **C20.e `qst_accept_iff_shape`** — `StandardQst(povms, schedules=ss)` gets through its schedule handling exactly
when every schedule is `[("state", 0), ("povm", j)]` with `j < len(povms)`. -/
theorem qst_accept_iff_shape (nS nP : Nat) (ss : List Schedule) :
    tomoCtor tables .qst nS nP (.list ss) = .ok ss ↔
      ∀ s ∈ ss, ∃ j : Nat, j < nP ∧ s = .items [Item.mk "state" 0, Item.mk "povm" j] := by
  rw [tomoCtor_ok_iff']
  constructor
  · intro h s hs
    obtain ⟨ps, rfl, h2⟩ := h s hs
    obtain ⟨j, hj, rfl⟩ := (qst_one nS nP ps).1 h2
    exact ⟨j, hj, rfl⟩
  · intro h s hs
    obtain ⟨j, hj, rfl⟩ := h s hs
    exact ⟨[("state", 0), ("povm", (j : Int))], rfl, (qst_one nS nP _).2 ⟨j, hj, rfl⟩⟩

/-- **C20.e `povmt_accept_iff_shape`** — `StandardPovmt`: exactly `[("state", i), ("povm", 0)]`, `i < len(states)`. -/
theorem povmt_accept_iff_shape (nS nP : Nat) (ss : List Schedule) :
    tomoCtor tables .povmt nS nP (.list ss) = .ok ss ↔
      ∀ s ∈ ss, ∃ i : Nat, i < nS ∧ s = .items [Item.mk "state" i, Item.mk "povm" 0] := by
  rw [tomoCtor_ok_iff']
  constructor
  · intro h s hs
    obtain ⟨ps, rfl, h2⟩ := h s hs
    obtain ⟨i, hi, rfl⟩ := (povmt_one nS nP ps).1 h2
    exact ⟨i, hi, rfl⟩
  · intro h s hs
    obtain ⟨i, hi, rfl⟩ := h s hs
    exact ⟨[("state", (i : Int)), ("povm", 0)], rfl, (povmt_one nS nP _).2 ⟨i, hi, rfl⟩⟩


/-- **C20.e `qpt_accept_iff_shape`** — `StandardQpt`: exactly `[("state", i), ("gate", 0), ("povm", j)]`. -/
theorem qpt_accept_iff_shape (nS nP : Nat) (ss : List Schedule) :
    tomoCtor tables .qpt nS nP (.list ss) = .ok ss ↔
      ∀ s ∈ ss, ∃ i j : Nat, i < nS ∧ j < nP ∧
        s = .items [Item.mk "state" i, Item.mk "gate" 0, Item.mk "povm" j] := by
  rw [tomoCtor_ok_iff']
  constructor
  · intro h s hs
    obtain ⟨ps, rfl, h2⟩ := h s hs
    obtain ⟨i, j, hi, hj, rfl⟩ := (qpt_one nS nP ps).1 h2
    exact ⟨i, j, hi, hj, rfl⟩
  · intro h s hs
    obtain ⟨i, j, hi, hj, rfl⟩ := h s hs
    exact ⟨[("state", (i : Int)), ("gate", 0), ("povm", (j : Int))], rfl, (qpt_one nS nP _).2 ⟨i, j, hi, hj, rfl⟩⟩

/-- **C20.e `qmpt_accept_iff_shape`** — `StandardQmpt`: exactly `[("state", i), ("mprocess", 0), ("povm", j)]`
(the length test added by fix d963183 excludes the trailing `("mprocess", 0)` items of D14). -/
theorem qmpt_accept_iff_shape (nS nP : Nat) (ss : List Schedule) :
    tomoCtor tables .qmpt nS nP (.list ss) = .ok ss ↔
      ∀ s ∈ ss, ∃ i j : Nat, i < nS ∧ j < nP ∧
        s = .items [Item.mk "state" i, Item.mk "mprocess" 0, Item.mk "povm" j] := by
  rw [tomoCtor_ok_iff']
  constructor
  · intro h s hs
    obtain ⟨ps, rfl, h2⟩ := h s hs
    obtain ⟨i, j, hi, hj, rfl⟩ := (qmpt_one nS nP ps).1 h2
    exact ⟨i, j, hi, hj, rfl⟩
  · intro h s hs
    obtain ⟨i, j, hi, hj, rfl⟩ := h s hs
    exact ⟨[("state", (i : Int)), ("mprocess", 0), ("povm", (j : Int))], rfl, (qmpt_one nS nP _).2 ⟨i, j, hi, hj, rfl⟩⟩

/-- the former D14 input is rejected with the class's ValueError; a two-item schedule no longer raises IndexError -/
example : tomoCtor tables .qmpt 1 1 (.list [.items [Item.mk "state" 0, Item.mk "mprocess" 0, Item.mk "povm" 0,
    Item.mk "mprocess" 0]]) = .error (.value 0) := by decide
example : tomoCtor tables .qmpt 1 1 (.list [.items [Item.mk "state" 0, Item.mk "mprocess" 0]]) = .error (.value 0) := by
  decide

/-- **C20.e' `tomo_reject_kinds`** (reject side, contributed by the peer review): a tomography constructor rejects a schedule list only with an Experiment schedule
error or its own ValueError - never IndexError (D14), never the `unmodelled` branch -/
theorem tomo_reject_kinds (c : Cls) (nS nP : Nat) (ss : List Schedule) (e : TomoErr)
    (h : tomoCtor tables c nS nP (.list ss) = .error e) :
    (∃ x, e = .exp x ∧ validateSchedules tables (tomoLists c.spec nS nP) ss = .error x) ∨ ∃ j, e = .value j := by
  simp only [tomoCtor, construct] at h
  cases hv : validateSchedules tables (tomoLists c.spec nS nP) ss with
  | error x => rw [hv] at h; injection h with h; exact Or.inl ⟨x, h.symm, rfl⟩
  | ok u =>
    rw [hv] at h
    obtain ⟨pss, h1, h2⟩ := (all_wellFormed_iff _ ss).1 ((accept_iff_wellformed' _ ss).1 hv)
    subst h1
    simp only [mapM_pairs?_toSched] at h
    cases h3 : tomoValidate c.spec pss 0 with
    | error e' =>
      rw [h3] at h; injection h with h; subst h
      exact Or.inr (tomoValidate_no_index c pss 0 e' (fun ps hp => (h2 ps hp).2) h3)
    | ok u => rw [h3] at h; cases h

example : tomoCtor tables .qpt 1 1 (.list [.items [Item.mk "state" 0, Item.mk "povm" 0]]) = .error (.value 0) := by decide

/-- the `"all"` expansions are accepted by their own class, for every number of states and POVMs -/
theorem all_accepted (c : Cls) (nS nP : Nat) :
    tomoCtor tables c nS nP (.str "all") = .ok (allSchedules c nS nP) := by
  have hstr : (!QGen.C20.supportedStrs.contains "all") = false := by decide
  simp only [tomoCtor, hstr, Bool.false_eq_true, if_false, if_true]
  cases c with
  | qst =>
    refine (qst_accept_iff_shape nS nP _).2 ?_
    intro s hs
    simp only [allSchedules, List.mem_map, List.mem_range] at hs
    obtain ⟨j, hj, rfl⟩ := hs
    exact ⟨j, hj, rfl⟩
  | povmt =>
    refine (povmt_accept_iff_shape nS nP _).2 ?_
    intro s hs
    simp only [allSchedules, List.mem_map, List.mem_range] at hs
    obtain ⟨j, hj, rfl⟩ := hs
    exact ⟨j, hj, rfl⟩
  | qpt =>
    refine (qpt_accept_iff_shape nS nP _).2 ?_
    intro s hs
    simp only [allSchedules, List.mem_flatMap, List.mem_map, List.mem_range] at hs
    obtain ⟨i, hi, j, hj, rfl⟩ := hs
    exact ⟨i, j, hi, hj, rfl⟩
  | qmpt =>
    refine (qmpt_accept_iff_shape nS nP _).2 ?_
    intro s hs
    simp only [allSchedules, List.mem_flatMap, List.mem_map, List.mem_range] at hs
    obtain ⟨i, hi, j, hj, rfl⟩ := hs
    exact ⟨i, j, hi, hj, rfl⟩

/-- unsupported strings are rejected before anything else -/
theorem unsupported_string_rejected (c : Cls) (nS nP : Nat) (s : String) (h : s ≠ "all") :
    tomoCtor tables c nS nP (.str s) = .error .str := by
  have : (!QGen.C20.supportedStrs.contains s) = true := by
    simp [QGen.C20.supportedStrs, h]
  simp only [tomoCtor, this, if_true]



/-! ## execution of accepted schedules -/

/-- **C20.f `accepted_executable`** — an accepted schedule that ends in its only POVM and refers to no `None`
placeholder is executed by `calc_prob_dist` (index check, look-ups, composition from the state outwards, `.ps`) and
yields a distribution whose outcome shape is exactly: the outcome shapes of its measurement processes in order followed by the
POVM's local outcomes (`nums_local_outcomes`) — and the FLAT `[∏ local outcomes]` when there is no measurement process
(`MultinomialDistribution(prob, prob.shape)` in `Povm ∘ State`). Shapes may be multi-dimensional (tensor-product objects).
What is proved is executability and the *shape* (type-level: the dispatch of `_compose_qoperations`, hand-modelled in
`compose`); that the numbers are non-negative, sum to one and follow the Born rule is established by the oracle on the
real code only (harness c20.py, incl. zero-probability branches and tensor-product objects). -/
theorem accepted_executable (st : ExpState) (i : Nat) (ps : List (String × Int)) (outc : String × Int → List Nat)
    (hi : st.schedules[i]? = some (.items (ps.map fun p => Item.mk p.1 p.2)))
    (hr : ∀ p ∈ ps, InRange st.lists p) (ho : OrderRule (ps.map (·.1)))
    (hlast : (ps.map (·.1)).getLast? = some "povm")
    (hobj : ∀ p ∈ ps, objOf st.lists p = some (some (outc p))) :
    calcProbDist st (.int i) = .ok (shapeOfRun ((ps.filter fun p => p.1 = "mprocess").map outc)
      ((ps.filter fun p => p.1 = "povm").map outc).flatten) := by
  have hlen : i < st.schedules.length := by
    have := List.getElem?_eq_some_iff.1 hi; exact this.1
  match ps, hi, hr, ho, hlast, hobj with
  | [], _, _, ho, _, _ => simp [OrderRule] at ho
  | a :: rest, hi, hr, ho, hlast, hobj =>
    simp only [List.map_cons] at ho hlast
    obtain ⟨ha, hne, hns, hcnt, _⟩ := (orderRule_cons _ _).1 ho
    have hne' : rest ≠ [] := by simpa using hne
    obtain ⟨mid, pv, rfl⟩ : ∃ mid pv, rest = mid ++ [pv] :=
      ⟨rest.dropLast, rest.getLast hne', (List.dropLast_concat_getLast hne').symm⟩
    have hpv : pv.1 = "povm" := by
      have : (a.1 :: List.map (fun x => x.fst) (mid ++ [pv])).getLast? = some pv.1 := by
        have : a.1 :: List.map (fun x => x.fst) (mid ++ [pv]) = (a.1 :: mid.map (·.1)) ++ [pv.1] := by simp
        rw [this, List.getLast?_concat]
      rw [this] at hlast; injection hlast
    have hcm : List.count "povm" (mid.map (·.1)) = 0 := by
      simp only [List.map_append, List.map_cons, List.map_nil, List.count_append, hpv, List.count_cons_self,
        List.count_nil] at hcnt
      omega
    have hmid : ∀ q ∈ mid, q.1 = "gate" ∨ q.1 = "mprocess" := by
      intro q hq
      have hq1 : q.1 ∈ mid.map (·.1) := List.mem_map_of_mem hq
      rcases hr q (by simp [hq]) with h | h | h | h
      · exact absurd (h.1 ▸ hq1) (fun hh => hns (by simp [hh]))
      · exact absurd (h.1 ▸ hq1) (List.count_eq_zero.1 hcm)
      · exact Or.inl h.1
      · exact Or.inr h.1
    have hidx : ¬ ¬ (0 ≤ (i : Int) ∧ (i : Int) < (st.schedules.length : Int)) := by
      intro h; apply h; constructor <;> omega
    have htn : ((i : Int)).toNat = i := Int.toNat_natCast i
    have htargets := lookupTargets_ok st.lists outc (a :: (mid ++ [pv])) 0 hobj
    have hqa : qtOf a.1 (outc a) = .state := by simp [qtOf, ha]
    have hqp : qtOf pv.1 (outc pv) = .povm (outc pv) := by simp [qtOf, hpv]
    have hcomp := composeFrom_typing (mid.map fun p => qtOf p.1 (outc p))
      (by
        intro t ht
        obtain ⟨q, hq, rfl⟩ := List.mem_map.1 ht
        rcases hmid q hq with h | h
        · left; simp [qtOf, h]
        · right; exact ⟨outc q, by simp [qtOf, h]⟩)
      (outc pv) none
    simp only [calcProbDist, if_neg hidx, htn, hi, htargets]
    simp only [List.map_cons, List.map_append, List.map_nil, hqa, hqp]
    have hnotempty : (List.map (fun p => qtOf p.fst (outc p)) mid ++ [QT.povm (outc pv)]).isEmpty = false := by
      cases mid <;> simp
    have hcomp' : composeFrom QT.state (List.map (fun p => qtOf p.fst (outc p)) mid ++ [QT.povm (outc pv)]) =
        .ok (.dist (shapeOfRun ((mid.filter fun p => p.1 = "mprocess").map outc) (outc pv))) := by
      have := hcomp
      rw [finalShape_foldl, filterMap_mproc outc mid hmid] at this
      simpa [tempOf] using this
    simp only [hnotempty, Bool.false_eq_true, if_false, hcomp']
    have hf1 : (List.filter (fun p => decide (p.1 = "mprocess")) (a :: (mid ++ [pv]))) =
        List.filter (fun p => decide (p.1 = "mprocess")) mid := by
      simp [List.filter_cons, List.filter_append, ha, hpv]
    have hf2 : (List.filter (fun p => decide (p.1 = "povm")) (a :: (mid ++ [pv]))) = [pv] := by
      have hm : List.filter (fun p => decide (p.1 = "povm")) mid = [] := by
        rw [List.filter_eq_nil_iff]
        intro q hq
        rcases hmid q hq with h | h <;> simp [h]
      simp [List.filter_cons, List.filter_append, ha, hpv, hm]
    rw [hf1, hf2]
    simp

/-- **C20.f `none_placeholder_rejected`** — `calc_prob_dist` raises the "is None" ValueError at the first item (in
schedule order) that refers to a `None` placeholder. -/
theorem none_placeholder_rejected (st : ExpState) (i : Nat) (outc : String × Int → List Nat)
    (pre : List (String × Int)) (p : String × Int) (post : List (String × Int))
    (hi : st.schedules[i]? = some (.items ((pre ++ p :: post).map fun p => Item.mk p.1 p.2)))
    (hpre : ∀ q ∈ pre, objOf st.lists q = some (some (outc q))) (hp : objOf st.lists p = some none) :
    calcProbDist st (.int i) = .error (.isNone pre.length) := by
  have hlen : i < st.schedules.length := (List.getElem?_eq_some_iff.1 hi).1
  have hidx : ¬ ¬ (0 ≤ (i : Int) ∧ (i : Int) < (st.schedules.length : Int)) := by
    intro h; apply h; constructor <;> omega
  have htn : ((i : Int)).toNat = i := Int.toNat_natCast i
  have := lookupTargets_none st.lists outc pre p post 0 hpre hp
  simp only [calcProbDist, if_neg hidx, htn, hi, this, Nat.zero_add]

example : calcProbDist ⟨⟨[some [1], none], [some [2], some [3]], [some [1]], [some [2], some [3]]⟩,
    [.items [Item.mk "state" 0, Item.mk "mprocess" 0, Item.mk "mprocess" 1, Item.mk "gate" 0, Item.mk "povm" 1]]⟩
    (.int 0) = .ok [2, 3, 3] := by decide
example : calcProbDist ⟨⟨[some [1], none], [some [2]], [], []⟩, [.items [Item.mk "state" 1, Item.mk "povm" 0]]⟩
    (.int 0) = .error (.isNone 0) := by decide



/-! ## generated setter tables, copy, index safety -/

/-- **(T) `setters_eq`** — the `objdict` each list setter validates against, and the list it assigns, as generated from
the source: the new value under its own key, the experiment's current lists under the other three keys. A stale
entry (e.g. `povm=self._povms` in the `povms` setter) or a wrong assignment target re-opens this. -/
theorem setters_eq :
    QGen.C20.setterDicts = [[4, 1, 2, 3], [0, 4, 2, 3], [0, 1, 4, 3], [0, 1, 2, 4]] ∧
    QGen.C20.setterAssigns = [0, 1, 2, 3] ∧
    ∀ (L : Lists) (w : Which) (v : ObjList), setterLists L w v = L.set w v ∧ setterAssign L w v = L.set w v :=
  ⟨rfl, rfl, fun L w v => ⟨setterLists_eq L w v, setterAssign_eq L w v⟩⟩

/-- **C20.g `copy_same`** — `Experiment.copy()` re-validates through the constructor: on every reachable
(well-formed) state it succeeds and yields the same lists and schedules. -/
theorem copy_same (st : ExpState) (h : ∀ s ∈ st.schedules, WellFormed st.lists s) :
    copyExp tables st = .ok st := by
  simp only [copyExp, construct, (accept_iff_wellformed st.lists st.schedules).2 h]

example : copyExp tables ⟨⟨[none], [none, none], [], []⟩, [.items [Item.mk "state" 0, Item.mk "povm" 1]]⟩ =
    .ok ⟨⟨[none], [none, none], [], []⟩, [.items [Item.mk "state" 0, Item.mk "povm" 1]]⟩ := by decide

/-- **C20.h `accepted_indices_in_range`** — acceptance ⇒ index safety, about the generated tables: every item of every
accepted schedule is a `(kind, index)` pair whose kind names one of the four lists and whose index addresses an
existing entry of that list (`0 ≤ index < len`), so the Python look-up `key_map[kind][index]` is defined (and is
not a negative-index wrap-around). -/
theorem accepted_indices_in_range (L : Lists) (ss : List Schedule) (h : validateSchedules tables L ss = .ok ()) :
    ∀ s ∈ ss, ∃ ps : List (String × Int), s = .items (ps.map fun p => Item.mk p.1 p.2) ∧
      ∀ p ∈ ps, ∃ l o, L.get? p.1 = some l ∧ 0 ≤ p.2 ∧ p.2 < (l.length : Int) ∧
        pyIndex l p.2 = some o ∧ l[p.2.toNat]? = some o := by
  intro s hs
  obtain ⟨ps, h1, h2, _⟩ := (accept_iff_wellformed L ss).1 h s hs
  refine ⟨ps, h1, fun p hp => ?_⟩
  obtain ⟨l, hl, h0, hlt⟩ := inRange_get L p (h2 p hp)
  obtain ⟨o, ho, ho'⟩ := pyIndex_inRange l p.2 h0 hlt
  exact ⟨l, o, hl, h0, hlt, ho, ho'⟩

/-- the same for the four tomography constructors, w.r.t. the lists they hand to `Experiment` -/
theorem tomo_accepted_indices_in_range (c : Cls) (nS nP : Nat) (ss : List Schedule)
    (h : tomoCtor tables c nS nP (.list ss) = .ok ss) :
    ∀ s ∈ ss, ∃ ps : List (String × Int), s = .items (ps.map fun p => Item.mk p.1 p.2) ∧
      ∀ p ∈ ps, ∃ l, (tomoLists c.spec nS nP).get? p.1 = some l ∧ 0 ≤ p.2 ∧ p.2 < (l.length : Int) := by
  intro s hs
  obtain ⟨ps, h1, ⟨h2, _⟩, _⟩ := (tomoCtor_ok_iff' c nS nP ss).1 h s hs
  exact ⟨ps, h1, fun p hp => inRange_get _ p (h2 p hp)⟩

/-- **C20.h' `accepted_lookup_total`** — consequently the object look-ups of `calc_prob_dist` on an accepted schedule
never raise `IndexError` / `KeyError` / `TypeError`: they deliver every object, or stop with the "is None" error at a
`None` placeholder inside the schedule. -/
theorem accepted_lookup_total (L : Lists) (s : Schedule) (h : WellFormed L s) :
    ∃ its, s = .items its ∧
      ((∃ ts, lookupTargets L its 0 = .ok ts ∧ ts.length = its.length) ∨
       (∃ k, lookupTargets L its 0 = .error (.isNone k) ∧ k < its.length)) := by
  obtain ⟨ps, rfl, h2, _⟩ := h
  refine ⟨_, rfl, ?_⟩
  rcases lookupTargets_total L ps 0 h2 with ⟨ts, g1, g2⟩ | ⟨k, g1, _, g3⟩
  · exact Or.inl ⟨ts, g1, by simp [g2]⟩
  · exact Or.inr ⟨k, g1, by simpa using g3⟩

example : validateSchedules tables ⟨[none, some [1]], [some [2]], [some [1]], []⟩
    [.items [Item.mk "state" 1, Item.mk "gate" 0, Item.mk "povm" 0]] = .ok () := by decide


/-- tensor-product objects (multi-dimensional outcome shapes): the flat shape without a measurement process, the concatenated
local shapes with one -/
example : calcProbDist ⟨⟨[some []], [some [2, 3]], [], [some [2, 3]]⟩, [.items [Item.mk "state" 0, Item.mk "povm" 0]]⟩ (.int 0) =
    .ok [6] := by decide
example : calcProbDist ⟨⟨[some []], [some [2, 3]], [some []], [some [2, 3]]⟩,
    [.items [Item.mk "state" 0, Item.mk "mprocess" 0, Item.mk "gate" 0, Item.mk "povm" 0]]⟩ (.int 0) = .ok [2, 3, 2, 3] := by decide

/-! ## instantiations of `accepted_executable` / `none_placeholder_rejected` (hypotheses jointly satisfiable, from the peer review) -/

def L0 : Lists := ⟨[some [1], none], [some [2], some [3]], [some [1]], [some [2], some [3]]⟩
def ps0 : List (String × Int) := [("state", 0), ("mprocess", 0), ("mprocess", 1), ("gate", 0), ("povm", 1)]
def st0 : ExpState := ⟨L0, [.items (ps0.map fun p => Item.mk p.1 p.2)]⟩
def outc0 (p : String × Int) : List Nat := match objOf L0 p with | some (some m) => m | _ => []

-- accepted_executable: all five hypotheses jointly satisfiable, conclusion is informative
example : calcProbDist st0 (.int 0) = .ok [2, 3, 3] := by
  have h := accepted_executable st0 0 ps0 outc0 rfl
    (by intro p hp; simp [ps0] at hp; rcases hp with rfl | rfl | rfl | rfl | rfl <;> simp [InRange, st0, L0])
    (by simp [OrderRule, ps0]) (by simp [ps0])
    (by intro p hp; simp [ps0] at hp; rcases hp with rfl | rfl | rfl | rfl | rfl <;> decide)
  simpa [ps0, outc0, objOf, L0, pyIndex, Lists.get?, shapeOfRun] using h

-- none_placeholder_rejected instantiation
def ps1pre : List (String × Int) := [("state", 0)]
def st1 : ExpState :=
  ⟨L0, [.items ((ps1pre ++ ("state", 1) :: [(("povm", 0) : String × Int)]).map fun (p : String × Int) => Item.mk p.1 p.2)]⟩
example : calcProbDist st1 (.int 0) = .error (.isNone 1) :=
  none_placeholder_rejected st1 0 outc0 ps1pre ("state", 1) [("povm", 0)] (by rfl)
    (by intro q hq; simp [ps1pre] at hq; subst hq; decide) (by decide)


/-- `reachable_wellformed` through `construct` and a setter history (one failing, one succeeding call) -/
example : ∀ s ∈ (runOps tables st0 [.setList .povm [], .setList .gate [some [1], none]]).2.schedules,
    WellFormed (runOps tables st0 [.setList .povm [], .setList .gate [some [1], none]]).2.lists s :=
  reachable_wellformed L0 st0.schedules st0 (by decide) _


/-! ## executability on reachable states and for the tomography circuits -/

/-- **C20.f' `reachable_executable`** — on every state an experiment can reach (successful construction followed by any
history of succeeding or failing setter calls) every schedule it holds that ends in a POVM and refers to no `None` placeholder
is executed by `calc_prob_dist`, with the exact ordered outcome shape. No well-formedness hypothesis is needed: it is the
invariant `reachable_wellformed`. -/
theorem reachable_executable (L : Lists) (ss : List Schedule) (st : ExpState) (h : construct tables L ss = .ok st)
    (ops : List Op) (i : Nat) (ps : List (String × Int)) (outc : String × Int → List Nat)
    (hi : (runOps tables st ops).2.schedules[i]? = some (.items (ps.map fun p => Item.mk p.1 p.2)))
    (hlast : (ps.map (·.1)).getLast? = some "povm")
    (hobj : ∀ p ∈ ps, objOf (runOps tables st ops).2.lists p = some (some (outc p))) :
    calcProbDist (runOps tables st ops).2 (.int i) =
      .ok (shapeOfRun ((ps.filter fun p => p.1 = "mprocess").map outc) ((ps.filter fun p => p.1 = "povm").map outc).flatten) := by
  have hmem : Schedule.items (ps.map fun p => Item.mk p.1 p.2) ∈ (runOps tables st ops).2.schedules :=
    List.mem_of_getElem? hi
  obtain ⟨ps', h1, h2, h3⟩ := reachable_wellformed L ss st h ops _ hmem
  have : ps = ps' := toSched_inj ps ps' h1
  subst this
  exact accepted_executable _ i ps outc hi h2 h3 hlast hobj


/-- spec pins: the experiment a tomography object executes and the outcome shape of one of its schedules -/
theorem substTrue_def (nS nP : Nat) (sh : List Nat) :
    substTrue .qst nS nP sh = ⟨[some []], List.replicate nP (some [2]), [], []⟩ ∧
    substTrue .povmt nS nP sh = ⟨List.replicate nS (some [2]), [some sh], [], []⟩ ∧
    substTrue .qpt nS nP sh = ⟨List.replicate nS (some [2]), List.replicate nP (some [2]), [some []], []⟩ ∧
    substTrue .qmpt nS nP sh = ⟨List.replicate nS (some [2]), List.replicate nP (some [2]), [], [some sh]⟩ := ⟨rfl, rfl, rfl, rfl⟩

/-- **C20.f'' `tomo_accepted_executable`** — every schedule a tomography constructor accepted is executable once the `[None]`
placeholder is replaced by the true object (what `generate_prob_dists_sequence` / the data generation do), for any numbers of
tester states / POVMs and any outcome shape `sh` of the true object; the distribution has shape `[2]` (Qst, Qpt; two-outcome
testers in the model), `[∏ sh]` (Povmt, flat) or `sh ++ [2]` (Qmpt). -/
theorem tomo_accepted_executable (c : Cls) (nS nP : Nat) (ss : List Schedule) (sh : List Nat)
    (h : tomoCtor tables c nS nP (.list ss) = .ok ss) (i : Nat) (hi : i < ss.length) :
    calcProbDist ⟨substTrue c nS nP sh, ss⟩ (.int i) = .ok (tomoShape c sh) := by
  have hidx : ¬ ¬ (0 ≤ (i : Int) ∧ (i : Int) < (ss.length : Int)) := by
    intro h'; apply h'; constructor <;> omega
  have hget : ss[i]? = some ss[i] := by simp [hi]
  have hmem : ss[i] ∈ ss := List.getElem_mem hi
  have e1 : pyIndex [some ([] : List Nat)] (0 : Int) = some (some []) := by simp [pyIndex]
  have e2 : pyIndex [some sh] (0 : Int) = some (some sh) := by simp [pyIndex]
  have e3 : ∀ j : Nat, j < nP → pyIndex (List.replicate nP (some [2])) (j : Int) = some (some [2]) :=
    fun j hj => pyIndex_replicate nP j _ hj
  have e4 : ∀ j : Nat, j < nS → pyIndex (List.replicate nS (some [2])) (j : Int) = some (some [2]) :=
    fun j hj => pyIndex_replicate nS j _ hj
  cases c with
  | qst =>
    have hL : substTrue .qst nS nP sh = ⟨[some []], List.replicate nP (some [2]), [], []⟩ := rfl
    obtain ⟨j, hj, hs⟩ := (qst_accept_iff_shape nS nP ss).1 h _ hmem
    have e0 := e3 j hj
    simp only [calcProbDist, if_neg hidx, Int.toNat_natCast, hget, hs, hL, Item.mk, lookupTargets,
      Lists.get?, e0, e1, e2, e3, e4, e0]
    simp [qtOf, composeFrom, compose, tomoShape, prodNat, e0, e1, e2, e3]
  | povmt =>
    have hL : substTrue .povmt nS nP sh = ⟨List.replicate nS (some [2]), [some sh], [], []⟩ := rfl
    obtain ⟨j, hj, hs⟩ := (povmt_accept_iff_shape nS nP ss).1 h _ hmem
    have e0 := e4 j hj
    simp only [calcProbDist, if_neg hidx, Int.toNat_natCast, hget, hs, hL, Item.mk, lookupTargets,
      Lists.get?, e0, e1, e2, e3, e4, e0]
    simp [qtOf, composeFrom, compose, tomoShape, prodNat, e0, e1, e2, e3]
  | qpt =>
    have hL : substTrue .qpt nS nP sh = ⟨List.replicate nS (some [2]), List.replicate nP (some [2]), [some []], []⟩ := rfl
    obtain ⟨a, b, ha, hb, hs⟩ := (qpt_accept_iff_shape nS nP ss).1 h _ hmem
    have e0 := e4 a ha
    have e3 := e3 b hb
    simp only [calcProbDist, if_neg hidx, Int.toNat_natCast, hget, hs, hL, Item.mk, lookupTargets,
      Lists.get?, e0, e1, e2, e3, e4, e0]
    simp [qtOf, composeFrom, compose, tomoShape, prodNat, e0, e1, e2, e3]
  | qmpt =>
    have hL : substTrue .qmpt nS nP sh = ⟨List.replicate nS (some [2]), List.replicate nP (some [2]), [], [some sh]⟩ := rfl
    obtain ⟨a, b, ha, hb, hs⟩ := (qmpt_accept_iff_shape nS nP ss).1 h _ hmem
    have e0 := e4 a ha
    have e3 := e3 b hb
    simp only [calcProbDist, if_neg hidx, Int.toNat_natCast, hget, hs, hL, Item.mk, lookupTargets,
      Lists.get?, e0, e1, e2, e3, e4, e0]
    simp [qtOf, composeFrom, compose, tomoShape, prodNat, e0, e1, e2, e3]

example : calcProbDist ⟨substTrue .qmpt 2 2 [2, 3], allSchedules .qmpt 2 2⟩ (.int 3) = .ok [2, 3, 2] := by decide



/-- `reachable_executable` instantiated: a constructed experiment after one failing and one succeeding setter call -/
example : calcProbDist (runOps tables st0 [.setList .povm [], .setList .gate [some [1], none]]).2 (.int 0) = .ok [2, 3, 3] := by
  have h := reachable_executable L0 st0.schedules st0 (by decide) [.setList .povm [], .setList .gate [some [1], none]] 0 ps0 outc0
    (by decide) (by simp [ps0])
    (by intro p hp; simp [ps0] at hp; rcases hp with rfl | rfl | rfl | rfl | rfl <;> decide)
  simpa [ps0, outc0, objOf, L0, pyIndex, Lists.get?, shapeOfRun] using h

end QM.C20
