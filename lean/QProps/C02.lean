import QProofs.C02
import Mathlib.Data.Complex.Basic
/-!
# C02 — all representations of one object denote the same operator: property theorems

`K` is any commutative ring with a conjugation (`StarRing`): ℂ, the Gaussian rationals `CRat` on
which the driver executes the very same definitions (instances in QProofs/C02), …  `d`, `n` (number of
basis elements) and all list lengths are arbitrary.  The matrix basis `B` is an argument; the
hypotheses on it are the ones the library itself states for its bases:

* `Orthonormal B` : `np.vdot(B_a, B_b) = tr(B_a^† B_b) = δ_ab`;
* `Complete B`    : `Σ_a B_a[x] conj(B_a[y]) = δ_xy` — *proved* from orthonormality when `n = d²`;
* `HermitianBasis B`.

Conversions that end in `truncate_hs` are stated twice: for the value before truncation (`…Raw`, any star-ring), and
for the EXECUTED functions (`hsOfChoiSparse`, `hsOfChoiDict`, `hsOfChoiLoop`, `toVarFromChoi`, `vecOfDensity`,
`toVarFromDensity`, `toVarFromMatrices`, `hsOfKraus`) on real data whose entries are `0` or at least `eps` in modulus
(`…_executed`, with the counter-instance `hs_choi_hs_executed_needs_threshold`).
The Kraus theorems named `…_exact_kernel` assume EXACT `eigh` / `sqrt` / `abs` (no floating-point output satisfies that:
they describe the algorithm, not the float run); `kraus_roundtrip_residual` is the contract-free version (deviation = Choi
residual, isometrically).
-/
open Matrix
set_option linter.unusedSectionVars false
namespace QM.C02

variable {K : Type} [CommRing K] [StarRing K] {d n : Nat}

/-! ## state / POVM element: coefficient vector <-> matrix -/

/-- alternative implementations agree: the loop `density += coefficient * basis` of
`State.to_density_matrix`, `Povm.matrices`, `Povm.matrix` and the sparse matrix–vector form of
`to_density_matrix_from_vec` / `to_matrices_from_vecs` give the same matrix, `Σ_a v_a B_a`. -/
theorem density_variants_agree (B : Basis K d n) (v : Vec K n) :
    densityLoop B v = densitySparse B v ∧
      ∀ i j, (densitySparse B v).get i j = ∑ a, v.get a * (B.get a).get i j := by
  refine ⟨?_, densitySparse_get B v⟩
  apply Mat.ext'; intro i j
  rw [densityLoop_get, densitySparse_get]

/-- defining formula of the inverse direction: `to_vec_from_density_matrix_with_sparsity`
computes `vec_a = np.vdot(B_a, ρ) = tr(B_a^† ρ)`. -/
theorem vecOfDensity_formula (B : Basis K d n) (rho : Mat K d d) (a : Fin n) :
    (vecOfDensityRaw B rho).get a = vdot (B.get a) rho ∧
      vdot (B.get a) rho = ((ctransp (B.get a)).mul rho).trace := by
  constructor
  · simp [vecOfDensityRaw, Mat.mulVec, basisConj, vdot, conj_eq_star]
  · rw [vdot_eq_double]
    simp only [Mat.trace, Mat.mul, ctransp, Mat.get_ofFn, fsum_eq_sum, conj_eq_star]
    exact Finset.sum_comm

/-- round trip vec → density matrix → vec is the identity for every orthonormal family
(any number `n` of basis elements, any `d`). -/
theorem vec_density_vec (B : Basis K d n) (h : Orthonormal B) (v : Vec K n) :
    vecOfDensityRaw B (densitySparse B v) = v ∧ vecOfDensityRaw B (densityLoop B v) = v := by
  have key : vecOfDensityRaw B (densitySparse B v) = v := by
    apply Vec.toV_injective
    rw [toV_vecOfDensityRaw, toV_densitySparse_flat, Matrix.mulVec_mulVec, (orthonormal_iff B).1 h,
      Matrix.one_mulVec]
  exact ⟨key, by rw [(density_variants_agree B v).1]; exact key⟩

/-- round trip matrix → vec → matrix is the identity for a complete family. -/
theorem density_vec_density (B : Basis K d n) (h : Complete B) (rho : Mat K d d) :
    densitySparse B (vecOfDensityRaw B rho) = rho := by
  apply flat_injective
  apply Vec.toV_injective
  rw [toV_densitySparse_flat, toV_vecOfDensityRaw, Matrix.mulVec_mulVec, (complete_iff B).1 h,
    Matrix.one_mulVec]

/-- `d²` orthonormal `d × d` matrices are complete (dimension count); hence for the bases the
library ships orthonormality alone gives both round trips. -/
theorem density_vec_density_of_orthonormal (B : Basis K d (d * d)) (h : Orthonormal B)
    (rho : Mat K d d) : Complete B ∧ densitySparse B (vecOfDensityRaw B rho) = rho :=
  ⟨complete_of_orthonormal B h, density_vec_density B (complete_of_orthonormal B h) rho⟩

/-- linearity of both directions. -/
theorem state_conversions_linear (B : Basis K d n) (c : K) (u v : Vec K n) (r s : Mat K d d) :
    densitySparse B ((u.smul c).add v) = ((densitySparse B u).smul c).add (densitySparse B v) ∧
    vecOfDensityRaw B ((r.smul c).add s) = ((vecOfDensityRaw B r).smul c).add (vecOfDensityRaw B s) := by
  constructor
  · simp [densitySparse, mulVec_add, mulVec_smul, unflat_add, unflat_smul]
  · simp [vecOfDensityRaw, mulVec_add, mulVec_smul, flat_add, flat_smul]

/-! ## gate: HS <-> Choi -/

/-- the three implementations of HS → Choi (`to_choi_from_hs`, `_with_dict`, `_with_sparsity`) agree
and equal the defining formula `C = Σ_{αβ} HS_{αβ} B_α ⊗ conj(B_β)`; no hypothesis on the basis
(`0 < d`: `reduce` of an empty list raises). -/
theorem choi_variants_agree [DecidableEq K] (B : Basis K d (d * d)) (hs : Mat K (d * d) (d * d))
    (hd : 0 < d) :
    choiLoop B hs = some (choiSparse B hs) ∧ choiDict B hs = choiSparse B hs ∧
      ∀ i j, (choiSparse B hs).get i j
        = ∑ al, ∑ be, hs.get al be * ((B.get al).get (pdiv i) (pdiv j) * star ((B.get be).get (pmod i) (pmod j))) := by
  refine ⟨choiLoop_eq B hs hd, ?_, fun i j => choiSparse_get B hs i j⟩
  apply Mat.ext'; intro i j
  rw [choiDict_get, choiSparse_get]

/-- the plain and the sparse implementation of Choi → HS compute `tr((B_α ⊗ conj B_β)^† C)`
for every basis and every (also non-Hermitian) `C`. -/
theorem hsOfChoi_loop_eq_sparse (B : Basis K d (d * d)) (c : Mat K (d * d) (d * d)) :
    hsOfChoiLoopRaw B c = hsOfChoiSparseRaw B c := by
  apply Mat.ext'; intro al be
  rw [hsOfChoiLoopRaw_get, hsOfChoiSparseRaw_get]

/-- the dict implementation of Choi → HS (`coefficient * choi[j, i]`, no conjugate) agrees with
the other two **when the basis is Hermitian**. -/
theorem hsOfChoi_dict_eq_sparse [DecidableEq K] (B : Basis K d (d * d)) (hB : HermitianBasis B)
    (c : Mat K (d * d) (d * d)) :
    hsOfChoiDictRaw B c = hsOfChoiSparseRaw B c := by
  apply Mat.ext'; intro al be
  rw [hsOfChoiDictRaw_get, hsOfChoiSparseRaw_get, Finset.sum_comm]
  apply Finset.sum_congr rfl; intro i _
  apply Finset.sum_congr rfl; intro j _
  congr 1
  simp only [bbcEntry, conj_eq_star, star_mul', star_star]
  rw [hB al (pdiv j) (pdiv i), hB be (pmod i) (pmod j)]

/-- without Hermiticity the dict implementation is a *different* function: on the (orthonormal, not
Hermitian) computational basis of the 2×2 matrices and `C = E₀₁` it disagrees with the other two. The
property quantifies over Hermitian bases only, so this is a documented hypothesis, not a defect. -/
theorem hsOfChoi_dict_needs_hermitian :
    ∃ (B : Basis CRat 2 (2 * 2)) (c : Mat CRat (2 * 2) (2 * 2)), Orthonormal B ∧
      hsOfChoiDictRaw B c ≠ hsOfChoiSparseRaw B c := by
  refine ⟨compBasis 2 true, Mat.ofFn fun i j => if i.val = 0 ∧ j.val = 1 then 1 else 0,
    comp_orthonormal 2, ?_⟩
  decide +kernel

/-- round trip HS → Choi → HS is the identity for an orthonormal basis (all implementations, before
`truncate_hs`). -/
theorem hs_choi_hs (B : Basis K d (d * d)) (h : Orthonormal B) (hs : Mat K (d * d) (d * d)) :
    hsOfChoiSparseRaw B (choiSparse B hs) = hs ∧ hsOfChoiLoopRaw B (choiSparse B hs) = hs := by
  have key : hsOfChoiSparseRaw B (choiSparse B hs) = hs := by
    apply flat_injective
    apply Vec.toV_injective
    rw [toV_hsOfChoiSparseRaw_flat, toV_choiSparse_flat, Matrix.mulVec_mulVec, bbc_orthonormal B h,
      Matrix.one_mulVec]
  exact ⟨key, by rw [hsOfChoi_loop_eq_sparse]; exact key⟩

/-- round trip Choi → HS → Choi is the identity for an orthonormal basis of `d²` elements. -/
theorem choi_hs_choi (B : Basis K d (d * d)) (h : Orthonormal B) (c : Mat K (d * d) (d * d)) :
    choiSparse B (hsOfChoiSparseRaw B c) = c := by
  apply flat_injective
  apply Vec.toV_injective
  rw [toV_choiSparse_flat, toV_hsOfChoiSparseRaw_flat, Matrix.mulVec_mulVec, bbc_complete B h,
    Matrix.one_mulVec]

/-- both conversions are linear. -/
theorem choi_conversions_linear (B : Basis K d (d * d)) (a : K) (x y : Mat K (d * d) (d * d)) :
    choiSparse B ((x.smul a).add y) = ((choiSparse B x).smul a).add (choiSparse B y) ∧
    hsOfChoiSparseRaw B ((x.smul a).add y)
      = ((hsOfChoiSparseRaw B x).smul a).add (hsOfChoiSparseRaw B y) := by
  constructor
  · simp [choiSparse, mulVec_add, mulVec_smul, unflat_add, unflat_smul, flat_add, flat_smul]
  · simp [hsOfChoiSparseRaw, mulVec_add, mulVec_smul, unflat_add, unflat_smul, flat_add, flat_smul]

/-! ## variables <-> Choi (DESIGN §5-D3, repaired in /repo 15e40aa) -/

/-- `to_var_from_choi ∘ to_choi_from_var = id` for an orthonormal basis, both settings of
`on_para_eq_constraint` (values before `truncate_hs`; see `truncEntry_real`). A body that applies the
forward conversion instead (the former defect) fails this on `B0`, see `forward_is_not_inverse`. -/
theorem toVarFromChoi_roundtrip (B : Basis K d (d * d)) (h : Orthonormal B)
    (v : Vec K ((d * d) * (d * d))) (w : Vec K ((d * d - 1) * (d * d))) :
    toVarFromChoiFreeRaw B (toChoiFromVarFree B v) = v ∧
    toVarFromChoiEqRaw B (toChoiFromVarEq B w) = w := by
  constructor
  · simp [toVarFromChoiFreeRaw, toChoiFromVarFree, (hs_choi_hs B h (unflat v)).1]
  · simp only [toVarFromChoiEqRaw, toChoiFromVarEq, (hs_choi_hs B h (varToHsEq w)).1]
    apply Vec.ext'; intro x
    simp [hsToVarEq, varToHsEq]

/-- Hermitian orthonormal basis of the 2×2 matrices with Gaussian-rational entries:
`E₀₀, ((1+i)E₀₁+(1−i)E₁₀)/2, ((1−i)E₀₁+(1+i)E₁₀)/2, E₁₁`. -/
def B0 : Basis CRat 2 (2 * 2) := #v[
  #v[#v[⟨1, 0⟩, ⟨0, 0⟩], #v[⟨0, 0⟩, ⟨0, 0⟩]],
  #v[#v[⟨0, 0⟩, ⟨1/2, 1/2⟩], #v[⟨1/2, -1/2⟩, ⟨0, 0⟩]],
  #v[#v[⟨0, 0⟩, ⟨1/2, -1/2⟩], #v[⟨1/2, 1/2⟩, ⟨0, 0⟩]],
  #v[#v[⟨0, 0⟩, ⟨0, 0⟩], #v[⟨0, 0⟩, ⟨1, 0⟩]]]

theorem B0_orthonormal : Orthonormal B0 := by
  intro a b; revert a b; decide +kernel

theorem B0_hermitian : HermitianBasis B0 := by
  intro a i j; revert a i j; decide +kernel

/-- regression witness for the former defect D3: applying the *forward* conversion a second time is not
the inverse — on the orthonormal Hermitian basis `B0` and the variable vector `e₅` (HS = unit matrix `E₁₁`)
`flat (choiSparse B0 (choiSparse B0 (unflat v))) ≠ v`. -/
theorem forward_is_not_inverse :
    ¬ (∀ v : Vec CRat ((2 * 2) * (2 * 2)), flat (choiSparse B0 (toChoiFromVarFree B0 v)) = v) := by
  intro h
  have := h (Vec.ofFn fun x => if x.val = 5 then 1 else 0)
  revert this
  decide +kernel

/-- variables ↔ HS with the equality constraint: deleting the first row undoes inserting it. -/
theorem hsToVar_varToHs {n : Nat} (var : Vec K ((n - 1) * n)) : hsToVarEq (varToHsEq var) = var := by
  apply Vec.ext'; intro x
  simp [hsToVarEq, varToHsEq]

/-! ## POVM element access (DESIGN §5-D2, repaired in /repo da605d0) -/

/-- `Povm.matrix(i)` returns `Σ_a vecs[i]_a B_a` for every valid index and raises IndexError otherwise. -/
theorem povmMatrix_ok {d n : Nat} (B : Basis CRat d n) (vecs : List (Vec CRat n)) (i : Nat) :
    (∀ hi : i < vecs.length, povmMatrix B vecs i = .ok (densityLoop B vecs[i])) ∧
    (vecs.length ≤ i → povmMatrix B vecs i = .error .indexError) := by
  constructor
  · intro hi; simp [povmMatrix, hi]
  · intro hi; simp [povmMatrix, List.getElem?_eq_none hi]

/-- the alternative implementation `Povm.matrix_with_sparsity(i)` agrees with `Povm.matrix(i)` on every
index, valid or not (same element, same error). -/
theorem povm_matrix_variants_agree {d n : Nat} (B : Basis CRat d n) (vecs : List (Vec CRat n)) (i : Nat) :
    povmMatrixSparse B vecs i = povmMatrix B vecs i := by
  unfold povmMatrixSparse povmMatrix
  cases vecs[i]? with
  | none => rfl
  | some v =>
    have := (density_variants_agree B v).1
    simp only []
    rw [← this]

/-- tuple access of a tensor-product POVM: the multi-index is resolved to the **row-major** serial index
(first factor slowest: `(i, j) ↦ i·n₂ + j`, `(i, j, k) ↦ (i·n₂ + j)·n₃ + k`), out-of-range components and
tuples of the wrong length are errors, and `matrix_with_sparsity(tuple) = matrix(tuple)` on every input. -/
theorem povm_tuple_access {d n : Nat} (B : Basis CRat d n) (vecs : List (Vec CRat n)) (lens idx : List Nat) :
    povmMatrixSparseMd B vecs lens idx = povmMatrixMd B vecs lens idx ∧
    (∀ a b i j, i < a → j < b → mdSerial [a, b] [i, j] = .ok (i * b + j)) ∧
    (∀ a b c i j k, i < a → j < b → k < c → mdSerial [a, b, c] [i, j, k] = .ok ((i * b + j) * c + k)) ∧
    (lens.length ≠ idx.length → mdSerial lens idx = .error .lenMismatch) := by
  refine ⟨?_, ?_, ?_, ?_⟩
  · unfold povmMatrixSparseMd povmMatrixMd
    cases mdSerial lens idx with
    | error e => rfl
    | ok s => exact povm_matrix_variants_agree B vecs s
  · intro a b i j hi hj; simp [mdSerial, mdSerialAux, hi, hj]
  · intro a b c i j k hi hj hk; simp [mdSerial, mdSerialAux, hi, hj, hk]
  · intro h; simp [mdSerial, h]

/-- tuple access for ANY number of factors: when every component is in range the serial index is the row-major (Horner)
value `(((i₁·n₂ + i₂)·n₃ + i₃) …)`; an out-of-range component is an IndexError. -/
theorem mdSerial_general (lens idx : List Nat) (hlen : lens.length = idx.length) :
    ((∀ p ∈ lens.zip idx, p.2 < p.1) →
      mdSerial lens idx = .ok ((lens.zip idx).foldl (fun acc p => acc * p.1 + p.2) 0)) ∧
    ((∃ p ∈ lens.zip idx, ¬ p.2 < p.1) → mdSerial lens idx = .error .indexError) := by
  have key : ∀ (lens idx : List Nat) (acc : Nat), lens.length = idx.length →
      ((∀ p ∈ lens.zip idx, p.2 < p.1) →
        mdSerialAux lens idx acc = .ok ((lens.zip idx).foldl (fun acc p => acc * p.1 + p.2) acc)) ∧
      ((∃ p ∈ lens.zip idx, ¬ p.2 < p.1) → mdSerialAux lens idx acc = .error .indexError) := by
    intro lens
    induction lens with
    | nil =>
      intro idx acc hl
      cases idx with
      | nil => exact ⟨fun _ => rfl, fun ⟨p, hp, _⟩ => by simp at hp⟩
      | cons i is => simp at hl
    | cons l ls ih =>
      intro idx acc hl
      cases idx with
      | nil => simp at hl
      | cons i is =>
        have hl' : ls.length = is.length := by simpa using hl
        by_cases hi : i < l
        · obtain ⟨h1, h2⟩ := ih is (acc * l + i) hl'
          constructor
          · intro hall
            simp only [mdSerialAux, hi, if_true, List.zip_cons_cons, List.foldl_cons]
            exact h1 (fun p hp => hall p (by simp [hp]))
          · rintro ⟨p, hp, hbad⟩
            simp only [mdSerialAux, hi, if_true]
            simp only [List.zip_cons_cons, List.mem_cons] at hp
            rcases hp with rfl | hp
            · exact absurd hi hbad
            · exact h2 ⟨p, hp, hbad⟩
        · constructor
          · intro hall
            exact absurd (hall (l, i) (by simp)) hi
          · intro _
            simp [mdSerialAux, hi]
  unfold mdSerial
  rw [if_neg (by simpa using hlen)]
  exact key lens idx 0 hlen

/-! ## change of basis -/

/-- `convert_vec` re-expresses the same operator: `Σ_b w_b T_b = Σ_a v_a F_a` when the target
basis is complete. -/
theorem convertVec_same_operator (F T : Basis K d n) (hT : Complete T) (v : Vec K n) :
    densitySparse T (convertVec F T v) = densitySparse F v := by
  apply flat_injective
  apply Vec.toV_injective
  rw [toV_densitySparse_flat, toV_convertVec, toM_transU, toV_densitySparse_flat,
    Matrix.mulVec_mulVec, ← Matrix.mul_assoc, (complete_iff T).1 hT, Matrix.one_mul]

/-- `convert_vec` there and back is the identity (source orthonormal, target complete). -/
theorem convertVec_roundtrip (F T : Basis K d n) (hF : Orthonormal F) (hT : Complete T) (v : Vec K n) :
    convertVec T F (convertVec F T v) = v := by
  apply Vec.toV_injective
  rw [toV_convertVec, toV_convertVec, Matrix.mulVec_mulVec, transU_mul_transU F T hF hT,
    Matrix.one_mulVec]

/-- `convert_hs` there and back is the identity (source orthonormal, target complete). -/
theorem convertHs_roundtrip (F T : Basis K d n) (hF : Orthonormal F) (hT : Complete T) (hs : Mat K n n) :
    convertHs T F (convertHs F T hs) = hs := by
  apply Mat.toM_injective
  rw [toM_convertHs, toM_convertHs]
  have h := transU_mul_transU F T hF hT
  calc (transU T F).toM * ((transU F T).toM * hs.toM * (transU T F).toM) * (transU F T).toM
      = ((transU T F).toM * (transU F T).toM) * hs.toM * ((transU T F).toM * (transU F T).toM) := by
        simp only [Matrix.mul_assoc]
    _ = hs.toM := by rw [h]; simp

/-- `convert_vec` and `convert_hs` are linear. -/
theorem convert_linear (F T : Basis K d n) (c : K) (u v : Vec K n) (x y : Mat K n n) :
    convertVec F T ((u.smul c).add v) = ((convertVec F T u).smul c).add (convertVec F T v) ∧
    convertHs F T ((x.smul c).add y) = ((convertHs F T x).smul c).add (convertHs F T y) := by
  constructor
  · have e : ∀ w, convertVec F T w = (transU F T).mulVec w := fun _ => rfl
    simp [e, mulVec_add, mulVec_smul]
  · apply Mat.toM_injective
    simp [toM_convertHs, Matrix.mul_add, Matrix.add_mul]

/-- computational-basis form (`convert_to_comp_basis("row_major")`): the converted HS matrix is
`Mᵀ · HS · conj(M)` with `M` the stacked flattened basis, and it acts on the row-major flattened
matrix as the map itself: `hs_cb · vec(ρ) = vec(Σ_a (HS · vec_B(ρ))_a B_a)`. -/
theorem comp_basis_action (B : Basis K d (d * d)) (hs : Mat K (d * d) (d * d)) (rho : Mat K d d) :
    (convertHs B (compBasis d true) hs).mulVec (flat rho)
      = flat (densitySparse B (hs.mulVec (vecOfDensityRaw B rho))) := by
  apply Vec.toV_injective
  rw [Mat.toV_mulVec, toM_convertHs_toComp, toV_densitySparse_flat, Mat.toV_mulVec, toV_vecOfDensityRaw]
  simp only [Matrix.mulVec_mulVec, Matrix.mul_assoc]

/-- Kraus → HS (`to_hs_from_kraus_matrices` before truncation) is
`conj(M) · (Σ_K K ⊗ conj K) · Mᵀ`, i.e. the inverse change of basis of the computational-basis
form; converting it back gives `Σ_K K ⊗ conj K` for an orthonormal basis. -/
theorem hsOfKraus_comp (B : Basis K d (d * d)) (h : Orthonormal B) (ks : List (Mat K d d)) :
    convertHs B (compBasis d true) (hsOfKrausRaw B ks) = krausTensorSum ks := by
  unfold hsOfKrausRaw
  exact convertHs_roundtrip (compBasis d true) B (comp_orthonormal d) (complete_of_orthonormal B h) _

/-- for **every** basis the Choi matrix is the index reshuffle `(i₁i₂),(j₁j₂) ↦ (i₁j₁),(i₂j₂)` of the HS matrix
expressed in the row-major computational basis (the relation between `to_choi_*` and
`convert_to_comp_basis`). -/
theorem choi_eq_reshuffled_comp (B : Basis K d (d * d)) (hs : Mat K (d * d) (d * d)) (i j : Fin (d * d)) :
    (choiSparse B hs).get i j
      = (convertHs B (compBasis d true) hs).get (pidx (pdiv i) (pdiv j)) (pidx (pmod i) (pmod j)) := by
  rw [choiSparse_eq_reshuffle, ← toM_convertHs_toComp]; rfl

/-- defining formula through Kraus operators: for an orthonormal basis the Choi matrix of the HS matrix
built from Kraus operators is `Σ_K |K⟫⟪K|` with `|K⟫` the row-major flattening. -/
theorem choi_of_kraus (B : Basis K d (d * d)) (h : Orthonormal B) (ks : List (Mat K d d)) (i j : Fin (d * d)) :
    (choiSparse B (hsOfKrausRaw B ks)).get i j
      = (ks.map fun k => (flat k).get i * star ((flat k).get j)).sum := by
  rw [choi_eq_reshuffled_comp, hsOfKraus_comp B h, krausTensorSum_get]
  simp

/-- defining formula of Kraus → HS: for an orthonormal basis the HS matrix of `to_hs_from_kraus_matrices`
represents the channel `ρ ↦ Σ_K K ρ K^†` (coefficients in, coefficients out). -/
theorem kraus_hs_action (B : Basis K d (d * d)) (h : Orthonormal B) (ks : List (Mat K d d)) (rho : Mat K d d) :
    densitySparse B ((hsOfKrausRaw B ks).mulVec (vecOfDensityRaw B rho)) = krausApply ks rho := by
  apply flat_injective
  rw [← comp_basis_action, hsOfKraus_comp B h, krausTensorSum_action]

/-- process-matrix formula: for **every** basis `to_process_matrix_from_hs`
(`χ_{αβ} = tr((E_α^† ⊗ E_β^T) HS_cb)`) equals the Choi matrix; hence (orthonormal basis) for a map given by
Kraus operators `χ = Σ_K k k^†` with `k` the computational-basis coefficients of `K`, i.e.
`Λ(ρ) = Σ_{αβ} χ_{αβ} E_α ρ E_β^†`. -/
theorem processMatrix_eq_choi (B : Basis K d (d * d)) (hs : Mat K (d * d) (d * d)) :
    processMatrix B hs = choiSparse B hs := by
  apply Mat.ext'; intro al be
  rw [processMatrix_get, choi_eq_reshuffled_comp]

theorem processMatrix_of_kraus (B : Basis K d (d * d)) (h : Orthonormal B) (ks : List (Mat K d d))
    (al be : Fin (d * d)) :
    (processMatrix B (hsOfKrausRaw B ks)).get al be
      = (ks.map fun k => k.get (pdiv al) (pmod al) * star (k.get (pdiv be) (pmod be))).sum := by
  rw [processMatrix_eq_choi, choi_of_kraus B h]
  simp

/-- row- versus column-major computational basis: the column-major basis is the row-major one
permuted by the transpose permutation `σ(i·d+j) = j·d+i`, the column-major HS matrix is the row-major
one with rows and columns permuted by `σ`, and it acts on the **column-major** flattening
(`flatten('F')`) as the map itself. -/
theorem comp_basis_col_eq_row_permuted (B : Basis K d (d * d)) (hs : Mat K (d * d) (d * d))
    (rho : Mat K d d) :
    (∀ x, (compBasis d false : Basis K d (d * d)).get x = (compBasis d true : Basis K d (d * d)).get (swapIdx x)) ∧
    (∀ x y, (convertHs B (compBasis d false) hs).get x y
        = (convertHs B (compBasis d true) hs).get (swapIdx x) (swapIdx y)) ∧
    (convertHs B (compBasis d false) hs).mulVec (flatCol rho)
      = flatCol (densitySparse B (hs.mulVec (vecOfDensityRaw B rho))) := by
  have h2 : ∀ x y, (convertHs B (compBasis d false) hs).get x y
      = (convertHs B (compBasis d true) hs).get (swapIdx x) (swapIdx y) :=
    convertHs_reindex B (compBasis d true) (compBasis d false) swapIdx (compBasis_col_get d) hs
  refine ⟨compBasis_col_get d, h2, ?_⟩
  apply Vec.ext'; intro x
  rw [flatCol_get, ← comp_basis_action]
  simp only [Mat.mulVec, Vec.get_ofFn, fsum_eq_sum, h2, flatCol_get]
  exact sum_swapIdx (fun y => (convertHs B (compBasis d true) hs).get (swapIdx x) y * (flat rho).get y)

/-- HS → Kraus → HS, gauge-free form (**partial**): for an orthonormal basis, *any* list of operators whose
`Σ_K |K⟫⟪K|` equals the Choi matrix of `hs` (this is what `to_kraus_matrices_from_hs` builds from numpy's
`eigh`: `K_e = sqrt(λ_e)·unvec(v_e)` with `C = Σ_e λ_e v_e v_e^†`; phases, order and the choice of eigenvectors
do not matter) is mapped back to `hs` by `to_hs_from_kraus_matrices`.
Not proved here: that the executable `krausRaw` (zero-eigenvalue filter with threshold `atol`, stable
descending sort, phase convention) produces such a list — it does so only up to the dropped eigenvalues
`|λ| ≤ atol` and under the contract of `eigh`; this part is covered by the correspondence check and the
oracle (gauge invariant `Σ K ⊗ conj K`, count, order, phase). -/
theorem kraus_roundtrip_partial (B : Basis K d (d * d)) (h : Orthonormal B) (hs : Mat K (d * d) (d * d))
    (ks : List (Mat K d d))
    (hk : ∀ i j, (choiSparse B hs).get i j = (ks.map fun k => (flat k).get i * star ((flat k).get j)).sum) :
    hsOfKrausRaw B ks = hs := by
  have e : choiSparse B (hsOfKrausRaw B ks) = choiSparse B hs := by
    apply Mat.ext'; intro i j
    rw [choi_of_kraus B h, hk]
  have := congrArg (hsOfChoiSparseRaw B) e
  rwa [(hs_choi_hs B h _).1, (hs_choi_hs B h _).1] at this

/-- HS → Kraus → HS as a theorem about the executable `krausRaw` (zero-eigenvalue filter, stable descending
sort, scaling by `sqrt`), **under the explicit contract of numpy's kernels only**:
* `hspec`: the eigenpairs handed in reproduce the Choi matrix, `C = Σ_e λ_e v_e v_e^†` (orthonormality of
  the eigenvectors is *not* needed);
* `hsqrt`: `sqrtVal² = val` on the eigenvalues that pass the filter;
* `hzero`: eigenvalues inside the zero filter (`|λ| ≤ atolSettings`) are exactly 0 (exact arithmetic).
Then for a map that passes the CP verdict, `to_hs_from_kraus_matrices(to_kraus_matrices_from_hs(hs)) = hs`
(before `truncate_hs`).  `krausRaw` is the list before the phase convention of step 3; the complete function,
phase convention included, is `krausFull` / `kraus_full_roundtrip_exact_kernel` below. -/
theorem kraus_roundtrip_exact_kernel {d : Nat} (B : Basis CRat d (d * d)) (h : Orthonormal B)
    (hs : Mat CRat (d * d) (d * d)) (eigs : List (EigPair d)) (atol atolS : Rat)
    (hcp : isCp (choiSparse B hs) eigs atol = true)
    (hspec : ∀ i j, (choiSparse B hs).get i j
      = (eigs.map fun e => CRat.ofRat e.val * (e.vec.get i * conj (e.vec.get j))).sum)
    (hsqrt : ∀ e ∈ eigs, closeZero e.val atolS = false → e.sqrtVal * e.sqrtVal = e.val)
    (hzero : ∀ e ∈ eigs, closeZero e.val atolS = true → e.val = 0) :
    hsOfKrausRaw B (krausRaw B hs eigs atol atolS) = hs := by
  apply kraus_roundtrip_partial B h hs
  intro i j
  rw [krausRaw_sum B hs eigs atol atolS hcp hsqrt hzero i j, hspec i j]
  rfl

/-- a map that fails the CP verdict has no Kraus operators (`[]`). -/
theorem kraus_empty_of_not_cp {d : Nat} (B : Basis CRat d (d * d)) (hs : Mat CRat (d * d) (d * d))
    (eigs : List (EigPair d)) (atol atolS : Rat) (hcp : isCp (choiSparse B hs) eigs atol = false) :
    krausRaw B hs eigs atol atolS = [] := by
  simp [krausRaw, hcp]

/-! ## truncate_hs -/

/-- exact behaviour of `truncate_hs` on one entry: it raises iff the imaginary part is non-zero and
not below the threshold; otherwise it returns the real part, or 0 when that is below the threshold. -/
theorem truncEntry_spec (eps : Rat) (z : CRat) :
    (truncEntry eps z = .error .imagNonZero ↔ (¬ rabs z.im < eps ∧ z.im ≠ 0)) ∧
    (∀ r, truncEntry eps z = .ok r → (r = z.re ∧ ¬ rabs z.re < eps) ∨ (r = 0 ∧ rabs z.re < eps)) := by
  unfold truncEntry
  by_cases h1 : rabs z.im < eps <;> by_cases h2 : z.im = 0 <;> by_cases h3 : rabs z.re < eps <;>
    simp [h1, h2, h3]

/-- a matrix with real entries is never rejected, and entries at least `eps` in modulus are returned
unchanged (the list version is `truncList_ofRat`; the executed round trips are in the section "the EXECUTED conversions"). -/
theorem truncEntry_real (eps : Rat) (x : Rat) (hx : ¬ rabs x < eps) :
    truncEntry eps ⟨x, 0⟩ = .ok x := by
  simp [truncEntry, hx]

/-! ## the guard of `truncate_hs` inside the matrix → real-coefficient conversions -/

/-- `to_vec_from_density_matrix_with_sparsity` / `to_vec_from_matrix_with_sparsity` as executed: the call is
**accepted iff** every complex coefficient `c_a = vdot(B_a, ρ)` has imaginary part below the threshold or
exactly zero; otherwise it raises, and the only error is the "imaginary parts" ValueError. -/
theorem vecOfDensity_accepts_iff {d n : Nat} (eps : Rat) (B : Basis CRat d n) (rho : Mat CRat d d) :
    ((∃ r, vecOfDensity eps B rho = .ok r) ↔
      ∀ a, rabs ((vecOfDensityRaw B rho).get a).im < eps ∨ ((vecOfDensityRaw B rho).get a).im = 0) ∧
    (∀ e, vecOfDensity eps B rho = .error e → e = .imagNonZero) := by
  unfold vecOfDensity
  refine ⟨?_, fun e he => (truncList_error eps _ e he).1⟩
  rw [truncList_isOk_iff]
  constructor
  · intro h a; exact h _ ((mem_toList_iff_get _ _).2 ⟨a, rfl⟩)
  · intro h z hz
    obtain ⟨a, rfl⟩ := (mem_toList_iff_get _ _).1 hz
    exact h a

/-- accepted ⇒ the returned real vector is the coefficient vector up to the threshold: entry `a` is
`Re c_a`, or `0` when `|Re c_a| < eps` (fluctuation cut), and `|Im c_a| < eps` or `Im c_a = 0`. -/
theorem vecOfDensity_accepted_coeffs {d n : Nat} (eps : Rat) (B : Basis CRat d n) (rho : Mat CRat d d)
    (r : List Rat) (h : vecOfDensity eps B rho = .ok r) :
    r.length = n ∧ ∀ (a : Fin n) (ha : a.val < r.length),
      let c := (vecOfDensityRaw B rho).get a
      (rabs c.im < eps ∨ c.im = 0) ∧ ((r[a.val] = c.re ∧ ¬ rabs c.re < eps) ∨ (r[a.val] = 0 ∧ rabs c.re < eps)) := by
  unfold vecOfDensity at h
  obtain ⟨h1, h2⟩ := truncList_ok eps _ r h
  refine ⟨by simpa using h1, ?_⟩
  intro a ha
  have := h2 a.val (by simp) ha
  have e : (vecOfDensityRaw B rho).toList[a.val]'(by simp) = (vecOfDensityRaw B rho).get a := by
    simp [Vec.get]
  rw [e] at this
  exact truncEntry_ok eps _ _ this

/-- accepted with threshold 0 ⇒ **the result rebuilds the input**: the complex coefficient vector is exactly the
returned real vector, and for a complete basis `Σ_a r_a B_a = ρ`. -/
theorem vecOfDensity_accepted_rebuilds {d n : Nat} (B : Basis CRat d n) (hC : Complete B) (rho : Mat CRat d d)
    (r : List Rat) (h : vecOfDensity 0 B rho = .ok r) :
    ∃ v : Vec CRat n, (∀ (a : Fin n) (ha : a.val < r.length), v.get a = CRat.ofRat r[a.val]) ∧
      densitySparse B v = rho := by
  refine ⟨vecOfDensityRaw B rho, ?_, density_vec_density B hC rho⟩
  intro a ha
  obtain ⟨_, h2⟩ := vecOfDensity_accepted_coeffs 0 B rho r h
  obtain ⟨him, hre⟩ := h2 a ha
  have hn : ∀ x : Rat, ¬ rabs x < 0 := fun x hx => absurd (rabs_nonneg x) (not_le.2 hx)
  have him0 : ((vecOfDensityRaw B rho).get a).im = 0 := by
    rcases him with h' | h'
    · exact absurd h' (hn _)
    · exact h'
  rcases hre with ⟨h', _⟩ | ⟨_, h'⟩
  · apply CRat.ext' <;> simp [CRat.ofRat, h', him0]
  · exact absurd h' (hn _)

/-- a Hermitian matrix is never rejected (Hermitian basis, every threshold): its coefficients are real. -/
theorem vecOfDensity_hermitian_accepted {d n : Nat} (eps : Rat) (B : Basis CRat d n) (hB : HermitianBasis B)
    (rho : Mat CRat d d) (hr : IsHermitianMat rho) : ∃ r, vecOfDensity eps B rho = .ok r := by
  rw [(vecOfDensity_accepts_iff eps B rho).1]
  intro a
  exact Or.inr (CRat.im_eq_zero_of_star_eq _ (coeff_real_of_hermitian B hB rho hr a))

/-- **a non-Hermitian matrix is rejected, not converted into some other operator** (complete Hermitian basis,
threshold 0; with a threshold `eps` exactly the inputs with some `|Im c_a| ≥ eps` are rejected, see
`vecOfDensity_accepts_iff`). -/
theorem vecOfDensity_nonhermitian_rejected {d n : Nat} (B : Basis CRat d n) (hB : HermitianBasis B)
    (hC : Complete B) (rho : Mat CRat d d) (hr : ¬ IsHermitianMat rho) :
    vecOfDensity 0 B rho = .error .imagNonZero := by
  cases h : vecOfDensity 0 B rho with
  | error e => rw [(vecOfDensity_accepts_iff 0 B rho).2 e h]
  | ok r =>
    exfalso
    apply hr
    apply hermitian_of_coeff_real B hB hC rho
    intro a
    have := ((vecOfDensity_accepts_iff 0 B rho).1.1 ⟨r, h⟩) a
    have hn : ¬ rabs ((vecOfDensityRaw B rho).get a).im < 0 :=
      fun hx => absurd (rabs_nonneg _) (not_le.2 hx)
    rcases this with h' | h'
    · exact absurd h' hn
    · exact CRat.star_eq_of_im_eq_zero _ h'

/-- the same guard in `to_hs_from_choi_with_sparsity` / `_with_dict` as executed: accepted iff every entry of
the raw complex HS matrix has imaginary part below the threshold or zero; the only error is the ValueError. -/
theorem hsOfChoi_accepts_iff {d : Nat} (eps : Rat) (B : Basis CRat d (d * d)) (c : Mat CRat (d * d) (d * d)) :
    ((∃ r, hsOfChoiSparse eps B c = .ok r) ↔
      ∀ z ∈ matList (hsOfChoiSparseRaw B c), rabs z.im < eps ∨ z.im = 0) ∧
    ((∃ r, hsOfChoiDict eps B c = .ok r) ↔
      ∀ z ∈ matList (hsOfChoiDictRaw B c), rabs z.im < eps ∨ z.im = 0) ∧
    (∀ e, hsOfChoiSparse eps B c = .error e ∨ hsOfChoiDict eps B c = .error e → e = .imagNonZero) := by
  refine ⟨truncList_isOk_iff eps _, truncList_isOk_iff eps _, ?_⟩
  rintro e (h | h) <;> exact (truncList_error eps _ e h).1

/-! ## Kraus operators denote the same channel -/

/-- **HS → Kraus preserves the channel** (∀ d): under the explicit kernel contract `EighContract`, for a map
that passes the CP verdict, the operators `K_e` returned by the executable `krausRaw` satisfy
`Σ_e K_e ρ K_e^† = Λ(ρ)` for every matrix `ρ`, where `Λ` is the map denoted by `hs`
(coefficients of `ρ` in `B`, multiplied by `hs`, re-expanded in `B`); moreover Kraus → HS → Choi returns the
Choi matrix of `hs`, and Kraus → HS returns `hs`. -/
theorem kraus_channel_preserved_exact_kernel {d : Nat} (B : Basis CRat d (d * d)) (h : Orthonormal B)
    (hs : Mat CRat (d * d) (d * d)) (eigs : List (EigPair d)) (atol atolS : Rat)
    (hcp : isCp (choiSparse B hs) eigs atol = true) (hc : EighContract B hs eigs atolS) (rho : Mat CRat d d) :
    krausApply (krausRaw B hs eigs atol atolS) rho = densitySparse B (hs.mulVec (vecOfDensityRaw B rho)) ∧
    choiSparse B (hsOfKrausRaw B (krausRaw B hs eigs atol atolS)) = choiSparse B hs ∧
    hsOfKrausRaw B (krausRaw B hs eigs atol atolS) = hs := by
  have hrt := kraus_roundtrip_exact_kernel B h hs eigs atol atolS hcp hc.spec hc.sqrt_exact hc.filtered_zero
  refine ⟨?_, by rw [hrt], hrt⟩
  rw [← kraus_hs_action B h, hrt]

/-- **the complete `to_kraus_matrices_from_hs`** (`krausFull`: CP verdict, zero filter, stable descending sort,
`sqrt` scaling AND the phase convention of step 3 — first non-zero entry made non-negative in numpy's complex
order) under the explicit contracts of numpy's `eigh`, `sqrt` (`EighContract`) and `abs` (`AbsContract`):
Kraus → HS returns `hs`, and the returned operators act as the channel denoted by `hs`. -/
theorem kraus_full_roundtrip_exact_kernel {d : Nat} (B : Basis CRat d (d * d)) (h : Orthonormal B)
    (hs : Mat CRat (d * d) (d * d)) (eigs : List (EigPair d)) (atol atolS : Rat)
    (hcp : isCp (choiSparse B hs) eigs atol = true) (hc : EighContract B hs eigs atolS)
    (habs : AbsContract eigs) (rho : Mat CRat d d) :
    hsOfKrausRaw B (krausFull B hs eigs atol atolS) = hs ∧
    krausApply (krausFull B hs eigs atol atolS) rho = densitySparse B (hs.mulVec (vecOfDensityRaw B rho)) := by
  have hrt : hsOfKrausRaw B (krausFull B hs eigs atol atolS) = hs := by
    apply kraus_roundtrip_partial B h hs
    intro i j
    rw [krausFull_sum B hs eigs atol atolS habs i j,
      krausRaw_sum B hs eigs atol atolS hcp hc.sqrt_exact hc.filtered_zero i j, hc.spec i j]
    rfl
  exact ⟨hrt, by rw [← kraus_hs_action B h, hrt]⟩

/-- the phase convention of step 3 (each operator multiplied by a unit-modulus scalar) does not change
`Σ K ⊗ conj K`, hence neither the HS matrix nor the channel: Kraus-equivalence. -/
theorem kraus_phase_invariant (B : Basis K d (d * d)) (ps : List K) (ks : List (Mat K d d))
    (hp : ∀ p ∈ ps, p * star p = 1) (hlen : ps.length = ks.length) :
    krausTensorSum (phased ps ks) = krausTensorSum ks ∧ hsOfKrausRaw B (phased ps ks) = hsOfKrausRaw B ks := by
  have e : krausTensorSum (phased ps ks) = krausTensorSum ks := by
    apply Mat.ext'; intro x y
    rw [krausTensorSum_get, krausTensorSum_get, phased_sum ps ks hp hlen]
  exact ⟨e, by unfold hsOfKrausRaw; rw [e]⟩

/-! ## the EXECUTED conversions (through `truncate_hs`) on real data

The round trips above are about the values before `truncate_hs` (`…Raw`).  The functions the driver executes — and the
library's — end with `truncate_hs`, whose fluctuation cut maps every entry with `0 < |x| < eps` to `0`.  So the executed round
trips hold exactly on data whose entries are `0` or at least `eps` in modulus (hypothesis `hbig`), and FAIL otherwise
(`hs_choi_hs_executed_needs_threshold`). -/

/-- executed HS → Choi → HS, all three implementations: sparse and dict (Hermitian basis) through `truncate_hs`, the plain
loop through `.real`. -/
theorem hs_choi_hs_executed {d : Nat} (eps : Rat) (B : Basis CRat d (d * d)) (h : Orthonormal B)
    (hs : Mat Rat (d * d) (d * d)) (hbig : ∀ x ∈ matList hs, x = 0 ∨ ¬ rabs x < eps) :
    hsOfChoiSparse eps B (choiSparse B (ofRatMat hs)) = .ok (matList hs) ∧
    (HermitianBasis B → hsOfChoiDict eps B (choiSparse B (ofRatMat hs)) = .ok (matList hs)) ∧
    hsOfChoiLoop B (choiSparse B (ofRatMat hs)) = matList hs := by
  refine ⟨?_, ?_, ?_⟩
  · unfold hsOfChoiSparse
    rw [(hs_choi_hs B h _).1, matList_ofRatMat, truncList_ofRat eps _ hbig]
  · intro hB
    unfold hsOfChoiDict
    rw [hsOfChoi_dict_eq_sparse B hB, (hs_choi_hs B h _).1, matList_ofRatMat, truncList_ofRat eps _ hbig]
  · unfold hsOfChoiLoop
    rw [(hs_choi_hs B h _).2, matList_ofRatMat, realList_map_ofRat]

/-- the hypothesis `hbig` cannot be dropped: on the orthonormal Hermitian basis `B0`, with threshold `1/2`, the HS matrix with
the single entry `1/4` does NOT come back (the fluctuation cut zeroes it). -/
theorem hs_choi_hs_executed_needs_threshold :
    ∃ (hs : Mat Rat (2 * 2) (2 * 2)), hsOfChoiSparse (1 / 2) B0 (choiSparse B0 (ofRatMat hs)) ≠ .ok (matList hs) := by
  refine ⟨Mat.ofFn fun i j => if i.val = 1 ∧ j.val = 2 then 1 / 4 else 0, ?_⟩
  decide +kernel

/-- the three executed Choi → HS implementations on ANY input: whenever the guarded variants accept, each returned entry is
the plain loop's entry (`.real`, no guard), or `0` where that entry is below the threshold.  (On inputs the guard rejects
the loop variant still returns the real part: the variants agree on accepted inputs only.) -/
theorem hsOfChoi_executed_agree {d : Nat} (eps : Rat) (B : Basis CRat d (d * d)) (c : Mat CRat (d * d) (d * d))
    (r : List Rat) (h : hsOfChoiSparse eps B c = .ok r) :
    r.length = (hsOfChoiLoop B c).length ∧
    ∀ (k : Nat) (h1 : k < r.length) (h2 : k < (hsOfChoiLoop B c).length),
      r[k] = (hsOfChoiLoop B c)[k] ∨ (r[k] = 0 ∧ rabs (hsOfChoiLoop B c)[k] < eps) := by
  unfold hsOfChoiSparse at h
  obtain ⟨hl, hk⟩ := truncList_ok eps _ r h
  have hlen : (hsOfChoiLoop B c).length = (matList (hsOfChoiSparseRaw B c)).length := by
    simp [hsOfChoiLoop, realList, matList]
  refine ⟨by rw [hl, hlen], ?_⟩
  intro k h1 h2
  have h3 : k < (matList (hsOfChoiSparseRaw B c)).length := by rw [← hlen]; exact h2
  have e : (hsOfChoiLoop B c)[k] = ((matList (hsOfChoiSparseRaw B c))[k]).re := by
    simp [hsOfChoiLoop, realList, hsOfChoi_loop_eq_sparse]
  rw [e]
  rcases (truncEntry_ok eps _ _ (hk k h3 h1)).2 with ⟨h4, _⟩ | ⟨h4, h5⟩
  · exact Or.inl h4
  · exact Or.inr ⟨h4, h5⟩

/-- executed variables → Choi → variables (`to_var_from_choi ∘ to_choi_from_var`, the repaired D3 call site), both settings
of `on_para_eq_constraint`; with the flag on, `truncate_hs` also sees the inserted row `(1, 0, …)`, hence `eps ≤ 1`. -/
theorem toVarFromChoi_executed {d : Nat} (eps : Rat) (B : Basis CRat d (d * d)) (h : Orthonormal B)
    (v : Vec Rat ((d * d) * (d * d))) (w : Vec Rat ((d * d - 1) * (d * d)))
    (hv : ∀ x ∈ v.toList, x = 0 ∨ ¬ rabs x < eps) (hw : ∀ x ∈ w.toList, x = 0 ∨ ¬ rabs x < eps)
    (heps : ¬ rabs (1 : Rat) < eps) :
    toVarFromChoi eps B (toChoiFromVarFree B (ofRatVec v)) false = .ok v.toList ∧
    toVarFromChoi eps B (toChoiFromVarEq B (ofRatVec w)) true = .ok w.toList := by
  constructor
  · unfold toVarFromChoi toChoiFromVarFree
    have e : matList (unflat v : Mat Rat (d * d) (d * d)) = v.toList := by simp [matList]
    rw [unflat_ofRatVec, (hs_choi_hs B h _).1, matList_ofRatMat, truncList_ofRat eps _ (by rw [e]; exact hv), e]
    rfl
  · unfold toVarFromChoi toChoiFromVarEq
    have hbig : ∀ x ∈ matList (varToHsEq w), x = 0 ∨ ¬ rabs x < eps := by
      intro x hx
      obtain ⟨a, rfl⟩ := (mem_toList_iff_get _ _).1 hx
      simp only [flat_get, varToHsEq, Mat.get_ofFn]
      split
      · split
        · exact Or.inr heps
        · exact Or.inl rfl
      · exact hw _ ((mem_toList_iff_get _ _).2 ⟨_, rfl⟩)
    have hback : hsToVarEq (varToHsEq w) = w := by
      apply Vec.ext'; intro x; simp [hsToVarEq, varToHsEq]
    rw [varToHsEq_ofRat, (hs_choi_hs B h _).1, matList_ofRatMat, truncList_ofRat eps _ hbig]
    simp only [bind, Except.bind, pure, Except.pure, if_true]
    rw [matList_drop_eq, hback]

/-- executed vec → matrix → vec for states / POVM elements, and `to_var_from_density_matrix` with both flags
(`np.delete(vec, 0)` when the flag is on). -/
theorem vec_density_vec_executed {d n : Nat} (eps : Rat) (B : Basis CRat d n) (h : Orthonormal B) (v : Vec Rat n)
    (hv : ∀ x ∈ v.toList, x = 0 ∨ ¬ rabs x < eps) :
    vecOfDensity eps B (densitySparse B (ofRatVec v)) = .ok v.toList ∧
    toVarFromDensity eps B (densitySparse B (ofRatVec v)) false = .ok v.toList ∧
    toVarFromDensity eps B (densitySparse B (ofRatVec v)) true = .ok (v.toList.drop 1) := by
  have e : vecOfDensity eps B (densitySparse B (ofRatVec v)) = .ok v.toList := by
    unfold vecOfDensity
    rw [(vec_density_vec B h _).1, toList_ofRatVec, truncList_ofRat eps _ hv]
  refine ⟨e, ?_, ?_⟩ <;> simp [toVarFromDensity, e, bind, Except.bind, pure, Except.pure]

/-- executed `to_var_from_matrices ∘ to_matrices_from_vecs`: one `truncate_hs` per element, the last element dropped when
`on_para_eq_constraint`, then stacked. -/
theorem toVarFromMatrices_executed {d n : Nat} (eps : Rat) (B : Basis CRat d n) (h : Orthonormal B) (vs : List (Vec Rat n))
    (hv : ∀ v ∈ vs, ∀ x ∈ v.toList, x = 0 ∨ ¬ rabs x < eps) (onEq : Bool) :
    toVarFromMatrices eps B (vs.map fun v => densitySparse B (ofRatVec v)) onEq
      = .ok (((if onEq then vs.dropLast else vs).map fun v => v.toList).flatMap id) := by
  have hm : ∀ (l : List (Vec Rat n)), (∀ v ∈ l, ∀ x ∈ v.toList, x = 0 ∨ ¬ rabs x < eps) →
      (l.map fun v => densitySparse B (ofRatVec v)).mapM (vecOfDensity eps B) = .ok (l.map fun v => v.toList) := by
    intro l
    induction l with
    | nil => intro _; rfl
    | cons a l ih =>
      intro hl
      rw [List.map_cons, List.mapM_cons, (vec_density_vec_executed eps B h a (hl a (by simp))).1,
        ih (fun v hv' => hl v (by simp [hv']))]
      rfl
  unfold toVarFromMatrices
  rw [hm vs hv]
  cases onEq <;> simp [bind, Except.bind, pure, Except.pure, List.map_dropLast]

/-- executed Kraus → HS: when the untruncated HS matrix is the real matrix `hs` (entries 0 or ≥ eps), the executed
`to_hs_from_kraus_matrices` returns it; in particular (exact kernels) for the list produced by the complete
`to_kraus_matrices_from_hs`: HS → Kraus → HS as executed. -/
theorem hsOfKraus_executed {d : Nat} (eps : Rat) (B : Basis CRat d (d * d)) (ks : List (Mat CRat d d))
    (hs : Mat Rat (d * d) (d * d)) (hne : ks ≠ []) (hraw : hsOfKrausRaw B ks = ofRatMat hs)
    (hbig : ∀ x ∈ matList hs, x = 0 ∨ ¬ rabs x < eps) :
    hsOfKraus eps B ks = .ok (matList hs) := by
  unfold hsOfKraus
  have : ks.isEmpty = false := by cases ks <;> simp_all
  rw [this, hraw, matList_ofRatMat, truncList_ofRat eps _ hbig]
  rfl

theorem hs_kraus_hs_executed_exact_kernel {d : Nat} (eps : Rat) (B : Basis CRat d (d * d)) (h : Orthonormal B)
    (hs : Mat Rat (d * d) (d * d)) (eigs : List (EigPair d)) (atol atolS : Rat)
    (hcp : isCp (choiSparse B (ofRatMat hs)) eigs atol = true) (hc : EighContract B (ofRatMat hs) eigs atolS)
    (habs : AbsContract eigs) (hne : krausFull B (ofRatMat hs) eigs atol atolS ≠ [])
    (hbig : ∀ x ∈ matList hs, x = 0 ∨ ¬ rabs x < eps) :
    hsOfKraus eps B (krausFull B (ofRatMat hs) eigs atol atolS) = .ok (matList hs) :=
  hsOfKraus_executed eps B _ hs hne
    (kraus_full_roundtrip_exact_kernel B h (ofRatMat hs) eigs atol atolS hcp hc habs (Mat.zero)).1 hbig

/-! ## Kraus round trip without kernel contracts: the deviation IS the Choi residual -/

/-- for ANY list of operators (e.g. what floating-point `eigh` / `sqrt` / `abs` actually produce — no exactness assumed):
Kraus → HS is Choi → HS of `Σ_K |K⟫⟪K|`; hence the deviation of HS → Kraus → HS from `hs` is the image of the Choi residual
`R = Σ_K |K⟫⟪K| − C(hs)` under the (norm-preserving) Choi → HS map: `‖HS(Kraus) − hs‖_F = ‖R‖_F` exactly.  `R` collects the
eigh residual, the dropped eigenvalues `|λ| ≤ atol`, the rounding of `sqrt` and a non-unit phase modulus.  With exact kernels
`R = 0` (`kraus_full_roundtrip_exact_kernel`). -/
theorem kraus_roundtrip_residual (B : Basis K d (d * d)) (h : Orthonormal B) (hs : Mat K (d * d) (d * d))
    (ks : List (Mat K d d)) :
    hsOfKrausRaw B ks = hsOfChoiSparseRaw B (choiOfKraus ks) ∧
    (hsOfKrausRaw B ks).sub hs = hsOfChoiSparseRaw B ((choiOfKraus ks).sub (choiSparse B hs)) ∧
    frobSq ((hsOfKrausRaw B ks).sub hs) = frobSq ((choiOfKraus ks).sub (choiSparse B hs)) := by
  have e : choiSparse B (hsOfKrausRaw B ks) = choiOfKraus ks := by
    apply Mat.ext'; intro i j
    rw [choi_of_kraus B h]; simp [choiOfKraus]
  have e1 : hsOfKrausRaw B ks = hsOfChoiSparseRaw B (choiOfKraus ks) := by
    rw [← e, (hs_choi_hs B h _).1]
  have e2 : (hsOfKrausRaw B ks).sub hs = hsOfChoiSparseRaw B ((choiOfKraus ks).sub (choiSparse B hs)) := by
    rw [hsOfChoiSparseRaw_sub, ← e1, (hs_choi_hs B h hs).1]
  exact ⟨e1, e2, by rw [e2, frobSq_hsOfChoi B h]⟩

/-! ## composition of basis changes, column-major round trip, linearity of the process matrix, Hermiticity -/

/-- `convert_hs` / `convert_vec` compose: going `F → T → S` is going `F → S` when the intermediate basis is complete
(e.g. basis → computational basis → another basis). -/
theorem convert_comp {n : Nat} (F T S : Basis K d n) (hT : Complete T) (hs : Mat K n n) (v : Vec K n) :
    convertHs T S (convertHs F T hs) = convertHs F S hs ∧ convertVec T S (convertVec F T v) = convertVec F S v := by
  constructor
  · apply Mat.toM_injective
    rw [toM_convertHs, toM_convertHs, toM_convertHs]
    calc (transU T S).toM * ((transU F T).toM * hs.toM * (transU T F).toM) * (transU S T).toM
        = ((transU T S).toM * (transU F T).toM) * hs.toM * ((transU T F).toM * (transU S T).toM) := by
          simp only [Matrix.mul_assoc]
      _ = _ := by rw [transU_comp F T S hT, transU_comp S T F hT]
  · apply Vec.toV_injective
    rw [toV_convertVec, toV_convertVec, toV_convertVec, Matrix.mulVec_mulVec, transU_comp F T S hT]

/-- the COLUMN-major computational basis is orthonormal too, so `convert_to_comp_basis("column_major")` followed by
`convert_hs(·, comp_basis("column_major"), basis)` is the identity for an orthonormal basis (as for row-major). -/
theorem comp_col_roundtrip (B : Basis K d (d * d)) (h : Orthonormal B) (hs : Mat K (d * d) (d * d)) (rm : Bool) :
    Orthonormal (compBasis d rm : Basis K d (d * d)) ∧
    convertHs (compBasis d rm) B (convertHs B (compBasis d rm) hs) = hs := by
  have ho : Orthonormal (compBasis d rm : Basis K d (d * d)) := by
    cases rm
    · exact comp_col_orthonormal d
    · exact comp_orthonormal d
  exact ⟨ho, convertHs_roundtrip B (compBasis d rm) h (complete_of_orthonormal _ ho) hs⟩

/-- `to_process_matrix_from_hs` is linear (it is the Choi matrix). -/
theorem processMatrix_linear (B : Basis K d (d * d)) (a : K) (x y : Mat K (d * d) (d * d)) :
    processMatrix B ((x.smul a).add y) = ((processMatrix B x).smul a).add (processMatrix B y) := by
  rw [processMatrix_eq_choi, processMatrix_eq_choi, processMatrix_eq_choi, (choi_conversions_linear B a x y).1]

/-- Hermiticity is carried both ways for a Hermitian basis: a real (self-conjugate) HS matrix has a Hermitian Choi matrix,
and a Hermitian Choi matrix has a real HS matrix — so on Hermitian Choi matrices the guard of `truncate_hs` inside
`to_hs_from_choi_with_sparsity` / `_with_dict` never fires. -/
theorem choi_hermitian_iff_hs_real (B : Basis K d (d * d)) (hB : HermitianBasis B) (hs c : Mat K (d * d) (d * d)) :
    ((∀ al be, star (hs.get al be) = hs.get al be) → IsHermitianMat (choiSparse B hs)) ∧
    (IsHermitianMat c → ∀ al be, star ((hsOfChoiSparseRaw B c).get al be) = (hsOfChoiSparseRaw B c).get al be) := by
  constructor
  · intro hr i j
    rw [choiSparse_get, choiSparse_get, star_sum]
    apply Finset.sum_congr rfl; intro al _
    rw [star_sum]
    apply Finset.sum_congr rfl; intro be _
    rw [star_mul', hr al be, bbcEntry_hermitian B hB]
  · intro hc al be
    rw [hsOfChoiSparseRaw_get, star_sum]
    simp only [star_sum, star_mul', star_star]
    rw [Finset.sum_comm]
    apply Finset.sum_congr rfl; intro i _
    apply Finset.sum_congr rfl; intro j _
    rw [← bbcEntry_hermitian B hB al be j i, hc i j]

/-- Kraus → HS as executed NEVER raises on a Hermitian orthonormal basis (any threshold, any non-empty operator list): the HS
matrix of `Σ K ⊗ conj K` has real entries, so `truncate_hs` has nothing to reject. -/
theorem hsOfKraus_never_rejected {d : Nat} (eps : Rat) (B : Basis CRat d (d * d)) (h : Orthonormal B) (hB : HermitianBasis B)
    (ks : List (Mat CRat d d)) (hne : ks ≠ []) : ∃ r, hsOfKraus eps B ks = .ok r := by
  unfold hsOfKraus
  have hemp : ks.isEmpty = false := by cases ks <;> simp_all
  rw [hemp]
  simp only [Bool.false_eq_true, if_false]
  rw [truncList_isOk_iff]
  intro z hz
  obtain ⟨x, rfl⟩ := (mem_toList_iff_get _ _).1 hz
  right
  apply CRat.im_eq_zero_of_star_eq
  rw [flat_get, (kraus_roundtrip_residual B h Mat.zero ks).1]
  apply (choi_hermitian_iff_hs_real B hB Mat.zero (choiOfKraus ks)).2
  intro i j
  simp only [choiOfKraus, Mat.get_ofFn]
  have hsum : ∀ l : List (Mat CRat d d),
      star ((l.map fun k => (flat k).get j * star ((flat k).get i)).sum)
        = (l.map fun k => (flat k).get i * star ((flat k).get j)).sum := by
    intro l
    induction l with
    | nil => simp
    | cons a l ih =>
      rw [List.map_cons, List.sum_cons, star_add, ih, List.map_cons, List.sum_cons, star_mul', star_star, mul_comm]
  exact hsum ks

/-! ## tie to the source: the model is built from the terms GENERATED from quara's code (lean/QGen/C02.lean)

`harness/c02gen.py` locates each decisive expression of the conversion code in the working tree (index order,
operand order, conjugation, transposition, flattening, guard conditions, callees) and translates it to a term
over the model's matrix operations.  The theorems below state that the hand-written model is made of exactly
these generated terms; a source edit at such a site changes `QGen.C02.*` and breaks the theorem (or, outside the
translatable grammar, makes the generator fail loudly). -/

/-- HS → Choi: the loop body `hs[alpha][beta] * bb`, `bb = B_α ⊗ conj(B_β)`; the dict body
`choi[i, j] += hs[alpha, beta] * coefficient` with coefficients read from the same Kronecker product. -/
theorem gen_choi_forward [DecidableEq K] (B : Basis K d (d * d)) (hs : Mat K (d * d) (d * d)) (i j al be : Fin (d * d)) :
    choiLoop B hs = reduceAdd ((pairs (d * d)).map fun p =>
        QGen.C02.choiLoopTerm hs (QGen.C02.bbc_dense B p.1 p.2) p.1 p.2) ∧
    (choiDict B hs).get i j
      = (dictHsToChoi B i j).foldl (fun acc t => acc + QGen.C02.choiDictTerm hs t.1 t.2.1 t.2.2) 0 ∧
    bbcEntry B al be i j = (QGen.C02.bbc_dictFwd B al be).get i j := by
  refine ⟨rfl, by simp [choiDict, QGen.C02.choiDictTerm], ?_⟩
  rw [← bbc_get]; rfl

/-- Choi → HS: the loop entry `(np.conjugate(b_bc.T) @ choi).diagonal().sum()`, the dict body
`hs[alpha, beta] += coefficient * choi[j, i]` (transposed index, no conjugate). -/
theorem gen_choi_inverse [DecidableEq K] (B : Basis K d (d * d)) (c : Mat K (d * d) (d * d)) (i j al be : Fin (d * d)) :
    (hsOfChoiLoopRaw B c).get al be = QGen.C02.hsLoopEntry (QGen.C02.bbc_dense B al be) c ∧
    (hsOfChoiDictRaw B c).get al be
      = (dictChoiToHs B al be).foldl (fun acc t => acc + QGen.C02.hsDictTerm c t.1 t.2.1 t.2.2) 0 ∧
    bbcEntry B al be i j = (QGen.C02.bbc_dictInv B al be).get i j := by
  refine ⟨?_, by simp [hsOfChoiDictRaw, QGen.C02.hsDictTerm], ?_⟩
  · simp only [hsOfChoiLoopRaw, Mat.get_ofFn, QGen.C02.hsLoopEntry, conjM_transpose]; rfl
  · rw [← bbc_get]; rfl

/-- the sparse tables: row `(α, β)` is the row-major flattening of `sparse.kron(B_α, conj B_β)` of length
`element_size = d ** 2 ** 2`; the forward table is its transpose, the inverse table its conjugate; the product is
reshaped to `(dim², dim²)`; the state tables have rows `flatten(B_a)` and `flatten(B_a.conjugate())`. -/
theorem gen_sparse_tables (B : Basis K d (d * d)) (x y : Fin ((d * d) * (d * d))) {n : Nat} (Bn : Basis K d n)
    (a : Fin n) (z : Fin (d * d)) :
    (bbcT B).get x y = (flat (QGen.C02.bbc_sparse B (pdiv y) (pmod y))).get x ∧
    (bbcConj B).get y x = conj ((flat (QGen.C02.bbc_sparse B (pdiv y) (pmod y))).get x) ∧
    QGen.C02.elementSize d = (d * d) * (d * d) ∧ QGen.C02.choiShape d = (d * d, d * d) ∧
    (basisT Bn).get z a = (QGen.C02.basisRow (Bn.get a)).get z ∧
    (basisConj Bn).get a z = (QGen.C02.basisConjRow (Bn.get a)).get z := by
  refine ⟨?_, ?_, ?_, ?_, ?_, ?_⟩
  · simp only [bbcT, Mat.get_ofFn, flat_get, ← bbc_get]; rfl
  · simp only [bbcConj, Mat.get_ofFn, flat_get, ← bbc_get]; rfl
  · simp only [QGen.C02.elementSize]; ring
  · simp only [QGen.C02.choiShape, Prod.mk.injEq]; constructor <;> ring
  · simp [basisT, QGen.C02.basisRow]
  · simp [basisConj, QGen.C02.basisConjRow, conjM]

/-- change of basis: `U[a, b] = vdot(to_a, from_b)` (product over `(to_basis, from_basis)`),
`to_hs = U @ from_hs @ U.conj().T`, `converted_vec = rep_mat @ from_vec`; `mutil.vdot` is `np.vdot(a, b)` and
`mutil.flatten` is `matrix.flatten()`. -/
theorem gen_basis_change {n : Nat} (F T : Basis K d n) (hs : Mat K n n) (v : Vec K n) (A C : Mat K d d) :
    convertHs F T hs = QGen.C02.convertHsFormula (QGen.C02.convertHsU F T) hs ∧
    convertVec F T v = QGen.C02.convertVecFormula (QGen.C02.convertVecRep F T) v ∧
    QGen.C02.mutilVdot A C = vdot A C ∧ QGen.C02.mutilFlatten A = flat A := by
  refine ⟨?_, rfl, rfl, rfl⟩
  simp only [convertHs, QGen.C02.convertHsFormula, transpose_conjM]; rfl

/-- Kraus → HS sums `np.kron(mat, mat.conjugate())`; the process-matrix entry is
`(kron(B_alpha.conj().T, B_beta.T) @ hs_comp).diagonal().sum()` on the row-major computational basis. -/
theorem gen_kraus_process (B : Basis K d (d * d)) (hs : Mat K (d * d) (d * d)) (ks : List (Mat K d d))
    (al be : Fin (d * d)) :
    krausTensorSum ks = ks.foldl (fun acc k => acc.add (QGen.C02.krausTensorTerm k)) Mat.zero ∧
    (processMatrix B hs).get al be
      = QGen.C02.processEntry ((compBasis d true : Basis K d (d * d)).get al) ((compBasis d true : Basis K d (d * d)).get be)
          (convertHs B (compBasis d true) hs) := by
  refine ⟨rfl, ?_⟩
  simp only [processMatrix, Mat.get_ofFn, QGen.C02.processEntry, transpose_conjM]

/-- `get_comp_basis`: the element built at loop step `(outer, inner)` has its 1 at the generated position
(row-major: `(outer, inner)`, column-major: `(inner, outer)`). -/
theorem gen_comp_basis (rm : Bool) (x : Fin (d * d)) (i j : Fin d) :
    ((compBasis d rm : Basis K d (d * d)).get x).get i j
      = if (i.val, j.val) = QGen.C02.compEntry rm (pdiv x).val (pmod x).val then 1 else 0 := by
  cases rm <;> simp [compBasis, eMat_get, QGen.C02.compEntry, Fin.ext_iff]

/-- `truncate_hs`: the model's entry function is the generated guard / raise / `.real` / fluctuation-cut skeleton
with the generated conditions `np.abs(matrix.imag) < eps` and `np.abs(matrix) < eps`. -/
theorem gen_truncate (eps : Rat) (z : CRat) : truncEntry eps z = QGen.C02.truncEntryGen eps z := by
  unfold truncEntry QGen.C02.truncEntryGen QGen.C02.truncImagCond QGen.C02.truncFluctCond
  by_cases h1 : rabs z.im < eps <;> by_cases h3 : rabs z.re < eps <;> simp [h1, h3]

/-- the variable ↔ Choi glue calls what the source calls (D3 site): `to_var_from_choi` = `convert_hs_to_var` of the GENERATED
callee applied to the Choi matrix (`to_hs_from_choi_with_sparsity`, the inverse conversion), also as executed through
`truncate_hs`; `to_choi_from_var` = the generated forward callee on `convert_var_to_hs(var)`.  If the source called the forward
conversion again (the former defect), `QGen.C02.toVarFromChoiHs` would be `choiSparse` and this theorem would fail. -/
theorem gen_callees (B : Basis K d (d * d)) (c : Mat K (d * d) (d * d)) (v : Vec K ((d * d) * (d * d)))
    (w : Vec K ((d * d - 1) * (d * d))) :
    toVarFromChoiFreeRaw B c = flat (QGen.C02.toVarFromChoiHs B c) ∧
    toVarFromChoiEqRaw B c = hsToVarEq (QGen.C02.toVarFromChoiHs B c) ∧
    toChoiFromVarFree B v = QGen.C02.toChoiFromVarChoi B (unflat v) ∧
    toChoiFromVarEq B w = QGen.C02.toChoiFromVarChoi B (varToHsEq w) := ⟨rfl, rfl, rfl, rfl⟩

theorem gen_callees_executed {d : Nat} (eps : Rat) (B : Basis CRat d (d * d)) (c : Mat CRat (d * d) (d * d)) (onEq : Bool) :
    toVarFromChoi eps B c onEq
      = (truncList eps (matList (QGen.C02.toVarFromChoiHs B c))).map fun l => if onEq then l.drop (d * d) else l := by
  unfold toVarFromChoi QGen.C02.toVarFromChoiHs
  cases truncList eps (matList (hsOfChoiSparseRaw B c)) <;> rfl

/-- coefficient vector ↔ matrix: the sparse forms are the generated `basis_T_sparse.dot(vec).reshape((dim, dim))` /
`basisconjugate_sparse.dot(flatten(M))` (state.py and povm.py, incl. the repaired `Povm.matrix_with_sparsity`, D2 site), the
dense loops of `State.to_density_matrix`, `Povm.matrices`, `Povm.matrix` fold the generated body `acc += coefficient * basis`. -/
theorem gen_vec_matrix {n : Nat} (B : Basis K d n) (v : Vec K n) (rho : Mat K d d) :
    densitySparse B v = QGen.C02.densitySparseTerm B v ∧ densitySparse B v = QGen.C02.povmMatrixSparseTerm B v ∧
    vecOfDensityRaw B rho = QGen.C02.vecOfDensityTerm B rho ∧ vecOfDensityRaw B rho = QGen.C02.povmVecOfMatrixTerm B rho ∧
    densityLoop B v = (List.finRange n).foldl (fun acc a => QGen.C02.densityLoopTerm acc (v.get a) (B.get a)) Mat.zero ∧
    densityLoop B v = (List.finRange n).foldl (fun acc a => QGen.C02.povmMatricesLoopTerm acc (v.get a) (B.get a)) Mat.zero ∧
    densityLoop B v = (List.finRange n).foldl (fun acc a => QGen.C02.povmMatrixLoopTerm acc (v.get a) (B.get a)) Mat.zero :=
  ⟨rfl, rfl, rfl, rfl, rfl, rfl, rfl⟩

/-- `matrix_basis.calc_matrix_expansion_coefficient` computes `np.trace(np.conjugate(np.transpose(bi)) @ from_mat)` per basis element,
`calc_mat_from_coefficient_basis` folds `mat += ci * bi`: the generated terms are the model's coefficient vector / dense loop
(so these helpers are the vec ↔ matrix conversions of the theorems above, for ANY basis, Hermitian or not). -/
theorem gen_expansion_helpers {n : Nat} (B : Basis K d n) (rho : Mat K d d) (v : Vec K n) (a : Fin n) :
    (vecOfDensityRaw B rho).get a = QGen.C02.expansionCoeff (B.get a) rho ∧
    densityLoop B v = (List.finRange n).foldl (fun acc a => QGen.C02.matFromCoeffTerm acc (v.get a) (B.get a)) Mat.zero := by
  refine ⟨?_, rfl⟩
  rw [(vecOfDensity_formula B rho a).1, (vecOfDensity_formula B rho a).2]
  simp only [QGen.C02.expansionCoeff, conjM_transpose]

/-- the parameter checks of `convert_hs` / `convert_vec` are the generated `if … : raise ValueError` chains, in source order. -/
theorem gen_convert_checks :
    convertHsChecks = QGen.C02.convertHsChecksGen ∧ convertVecChecks = QGen.C02.convertVecChecksGen := ⟨rfl, rfl⟩

/-- `to_kraus_matrices_from_hs` is assembled from the generated pieces: the CP verdict (`is_cp` =
`is_positive_semidefinite` of the sparse Choi matrix: Hermitian test, close-to-zero eigenvalues deleted, the rest `>= 0`), the
zero filter `not np.isclose(λ, 0, atol=Settings.get_atol())`, `sorted(…, key=λ, reverse=True)`, the scaling
`np.sqrt(λ) * v.reshape((dim, dim))`; `krausFull` adds the generated phase step (first non-zero entry, `value < 0` in numpy's
complex order, `1 / (value / abs(value)) * k`, the loop's `else`) on each. -/
theorem gen_kraus_extraction {d : Nat} (B : Basis CRat d (d * d)) (hs : Mat CRat (d * d) (d * d)) (eigs : List (EigPair d))
    (atol atolS : Rat) :
    isCp (choiSparse B hs) eigs atol = QGen.C02.isCpGen (QGen.C02.toChoiFromVarChoi B hs) eigs atol ∧
    krausRaw B hs eigs atol atolS
      = (if !QGen.C02.isCpGen (choiSparse B hs) eigs atol then []
         else (QGen.C02.krausSort (eigs.filter (QGen.C02.krausKeep atolS))).map QGen.C02.krausScale) ∧
    krausFull B hs eigs atol atolS
      = (if !QGen.C02.isCpGen (choiSparse B hs) eigs atol then []
         else (QGen.C02.krausSort (eigs.filter (QGen.C02.krausKeep atolS))).map
            fun e => QGen.C02.phaseFixGen (QGen.C02.krausScale e) e.absScaled) ∧
    (∀ (k : Mat CRat d d) (a : Vec Rat (d * d)), phaseFactor k a = QGen.C02.phaseFactorGen k a ∧ phaseFix k a = QGen.C02.phaseFixGen k a) :=
  ⟨rfl, rfl, rfl, fun _ _ => ⟨rfl, rfl⟩⟩

/-- `convert_var_to_hs(…, True)` inserts the row `np.eye(1, dim²)` at the generated index (0) and shifts every other row down;
`convert_hs_to_var(…, True)` deletes the row with the generated index (0). -/
theorem gen_var_rows {n : Nat} (var : Vec K ((n - 1) * n)) (hs : Mat K n n) :
    (∀ (i j : Fin n), i.val = QGen.C02.varRowIndex → (varToHsEq var).get i j = if j.val = 0 then 1 else 0) ∧
    (∀ (i j : Fin n) (_ : i.val ≠ QGen.C02.varRowIndex) (hb : i.val - 1 < n - 1),
      (varToHsEq var).get i j = var.get (pidx ⟨i.val - 1, hb⟩ j)) ∧
    (∀ x, (hsToVarEq hs).get x
      = hs.get ⟨(pdiv x).val + (QGen.C02.varRowDeleted + 1), by have := (pdiv x).isLt; simp [QGen.C02.varRowDeleted]; omega⟩ (pmod x)) := by
  refine ⟨?_, ?_, ?_⟩
  · intro i j h
    have h0 : i.val = 0 := h
    simp [varToHsEq, h0]
  · intro i j h hb
    have h0 : ¬ i.val = 0 := h
    simp [varToHsEq, h0]
  · intro x; simp [hsToVarEq, QGen.C02.varRowDeleted]

/-! ## measurement processes: per-outcome and list-valued conversions (mprocess.py) -/

/-- `MProcess.to_choi_matrix(i)`, `…_with_dict(i)`, `…_with_sparsity(i)`, `to_process_matrix(i)` all return the Choi matrix of the
`i`-th HS matrix for a valid outcome index, and raise IndexError past the end. -/
theorem mprocess_outcome_conversions {d : Nat} (B : Basis CRat d (d * d)) (hss : List (Mat CRat (d * d) (d * d))) (i : Nat)
    (hd : 0 < d) :
    (∀ hi : i < hss.length,
      mpChoiSparse B hss i = .ok (choiSparse B hss[i]) ∧ mpChoiDict B hss i = .ok (choiSparse B hss[i]) ∧
      mpChoiLoop B hss i = .ok (choiSparse B hss[i]) ∧ mpProcessMatrix B hss i = .ok (choiSparse B hss[i])) ∧
    (hss.length ≤ i →
      mpChoiSparse B hss i = .error .indexError ∧ mpChoiDict B hss i = .error .indexError ∧
      mpChoiLoop B hss i = .error .indexError ∧ mpProcessMatrix B hss i = .error .indexError) := by
  constructor
  · intro hi
    have ho : mpOutcome hss i = .ok hss[i] := by simp [mpOutcome, hi]
    refine ⟨by simp [mpChoiSparse, ho], ?_, ?_, ?_⟩
    · simp [mpChoiDict, ho, (choi_variants_agree B hss[i] hd).2.1]
    · simp [mpChoiLoop, ho, (choi_variants_agree B hss[i] hd).1]
    · simp [mpProcessMatrix, ho, processMatrix_eq_choi]
  · intro hi
    have ho : mpOutcome hss i = .error .indexError := by simp [mpOutcome, List.getElem?_eq_none hi]
    simp [mpChoiSparse, mpChoiDict, mpChoiLoop, mpProcessMatrix, ho]

/-- `MProcess.convert_basis` / `convert_to_comp_basis` (the whole returned list): converting back returns the list; every
element of the row-major computational-basis list acts on `vec(ρ)` as the corresponding outcome map. -/
theorem mprocess_convert_basis {n : Nat} (F T : Basis K d n) (hF : Orthonormal F) (hT : Complete T) (hss : List (Mat K n n))
    (B : Basis K d (d * d)) (hs' : List (Mat K (d * d) (d * d))) (rho : Mat K d d) :
    mpConvertBasis T F (mpConvertBasis F T hss) = hss ∧
    (mpConvertToComp B true hs').length = hs'.length ∧
    ∀ (i : Nat) (hi : i < hs'.length),
      ((mpConvertToComp B true hs')[i]'(by simpa [mpConvertToComp, mpConvertBasis] using hi)).mulVec (flat rho)
        = flat (densitySparse B (hs'[i].mulVec (vecOfDensityRaw B rho))) := by
  refine ⟨?_, by simp [mpConvertToComp, mpConvertBasis], ?_⟩
  · simp only [mpConvertBasis, List.map_map]
    conv_rhs => rw [← List.map_id hss]
    apply List.map_congr_left
    intro hs _
    exact convertHs_roundtrip F T hF hT hs
  · intro i hi
    simp only [mpConvertToComp, mpConvertBasis, List.getElem_map]
    exact comp_basis_action B _ rho

/-! ## non-vacuity: concrete instances of the hypotheses -/

-- the computational basis is orthonormal over every star-ring, e.g. ℂ, for every d
example (d : Nat) : Orthonormal (compBasis d true : Basis ℂ d (d * d)) := comp_orthonormal d
-- a Hermitian orthonormal (hence complete) basis over the executed scalar type
example : Orthonormal B0 ∧ HermitianBasis B0 ∧ Complete B0 :=
  ⟨B0_orthonormal, B0_hermitian, complete_of_orthonormal B0 B0_orthonormal⟩
-- the general theorems apply literally to the executed definitions at `CRat`
example (hs : Mat CRat (2 * 2) (2 * 2)) : hsOfChoiSparseRaw B0 (choiSparse B0 hs) = hs :=
  (hs_choi_hs B0 B0_orthonormal hs).1
example (hs : Mat CRat (2 * 2) (2 * 2)) : choiDict B0 hs = choiSparse B0 hs :=
  (choi_variants_agree B0 hs (by decide)).2.1

-- the eigh contract of `kraus_roundtrip` is satisfiable: identity channel on `B0` (HS = 1), Choi matrix
-- `|1⟫⟪1|` given by the single (unnormalised) eigenpair λ = 1, v = (1,0,0,1), plus a zero eigenpair that the
-- filter drops
def idHs : Mat CRat (2 * 2) (2 * 2) := Mat.ofFn fun i j => if i = j then 1 else 0
def idEigs : List (EigPair 2) :=
  [⟨0, 0, #v[⟨1, 0⟩, ⟨0, 0⟩, ⟨0, 0⟩, ⟨-1, 0⟩], #v[0, 0, 0, 0]⟩,
   ⟨1, 1, #v[⟨1, 0⟩, ⟨0, 0⟩, ⟨0, 0⟩, ⟨1, 0⟩], #v[1, 0, 0, 1]⟩]
example : hsOfKrausRaw B0 (krausRaw B0 idHs idEigs 0 0) = idHs :=
  kraus_roundtrip_exact_kernel B0 B0_orthonormal idHs idEigs 0 0 (by decide +kernel)
    (by intro i j; revert i j; decide +kernel) (by decide +kernel) (by decide +kernel)

-- the kernel contract as one hypothesis, on the same instance; the channel of the identity gate is preserved
example : EighContract B0 idHs idEigs 0 :=
  ⟨by intro i j; revert i j; decide +kernel, by decide +kernel, by decide +kernel⟩
example (rho : Mat CRat 2 2) :
    krausApply (krausRaw B0 idHs idEigs 0 0) rho = densitySparse B0 (idHs.mulVec (vecOfDensityRaw B0 rho)) :=
  (kraus_channel_preserved_exact_kernel B0 B0_orthonormal idHs idEigs 0 0 (by decide +kernel)
    ⟨by intro i j; revert i j; decide +kernel, by decide +kernel, by decide +kernel⟩ rho).1
example (rho : Mat CRat 2 2) : hsOfKrausRaw B0 (krausFull B0 idHs idEigs 0 0) = idHs :=
  (kraus_full_roundtrip_exact_kernel B0 B0_orthonormal idHs idEigs 0 0 (by decide +kernel)
    ⟨by intro i j; revert i j; decide +kernel, by decide +kernel, by decide +kernel⟩
    (by unfold AbsContract; decide +kernel) rho).1
-- guard: a Hermitian input (E₀₀) is accepted, the matrix unit E₀₁ is not Hermitian and is rejected
def e00 : Mat CRat 2 2 := #v[#v[⟨1, 0⟩, ⟨0, 0⟩], #v[⟨0, 0⟩, ⟨0, 0⟩]]
def e01 : Mat CRat 2 2 := #v[#v[⟨0, 0⟩, ⟨1, 0⟩], #v[⟨0, 0⟩, ⟨0, 0⟩]]
example : IsHermitianMat e00 := by intro i j; revert i j; decide +kernel
example : vecOfDensity 0 B0 e01 = .error .imagNonZero :=
  vecOfDensity_nonhermitian_rejected B0 B0_hermitian (complete_of_orthonormal B0 B0_orthonormal) e01
    (by intro h; have := h 0 1; revert this; decide +kernel)
example : vecOfDensity 0 B0 e00 = .ok [1, 0, 0, 0] := by decide +kernel
-- a unit-modulus phase over the executed scalars
example : ∀ p ∈ [(⟨0, 1⟩ : CRat), ⟨-1, 0⟩], p * star p = 1 := by decide +kernel

-- executed round trips on real data: the identity HS matrix on B0 with the default-like threshold 1/1000
def idHsR : Mat Rat (2 * 2) (2 * 2) := Mat.ofFn fun i j => if i = j then 1 else 0
example : hsOfChoiSparse (1 / 1000) B0 (choiSparse B0 (ofRatMat idHsR)) = .ok (matList idHsR) :=
  (hs_choi_hs_executed (1 / 1000) B0 B0_orthonormal idHsR (by decide +kernel)).1
example : hsOfChoiDict (1 / 1000) B0 (choiSparse B0 (ofRatMat idHsR)) = .ok (matList idHsR) :=
  (hs_choi_hs_executed (1 / 1000) B0 B0_orthonormal idHsR (by decide +kernel)).2.1 B0_hermitian
example : vecOfDensity (1 / 1000) B0 (densitySparse B0 (ofRatVec #v[1 / 2, 0, 3, -1])) = .ok [1 / 2, 0, 3, -1] :=
  (vec_density_vec_executed (1 / 1000) B0 B0_orthonormal #v[1 / 2, 0, 3, -1] (by decide +kernel)).1
example : mdSerial [2, 3, 4, 2] [1, 2, 3, 1] = .ok 47 := by decide
-- a map with TWO kept eigenpairs handed in in ascending order (as numpy does) and a Kraus operator whose first non-zero entry
-- is `−i/2` (negative in numpy's complex order): `Λ(ρ) = ¼ρ + ¼ YρY`.  The sort reverses the pairs and the phase branch turns
-- `Y/2` into `i·Y/2`; the contracts of `kraus_full_roundtrip_exact_kernel` are met and the operators are as computed.
def yEigs : List (EigPair 2) :=
  [⟨1, 1, #v[⟨1 / 2, 0⟩, ⟨0, 0⟩, ⟨0, 0⟩, ⟨1 / 2, 0⟩], #v[1 / 2, 0, 0, 1 / 2]⟩,
   ⟨4, 2, #v[⟨0, 0⟩, ⟨0, -1 / 4⟩, ⟨0, 1 / 4⟩, ⟨0, 0⟩], #v[0, 1 / 2, 1 / 2, 0]⟩]
def yKraus : List (Mat CRat 2 2) :=
  [#v[#v[⟨0, 0⟩, ⟨1 / 2, 0⟩], #v[⟨-1 / 2, 0⟩, ⟨0, 0⟩]], #v[#v[⟨1 / 2, 0⟩, ⟨0, 0⟩], #v[⟨0, 0⟩, ⟨1 / 2, 0⟩]]]
def yHs : Mat CRat (2 * 2) (2 * 2) := hsOfKrausRaw B0 yKraus
example : krausFull B0 yHs yEigs 0 0 = yKraus := by decide +kernel
example : hsOfKrausRaw B0 (krausFull B0 yHs yEigs 0 0) = yHs :=
  (kraus_full_roundtrip_exact_kernel B0 B0_orthonormal yHs yEigs 0 0 (by decide +kernel)
    ⟨by intro i j; revert i j; decide +kernel, by decide +kernel, by decide +kernel⟩
    (by unfold AbsContract; decide +kernel) Mat.zero).1

-- a two-outcome measurement process on B0 (identity map and the Y-mixture): outcome access, the four per-outcome conversions
-- and the IndexError past the end
example : mpChoiDict B0 [idHs, yHs] 1 = .ok (choiSparse B0 yHs) ∧ mpProcessMatrix B0 [idHs, yHs] 1 = .ok (choiSparse B0 yHs) ∧
    mpChoiLoop B0 [idHs, yHs] 2 = .error .indexError :=
  ⟨((mprocess_outcome_conversions B0 [idHs, yHs] 1 (by decide)).1 (by decide)).2.1,
   ((mprocess_outcome_conversions B0 [idHs, yHs] 1 (by decide)).1 (by decide)).2.2.2,
   ((mprocess_outcome_conversions B0 [idHs, yHs] 2 (by decide)).2 (by decide)).2.2.1⟩
example : mpConvertBasis (compBasis 2 true) B0 (mpConvertBasis B0 (compBasis 2 true) [idHs, yHs]) = [idHs, yHs] :=
  (mprocess_convert_basis B0 (compBasis 2 true) B0_orthonormal
    (complete_of_orthonormal _ (comp_orthonormal 2)) [idHs, yHs] B0 [] Mat.zero).1
example : convertHsChecks 4 3 2 4 2 4 = .error .notSquare ∧ convertHsChecks 3 3 2 4 2 4 = .error .dimNotSquare ∧
    convertHsChecks 4 4 2 4 3 9 = .error .dimMismatch ∧ convertHsChecks 4 4 2 4 2 5 = .error .lenMismatch := by decide +kernel

-- extension round 3: B0 → column-major computational basis → row-major computational basis is B0 → row-major directly; the
-- column-major round trip; Hermitian Choi matrix of a real HS matrix; Kraus → HS of the complex operators `yKraus` never raises
example : convertHs (compBasis 2 false) (compBasis 2 true) (convertHs B0 (compBasis 2 false) yHs) = convertHs B0 (compBasis 2 true) yHs :=
  (convert_comp B0 (compBasis 2 false) (compBasis 2 true) (complete_of_orthonormal _ (comp_col_orthonormal 2)) yHs Vec.zero).1
example : convertHs (compBasis 2 false) B0 (convertHs B0 (compBasis 2 false) yHs) = yHs :=
  (comp_col_roundtrip B0 B0_orthonormal yHs false).2
example : IsHermitianMat (choiSparse B0 idHs) :=
  (choi_hermitian_iff_hs_real B0 B0_hermitian idHs idHs).1 (by intro al be; revert al be; decide +kernel)
example : ∃ r, hsOfKraus (1 / 1000) B0 yKraus = .ok r :=
  hsOfKraus_never_rejected (1 / 1000) B0 B0_orthonormal B0_hermitian yKraus (by decide)

end QM.C02
