import QProofs.C10
import QGen.C10
import Mathlib.Analysis.Normed.Module.Convex
import Mathlib.Analysis.InnerProductSpace.Basic
/-!
# C10 — constrained estimators return physical, consistent estimates: property theorems

All statements are about the definitions of `QModel/C10.lean` (the driver executes the same definitions at `Rat`), are
unbounded in dimensions, iteration counts, history lengths and data, and hold over every ordered field `K` and every
`K`-vector space `V` (in particular `K = ℝ`, `V = ℝ^n` with the physical set of a state / POVM / gate / measurement process
as `C`).  The loss value `f`, its gradient, `dot`, `sqrt`, the stopping mode and all thresholds are arbitrary: feasibility
does not depend on them.

Not proved here (honest gap, see `…_partial` names): that the loops terminate before the iteration limit and that the
stopped iterate is ε-close to the constrained minimiser; that the implementation's projections map into the sets
(that is C04/C05 — here it is the hypothesis `hproj`); that the Dykstra loop reaches a stationary state (at one, the result IS
the nearest physical point: `dyk_stationary_is_nearest`, `dyk_zero_value_is_stationary`, `dyk_sum_invariant`).  Exact-data
optimality of the truth is proved for every PSD-weighted squared error (`exact_data_minimiser`,
`weighted_exact_data_minimiser`) and, in QProps/C11, for the relative entropy (`relative_entropy_exact_data_minimiser`).
`selection_table`, `selection_keeps_installed`, `ple_eq_proj_of_lin` and the flag clauses of
`lme_estimates_from_selected_projection` are the model's decision tables (true by unfolding); their content is the
correspondence (`select`, `ple`, `lme` ops) and, for the first, `gen_selection_table`.  The `pgdb_*` theorems assume the line
search returned (`= some it`, i.e. a step size `> 0` was accepted in exact arithmetic); when the direction is not a descent
direction (inexact projection) the float code ends the search by underflow with `x_next = x_prev`, which is feasible as well.
-/
set_option linter.unusedSectionVars false
namespace QM.C10

/-! ## D — which projection is installed (`set_constraint_from_standard_qt_and_option`) -/

/-- C10.selection_table: with no projection installed yet, the flag pair `(on_algo_eq_constraint, on_algo_ineq_constraint)`
selects: `(T,T)` the physical projection (Dykstra) with the parametrisation flag of the estimation template and the
option's iteration limit, `(T,F)` the equality projection, `(F,T)` the inequality projection, `(F,F)` the identity. -/
theorem selection_table (si : SettingInfo) (o : Order) (mi : Option Nat) :
    setConstraint none si ⟨true, true, o, mi⟩ = .physical si.onPara si.order mi ∧
    setConstraint none si ⟨true, false, o, mi⟩ = .eqOnly si.onPara ∧
    setConstraint none si ⟨false, true, o, mi⟩ = .ineqOnly si.onPara ∧
    setConstraint none si ⟨false, false, o, mi⟩ = .toSelf := by
  refine ⟨rfl, rfl, rfl, rfl⟩

/-- C10.selection_physical_iff: the full physical projection is installed exactly when both constraint flags are on. -/
theorem selection_physical_iff (si : SettingInfo) (opt : AlgoOpt) :
    (∃ p o m, setConstraint none si opt = .physical p o m) ↔ (opt.onAlgoEq = true ∧ opt.onAlgoIneq = true) := by
  obtain ⟨e, i, o, m⟩ := opt
  cases e <;> cases i <;> simp [setConstraint, funcCalcProjPhysicalWithVar]

/-- C10.selection_order_from_template: the projection order that takes effect in the projected-gradient algorithms is the
one stored in the estimation template, whatever `mode_proj_order` the algorithm option carries
(`func_calc_proj_physical_with_var` drops its `mode_proj_order` argument). -/
theorem selection_order_from_template (si : SettingInfo) (e i : Bool) (o o' : Order) (mi : Option Nat) :
    setConstraint none si ⟨e, i, o, mi⟩ = setConstraint none si ⟨e, i, o', mi⟩ := by
  cases e <;> cases i <;> rfl

/-- C10.selection_keeps_installed: a projection that is already installed (constructor argument or an earlier call) is
kept; the tomography and the option of the later call are not consulted. -/
theorem selection_keeps_installed (p : ProjSel) (si : SettingInfo) (opt : AlgoOpt) :
    setConstraint (some p) si opt = p := rfl

example : setConstraint none ⟨true, .eqIneq⟩ ⟨true, true, .ineqEq, some 100000⟩
    = .physical true .eqIneq (some 100000) := by decide

/-! ## the same tables, regenerated from the source on every run (`harness/c10_translate.py` → `QGen/C10.lean`) -/

/-- C10.gen_selection_table: the flag tests of the source's if/elif chain, in source order, install exactly the factories the
model's `setConstraint` selects; the chain's three explicit tests plus the final `else` cover the four flag combinations; the
early return for an installed projection is present. -/
theorem gen_selection_table (si : SettingInfo) (o : Order) (mi : Option Nat) :
    QGen.C10.selectionTable =
      [(some (true, true), (setConstraint none si ⟨true, true, o, mi⟩).factoryName),
       (some (true, false), (setConstraint none si ⟨true, false, o, mi⟩).factoryName),
       (some (false, true), (setConstraint none si ⟨false, true, o, mi⟩).factoryName),
       (none, (setConstraint none si ⟨false, false, o, mi⟩).factoryName)] ∧
    QGen.C10.keepsInstalled = true := ⟨rfl, rfl⟩

/-- C10.gen_physical_arguments: the physical-projection factory receives the template's parametrisation flag, the option's
`mode_proj_order` and the option's `max_iteration_proj_physical` (not the optimiser's own iteration budget); the closure it
returns forwards the flag and the iteration limit only — the projection order is dropped there. -/
theorem gen_physical_arguments :
    [QGen.C10.physicalOnParaSource, QGen.C10.physicalOrderSource, QGen.C10.physicalMaxIterSource] = physicalArgSources ∧
    QGen.C10.physicalClosureKeywords = closureForwards ∧ QGen.C10.physicalClosureSources = closureForwards ∧
    "mode_proj_order" ∉ QGen.C10.physicalClosureKeywords := by
  decide

/-- C10.gen_stop_modes: the strings accepted by the option constructor are exactly the four stopping modes of the model, in the
model's order; each of the three `optimize` loops dispatches on exactly these strings in this order; defaults as modelled. -/
theorem gen_stop_modes :
    QGen.C10.stopModes.map StopMode.ofString? =
      [some .singleDiffLoss, some .sumAbsDiffLoss, some .sumAbsDiffVar, some .sumAbsDiffProjGrad] ∧
    QGen.C10.dispatchPgdb = QGen.C10.stopModes ∧ QGen.C10.dispatchPgdm = QGen.C10.stopModes ∧
    QGen.C10.dispatchFista = QGen.C10.stopModes ∧
    StopMode.ofString? QGen.C10.defaultStopMode = some .singleDiffLoss ∧ QGen.C10.defaultNumHistory = 1 := by
  decide

/-- C10.gen_proj_orders: accepted projection orders and the default. -/
theorem gen_proj_orders :
    QGen.C10.projOrders.map Drv.parseOrder? = [some .eqIneq, some .ineqEq] ∧
    Drv.parseOrder? QGen.C10.defaultProjOrder = some .eqIneq := by
  decide

/-- C10.gen_line_search_constants: the line search starts at `α = 1` and halves (`backtrack … 1`, factor `1/(1+1)` in the
model); `_is_doing_for_alpha` is `left_side > right_side`; the loop continues iff `value > eps`. -/
theorem gen_line_search_constants :
    QGen.C10.alphaStart = 1 ∧ QGen.C10.alphaFactor = 1 / (1 + 1) ∧
    (QGen.C10.armijoOp, QGen.C10.armijoLeft, QGen.C10.armijoRight) = ("Gt", "left_side", "right_side") ∧
    (QGen.C10.stopOp, QGen.C10.stopLeft, QGen.C10.stopRight, QGen.C10.stopThen, QGen.C10.stopElse)
      = ("Gt", "value", "eps", true, false) := by
  decide +kernel

/-- C10.gen_update_formulas: the update formulas of the three loops (direction, step, both sides of the line-search test, start
point, momentum / ζ / magnitude updates, FISTA extrapolation, window sum) read from the source are, verbatim, the formulas the
model functions transcribe; likewise the `error_value` expression of every mode in each of the three algorithms (the fourth mode
takes the norm of `y_prev` in the backtracking algorithm and of `x_next` in the other two). -/
theorem gen_update_formulas :
    QGen.C10.updateExprs = updateExprs ∧
    QGen.C10.errExprPgdb = StopMode.all.map (StopMode.errExpr "y_prev") ∧
    QGen.C10.errExprPgdm = StopMode.all.map (StopMode.errExpr "x_next") ∧
    QGen.C10.errExprFista = StopMode.all.map (StopMode.errExpr "x_next") ∧
    QGen.C10.stopModes.map StopMode.ofString? = StopMode.all.map some := by
  decide

/-- C10.gen_update_terms: the tie at the level of TERMS, not strings — the source expressions of the three loops, translated by
`c10_translate.py` into Lean definitions over the same scalar / vector classes, ARE the model functions: the backtracking
direction `pgdbDir`, the line-search test `isDoingForAlpha` (`left_side > right_side`), the momentum update and `ζ` update inside
`pgdmStep`, the FISTA extrapolation and projection `fistaStep` (with `kcoef k` for `(k − 2)/(k + 1)`, `c95` for `0.95`).  A drift
of a model function away from the source formula, or of the source away from the model, breaks this theorem. -/
theorem gen_update_terms {K V : Type} [Add V] [Sub V] [SMul K V] [Add K] [Sub K] [Mul K] [Div K] [Neg K] [Zero K] [One K] [LT K]
    [DecidableLT K] :
    (∀ (proj grad : V → V) (mu : K) (x : V), pgdbDir proj grad mu x = QGen.C10.yPrev proj grad mu x) ∧
    (∀ (f : V → K) (grad : V → V) (dot : V → V → K) (x y : V) (alpha gamma : K),
      isDoingForAlpha f grad dot x y alpha gamma
        = decide (QGen.C10.armijoRhs f grad dot x y alpha gamma < QGen.C10.armijoLhs f x y alpha)) ∧
    (∀ (proj grad : V → V) (mag : V → Int) (gamma c95 : K) (s : PgdmState K V),
      (pgdmStep proj grad mag gamma c95 s).moment
          = QGen.C10.momentNext grad (pgdmStep proj grad mag gamma c95 s).zeta gamma s.moment s.x ∧
        (pgdmStep proj grad mag gamma c95 s).x = QGen.C10.xNextPgdm proj s.x (pgdmStep proj grad mag gamma c95 s).moment ∧
        ((pgdmStep proj grad mag gamma c95 s).zeta = s.zeta ∨
          (pgdmStep proj grad mag gamma c95 s).zeta = QGen.C10.zetaNext s.zeta c95)) ∧
    (∀ (proj grad : V → V) (delta : K) (kcoef : Nat → K) (k : Nat) (x xpp : V),
      fistaStep proj grad delta kcoef k x xpp = QGen.C10.xNextFista proj (QGen.C10.fistaTmp grad kcoef delta k x xpp)) := by
  refine ⟨fun _ _ _ _ => rfl, fun _ _ _ _ _ _ _ => rfl, ?_, fun _ _ _ _ _ _ _ => rfl⟩
  intro proj grad mag gamma c95 s
  refine ⟨rfl, rfl, ?_⟩
  unfold pgdmStep
  by_cases h : mag s.x < s.magPrev
  · right; simp [h, QGen.C10.zetaNext]
  · left; simp [h]

/-- C10.gen_error_value_terms: the four `error_value` expressions of each loop, translated from the source into Lean terms, are what
`errorValue` computes in the four modes — with `y_prev` as the fourth mode's vector in the backtracking loop and `x_next` in the
momentum and FISTA loops (as `pgdbStep`, `pgdmLoop`, `fistaLoop` pass it). -/
theorem gen_error_value_terms {K V : Type} [Add V] [Sub V] [SMul K V] [Add K] [Sub K] [Mul K] [Div K] [Neg K] [Zero K] [One K]
    [LT K] [DecidableLT K] (f : V → K) (sqrt : K → K) (normSq : V → K) (x xn y : V) :
    StopMode.all.map (fun m => errorValue m f sqrt normSq x xn y) = QGen.C10.errPgdb f sqrt normSq x xn y ∧
    StopMode.all.map (fun m => errorValue m f sqrt normSq x xn xn) = QGen.C10.errPgdmFista f sqrt normSq x xn := by
  constructor <;> rfl

/-- the accepted step of `pgdbStep` is the source's `x_prev + alpha * y_prev` along the source's `y_prev` (generated terms) -/
theorem gen_pgdb_next_point {K V : Type} [Add V] [Sub V] [SMul K V] [Add K] [Sub K] [Mul K] [Div K] [Neg K] [Zero K] [One K] [LT K]
    [DecidableLT K] (proj : V → V) (f : V → K) (grad : V → V) (dot : V → V → K)
    (sqrt : K → K) (mu gamma : K) (mode : StopMode) (btFuel : Nat) (x : V) (it : PgdbIter K V)
    (h : pgdbStep proj f grad dot sqrt mu gamma mode btFuel x = some it) :
    it.xNext = QGen.C10.xNextPgdb x it.y it.alpha ∧ it.y = QGen.C10.yPrev proj grad mu x := by
  unfold pgdbStep at h
  cases hb : backtrack f grad dot x (pgdbDir proj grad mu x) gamma btFuel 1 with
  | none => simp [hb] at h
  | some a =>
    simp only [hb, Option.some.injEq] at h
    subst h
    exact ⟨rfl, rfl⟩

/-- C10.gen_option_checks: the conditions under which `is_option_sufficient` rejects an option object, read from the source, are
the ones `pgdbOptionSufficient` / `stepOptionSufficient` implement. -/
theorem gen_option_checks :
    QGen.C10.insufficientPgdb = insufficientPgdb ∧ QGen.C10.insufficientPgdm = insufficientStep "r" ∧
    QGen.C10.insufficientFista = insufficientStep "delta" := by
  decide

/-- C10.option_sufficient_gives_hypotheses: an option object that passes the validation of `calc_estimate_sequence` has
`gamma > 0`, `eps > 0` and, if given, `mu > 0` — the hypotheses `0 < γ`, `0 < μ` of the decrease / optimality theorems are what
the code itself enforces before `optimize` runs. -/
theorem option_sufficient_gives_hypotheses {K : Type} [Field K] [LinearOrder K] [IsStrictOrderedRing K] (mu gamma eps : Option K)
    (h : pgdbOptionSufficient true mu gamma eps = true) :
    (∃ g, gamma = some g ∧ 0 < g) ∧ (∃ e, eps = some e ∧ 0 < e) ∧ (∀ m, mu = some m → 0 < m) := by
  unfold pgdbOptionSufficient at h
  cases mu <;> cases gamma <;> cases eps <;> simp_all [not_le]

example : pgdbOptionSufficient true (none : Option Rat) (some (3 / 10)) (some (1 / 100)) = true := by decide +kernel
example : pgdbOptionSufficient true (some (0 : Rat)) (some (3 / 10)) (some (1 / 100)) = false := by decide +kernel

/-! ## projected linear estimator = physical projection ∘ linear estimate -/

/-- C10.ple_eq_proj_of_lin: every element of the projected-linear result is `to_var` of the physical projection, taken in the
estimator's projection order, of the corresponding linear estimate; nothing else enters. -/
theorem ple_eq_proj_of_lin {D O W : Type} (linear : List D → List O) (setOrder : Order → O → O) (projPhysical : O → O)
    (toVar : O → W) (order : Order) (seq : List D) :
    pleSequence linear setOrder projPhysical toVar order seq
      = (linear seq).map (toVar ∘ projPhysical ∘ setOrder order) ∧
    (pleSequence linear setOrder projPhysical toVar order seq).length = (linear seq).length := by
  constructor
  · rfl
  · simp [pleSequence]

/-- C10.ple_pointwise: when the linear estimator treats the data sets one by one (C09 `lin_seq_pointwise`), so does the
projected one: the `i`-th estimate depends on the `i`-th data set only. -/
theorem ple_pointwise {D O W : Type} (lin1 : D → O) (setOrder : Order → O → O) (projPhysical : O → O)
    (toVar : O → W) (order : Order) (seq : List D) :
    pleSequence (List.map lin1) setOrder projPhysical toVar order seq
      = seq.map fun d => toVar (projPhysical (setOrder order (lin1 d))) := by
  simp [pleSequence, List.map_map, Function.comp_def]

example : pleSequence (List.map (· + 1)) (fun _ x => x) (fun x : Nat => 2 * x) (fun x => x) .eqIneq [1, 2, 3]
    = [4, 6, 8] := by decide

/-! ## loss-minimisation estimator: every returned estimate comes from the selected projection, through the glue as coded -/

/-- loop invariant of `lmeLoop` -/
theorem lmeLoop_spec {D R W : Type} (si : SettingInfo) (opt : AlgoOpt) (checks : D → Checks)
    (optimize : ProjSel → D → Bool → R) (value : R → W) (timeReq : Bool) :
    ∀ (seq : List D) (cur : Option ProjSel) (ws : List W) (rs : List R) (res : List W × List R × Option ProjSel),
      lmeLoop si opt checks optimize value timeReq seq cur ws rs = .ok res →
      res.1 = ws ++ seq.map (fun d => value (optimize (setConstraint cur si opt) d timeReq)) ∧
      res.2.1 = rs ++ seq.map (fun d => optimize (setConstraint cur si opt) d timeReq) ∧
      (∀ d ∈ seq, (checks d).lossOptionOk = true ∧ (checks d).algoLossOk = true ∧ (checks d).algoOptionOk = true ∧
        (checks d).algoLossOptionOk = true) := by
  intro seq
  induction seq with
  | nil =>
    intro cur ws rs res h
    simp only [lmeLoop, Except.ok.injEq] at h
    subst h; simp
  | cons d ds ih =>
    intro cur ws rs res h
    unfold lmeLoop at h
    simp only at h
    split at h
    · cases h
    · split at h
      · cases h
      · split at h
        · cases h
        · split at h
          · cases h
          · rename_i h1 h2 h3 h4
            obtain ⟨e1, e2, e3⟩ := ih _ _ _ res h
            have hk : setConstraint (some (setConstraint cur si opt)) si opt = setConstraint cur si opt := rfl
            rw [hk] at e1 e2
            refine ⟨by rw [e1]; simp, by rw [e2]; simp, ?_⟩
            intro x hx
            rcases List.mem_cons.1 hx with rfl | hx
            · simp_all
            · exact e3 x hx

/-- C10.lme_estimates_from_selected_projection: when `LossMinimizationEstimator.calc_estimate_sequence` returns, the `i`-th
entry of `estimated_var_sequence` is the value of `optimize` run on the `i`-th data set with the projection selected by the
FIRST `set_constraint_from_standard_qt_and_option` call (`setConstraint cur si opt`; later calls keep it — D10), with
`on_iteration_history = is_computation_time_required`; one estimate per data set, in order; computation times are present iff
requested, detailed results iff requested; all four validations passed for every data set. -/
theorem lme_estimates_from_selected_projection {D R W : Type} (si : SettingInfo) (opt : AlgoOpt) (checks : D → Checks)
    (optimize : ProjSel → D → Bool → R) (value : R → W) (timeReq detReq : Bool) (cur : Option ProjSel) (seq : List D)
    (r : LmeResult W R) (h : lmeSequence si opt checks optimize value timeReq detReq cur seq = .ok r) :
    r.vars = seq.map (fun d => value (optimize (setConstraint cur si opt) d timeReq)) ∧ r.vars.length = seq.length ∧
    r.timed.isSome = timeReq ∧ r.detailed.isSome = detReq ∧
    (∀ d ∈ seq, (checks d).lossOptionOk = true ∧ (checks d).algoLossOk = true ∧ (checks d).algoOptionOk = true ∧
      (checks d).algoLossOptionOk = true) := by
  unfold lmeSequence at h
  cases hl : lmeLoop si opt checks optimize value timeReq seq cur [] [] with
  | error e => simp [hl] at h
  | ok res =>
    obtain ⟨ws, rs, c⟩ := res
    simp only [hl, Except.ok.injEq] at h
    obtain ⟨e1, _, e3⟩ := lmeLoop_spec si opt checks optimize value timeReq seq cur [] [] _ hl
    subst h
    simp only [List.nil_append] at e1
    refine ⟨e1, by rw [e1]; simp, ?_, ?_, e3⟩ <;> cases timeReq <;> cases detReq <;> simp

/-- C10.lme_estimates_satisfy_projection_invariant: hence any property `Q sel w` that every `optimize` result has with respect to
the projection `sel` it was given (e.g. "is an output of `sel`" for momentum / FISTA — `pgdm_result_is_projection`,
`fista_result_is_projection`; "lies in the convex set `sel` maps into" for backtracking — `pgdb_estimate_feasible`) holds for
every returned estimate and for `estimated_var`, with `sel` the selected projection. -/
theorem lme_estimates_satisfy_projection_invariant {D R W : Type} (si : SettingInfo) (opt : AlgoOpt) (checks : D → Checks)
    (optimize : ProjSel → D → Bool → R) (value : R → W) (timeReq detReq : Bool) (cur : Option ProjSel) (seq : List D)
    (Q : ProjSel → W → Prop) (hopt : ∀ sel d b, Q sel (value (optimize sel d b)))
    (r : LmeResult W R) (h : lmeSequence si opt checks optimize value timeReq detReq cur seq = .ok r) :
    (∀ w ∈ r.vars, Q (setConstraint cur si opt) w) ∧ (∀ w, r.estimatedVar = some w → Q (setConstraint cur si opt) w) := by
  obtain ⟨e1, _⟩ := lme_estimates_from_selected_projection si opt checks optimize value timeReq detReq cur seq r h
  have hall : ∀ w ∈ r.vars, Q (setConstraint cur si opt) w := by
    intro w hw
    rw [e1] at hw
    obtain ⟨d, _, rfl⟩ := List.mem_map.1 hw
    exact hopt _ d timeReq
  refine ⟨hall, fun w hw => hall w ?_⟩
  unfold LmeResult.estimatedVar at hw
  exact List.mem_of_mem_head? hw

/-- C10.lme_validation_first_failure: the first failing validation of the first data set decides the exception, in source order. -/
theorem lme_validation_first_failure {D R W : Type} (si : SettingInfo) (opt : AlgoOpt) (checks : D → Checks)
    (optimize : ProjSel → D → Bool → R) (value : R → W) (timeReq detReq : Bool) (cur : Option ProjSel) (d : D) (ds : List D) :
    ((checks d).lossOptionOk = false →
      lmeSequence si opt checks optimize value timeReq detReq cur (d :: ds) = .error .lossOption) ∧
    ((checks d).lossOptionOk = true → (checks d).algoLossOk = false →
      lmeSequence si opt checks optimize value timeReq detReq cur (d :: ds) = .error .algoLoss) ∧
    ((checks d).lossOptionOk = true → (checks d).algoLossOk = true → (checks d).algoOptionOk = false →
      lmeSequence si opt checks optimize value timeReq detReq cur (d :: ds) = .error .algoOption) ∧
    ((checks d).lossOptionOk = true → (checks d).algoLossOk = true → (checks d).algoOptionOk = true →
      (checks d).algoLossOptionOk = false →
      lmeSequence si opt checks optimize value timeReq detReq cur (d :: ds) = .error .algoLossOption) := by
  refine ⟨?_, ?_, ?_, ?_⟩ <;> intros <;> simp_all [lmeSequence, lmeLoop]

example : (lmeSequence ⟨true, .eqIneq⟩ ⟨true, true, .ineqEq, some 5⟩ (fun _ : Nat => ⟨true, true, true, true⟩)
    (fun sel d b => (sel.factoryName, d, b)) (fun r => r.2.1) true false none [7, 8]).toOption.map (·.vars) = some [7, 8] := by
  decide

/-- C10.gen_estimator_glue: read from the source on every run — the data loop of `LossMinimizationEstimator.calc_estimate_sequence`
configures the loss, then the algorithm (`set_from_option`, `set_constraint_from_standard_qt_and_option`, `set_from_loss`),
validates in the order of `EstErr`, calls `optimize` with `on_iteration_history=is_computation_time_required` and appends
`algo_result.value`; `ProjectedLinearEstimator.calc_estimate_sequence` takes the linear estimator's
`estimated_qoperation_sequence`, and on each element calls `set_mode_proj_order(self.mode_proj_order)` then
`calc_proj_physical(...)` and appends its `to_var()` — exactly what `lmeLoop` and `pleSequence` transcribe. -/
theorem gen_estimator_glue :
    QGen.C10.lmeSetupCalls = lmeSetupCalls ∧
    QGen.C10.lmeValidationOrder = [EstErr.lossOption, .algoLoss, .algoOption, .algoLossOption].map EstErr.sourceCall ∧
    QGen.C10.lmeOptimizeCall = lmeOptimizeCall ∧ QGen.C10.lmeAppended = "algo_result.value" ∧
    QGen.C10.pleSource = ["super().calc_estimate_sequence(qtomography, empi_dists_sequence, is_computation_time_required)",
      "result.estimated_qoperation_sequence"] ∧
    QGen.C10.pleLoopCalls = pleLoopCalls ∧ QGen.C10.pleAppended = ["proj_estimate[0].to_var()", "proj_estimate.to_var()"] := by
  decide

/-! ## physical projection: what the stopping threshold guarantees -/

section dykstra
variable {K V : Type} [Field K] [LinearOrder K] [IsStrictOrderedRing K] [AddCommGroup V]

/-- C10.dyk_result_is_last_projection: whenever the physical projection returns (iteration limit ≥ 1), the returned point is
an output of the projection applied last in a sweep and comes with a companion `y` that is an output of the projection
applied first — whether or not the loop hit its iteration limit. -/
theorem dyk_result_is_last_projection (P1 P2 : V → V) (normSq : V → K) (eps : K) (fuel k : Nat) (s : DykState V)
    (hf : 0 < fuel) :
    (∃ z, (dykLoop P1 P2 normSq eps fuel k s).1.x = P2 z) ∧ (∃ z, (dykLoop P1 P2 normSq eps fuel k s).1.y = P1 z) := by
  obtain ⟨s0, h, _⟩ := dykLoop_shape P1 P2 normSq eps fuel k s hf
  rw [h]
  exact ⟨⟨_, rfl⟩, ⟨_, rfl⟩⟩

/-- C10.dyk_stop_accuracy: if the loop ended on its stopping criterion (value `< eps`), the returned point `x` (output of the
last projection) is within `√eps` of the companion `y` (output of the first projection): `‖x − y‖² < eps`.  Hence with
`eq_ineq` the result satisfies the inequality constraint as well as the inequality projection does and is `√eps`-close to the
equality set, and vice versa for `ineq_eq`: "physical to the accuracy of the stopping threshold". -/
theorem dyk_stop_accuracy (P1 P2 : V → V) (normSq : V → K) (hn : ∀ v, 0 ≤ normSq v) (eps : K) (fuel k : Nat)
    (s : DykState V) (hstop : (dykLoop P1 P2 normSq eps fuel k s).2 = true) :
    normSq ((dykLoop P1 P2 normSq eps fuel k s).1.x - (dykLoop P1 P2 normSq eps fuel k s).1.y) < eps := by
  have hf : 0 < fuel := by
    cases fuel with
    | zero => simp [dykLoop] at hstop
    | succ f => exact Nat.succ_pos f
  obtain ⟨s0, h, hv⟩ := dykLoop_shape P1 P2 normSq eps fuel k s hf
  have hv := hv hstop
  rw [h]
  unfold brValue at hv
  rw [dykSweep_q_diff] at hv
  have := hn (s0.p - (dykSweep P1 P2 s0).p)
  linarith

/-- C10.proj_physical_accuracy: the same two facts for `calc_proj_physical_with_var` as called by the estimators, for both
projection orders: the returned point is an output of the projection named last in the order, and, when the loop ended on
its criterion, is `√eps`-close to an output of the projection named first. -/
theorem proj_physical_accuracy (projEq projIneq : V → V) (order : Order) (normSq : V → K) (hn : ∀ v, 0 ≤ normSq v)
    (eps : K) (maxIter : Nat) (zero x0 x : V) (stopped : Bool)
    (h : projPhysical projEq projIneq order normSq eps maxIter zero x0 = some (x, stopped)) :
    let Pfirst := match order with | .eqIneq => projEq | .ineqEq => projIneq
    let Plast := match order with | .eqIneq => projIneq | .ineqEq => projEq
    (∃ z, x = Plast z) ∧ (stopped = true → ∃ z, normSq (x - Pfirst z) < eps) := by
  unfold projPhysical at h
  by_cases hm : maxIter = 0
  · simp [hm] at h
  · have hpos : 0 < maxIter := Nat.pos_of_ne_zero hm
    cases order <;> simp only [hm, if_false, Option.some.injEq, Prod.mk.injEq] at h <;> obtain ⟨hx, hs⟩ := h
    · obtain ⟨⟨z, hz⟩, ⟨w, hw⟩⟩ :=
        dyk_result_is_last_projection projEq projIneq normSq eps maxIter 0 ⟨x0, zero, zero, x0⟩ hpos
      refine ⟨⟨z, by rw [← hx, hz]⟩, fun hst => ⟨w, ?_⟩⟩
      have := dyk_stop_accuracy projEq projIneq normSq hn eps maxIter 0 ⟨x0, zero, zero, x0⟩ (by rw [hs, hst])
      show normSq (x - projEq w) < eps
      rw [← hx, ← hw]; exact this
    · obtain ⟨⟨z, hz⟩, ⟨w, hw⟩⟩ :=
        dyk_result_is_last_projection projIneq projEq normSq eps maxIter 0 ⟨x0, zero, zero, x0⟩ hpos
      refine ⟨⟨z, by rw [← hx, hz]⟩, fun hst => ⟨w, ?_⟩⟩
      have := dyk_stop_accuracy projIneq projEq normSq hn eps maxIter 0 ⟨x0, zero, zero, x0⟩ (by rw [hs, hst])
      show normSq (x - projIneq w) < eps
      rw [← hx, ← hw]; exact this

end dykstra

/-! ### Dykstra: the invariant, and why a stationary sweep returns THE nearest physical point -/

/-- C10.dyk_sum_invariant: every sweep, hence the whole loop, preserves `x + p + q` — for the call made by the estimators
(`p = q = 0` initially) the returned state satisfies `x + p + q = x₀`. -/
theorem dyk_sum_invariant {K V : Type} [AddCommGroup V] [Add K] [LT K] [DecidableLT K] (P1 P2 : V → V) (normSq : V → K) (eps : K) :
    ∀ (fuel k : Nat) (s : DykState V),
      (dykLoop P1 P2 normSq eps fuel k s).1.x + (dykLoop P1 P2 normSq eps fuel k s).1.p + (dykLoop P1 P2 normSq eps fuel k s).1.q
        = s.x + s.p + s.q := by
  have hsweep : ∀ s : DykState V, (dykSweep P1 P2 s).x + (dykSweep P1 P2 s).p + (dykSweep P1 P2 s).q = s.x + s.p + s.q := by
    intro s; simp only [dykSweep]; abel
  intro fuel
  induction fuel with
  | zero => intro k s; rfl
  | succ fuel ih =>
    intro k s
    unfold dykLoop
    simp only
    split
    · exact hsweep s
    · cases fuel with
      | zero => exact hsweep s
      | succ f => exact (ih (k + 1) (dykSweep P1 P2 s)).trans (hsweep s)

section nearest
open scoped RealInnerProductSpace
variable {E : Type} [NormedAddCommGroup E] [InnerProductSpace ℝ E]

/-- C10.dyk_stationary_is_nearest: "the projected linear estimate is precisely the physical projection of the linear estimate", at
a stationary state of the iteration.  If the two elementary projections are the metric projections onto `A` and `B` (variational
inequality), the state satisfies the invariant `x + p + q = x₀` and a sweep leaves `x`, `p`, `q` unchanged, then `x ∈ A ∩ B` and
`⟪x₀ − x, z − x⟫ ≤ 0` for every `z ∈ A ∩ B`: `x` is the nearest point of the physical set to `x₀`, for either projection order.
(That the loop reaches a stationary state — Boyle–Dykstra convergence — is not proved; the distance of the stopped iterate from
the stationary one is measured by the oracle's independent reference.) -/
theorem dyk_stationary_is_nearest {A B : Set E} (P1 P2 : E → E)
    (h1 : ∀ z, P1 z ∈ A ∧ ∀ w ∈ A, ⟪z - P1 z, w - P1 z⟫ ≤ 0) (h2 : ∀ z, P2 z ∈ B ∧ ∀ w ∈ B, ⟪z - P2 z, w - P2 z⟫ ≤ 0)
    (x0 : E) (s : DykState E) (hinv : s.x + s.p + s.q = x0)
    (hfix : (dykSweep P1 P2 s).x = s.x ∧ (dykSweep P1 P2 s).p = s.p ∧ (dykSweep P1 P2 s).q = s.q) :
    s.x ∈ A ∧ s.x ∈ B ∧ ∀ z, z ∈ A → z ∈ B → ⟪x0 - s.x, z - s.x⟫ ≤ 0 := by
  obtain ⟨hx, hp, _⟩ := hfix
  simp only [dykSweep] at hx hp
  have hy : P1 (s.x + s.p) = s.x := by
    have h := sub_eq_iff_eq_add.1 hp
    have h' : s.p + s.x = s.p + P1 (s.x + s.p) := by rw [add_comm s.p s.x]; exact h
    exact (add_left_cancel h').symm
  have hx2 : P2 (s.x + s.q) = s.x := by rw [hy] at hx; exact hx
  have hA := h1 (s.x + s.p)
  have hB := h2 (s.x + s.q)
  rw [hy] at hA
  rw [hx2] at hB
  refine ⟨hA.1, hB.1, fun z hzA hzB => ?_⟩
  have e : x0 - s.x = (s.x + s.p - s.x) + (s.x + s.q - s.x) := by rw [← hinv]; abel
  rw [e, inner_add_left]
  have := hA.2 z hzA
  have := hB.2 z hzB
  linarith

/-- C10.dyk_zero_value_is_stationary: a vanishing stopping value (`‖Δp‖² + ‖Δq‖² = 0`) means the sweep left `p`, `q` and `x`
unchanged — so a run that stops with value `0` returns the nearest physical point (`dyk_stationary_is_nearest`). -/
theorem dyk_zero_value_is_stationary (P1 P2 : E → E) (s : DykState E)
    (h0 : brValue (fun v : E => ‖v‖ ^ 2) s (dykSweep P1 P2 s) = 0) :
    (dykSweep P1 P2 s).x = s.x ∧ (dykSweep P1 P2 s).p = s.p ∧ (dykSweep P1 P2 s).q = s.q := by
  unfold brValue at h0
  have hp0 : ‖s.p - (dykSweep P1 P2 s).p‖ ^ 2 = 0 := by
    have := sq_nonneg ‖s.q - (dykSweep P1 P2 s).q‖; nlinarith [sq_nonneg ‖s.p - (dykSweep P1 P2 s).p‖]
  have hq0 : ‖s.q - (dykSweep P1 P2 s).q‖ ^ 2 = 0 := by
    have := sq_nonneg ‖s.p - (dykSweep P1 P2 s).p‖; nlinarith [sq_nonneg ‖s.q - (dykSweep P1 P2 s).q‖]
  have hp : (dykSweep P1 P2 s).p = s.p := by
    have := norm_eq_zero.1 (pow_eq_zero_iff (n := 2) (by norm_num) |>.1 hp0)
    exact (sub_eq_zero.1 this).symm
  have hq : (dykSweep P1 P2 s).q = s.q := by
    have := norm_eq_zero.1 (pow_eq_zero_iff (n := 2) (by norm_num) |>.1 hq0)
    exact (sub_eq_zero.1 this).symm
  refine ⟨?_, hp, hq⟩
  have hsum : (dykSweep P1 P2 s).x + (dykSweep P1 P2 s).p + (dykSweep P1 P2 s).q = s.x + s.p + s.q := by
    simp only [dykSweep]; abel
  rw [hp, hq] at hsum
  exact add_right_cancel (add_right_cancel hsum)

end nearest

/-- a stationary state with non-zero increments: `E = ℝ`, `A = {1}` (`P1 ≡ 1`), `B = [0, ∞)`, `x₀ = 3`: state `x = 1, p = 2, q = 0` -/
example : (dykSweep (fun _ : Rat => 1) (fun z => max z 0) ⟨1, 2, 0, 1⟩).x = 1 ∧
    (dykSweep (fun _ : Rat => 1) (fun z => max z 0) ⟨1, 2, 0, 1⟩).p = 2 ∧
    (dykSweep (fun _ : Rat => 1) (fun z => max z 0) ⟨1, 2, 0, 1⟩).q = 0 := by
  decide +kernel

/-- the hypothesis `hstop` of `dyk_stop_accuracy` is satisfiable: on `ℚ` with the sets `{1}` (projection `fun _ => 1`) and
`[0, ∞)` (projection `max · 0`), start `3`: the loop ends on its criterion, not on the limit of 5 sweeps. -/
example : (dykLoop (K := Rat) (V := Rat) (fun _ => 1) (fun z => max z 0) (fun v => v * v) (1 / 1000) 5 0 ⟨3, 0, 0, 3⟩).2
    = true := by
  decide +kernel

/-! ## backtracking projected gradient: every iterate is feasible -/

section pgdb
variable {K V : Type} [Field K] [LinearOrder K] [IsStrictOrderedRing K] [AddCommGroup V] [Module K V]

/-- C10.pgdb_step_feasible: one iteration.  If the current point is in the convex set `C` and the installed projection maps
into `C`, then the accepted step size is `2^{-j} ∈ (0,1]`, it passed the sufficient-decrease test as coded, and the next point
`x + α (proj(x − ∇f(x)/μ) − x)` is in `C`. -/
theorem pgdb_step_feasible {C : Set V} (hC : Convex K C) (proj : V → V) (hproj : ∀ z, proj z ∈ C)
    (f : V → K) (grad : V → V) (dot : V → V → K) (sqrt : K → K) (mu gamma : K) (mode : StopMode) (btFuel : Nat)
    (x : V) (hx : x ∈ C) (it : PgdbIter K V)
    (h : pgdbStep proj f grad dot sqrt mu gamma mode btFuel x = some it) :
    it.xNext ∈ C ∧ 0 < it.alpha ∧ it.alpha ≤ 1 ∧ it.y = proj (x - (1 / mu) • grad x) - x ∧
      it.xNext = x + it.alpha • it.y ∧ isDoingForAlpha f grad dot x it.y it.alpha gamma = false := by
  unfold pgdbStep at h
  cases hb : backtrack f grad dot x (pgdbDir proj grad mu x) gamma btFuel 1 with
  | none => simp [hb] at h
  | some a =>
    simp only [hb, Option.some.injEq] at h
    subst h
    obtain ⟨h0, h1, hacc⟩ := backtrack_range f grad dot x (pgdbDir proj grad mu x) gamma btFuel 1 a one_pos le_rfl hb
    refine ⟨?_, h0, h1, rfl, rfl, hacc⟩
    exact step_mem_of_convex hC hx (hproj _) h0 h1

/-- C10.pgdb_iterates_feasible: induction over the loop — for every iteration limit, stopping mode, history window and
threshold, every point the loop visits (hence every entry of the recorded history `x` and the returned estimate) lies in `C`,
provided the start point does. -/
theorem pgdb_iterates_feasible {C : Set V} (hC : Convex K C) (proj : V → V) (hproj : ∀ z, proj z ∈ C)
    (f : V → K) (grad : V → V) (dot : V → V → K) (sqrt : K → K) (mu gamma eps : K) (mode : StopMode)
    (numHist btFuel : Nat) :
    ∀ (fuel : Nat) (x : V) (errs : List K) (xs : List V) (res : List V × List K), x ∈ C → (∀ v ∈ xs, v ∈ C) →
      pgdbLoop proj f grad dot sqrt mu gamma eps mode numHist btFuel fuel x errs xs = some res →
      ∀ v ∈ res.1, v ∈ C := by
  intro fuel
  induction fuel with
  | zero =>
    intro x errs xs res _ hxs h
    simp only [pgdbLoop, Option.some.injEq] at h
    subst h; exact hxs
  | succ fuel ih =>
    intro x errs xs res hx hxs h
    unfold pgdbLoop at h
    cases hs : pgdbStep proj f grad dot sqrt mu gamma mode btFuel x with
    | none => simp [hs] at h
    | some it =>
      have hit := (pgdb_step_feasible hC proj hproj f grad dot sqrt mu gamma mode btFuel x hx it hs).1
      have hxs' : ∀ v ∈ it.xNext :: xs, v ∈ C := by
        intro v hv
        rcases List.mem_cons.1 hv with rfl | hv
        · exact hit
        · exact hxs v hv
      simp only [hs] at h
      by_cases hd : isDoing (errs ++ [it.err]) numHist eps = true
      · rw [if_pos hd] at h
        exact ih it.xNext _ _ res hit hxs' h
      · rw [if_neg hd] at h
        injection h with h; subst h
        exact hxs'

/-- C10.pgdb_estimate_feasible: the value returned by `optimize` and its whole iterate history are in `C` when the start point
is (the origin object of the estimation template is physical — C01/C17; a user-supplied `var_start` is the caller's
obligation). -/
theorem pgdb_estimate_feasible {C : Set V} (hC : Convex K C) (proj : V → V) (hproj : ∀ z, proj z ∈ C)
    (f : V → K) (grad : V → V) (dot : V → V → K) (sqrt : K → K) (mu gamma eps : K) (mode : StopMode)
    (numHist btFuel maxIter : Nat) (xStart : V) (hs : xStart ∈ C) (x : V) (hist : List V) (errs : List K)
    (h : pgdbOptimize proj f grad dot sqrt mu gamma eps mode numHist btFuel maxIter xStart = some (x, hist, errs)) :
    x ∈ C ∧ ∀ v ∈ hist, v ∈ C := by
  unfold pgdbOptimize at h
  cases hl : pgdbLoop proj f grad dot sqrt mu gamma eps mode numHist btFuel maxIter xStart [] [xStart] with
  | none => simp [hl] at h
  | some res =>
    obtain ⟨vs, es⟩ := res
    have hall := pgdb_iterates_feasible hC proj hproj f grad dot sqrt mu gamma eps mode numHist btFuel maxIter
      xStart [] [xStart] (vs, es) hs (by simpa using hs) hl
    cases vs with
    | nil => simp [hl] at h
    | cons v vs =>
      simp only [hl] at h
      by_cases hm : maxIter = 0
      · simp [hm] at h
      · simp only [hm, if_false, Option.some.injEq, Prod.mk.injEq] at h
        obtain ⟨rfl, rfl, _⟩ := h
        exact ⟨hall _ (by simp), hall⟩

end pgdb

/-- C10.pgdb_estimate_approx_feasible: the same with an *inexact* projection: if every projection output is within `δ` of the
convex set `C` (an assumption on the distance to `C` itself — for the physical set, an intersection, it is NOT what
`proj_physical_accuracy` delivers; see `pgdb_estimate_physical_to_threshold` for that) and the start
point is too, then every iterate and the returned estimate are within `δ` of `C` — the error does not accumulate over the
iterations.  (`V` a real normed space; `Metric.cthickening δ C = {x | dist(x, C) ≤ δ}`.) -/
theorem pgdb_estimate_approx_feasible {V : Type} [SeminormedAddCommGroup V] [NormedSpace ℝ V] {C : Set V} (hC : Convex ℝ C)
    (delta : ℝ) (proj : V → V) (hproj : ∀ z, proj z ∈ Metric.cthickening delta C)
    (f : V → ℝ) (grad : V → V) (dot : V → V → ℝ) (sqrt : ℝ → ℝ) (mu gamma eps : ℝ) (mode : StopMode)
    (numHist btFuel maxIter : Nat) (xStart : V) (hs : xStart ∈ Metric.cthickening delta C) (x : V) (hist : List V)
    (errs : List ℝ)
    (h : pgdbOptimize proj f grad dot sqrt mu gamma eps mode numHist btFuel maxIter xStart = some (x, hist, errs)) :
    x ∈ Metric.cthickening delta C ∧ ∀ v ∈ hist, v ∈ Metric.cthickening delta C :=
  pgdb_estimate_feasible (hC.cthickening delta) proj hproj f grad dot sqrt mu gamma eps mode numHist btFuel maxIter xStart hs
    x hist errs h

/-- C10.proj_physical_lands_in_threshold_set: what a physical projection that stopped on its criterion delivers, as a SET
statement: if the two elementary projections map into `Ceq` / `Cineq`, the result lies in the set of the projection applied last
and in the closed `δ`-thickening, `δ² ≥ eps`, of the set of the projection applied first (`normSq = ‖·‖²`).  (Nothing is claimed about the
distance to the intersection `Ceq ∩ Cineq` — that would need a regularity constant of the pair of sets.) -/
theorem proj_physical_lands_in_threshold_set {V : Type} [SeminormedAddCommGroup V] [NormedSpace ℝ V] {Ceq Cineq : Set V}
    (projEq projIneq : V → V) (hE : ∀ z, projEq z ∈ Ceq) (hI : ∀ z, projIneq z ∈ Cineq) (order : Order) (eps delta : ℝ)
    (hdelta : 0 ≤ delta) (heps : eps ≤ delta ^ 2) (maxIter : Nat) (zero x0 x : V)
    (h : projPhysical projEq projIneq order (fun v => ‖v‖ ^ 2) eps maxIter zero x0 = some (x, true)) :
    x ∈ (match order with | .eqIneq => Cineq | .ineqEq => Ceq) ∩
      Metric.cthickening delta (match order with | .eqIneq => Ceq | .ineqEq => Cineq) := by
  have hd : ∀ y : V, ‖x - y‖ ^ 2 < eps → dist x y ≤ delta := by
    intro y hy
    rw [dist_eq_norm]
    by_contra hc
    rw [not_le] at hc
    have : delta ^ 2 < ‖x - y‖ ^ 2 := by nlinarith [norm_nonneg (x - y)]
    linarith
  have hacc := proj_physical_accuracy projEq projIneq order (fun v => ‖v‖ ^ 2) (fun v => by positivity) eps maxIter zero x0 x
    true h
  cases order with
  | eqIneq =>
    obtain ⟨⟨z, hz⟩, hclose⟩ := hacc
    obtain ⟨w, hw⟩ := hclose rfl
    exact ⟨by subst hz; exact hI z, Metric.mem_cthickening_of_dist_le x _ _ _ (hE w) (hd _ hw)⟩
  | ineqEq =>
    obtain ⟨⟨z, hz⟩, hclose⟩ := hacc
    obtain ⟨w, hw⟩ := hclose rfl
    exact ⟨by subst hz; exact hE z, Metric.mem_cthickening_of_dist_le x _ _ _ (hI w) (hd _ hw)⟩

/-- C10.pgdb_estimate_physical_to_threshold: "physical to the accuracy of the stopping threshold" for the backtracking estimate:
with `A` the (convex) set of the projection applied last and `B` that of the projection applied first, the set
`A ∩ cthickening δ B` is convex; if the installed projection maps into it (which `proj_physical_lands_in_threshold_set` gives,
with `δ² = eps_proj_physical`, for every call that stopped on its criterion) and the start point lies in it, then every iterate
and the returned estimate lie in `A` exactly and within `δ` of `B`.  This — not `pgdb_estimate_approx_feasible`, whose
hypothesis speaks about the distance to the intersection — is what the Dykstra stop accuracy implies. -/
theorem pgdb_estimate_physical_to_threshold {V : Type} [SeminormedAddCommGroup V] [NormedSpace ℝ V] {A B : Set V}
    (hA : Convex ℝ A) (hB : Convex ℝ B) (delta : ℝ) (proj : V → V) (hproj : ∀ z, proj z ∈ A ∩ Metric.cthickening delta B)
    (f : V → ℝ) (grad : V → V) (dot : V → V → ℝ) (sqrt : ℝ → ℝ) (mu gamma eps : ℝ) (mode : StopMode)
    (numHist btFuel maxIter : Nat) (xStart : V) (hs : xStart ∈ A ∩ Metric.cthickening delta B) (x : V) (hist : List V)
    (errs : List ℝ)
    (h : pgdbOptimize proj f grad dot sqrt mu gamma eps mode numHist btFuel maxIter xStart = some (x, hist, errs)) :
    (x ∈ A ∧ x ∈ Metric.cthickening delta B) ∧ ∀ v ∈ hist, v ∈ A ∧ v ∈ Metric.cthickening delta B :=
  pgdb_estimate_feasible (hA.inter (hB.cthickening delta)) proj hproj f grad dot sqrt mu gamma eps mode numHist btFuel maxIter
    xStart hs x hist errs h

/-- an inexact projection in the sense of the theorem: `ℝ`, `A = [−1, ∞)`, `B = [0, ∞)`, `δ = 1`, `proj z = max z 0 − 1/2` -/
example : ∀ z : ℝ, (fun z => max z 0 - 1 / 2) z ∈ Set.Ici (-1 : ℝ) ∩ Metric.cthickening 1 (Set.Ici (0 : ℝ)) := by
  intro z
  refine ⟨?_, Metric.mem_cthickening_of_dist_le _ (max z 0) _ _ (Set.mem_Ici.2 (le_max_right _ _)) ?_⟩
  · show (-1 : ℝ) ≤ max z 0 - 1 / 2
    have := le_max_right z 0; linarith
  · rw [Real.dist_eq]; norm_num [abs_le]

/-- the hypotheses are satisfiable and the loop really moves: on `ℚ` with `C = [0, ∞)`, `proj = max 0`,
`f x = (x + 1)²`, start `1`: the run visits more than the start point. -/
example : (pgdbOptimize (K := Rat) (V := Rat) (fun z => max z 0) (fun x => (x + 1) * (x + 1)) (fun x => 2 * (x + 1))
    (fun a b => a * b) (fun v => v) 1 (3 / 10) (1 / 100) .singleDiffLoss 1 50 20 1).map (fun r => (r.1, r.2.1.length))
    = some (0, 3) := by
  decide +kernel

/-! ## exact data: the true object minimises the loss and is a fixed point of the backtracking iteration -/

/-- C10.exact_data_minimiser (squared-error loss as executed by the driver, `f x = ‖A x + c‖²`, `c = b − q`): if the data are the
exact distributions of the object with parameter `xTrue` (`A xTrue + b = q`, i.e. the residual vanishes), then `xTrue` attains
the global minimum `0` of the loss; in particular no physical point has a smaller loss. -/
theorem exact_data_minimiser {m n : Nat} (A : Mat Rat m n) (c : Vec Rat m) (xTrue : Vec Rat n)
    (hexact : ∀ i, ((A.mulVec xTrue).add c).get i = 0) (x : Vec Rat n) :
    Drv.seValue A c xTrue = 0 ∧ Drv.seValue A c xTrue ≤ Drv.seValue A c x := by
  have h0 := Drv.seValue_zero_of_residual_zero A c xTrue hexact
  exact ⟨h0, by rw [h0]; exact Drv.seValue_nonneg A c x⟩

/-- C10.weighted_exact_data_minimiser: the same for every weighted squared error with a positive-semidefinite weight matrix `W`
(all `mode_weight` option sets of the squared-error family whose weights are PSD): under exact data the true parameter attains
the global minimum `0`. -/
theorem weighted_exact_data_minimiser {m n : Nat} (A : Mat Rat m n) (c : Vec Rat m) (W : Mat Rat m m)
    (hW : ∀ v : Vec Rat m, 0 ≤ v.dot (W.mulVec v)) (xTrue : Vec Rat n)
    (hexact : ∀ i, ((A.mulVec xTrue).add c).get i = 0) (x : Vec Rat n) :
    Drv.wseValue A c W xTrue = 0 ∧ Drv.wseValue A c W xTrue ≤ Drv.wseValue A c W x := by
  have h0 : Drv.wseValue A c W xTrue = 0 := by
    unfold Drv.wseValue
    simp only [Vec.dot_eq, dotProduct]
    apply Finset.sum_eq_zero
    intro i _
    have : Vec.toV ((A.mulVec xTrue).add c) i = 0 := hexact i
    rw [this]; ring
  exact ⟨h0, by rw [h0]; exact hW _⟩

/-- a PSD, non-identity weight and non-trivial data: `W = diag(2, 1/2)`, `A = 1`, exact data of `xTrue = (1, 2)` -/
example : Drv.wseValue (Mat.one : Mat Rat 2 2) (Vec.ofFn ![(-1 : Rat), -2]) (Mat.ofFn ![![2, 0], ![0, 1 / 2]]) (Vec.ofFn ![1, 2]) = 0 ∧
    Drv.wseValue (Mat.one : Mat Rat 2 2) (Vec.ofFn ![(-1 : Rat), -2]) (Mat.ofFn ![![2, 0], ![0, 1 / 2]]) (Vec.ofFn ![0, 0]) = 4 := by
  decide +kernel

section fixed
variable {K V : Type} [Field K] [LinearOrder K] [IsStrictOrderedRing K] [AddCommGroup V] [Module K V]

/-- C10.pgdb_truth_is_fixed_partial: at a point where the loss gradient vanishes (the true object under exact data) and which
the installed projection leaves unchanged (a physical point), one backtracking iteration accepts `α = 1` and returns the same
point, with error value `0` in the two loss-difference modes.  *Partial*: that the iteration started at the origin object
reaches a neighbourhood of this fixed point within the stopping accuracy is not proved (no rate theorem); on the unchanged
tree it does not for POVM / measurement-process tomography with `on_para_eq_constraint=True` (finding D13). -/
theorem pgdb_truth_is_fixed_partial (proj : V → V) (f : V → K) (grad : V → V) (dot : V → V → K) (sqrt : K → K)
    (mu gamma : K) (mode : StopMode) (btFuel : Nat) (x : V) (hg : grad x = 0) (hp : proj x = x)
    (hdot : ∀ v, dot 0 v = 0) :
    ∃ it, pgdbStep proj f grad dot sqrt mu gamma mode (btFuel + 1) x = some it ∧ it.xNext = x ∧ it.alpha = 1 ∧ it.y = 0 ∧
      (mode = .singleDiffLoss ∨ mode = .sumAbsDiffLoss → it.err = 0) := by
  have hy : pgdbDir proj grad mu x = 0 := by
    unfold pgdbDir; rw [hg, smul_zero, sub_zero, hp, sub_self]
  have hacc : isDoingForAlpha f grad dot x (0 : V) (1 : K) gamma = false := by
    unfold isDoingForAlpha
    simp [hdot]
  refine ⟨⟨0, 1, x + (1 : K) • (0 : V), errorValue mode f sqrt (fun v => dot v v) x (x + (1 : K) • (0 : V)) 0⟩, ?_, ?_, rfl, rfl, ?_⟩
  · unfold pgdbStep
    rw [hy]
    simp only [backtrack, hacc]
    rfl
  · simp
  · intro hm
    rcases hm with rfl | rfl <;> simp [errorValue]

/-- C10.pgdb_run_from_stationary_point: the whole `optimize` run (every stopping mode, any window, any threshold `eps ≥ 0`, any
iteration limit ≥ 1; window `≥ 1` as the option constructor enforces) started at a point with vanishing loss gradient that the installed projection fixes — the true object
under exact data, handed in as `var_start` — performs exactly one iteration and returns that point: history `[x, x]`, error
values `[0]`.  (Strictly more of the code path than `pgdb_truth_is_fixed_partial`: line search, error value of all four modes,
window sum, stopping test and loop exit.) -/
theorem pgdb_run_from_stationary_point (proj : V → V) (f : V → K) (grad : V → V) (dot : V → V → K) (sqrt : K → K)
    (mu gamma eps : K) (heps : 0 ≤ eps) (mode : StopMode) (numHist btFuel maxIter : Nat) (_hn : 1 ≤ numHist) (x : V) (hg : grad x = 0)
    (hp : proj x = x) (hdot : ∀ v, dot 0 v = 0) (hsqrt : sqrt 0 = 0) :
    pgdbOptimize proj f grad dot sqrt mu gamma eps mode numHist (btFuel + 1) (maxIter + 1) x = some (x, [x, x], [0]) := by
  obtain ⟨it, hstep, hxn, _, hy, _⟩ :=
    pgdb_truth_is_fixed_partial proj f grad dot sqrt mu gamma mode btFuel x hg hp hdot
  have herr : it.err = 0 := by
    have hs := hstep
    unfold pgdbStep at hs
    cases hb : backtrack f grad dot x (pgdbDir proj grad mu x) gamma (btFuel + 1) 1 with
    | none => simp [hb] at hs
    | some a =>
      simp only [hb, Option.some.injEq] at hs
      have hy0 : pgdbDir proj grad mu x = 0 := by rw [← hs] at hy; exact hy
      have hx0 : x + a • pgdbDir proj grad mu x = x := by rw [hy0, smul_zero, add_zero]
      rw [← hs]
      simp only [hx0, hy0]
      cases mode <;> simp [errorValue, hdot, hsqrt]
  have hstop : isDoing ([] ++ [it.err]) numHist eps = false := by
    rw [herr]
    unfold isDoing windowSum
    have : lsum (List.drop (([] ++ [(0 : K)]).length - min ([] ++ [(0 : K)]).length numHist) ([] ++ [(0 : K)])) = 0 := by
      cases numHist <;> simp [lsum]
    rw [this]
    simpa using heps
  have hstop' : isDoing [(0 : K)] numHist eps = false := by simpa [herr] using hstop
  unfold pgdbOptimize
  simp only [pgdbLoop, hstep, hxn, herr, List.nil_append, hstop']
  simp

example : pgdbOptimize (K := Rat) (V := Rat) (fun z => max z 0) (fun x => x * x) (fun x => 2 * x) (fun a b => a * b) (fun v => v)
    1 (3 / 10) (1 / 100) .sumAbsDiffVar 2 5 9 0 = some (0, [0, 0], [0]) := by
  decide +kernel

end fixed

/-! ## momentum and FISTA: the returned point is a projection output -/

section momentum
variable {K V : Type} [Field K] [LinearOrder K] [IsStrictOrderedRing K] [AddCommGroup V] [Module K V]

/-- C10.pgdm_result_is_projection: for every iteration limit ≥ 1 the point returned by the momentum algorithm is
`func_proj(·)` of something, hence lies in any set the projection maps into — feasible to projection accuracy. -/
theorem pgdm_result_is_projection (proj : V → V) (f : V → K) (grad : V → V) (dot : V → V → K) (sqrt : K → K)
    (mag : V → Int) (gamma c95 eps : K) (mode : StopMode) (numHist : Nat) :
    ∀ (fuel : Nat) (s : PgdmState K V) (errs : List K), 0 < fuel →
      ∃ z, (pgdmLoop proj f grad dot sqrt mag gamma c95 eps mode numHist fuel s errs).1.x = proj z := by
  intro fuel
  induction fuel with
  | zero => intro s errs h; omega
  | succ fuel ih =>
    intro s errs _
    unfold pgdmLoop
    simp only
    split
    · cases fuel with
      | zero => exact ⟨_, rfl⟩
      | succ n => exact ih _ _ (Nat.succ_pos n)
    · exact ⟨_, rfl⟩

/-- C10.fista_result_is_projection: the same for the FISTA variant. -/
theorem fista_result_is_projection (proj : V → V) (f : V → K) (grad : V → V) (dot : V → V → K) (sqrt : K → K)
    (delta eps : K) (kcoef : Nat → K) (mode : StopMode) (numHist : Nat) :
    ∀ (fuel k : Nat) (x xpp : V) (errs : List K), 0 < fuel →
      ∃ z, (fistaLoop proj f grad dot sqrt delta eps kcoef mode numHist fuel k x xpp errs).1 = proj z := by
  intro fuel
  induction fuel with
  | zero => intro k x xpp errs h; omega
  | succ fuel ih =>
    intro k x xpp errs _
    unfold fistaLoop
    simp only
    split
    · cases fuel with
      | zero => exact ⟨_, rfl⟩
      | succ n => exact ih _ _ _ _ (Nat.succ_pos n)
    · exact ⟨_, rfl⟩

/-- C10.momentum_fista_optimize_result: the same through the `optimize` wrappers as executed by the driver (`pgdmrun`, `fistarun`):
whenever they return (iteration limit ≥ 1 — for `0` the real code raises and the model gives `none`), the returned point is a
projection output. -/
theorem momentum_fista_optimize_result (proj : V → V) (f : V → K) (grad : V → V) (dot : V → V → K) (sqrt : K → K)
    (mag : V → Int) (gamma c95 delta eps : K) (kcoef : Nat → K) (mode : StopMode) (numHist maxIter : Nat) :
    (∀ s0 r, pgdmOptimize proj f grad dot sqrt mag gamma c95 eps mode numHist maxIter s0 = some r → ∃ z, r.1.x = proj z) ∧
    (∀ x0 r, fistaOptimize proj f grad dot sqrt delta eps kcoef mode numHist maxIter x0 = some r → ∃ z, r.1 = proj z) ∧
    (maxIter = 0 → (∀ s0, pgdmOptimize proj f grad dot sqrt mag gamma c95 eps mode numHist maxIter s0 = none) ∧
      ∀ x0, fistaOptimize proj f grad dot sqrt delta eps kcoef mode numHist maxIter x0 = none) := by
  refine ⟨?_, ?_, ?_⟩
  · intro s0 r h
    unfold pgdmOptimize at h
    by_cases hm : maxIter = 0
    · simp [hm] at h
    · simp only [hm, if_false, Option.some.injEq] at h
      subst h
      exact pgdm_result_is_projection proj f grad dot sqrt mag gamma c95 eps mode numHist maxIter s0 [] (Nat.pos_of_ne_zero hm)
  · intro x0 r h
    unfold fistaOptimize at h
    by_cases hm : maxIter = 0
    · simp [hm] at h
    · simp only [hm, if_false, Option.some.injEq] at h
      subst h
      exact fista_result_is_projection proj f grad dot sqrt delta eps kcoef mode numHist maxIter 1 x0 x0 []
        (Nat.pos_of_ne_zero hm)
  · intro hm
    exact ⟨fun _ => by simp [pgdmOptimize, hm], fun _ => by simp [fistaOptimize, hm]⟩

example : (fistaOptimize (K := Rat) (V := Rat) (fun z => max z 0) (fun x => (x + 1) * (x + 1)) (fun x => 2 * (x + 1))
    (fun a b => a * b) (fun v => v) (1 / 4) (1 / 100) (fun k => ((k : Int) - 2 : Int) / ((k : Int) + 1 : Int)) .sumAbsDiffVar 1 30 1).map
      (fun r => r.1) = some 0 := by
  decide +kernel

/-- C10.projection_output_feasible: a projection output lies in every set the projection maps into (used with the two
theorems above and `proj_physical_accuracy`). -/
theorem projection_output_feasible {C : Set V} (proj : V → V) (hproj : ∀ z, proj z ∈ C) (x : V) (h : ∃ z, x = proj z) :
    x ∈ C := by
  obtain ⟨z, rfl⟩ := h; exact hproj z

end momentum

end QM.C10
