import QProofs.C13
import QProofs.C13Gen
/-!
# C13 — property theorems: results depend only on arguments (state machines of QModel.C13)

Every theorem quantifies over *all* histories (lists of calls of any length) unless its doc comment says
"concrete witness". Clauses of the property and what carries them:

* "whether cached tables of a composite system have been built, dropped or rebuilt" → (a) `cache_*`, tied to the source by
  the regenerated getter / builder / delete tables (`gen_cache_*`, `gen_getters_*`, `gen_deletes_*`).
* "whatever datasets a loss function or algorithm object processed earlier" → (b) `loss_*`, `gen_reuse_refines_fresh`,
  `fast_reuse_refines_fresh` (unconditional: every mode string an option constructor accepts has a branch that installs
  weights depending on the current call only — `gen_modes_handled`, about the regenerated branch tables); the fast loss
  *reads the same attributes* as the generic one (`fast_obs_eq_gen`; that the two value formulas agree on equal attributes
  is C12's theorem, not restated here). (c) `algo_*`: **false on the tree** — the algorithm object keeps its first
  projection (D10): exact characterisation `algo_reuse_eq_fresh_iff` and a proved negation witness.
* "global tolerance changes that are restored" → (d) `atol_*`: bookkeeping of the one global variable (what *captures* the
  tolerance is stated by `ctorEps_*`; captured values are arguments of the objects that hold them).
* "no operation changes … its operands" → (e) `projEq_*`, conditional on the aliasing bit the translator reads off
  `convert_var_to_hss` (`gen_projEq_arg_unchanged` discharges it for the current source; `projEq_arg_overwritten_of_view`
  is the mutated-argument statement for the other value of the bit), and (g) `gen_param_writes_declared` etc.
* NOT carried by any Lean theorem (observed on the implementation by the history fuzzer's fresh-world differential and
  byte snapshots only): copies are independent of their originals, matrix bases cannot be modified, queries / conversions
  / projections / compose / tensor do not change their operands and give fresh-object results, and all *interleavings* of
  the five machines on a shared pool (the machines below are single-object).
-/
namespace QM.C13


/-! ## (a) caches -/

/-- C13.a `cache_transparent`: after *any* history of getter / delete calls on a fresh composite system, every getter
returns the pure table of the basis. -/
theorem cache_transparent {T : Type} (tbl : Key → T) (ops : List COp) (k : Key) :
    (cstep tbl (crun tbl Cache.empty ops).1 (.get k)).2 = .table (some (tbl k)) :=
  get_out tbl _ k (crun_ok tbl ops _ (cacheOk_empty tbl))

/-- C13.a: the same for every getter call *inside* the history (outputs are listed in call order). -/
theorem cache_transparent_all {T : Type} (tbl : Key → T) (ops : List COp) :
    ∀ p ∈ ops.zip (crun tbl Cache.empty ops).2, ∀ k, p.1 = .get k → p.2 = .table (some (tbl k)) :=
  crun_gets_pure tbl ops _ (cacheOk_empty tbl)

/-- C13.a: two composite systems with different histories answer every getter identically
("built, dropped or rebuilt" is unobservable). -/
theorem cache_history_irrelevant {T : Type} (tbl : Key → T) (h₁ h₂ : List COp) (k : Key) :
    (cstep tbl (crun tbl Cache.empty h₁).1 (.get k)).2 = (cstep tbl (crun tbl Cache.empty h₂).1 (.get k)).2 := by
  rw [cache_transparent, cache_transparent]

/-- C13.a: the getter of an unbuilt table runs the builder of its group, which assigns every table of the group
(`_calc_basis_sparse` two tables, `_calc_basis_basisconjugate_sparse` four). -/
theorem get_builds_group {T : Type} (tbl : Key → T) (s : Cache T) (k j : Key) (hk : s k = none)
    (hj : j.grp = k.grp) : (cstep tbl s (.get k)).1 j = some (tbl j) := by
  simp [cstep, hk, build, hj]

/-- C13.a: … and leaves the tables of the other groups as they were; a getter of a built table changes nothing. -/
theorem get_other_unchanged {T : Type} (tbl : Key → T) (s : Cache T) (k j : Key)
    (h : j.grp ≠ k.grp ∨ (s k).isSome) : (cstep tbl s (.get k)).1 j = s j := by
  simp only [cstep]
  rcases h with h | h
  · split <;> simp [build, h]
  · cases hk : s k with
    | none => simp [hk] at h
    | some v => simp

/-- C13.a: `delete_*` drops exactly its own table; `_basis_basisconjugate` has no delete method. -/
theorem delete_only_key {T : Type} (tbl : Key → T) (s : Cache T) (k j : Key) (hk : k.deletable = true) :
    (cstep tbl s (.delete k)).1 j = if j = k then none else s j := by
  simp [cstep, hk]

theorem delete_bbc_noMethod {T : Type} (tbl : Key → T) (s : Cache T) :
    cstep tbl s (.delete .bbc) = (s, .noMethod) := by
  simp [cstep, Key.deletable]

/-- non-vacuity: a history that builds, drops and rebuilds; the last getter rebuilds the four-table group. -/
example : (crun Key.toNat Cache.empty [.get .bT, .delete .bT, .get .bconj, .get .bbcT1, .delete .bbcT, .get .bbcT]).2
    = [.table (some 3), .deleted, .table (some 4), .table (some 7), .deleted, .table (some 6)] := by decide

/-! ## (b) loss objects -/

section loss
variable {A Q W : Type}

/-- C13.b `loss_fields_current`: after a `set_from_standard_qtomography_option_data` call the forward-model arrays,
the data and the option are those of *this* call, whatever the object processed before. -/
theorem loss_fields_current (s : Loss A Q W) (c : Cfg A Q W) :
    (configure s c).matA = some c.matA ∧ (configure s c).q = some c.q ∧
    (configure s c).option = some (c.mode, c.optWeights) := by
  rw [configure_eq]; exact ⟨rfl, rfl, rfl⟩

/-- C13.b: the weights after a call depend on this call only (`identity` resets them to `None`). -/
theorem loss_weights_after (s : Loss A Q W) (c : Cfg A Q W) :
    (configure s c).weights = match c.mode with
      | .identity => none | .custom => c.optWeights | .invCov => some c.dataW := by
  simp only [configure_eq]
  cases c.mode <;> rfl

/-- C13.b `fast_ext_follows_weights`: after every call the extended weights of the fast loss are built from the weights
the object now holds. -/
theorem fast_ext_follows_weights (s : Loss A Q W) (c : Cfg A Q W) :
    (configure s c).ext = (configure s c).weights := by
  simp only [configure_eq]

/-- C13.b: hence the fast loss reads the same attribute values as the generic loss (that equal attributes give equal
values is a statement about the two value formulas: C12). -/
theorem fast_obs_eq_gen (s : Loss A Q W) (c : Cfg A Q W) : obsFast (configure s c) = obsGen (configure s c) := by
  simp only [obsFast, obsGen, fast_ext_follows_weights]

/-- C13.b `gen_reuse_refines_fresh`: after **any** earlier state of the object the generic loss reads exactly what a
fresh object reads — for every mode. -/
theorem gen_reuse_refines_fresh (s : Loss A Q W) (c : Cfg A Q W) :
    obsGen (configure s c) = obsGen (configure Loss.fresh c) := by
  simp only [obsGen, configure_eq]

/-- C13.b `fast_reuse_refines_fresh`: the same for the fast loss. -/
theorem fast_reuse_refines_fresh (s : Loss A Q W) (c : Cfg A Q W) :
    obsFast (configure s c) = obsFast (configure Loss.fresh c) := by
  rw [fast_obs_eq_gen, fast_obs_eq_gen]
  exact gen_reuse_refines_fresh s c

/-- C13.b `reuse_refines_fresh` over whole histories: after any list of earlier datasets of any modes the next dataset is
read as by a fresh object — by both losses, and from any constructor weights. -/
theorem reuse_refines_fresh_history (s₀ : Loss A Q W) (h : List (Cfg A Q W)) (c : Cfg A Q W) :
    obsGen (configure (lrun s₀ h) c) = obsGen (configure Loss.fresh c) ∧
    obsFast (configure (lrun s₀ h) c) = obsFast (configure Loss.fresh c) :=
  ⟨gen_reuse_refines_fresh _ c, fast_reuse_refines_fresh _ c⟩

/-- C13.b: what a dataset is valued with: the weights of its own mode (none for identity), whatever came before. -/
theorem fast_uses_current_dataset_weights (s : Loss A Q W) (c : Cfg A Q W) :
    obsFast (configure s c) = (some c.matA, some c.q,
      match c.mode with | .identity => none | .custom => c.optWeights | .invCov => some c.dataW) := by
  simp only [obsFast, configure_eq]
  cases c.mode <;> rfl

end loss

/-- a two-dataset history (concrete, integers): one schedule with two outcomes, one variable, `p(var) = (var, var)`, data
`q = (0, 1)`; first dataset with custom weights `diag(1,2)`, then `identity` -/
def witnessCustom : Cfg (List (List Int) × List Int) (List Int) (List (List (List Int))) :=
  { mode := .custom, optWeights := some [[[1, 0], [0, 2]]], matA := ([[1], [1]], [0, 0]), q := [0, 1],
    dataW := [], gradReq := true }
def witnessIdentity : Cfg (List (List Int) × List Int) (List Int) (List (List (List Int))) :=
  { witnessCustom with mode := .identity, optWeights := none }

/-- non-vacuity / the former counter-example: the identity dataset after the custom one is valued 5 by the re-used
objects, as by fresh ones (it used to be 9, with the custom weights of the first dataset) -/
example : valueFast 2 (configure (lrun Loss.fresh [witnessCustom]) witnessIdentity) [-1] = some 5
    ∧ valueGen 2 (configure (lrun Loss.fresh [witnessCustom]) witnessIdentity) [-1] = some 5
    ∧ valueFast 2 (configure Loss.fresh witnessIdentity) [-1] = some 5
    ∧ valueFast 2 (configure Loss.fresh witnessCustom) [-1] = some 9
    ∧ valueGen 2 (configure Loss.fresh witnessCustom) [-1] = some 9 := by decide

/-! ## (c) algorithm object -/

/-- C13.c: `_qt` is always the tomography of the last call. -/
theorem algo_qt_current {QT : Type} (s : Algo QT) (c : QT × AlgoOpt) : (setConstraint s c).qt = some c.1 :=
  setConstraint_qt s c

/-- C13.c (D10 as it is): after any non-empty history on a fresh algorithm object the projection is the one of the
**first** call; later tomographies / options are ignored. -/
theorem algo_proj_is_first {QT : Type} (c : QT × AlgoOpt) (h : List (QT × AlgoOpt)) :
    (arun Algo.fresh (c :: h)).funcProj = some (projOf c.1 c.2) := by
  show (arun (setConstraint Algo.fresh c) h).funcProj = _
  exact arun_proj_some h _ _ (by simp [setConstraint, Algo.fresh])

/-- C13.c `algo_reuse_eq_fresh_iff` (full characterisation, replaces the partial statement): after a non-empty history
re-use equals fresh use **exactly when** the first call of the history asked for the projection the current call asks
for — whatever happened in between. -/
theorem algo_reuse_eq_fresh_iff {QT : Type} (d : QT × AlgoOpt) (h : List (QT × AlgoOpt)) (c : QT × AlgoOpt) :
    setConstraint (arun Algo.fresh (d :: h)) c = setConstraint Algo.fresh c ↔ projOf d.1 d.2 = projOf c.1 c.2 := by
  have hp := algo_proj_is_first d h
  have hf := setConstraint_proj_some (arun Algo.fresh (d :: h)) c _ hp
  have hq : (setConstraint (arun Algo.fresh (d :: h)) c).qt = some c.1 := setConstraint_qt _ _
  have hfresh : setConstraint (Algo.fresh : Algo QT) c = ⟨some c.1, some (projOf c.1 c.2)⟩ := by
    simp [setConstraint, Algo.fresh]
  rw [hfresh]
  cases hx : setConstraint (arun Algo.fresh (d :: h)) c with
  | mk q f =>
      simp only [hx] at hq hf
      subst hq; subst hf
      simp

example : setConstraint (arun Algo.fresh [((0 : Nat), (⟨true, true, false, some 20⟩ : AlgoOpt)), (1, ⟨false, false, true, none⟩)])
    (2, ⟨true, true, false, some 20⟩) ≠ setConstraint Algo.fresh (2, ⟨true, true, false, some 20⟩) := by
  rw [Ne, algo_reuse_eq_fresh_iff]; decide

/-- C13.c negation witness (concrete): first dataset with both constraints on, second with both off — the re-used
object still projects onto the physical set, a fresh one would not project at all. -/
theorem algo_reuse_refines_fresh_fails :
    ¬ ∀ (h : List (Nat × AlgoOpt)) (c : Nat × AlgoOpt),
        (setConstraint (arun Algo.fresh h) c).funcProj = (setConstraint Algo.fresh c).funcProj := by
  intro hall
  have := hall [(0, ⟨true, true, false, none⟩)] (0, ⟨false, false, false, none⟩)
  revert this
  decide

/-- the positive direction of `algo_reuse_eq_fresh_iff` instantiated: two earlier calls, the first asking for the same
projection as the current one (the second for another one) -/
example : setConstraint (arun Algo.fresh [((0 : Nat), (⟨true, true, false, some 20⟩ : AlgoOpt)), (1, ⟨false, true, false, none⟩)])
    (0, ⟨true, true, false, some 20⟩) = setConstraint Algo.fresh (0, ⟨true, true, false, some 20⟩) := by
  rw [algo_reuse_eq_fresh_iff]

/-- C13.c: a projection handed to the constructor is never replaced (the documented use of the constructor argument). -/
theorem algo_ctor_proj_kept {QT : Type} (p : Proj QT) (q : Option QT) (h : List (QT × AlgoOpt)) :
    (arun ⟨q, some p⟩ h).funcProj = some p :=
  arun_proj_some h _ p rfl

/-! ## (d) global tolerance -/

/-- histories that hand the tolerance back: reads, rejected sets, and `set x; body; set old` brackets around *any* body
(the body may itself change the tolerance any number of times) -/
inductive Bal : Rat → List AOp → Prop
  | nil (a : Rat) : Bal a []
  | read (a : Rat) (h : List AOp) : Bal a h → Bal a (.read :: h)
  | bad (a : Rat) (h : List AOp) : Bal a h → Bal a (.setBad :: h)
  | bracket (a x : Rat) (body rest : List AOp) : Bal a rest → Bal a (bracket a x body ++ rest)

/-- C13.d `atol_restore_neutral`: a balanced history leaves the global tolerance as it found it. -/
theorem atol_restore_neutral (a : Rat) (h : List AOp) (hb : Bal a h) : (arunAtol a h).1 = a := by
  induction hb with
  | nil => rfl
  | read h _ ih => simpa [arunAtol, astep] using ih
  | bad h _ ih => simpa [arunAtol, astep] using ih
  | bracket x body rest _ ihr =>
      simp only [bracket, List.cons_append, List.append_assoc, arunAtol, astep]
      rw [arunAtol_append]
      simp only [List.nil_append, arunAtol, astep]
      exact ihr

/-- C13.d: … and is invisible to everything that runs after it: the outputs of `rest` are those of `rest` alone. -/
theorem atol_bracket_invisible (a x : Rat) (body rest : List AOp) :
    (arunAtol a (bracket a x body ++ rest)).2
      = .ok :: (arunAtol x body).2 ++ .ok :: (arunAtol a rest).2 := by
  simp only [bracket, List.cons_append, List.append_assoc, arunAtol, astep]
  rw [arunAtol_append]
  simp [arunAtol, astep]

/-- C13.d: a rejected `set_atol` (non-float argument) changes nothing. -/
theorem atol_bad_set_neutral (a : Rat) : astep a .setBad = (a, .typeError) := rfl

/-- C13.d: an object constructed with an explicit non-zero `eps_proj_physical` does not depend on the global tolerance
at construction time (with `None` or `0` it takes `atol/10` — an argument of the constructor in effect). -/
theorem ctorEps_explicit (a₁ a₂ e : Rat) (he : e ≠ 0) : ctorEps a₁ (some e) = ctorEps a₂ (some e) := by
  simp [ctorEps, he]

/-- C13.d (the exception, stated explicitly): with `eps_proj_physical` `None` or `0` the constructor *captures* the
global tolerance of the moment — an object built inside a bracket keeps the body's tolerance / 10. -/
theorem ctorEps_default_captures (a : Rat) : ctorEps a none = a / 10 ∧ ctorEps a (some 0) = a / 10 := by
  simp [ctorEps]

example : ctorEps (1/1000) none ≠ ctorEps (1/10000000000000) none := by decide +kernel

example : Bal (1/10) (bracket (1/10) (1/2) [.read, .setBad] ++ [.read]) :=
  .bracket _ _ _ _ (.read _ _ (.nil _))

/-! ## (f) interleavings on a shared pool -/

section pool
variable {T A Q W QT : Type}

/-- C13.f `interleaving_independent`: in **any** interleaving of calls on a composite system, a loss object, an algorithm
object and the global tolerance, each object ends in the state its own sub-history alone would have produced — the calls
made on the other objects in between do not matter. (That the implementation's objects share no attributes is the
regenerated fact `gen_writers_declared`; that no call writes into another object's arrays is observed by the snapshots.) -/
theorem interleaving_independent (tbl : Key → T) (s : Pool T A Q W QT) (h : List (POp A Q W QT)) :
    (prun tbl s h).cache = (crun tbl s.cache (h.filterMap POp.cache?)).1 ∧
    (prun tbl s h).loss = lrun s.loss (h.filterMap POp.loss?) ∧
    (prun tbl s h).algo = arun s.algo (h.filterMap POp.algo?) ∧
    (prun tbl s h).atol = (arunAtol s.atol (h.filterMap POp.atol?)).1 :=
  prun_components tbl h s

/-- C13.f `interleaved_cache_transparent`: after any interleaved history on a fresh pool every cache getter still returns
the pure table. -/
theorem interleaved_cache_transparent (tbl : Key → T) (l : Loss A Q W) (al : Algo QT) (a : Rat)
    (h : List (POp A Q W QT)) (k : Key) :
    (cstep tbl (prun tbl ⟨Cache.empty, l, al, a⟩ h).cache (.get k)).2 = .table (some (tbl k)) := by
  rw [(interleaving_independent tbl _ h).1]
  exact cache_transparent tbl _ k

/-- C13.f `interleaved_loss_reuse_refines_fresh`: … and the next dataset is read by the loss object as by a fresh one
(both observers), whatever was interleaved. -/
theorem interleaved_loss_reuse_refines_fresh (tbl : Key → T) (s : Pool T A Q W QT) (h : List (POp A Q W QT))
    (c : Cfg A Q W) :
    obsGen (configure (prun tbl s h).loss c) = obsGen (configure Loss.fresh c) ∧
    obsFast (configure (prun tbl s h).loss c) = obsFast (configure Loss.fresh c) :=
  ⟨gen_reuse_refines_fresh _ c, fast_reuse_refines_fresh _ c⟩

end pool

/-- a concrete interleaving: cache calls, two datasets, two algorithm configurations and a tolerance bracket mixed -/
example : let h : List (POp (List (List Int) × List Int) (List Int) (List (List (List Int))) Nat) :=
      [.cache (.get .bT), .loss witnessCustom, .atol (.set (1/2)), .algo (0, ⟨true, true, false, none⟩), .cache (.delete .bT),
       .loss witnessIdentity, .atol (.set (1/10)), .algo (1, ⟨false, false, false, none⟩), .cache (.get .bconj)]
    let s := prun Key.toNat ⟨Cache.empty, Loss.fresh, Algo.fresh, 1/10⟩ h
    (s.cache .bconj, s.loss.weights, s.algo.funcProj, s.atol)
      = (some 4, none, some (.physical 0 false none), 1/10) := by
  decide +kernel

/-! ## (e) operand mutation through views -/

section projeq
variable {K : Type} [Add K] [Mul K] [Sub K] [Zero K] [One K]

/-- the aliasing bit of the branch taken -/
def aliasBit (alias : Bool × Bool) (flag : Bool) : Bool := if flag then alias.1 else alias.2

/-- C13.e `projEq_arg_unchanged_of_copy`: if `convert_var_to_hss` hands back copies in the branch taken, the argument of
`calc_proj_eq_constraint_with_var` is untouched. -/
theorem projEq_arg_unchanged_of_copy (alias : Bool × Bool) (n m : Nat) (invm : K) (flag : Bool) (var : List K)
    (h : aliasBit alias flag = false) : (projEqWithVar alias n m invm flag var).2 = var := by
  cases flag <;> simp_all [projEqWithVar, varToHss, aliasBit]

/-- C13.e `projEq_arg_overwritten_of_view` (the defect D5 as a statement about the other value of the bit): if the
matrices are views of the argument, the in-place row correction writes through them — without the flag the argument
array afterwards holds exactly the returned variables. -/
theorem projEq_arg_overwritten_of_view (alias : Bool × Bool) (n m : Nat) (invm : K) (var : List K)
    (h : alias.2 = true) :
    (projEqWithVar alias n m invm false var).2 = (projEqWithVar alias n m invm false var).1 := by
  simp [projEqWithVar, varToHss, hssToVar, h]

end projeq

/-- mutated-argument witness (concrete, `Rat`, n = dim² = 4 with one outcome… kept small: n = 2, two outcomes): with the
aliasing bit set the argument is overwritten by the projected rows; with the bits the translator generates from the
current source it is not. -/
example : (projEqWithVar (false, true) 2 2 ((1 : Rat) / 2) false [1, 2, 3, 4, 5, 6, 7, 8]).2 = [-3/2, -2, 3, 4, 5/2, 2, 7, 8]
    ∧ projEqWithVar (QGen.C13.hssAliasFlagTrue, QGen.C13.hssAliasFlagFalse) 2 2 ((1 : Rat) / 2) false [1, 2, 3, 4, 5, 6, 7, 8]
      = ([-3/2, -2, 3, 4, 5/2, 2, 7, 8], [1, 2, 3, 4, 5, 6, 7, 8])
    ∧ (projEqWithVar (QGen.C13.hssAliasFlagTrue, QGen.C13.hssAliasFlagFalse) 2 2 ((1 : Rat) / 2) true [1, 2, 3, 4, 7, 8]).2
      = [1, 2, 3, 4, 7, 8] := by
  decide +kernel

/-! ## (g) the attribute discipline the state machines assume, proved about tables REGENERATED from the source

`QGen/C13.lean` is rewritten by `harness/c13_translate.py` (Python `ast`) from /repo on every run. The theorems below are
finite facts about those tables (`decide`); together with the correspondence they tie the hand-written machines to the code:
a new cached attribute, a memoising decorator, an in-place array operation or an attribute write outside the declared
mutators changes a table and breaks the corresponding obligation. -/
section generated
open QGen.C13 Gen

/-- C13.g: the nine attributes `CompositeSystem.__init__` resets are exactly the model's cache keys, in order. -/
theorem gen_cache_attrs : csCacheInit.map keyOfAttr = Key.all.map some := by decide

/-- C13.g: every generated getter tests a cache key and, when it is `None`, assigns exactly the tables of that key's
builder group (`Key.grp`); every key has a getter. -/
theorem gen_getters_match_model :
    csGetters.all getterOk = true ∧
    Key.all.all (fun k => csGetters.any (fun e => keyOfAttr e.2.1 == some k)) = true := by decide

/-- C13.g: every generated `delete_*` resets exactly one attribute, a deletable key, and the deletable keys are exactly
those with a delete method (`Key.deletable`). -/
theorem gen_deletes_match_model :
    csDeletes.all deleteOk = true ∧
    Key.all.all (fun k => k.deletable == csDeletes.any (fun e => e.2.map keyOfAttr == [some k])) = true := by decide

/-- C13.g: after construction a CompositeSystem only ever binds cache attributes (the basis the tables are computed from
is never re-bound), and the one method that binds the defining data resets every cache — the hypothesis `tbl` of
`cache_transparent` is a function of the object's construction only. -/
theorem gen_cs_writes_only_caches :
    csWriters.all (fun e => e.1 == "__init__" || e.2.all (fun a => (keyOfAttr a).isSome)) = true ∧
    csWriters.all (fun e => !(e.2.contains "_total_basis" || e.2.contains "_elemental_systems")
      || csCacheInit.all (e.2.contains ·)) = true := by decide

/-- C13.g `gen_writers_declared`: in all 43 scanned classes (value objects, bases, systems, Settings, Experiment,
tomography, estimator, loss, option and algorithm classes) the only methods that bind an attribute of their object are
constructors and the declared mutators — no query, conversion, projection, estimate or property getter keeps state. -/
theorem gen_writers_declared : objWriters.all writerOk = true := by decide

/-- C13.g: no method of those classes carries a memoising (or any non-standard) decorator. -/
theorem gen_no_memo_decorators : objDecorators.all (fun e => e.2.2 == "abstractproperty") = true := by decide

/-- C13.g: in-place operations on containers held by an object occur only in constructors / their helpers and in the cache
builders that fill the dictionary they have just created. -/
theorem gen_inplace_declared : objInplace.all (fun e => declaredInplace.contains (e.1, e.2.1)) = true := by decide

/-- C13.g `gen_param_writes_declared`: no function of quara/{objects, utils, math, loss_function,
minimization_algorithm, protocol, qcircuit} writes into an array or container it received as a parameter (subscript /
augmented assignment, in-place ndarray methods, `out=`; aliases through assignment, views and loop variables followed),
apart from three functions that re-bind the name to a copy before writing. -/
theorem gen_param_writes_declared :
    paramWrites.all (fun e => declaredParamWriters.contains (e.1, e.2.1)) = true := by decide

/-- C13.g `gen_projEq_arg_unchanged`: the bits the translator reads off the current `convert_var_to_hss` say "copy" in both
branches, so `calc_proj_eq_constraint_with_var` (as the driver executes it, with these bits) leaves its argument alone for
both values of `on_para_eq_constraint`. Reverting the copy flips a bit and breaks this theorem. -/
theorem gen_projEq_arg_unchanged {K : Type} [Add K] [Mul K] [Sub K] [Zero K] [One K]
    (n m : Nat) (invm : K) (flag : Bool) (var : List K) :
    (projEqWithVar (hssAliasFlagTrue, hssAliasFlagFalse) n m invm flag var).2 = var :=
  projEq_arg_unchanged_of_copy _ n m invm flag var (by cases flag <;> decide)

/-- C13.g `gen_modes_handled`: every mode string the two option constructors accept has a branch in the regenerated
`_set_weights_by_mode` chain, that branch is not `pass`, and it performs the action of the model's `lstep` for the mode
the driver resolves the string to; the fast losses do not override `_set_weights_by_mode`. So the `Mode` of the model
covers all accepted inputs and `*_reuse_refines_fresh` need no side condition. -/
theorem gen_modes_handled :
    wseAccepted.all (modeHandled wseBranches) = true ∧ wreAccepted.all (modeHandled wreBranches) = true ∧
    (objMethods.filter (fun e => e.1 == "StandardQTomographyBasedWeightedProbabilityBasedSquaredError"
        || e.1 == "StandardQTomographyBasedWeightedRelativeEntropy")).map
      (fun e => e.2.contains "_set_weights_by_mode") = [false, false] := by decide

/-- C13.g `gen_loss_wiring`: the setter calls of `set_from_standard_qtomography_option_data`, in source order and with their
guards, are the model's `cfgOps` (the Hessian setter, which no modelled algorithm requests, omitted). -/
theorem gen_loss_wiring {A Q W : Type} (c : Cfg A Q W) (hg : c.gradReq = true) :
    (cfgOps c).map LOp.name = lossWiring.filter (fun e => e.2 != "is_hessian_required") := by
  simp [cfgOps, hg, LOp.name]; decide

/-- C13.g `gen_cache_follows_source`: for the fast losses, every method (own or inherited, resolved along the generated
base-class table; self-calls and `super()` calls followed in evaluation order; the closure has to be *defined*: no missing
class or method, no exhausted call depth) that binds a source attribute also binds the cache derived from it —
`_weight_matrices → _extend_weight_matrix` and `_weights → _extend_weights` **after** the source (they are recomputed from
the attribute), `_prob_dists_q → _prob_dists_q_flat` (computed from the same argument). -/
theorem gen_cache_follows_source : derivedCaches.all cacheFollows = true := by decide

/-- C13.g: `set_constraint_from_standard_qt_and_option` has the shape the algorithm machine mirrors: `_qt` is assigned
first, then `if self._func_proj is not None: return`, then an if / elif / else chain on the two flags whose factories are
those of `projOf`. -/
theorem gen_pgd_shape (qt : Nat) (onEq onIneq ie : Bool) (mi : Option Nat) :
    pgdPre = ["_qt"] ∧ pgdGuard = "_func_proj" ∧
    (pgdBranches.head?.map (·.2.2) = some ["max_iteration", "mode_proj_order", "on_para_eq_constraint"]) ∧
    genFactory onEq onIneq = some (factoryName (projOf qt ⟨onEq, onIneq, ie, mi⟩)) := by
  refine ⟨by decide, by decide, by decide, ?_⟩
  cases onEq <;> cases onIneq <;> simp [projOf, factoryName] <;> decide

/-- non-vacuity: the tables are not empty, and the closure does follow a `super()` call and a self-call
(`set_weight_matrices` of the fast loss binds both the weights and the extended weights) -/
example : csGetters.length = 9 ∧ csDeletes.length = 8 ∧ 40 < objWriters.length ∧
    (mro 8 "StandardQTomographyBasedWeightedProbabilityBasedSquaredError").map (·.length) = some 4 ∧
    ((mro 8 "StandardQTomographyBasedWeightedProbabilityBasedSquaredError").bind fun full =>
      effWrites "StandardQTomographyBasedWeightedProbabilityBasedSquaredError" full 8 full "set_weight_matrices")
      = some ["_weight_matrices", "_extend_weight_matrix", "_extend_weight_matrix"] := by decide

/-- the order matters, and a cut-off closure is rejected: `cacheFollows` is false on a class the tables do not know -/
example : lastIdx "_weight_matrices" ["_extend_weight_matrix", "_weight_matrices"] = some 1 ∧
    lastIdx "_extend_weight_matrix" ["_extend_weight_matrix", "_weight_matrices"] = some 0 ∧
    cacheFollows ("NoSuchClass", "_a", "_b", true) = false ∧
    effWrites "StandardQTomographyBasedWeightedRelativeEntropy" ["StandardQTomographyBasedWeightedRelativeEntropy"] 0
      ["StandardQTomographyBasedWeightedRelativeEntropy"] "set_weights" = none := by decide

end generated

end QM.C13
