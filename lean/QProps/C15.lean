import QProofs.C15
import QProofs.C15Gen
/-!
# C15 — property theorems: Monte-Carlo simulations are reproducible with independent repetitions

Unbounded in the number of repetitions, samples, tasks, batches and estimates. The generator is abstract (`Prng`);
`SeedSequence.spawn` is an abstract child function. What is *not* claimed: that MT19937 streams from different
seeds are statistically independent, or anything about joblib's process handling (the theorems are about the task
model; the implementation is observed by the harness).
-/
namespace QM.C15
open Matrix

section loop
variable {S G D : Type}

/-- C15.a `loop_int_segments`: with an **integer** seed the generator is created once, before the loop: repetition `k`
draws from the state reached after `k` earlier repetitions (consecutive segments of the one stream seeded with `s`);
the seed object and the global state are untouched. -/
theorem loop_int_segments (P : Prng S G D) (s : S) (glob : G) (n : Nat) :
    loop P n (.int s) glob
      = ((List.range n).map (fun k => (P.draw (advance P k (P.ofSeed s))).1), .int s, glob) :=
  loop_int P s glob n

/-- C15.a `sim_deterministic` (integer seed): the result is a function of (seed, repetition count) — the global numpy
state neither influences it nor is changed by it. -/
theorem loop_int_pure (P : Prng S G D) (s : S) (g₁ g₂ : G) (n : Nat) :
    (loop P n (.int s) g₁).1 = (loop P n (.int s) g₂).1 ∧ (loop P n (.int s) g₁).2.2 = g₁ := by
  simp [loop_int]

/-- C15.a: an integer seed gives exactly the repetitions of a generator object freshly seeded with it. -/
theorem loop_int_eq_gen (P : Prng S G D) (s : S) (glob : G) (n : Nat) :
    (loop P n (.int s) glob).1 = (loop P n (.gen (P.ofSeed s)) glob).1 := by
  simp [loop_int, loop_gen]

/-- C15.b `reps_consecutive_segments`: with a **Generator object** repetition `k` draws from the state reached after
`k` earlier repetitions (consecutive segments of one stream), and the object is left advanced by `n` draws. -/
theorem loop_gen_segments (P : Prng S G D) (g glob : G) (n : Nat) :
    loop P n (.gen g) glob
      = ((List.range n).map (fun k => (P.draw (advance P k g)).1), .gen (advance P n g), glob) :=
  loop_gen P glob n g

/-- C15.b: the same with `None` (global `np.random`): the global state is the stream. -/
theorem loop_none_segments (P : Prng S G D) (glob : G) (n : Nat) :
    loop P n .none glob
      = ((List.range n).map (fun k => (P.draw (advance P k glob)).1), .none, advance P n glob) :=
  loop_none P n glob

/-- C15.b `reps_distinct_streams`: the repetitions are pairwise different draws whenever the stream does not repeat itself
within the first `n` segments **from the state the run actually starts from** (`startOf`: the generator seeded with the
integer, the generator object handed in, or the global state) — a property of the generator along that one orbit, assumed;
for every kind of seed argument. -/
theorem reps_distinct_streams (P : Prng S G D) (a : SeedArg S G) (glob : G) (n : Nat)
    (hno : ((List.range n).map fun k => (P.draw (advance P k (startOf P a glob))).1).Nodup) :
    ((loop P n a glob).1).Nodup := by
  cases a with
  | int s => rw [loop_int]; exact hno
  | gen g => rw [loop_gen]; exact hno
  | none => rw [loop_none]; exact hno

end loop

/-- `reps_distinct_streams` instantiated: the toy congruential generator does not repeat within 3 segments from seed 5
(it does have a fixed point elsewhere, 717570 — the hypothesis is about the orbit of the start state only) -/
example : ((loop lcg 3 (.int 5) 7).1).Nodup :=
  reps_distinct_streams lcg (.int 5) 7 3 (by decide)

example : (loop lcg 3 (.gen 717570) 7).1 = [717570, 717570, 717570] := by decide

/-- non-vacuity on a toy congruential generator: three repetitions with an integer seed are three different draws, and
they are those of a generator object seeded with it -/
example : (loop lcg 3 (.int 5) 7).1 = [5, 241366, 943247] ∧ ((loop lcg 3 (.int 5) 7).1).Nodup
    ∧ (loop lcg 3 (.gen (lcg.ofSeed 5)) 7).1 = [5, 241366, 943247] := by decide

section flow
variable {S G D : Type}

/-- C15.c `flow_rep_depends_on_seed_and_index`: in the flow, repetition `i` is drawn from `Generator(child(seed_data, i))`
— a function of the data seed and its own index only. -/
theorem flowData_get (P : Prng S G D) (T : SeedTree S) (seed : S) (n i : Nat) (hi : i < n) :
    (flowData P T seed n)[i]? = some (P.draw (P.ofSeed (T.child seed i))).1 := by
  simp [flowData, spawn, hi]

/-- C15.c: raising the repetition count leaves the earlier repetitions as they were. -/
theorem flowData_succ (P : Prng S G D) (T : SeedTree S) (seed : S) (n : Nat) :
    flowData P T seed (n + 1) = flowData P T seed n ++ [(P.draw (P.ofSeed (T.child seed n))).1] := by
  simp [flowData, spawn, List.range_succ]

/-- C15.c `flow_streams_distinct`: the repetitions of the flow start from pairwise different generator states, provided
the generators seeded with the `n` children **actually spawned** differ (a property of `SeedSequence.spawn` composed with
`MT19937` seeding on those children, assumed — the harness observes it on numpy). -/
theorem flow_streams_distinct (P : Prng S G D) (T : SeedTree S) (seed : S) (n : Nat)
    (hinj : ∀ i j, i < n → j < n → P.ofSeed (T.child seed i) = P.ofSeed (T.child seed j) → i = j) :
    ((spawn T seed n).map P.ofSeed).Nodup := by
  unfold spawn
  rw [List.map_map]
  refine (List.nodup_range (n := n)).map_on ?_
  intro i hi j hj h
  exact hinj i j (List.mem_range.mp hi) (List.mem_range.mp hj) h

end flow

/-- `flow_streams_distinct` instantiated on the toy tree / generator the driver executes (`flow` op), 4 repetitions -/
example : ((spawn toyTree 11 4).map lcg.ofSeed).Nodup :=
  flow_streams_distinct lcg toyTree 11 4 (fun i j hi hj h => by
    have key : ∀ i, i < 4 → ∀ j, j < 4 → lcg.ofSeed (toyTree.child 11 i) = lcg.ofSeed (toyTree.child 11 j) → i = j := by
      decide
    exact key i hi j hj h)

example : flowData lcg toyTree 11 4 = [342, 343, 344, 345] ∧ flowData lcg toyTree 11 3 = [342, 343, 344] := by decide

/-! ## scheduling -/

/-- C15.d `schedule_independent`: whatever order the tasks are executed in (any permutation of the task indices — any
interleaving of any number of workers), the collected result list is `[task 0, …, task (n-1)]`. Tasks are functions
of their own index (their own child seed) only. -/
theorem schedule_independent {R : Type} (task : Nat → R) (n : Nat) (sched : List Nat)
    (hperm : sched.Perm (List.range n)) :
    collect n (execute task sched) = (List.range n).map fun i => some (task i) := by
  unfold collect
  apply List.map_congr_left
  intro i hi
  rw [lookup_execute, if_pos (hperm.mem_iff.mpr hi)]

/-- C15.d `partition_independent_partial`: tasks grouped into batches that share mutable objects (loss / algorithm
objects handed to several repetitions without pickling in between) give the same results as fully separated tasks,
**provided each task's result does not depend on the state of those objects**. Missing (see `partition_independent_fails`): state-dependent tasks — e.g. a loss object re-used with the `identity`
mode after a weighted one (C13-F1); the simulation flows use one mode per case, so this does not arise there. -/
theorem partition_independent_partial {R St : Type} (task : Nat → St → R × St) (s0 : St) (n : Nat)
    (hpure : ∀ i s s', (task i s).1 = (task i s').1)
    (batches : List (List Nat)) (hperm : batches.flatten.Perm (List.range n)) :
    collect n (runBatches task s0 batches) = (List.range n).map fun i => some (task i s0).1 := by
  rw [runBatches_pure task s0 hpure]
  exact schedule_independent (fun i => (task i s0).1) n _ hperm

/-- C15.d negation witness (concrete): a task whose result reads the shared object state gives different results when
two repetitions run in one batch (serial execution) and when they run in separate batches (two workers). -/
theorem partition_independent_fails :
    ¬ ∀ (task : Nat → Nat → Nat × Nat) (b₁ b₂ : List (List Nat)),
        b₁.flatten.Perm (List.range 2) → b₂.flatten.Perm (List.range 2) →
        collect 2 (runBatches task 0 b₁) = collect 2 (runBatches task 0 b₂) := by
  intro h
  have := h (fun i s => (i + 100 * s, s + 1)) [[0, 1]] [[0], [1]] (by decide) (by decide)
  revert this
  decide

/-- C15.e `reest_reproduces_partial`: re-estimating repetition `i` from the stored empirical distributions returns the
stored estimate **provided the estimate does not depend on the state of the loss / algorithm objects** of the setting
(the run threads that state through the repetitions, `re_estimate(i)` uses the objects in whatever state `s` they are in).
Missing: state-dependent estimators (see `partition_independent_fails`; C13 lists which objects keep state — on the tree
only the algorithm object's first projection, which is constant within a run). -/
theorem reest_reproduces_partial {D E St : Type} (est : D → St → E × St) (s₀ s : St) (stored : List D) (i : Nat)
    (hpure : ∀ d s s', (est d s).1 = (est d s').1) :
    reEstimate est s stored i = (storedEstimates est s₀ stored)[i]? := by
  rw [storedEstimates_pure est s₀ hpure stored s₀]
  simp [reEstimate, hpure _ s s₀]

/-- instance: an estimator that ignores the object state, three stored repetitions; and the counter-example for a
state-dependent one (the stored second estimate saw the state left by the first) -/
example : reEstimate (fun (d : Nat) (s : Nat) => (2 * d, s + 1)) 5 [10, 20, 30] 1
    = (storedEstimates (fun (d : Nat) (s : Nat) => (2 * d, s + 1)) 0 [10, 20, 30])[1]? :=
  reest_reproduces_partial _ 0 5 _ 1 (by intros; rfl)

example : reEstimate (fun (d : Nat) (s : Nat) => (d + s, s + 1)) 0 [10, 20, 30] 1 = some 20 ∧
    (storedEstimates (fun (d : Nat) (s : Nat) => (d + s, s + 1)) 0 [10, 20, 30])[1]? = some 21 := by decide

/-- `partition_independent_partial` instantiated: state-independent tasks, two batches -/
example : collect 3 (runBatches (fun i (s : Nat) => (i * i, s + 1)) 0 [[2, 0], [1]]) = [some 0, some 1, some 4] :=
  partition_independent_partial _ 0 3 (by intros; rfl) _ (by decide)

/-! ## depolarising noise -/

/-- C15.f `depol_eq_mixture`: composing with the depolarising channel of rate `p` is the mixture
`(1-p)·v + p·v_mixed`, `v_mixed = (v₀, 0, …, 0)` (the maximally mixed object carrying the same trace component) —
over any commutative ring, any length. -/
theorem depol_eq_mixture {K : Type} [CommRing K] (p : K) (v : List K) : depolVec p v = mixVec p v :=
  depolVec_eq_mixVec p v

/-- C15.f `depolHs_eq_mixture`: the Hilbert–Schmidt matrix of the depolarised gate (and of every element of a depolarised
measurement process) is the mixture `(1-p)·hs + p·hs_mixed`, `hs_mixed` = row 0 of `hs` with zeros below (the map that sends
every input to the maximally mixed output of the same weight) — entrywise, any size, any commutative ring. -/
theorem depolHs_eq_mixture {K : Type} [CommRing K] (p : K) (hs : List (List K)) (i : Nat) (hi : i < hs.length) :
    (depolHs p hs)[i]? = some (hs[i].map fun x => (1 - p) * x + p * (if i = 0 then x else 0)) := by
  simp only [depolHs, depolDiag, hi, List.getElem?_zipWith, List.getElem?_map, List.getElem?_range,
    List.getElem?_eq_getElem, Option.map_some, Option.some.injEq]
  apply List.map_congr_left
  intro x _
  by_cases h : i = 0
  · simp [h]; ring
  · simp [h]

/-- C15.f: the Hilbert–Schmidt matrix of the depolarised gate: row 0 kept, every other row scaled by `1-p`. -/
theorem depolHs_rows {K : Type} [CommRing K] (p : K) (hs : List (List K)) (i : Nat) (hi : i < hs.length) :
    (depolHs p hs)[i]? = some (hs[i].map ((if i = 0 then (1 : K) else 1 - p) * ·)) := by
  simp [depolHs, depolDiag, hi]

/-- C15.f `depol_preserves_equality_constraint`: depolarisation leaves the equality constraints alone — component 0 of a
state / POVM-element vector (the trace component) and row 0 of a gate's or measurement-process element's
Hilbert–Schmidt matrix (the trace-preservation row; hence also the sum of the rows 0 of a measurement process) are
unchanged, for every rate `p`, any size, any commutative ring. -/
theorem depol_preserves_equality_constraint {K : Type} [CommRing K] (p : K) :
    (∀ (v : List K) (h : 0 < v.length), (depolVec p v)[0]? = some v[0]) ∧
    (∀ (hs : List (List K)) (h : 0 < hs.length), (depolHs p hs)[0]? = some hs[0]) := by
  constructor
  · intro v h
    rw [depol_eq_mixture]
    simp only [mixVec, List.getElem?_map, List.getElem?_zipIdx, List.getElem?_eq_getElem h, Option.map_some,
      Nat.zero_add, ite_true, Option.some.injEq]
    ring
  · intro hs h
    rw [depolHs_rows p hs 0 h]
    simp

example : (depolVec (1/4 : Rat) [1, 2, 3, 4])[0]? = some 1 ∧ (depolHs (1/2 : Rat) [[1, 0], [3, 4]])[0]? = some [1, 0] := by
  decide +kernel

section convex
open scoped ComplexOrder
variable {n : Type*} [Fintype n] {𝕜 : Type*} [RCLike 𝕜]

/-- C15.f `depol_convex_physical_partial`: a mixture of two density matrices with weights `1-p`, `p`, `0 ≤ p ≤ 1`, is a density
matrix (positive semidefinite, trace one): the physical set is convex, so the depolarised object is physical whenever
the ideal one is (the maximally mixed object is physical). The equality constraints of all four object types are covered
by `depol_preserves_equality_constraint`. Missing: positivity — this is the convexity argument for **states** only,
stated on abstract matrices (not tied to `depolVec`); physicality of depolarised gates / POVMs / measurement processes
(Choi positivity + trace preservation under the mixture) and of random-Lindbladian objects is observed on the
implementation by the harness (`is_physical` of every generated object), not proved. -/
theorem depol_convex_physical_partial (ρ σ : Matrix n n 𝕜) (hρ : ρ.PosSemidef) (hσ : σ.PosSemidef)
    (tρ : ρ.trace = 1) (tσ : σ.trace = 1) (p : ℝ) (h0 : 0 ≤ p) (h1 : p ≤ 1) :
    (((1 - p : ℝ) : 𝕜) • ρ + ((p : ℝ) : 𝕜) • σ).PosSemidef ∧
    (((1 - p : ℝ) : 𝕜) • ρ + ((p : ℝ) : 𝕜) • σ).trace = 1 := by
  have hp : (0 : 𝕜) ≤ ((p : ℝ) : 𝕜) := RCLike.ofReal_nonneg.mpr h0
  have hq : (0 : 𝕜) ≤ (((1 - p : ℝ)) : 𝕜) := RCLike.ofReal_nonneg.mpr (by linarith)
  refine ⟨(hρ.smul hq).add (hσ.smul hp), ?_⟩
  rw [Matrix.trace_add, Matrix.trace_smul, Matrix.trace_smul, tρ, tσ]
  simp

end convex

/-! ## physicality-violation check -/

/-- C15.g `violation_check_iff`: when every stored result carries one estimate per sample size, the built-in check
returns `False` exactly when some stored estimate fails a test of a constraint its estimator was configured to enforce
(projected linear: both; linear: equality iff it is parametrised away — nothing otherwise; loss minimisation: per
`on_algo_eq_constraint` / `on_algo_ineq_constraint`, nothing without an algorithm option; other estimators: nothing).
The verdicts are those of `is_eq_constraint_satisfied(eqEps para)` / `is_ineq_constraint_satisfied(ineqEps)`. -/
theorem violation_check_iff (kind : EstKind) (para : Bool) (nNum : Nat) (results : List (List Verdict))
    (hne : results ≠ []) (hlen : ∀ r ∈ results, r.length = nNum) :
    ∃ b, violationCheck kind para nNum results = some b ∧
      (b = false ↔ ∃ r ∈ results, ∃ v ∈ r,
        (enforcesEq kind para = true ∧ v.eqOK = false) ∨ (enforcesIneq kind = true ∧ v.ineqOK = false)) := by
  have hvc : violationCheck kind para nNum results = violationCheckCore kind para nNum results := by
    cases results with
    | nil => exact absurd rfl hne
    | cons r rs => simp [violationCheck]
  rw [hvc]
  obtain ⟨be, hbe, he⟩ := allPass_spec (·.eqOK) nNum results hlen
  obtain ⟨bi, hbi, hi⟩ := allPass_spec (·.ineqOK) nNum results hlen
  obtain ⟨bb, hbb, hb⟩ := allPass_spec (fun v => v.eqOK && v.ineqOK) nNum results hlen
  have key : ∀ (b : Bool) (P : Prop), (b = true ↔ ¬ P) → (b = false ↔ P) := by
    intro b P h; cases b <;> simp_all
  cases kind with
  | projLinear =>
      refine ⟨bb, by simp [violationCheckCore, hbb], key _ _ (hb.trans ?_)⟩
      simp [enforcesEq, enforcesIneq]
  | linear =>
      cases para with
      | true =>
          refine ⟨be, by simp [violationCheckCore, hbe], key _ _ (he.trans ?_)⟩
          simp [enforcesEq, enforcesIneq]
      | false => exact ⟨true, by simp [violationCheckCore], by simp [enforcesEq, enforcesIneq]⟩
  | other => exact ⟨true, by simp [violationCheckCore], by simp [enforcesEq, enforcesIneq]⟩
  | lossMin o =>
      cases o with
      | none => exact ⟨true, by simp [violationCheckCore], by simp [enforcesEq, enforcesIneq]⟩
      | some fl =>
          obtain ⟨onEq, onIneq⟩ := fl
          cases onEq <;> cases onIneq
          · exact ⟨true, by simp [violationCheckCore], by simp [enforcesEq, enforcesIneq]⟩
          · refine ⟨bi, by simp [violationCheckCore, hbi], key _ _ (hi.trans ?_)⟩
            simp [enforcesEq, enforcesIneq]
          · refine ⟨be, by simp [violationCheckCore, hbe], key _ _ (he.trans ?_)⟩
            simp [enforcesEq, enforcesIneq]
          · refine ⟨be && bi, by simp [violationCheckCore, hbe, hbi], key _ _ ?_⟩
            simp only [Bool.and_eq_true, he, hi, enforcesEq, enforcesIneq]
            constructor
            · rintro ⟨h1, h2⟩ ⟨r, hr, v, hv, h⟩
              rcases h with ⟨_, h⟩ | ⟨_, h⟩
              · simp [h1 r hr v hv] at h
              · simp [h2 r hr v hv] at h
            · intro h
              constructor
              · intro r hr v hv
                cases hx : v.eqOK with
                | true => rfl
                | false => exact absurd ⟨r, hr, v, hv, Or.inl ⟨trivial, hx⟩⟩ h
              · intro r hr v hv
                cases hx : v.ineqOK with
                | true => rfl
                | false => exact absurd ⟨r, hr, v, hv, Or.inr ⟨trivial, hx⟩⟩ h

/-- C15.g: with no stored result the check raises (IndexError on `estimation_results[0]`) for the estimators whose test
reads `on_para_eq_constraint` from the first result; for the others it passes vacuously. -/
theorem violation_check_empty (kind : EstKind) (para : Bool) (nNum : Nat) :
    violationCheck kind para nNum [] = if indexesFirst kind nNum then none else violationCheckCore kind para nNum [] := by
  simp [violationCheck]

example : violationCheck .linear true 2 [] = none ∧ violationCheck (.lossMin (some (false, true))) true 2 [] = some true
    ∧ violationCheck .projLinear true 0 [] = some true := by decide

/-- C15.g: a result that stores fewer estimates than sample sizes makes the check raise (IndexError), it is not
silently passed. -/
theorem violation_check_short_row_raises (nNum : Nat) (r : List Verdict) (rs : List (List Verdict))
    (h : r.length < nNum) : violationCheck .projLinear true nNum (r :: rs) = none := by
  have hk : ∀ (f : Verdict → Bool) (ks : List Nat), r.length ∈ ks → allPassFrom f (r :: rs) ks = none := by
    intro f ks
    induction ks with
    | nil => simp
    | cons k ks ih =>
        intro hm
        simp only [List.mem_cons] at hm
        rcases hm with rfl | hm
        · simp [allPassFrom, rowsPass]
        · simp only [allPassFrom, ih hm]
          cases rowsPass f k (r :: rs) <;> rfl
  simp [violationCheck, violationCheckCore, allPass, hk _ _ (List.mem_range.mpr h)]

/-- C15.g `violation_check_short_row_raises_general`: whenever the estimator enforces a constraint, **any** stored result
with fewer estimates than sample sizes makes the check raise (IndexError) — wherever that result sits in the list. (For
estimators that enforce nothing the check does not look at the estimates at all and passes.) -/
theorem violation_check_short_row_raises_general (kind : EstKind) (para : Bool) (nNum : Nat)
    (results : List (List Verdict)) (r : List Verdict) (hr : r ∈ results) (hshort : r.length < nNum)
    (henf : enforcesEq kind para = true ∨ enforcesIneq kind = true) :
    violationCheck kind para nNum results = none := by
  have hne : results ≠ [] := by intro h; simp [h] at hr
  have hvc : violationCheck kind para nNum results = violationCheckCore kind para nNum results := by
    cases results with
    | nil => exact absurd rfl hne
    | cons x xs => simp [violationCheck]
  rw [hvc]
  have hs : ∀ f, allPass f nNum results = none := fun f => allPass_short f nNum results ⟨r, hr, hshort⟩
  cases kind with
  | projLinear => simp [violationCheckCore, hs]
  | linear => cases para <;> simp_all [violationCheckCore, enforcesEq, enforcesIneq]
  | other => simp [enforcesEq, enforcesIneq] at henf
  | lossMin o =>
      cases o with
      | none => simp [enforcesEq, enforcesIneq] at henf
      | some fl =>
          obtain ⟨onEq, onIneq⟩ := fl
          cases onEq <;> cases onIneq <;> simp_all [violationCheckCore, enforcesEq, enforcesIneq]

example : violationCheck (.lossMin (some (false, true))) true 2 [[⟨true, true⟩, ⟨true, true⟩], [⟨true, true⟩]] = none :=
  violation_check_short_row_raises_general _ _ _ _ [⟨true, true⟩] (by simp) (by decide) (Or.inr rfl)

example : violationCheck .other true 2 [[⟨true, true⟩]] = some true := by decide

/-- the documented thresholds -/
theorem thresholds : eqEps true = 1 / 10000000000000 ∧ eqEps false = 1 / 100000 ∧ ineqEps = 1 / 100000 := by
  refine ⟨?_, ?_, ?_⟩ <;> simp [eqEps, ineqEps, Rat.mkRat_eq_div]

example : violationCheck (.lossMin (some (true, false))) true 2 [[⟨true, false⟩, ⟨true, true⟩], [⟨false, true⟩, ⟨true, true⟩]]
    = some false := by decide

/-! ## the plumbing as coded: theorems about tables REGENERATED from the source

`QGen/C15.lean` is rewritten by `harness/c15_translate.py` (Python `ast`) from /repo on every run. -/
section generated
open QGen.C15

/-- C15.h `gen_one_stream_per_run`: the source converts the seed argument exactly once, before the repetition loop, never
inside it, and hands that one stream to every repetition — so the coded loop is the model's `loop`, and with an integer
seed repetition `k` is the `k`-th segment of the stream seeded with it. -/
theorem gen_one_stream_per_run {S G D : Type} (P : Prng S G D) (n : Nat) (a : SeedArg S G) (glob : G) :
    loopConvBefore = 1 ∧ loopConvInside = 0 ∧ loopWith loopPassesStream P n a glob = loop P n a glob := by
  refine ⟨by decide, by decide, ?_⟩
  simp [loopWith, show loopPassesStream = true from by decide]

theorem gen_int_seed_segments {S G D : Type} (P : Prng S G D) (s : S) (glob : G) (n : Nat) :
    (loopWith loopPassesStream P n (.int s) glob).1
      = (List.range n).map (fun k => (P.draw (advance P k (P.ofSeed s))).1) := by
  rw [(gen_one_stream_per_run P n (.int s) glob).2.2, loop_int]

/-- C15.h: what the *other* shape would mean (the repaired defect D11): handing the raw integer to every repetition makes
all repetitions the same draw. The obligation above is therefore not vacuous: it fails if the loop goes back to that shape. -/
theorem loopWith_raw_int_identical {S G D : Type} (P : Prng S G D) (s : S) (glob : G) (n : Nat) :
    (loopWith false P n (.int s) glob).1 = List.replicate n (P.draw (P.ofSeed s)).1 := by
  simp [loopWith, loopS_int]

/-- C15.h `execSim_default_seed`: `execute_simulation` without a seed is `execute_simulation` with the setting's integer
`seed_data`: the repetitions are the consecutive segments of the stream seeded with it, and the global numpy state is
neither read nor changed (the run is a function of the setting alone). -/
theorem execSim_default_seed {S G D : Type} (P : Prng S G D) (seedData : S) (n : Nat) (glob : G) :
    execSim P seedData n none glob
      = ((List.range n).map (fun k => (P.draw (advance P k (P.ofSeed seedData))).1), glob) ∧
    execSim P seedData n none glob = execSim P seedData n (some (.int seedData)) glob := by
  simp [execSim, loop_int]

example : execSim lcg 5 3 none 7 = ([5, 241366, 943247], 7) := by decide

/-- C15.h: each of the twelve `generate_empi_dist(s)(_sequence)` entry points of the four tomography classes converts its
seed argument exactly once and hands that stream (not a wrapped / re-created one) to the experiment. -/
theorem gen_entries_convert_once :
    qtEntries.length = 12 ∧ qtEntries.all (fun e => e.2.2.1 == 1 && e.2.2.2) = true := by decide

/-- C15.h: the keyword the simulation uses for the seed is the name of the seed parameter of
`generate_empi_dists_sequence` in all four tomography classes (a misspelt parameter makes one entry point unusable), and
`execute_simulation` replaces a missing seed by the setting's `seed_data`. -/
theorem gen_seed_keyword :
    qtSeqParams.length = 4 ∧ qtSeqParams.all (fun e => e.2.1 == repKeyword && e.2.2 == 3) = true ∧
    execNoneDefault = "seed_data" := by decide

/-- C15.h: the flow seeds the data level with `SeedSequence(seed_data).spawn(n_rep)` and the sample level with
`SeedSequence(seed_qoperation).spawn(n_sample)`, one child generator per task, handed over positionally (argument 2 of
`generate_empi_dists_sequence`, argument 6 of `execute_simulation_sample_unit`) — the arguments of `flowData` / `flowSamples`. -/
theorem gen_flow_seeds :
    flowSeeds = [("execute_simulation_sample_unit", "seed_data", "n_rep", 2),
                 ("execute_simulation_test_setting_unit", "seed_qoperation", "n_sample", 6)] := by decide

/-- C15.g `gen_thresholds`: the thresholds the check resolves are those of the model: equality `atol` (the default
tolerance at import) when the first stored estimate has `on_para_eq_constraint`, `1e-5` otherwise; inequality `1e-5`;
the attribute consulted is `on_para_eq_constraint`. -/
theorem gen_thresholds :
    QGen.C15.eqEpsTrue = eqEps true ∧ QGen.C15.eqEpsFalse = eqEps false ∧ QGen.C15.ineqEps = QM.C15.ineqEps ∧
    eqEpsBranches = ("__eq_const_eps_true", "__eq_const_eps_false") ∧ eqParaAttr = "on_para_eq_constraint" := by
  refine ⟨by decide, by decide, by decide, by decide, by decide⟩

/-- C15.g `gen_check_wiring`: per estimator class the built-in check calls exactly the tests of the constraints the model
says that estimator enforces (`enforcesEq`, `enforcesIneq`), each under the guard (`para`, `on_algo_eq_constraint`,
`on_algo_ineq_constraint`) whose flag the model makes that test depend on. -/
theorem gen_check_wiring :
    checkWiring.map (fun e => (e.1, e.2.1)) = Gen.modelWiring ∧ checkGuards = Gen.modelGuards := by decide

example : (loopWith loopPassesStream lcg 3 (.int 5) 7).1 = [5, 241366, 943247] := by decide

end generated

end QM.C15
