import QProofs.C11
import QProps.C10
/-!
# C11 — loss minimisation attains the constrained optimum: property theorems

Setting: a real inner-product space `E` (the parameter space `ℝ^n` with the Euclidean pairing the implementation's
`np.dot` computes), a convex set `C` (the physical set), `P` its metric projection given by the variational inequality
(`IsProjOn`, what C04/C05 establish for the implementation's projections), a loss `f` with gradient `g` satisfying the gradient
inequality of a convex differentiable function.  All statements are about the model definitions of `QModel/C10.lean`
(`pgdbDir`, `isDoingForAlpha`, `backtrack`, `pgdbStep`, `pgdbLoop`, `pgdbOptimize`, `errorValue`, `windowSum`, `isDoing`) and
`QModel/C11.lean` instantiated at `K = ℝ`, `V = E`, `dot = ⟪·,·⟫`, `sqrt = Real.sqrt`; unbounded in dimension, iteration
count, history window and all thresholds.

Not proved (`_partial`): that the stopped iterate is ε-optimal (no rate theorem), and anything about the SCS solver.
Known defect mirrored by a negation witness: `pg_descent_dir_fails_via_stacked` (finding D13).
-/
set_option linter.unusedSectionVars false
namespace QM.C11
open QM.C10
open scoped RealInnerProductSpace

variable {E : Type} [NormedAddCommGroup E] [InnerProductSpace ℝ E]

/-- the Euclidean pairing handed to the model as `dot` -/
def ip (a b : E) : ℝ := ⟪a, b⟫

/-! ## optimality of fixed points, descent direction -/

/-- C11.pg_fixed_iff_opt: for `x ∈ C`, `μ > 0`: the projected-gradient direction vanishes
(`P(x − ∇f(x)/μ) = x`) ⇔ first-order optimality on `C` ⇔ `x` minimises `f` on `C`. -/
theorem pg_fixed_iff_opt [CompleteSpace E] {P : E → E} {C : Set E} (hC : Convex ℝ C) (hP : IsProjOn P C) {f : E → ℝ}
    {g : E → E} (hg : ∀ u, HasGradientAt f (g u) u) (hconv : ∀ u w, f u + ⟪g u, w - u⟫ ≤ f w) {mu : ℝ} (hmu : 0 < mu)
    {x : E} (hx : x ∈ C) :
    (pgdbDir P g mu x = 0 ↔ ∀ w ∈ C, 0 ≤ ⟪g x, w - x⟫) ∧ ((∀ w ∈ C, 0 ≤ ⟪g x, w - x⟫) ↔ ∀ w ∈ C, f x ≤ f w) :=
  ⟨fixed_iff_first_order hP g hmu hx,
   ⟨min_of_first_order hconv, first_order_of_min hC hx (hg x)⟩⟩

/-- C11.pg_descent_dir: the direction `y = P(x − ∇f(x)/μ) − x` satisfies `⟪∇f(x), y⟫ ≤ −μ ‖y‖²`. -/
theorem pg_descent_dir {P : E → E} {C : Set E} (hP : IsProjOn P C) (g : E → E) {mu : ℝ} (hmu : 0 < mu) {x : E}
    (hx : x ∈ C) : ⟪g x, pgdbDir P g mu x⟫ ≤ -mu * ‖pgdbDir P g mu x‖ ^ 2 :=
  descent_dir hP g hmu hx

/-- the hypotheses are satisfiable non-trivially: on `ℝ`, `C = [0, ∞)`, `P = max · 0`. -/
example : IsProjOn (fun z : ℝ => max z 0) (Set.Ici 0) := by
  intro z
  refine ⟨show (0 : ℝ) ≤ max z 0 from le_max_right _ _, fun w hw => ?_⟩
  have hw : (0 : ℝ) ≤ w := hw
  show ⟪z - max z 0, w - max z 0⟫ ≤ 0
  rcases le_total z 0 with h | h
  · rw [max_eq_right h]; simp only [sub_zero, RCLike.inner_apply, conj_trivial]; nlinarith
  · rw [max_eq_left h]; simp

/-! ## the sufficient-decrease test as coded ⇒ the loss never increases -/

/-- C11.armijo_monotone: a step size that passes the test coded in `_is_doing_for_alpha` (the `while` loop exits) along a
direction with `⟪y, ∇f(x)⟫ ≤ 0` does not increase the loss; `γ ≥ 0`, `α ≥ 0`. -/
theorem armijo_monotone (f : E → ℝ) (g : E → E) (x y : E) (alpha gamma : ℝ) (ha : 0 ≤ alpha) (hgam : 0 ≤ gamma)
    (hdesc : ⟪y, g x⟫ ≤ 0) (hacc : isDoingForAlpha f g ip x y alpha gamma = false) :
    f (x + alpha • y) ≤ f x + gamma * alpha * ⟪y, g x⟫ ∧ f (x + alpha • y) ≤ f x := by
  have h1 : f (x + alpha • y) ≤ f x + gamma * alpha * ⟪y, g x⟫ := by
    unfold isDoingForAlpha at hacc
    exact not_lt.1 (of_decide_eq_false hacc)
  refine ⟨h1, ?_⟩
  have : gamma * alpha * ⟪y, g x⟫ ≤ 0 := mul_nonpos_of_nonneg_of_nonpos (mul_nonneg hgam ha) hdesc
  linarith

/-- C11.pgdb_step_decrease: one iteration of the backtracking algorithm from a feasible point decreases the loss by at
least `γ α μ ‖y‖²` (sufficient decrease along the projected-gradient direction). -/
theorem pgdb_step_decrease {P : E → E} {C : Set E} (hC : Convex ℝ C) (hP : IsProjOn P C) (f : E → ℝ) (g : E → E)
    (sqrt : ℝ → ℝ) {mu gamma : ℝ} (hmu : 0 < mu) (hgam : 0 ≤ gamma) (mode : StopMode) (btFuel : Nat) {x : E} (hx : x ∈ C)
    (it : PgdbIter ℝ E) (h : pgdbStep P f g ip sqrt mu gamma mode btFuel x = some it) :
    f it.xNext ≤ f x - gamma * it.alpha * mu * ‖it.y‖ ^ 2 ∧ f it.xNext ≤ f x ∧ it.xNext ∈ C := by
  obtain ⟨hmem, ha0, _, hy, hxn, hacc⟩ :=
    pgdb_step_feasible hC P (fun z => (hP z).1) f g ip sqrt mu gamma mode btFuel x hx it h
  have hd : ⟪g x, it.y⟫ ≤ -mu * ‖it.y‖ ^ 2 := by
    have := descent_dir hP g hmu hx
    rw [pgdbDir_def] at this
    rw [hy]; exact this
  have hd' : ⟪it.y, g x⟫ ≤ -mu * ‖it.y‖ ^ 2 := by rw [real_inner_comm]; exact hd
  have hneg : ⟪it.y, g x⟫ ≤ 0 := by
    have : 0 ≤ mu * ‖it.y‖ ^ 2 := by positivity
    linarith
  obtain ⟨h1, h2⟩ := armijo_monotone f g x it.y it.alpha gamma ha0.le hgam hneg hacc
  rw [← hxn] at h1 h2
  refine ⟨?_, h2, hmem⟩
  have : gamma * it.alpha * ⟪it.y, g x⟫ ≤ gamma * it.alpha * (-mu * ‖it.y‖ ^ 2) :=
    mul_le_mul_of_nonneg_left hd' (mul_nonneg hgam ha0.le)
  nlinarith

/-- loop invariant behind `pgdb_loss_nonincreasing` -/
theorem pgdbLoop_monotone {P : E → E} {C : Set E} (hC : Convex ℝ C) (hP : IsProjOn P C) (f : E → ℝ) (g : E → E)
    (sqrt : ℝ → ℝ) {mu gamma : ℝ} (eps : ℝ) (hmu : 0 < mu) (hgam : 0 ≤ gamma) (mode : StopMode) (numHist btFuel : Nat) :
    ∀ (fuel : Nat) (x : E) (errs : List ℝ) (rest : List E) (res : List E × List ℝ), x ∈ C →
      (x :: rest).Pairwise (fun a b => f a ≤ f b) →
      pgdbLoop P f g ip sqrt mu gamma eps mode numHist btFuel fuel x errs (x :: rest) = some res →
      res.1.Pairwise (fun a b => f a ≤ f b) := by
  intro fuel
  induction fuel with
  | zero =>
    intro x errs rest res _ hp h
    simp only [pgdbLoop, Option.some.injEq] at h
    subst h; exact hp
  | succ fuel ih =>
    intro x errs rest res hx hp h
    unfold pgdbLoop at h
    cases hs : pgdbStep P f g ip sqrt mu gamma mode btFuel x with
    | none => simp [hs] at h
    | some it =>
      obtain ⟨_, hle, hmem⟩ := pgdb_step_decrease hC hP f g sqrt hmu hgam mode btFuel hx it hs
      have hp' : (it.xNext :: x :: rest).Pairwise (fun a b => f a ≤ f b) := by
        refine List.pairwise_cons.2 ⟨?_, hp⟩
        intro b hb
        rcases List.mem_cons.1 hb with rfl | hb
        · exact hle
        · exact le_trans hle ((List.pairwise_cons.1 hp).1 b hb)
      simp only [hs] at h
      by_cases hd : isDoing (errs ++ [it.err]) numHist eps = true
      · rw [if_pos hd] at h
        exact ih it.xNext _ _ res hmem hp' h
      · rw [if_neg hd] at h
        injection h with h; subst h
        exact hp'

/-- C11.pgdb_loss_nonincreasing: along a whole backtracking run — any iteration limit, stopping mode, window, thresholds —
the recorded history (most recent first) has non-increasing loss: every later iterate has a loss ≤ every earlier one; and
(`pgdb_estimate_feasible`) every iterate is in `C`. -/
theorem pgdb_loss_nonincreasing {P : E → E} {C : Set E} (hC : Convex ℝ C) (hP : IsProjOn P C) (f : E → ℝ) (g : E → E)
    (sqrt : ℝ → ℝ) {mu gamma : ℝ} (eps : ℝ) (hmu : 0 < mu) (hgam : 0 ≤ gamma) (mode : StopMode)
    (numHist btFuel maxIter : Nat) {xStart : E} (hs : xStart ∈ C) (x : E) (hist : List E) (errs : List ℝ)
    (h : pgdbOptimize P f g ip sqrt mu gamma eps mode numHist btFuel maxIter xStart = some (x, hist, errs)) :
    hist.Pairwise (fun a b => f a ≤ f b) ∧ (∀ v ∈ hist, v ∈ C) ∧ f x ≤ f xStart := by
  have hfeas := pgdb_estimate_feasible hC P (fun z => (hP z).1) f g ip sqrt mu gamma eps mode numHist btFuel maxIter
    xStart hs x hist errs h
  unfold pgdbOptimize at h
  cases hl : pgdbLoop P f g ip sqrt mu gamma eps mode numHist btFuel maxIter xStart [] [xStart] with
  | none => simp [hl] at h
  | some res =>
    obtain ⟨vs, es⟩ := res
    have hpw := pgdbLoop_monotone hC hP f g sqrt eps hmu hgam mode numHist btFuel maxIter xStart [] [] (vs, es) hs
      (by simp) hl
    cases vs with
    | nil => simp [hl] at h
    | cons v vs =>
      simp only [hl] at h
      by_cases hm : maxIter = 0
      · simp [hm] at h
      · simp only [hm, if_false, Option.some.injEq, Prod.mk.injEq] at h
        obtain ⟨rfl, rfl, _⟩ := h
        refine ⟨hpw, hfeas.2, ?_⟩
        -- the start point is the last entry of the history
        have hlast : ∀ (fuel : Nat) (y : E) (e : List ℝ) (l : List E) (r : List E × List ℝ),
            pgdbLoop P f g ip sqrt mu gamma eps mode numHist btFuel fuel y e l = some r → ∃ pre, r.1 = pre ++ l := by
          intro fuel
          induction fuel with
          | zero => intro y e l r hr; simp only [pgdbLoop, Option.some.injEq] at hr; exact ⟨[], by rw [← hr]; rfl⟩
          | succ fuel ih =>
            intro y e l r hr
            unfold pgdbLoop at hr
            cases hst : pgdbStep P f g ip sqrt mu gamma mode btFuel y with
            | none => simp [hst] at hr
            | some it =>
              simp only [hst] at hr
              by_cases hd : isDoing (e ++ [it.err]) numHist eps = true
              · rw [if_pos hd] at hr
                obtain ⟨pre, hpre⟩ := ih _ _ _ r hr
                exact ⟨pre ++ [it.xNext], by rw [hpre]; simp⟩
              · rw [if_neg hd] at hr
                injection hr with hr
                exact ⟨[it.xNext], by rw [← hr]; rfl⟩
        obtain ⟨pre, hpre⟩ := hlast maxIter xStart [] [xStart] (v :: vs, es) hl
        have hmem : xStart ∈ v :: vs := by rw [show v :: vs = pre ++ [xStart] from hpre]; simp
        rcases List.mem_cons.1 hmem with heq | hin
        · rw [heq]
        · exact (List.pairwise_cons.1 hpw).1 _ hin

/-! ## what the stopping criteria bound -/

/-- C11.stop_rule_window_one: with `num_history = 1` the loop stops exactly when the last error value is `≤ eps`. -/
theorem stop_rule_window_one (errs : List ℝ) (e eps : ℝ) : isDoing (errs ++ [e]) 1 eps = false ↔ e ≤ eps := by
  have hw : windowSum (errs ++ [e]) 1 = e := by
    unfold windowSum
    have : (errs ++ [e]).length - min (errs ++ [e]).length 1 = errs.length := by simp
    rw [this]
    simp [lsum]
  unfold isDoing
  rw [hw]
  simp

/-- C11.stop_criteria_meaning: the error value of each of the four modes, for an accepted backtracking step
`x_next = x + α y` (`sqrt = Real.sqrt`): loss decrease; its absolute value; `α ‖y‖ = ‖x_next − x‖`; `‖y‖` (the
projected-gradient residual). -/
theorem stop_criteria_meaning (f : E → ℝ) (x y : E) (alpha : ℝ) (ha : 0 ≤ alpha) :
    errorValue .singleDiffLoss f Real.sqrt (fun v => ip v v) x (x + alpha • y) y = f x - f (x + alpha • y) ∧
    errorValue .sumAbsDiffLoss f Real.sqrt (fun v => ip v v) x (x + alpha • y) y = |f x - f (x + alpha • y)| ∧
    errorValue .sumAbsDiffVar f Real.sqrt (fun v => ip v v) x (x + alpha • y) y = alpha * ‖y‖ ∧
    errorValue .sumAbsDiffProjGrad f Real.sqrt (fun v => ip v v) x (x + alpha • y) y = ‖y‖ := by
  refine ⟨rfl, ?_, ?_, ?_⟩
  · simp only [errorValue]
    split_ifs with h
    · rw [abs_of_neg h]
    · rw [abs_of_nonneg (not_lt.1 h)]
  · simp only [errorValue, ip]
    have : x - (x + alpha • y) = -(alpha • y) := by abel
    rw [this, inner_neg_neg, real_inner_self_eq_norm_sq, Real.sqrt_sq (norm_nonneg _), norm_smul, Real.norm_eq_abs,
      abs_of_nonneg ha]
  · simp only [errorValue, ip]
    rw [real_inner_self_eq_norm_sq, Real.sqrt_sq (norm_nonneg _)]

/-- C11.stop_bounds_projected_gradient_partial: when a run with the default criterion (`single_difference_loss`, window 1)
stops at an iteration from a feasible point, the projected-gradient residual of that iteration is bounded:
`γ α μ ‖y‖² ≤ eps`.  *Partial*: this certifies approximate stationarity of the last point, not `f(x̂) ≤ min_C f + ε`
(that needs a strong-convexity / error-bound constant of the loss which is not formalised). -/
theorem stop_bounds_projected_gradient_partial {P : E → E} {C : Set E} (hC : Convex ℝ C) (hP : IsProjOn P C) (f : E → ℝ)
    (g : E → E) {mu gamma : ℝ} (hmu : 0 < mu) (hgam : 0 ≤ gamma) (btFuel : Nat) {x : E} (hx : x ∈ C)
    (it : PgdbIter ℝ E) (h : pgdbStep P f g ip Real.sqrt mu gamma .singleDiffLoss btFuel x = some it) (errs : List ℝ)
    (eps : ℝ) (hstop : isDoing (errs ++ [it.err]) 1 eps = false) :
    gamma * it.alpha * mu * ‖it.y‖ ^ 2 ≤ eps := by
  have hdec := (pgdb_step_decrease hC hP f g Real.sqrt hmu hgam .singleDiffLoss btFuel hx it h).1
  have herr : it.err = f x - f it.xNext := by
    unfold pgdbStep at h
    cases hb : backtrack f g ip x (pgdbDir P g mu x) gamma btFuel 1 with
    | none => simp [hb] at h
    | some a => simp only [hb, Option.some.injEq] at h; subst h; rfl
  have := (stop_rule_window_one errs it.err eps).1 hstop
  linarith

/-! ## ε-optimality certificate and what each stopping mode guarantees -/

/-- C11.eps_optimality_certificate: for a convex differentiable loss (gradient inequality), `x ∈ C` and ANY competitor `z ∈ C`:
`f(x) − f(z) ≤ ‖y‖ · (‖∇f(x)‖ + μ ‖z − x‖)` with `y = P(x − ∇f(x)/μ) − x` the projected-gradient residual.  Hence a residual
`‖y‖ ≤ δ` certifies `f(x) ≤ min_C f + δ (‖∇f(x)‖ + μ D)` when every point of `C` is within `D` of `x` (e.g. `D` = diameter of
the physical set: `√2` for states in the normalised basis). -/
theorem eps_optimality_certificate {P : E → E} {C : Set E} (hP : IsProjOn P C) {f : E → ℝ} {g : E → E}
    (hconv : ∀ u w, f u + ⟪g u, w - u⟫ ≤ f w) {mu : ℝ} (hmu : 0 < mu) (x : E) {z : E} (hz : z ∈ C) :
    f x - f z ≤ ‖pgdbDir P g mu x‖ * (‖g x‖ + mu * ‖z - x‖) := by
  have h1 := linearised_gap_le hP g hmu x hz
  have h2 := hconv x z
  linarith

/-- C11.eps_optimality_of_small_residual: the same with explicit bounds `δ` on the residual and `D` on the distance. -/
theorem eps_optimality_of_small_residual {P : E → E} {C : Set E} (hP : IsProjOn P C) {f : E → ℝ} {g : E → E}
    (hconv : ∀ u w, f u + ⟪g u, w - u⟫ ≤ f w) {mu : ℝ} (hmu : 0 < mu) (x : E) {z : E} (hz : z ∈ C) {delta D : ℝ}
    (hres : ‖pgdbDir P g mu x‖ ≤ delta) (hD : ‖z - x‖ ≤ D) :
    f x - f z ≤ delta * (‖g x‖ + mu * D) := by
  have h := eps_optimality_certificate hP hconv hmu x hz
  have hn : 0 ≤ ‖pgdbDir P g mu x‖ := norm_nonneg _
  have hd : 0 ≤ delta := le_trans hn hres
  have h1 : ‖g x‖ + mu * ‖z - x‖ ≤ ‖g x‖ + mu * D := by
    have := mul_le_mul_of_nonneg_left hD hmu.le
    linarith
  have h0 : 0 ≤ ‖g x‖ + mu * ‖z - x‖ := by positivity
  calc f x - f z ≤ ‖pgdbDir P g mu x‖ * (‖g x‖ + mu * ‖z - x‖) := h
    _ ≤ delta * (‖g x‖ + mu * ‖z - x‖) := mul_le_mul_of_nonneg_right hres h0
    _ ≤ delta * (‖g x‖ + mu * D) := mul_le_mul_of_nonneg_left h1 hd

/-- residual bound `δ_mode` implied by the stopping test of each mode (window 1) for accepted step size `α` -/
noncomputable def stopDelta (mode : StopMode) (eps gamma alpha mu : ℝ) : ℝ :=
  match mode with
  | .sumAbsDiffProjGrad => eps
  | .sumAbsDiffVar => eps / alpha
  | .singleDiffLoss => Real.sqrt (eps / (gamma * alpha * mu))
  | .sumAbsDiffLoss => Real.sqrt (eps / (gamma * alpha * mu))

/-- C11.stop_mode_guarantees: a backtracking run (window 1, `sqrt = Real.sqrt`) that stops at an iteration taken from the
feasible point `x` returns `x_next` with, for every competitor `z ∈ C`,
`f(x_next) − f(z) ≤ δ_mode · (‖∇f(x)‖ + μ ‖z − x‖)` where the residual bound `δ_mode = stopDelta …` implied by the stopping test is
* `sum_absolute_difference_projected_gradient`: `eps`;
* `sum_absolute_difference_variable`: `eps / α`;
* `single_difference_loss` and `sum_absolute_difference_loss`: `√(eps / (γ α μ))`
(`α` the accepted step size of that iteration, `γ > 0`).  This is the ε-optimality of the returned estimate in terms of the
stopping threshold — with the run-dependent quantities `α`, `‖∇f(x)‖` that the history records. -/
theorem stop_mode_guarantees {P : E → E} {C : Set E} (hC : Convex ℝ C) (hP : IsProjOn P C) {f : E → ℝ} {g : E → E}
    (hconv : ∀ u w, f u + ⟪g u, w - u⟫ ≤ f w) {mu gamma : ℝ} (hmu : 0 < mu) (hgam : 0 < gamma) (mode : StopMode)
    (btFuel : Nat) {x : E} (hx : x ∈ C) (it : PgdbIter ℝ E)
    (h : pgdbStep P f g ip Real.sqrt mu gamma mode btFuel x = some it) (errs : List ℝ) (eps : ℝ)
    (hstop : isDoing (errs ++ [it.err]) 1 eps = false) {z : E} (hz : z ∈ C) :
    f it.xNext - f z ≤
      stopDelta mode eps gamma it.alpha mu * (‖g x‖ + mu * ‖z - x‖) := by
  obtain ⟨_, ha0, _, hy, hxn, _⟩ :=
    pgdb_step_feasible hC P (fun w => (hP w).1) f g ip Real.sqrt mu gamma mode btFuel x hx it h
  obtain ⟨hdec, hle, _⟩ := pgdb_step_decrease hC hP f g Real.sqrt hmu hgam.le mode btFuel hx it h
  have herr : it.err = errorValue mode f Real.sqrt (fun v => ip v v) x (x + it.alpha • it.y) it.y := by
    unfold pgdbStep at h
    cases hb : backtrack f g ip x (pgdbDir P g mu x) gamma btFuel 1 with
    | none => simp [hb] at h
    | some a => simp only [hb, Option.some.injEq] at h; subst h; rfl
  have hstop' := (stop_rule_window_one errs it.err eps).1 hstop
  obtain ⟨m1, m2, m3, m4⟩ := stop_criteria_meaning f x it.y it.alpha ha0.le
  have hcert := eps_optimality_certificate hP hconv hmu x hz
  have hyy : pgdbDir P g mu x = it.y := by rw [hy, pgdbDir_def]
  rw [hyy] at hcert
  have hfac : 0 ≤ ‖g x‖ + mu * ‖z - x‖ := by positivity
  -- it suffices to bound the residual by the mode's δ
  suffices hres : ‖it.y‖ ≤ stopDelta mode eps gamma it.alpha mu by
    calc f it.xNext - f z ≤ f x - f z := by linarith
      _ ≤ ‖it.y‖ * (‖g x‖ + mu * ‖z - x‖) := hcert
      _ ≤ _ := mul_le_mul_of_nonneg_right hres hfac
  have hpos : 0 < gamma * it.alpha * mu := by positivity
  have hsq : ∀ d : ℝ, d ≤ eps → f x - f it.xNext ≤ d → ‖it.y‖ ≤ Real.sqrt (eps / (gamma * it.alpha * mu)) := by
    intro d hd hfd
    apply Real.le_sqrt_of_sq_le
    rw [le_div_iff₀ hpos]
    nlinarith
  cases mode with
  | sumAbsDiffProjGrad => simp only [stopDelta]; rw [herr, m4] at hstop'; exact hstop'
  | sumAbsDiffVar =>
    simp only [stopDelta]
    rw [herr, m3] at hstop'
    rw [le_div_iff₀ ha0]; linarith
  | singleDiffLoss =>
    simp only [stopDelta]
    rw [herr, m1, ← hxn] at hstop'
    exact hsq _ hstop' le_rfl
  | sumAbsDiffLoss =>
    simp only [stopDelta]
    rw [herr, m2, ← hxn] at hstop'
    exact hsq _ hstop' (le_abs_self _)

/-! ## D13 — the projection wrapper breaks the descent property (negation witness) -/

/-- stacked representation of the two-variable toy POVM parametrisation: the third entry is the dependent one -/
def toS (v : ℚ × ℚ) : ℚ × ℚ × ℚ := (v.1, v.2, 1 - v.1 - v.2)
/-- Euclidean nearest point of `{s : s₁ ≥ 0, s₁ + s₂ + s₃ = 1}` for points of the plane -/
def projS (s : ℚ × ℚ × ℚ) : ℚ × ℚ × ℚ := if s.1 < 0 then (0, s.2.1 + s.1 / 2, s.2.2 + s.1 / 2) else s
def toV (s : ℚ × ℚ × ℚ) : ℚ × ℚ := (s.1, s.2.1)
def dot2 (a b : ℚ × ℚ) : ℚ := a.1 * b.1 + a.2 * b.2

/-- `projS` really is the Euclidean projection onto the stacked feasible set (variational inequality in `ℚ³`), so the
witness below is an instance of "project exactly in stacked space, then drop the dependent entry". -/
theorem projS_is_euclidean_projection (s w : ℚ × ℚ × ℚ) (hs : s.1 + s.2.1 + s.2.2 = 1)
    (hw : w.1 + w.2.1 + w.2.2 = 1) (hw1 : 0 ≤ w.1) :
    0 ≤ (projS s).1 ∧ (projS s).1 + (projS s).2.1 + (projS s).2.2 = 1 ∧
    (s.1 - (projS s).1) * (w.1 - (projS s).1) + (s.2.1 - (projS s).2.1) * (w.2.1 - (projS s).2.1)
      + (s.2.2 - (projS s).2.2) * (w.2.2 - (projS s).2.2) ≤ 0 := by
  unfold projS
  split_ifs with h
  · refine ⟨le_refl _, by simp only; linarith, ?_⟩
    simp only
    have e : w.2.1 + w.2.2 = 1 - w.1 := by linarith
    have e2 : s.2.1 + s.2.2 = 1 - s.1 := by linarith
    nlinarith
  · exact ⟨not_lt.1 h, hs, by simp⟩

/-- C11.pg_descent_dir_fails_via_stacked (finding D13): with the projection computed as
`calc_proj_physical_with_var` does for POVMs / measurement processes under `on_para_eq_constraint=True` — convert to the
stacked vector (dependent last element), project there, drop the dependent element — the projected-gradient direction need
not be a descent direction for the gradient taken in the variable coordinates: at the feasible point `x = (0,0)` with gradient
`(4,−1)`, `μ = 1`, the direction is `(0,−1)` and `⟪∇f, y⟫ = 1 > 0`.  Hence `pg_descent_dir`, `pgdb_step_decrease` and
`pg_fixed_iff_opt` do not apply to that configuration. -/
theorem pg_descent_dir_fails_via_stacked :
    ¬ ∀ (x g : ℚ × ℚ), 0 ≤ x.1 →
      dot2 g (pgdbDir (projViaStacked toS projS toV) (fun _ => g) (1 : ℚ) x) ≤ 0 := by
  intro h
  have := h (0, 0) (4, -1) (le_refl _)
  norm_num [dot2, pgdbDir, projViaStacked, toS, projS, toV] at this

end QM.C11

/-! ## the CVXPY-backed estimator minimises the same function when all schedules have the same number of shots -/
namespace QM.C11
section cvx
variable {K : Type} [Field K] [LinearOrder K] [IsStrictOrderedRing K]

/-- C11.cvx_se_equal_shots: with the same shot count `n ≠ 0` for each of the `S` schedules, the objective that
`CvxpyUniformSquaredError.value_cvxpy` hands to the solver is `1/S` times the identity-weight squared error minimised by the
projected-gradient estimators (same model distributions `ps`, same data `qs`). -/
theorem cvx_se_equal_shots (n : K) (hn : n ≠ 0) (S : Nat) (hS : 0 < S) (ps qs : List (List K)) (hp : ps.length = S)
    (hq : qs.length = S) :
    cvxSquaredError (numRatios (List.replicate S n)) ps qs = (1 / (S : K)) * plainSquaredError ps qs := by
  have hS' : (S : K) ≠ 0 := Nat.cast_ne_zero.2 (Nat.pos_iff_ne_zero.1 hS)
  have hr : numRatios (List.replicate S n) = List.replicate S (1 / (S : K)) := by
    unfold numRatios
    rw [lsum_replicate, List.map_replicate]
    congr 1
    field_simp
  have hl : (ps.zip qs).length = S := by simp [hp, hq]
  unfold cvxSquaredError plainSquaredError
  rw [hr, ← hl]
  exact weighted_const (1 / ((ps.zip qs).length : K)) (ps.zip qs)

/-- C11.cvx_se_same_minimisers: hence the two estimators rank any two parameter points identically — they have the same
constrained minimisers (the agreement claim of the property is well posed). -/
theorem cvx_se_same_minimisers (n : K) (hn : n ≠ 0) (S : Nat) (hS : 0 < S) (ps ps' qs : List (List K)) (hp : ps.length = S)
    (hp' : ps'.length = S) (hq : qs.length = S) :
    cvxSquaredError (numRatios (List.replicate S n)) ps qs ≤ cvxSquaredError (numRatios (List.replicate S n)) ps' qs ↔
      plainSquaredError ps qs ≤ plainSquaredError ps' qs := by
  rw [cvx_se_equal_shots n hn S hS ps qs hp hq, cvx_se_equal_shots n hn S hS ps' qs hp' hq]
  have hpos : (0 : K) < 1 / (S : K) := by
    have : (0 : K) < (S : K) := Nat.cast_pos.2 hS
    positivity
  exact mul_le_mul_iff_of_pos_left hpos

example : cvxSquaredError (numRatios [(10 : ℚ), 10]) [[1/2, 1/2], [1/4, 3/4]] [[1, 0], [0, 1]] = 5 / 16 := by
  norm_num [cvxSquaredError, numRatios, sqErr, lsum]

end cvx
end QM.C11
