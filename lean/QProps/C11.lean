import QProofs.C11
import QProps.C10
import QGen.C10
/-!
# C11 — loss minimisation attains the constrained optimum: property theorems

Setting: a real inner-product space `E` (the parameter space `ℝ^n` with the Euclidean pairing the implementation's
`np.dot` computes), a convex set `C` (the physical set), `P` its metric projection given by the variational inequality
(`IsProjOn`, what C04/C05 establish for the implementation's projections), a loss `f` with gradient `g`.  Convexity enters only as
the gradient inequality AT the point considered against the points of `C` (`∀ w ∈ C, f x + ⟪∇f(x), w − x⟫ ≤ f w`), smoothness only
as the quadratic upper bound between points of `C`: both squared-error losses satisfy them globally; the relative-entropy losses
(which clip `p` at `10⁻¹⁰` and are neither convex nor smooth on all of `ℝ^n`) satisfy the convexity hypothesis on the part of the
physical set where the model probabilities of the observed outcomes exceed the clip, and no uniform smoothness bound — the
smoothness group (`armijo_accepts_small_steps` … `pgdb_projected_gradient_rule_iterations`) covers se / fse only.  All statements are about the model definitions of `QModel/C10.lean`
(`pgdbDir`, `isDoingForAlpha`, `backtrack`, `pgdbStep`, `pgdbLoop`, `pgdbOptimize`, `errorValue`, `windowSum`, `isDoing`) and
`QModel/C11.lean` instantiated at `K = ℝ`, `V = E`, `dot = ⟪·,·⟫`, `sqrt = Real.sqrt`; unbounded in dimension, iteration
count, history window and all thresholds.

Finite stopping with explicit iteration bounds is proved for all four rules with ANY window `n ≥ 1`
(`pgdb_loss_rule_iterations_window`: `1 + n(f₀ − f_low)/eps`; `pgdb_step_size_rule_iterations_window`:
`1 + n²(f₀ − f_low)/(γμ eps²)`; `pgdb_projected_gradient_rule_iterations_window` on `L`-smooth losses, `c` for `γμ`).
Exact-data optimality of the truth for the relative entropy: `relative_entropy_exact_data_minimiser` (Gibbs).
Not proved: that the coded iteration limit (1000) exceeds these bounds — with the default `eps ≈ 10⁻¹⁴` it does not, so a default
run may end on the limit; momentum / FISTA optimality (C10 proves feasibility only); anything about SCS.
Known defect mirrored by a negation witness: `pg_descent_dir_fails_via_stacked` (finding D13).
-/
set_option linter.unusedSectionVars false
namespace QM.C11
open QM.C10
open scoped RealInnerProductSpace

variable {E : Type} [NormedAddCommGroup E] [InnerProductSpace ℝ E]

/-- the Euclidean pairing handed to the model as `dot` -/
def ip (a b : E) : ℝ := ⟪a, b⟫

/-! ## optimality of fixed points, descent direction -/

/-- C11.pg_fixed_iff_opt: for `x ∈ C`, `μ > 0`: the projected-gradient direction vanishes
(`P(x − ∇f(x)/μ) = x`) ⇔ first-order optimality on `C` ⇔ `x` minimises `f` on `C`. -/
theorem pg_fixed_iff_opt [CompleteSpace E] {P : E → E} {C : Set E} (hC : Convex ℝ C) (hP : IsProjOn P C) {f : E → ℝ}
    {g : E → E} {x : E} (hg : HasGradientAt f (g x) x) (hconv : ∀ w ∈ C, f x + ⟪g x, w - x⟫ ≤ f w) {mu : ℝ} (hmu : 0 < mu)
    (hx : x ∈ C) :
    (pgdbDir P g mu x = 0 ↔ ∀ w ∈ C, 0 ≤ ⟪g x, w - x⟫) ∧ ((∀ w ∈ C, 0 ≤ ⟪g x, w - x⟫) ↔ ∀ w ∈ C, f x ≤ f w) :=
  ⟨fixed_iff_first_order hP g hmu hx,
   ⟨min_of_first_order hconv, first_order_of_min hC hx hg⟩⟩

/-- C11.pg_descent_dir: the direction `y = P(x − ∇f(x)/μ) − x` satisfies `⟪∇f(x), y⟫ ≤ −μ ‖y‖²`. -/
theorem pg_descent_dir {P : E → E} {C : Set E} (hP : IsProjOn P C) (g : E → E) {mu : ℝ} (hmu : 0 < mu) {x : E}
    (hx : x ∈ C) : ⟪g x, pgdbDir P g mu x⟫ ≤ -mu * ‖pgdbDir P g mu x‖ ^ 2 :=
  descent_dir hP g hmu hx

/-- the hypotheses are satisfiable non-trivially: on `ℝ`, `C = [0, ∞)`, `P = max · 0`. -/
example : IsProjOn (fun z : ℝ => max z 0) (Set.Ici 0) := by
  intro z
  refine ⟨show (0 : ℝ) ≤ max z 0 from le_max_right _ _, fun w hw => ?_⟩
  have hw : (0 : ℝ) ≤ w := hw
  show ⟪z - max z 0, w - max z 0⟫ ≤ 0
  rcases le_total z 0 with h | h
  · rw [max_eq_right h]; simp only [sub_zero, RCLike.inner_apply, conj_trivial]; nlinarith
  · rw [max_eq_left h]; simp

/-- the projection onto `[0, ∞) ⊂ ℝ`, for the instantiations below -/
theorem isProjOn_max_zero : IsProjOn (fun z : ℝ => max z 0) (Set.Ici 0) := by
  intro z
  refine ⟨show (0 : ℝ) ≤ max z 0 from le_max_right _ _, fun w hw => ?_⟩
  have hw : (0 : ℝ) ≤ w := hw
  show ⟪z - max z 0, w - max z 0⟫ ≤ 0
  rcases le_total z 0 with h | h
  · rw [max_eq_right h]; simp only [sub_zero, RCLike.inner_apply, conj_trivial]; nlinarith
  · rw [max_eq_left h]; simp

/-! ## the sufficient-decrease test as coded ⇒ the loss never increases -/

/-- C11.armijo_monotone: a step size that passes the test coded in `_is_doing_for_alpha` (the `while` loop exits) along a
direction with `⟪y, ∇f(x)⟫ ≤ 0` does not increase the loss; `γ ≥ 0`, `α ≥ 0`. -/
theorem armijo_monotone (f : E → ℝ) (g : E → E) (x y : E) (alpha gamma : ℝ) (ha : 0 ≤ alpha) (hgam : 0 ≤ gamma)
    (hdesc : ⟪y, g x⟫ ≤ 0) (hacc : isDoingForAlpha f g ip x y alpha gamma = false) :
    f (x + alpha • y) ≤ f x + gamma * alpha * ⟪y, g x⟫ ∧ f (x + alpha • y) ≤ f x := by
  have h1 : f (x + alpha • y) ≤ f x + gamma * alpha * ⟪y, g x⟫ := by
    unfold isDoingForAlpha at hacc
    exact not_lt.1 (of_decide_eq_false hacc)
  refine ⟨h1, ?_⟩
  have : gamma * alpha * ⟪y, g x⟫ ≤ 0 := mul_nonpos_of_nonneg_of_nonpos (mul_nonneg hgam ha) hdesc
  linarith

/-- C11.pgdb_step_decrease: one iteration of the backtracking algorithm from a feasible point decreases the loss by at
least `γ α μ ‖y‖²` (sufficient decrease along the projected-gradient direction). -/
theorem pgdb_step_decrease {P : E → E} {C : Set E} (hC : Convex ℝ C) (hP : IsProjOn P C) (f : E → ℝ) (g : E → E)
    (sqrt : ℝ → ℝ) {mu gamma : ℝ} (hmu : 0 < mu) (hgam : 0 ≤ gamma) (mode : StopMode) (btFuel : Nat) {x : E} (hx : x ∈ C)
    (it : PgdbIter ℝ E) (h : pgdbStep P f g ip sqrt mu gamma mode btFuel x = some it) :
    f it.xNext ≤ f x - gamma * it.alpha * mu * ‖it.y‖ ^ 2 ∧ f it.xNext ≤ f x ∧ it.xNext ∈ C := by
  obtain ⟨hmem, ha0, _, hy, hxn, hacc⟩ :=
    pgdb_step_feasible hC P (fun z => (hP z).1) f g ip sqrt mu gamma mode btFuel x hx it h
  have hd : ⟪g x, it.y⟫ ≤ -mu * ‖it.y‖ ^ 2 := by
    have := descent_dir hP g hmu hx
    rw [pgdbDir_def] at this
    rw [hy]; exact this
  have hd' : ⟪it.y, g x⟫ ≤ -mu * ‖it.y‖ ^ 2 := by rw [real_inner_comm]; exact hd
  have hneg : ⟪it.y, g x⟫ ≤ 0 := by
    have : 0 ≤ mu * ‖it.y‖ ^ 2 := by positivity
    linarith
  obtain ⟨h1, h2⟩ := armijo_monotone f g x it.y it.alpha gamma ha0.le hgam hneg hacc
  rw [← hxn] at h1 h2
  refine ⟨?_, h2, hmem⟩
  have : gamma * it.alpha * ⟪it.y, g x⟫ ≤ gamma * it.alpha * (-mu * ‖it.y‖ ^ 2) :=
    mul_le_mul_of_nonneg_left hd' (mul_nonneg hgam ha0.le)
  nlinarith

/-- loop invariant behind `pgdb_loss_nonincreasing` -/
theorem pgdbLoop_monotone {P : E → E} {C : Set E} (hC : Convex ℝ C) (hP : IsProjOn P C) (f : E → ℝ) (g : E → E)
    (sqrt : ℝ → ℝ) {mu gamma : ℝ} (eps : ℝ) (hmu : 0 < mu) (hgam : 0 ≤ gamma) (mode : StopMode) (numHist btFuel : Nat) :
    ∀ (fuel : Nat) (x : E) (errs : List ℝ) (rest : List E) (res : List E × List ℝ), x ∈ C →
      (x :: rest).Pairwise (fun a b => f a ≤ f b) →
      pgdbLoop P f g ip sqrt mu gamma eps mode numHist btFuel fuel x errs (x :: rest) = some res →
      res.1.Pairwise (fun a b => f a ≤ f b) := by
  intro fuel
  induction fuel with
  | zero =>
    intro x errs rest res _ hp h
    simp only [pgdbLoop, Option.some.injEq] at h
    subst h; exact hp
  | succ fuel ih =>
    intro x errs rest res hx hp h
    unfold pgdbLoop at h
    cases hs : pgdbStep P f g ip sqrt mu gamma mode btFuel x with
    | none => simp [hs] at h
    | some it =>
      obtain ⟨_, hle, hmem⟩ := pgdb_step_decrease hC hP f g sqrt hmu hgam mode btFuel hx it hs
      have hp' : (it.xNext :: x :: rest).Pairwise (fun a b => f a ≤ f b) := by
        refine List.pairwise_cons.2 ⟨?_, hp⟩
        intro b hb
        rcases List.mem_cons.1 hb with rfl | hb
        · exact hle
        · exact le_trans hle ((List.pairwise_cons.1 hp).1 b hb)
      simp only [hs] at h
      by_cases hd : isDoing (errs ++ [it.err]) numHist eps = true
      · rw [if_pos hd] at h
        exact ih it.xNext _ _ res hmem hp' h
      · rw [if_neg hd] at h
        injection h with h; subst h
        exact hp'

/-- C11.pgdb_loss_nonincreasing: along a whole backtracking run — any iteration limit, stopping mode, window, thresholds —
the recorded history (most recent first) has non-increasing loss: every later iterate has a loss ≤ every earlier one; and
(`pgdb_estimate_feasible`) every iterate is in `C`. -/
theorem pgdb_loss_nonincreasing {P : E → E} {C : Set E} (hC : Convex ℝ C) (hP : IsProjOn P C) (f : E → ℝ) (g : E → E)
    (sqrt : ℝ → ℝ) {mu gamma : ℝ} (eps : ℝ) (hmu : 0 < mu) (hgam : 0 ≤ gamma) (mode : StopMode)
    (numHist btFuel maxIter : Nat) {xStart : E} (hs : xStart ∈ C) (x : E) (hist : List E) (errs : List ℝ)
    (h : pgdbOptimize P f g ip sqrt mu gamma eps mode numHist btFuel maxIter xStart = some (x, hist, errs)) :
    hist.Pairwise (fun a b => f a ≤ f b) ∧ (∀ v ∈ hist, v ∈ C) ∧ f x ≤ f xStart := by
  have hfeas := pgdb_estimate_feasible hC P (fun z => (hP z).1) f g ip sqrt mu gamma eps mode numHist btFuel maxIter
    xStart hs x hist errs h
  unfold pgdbOptimize at h
  cases hl : pgdbLoop P f g ip sqrt mu gamma eps mode numHist btFuel maxIter xStart [] [xStart] with
  | none => simp [hl] at h
  | some res =>
    obtain ⟨vs, es⟩ := res
    have hpw := pgdbLoop_monotone hC hP f g sqrt eps hmu hgam mode numHist btFuel maxIter xStart [] [] (vs, es) hs
      (by simp) hl
    cases vs with
    | nil => simp [hl] at h
    | cons v vs =>
      simp only [hl] at h
      by_cases hm : maxIter = 0
      · simp [hm] at h
      · simp only [hm, if_false, Option.some.injEq, Prod.mk.injEq] at h
        obtain ⟨rfl, rfl, _⟩ := h
        refine ⟨hpw, hfeas.2, ?_⟩
        -- the start point is the last entry of the history
        have hlast : ∀ (fuel : Nat) (y : E) (e : List ℝ) (l : List E) (r : List E × List ℝ),
            pgdbLoop P f g ip sqrt mu gamma eps mode numHist btFuel fuel y e l = some r → ∃ pre, r.1 = pre ++ l := by
          intro fuel
          induction fuel with
          | zero => intro y e l r hr; simp only [pgdbLoop, Option.some.injEq] at hr; exact ⟨[], by rw [← hr]; rfl⟩
          | succ fuel ih =>
            intro y e l r hr
            unfold pgdbLoop at hr
            cases hst : pgdbStep P f g ip sqrt mu gamma mode btFuel y with
            | none => simp [hst] at hr
            | some it =>
              simp only [hst] at hr
              by_cases hd : isDoing (e ++ [it.err]) numHist eps = true
              · rw [if_pos hd] at hr
                obtain ⟨pre, hpre⟩ := ih _ _ _ r hr
                exact ⟨pre ++ [it.xNext], by rw [hpre]; simp⟩
              · rw [if_neg hd] at hr
                injection hr with hr
                exact ⟨[it.xNext], by rw [← hr]; rfl⟩
        obtain ⟨pre, hpre⟩ := hlast maxIter xStart [] [xStart] (v :: vs, es) hl
        have hmem : xStart ∈ v :: vs := by rw [show v :: vs = pre ++ [xStart] from hpre]; simp
        rcases List.mem_cons.1 hmem with heq | hin
        · rw [heq]
        · exact (List.pairwise_cons.1 hpw).1 _ hin

/-! ## what the stopping criteria bound -/

/-- C11.stop_rule_window_one: with `num_history = 1` the loop stops exactly when the last error value is `≤ eps`. -/
theorem stop_rule_window_one (errs : List ℝ) (e eps : ℝ) : isDoing (errs ++ [e]) 1 eps = false ↔ e ≤ eps := by
  have hw : windowSum (errs ++ [e]) 1 = e := by
    unfold windowSum
    have : (errs ++ [e]).length - min (errs ++ [e]).length 1 = errs.length := by simp
    rw [this]
    simp [lsum]
  unfold isDoing
  rw [hw]
  simp

/-- C11.stop_rule_bounds_last: for ANY window `num_history ≥ 1`, if the earlier error values are non-negative (they are: see
`pgdb_error_value_nonneg`), a stop (`value > eps` false) implies that the last error value is `≤ eps`. -/
theorem stop_rule_bounds_last (errs : List ℝ) (e eps : ℝ) (numHist : Nat) (hn : 1 ≤ numHist) (hpos : ∀ v ∈ errs, 0 ≤ v)
    (h : isDoing (errs ++ [e]) numHist eps = false) : e ≤ eps := by
  have h1 := last_le_windowSum errs e numHist hn hpos
  unfold isDoing at h
  have h2 : ¬ eps < windowSum (errs ++ [e]) numHist := by simpa using h
  linarith [not_lt.1 h2]

example : isDoing ([3, 1 / 4] ++ [1 / 4] : List ℝ) 2 1 = false := by
  unfold isDoing windowSum; norm_num [lsum]

/-- C11.stop_criteria_meaning: the error value of each of the four modes, for an accepted backtracking step
`x_next = x + α y` (`sqrt = Real.sqrt`): loss decrease; its absolute value; `α ‖y‖ = ‖x_next − x‖`; `‖y‖` (the
projected-gradient residual). -/
theorem stop_criteria_meaning (f : E → ℝ) (x y : E) (alpha : ℝ) (ha : 0 ≤ alpha) :
    errorValue .singleDiffLoss f Real.sqrt (fun v => ip v v) x (x + alpha • y) y = f x - f (x + alpha • y) ∧
    errorValue .sumAbsDiffLoss f Real.sqrt (fun v => ip v v) x (x + alpha • y) y = |f x - f (x + alpha • y)| ∧
    errorValue .sumAbsDiffVar f Real.sqrt (fun v => ip v v) x (x + alpha • y) y = alpha * ‖y‖ ∧
    errorValue .sumAbsDiffProjGrad f Real.sqrt (fun v => ip v v) x (x + alpha • y) y = ‖y‖ := by
  refine ⟨rfl, ?_, ?_, ?_⟩
  · simp only [errorValue]
    split_ifs with h
    · rw [abs_of_neg h]
    · rw [abs_of_nonneg (not_lt.1 h)]
  · simp only [errorValue, ip]
    have : x - (x + alpha • y) = -(alpha • y) := by abel
    rw [this, inner_neg_neg, real_inner_self_eq_norm_sq, Real.sqrt_sq (norm_nonneg _), norm_smul, Real.norm_eq_abs,
      abs_of_nonneg ha]
  · simp only [errorValue, ip]
    rw [real_inner_self_eq_norm_sq, Real.sqrt_sq (norm_nonneg _)]

/-- C11.stop_bounds_projected_gradient_partial: when a run with the default criterion (`single_difference_loss`, window 1)
stops at an iteration from a feasible point, the projected-gradient residual of that iteration is bounded:
`γ α μ ‖y‖² ≤ eps`.  *Partial*: window 1 and the default rule only, and a residual bound rather than a bound on `f(x̂) − min f`;
`stop_mode_guarantees` (all four rules, any window, `f(x̂) − f(z)` bounded) supersedes it. -/
theorem stop_bounds_projected_gradient_partial {P : E → E} {C : Set E} (hC : Convex ℝ C) (hP : IsProjOn P C) (f : E → ℝ)
    (g : E → E) {mu gamma : ℝ} (hmu : 0 < mu) (hgam : 0 ≤ gamma) (btFuel : Nat) {x : E} (hx : x ∈ C)
    (it : PgdbIter ℝ E) (h : pgdbStep P f g ip Real.sqrt mu gamma .singleDiffLoss btFuel x = some it) (errs : List ℝ)
    (eps : ℝ) (hstop : isDoing (errs ++ [it.err]) 1 eps = false) :
    gamma * it.alpha * mu * ‖it.y‖ ^ 2 ≤ eps := by
  have hdec := (pgdb_step_decrease hC hP f g Real.sqrt hmu hgam .singleDiffLoss btFuel hx it h).1
  have herr : it.err = f x - f it.xNext := by
    unfold pgdbStep at h
    cases hb : backtrack f g ip x (pgdbDir P g mu x) gamma btFuel 1 with
    | none => simp [hb] at h
    | some a => simp only [hb, Option.some.injEq] at h; subst h; rfl
  have := (stop_rule_window_one errs it.err eps).1 hstop
  linarith

/-! ## ε-optimality certificate and what each stopping mode guarantees -/

/-- C11.eps_optimality_certificate: for a convex differentiable loss (gradient inequality), `x ∈ C` and ANY competitor `z ∈ C`:
`f(x) − f(z) ≤ ‖y‖ · (‖∇f(x)‖ + μ ‖z − x‖)` with `y = P(x − ∇f(x)/μ) − x` the projected-gradient residual.  Hence a residual
`‖y‖ ≤ δ` certifies `f(x) ≤ min_C f + δ (‖∇f(x)‖ + μ D)` when every point of `C` is within `D` of `x` (e.g. `D` = diameter of
the physical set: `√2` for states in the normalised basis). -/
theorem eps_optimality_certificate {P : E → E} {C : Set E} (hP : IsProjOn P C) {f : E → ℝ} {g : E → E}
    {mu : ℝ} (hmu : 0 < mu) (x : E) (hconv : ∀ w ∈ C, f x + ⟪g x, w - x⟫ ≤ f w) {z : E} (hz : z ∈ C) :
    f x - f z ≤ ‖pgdbDir P g mu x‖ * (‖g x‖ + mu * ‖z - x‖) := by
  have h1 := linearised_gap_le hP g hmu x hz
  have h2 := hconv z hz
  linarith

/-- C11.eps_optimality_of_small_residual: the same with explicit bounds `δ` on the residual and `D` on the distance. -/
theorem eps_optimality_of_small_residual {P : E → E} {C : Set E} (hP : IsProjOn P C) {f : E → ℝ} {g : E → E}
    {mu : ℝ} (hmu : 0 < mu) (x : E) (hconv : ∀ w ∈ C, f x + ⟪g x, w - x⟫ ≤ f w) {z : E} (hz : z ∈ C) {delta D : ℝ}
    (hres : ‖pgdbDir P g mu x‖ ≤ delta) (hD : ‖z - x‖ ≤ D) :
    f x - f z ≤ delta * (‖g x‖ + mu * D) := by
  have h := eps_optimality_certificate hP hmu x hconv hz
  have hn : 0 ≤ ‖pgdbDir P g mu x‖ := norm_nonneg _
  have hd : 0 ≤ delta := le_trans hn hres
  have h1 : ‖g x‖ + mu * ‖z - x‖ ≤ ‖g x‖ + mu * D := by
    have := mul_le_mul_of_nonneg_left hD hmu.le
    linarith
  have h0 : 0 ≤ ‖g x‖ + mu * ‖z - x‖ := by positivity
  calc f x - f z ≤ ‖pgdbDir P g mu x‖ * (‖g x‖ + mu * ‖z - x‖) := h
    _ ≤ delta * (‖g x‖ + mu * ‖z - x‖) := mul_le_mul_of_nonneg_right hres h0
    _ ≤ delta * (‖g x‖ + mu * D) := mul_le_mul_of_nonneg_left h1 hd

/-- the certificate instantiated non-trivially: `E = ℝ`, `C = [0, ∞)`, `f u = (u + 1)²` (its constrained minimiser `0` is on the
boundary, with non-zero gradient), `μ = 1`, at `x = 1` against `z = 0`: the local convexity hypothesis holds and the bound
reads `4 − 1 ≤ |P(1 − 4) − 1| · (4 + 1·1) = 5`. -/
example : ((1 : ℝ) + 1) ^ 2 - ((0 : ℝ) + 1) ^ 2
    ≤ ‖pgdbDir (fun z : ℝ => max z 0) (fun u => 2 * (u + 1)) (1 : ℝ) (1 : ℝ)‖ * (‖(2 * ((1 : ℝ) + 1) : ℝ)‖ + 1 * ‖(0 : ℝ) - 1‖) := by
  have h := eps_optimality_certificate (f := fun u : ℝ => (u + 1) ^ 2) (g := fun u => 2 * (u + 1)) isProjOn_max_zero
    (mu := 1) one_pos 1
    (by
      intro w _
      simp only [RCLike.inner_apply, conj_trivial]
      nlinarith [sq_nonneg (w - 1)])
    (z := 0) (Set.mem_Ici.2 (le_refl (0 : ℝ)))
  simpa using h

/-- C11.pgdb_error_value_nonneg: the error value of an accepted backtracking step from a feasible point is non-negative in all
four modes (the loss decrease by `pgdb_step_decrease`, the others by definition) — the hypothesis `hpos` of
`stop_rule_bounds_last` / `stop_mode_guarantees` holds along every run. -/
theorem pgdb_error_value_nonneg {P : E → E} {C : Set E} (hC : Convex ℝ C) (hP : IsProjOn P C) (f : E → ℝ) (g : E → E)
    {mu gamma : ℝ} (hmu : 0 < mu) (hgam : 0 ≤ gamma) (mode : StopMode) (btFuel : Nat) {x : E} (hx : x ∈ C)
    (it : PgdbIter ℝ E) (h : pgdbStep P f g ip Real.sqrt mu gamma mode btFuel x = some it) : 0 ≤ it.err := by
  obtain ⟨_, ha0, _, _, hxn, _⟩ :=
    pgdb_step_feasible hC P (fun w => (hP w).1) f g ip Real.sqrt mu gamma mode btFuel x hx it h
  obtain ⟨_, hle, _⟩ := pgdb_step_decrease hC hP f g Real.sqrt hmu hgam mode btFuel hx it h
  have herr : it.err = errorValue mode f Real.sqrt (fun v => ip v v) x (x + it.alpha • it.y) it.y := by
    unfold pgdbStep at h
    cases hb : backtrack f g ip x (pgdbDir P g mu x) gamma btFuel 1 with
    | none => simp [hb] at h
    | some a => simp only [hb, Option.some.injEq] at h; subst h; rfl
  obtain ⟨m1, m2, m3, m4⟩ := stop_criteria_meaning f x it.y it.alpha ha0.le
  rw [herr]
  cases mode with
  | singleDiffLoss => rw [m1, ← hxn]; linarith
  | sumAbsDiffLoss => rw [m2]; exact abs_nonneg _
  | sumAbsDiffVar => rw [m3]; exact mul_nonneg ha0.le (norm_nonneg _)
  | sumAbsDiffProjGrad => rw [m4]; exact norm_nonneg _

/-- residual bound `δ_mode` implied by the stopping test of each mode (window 1) for accepted step size `α` -/
noncomputable def stopDelta (mode : StopMode) (eps gamma alpha mu : ℝ) : ℝ :=
  match mode with
  | .sumAbsDiffProjGrad => eps
  | .sumAbsDiffVar => eps / alpha
  | .singleDiffLoss => Real.sqrt (eps / (gamma * alpha * mu))
  | .sumAbsDiffLoss => Real.sqrt (eps / (gamma * alpha * mu))

/-- C11.stop_mode_guarantees: a backtracking run (any window `≥ 1`, `sqrt = Real.sqrt`) that stops at an iteration taken from the
feasible point `x` returns `x_next` with, for every competitor `z ∈ C`,
`f(x_next) − f(z) ≤ δ_mode · (‖∇f(x)‖ + μ ‖z − x‖)` where the residual bound `δ_mode = stopDelta …` implied by the stopping test is
* `sum_absolute_difference_projected_gradient`: `eps`;
* `sum_absolute_difference_variable`: `eps / α`;
* `single_difference_loss` and `sum_absolute_difference_loss`: `√(eps / (γ α μ))`
(`α` the accepted step size of that iteration, `γ > 0`).  This is the ε-optimality of the returned estimate in terms of the
stopping threshold — with the run-dependent quantities `α`, `‖∇f(x)‖` that the history records. -/
theorem stop_mode_guarantees {P : E → E} {C : Set E} (hC : Convex ℝ C) (hP : IsProjOn P C) {f : E → ℝ} {g : E → E}
    {mu gamma : ℝ} (hmu : 0 < mu) (hgam : 0 < gamma) (mode : StopMode)
    (btFuel : Nat) {x : E} (hx : x ∈ C) (hconv : ∀ w ∈ C, f x + ⟪g x, w - x⟫ ≤ f w) (it : PgdbIter ℝ E)
    (h : pgdbStep P f g ip Real.sqrt mu gamma mode btFuel x = some it) (errs : List ℝ) (eps : ℝ)
    (numHist : Nat) (hn : 1 ≤ numHist) (hpos : ∀ v ∈ errs, 0 ≤ v)
    (hstop : isDoing (errs ++ [it.err]) numHist eps = false) {z : E} (hz : z ∈ C) :
    f it.xNext - f z ≤
      stopDelta mode eps gamma it.alpha mu * (‖g x‖ + mu * ‖z - x‖) := by
  obtain ⟨_, ha0, _, hy, hxn, _⟩ :=
    pgdb_step_feasible hC P (fun w => (hP w).1) f g ip Real.sqrt mu gamma mode btFuel x hx it h
  obtain ⟨hdec, hle, _⟩ := pgdb_step_decrease hC hP f g Real.sqrt hmu hgam.le mode btFuel hx it h
  have herr : it.err = errorValue mode f Real.sqrt (fun v => ip v v) x (x + it.alpha • it.y) it.y := by
    unfold pgdbStep at h
    cases hb : backtrack f g ip x (pgdbDir P g mu x) gamma btFuel 1 with
    | none => simp [hb] at h
    | some a => simp only [hb, Option.some.injEq] at h; subst h; rfl
  have hstop' := stop_rule_bounds_last errs it.err eps numHist hn hpos hstop
  obtain ⟨m1, m2, m3, m4⟩ := stop_criteria_meaning f x it.y it.alpha ha0.le
  have hcert := eps_optimality_certificate hP hmu x hconv hz
  have hyy : pgdbDir P g mu x = it.y := by rw [hy, pgdbDir_def]
  rw [hyy] at hcert
  have hfac : 0 ≤ ‖g x‖ + mu * ‖z - x‖ := by positivity
  -- it suffices to bound the residual by the mode's δ
  suffices hres : ‖it.y‖ ≤ stopDelta mode eps gamma it.alpha mu by
    calc f it.xNext - f z ≤ f x - f z := by linarith
      _ ≤ ‖it.y‖ * (‖g x‖ + mu * ‖z - x‖) := hcert
      _ ≤ _ := mul_le_mul_of_nonneg_right hres hfac
  have hpos : 0 < gamma * it.alpha * mu := by positivity
  have hsq : ∀ d : ℝ, d ≤ eps → f x - f it.xNext ≤ d → ‖it.y‖ ≤ Real.sqrt (eps / (gamma * it.alpha * mu)) := by
    intro d hd hfd
    apply Real.le_sqrt_of_sq_le
    rw [le_div_iff₀ hpos]
    nlinarith
  cases mode with
  | sumAbsDiffProjGrad => simp only [stopDelta]; rw [herr, m4] at hstop'; exact hstop'
  | sumAbsDiffVar =>
    simp only [stopDelta]
    rw [herr, m3] at hstop'
    rw [le_div_iff₀ ha0]; linarith
  | singleDiffLoss =>
    simp only [stopDelta]
    rw [herr, m1, ← hxn] at hstop'
    exact hsq _ hstop' le_rfl
  | sumAbsDiffLoss =>
    simp only [stopDelta]
    rw [herr, m2, ← hxn] at hstop'
    exact hsq _ hstop' (le_abs_self _)

/-! ## summability of the steps, termination of the line search, eventual stopping -/

/-- loop invariant behind `pgdb_steps_summable` -/
theorem pgdbLoop_summable {P : E → E} {C : Set E} (hC : Convex ℝ C) (hP : IsProjOn P C) (f : E → ℝ) (g : E → E)
    (sqrt : ℝ → ℝ) {mu gamma : ℝ} (eps : ℝ) (hmu : 0 < mu) (hgam : 0 ≤ gamma) (mode : StopMode) (numHist btFuel : Nat)
    (F0 : ℝ) :
    ∀ (fuel : Nat) (x : E) (errs : List ℝ) (rest : List E) (res : List E × List ℝ), x ∈ C →
      gamma * mu * sumSqSteps (x :: rest) + f x ≤ F0 →
      pgdbLoop P f g ip sqrt mu gamma eps mode numHist btFuel fuel x errs (x :: rest) = some res →
      ∃ v vs, res.1 = v :: vs ∧ gamma * mu * sumSqSteps res.1 + f v ≤ F0 := by
  intro fuel
  induction fuel with
  | zero =>
    intro x errs rest res _ hinv h
    simp only [pgdbLoop, Option.some.injEq] at h
    subst h; exact ⟨x, rest, rfl, hinv⟩
  | succ fuel ih =>
    intro x errs rest res hx hinv h
    unfold pgdbLoop at h
    cases hs : pgdbStep P f g ip sqrt mu gamma mode btFuel x with
    | none => simp [hs] at h
    | some it =>
      obtain ⟨hdec, _, hmem⟩ := pgdb_step_decrease hC hP f g sqrt hmu hgam mode btFuel hx it hs
      obtain ⟨_, ha0, ha1, _, hxn, _⟩ :=
        pgdb_step_feasible hC P (fun w => (hP w).1) f g ip sqrt mu gamma mode btFuel x hx it hs
      -- ‖x_next − x‖² = α² ‖y‖² ≤ α ‖y‖²
      have hstep : gamma * mu * ‖it.xNext - x‖ ^ 2 ≤ f x - f it.xNext := by
        have e : it.xNext - x = it.alpha • it.y := by rw [hxn]; abel
        rw [e, norm_smul, Real.norm_eq_abs, abs_of_pos ha0]
        have hy : 0 ≤ ‖it.y‖ ^ 2 := by positivity
        have h2 : (it.alpha * ‖it.y‖) ^ 2 ≤ it.alpha * ‖it.y‖ ^ 2 := by
          have : it.alpha ^ 2 ≤ it.alpha := by nlinarith
          nlinarith
        have h3 : 0 ≤ gamma * mu := mul_nonneg hgam hmu.le
        nlinarith
      have hinv' : gamma * mu * sumSqSteps (it.xNext :: x :: rest) + f it.xNext ≤ F0 := by
        simp only [sumSqSteps]
        nlinarith
      simp only [hs] at h
      by_cases hd : isDoing (errs ++ [it.err]) numHist eps = true
      · rw [if_pos hd] at h
        exact ih it.xNext _ _ res hmem hinv' h
      · rw [if_neg hd] at h
        injection h with h; subst h
        exact ⟨it.xNext, x :: rest, rfl, hinv'⟩

/-- C11.pgdb_steps_summable: along any backtracking run from a feasible start (any mode, window, thresholds, iteration limit) the
squared step lengths are summable against the loss decrease: `γ μ Σ_k ‖x_{k+1} − x_k‖² ≤ f(x₀) − f(x̂)` — no smoothness
assumption is needed (the accepted `α ≤ 1` and the descent inequality suffice). -/
theorem pgdb_steps_summable {P : E → E} {C : Set E} (hC : Convex ℝ C) (hP : IsProjOn P C) (f : E → ℝ) (g : E → E)
    (sqrt : ℝ → ℝ) {mu gamma : ℝ} (eps : ℝ) (hmu : 0 < mu) (hgam : 0 ≤ gamma) (mode : StopMode)
    (numHist btFuel maxIter : Nat) {xStart : E} (hs : xStart ∈ C) (x : E) (hist : List E) (errs : List ℝ)
    (h : pgdbOptimize P f g ip sqrt mu gamma eps mode numHist btFuel maxIter xStart = some (x, hist, errs)) :
    gamma * mu * sumSqSteps hist ≤ f xStart - f x := by
  unfold pgdbOptimize at h
  cases hl : pgdbLoop P f g ip sqrt mu gamma eps mode numHist btFuel maxIter xStart [] [xStart] with
  | none => simp [hl] at h
  | some res =>
    obtain ⟨v, vs, hres, hinv⟩ := pgdbLoop_summable hC hP f g sqrt eps hmu hgam mode numHist btFuel (f xStart) maxIter
      xStart [] [] res hs (by simp [sumSqSteps]) hl
    obtain ⟨l, es⟩ := res
    simp only at hres
    subst hres
    simp only [hl] at h
    by_cases hm : maxIter = 0
    · simp [hm] at h
    · simp only [hm, if_false, Option.some.injEq, Prod.mk.injEq] at h
      obtain ⟨rfl, rfl, _⟩ := h
      linarith

/-- C11.pgdb_long_steps_bounded: hence a run whose every step is at least `eps` long has at most
`(f(x₀) − f_low) / (γ μ eps²)` steps, for any lower bound `f_low` of the loss at the returned point.  (A counting bound under the
explicit hypothesis `AllStepsGe`; that the loop as coded stops within the iteration limit is not derived here.) -/
theorem pgdb_long_steps_bounded {P : E → E} {C : Set E} (hC : Convex ℝ C) (hP : IsProjOn P C) (f : E → ℝ) (g : E → E)
    (sqrt : ℝ → ℝ) {mu gamma : ℝ} (eps0 : ℝ) (hmu : 0 < mu) (hgam : 0 ≤ gamma) (mode : StopMode)
    (numHist btFuel maxIter : Nat) {xStart : E} (hs : xStart ∈ C) (x : E) (hist : List E) (errs : List ℝ)
    (h : pgdbOptimize P f g ip sqrt mu gamma eps0 mode numHist btFuel maxIter xStart = some (x, hist, errs))
    {eps fLow : ℝ} (heps : 0 ≤ eps) (hlow : fLow ≤ f x) (hlong : AllStepsGe eps hist) :
    ((hist.length - 1 : Nat) : ℝ) * (gamma * mu * eps ^ 2) ≤ f xStart - fLow := by
  have h1 := pgdb_steps_summable hC hP f g sqrt eps0 hmu hgam mode numHist btFuel maxIter hs x hist errs h
  have h2 := count_le_sumSq heps hist hlong
  have h3 : 0 ≤ gamma * mu := mul_nonneg hgam hmu.le
  nlinarith

/-- C11.armijo_accepts_small_steps: if the loss has the quadratic upper bound of an `L`-smooth function
(`f(v) ≤ f(u) + ⟪∇f(u), v−u⟫ + L/2 ‖v−u‖²`), then from a feasible point every step size `α ≤ 2(1−γ)μ/L` passes the
sufficient-decrease test as coded. -/
theorem armijo_accepts_small_steps {P : E → E} {C : Set E} (hC : Convex ℝ C) (hP : IsProjOn P C) {f : E → ℝ} {g : E → E}
    {Lc : ℝ} (hL : 0 < Lc) {mu gamma : ℝ} (hmu : 0 < mu) (hgam1 : gamma < 1) {x : E} (hx : x ∈ C)
    (hsm : ∀ v ∈ C, f v ≤ f x + ⟪g x, v - x⟫ + Lc / 2 * ‖v - x‖ ^ 2)
    (a : ℝ) (ha : 0 < a) (hle : a ≤ 2 * (1 - gamma) * mu / Lc) (ha1 : a ≤ 1) :
    isDoingForAlpha f g ip x (pgdbDir P g mu x) a gamma = false := by
  have hmem : x + a • pgdbDir P g mu x ∈ C := by
    rw [pgdbDir_def]
    exact step_mem_of_convex hC hx (hP _).1 ha ha1
  exact armijo_accepts_small hL hgam1 x _ (descent_dir hP g hmu hx) a ha hle (hsm _ hmem)

/-- C11.backtrack_terminates: under the same assumption the `while` loop of the line search ends after at most
`fuel + 1` tests as soon as `2^{-fuel} ≤ 2(1−γ)μ/L` — the iteration as coded never hangs on a smooth convex loss. -/
theorem backtrack_terminates {P : E → E} {C : Set E} (hC : Convex ℝ C) (hP : IsProjOn P C) {f : E → ℝ} {g : E → E} {Lc : ℝ}
    (hL : 0 < Lc) {mu gamma : ℝ} (hmu : 0 < mu) (hgam1 : gamma < 1) (sqrt : ℝ → ℝ) (mode : StopMode) {x : E} (hx : x ∈ C)
    (hsm : ∀ v ∈ C, f v ≤ f x + ⟪g x, v - x⟫ + Lc / 2 * ‖v - x‖ ^ 2) (fuel : Nat)
    (hfuel : (1 : ℝ) / 2 ^ fuel ≤ 2 * (1 - gamma) * mu / Lc) :
    ∃ it, pgdbStep P f g ip sqrt mu gamma mode (fuel + 1) x = some it := by
  obtain ⟨a, ha⟩ := backtrack_terminates_of_threshold f g ip x (pgdbDir P g mu x) gamma _
    (fun a h0 hle h1 => armijo_accepts_small_steps hC hP hL hmu hgam1 hx hsm a h0 hle h1) fuel 1 one_pos le_rfl hfuel
  refine ⟨⟨pgdbDir P g mu x, a, x + a • pgdbDir P g mu x,
    errorValue mode f sqrt (fun v => ip v v) x (x + a • pgdbDir P g mu x) (pgdbDir P g mu x)⟩, ?_⟩
  simp only [pgdbStep, ha]

/-- C11.pgdb_step_alpha_lower_bound: the accepted step size is bounded below uniformly over the run,
`α ≥ min(1, (1−γ)μ/L)`, hence each iteration decreases the loss by at least `γ μ min(1,(1−γ)μ/L) ‖y‖²`: the squared
projected-gradient residuals are summable as well, `Σ_k ‖y_k‖² ≤ (f(x₀) − f*) / (γ μ min(1,(1−γ)μ/L))`, and
`min_{k<n} ‖y_k‖² = O(1/n)`; with `eps_optimality_certificate` this is an `O(1/√n)` bound on `f(x_k) − min_C f`. -/
theorem pgdb_step_alpha_lower_bound {P : E → E} {C : Set E} (hC : Convex ℝ C) (hP : IsProjOn P C) {f : E → ℝ} {g : E → E}
    {Lc : ℝ} (hL : 0 < Lc) {mu gamma : ℝ} (hmu : 0 < mu)
    (hgam0 : 0 < gamma) (hgam1 : gamma < 1) (sqrt : ℝ → ℝ) (mode : StopMode) (btFuel : Nat) {x : E} (hx : x ∈ C)
    (hsm : ∀ v ∈ C, f v ≤ f x + ⟪g x, v - x⟫ + Lc / 2 * ‖v - x‖ ^ 2) (it : PgdbIter ℝ E) (h : pgdbStep P f g ip sqrt mu gamma mode btFuel x = some it) :
    min 1 ((1 - gamma) * mu / Lc) ≤ it.alpha ∧
      f it.xNext ≤ f x - gamma * mu * min 1 ((1 - gamma) * mu / Lc) * ‖it.y‖ ^ 2 := by
  obtain ⟨hdec, _, _⟩ := pgdb_step_decrease hC hP f g sqrt hmu hgam0.le mode btFuel hx it h
  obtain ⟨_, ha0, _, hy, _, _⟩ :=
    pgdb_step_feasible hC P (fun w => (hP w).1) f g ip sqrt mu gamma mode btFuel x hx it h
  have halpha : min 1 ((1 - gamma) * mu / Lc) ≤ it.alpha := by
    have hb : backtrack f g ip x (pgdbDir P g mu x) gamma btFuel 1 = some it.alpha := by
      unfold pgdbStep at h
      cases hb : backtrack f g ip x (pgdbDir P g mu x) gamma btFuel 1 with
      | none => simp [hb] at h
      | some a => simp only [hb, Option.some.injEq] at h; subst h; rfl
    rcases backtrack_prev_rejected f g ip x (pgdbDir P g mu x) gamma btFuel 1 it.alpha one_pos hb with h1 | ⟨h1, h1'⟩
    · rw [h1]; exact min_le_left _ _
    · refine le_trans (min_le_right _ _) ?_
      by_contra hcon
      rw [not_le] at hcon
      have hle : 2 * it.alpha ≤ 2 * (1 - gamma) * mu / Lc := by
        have : 2 * (1 - gamma) * mu / Lc = 2 * ((1 - gamma) * mu / Lc) := by ring
        rw [this]; linarith
      have := armijo_accepts_small_steps hC hP hL hmu hgam1 hx hsm (2 * it.alpha) (by positivity) hle h1'
      rw [this] at h1
      exact Bool.false_ne_true h1
  refine ⟨halpha, ?_⟩
  have hy2 : 0 ≤ ‖it.y‖ ^ 2 := by positivity
  have hgm : 0 ≤ gamma * mu := mul_nonneg hgam0.le hmu.le
  have : gamma * mu * min 1 ((1 - gamma) * mu / Lc) * ‖it.y‖ ^ 2 ≤ gamma * it.alpha * mu * ‖it.y‖ ^ 2 := by
    have h1 := mul_le_mul_of_nonneg_left halpha hgm
    have h2 := mul_le_mul_of_nonneg_right h1 hy2
    nlinarith
  linarith

/-- loop invariant behind `pgdb_residuals_summable` -/
theorem pgdbLoop_residuals {P : E → E} {C : Set E} (hC : Convex ℝ C) (hP : IsProjOn P C) {f : E → ℝ} {g : E → E}
    {Lc : ℝ} (hL : 0 < Lc) (hsm : ∀ u ∈ C, ∀ v ∈ C, f v ≤ f u + ⟪g u, v - u⟫ + Lc / 2 * ‖v - u‖ ^ 2) (sqrt : ℝ → ℝ) {mu gamma : ℝ} (eps : ℝ)
    (hmu : 0 < mu) (hgam0 : 0 < gamma) (hgam1 : gamma < 1) (mode : StopMode) (numHist btFuel : Nat) (F0 : ℝ) :
    ∀ (fuel : Nat) (x : E) (errs : List ℝ) (rest : List E) (res : List E × List ℝ), x ∈ C →
      gamma * mu * min 1 ((1 - gamma) * mu / Lc) * sumSqResiduals P g mu (x :: rest) + f x ≤ F0 →
      pgdbLoop P f g ip sqrt mu gamma eps mode numHist btFuel fuel x errs (x :: rest) = some res →
      ∃ v vs, res.1 = v :: vs ∧ gamma * mu * min 1 ((1 - gamma) * mu / Lc) * sumSqResiduals P g mu res.1 + f v ≤ F0 := by
  intro fuel
  induction fuel with
  | zero =>
    intro x errs rest res _ hinv h
    simp only [pgdbLoop, Option.some.injEq] at h
    subst h; exact ⟨x, rest, rfl, hinv⟩
  | succ fuel ih =>
    intro x errs rest res hx hinv h
    unfold pgdbLoop at h
    cases hs : pgdbStep P f g ip sqrt mu gamma mode btFuel x with
    | none => simp [hs] at h
    | some it =>
      obtain ⟨_, hdec⟩ := pgdb_step_alpha_lower_bound hC hP hL hmu hgam0 hgam1 sqrt mode btFuel hx (hsm x hx) it hs
      obtain ⟨hmem, _, _, hy, _, _⟩ :=
        pgdb_step_feasible hC P (fun w => (hP w).1) f g ip sqrt mu gamma mode btFuel x hx it hs
      have hyy : pgdbDir P g mu x = it.y := by rw [hy, pgdbDir_def]
      have hinv' : gamma * mu * min 1 ((1 - gamma) * mu / Lc) * sumSqResiduals P g mu (it.xNext :: x :: rest) + f it.xNext
          ≤ F0 := by
        simp only [sumSqResiduals, hyy]
        nlinarith
      simp only [hs] at h
      by_cases hd : isDoing (errs ++ [it.err]) numHist eps = true
      · rw [if_pos hd] at h
        exact ih it.xNext _ _ res hmem hinv' h
      · rw [if_neg hd] at h
        injection h with h; subst h
        exact ⟨it.xNext, x :: rest, rfl, hinv'⟩

/-- C11.pgdb_residuals_summable (convex `L`-smooth case): along any backtracking run from a feasible start the squared
projected-gradient residuals at the visited points are summable,
`γ μ min(1,(1−γ)μ/L) · Σ_k ‖P(x_k − ∇f(x_k)/μ) − x_k‖² ≤ f(x₀) − f(x̂)`. -/
theorem pgdb_residuals_summable {P : E → E} {C : Set E} (hC : Convex ℝ C) (hP : IsProjOn P C) {f : E → ℝ} {g : E → E}
    {Lc : ℝ} (hL : 0 < Lc) (hsm : ∀ u ∈ C, ∀ v ∈ C, f v ≤ f u + ⟪g u, v - u⟫ + Lc / 2 * ‖v - u‖ ^ 2) (sqrt : ℝ → ℝ) {mu gamma : ℝ} (eps : ℝ)
    (hmu : 0 < mu) (hgam0 : 0 < gamma) (hgam1 : gamma < 1) (mode : StopMode) (numHist btFuel maxIter : Nat) {xStart : E}
    (hs : xStart ∈ C) (x : E) (hist : List E) (errs : List ℝ)
    (h : pgdbOptimize P f g ip sqrt mu gamma eps mode numHist btFuel maxIter xStart = some (x, hist, errs)) :
    gamma * mu * min 1 ((1 - gamma) * mu / Lc) * sumSqResiduals P g mu hist ≤ f xStart - f x := by
  unfold pgdbOptimize at h
  cases hl : pgdbLoop P f g ip sqrt mu gamma eps mode numHist btFuel maxIter xStart [] [xStart] with
  | none => simp [hl] at h
  | some res =>
    obtain ⟨v, vs, hres, hinv⟩ := pgdbLoop_residuals hC hP hL hsm sqrt eps hmu hgam0 hgam1 mode numHist btFuel (f xStart)
      maxIter xStart [] [] res hs (by simp [sumSqResiduals]) hl
    obtain ⟨l, es⟩ := res
    simp only at hres
    subst hres
    simp only [hl] at h
    by_cases hm : maxIter = 0
    · simp [hm] at h
    · simp only [hm, if_false, Option.some.injEq, Prod.mk.injEq] at h
      obtain ⟨rfl, rfl, _⟩ := h
      linarith

/-- C11.pgdb_rate: consequently a run in which every step was taken from a point with residual `≥ eps` has at most
`(f(x₀) − f_low) / (γ μ min(1,(1−γ)μ/L) eps²)` steps; equivalently, among `n` steps some VISITED point (not necessarily the
returned one) has squared residual `≤ (f(x₀) − f_low)/(c n)`.  A counting bound under the explicit hypothesis `AllResidualsGe`;
`pgdb_projected_gradient_rule_iterations` derives that hypothesis from the loop for the projected-gradient rule. -/
theorem pgdb_rate {P : E → E} {C : Set E} (hC : Convex ℝ C) (hP : IsProjOn P C) {f : E → ℝ} {g : E → E}
    {Lc : ℝ} (hL : 0 < Lc) (hsm : ∀ u ∈ C, ∀ v ∈ C, f v ≤ f u + ⟪g u, v - u⟫ + Lc / 2 * ‖v - u‖ ^ 2) (sqrt : ℝ → ℝ) {mu gamma : ℝ} (eps0 : ℝ)
    (hmu : 0 < mu) (hgam0 : 0 < gamma) (hgam1 : gamma < 1) (mode : StopMode) (numHist btFuel maxIter : Nat) {xStart : E}
    (hs : xStart ∈ C) (x : E) (hist : List E) (errs : List ℝ)
    (h : pgdbOptimize P f g ip sqrt mu gamma eps0 mode numHist btFuel maxIter xStart = some (x, hist, errs))
    {eps fLow : ℝ} (heps : 0 ≤ eps) (hlow : fLow ≤ f x) (hbig : AllResidualsGe P g mu eps hist) :
    ((hist.length - 1 : Nat) : ℝ) * (gamma * mu * min 1 ((1 - gamma) * mu / Lc) * eps ^ 2) ≤ f xStart - fLow := by
  have h1 := pgdb_residuals_summable hC hP hL hsm sqrt eps0 hmu hgam0 hgam1 mode numHist btFuel maxIter hs x hist errs h
  have h2 := count_le_sumSqResiduals P g mu heps hist hbig
  have hc : 0 ≤ gamma * mu * min 1 ((1 - gamma) * mu / Lc) := by
    have : 0 < 1 - gamma := by linarith
    have : 0 ≤ min 1 ((1 - gamma) * mu / Lc) := le_min zero_le_one (by positivity)
    positivity
  nlinarith

/-- loop invariant: with the projected-gradient rule and window 1, every iteration after which the loop CONTINUED was taken from a
point with residual `> eps` -/
theorem pgdbLoop_continued_residuals {P : E → E} {C : Set E} (hC : Convex ℝ C) (hP : IsProjOn P C) (f : E → ℝ) (g : E → E)
    {mu gamma : ℝ} (eps : ℝ) (btFuel : Nat) :
    ∀ (fuel : Nat) (x : E) (errs : List ℝ) (rest : List E) (res : List E × List ℝ), x ∈ C →
      AllResidualsGe P g mu eps (x :: rest) →
      pgdbLoop P f g ip Real.sqrt mu gamma eps .sumAbsDiffProjGrad 1 btFuel fuel x errs (x :: rest) = some res →
      AllResidualsGe P g mu eps res.1.tail := by
  intro fuel
  induction fuel with
  | zero =>
    intro x errs rest res _ hinv h
    simp only [pgdbLoop, Option.some.injEq] at h
    subst h
    cases rest with
    | nil => simp [AllResidualsGe]
    | cons a t => simp only [AllResidualsGe] at hinv; exact hinv.2
  | succ fuel ih =>
    intro x errs rest res hx hinv h
    unfold pgdbLoop at h
    cases hs : pgdbStep P f g ip Real.sqrt mu gamma .sumAbsDiffProjGrad btFuel x with
    | none => simp [hs] at h
    | some it =>
      obtain ⟨hmem, ha0, _, hy, hxn, _⟩ :=
        pgdb_step_feasible hC P (fun w => (hP w).1) f g ip Real.sqrt mu gamma .sumAbsDiffProjGrad btFuel x hx it hs
      have herr : it.err = ‖pgdbDir P g mu x‖ := by
        have hyy : pgdbDir P g mu x = it.y := by rw [hy, pgdbDir_def]
        have e : it.err = errorValue .sumAbsDiffProjGrad f Real.sqrt (fun v => ip v v) x (x + it.alpha • it.y) it.y := by
          unfold pgdbStep at hs
          cases hb : backtrack f g ip x (pgdbDir P g mu x) gamma btFuel 1 with
          | none => simp [hb] at hs
          | some a => simp only [hb, Option.some.injEq] at hs; subst hs; rfl
        rw [e, (stop_criteria_meaning f x it.y it.alpha ha0.le).2.2.2, hyy]
      simp only [hs] at h
      by_cases hd : isDoing (errs ++ [it.err]) 1 eps = true
      · rw [if_pos hd] at h
        have hgt : eps ≤ ‖pgdbDir P g mu x‖ := by
          have hne : ¬ isDoing (errs ++ [it.err]) 1 eps = false := by simp [hd]
          have := (not_congr (stop_rule_window_one errs it.err eps)).1 hne
          rw [herr] at this
          exact le_of_lt (not_le.1 this)
        have hinv' : AllResidualsGe P g mu eps (it.xNext :: x :: rest) := by
          simp only [AllResidualsGe]; exact ⟨hgt, hinv⟩
        exact ih it.xNext _ _ res hmem hinv' h
      · rw [if_neg hd] at h
        injection h with h; subst h
        exact hinv

/-- C11.pgdb_projected_gradient_rule_iterations (convex `L`-smooth case on `C`): a run under the rule
`sum_absolute_difference_projected_gradient` (window 1, threshold `eps ≥ 0`) performs at most
`1 + (f(x₀) − f_low) / (γ μ min(1,(1−γ)μ/L) eps²)` iterations: every iteration but the last was taken from a point with residual
`> eps` (otherwise the loop would have stopped), and those residuals are summable.  With an iteration limit above this bound
the run therefore ends on its stopping rule, and by `stop_mode_guarantees` the returned estimate is `eps(‖∇f‖ + μD)`-optimal. -/
theorem pgdb_projected_gradient_rule_iterations {P : E → E} {C : Set E} (hC : Convex ℝ C) (hP : IsProjOn P C) {f : E → ℝ}
    {g : E → E} {Lc : ℝ} (hL : 0 < Lc) (hsm : ∀ u ∈ C, ∀ v ∈ C, f v ≤ f u + ⟪g u, v - u⟫ + Lc / 2 * ‖v - u‖ ^ 2)
    {mu gamma : ℝ} (eps : ℝ) (heps : 0 ≤ eps) (hmu : 0 < mu) (hgam0 : 0 < gamma) (hgam1 : gamma < 1) (btFuel maxIter : Nat)
    {xStart : E} (hs : xStart ∈ C) (x : E) (hist : List E) (errs : List ℝ)
    (h : pgdbOptimize P f g ip Real.sqrt mu gamma eps .sumAbsDiffProjGrad 1 btFuel maxIter xStart = some (x, hist, errs))
    {fLow : ℝ} (hlow : fLow ≤ f x) :
    ((hist.length - 2 : Nat) : ℝ) * (gamma * mu * min 1 ((1 - gamma) * mu / Lc) * eps ^ 2) ≤ f xStart - fLow := by
  have h1 := pgdb_residuals_summable hC hP hL hsm Real.sqrt eps hmu hgam0 hgam1 .sumAbsDiffProjGrad 1 btFuel maxIter hs x hist
    errs h
  have htail : AllResidualsGe P g mu eps hist.tail := by
    unfold pgdbOptimize at h
    cases hl : pgdbLoop P f g ip Real.sqrt mu gamma eps .sumAbsDiffProjGrad 1 btFuel maxIter xStart [] [xStart] with
    | none => simp [hl] at h
    | some res =>
      have := pgdbLoop_continued_residuals hC hP f g eps btFuel maxIter xStart [] [] res hs (by simp [AllResidualsGe]) hl
      obtain ⟨l, es⟩ := res
      cases l with
      | nil => simp [hl] at h
      | cons v vs =>
        simp only [hl] at h
        by_cases hm : maxIter = 0
        · simp [hm] at h
        · simp only [hm, if_false, Option.some.injEq, Prod.mk.injEq] at h
          obtain ⟨_, rfl, _⟩ := h
          exact this
  have h2 := count_le_sumSqResiduals P g mu heps hist.tail htail
  have h3 : sumSqResiduals P g mu hist.tail ≤ sumSqResiduals P g mu hist := by
    cases hist with
    | nil => simp [sumSqResiduals]
    | cons b t =>
      cases t with
      | nil => simp [sumSqResiduals]
      | cons a t' =>
        simp only [List.tail_cons, sumSqResiduals]
        have : 0 ≤ ‖pgdbDir P g mu a‖ ^ 2 := by positivity
        linarith
  have hlen : (hist.tail.length - 1 : Nat) = hist.length - 2 := by simp; omega
  rw [hlen] at h2
  have hc : 0 ≤ gamma * mu * min 1 ((1 - gamma) * mu / Lc) := by
    have : 0 < 1 - gamma := by linarith
    have : 0 ≤ min 1 ((1 - gamma) * mu / Lc) := le_min zero_le_one (by positivity)
    positivity
  nlinarith

/-- loop invariant: with the step-size rule and window 1, every iteration after which the loop CONTINUED moved by more than `eps` -/
theorem pgdbLoop_continued_steps {P : E → E} {C : Set E} (hC : Convex ℝ C) (hP : IsProjOn P C) (f : E → ℝ) (g : E → E)
    {mu gamma : ℝ} (eps : ℝ) (btFuel : Nat) :
    ∀ (fuel : Nat) (x : E) (errs : List ℝ) (rest : List E) (res : List E × List ℝ), x ∈ C →
      AllStepsGe eps (x :: rest) →
      pgdbLoop P f g ip Real.sqrt mu gamma eps .sumAbsDiffVar 1 btFuel fuel x errs (x :: rest) = some res →
      AllStepsGe eps res.1.tail := by
  intro fuel
  induction fuel with
  | zero =>
    intro x errs rest res _ hinv h
    simp only [pgdbLoop, Option.some.injEq] at h
    subst h
    cases rest with
    | nil => simp [AllStepsGe]
    | cons a t => simp only [AllStepsGe] at hinv; exact hinv.2
  | succ fuel ih =>
    intro x errs rest res hx hinv h
    unfold pgdbLoop at h
    cases hs : pgdbStep P f g ip Real.sqrt mu gamma .sumAbsDiffVar btFuel x with
    | none => simp [hs] at h
    | some it =>
      obtain ⟨hmem, ha0, _, _, hxn, _⟩ :=
        pgdb_step_feasible hC P (fun w => (hP w).1) f g ip Real.sqrt mu gamma .sumAbsDiffVar btFuel x hx it hs
      have herr : it.err = ‖it.xNext - x‖ := by
        have e : it.err = errorValue .sumAbsDiffVar f Real.sqrt (fun v => ip v v) x (x + it.alpha • it.y) it.y := by
          unfold pgdbStep at hs
          cases hb : backtrack f g ip x (pgdbDir P g mu x) gamma btFuel 1 with
          | none => simp [hb] at hs
          | some a => simp only [hb, Option.some.injEq] at hs; subst hs; rfl
        have e2 : it.xNext - x = it.alpha • it.y := by rw [hxn]; abel
        rw [e, (stop_criteria_meaning f x it.y it.alpha ha0.le).2.2.1, e2, norm_smul, Real.norm_eq_abs, abs_of_pos ha0]
      simp only [hs] at h
      by_cases hd : isDoing (errs ++ [it.err]) 1 eps = true
      · rw [if_pos hd] at h
        have hgt : eps ≤ ‖it.xNext - x‖ := by
          have hne : ¬ isDoing (errs ++ [it.err]) 1 eps = false := by simp [hd]
          have := (not_congr (stop_rule_window_one errs it.err eps)).1 hne
          rw [herr] at this
          exact le_of_lt (not_le.1 this)
        have hinv' : AllStepsGe eps (it.xNext :: x :: rest) := by
          simp only [AllStepsGe]; exact ⟨hgt, hinv⟩
        exact ih it.xNext _ _ res hmem hinv' h
      · rw [if_neg hd] at h
        injection h with h; subst h
        exact hinv

/-- C11.pgdb_step_size_rule_iterations: a run under the rule `sum_absolute_difference_variable` (window 1, threshold `eps ≥ 0`)
performs at most `1 + (f(x₀) − f_low) / (γ μ eps²)` iterations — no smoothness assumption: every iteration but the last moved by
more than `eps` (otherwise the loop would have stopped) and the squared steps are summable against the loss decrease. -/
theorem pgdb_step_size_rule_iterations {P : E → E} {C : Set E} (hC : Convex ℝ C) (hP : IsProjOn P C) (f : E → ℝ) (g : E → E)
    {mu gamma : ℝ} (eps : ℝ) (heps : 0 ≤ eps) (hmu : 0 < mu) (hgam : 0 ≤ gamma) (btFuel maxIter : Nat) {xStart : E}
    (hs : xStart ∈ C) (x : E) (hist : List E) (errs : List ℝ)
    (h : pgdbOptimize P f g ip Real.sqrt mu gamma eps .sumAbsDiffVar 1 btFuel maxIter xStart = some (x, hist, errs))
    {fLow : ℝ} (hlow : fLow ≤ f x) :
    ((hist.length - 2 : Nat) : ℝ) * (gamma * mu * eps ^ 2) ≤ f xStart - fLow := by
  have h1 := pgdb_steps_summable hC hP f g Real.sqrt eps hmu hgam .sumAbsDiffVar 1 btFuel maxIter hs x hist errs h
  have htail : AllStepsGe eps hist.tail := by
    unfold pgdbOptimize at h
    cases hl : pgdbLoop P f g ip Real.sqrt mu gamma eps .sumAbsDiffVar 1 btFuel maxIter xStart [] [xStart] with
    | none => simp [hl] at h
    | some res =>
      have := pgdbLoop_continued_steps hC hP f g eps btFuel maxIter xStart [] [] res hs (by simp [AllStepsGe]) hl
      obtain ⟨l, es⟩ := res
      cases l with
      | nil => simp [hl] at h
      | cons v vs =>
        simp only [hl] at h
        by_cases hm : maxIter = 0
        · simp [hm] at h
        · simp only [hm, if_false, Option.some.injEq, Prod.mk.injEq] at h
          obtain ⟨_, rfl, _⟩ := h
          exact this
  have h2 := count_le_sumSq heps hist.tail htail
  have h3 : sumSqSteps hist.tail ≤ sumSqSteps hist := by
    cases hist with
    | nil => simp [sumSqSteps]
    | cons b t =>
      cases t with
      | nil => simp [sumSqSteps]
      | cons a t' =>
        simp only [List.tail_cons, sumSqSteps]
        have : 0 ≤ ‖b - a‖ ^ 2 := by positivity
        linarith
  have hlen : (hist.tail.length - 1 : Nat) = hist.length - 2 := by simp; omega
  rw [hlen] at h2
  have hc : 0 ≤ gamma * mu := mul_nonneg hgam hmu.le
  nlinarith

/-- loop invariant for the two loss-difference rules (window 1): each iteration after which the loop continued decreased the loss
by more than `eps` -/
theorem pgdbLoop_continued_decrease {P : E → E} {C : Set E} (hC : Convex ℝ C) (hP : IsProjOn P C) (f : E → ℝ) (g : E → E)
    {mu gamma : ℝ} (hmu : 0 < mu) (hgam : 0 ≤ gamma) (eps : ℝ) (heps : 0 ≤ eps) (mode : StopMode)
    (hmode : mode = .singleDiffLoss ∨ mode = .sumAbsDiffLoss) (btFuel : Nat) (F0 : ℝ) :
    ∀ (fuel : Nat) (x : E) (errs : List ℝ) (rest : List E) (res : List E × List ℝ), x ∈ C →
      (rest.length : ℝ) * eps + f x ≤ F0 →
      pgdbLoop P f g ip Real.sqrt mu gamma eps mode 1 btFuel fuel x errs (x :: rest) = some res →
      ∃ v vs, res.1 = v :: vs ∧ ((vs.length - 1 : Nat) : ℝ) * eps + f v ≤ F0 := by
  intro fuel
  induction fuel with
  | zero =>
    intro x errs rest res _ hinv h
    simp only [pgdbLoop, Option.some.injEq] at h
    subst h
    refine ⟨x, rest, rfl, ?_⟩
    have : ((rest.length - 1 : Nat) : ℝ) ≤ (rest.length : ℝ) := by exact_mod_cast Nat.sub_le _ _
    nlinarith
  | succ fuel ih =>
    intro x errs rest res hx hinv h
    unfold pgdbLoop at h
    cases hs : pgdbStep P f g ip Real.sqrt mu gamma mode btFuel x with
    | none => simp [hs] at h
    | some it =>
      obtain ⟨hmem, ha0, _, _, hxn, _⟩ :=
        pgdb_step_feasible hC P (fun w => (hP w).1) f g ip Real.sqrt mu gamma mode btFuel x hx it hs
      obtain ⟨_, hle, _⟩ := pgdb_step_decrease hC hP f g Real.sqrt hmu hgam mode btFuel hx it hs
      have herr : it.err = f x - f it.xNext := by
        have e : it.err = errorValue mode f Real.sqrt (fun v => ip v v) x (x + it.alpha • it.y) it.y := by
          unfold pgdbStep at hs
          cases hb : backtrack f g ip x (pgdbDir P g mu x) gamma btFuel 1 with
          | none => simp [hb] at hs
          | some a => simp only [hb, Option.some.injEq] at hs; subst hs; rfl
        obtain ⟨m1, m2, _, _⟩ := stop_criteria_meaning f x it.y it.alpha ha0.le
        rcases hmode with rfl | rfl
        · rw [e, m1, ← hxn]
        · rw [e, m2, ← hxn, abs_of_nonneg (by linarith)]
      simp only [hs] at h
      by_cases hd : isDoing (errs ++ [it.err]) 1 eps = true
      · rw [if_pos hd] at h
        have hgt : eps < f x - f it.xNext := by
          have hne : ¬ isDoing (errs ++ [it.err]) 1 eps = false := by simp [hd]
          have := (not_congr (stop_rule_window_one errs it.err eps)).1 hne
          rw [herr] at this
          exact not_le.1 this
        have hinv' : (((x :: rest).length : Nat) : ℝ) * eps + f it.xNext ≤ F0 := by
          simp only [List.length_cons]; push_cast; nlinarith
        exact ih it.xNext _ _ res hmem hinv' h
      · rw [if_neg hd] at h
        injection h with h; subst h
        refine ⟨it.xNext, x :: rest, rfl, ?_⟩
        simp only [List.length_cons, Nat.add_sub_cancel]
        linarith

/-- C11.pgdb_loss_rule_iterations: a run under `single_difference_loss` (the default) or `sum_absolute_difference_loss` with window 1
and threshold `eps ≥ 0` performs at most `1 + (f(x₀) − f_low) / eps` iterations (for `eps > 0`): every iteration but the last
decreased the loss by more than `eps`.  With the default `eps ≈ 10⁻¹⁴` this bound is astronomically larger than the coded
iteration limit 1000 — the rule is met in finitely many steps, but the limit may well be reached first. -/
theorem pgdb_loss_rule_iterations {P : E → E} {C : Set E} (hC : Convex ℝ C) (hP : IsProjOn P C) (f : E → ℝ) (g : E → E)
    {mu gamma : ℝ} (eps : ℝ) (heps : 0 ≤ eps) (hmu : 0 < mu) (hgam : 0 ≤ gamma) (mode : StopMode)
    (hmode : mode = .singleDiffLoss ∨ mode = .sumAbsDiffLoss) (btFuel maxIter : Nat) {xStart : E}
    (hs : xStart ∈ C) (x : E) (hist : List E) (errs : List ℝ)
    (h : pgdbOptimize P f g ip Real.sqrt mu gamma eps mode 1 btFuel maxIter xStart = some (x, hist, errs))
    {fLow : ℝ} (hlow : fLow ≤ f x) :
    ((hist.length - 2 : Nat) : ℝ) * eps ≤ f xStart - fLow := by
  unfold pgdbOptimize at h
  cases hl : pgdbLoop P f g ip Real.sqrt mu gamma eps mode 1 btFuel maxIter xStart [] [xStart] with
  | none => simp [hl] at h
  | some res =>
    obtain ⟨v, vs, hres, hinv⟩ := pgdbLoop_continued_decrease hC hP f g hmu hgam eps heps mode hmode btFuel (f xStart) maxIter
      xStart [] [] res hs (by simp) hl
    obtain ⟨l, es⟩ := res
    simp only at hres
    subst hres
    simp only [hl] at h
    by_cases hm : maxIter = 0
    · simp [hm] at h
    · simp only [hm, if_false, Option.some.injEq, Prod.mk.injEq] at h
      obtain ⟨rfl, rfl, _⟩ := h
      have : (v :: vs).length - 2 = vs.length - 1 := by simp
      rw [this]
      linarith

/-- loop invariant for the two loss-difference rules with ANY window `n = m + 1`: the potential
`(#continued)·eps + n·f(x) + pot m (errors, most recent first)` never exceeds `n·F0` — each iteration lowers
`n·f + pot` by exactly the window sum, which exceeds `eps` whenever the loop continues -/
theorem pgdbLoop_window_potential {P : E → E} {C : Set E} (hC : Convex ℝ C) (hP : IsProjOn P C) (f : E → ℝ) (g : E → E)
    {mu gamma : ℝ} (hmu : 0 < mu) (hgam : 0 ≤ gamma) (eps : ℝ) (heps : 0 ≤ eps) (mode : StopMode)
    (hmode : mode = .singleDiffLoss ∨ mode = .sumAbsDiffLoss) (m btFuel : Nat) (F0 : ℝ) :
    ∀ (fuel : Nat) (x : E) (errs : List ℝ) (rest : List E) (res : List E × List ℝ), x ∈ C → (∀ v ∈ errs, 0 ≤ v) →
      (rest.length : ℝ) * eps + ((m : ℝ) + 1) * f x + pot m errs.reverse ≤ ((m : ℝ) + 1) * F0 →
      pgdbLoop P f g ip Real.sqrt mu gamma eps mode (m + 1) btFuel fuel x errs (x :: rest) = some res →
      ∃ v vs, res.1 = v :: vs ∧ ((vs.length - 1 : Nat) : ℝ) * eps + ((m : ℝ) + 1) * f v ≤ ((m : ℝ) + 1) * F0 := by
  intro fuel
  induction fuel with
  | zero =>
    intro x errs rest res _ hpos hinv h
    simp only [pgdbLoop, Option.some.injEq] at h
    subst h
    refine ⟨x, rest, rfl, ?_⟩
    have h1 : ((rest.length - 1 : Nat) : ℝ) ≤ (rest.length : ℝ) := by exact_mod_cast Nat.sub_le _ _
    have h2 := pot_nonneg m errs.reverse (fun v hv => hpos v (List.mem_reverse.1 hv))
    nlinarith
  | succ fuel ih =>
    intro x errs rest res hx hpos hinv h
    unfold pgdbLoop at h
    cases hs : pgdbStep P f g ip Real.sqrt mu gamma mode btFuel x with
    | none => simp [hs] at h
    | some it =>
      obtain ⟨hmem, ha0, _, _, hxn, _⟩ :=
        pgdb_step_feasible hC P (fun w => (hP w).1) f g ip Real.sqrt mu gamma mode btFuel x hx it hs
      obtain ⟨_, hle, _⟩ := pgdb_step_decrease hC hP f g Real.sqrt hmu hgam mode btFuel hx it hs
      have herr : it.err = f x - f it.xNext := by
        have e : it.err = errorValue mode f Real.sqrt (fun v => ip v v) x (x + it.alpha • it.y) it.y := by
          unfold pgdbStep at hs
          cases hb : backtrack f g ip x (pgdbDir P g mu x) gamma btFuel 1 with
          | none => simp [hb] at hs
          | some a => simp only [hb, Option.some.injEq] at hs; subst hs; rfl
        obtain ⟨m1, m2, _, _⟩ := stop_criteria_meaning f x it.y it.alpha ha0.le
        rcases hmode with rfl | rfl
        · rw [e, m1, ← hxn]
        · rw [e, m2, ← hxn, abs_of_nonneg (by linarith)]
      have he0 : 0 ≤ it.err := by rw [herr]; linarith
      have hpos' : ∀ v ∈ errs ++ [it.err], 0 ≤ v := by
        intro v hv
        rcases List.mem_append.1 hv with hv | hv
        · exact hpos v hv
        · simp at hv; rw [hv]; exact he0
      -- the potential drops by the window sum
      have hW : windowSum (errs ++ [it.err]) (m + 1) = lsum ((it.err :: errs.reverse).take (m + 1)) := by
        rw [windowSum_eq_take_reverse]; simp
      have hstep := pot_step m it.err errs.reverse
      have hWnn : 0 ≤ windowSum (errs ++ [it.err]) (m + 1) :=
        le_trans he0 (last_le_windowSum errs it.err (m + 1) (Nat.succ_pos m) hpos)
      have hdrop : ((m : ℝ) + 1) * f it.xNext + pot m (it.err :: errs.reverse)
          = ((m : ℝ) + 1) * f x + pot m errs.reverse - windowSum (errs ++ [it.err]) (m + 1) := by
        rw [hW]
        have : f it.xNext = f x - it.err := by rw [herr]; ring
        rw [this]; linarith
      simp only [hs] at h
      by_cases hd : isDoing (errs ++ [it.err]) (m + 1) eps = true
      · rw [if_pos hd] at h
        have hgt : eps < windowSum (errs ++ [it.err]) (m + 1) := by
          unfold isDoing at hd; simpa using hd
        have hinv' : (((x :: rest).length : Nat) : ℝ) * eps + ((m : ℝ) + 1) * f it.xNext + pot m (errs ++ [it.err]).reverse
            ≤ ((m : ℝ) + 1) * F0 := by
          have : (errs ++ [it.err]).reverse = it.err :: errs.reverse := by simp
          rw [this]
          simp only [List.length_cons]; push_cast
          nlinarith
        exact ih it.xNext _ _ res hmem hpos' hinv' h
      · rw [if_neg hd] at h
        injection h with h; subst h
        refine ⟨it.xNext, x :: rest, rfl, ?_⟩
        simp only [List.length_cons, Nat.add_sub_cancel]
        have h2 := pot_nonneg m (it.err :: errs.reverse) (by
          intro v hv
          rcases List.mem_cons.1 hv with rfl | hv
          · exact he0
          · exact hpos v (List.mem_reverse.1 hv))
        nlinarith

/-- C11.pgdb_loss_rule_iterations_window: for ANY window `num_history = n ≥ 1`, a run under `single_difference_loss` or
`sum_absolute_difference_loss` with threshold `eps ≥ 0` satisfies `(iterations − 1)·eps ≤ n·(f(x₀) − f_low)`: it performs at most
`1 + n (f(x₀) − f_low)/eps` iterations. -/
theorem pgdb_loss_rule_iterations_window {P : E → E} {C : Set E} (hC : Convex ℝ C) (hP : IsProjOn P C) (f : E → ℝ) (g : E → E)
    {mu gamma : ℝ} (eps : ℝ) (heps : 0 ≤ eps) (hmu : 0 < mu) (hgam : 0 ≤ gamma) (mode : StopMode)
    (hmode : mode = .singleDiffLoss ∨ mode = .sumAbsDiffLoss) (numHist : Nat) (hn : 1 ≤ numHist) (btFuel maxIter : Nat)
    {xStart : E} (hs : xStart ∈ C) (x : E) (hist : List E) (errs : List ℝ)
    (h : pgdbOptimize P f g ip Real.sqrt mu gamma eps mode numHist btFuel maxIter xStart = some (x, hist, errs))
    {fLow : ℝ} (hlow : fLow ≤ f x) :
    ((hist.length - 2 : Nat) : ℝ) * eps ≤ (numHist : ℝ) * (f xStart - fLow) := by
  obtain ⟨m, rfl⟩ : ∃ m, numHist = m + 1 := ⟨numHist - 1, by omega⟩
  unfold pgdbOptimize at h
  cases hl : pgdbLoop P f g ip Real.sqrt mu gamma eps mode (m + 1) btFuel maxIter xStart [] [xStart] with
  | none => simp [hl] at h
  | some res =>
    obtain ⟨v, vs, hres, hinv⟩ := pgdbLoop_window_potential hC hP f g hmu hgam eps heps mode hmode m btFuel (f xStart) maxIter
      xStart [] [] res hs (by simp) (by cases m <;> simp [pot]) hl
    obtain ⟨l, es⟩ := res
    simp only at hres
    subst hres
    simp only [hl] at h
    by_cases hm : maxIter = 0
    · simp [hm] at h
    · simp only [hm, if_false, Option.some.injEq, Prod.mk.injEq] at h
      obtain ⟨rfl, rfl, _⟩ := h
      have : (v :: vs).length - 2 = vs.length - 1 := by simp
      rw [this]
      push_cast
      have hm0 : (0 : ℝ) ≤ (m : ℝ) + 1 := by positivity
      nlinarith

/-- loop invariant for a rule whose error value `e` satisfies `0 ≤ e` and `f(x_next) ≤ f(x) − κ e²` at every step, with ANY window
`n = m + 1`: the potential `(#continued)·κ eps²/n + n·f(x) + κ·pot m (squared errors, most recent first)` never exceeds `n·F0`
(Cauchy–Schwarz: a window sum `> eps` forces the window's sum of squares above `eps²/n`) -/
theorem pgdbLoop_window_potential_sq {P : E → E} {C : Set E} (hC : Convex ℝ C) (hP : IsProjOn P C) (f : E → ℝ) (g : E → E)
    {mu gamma : ℝ} (eps : ℝ) (heps : 0 ≤ eps) (mode : StopMode) (kappa : ℝ) (hk : 0 ≤ kappa) (m btFuel : Nat)
    (hdec : ∀ x ∈ C, ∀ it, pgdbStep P f g ip Real.sqrt mu gamma mode btFuel x = some it →
      0 ≤ it.err ∧ f it.xNext ≤ f x - kappa * it.err ^ 2) (F0 : ℝ) :
    ∀ (fuel : Nat) (x : E) (errs : List ℝ) (rest : List E) (res : List E × List ℝ), x ∈ C → (∀ v ∈ errs, 0 ≤ v) →
      (rest.length : ℝ) * (kappa * eps ^ 2 / ((m : ℝ) + 1)) + ((m : ℝ) + 1) * f x
          + kappa * pot m (errs.reverse.map (· ^ 2)) ≤ ((m : ℝ) + 1) * F0 →
      pgdbLoop P f g ip Real.sqrt mu gamma eps mode (m + 1) btFuel fuel x errs (x :: rest) = some res →
      ∃ v vs, res.1 = v :: vs ∧
        ((vs.length - 1 : Nat) : ℝ) * (kappa * eps ^ 2 / ((m : ℝ) + 1)) + ((m : ℝ) + 1) * f v ≤ ((m : ℝ) + 1) * F0 := by
  have hm1 : (0 : ℝ) < (m : ℝ) + 1 := by positivity
  have hq : 0 ≤ kappa * eps ^ 2 / ((m : ℝ) + 1) := by positivity
  have hsqpos : ∀ l : List ℝ, ∀ v ∈ l.map (· ^ 2), 0 ≤ v := by
    intro l v hv
    obtain ⟨w, _, rfl⟩ := List.mem_map.1 hv
    positivity
  intro fuel
  induction fuel with
  | zero =>
    intro x errs rest res _ _ hinv h
    simp only [pgdbLoop, Option.some.injEq] at h
    subst h
    refine ⟨x, rest, rfl, ?_⟩
    have h1 : ((rest.length - 1 : Nat) : ℝ) ≤ (rest.length : ℝ) := by exact_mod_cast Nat.sub_le _ _
    have h2 := pot_nonneg m (errs.reverse.map (· ^ 2)) (hsqpos _)
    nlinarith
  | succ fuel ih =>
    intro x errs rest res hx hpos hinv h
    unfold pgdbLoop at h
    cases hs : pgdbStep P f g ip Real.sqrt mu gamma mode btFuel x with
    | none => simp [hs] at h
    | some it =>
      obtain ⟨hmem, _⟩ := pgdb_step_feasible hC P (fun w => (hP w).1) f g ip Real.sqrt mu gamma mode btFuel x hx it hs
      obtain ⟨he0, hdecr⟩ := hdec x hx it hs
      have hpos' : ∀ v ∈ errs ++ [it.err], 0 ≤ v := by
        intro v hv
        rcases List.mem_append.1 hv with hv | hv
        · exact hpos v hv
        · simp at hv; rw [hv]; exact he0
      have hrev : (errs ++ [it.err]).reverse.map (· ^ 2) = it.err ^ 2 :: errs.reverse.map (· ^ 2) := by simp
      have hstep := pot_step m (it.err ^ 2) (errs.reverse.map (· ^ 2))
      -- window sums: of the errors and of their squares
      have hW1 : windowSum (errs ++ [it.err]) (m + 1) = lsum ((it.err :: errs.reverse).take (m + 1)) := by
        rw [windowSum_eq_take_reverse]; simp
      have hCS := sq_lsum_take_le (it.err :: errs.reverse) (m + 1)
      simp only [List.map_cons] at hCS
      have hW2nn : 0 ≤ lsum ((it.err ^ 2 :: errs.reverse.map (· ^ 2)).take (m + 1)) :=
        lsum_nonneg' _ (fun v hv => by
          have hv' := List.mem_of_mem_take hv
          rcases List.mem_cons.1 hv' with rfl | hv'
          · positivity
          · exact hsqpos _ v hv')
      have hdrop : ((m : ℝ) + 1) * f it.xNext + kappa * pot m (it.err ^ 2 :: errs.reverse.map (· ^ 2))
          ≤ ((m : ℝ) + 1) * f x + kappa * pot m (errs.reverse.map (· ^ 2))
            - kappa * lsum ((it.err ^ 2 :: errs.reverse.map (· ^ 2)).take (m + 1)) := by
        have e1 : pot m (it.err ^ 2 :: errs.reverse.map (· ^ 2))
            = pot m (errs.reverse.map (· ^ 2)) + ((m : ℝ) + 1) * it.err ^ 2
              - lsum ((it.err ^ 2 :: errs.reverse.map (· ^ 2)).take (m + 1)) := by linarith
        rw [e1]
        have := mul_le_mul_of_nonneg_left hdecr hm1.le
        nlinarith
      simp only [hs] at h
      by_cases hd : isDoing (errs ++ [it.err]) (m + 1) eps = true
      · rw [if_pos hd] at h
        have hgt : eps < windowSum (errs ++ [it.err]) (m + 1) := by
          unfold isDoing at hd; simpa using hd
        rw [hW1] at hgt
        have hsq : eps ^ 2 < (lsum ((it.err :: errs.reverse).take (m + 1))) ^ 2 := by nlinarith
        have hW2 : eps ^ 2 / ((m : ℝ) + 1) < lsum ((it.err ^ 2 :: errs.reverse.map (· ^ 2)).take (m + 1)) := by
          rw [div_lt_iff₀ hm1]
          have : ((m + 1 : Nat) : ℝ) = (m : ℝ) + 1 := by push_cast; ring
          rw [this] at hCS
          nlinarith
        have hkW : kappa * eps ^ 2 / ((m : ℝ) + 1) ≤ kappa * lsum ((it.err ^ 2 :: errs.reverse.map (· ^ 2)).take (m + 1)) := by
          rw [mul_div_assoc]
          exact mul_le_mul_of_nonneg_left hW2.le hk
        have hinv' : (((x :: rest).length : Nat) : ℝ) * (kappa * eps ^ 2 / ((m : ℝ) + 1)) + ((m : ℝ) + 1) * f it.xNext
            + kappa * pot m ((errs ++ [it.err]).reverse.map (· ^ 2)) ≤ ((m : ℝ) + 1) * F0 := by
          rw [hrev]
          simp only [List.length_cons]; push_cast
          nlinarith
        exact ih it.xNext _ _ res hmem hpos' hinv' h
      · rw [if_neg hd] at h
        injection h with h; subst h
        refine ⟨it.xNext, x :: rest, rfl, ?_⟩
        simp only [List.length_cons, Nat.add_sub_cancel]
        have h2 := pot_nonneg m (it.err ^ 2 :: errs.reverse.map (· ^ 2)) (by
          intro v hv
          rcases List.mem_cons.1 hv with rfl | hv
          · positivity
          · exact hsqpos _ v hv)
        have hkW0 : 0 ≤ kappa * lsum ((it.err ^ 2 :: errs.reverse.map (· ^ 2)).take (m + 1)) := mul_nonneg hk hW2nn
        nlinarith

/-- per-step facts for the step-size rule: the error value is the step length and the loss drops by at least `γ μ ‖Δx‖²` -/
theorem pgdb_step_size_error {P : E → E} {C : Set E} (hC : Convex ℝ C) (hP : IsProjOn P C) (f : E → ℝ) (g : E → E)
    {mu gamma : ℝ} (hmu : 0 < mu) (hgam : 0 ≤ gamma) (btFuel : Nat) {x : E} (hx : x ∈ C) (it : PgdbIter ℝ E)
    (h : pgdbStep P f g ip Real.sqrt mu gamma .sumAbsDiffVar btFuel x = some it) :
    0 ≤ it.err ∧ f it.xNext ≤ f x - gamma * mu * it.err ^ 2 := by
  obtain ⟨_, ha0, ha1, _, hxn, _⟩ :=
    pgdb_step_feasible hC P (fun w => (hP w).1) f g ip Real.sqrt mu gamma .sumAbsDiffVar btFuel x hx it h
  obtain ⟨hdec, _, _⟩ := pgdb_step_decrease hC hP f g Real.sqrt hmu hgam .sumAbsDiffVar btFuel hx it h
  have herr : it.err = it.alpha * ‖it.y‖ := by
    have e : it.err = errorValue .sumAbsDiffVar f Real.sqrt (fun v => ip v v) x (x + it.alpha • it.y) it.y := by
      unfold pgdbStep at h
      cases hb : backtrack f g ip x (pgdbDir P g mu x) gamma btFuel 1 with
      | none => simp [hb] at h
      | some a => simp only [hb, Option.some.injEq] at h; subst h; rfl
    rw [e, (stop_criteria_meaning f x it.y it.alpha ha0.le).2.2.1]
  refine ⟨by rw [herr]; exact mul_nonneg ha0.le (norm_nonneg _), ?_⟩
  rw [herr]
  have hy : 0 ≤ ‖it.y‖ ^ 2 := by positivity
  have h2 : (it.alpha * ‖it.y‖) ^ 2 ≤ it.alpha * ‖it.y‖ ^ 2 := by
    have : it.alpha ^ 2 ≤ it.alpha := by nlinarith
    nlinarith
  have h3 : 0 ≤ gamma * mu := mul_nonneg hgam hmu.le
  nlinarith

/-- C11.pgdb_step_size_rule_iterations_window: the step-size rule `sum_absolute_difference_variable` with ANY window `n ≥ 1` and
threshold `eps ≥ 0`: `(iterations − 1) · γ μ eps² / n ≤ n (f(x₀) − f_low)`, i.e. at most `1 + n² (f(x₀) − f_low)/(γ μ eps²)`
iterations.  No smoothness assumption. -/
theorem pgdb_step_size_rule_iterations_window {P : E → E} {C : Set E} (hC : Convex ℝ C) (hP : IsProjOn P C) (f : E → ℝ)
    (g : E → E) {mu gamma : ℝ} (eps : ℝ) (heps : 0 ≤ eps) (hmu : 0 < mu) (hgam : 0 ≤ gamma) (numHist : Nat) (hn : 1 ≤ numHist)
    (btFuel maxIter : Nat) {xStart : E} (hs : xStart ∈ C) (x : E) (hist : List E) (errs : List ℝ)
    (h : pgdbOptimize P f g ip Real.sqrt mu gamma eps .sumAbsDiffVar numHist btFuel maxIter xStart = some (x, hist, errs))
    {fLow : ℝ} (hlow : fLow ≤ f x) :
    ((hist.length - 2 : Nat) : ℝ) * (gamma * mu * eps ^ 2 / (numHist : ℝ)) ≤ (numHist : ℝ) * (f xStart - fLow) := by
  obtain ⟨m, rfl⟩ : ∃ m, numHist = m + 1 := ⟨numHist - 1, by omega⟩
  unfold pgdbOptimize at h
  cases hl : pgdbLoop P f g ip Real.sqrt mu gamma eps .sumAbsDiffVar (m + 1) btFuel maxIter xStart [] [xStart] with
  | none => simp [hl] at h
  | some res =>
    obtain ⟨v, vs, hres, hinv⟩ := pgdbLoop_window_potential_sq hC hP f g eps heps .sumAbsDiffVar (gamma * mu)
      (mul_nonneg hgam hmu.le) m btFuel
      (fun x hx it hit => pgdb_step_size_error hC hP f g hmu hgam btFuel hx it hit) (f xStart) maxIter
      xStart [] [] res hs (by simp) (by cases m <;> simp [pot]) hl
    obtain ⟨l, es⟩ := res
    simp only at hres
    subst hres
    simp only [hl] at h
    by_cases hm : maxIter = 0
    · simp [hm] at h
    · simp only [hm, if_false, Option.some.injEq, Prod.mk.injEq] at h
      obtain ⟨rfl, rfl, _⟩ := h
      have : (v :: vs).length - 2 = vs.length - 1 := by simp
      rw [this]
      push_cast
      have hm0 : (0 : ℝ) ≤ (m : ℝ) + 1 := by positivity
      nlinarith

/-- C11.pgdb_projected_gradient_rule_iterations_window (convex `L`-smooth case on `C`): the projected-gradient rule with ANY window
`n ≥ 1`: `(iterations − 1) · c eps² / n ≤ n (f(x₀) − f_low)` with `c = γ μ min(1,(1−γ)μ/L)`. -/
theorem pgdb_projected_gradient_rule_iterations_window {P : E → E} {C : Set E} (hC : Convex ℝ C) (hP : IsProjOn P C)
    {f : E → ℝ} {g : E → E} {Lc : ℝ} (hL : 0 < Lc)
    (hsm : ∀ u ∈ C, ∀ v ∈ C, f v ≤ f u + ⟪g u, v - u⟫ + Lc / 2 * ‖v - u‖ ^ 2) {mu gamma : ℝ} (eps : ℝ) (heps : 0 ≤ eps)
    (hmu : 0 < mu) (hgam0 : 0 < gamma) (hgam1 : gamma < 1) (numHist : Nat) (hn : 1 ≤ numHist) (btFuel maxIter : Nat)
    {xStart : E} (hs : xStart ∈ C) (x : E) (hist : List E) (errs : List ℝ)
    (h : pgdbOptimize P f g ip Real.sqrt mu gamma eps .sumAbsDiffProjGrad numHist btFuel maxIter xStart = some (x, hist, errs))
    {fLow : ℝ} (hlow : fLow ≤ f x) :
    ((hist.length - 2 : Nat) : ℝ) * (gamma * mu * min 1 ((1 - gamma) * mu / Lc) * eps ^ 2 / (numHist : ℝ))
      ≤ (numHist : ℝ) * (f xStart - fLow) := by
  obtain ⟨m, rfl⟩ : ∃ m, numHist = m + 1 := ⟨numHist - 1, by omega⟩
  have hc : 0 ≤ gamma * mu * min 1 ((1 - gamma) * mu / Lc) := by
    have : 0 < 1 - gamma := by linarith
    have : 0 ≤ min 1 ((1 - gamma) * mu / Lc) := le_min zero_le_one (by positivity)
    positivity
  have hdec : ∀ x ∈ C, ∀ it, pgdbStep P f g ip Real.sqrt mu gamma .sumAbsDiffProjGrad btFuel x = some it →
      0 ≤ it.err ∧ f it.xNext ≤ f x - gamma * mu * min 1 ((1 - gamma) * mu / Lc) * it.err ^ 2 := by
    intro x hx it hit
    obtain ⟨_, ha0, _, _, _, _⟩ :=
      pgdb_step_feasible hC P (fun w => (hP w).1) f g ip Real.sqrt mu gamma .sumAbsDiffProjGrad btFuel x hx it hit
    have herr : it.err = ‖it.y‖ := by
      have e : it.err = errorValue .sumAbsDiffProjGrad f Real.sqrt (fun v => ip v v) x (x + it.alpha • it.y) it.y := by
        unfold pgdbStep at hit
        cases hb : backtrack f g ip x (pgdbDir P g mu x) gamma btFuel 1 with
        | none => simp [hb] at hit
        | some a => simp only [hb, Option.some.injEq] at hit; subst hit; rfl
      rw [e, (stop_criteria_meaning f x it.y it.alpha ha0.le).2.2.2]
    rw [herr]
    exact ⟨norm_nonneg _, (pgdb_step_alpha_lower_bound hC hP hL hmu hgam0 hgam1 Real.sqrt .sumAbsDiffProjGrad btFuel hx
      (hsm x hx) it hit).2⟩
  unfold pgdbOptimize at h
  cases hl : pgdbLoop P f g ip Real.sqrt mu gamma eps .sumAbsDiffProjGrad (m + 1) btFuel maxIter xStart [] [xStart] with
  | none => simp [hl] at h
  | some res =>
    obtain ⟨v, vs, hres, hinv⟩ := pgdbLoop_window_potential_sq hC hP f g eps heps .sumAbsDiffProjGrad _ hc m btFuel hdec
      (f xStart) maxIter xStart [] [] res hs (by simp) (by cases m <;> simp [pot]) hl
    obtain ⟨l, es⟩ := res
    simp only at hres
    subst hres
    simp only [hl] at h
    by_cases hm : maxIter = 0
    · simp [hm] at h
    · simp only [hm, if_false, Option.some.injEq, Prod.mk.injEq] at h
      obtain ⟨rfl, rfl, _⟩ := h
      have : (v :: vs).length - 2 = vs.length - 1 := by simp
      rw [this]
      push_cast
      have hm0 : (0 : ℝ) ≤ (m : ℝ) + 1 := by positivity
      nlinarith

/-- the potential of a two-entry window over squared errors, and the Cauchy–Schwarz step it rests on -/
example : pot 1 ([4, 9] : List ℝ) = 4 ∧ (lsum ([2, 3] : List ℝ)) ^ 2 ≤ (2 : ℝ) * lsum (([2, 3] : List ℝ).map (· ^ 2)) := by
  constructor
  · simp [pot]
  · norm_num [lsum]

example : sumSqResiduals (fun z : ℝ => max z 0) (fun u => 2 * u) 1 ([0, 1] : List ℝ) = 1 := by
  simp [sumSqResiduals, pgdbDir]

/-- non-vacuity of the smoothness / convexity / projection hypotheses together: `E = ℝ`, `f u = u²`, `g u = 2u`, `L = 2`,
`C = [0, ∞)`. -/
example : (∀ u v : ℝ, v ^ 2 ≤ u ^ 2 + ⟪(2 * u : ℝ), v - u⟫ + 2 / 2 * ‖v - u‖ ^ 2) ∧
    (∀ u w : ℝ, u ^ 2 + ⟪(2 * u : ℝ), w - u⟫ ≤ w ^ 2) := by
  constructor
  · intro u v
    simp only [RCLike.inner_apply, conj_trivial, Real.norm_eq_abs, sq_abs]
    nlinarith [sq_nonneg (v - u)]
  · intro u w
    simp only [RCLike.inner_apply, conj_trivial]
    nlinarith [sq_nonneg (w - u)]

example : sumSqSteps ([3, 1, 0] : List ℝ) = 5 := by
  simp [sumSqSteps]; norm_num

example : AllStepsGe 1 ([3, 1, 0] : List ℝ) := by
  simp [AllStepsGe]; norm_num

/-! ## the stopping rules with the thresholds and defaults read from the source -/

/-- C11.gen_stopping_rules: with the constants regenerated from the source (`QGen/C10.lean`):
the default threshold is `Settings` atol / 10 (the float `1e-13` / `10.0`, within `10⁻²⁹` of `10⁻¹⁴`) and positive, it is what
`resolveEps` returns for `eps=None`; the default option object (γ = 0.3, μ unset, that threshold) passes
`is_option_sufficient`; the default rule is `single_difference_loss` with window 1, so by `stop_rule_window_one` a default run
stops exactly when the last loss decrease is `≤ eps`, the comparison being `value > eps` as coded; each algorithm's
`error_value` chain lists the four rules in the model's order. -/
theorem gen_stopping_rules :
    QGen.C10.defaultEps = QGen.C10.defaultAtol / 10 ∧ 0 < QGen.C10.defaultEps ∧
    (QGen.C10.defaultEps - 1 / 10 ^ 14 < 1 / 10 ^ 29 ∧ 1 / 10 ^ 14 - QGen.C10.defaultEps < 1 / 10 ^ 29) ∧
    resolveEps none QGen.C10.defaultAtol QGen.C10.epsDivisor = QGen.C10.defaultEps ∧
    pgdbOptionSufficient true none (some QGen.C10.defaultGamma) (some QGen.C10.defaultEps) = true ∧
    (StopMode.ofString? QGen.C10.defaultStopMode, QGen.C10.defaultNumHistory) = (some .singleDiffLoss, 1) ∧
    (QGen.C10.stopOp, QGen.C10.stopLeft, QGen.C10.stopRight, QGen.C10.stopThen, QGen.C10.stopElse)
      = ("Gt", "value", "eps", true, false) ∧
    QGen.C10.errExprPgdb = StopMode.all.map (StopMode.errExpr "y_prev") := by
  decide +kernel

/-- the generated default threshold, used in the executable stopping rule: a decrease of `10⁻¹⁵` stops, `10⁻¹³` does not -/
example : isDoing ([1, 1 / 10 ^ 15] : List Rat) QGen.C10.defaultNumHistory QGen.C10.defaultEps = false ∧
    isDoing ([1, 1 / 10 ^ 13] : List Rat) QGen.C10.defaultNumHistory QGen.C10.defaultEps = true := by
  decide +kernel

/-! ## D13 — the projection wrapper breaks the descent property (negation witness) -/

/-- stacked representation of the two-variable toy POVM parametrisation: the third entry is the dependent one -/
def toS (v : ℚ × ℚ) : ℚ × ℚ × ℚ := (v.1, v.2, 1 - v.1 - v.2)
/-- Euclidean nearest point of `{s : s₁ ≥ 0, s₁ + s₂ + s₃ = 1}` for points of the plane -/
def projS (s : ℚ × ℚ × ℚ) : ℚ × ℚ × ℚ := if s.1 < 0 then (0, s.2.1 + s.1 / 2, s.2.2 + s.1 / 2) else s
def toV (s : ℚ × ℚ × ℚ) : ℚ × ℚ := (s.1, s.2.1)
def dot2 (a b : ℚ × ℚ) : ℚ := a.1 * b.1 + a.2 * b.2

/-- `projS` really is the Euclidean projection onto the stacked feasible set (variational inequality in `ℚ³`), so the
witness below is an instance of "project exactly in stacked space, then drop the dependent entry". -/
theorem projS_is_euclidean_projection (s w : ℚ × ℚ × ℚ) (hs : s.1 + s.2.1 + s.2.2 = 1)
    (hw : w.1 + w.2.1 + w.2.2 = 1) (hw1 : 0 ≤ w.1) :
    0 ≤ (projS s).1 ∧ (projS s).1 + (projS s).2.1 + (projS s).2.2 = 1 ∧
    (s.1 - (projS s).1) * (w.1 - (projS s).1) + (s.2.1 - (projS s).2.1) * (w.2.1 - (projS s).2.1)
      + (s.2.2 - (projS s).2.2) * (w.2.2 - (projS s).2.2) ≤ 0 := by
  unfold projS
  split_ifs with h
  · refine ⟨le_refl _, by simp only; linarith, ?_⟩
    simp only
    have e : w.2.1 + w.2.2 = 1 - w.1 := by linarith
    have e2 : s.2.1 + s.2.2 = 1 - s.1 := by linarith
    nlinarith
  · exact ⟨not_lt.1 h, hs, by simp⟩

/-- C11.pg_descent_dir_fails_via_stacked (finding D13): with the projection computed as
`calc_proj_physical_with_var` does for POVMs / measurement processes under `on_para_eq_constraint=True` — convert to the
stacked vector (dependent last element), project there, drop the dependent element — the projected-gradient direction need
not be a descent direction for the gradient taken in the variable coordinates: at the feasible point `x = (0,0)` with gradient
`(4,−1)`, `μ = 1`, the direction is `(0,−1)` and `⟪∇f, y⟫ = 1 > 0`.  Hence `pg_descent_dir`, `pgdb_step_decrease` and
`pg_fixed_iff_opt` do not apply to that configuration. -/
theorem pg_descent_dir_fails_via_stacked :
    ¬ ∀ (x g : ℚ × ℚ), 0 ≤ x.1 →
      dot2 g (pgdbDir (projViaStacked toS projS toV) (fun _ => g) (1 : ℚ) x) ≤ 0 := by
  intro h
  have := h (0, 0) (4, -1) (le_refl _)
  norm_num [dot2, pgdbDir, projViaStacked, toS, projS, toV] at this

end QM.C11

/-! ## the CVXPY-backed estimator minimises the same function when all schedules have the same number of shots -/
namespace QM.C11
section cvx
variable {K : Type} [Field K] [LinearOrder K] [IsStrictOrderedRing K]

/-- C11.cvx_se_equal_shots: with the same shot count `n ≠ 0` for each of the `S` schedules, the objective that
`CvxpyUniformSquaredError.value_cvxpy` hands to the solver is `1/S` times the identity-weight squared error minimised by the
projected-gradient estimators (same model distributions `ps`, same data `qs`). -/
theorem cvx_se_equal_shots (n : K) (hn : n ≠ 0) (S : Nat) (hS : 0 < S) (ps qs : List (List K)) (hp : ps.length = S)
    (hq : qs.length = S) :
    cvxSquaredError (numRatios (List.replicate S n)) ps qs = (1 / (S : K)) * plainSquaredError ps qs := by
  have hS' : (S : K) ≠ 0 := Nat.cast_ne_zero.2 (Nat.pos_iff_ne_zero.1 hS)
  have hr : numRatios (List.replicate S n) = List.replicate S (1 / (S : K)) := by
    unfold numRatios
    rw [lsum_replicate, List.map_replicate]
    congr 1
    field_simp
  have hl : (ps.zip qs).length = S := by simp [hp, hq]
  unfold cvxSquaredError plainSquaredError
  rw [hr, ← hl]
  exact weighted_const (1 / ((ps.zip qs).length : K)) (ps.zip qs)

/-- C11.cvx_se_same_minimisers: hence the two estimators rank any two parameter points identically — they have the same
constrained minimisers (the agreement claim of the property is well posed). -/
theorem cvx_se_same_minimisers (n : K) (hn : n ≠ 0) (S : Nat) (hS : 0 < S) (ps ps' qs : List (List K)) (hp : ps.length = S)
    (hp' : ps'.length = S) (hq : qs.length = S) :
    cvxSquaredError (numRatios (List.replicate S n)) ps qs ≤ cvxSquaredError (numRatios (List.replicate S n)) ps' qs ↔
      plainSquaredError ps qs ≤ plainSquaredError ps' qs := by
  rw [cvx_se_equal_shots n hn S hS ps qs hp hq, cvx_se_equal_shots n hn S hS ps' qs hp' hq]
  have hpos : (0 : K) < 1 / (S : K) := by
    have : (0 : K) < (S : K) := Nat.cast_pos.2 hS
    positivity
  exact mul_le_mul_iff_of_pos_left hpos

/-- C11.cvx_re_equal_shots: the same for the relative entropy — with equal shot counts the objective of
`CvxpyRelativeEntropy.value_cvxpy` is `1/S` times the identity-weight relative entropy `Σ_i Σ_{j: q_ij > eps} q_ij (log q_ij − log p_ij)`
(`log` and the zero threshold `eps` arbitrary), hence has the same minimisers. -/
theorem cvx_re_equal_shots (log : K → K) (eps n : K) (hn : n ≠ 0) (S : Nat) (hS : 0 < S) (ps qs : List (List K))
    (hp : ps.length = S) (hq : qs.length = S) :
    cvxRelativeEntropy log eps (numRatios (List.replicate S n)) ps qs = (1 / (S : K)) * plainRelativeEntropy log eps ps qs := by
  have hS' : (S : K) ≠ 0 := Nat.cast_ne_zero.2 (Nat.pos_iff_ne_zero.1 hS)
  have hr : numRatios (List.replicate S n) = List.replicate S (1 / (S : K)) := by
    unfold numRatios
    rw [lsum_replicate, List.map_replicate]
    congr 1
    field_simp
  have hl : (ps.zip qs).length = S := by simp [hp, hq]
  unfold cvxRelativeEntropy plainRelativeEntropy
  rw [hr, ← hl]
  exact weighted_const_gen (fun pq => relEnt log eps pq.1 pq.2) (1 / ((ps.zip qs).length : K)) (ps.zip qs)

theorem cvx_re_same_minimisers (log : K → K) (eps n : K) (hn : n ≠ 0) (S : Nat) (hS : 0 < S) (ps ps' qs : List (List K))
    (hp : ps.length = S) (hp' : ps'.length = S) (hq : qs.length = S) :
    cvxRelativeEntropy log eps (numRatios (List.replicate S n)) ps qs ≤
        cvxRelativeEntropy log eps (numRatios (List.replicate S n)) ps' qs ↔
      plainRelativeEntropy log eps ps qs ≤ plainRelativeEntropy log eps ps' qs := by
  rw [cvx_re_equal_shots log eps n hn S hS ps qs hp hq, cvx_re_equal_shots log eps n hn S hS ps' qs hp' hq]
  have hpos : (0 : K) < 1 / (S : K) := by
    have : (0 : K) < (S : K) := Nat.cast_pos.2 hS
    positivity
  exact mul_le_mul_iff_of_pos_left hpos

end cvx

/-- C11.relative_entropy_exact_data_minimiser: Gibbs' inequality for the relative-entropy objective as modelled (`relEnt`,
`plainRelativeEntropy`, natural logarithm, zero threshold `0`): for one schedule with data `q` and model distribution `p`
(non-negative, `p_j > 0` wherever `q_j > 0`, `Σ p ≤ Σ q` — e.g. both normalised), `relEnt ≥ Σ q − Σ p ≥ 0`, with value `0` at
`p = q`.  Hence under exact data the true object (whose model distributions ARE the data) attains the global minimum `0` of the
identity-weight relative entropy over all points with non-negative normalised model distributions — in particular over the
physical set. -/
theorem relative_entropy_exact_data_minimiser (p q : List ℝ) (hlen : p.length = q.length)
    (hall : ∀ ab ∈ p.zip q, 0 ≤ ab.1 ∧ 0 ≤ ab.2 ∧ ((0 : ℝ) < ab.2 → 0 < ab.1)) (hsum : lsum p ≤ lsum q) :
    relEnt Real.log 0 q q = 0 ∧ relEnt Real.log 0 q q ≤ relEnt Real.log 0 p q := by
  have h0 := relEnt_self q
  have h1 := relEnt_ge p q hlen hall
  exact ⟨h0, by rw [h0]; linarith⟩

/-- the whole objective: a sum over schedules of such terms is minimised (value `0`) by the data themselves -/
theorem plain_relative_entropy_exact_data (ps qs : List (List ℝ))
    (hrow : ∀ pq ∈ ps.zip qs, pq.1.length = pq.2.length ∧
      (∀ ab ∈ pq.1.zip pq.2, 0 ≤ ab.1 ∧ 0 ≤ ab.2 ∧ ((0 : ℝ) < ab.2 → 0 < ab.1)) ∧ lsum pq.1 ≤ lsum pq.2) :
    plainRelativeEntropy Real.log 0 qs qs = 0 ∧ 0 ≤ plainRelativeEntropy Real.log 0 ps qs := by
  constructor
  · have hself : ∀ l : List (List ℝ), lsum ((l.zip l).map fun pq => relEnt Real.log 0 pq.1 pq.2) = 0 := by
      intro l
      induction l with
      | nil => simp [lsum]
      | cons b t ih => simp only [List.zip_cons_cons, List.map_cons, lsum_cons', relEnt_self, zero_add]; exact ih
    exact hself qs
  · unfold plainRelativeEntropy
    apply lsum_nonneg'
    intro v hv
    obtain ⟨pq, hpq, rfl⟩ := List.mem_map.1 hv
    obtain ⟨h1, h2, h3⟩ := hrow pq hpq
    have := relEnt_ge pq.1 pq.2 h1 h2
    linarith

example : relEnt Real.log 0 [1 / 2, 1 / 2] [1, 0] = Real.log 2 := by
  simp [relEnt, lsum, Real.log_inv]

section cvx
variable {K : Type} [Field K] [LinearOrder K] [IsStrictOrderedRing K]

/-- relative entropy with a rational stand-in for `log` (`log v := v − 1`), two schedules, one zero entry in the data -/
example : cvxRelativeEntropy (fun v : ℚ => v - 1) 0 (numRatios [10, 10]) [[1/2, 1/2], [1/4, 3/4]] [[1, 0], [1/2, 1/2]] = 1 / 4 := by
  norm_num [cvxRelativeEntropy, numRatios, relEnt, lsum]

example : cvxSquaredError (numRatios [(10 : ℚ), 10]) [[1/2, 1/2], [1/4, 3/4]] [[1, 0], [0, 1]] = 5 / 16 := by
  norm_num [cvxSquaredError, numRatios, sqErr, lsum]

end cvx
end QM.C11
