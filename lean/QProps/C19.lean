import QProofs.C19
import QGen.C19
import Mathlib.LinearAlgebra.Matrix.NonsingularInverse
import Mathlib.Logic.Equiv.Fin.Basic
import Mathlib.Algebra.BigOperators.Fin
/-!
# C19 — property theorems: the analytical error formulas are exact expectations

`expectN p n g` is the expectation of `g(counts)` under the multinomial law with `n` draws from `p`
(QModel.C19, defined by recursion on `n`), `expectJoint` its product over schedules.  All statements hold
for every field of characteristic 0 (in particular for the executed instance `Rat`), every outcome
count `m`, every sample size `n ≥ 1`, every number of schedules.
-/
set_option linter.unusedSectionVars false
open Matrix
namespace QM.C19
open QM

section single
variable {K : Type} [Field K] [CharZero K] {m : Nat}

/-- C19 (unbiasedness): the empirical distribution has mean `p`. -/
theorem multinomial_mean (p : Vec K m) (hp : ∑ i, p.get i = 1) (n : Nat) (hn : 1 ≤ n) (i : Fin m) :
    expectN p n (fun c => (empi (K := K) c n).get i - p.get i) = 0 := by
  have hn0 : (n : K) ≠ 0 := by exact_mod_cast (Nat.pos_iff_ne_zero.mp hn)
  have : (fun c : Vec Nat m => (empi (K := K) c n).get i - p.get i)
      = fun c => (1 / (n : K)) * (c.get i : K) + (-(p.get i)) := by
    funext c; rw [empi_get]; ring
  rw [this, expectN_add, expectN_smul, expectN_count p hp, expectN_const p hp]
  field_simp; ring

/-- C19 (covariance, entrywise): `E[(f_i − p_i)(f_j − p_j)]` is the `(i,j)` entry of the matrix that
`calc_covariance_mat(p, n)` returns, `(diag p − p pᵀ)/n`. -/
theorem multinomial_cov_entry (p : Vec K m) (hp : ∑ i, p.get i = 1) (n : Nat) (hn : 1 ≤ n)
    (i j : Fin m) :
    expectN p n (fun c => ((empi (K := K) c n).get i - p.get i) * ((empi (K := K) c n).get j - p.get j))
      = (covMat p (n : K)).get i j := by
  have hn0 : (n : K) ≠ 0 := by exact_mod_cast (Nat.pos_iff_ne_zero.mp hn)
  have : (fun c : Vec Nat m =>
        ((empi (K := K) c n).get i - p.get i) * ((empi (K := K) c n).get j - p.get j))
      = fun c => (1 / (n : K) ^ 2) * ((c.get i : K) * (c.get j : K))
          + ((-(p.get j) / (n : K)) * (c.get i : K)
            + ((-(p.get i) / (n : K)) * (c.get j : K) + p.get i * p.get j)) := by
    funext c; simp only [empi_get]; field_simp; ring
  rw [this, expectN_add, expectN_smul, expectN_add, expectN_smul, expectN_add, expectN_smul,
    expectN_const p hp, expectN_count_mul p hp, expectN_count p hp, expectN_count p hp, covMat_get]
  by_cases h : i = j
  · subst h; simp only [if_true]; field_simp; ring
  · simp only [h, if_false]; field_simp; ring

/-- C19 (covariance): the model of `calc_covariance_mat` *is* the exact covariance matrix of the
empirical distribution, for every `n ≥ 1` and every probability vector. -/
theorem multinomial_cov (p : Vec K m) (hp : ∑ i, p.get i = 1) (n : Nat) (hn : 1 ≤ n) :
    covExact p n = covMat p (n : K) := by
  apply Mat.ext'
  intro i j
  rw [← multinomial_cov_entry p hp n hn i j]
  simp [covExact]

/-- C19 (mse of one empirical distribution): `E‖f − p‖² = tr Cov`, the summand of
`calc_mse_empi_dists_analytical`. -/
theorem mse_empi_exact (p : Vec K m) (hp : ∑ i, p.get i = 1) (n : Nat) (hn : 1 ≤ n) :
    mseEmpiExact p n = (covMat p (n : K)).trace := by
  unfold mseEmpiExact
  have : (fun c : Vec Nat m => normSq ((empi (K := K) c n).sub p))
      = fun c => ∑ i, ((empi (K := K) c n).get i - p.get i) * ((empi (K := K) c n).get i - p.get i) := by
    funext c; rw [normSq_eq]; simp only [vsub_get]
  rw [this, expectN_finset_sum]
  simp only [multinomial_cov_entry p hp n hn]
  simp [Mat.trace, fsum_eq_sum]

/-- closed form: `tr Cov = (1 − Σ p_i²)/n`. -/
theorem trace_covMat (p : Vec K m) (hp : ∑ i, p.get i = 1) (n : K) :
    (covMat p n).trace = (1 - ∑ i, p.get i * p.get i) / n := by
  simp only [Mat.trace, fsum_eq_sum, covMat_get, if_true, div_eq_mul_inv]
  rw [← Finset.sum_mul, Finset.sum_sub_distrib, hp]

/-- C19 (mse of a linear estimate, one schedule): `E‖L(f − p)‖² = tr(L Cov Lᵀ)` for every matrix `L`,
the value `calc_conjugate` + `trace` compute. -/
theorem mse_linear_single {k : Nat} (L : Mat K k m) (p : Vec K m) (hp : ∑ i, p.get i = 1) (n : Nat)
    (hn : 1 ≤ n) :
    expectN p n (fun c => normSq (L.mulVec ((empi (K := K) c n).sub p)))
      = (conjugate L (covMat p (n : K))).trace := by
  have : (fun c : Vec Nat m => normSq (L.mulVec ((empi (K := K) c n).sub p)))
      = fun c => ∑ a, ∑ i, ∑ j, (L.get a i * L.get a j) *
          (((empi (K := K) c n).get i - p.get i) * ((empi (K := K) c n).get j - p.get j)) := by
    funext c; rw [normSq_mulVec]
    refine Finset.sum_congr rfl fun a _ => Finset.sum_congr rfl fun i _ =>
      Finset.sum_congr rfl fun j _ => ?_
    simp only [vsub_get]; ring
  rw [this, expectN_finset_sum, trace_conjugate]
  refine Finset.sum_congr rfl fun a _ => ?_
  rw [expectN_finset_sum]
  refine Finset.sum_congr rfl fun i _ => ?_
  rw [expectN_finset_sum]
  refine Finset.sum_congr rfl fun j _ => ?_
  rw [expectN_smul, multinomial_cov_entry p hp n hn]; ring

/-- every component of `L(f − p)` has mean zero (the linear estimate is unbiased). -/
theorem linear_unbiased {k : Nat} (L : Mat K k m) (p : Vec K m) (hp : ∑ i, p.get i = 1) (n : Nat)
    (hn : 1 ≤ n) (a : Fin k) :
    expectN p n (fun c => (L.mulVec ((empi (K := K) c n).sub p)).get a) = 0 := by
  have : (fun c : Vec Nat m => (L.mulVec ((empi (K := K) c n).sub p)).get a)
      = fun c => ∑ i, L.get a i * ((empi (K := K) c n).get i - p.get i) := by
    funext c; rw [mulVec_get]; simp only [vsub_get]
  rw [this, expectN_finset_sum]
  apply Finset.sum_eq_zero
  intro i _
  rw [expectN_smul, multinomial_mean p hp n hn, mul_zero]

end single

section joint
variable {K : Type} [Field K] [CharZero K] {m k : Nat}

theorem Good.tail {x : Mat K k m × Vec K m × Nat} {r : List (Mat K k m × Vec K m × Nat)}
    (h : Good (x :: r)) : Good r := fun y hy => h y (List.mem_cons_of_mem _ hy)

theorem Good.allProb {l : List (Mat K k m × Vec K m × Nat)} (h : Good l) :
    AllProb (l.map fun x => (x.2.1, x.2.2)) := by
  intro y hy
  simp only [List.mem_map] at hy
  obtain ⟨x, hx, rfl⟩ := hy
  exact (h x hx).1

/-- the error of the linear estimate has mean zero under the product law. -/
theorem linErr_mean_zero (l : List (Mat K k m × Vec K m × Nat)) (hl : Good l) (a : Fin k) :
    expectJoint (l.map fun x => (x.2.1, x.2.2)) (fun cs => (linErr l cs).get a) = 0 := by
  induction l with
  | nil => simp [expectJoint, linErr, vzero_get]
  | cons x r ih =>
    obtain ⟨L, p, n⟩ := x
    have hx := hl (L, p, n) (List.mem_cons_self ..)
    simp only [List.map_cons, expectJoint, linErr, vadd_get]
    have : ∀ c : Vec Nat m,
        expectJoint (r.map fun x => (x.2.1, x.2.2))
          (fun cs => (L.mulVec ((empi (K := K) c n).sub p)).get a + (linErr r cs).get a)
        = (L.mulVec ((empi (K := K) c n).sub p)).get a := by
      intro c
      rw [expectJoint_add, expectJoint_const _ hl.tail.allProb, ih hl.tail, add_zero]
    rw [expectN_congr p n this]
    exact linear_unbiased L p hx.1 n hx.2 a

/-- C19 (mse of the linear estimate, all schedules): over the product of the schedules' multinomial
laws, `E‖Σ_s L_s (f_s − p_s)‖² = Σ_s tr(L_s Cov_s L_sᵀ)` — independence kills the cross terms.
`L_s` are the column blocks of `A⁺`, so the left side is `E‖v̂ − v‖²` of the linear estimate. -/
theorem mse_linear_joint (l : List (Mat K k m × Vec K m × Nat)) (hl : Good l) :
    mseLinearExact l = linTrace l := by
  induction l with
  | nil => simp [mseLinearExact, expectJoint, linErr, linTrace, normSq_eq, vzero_get]
  | cons x r ih =>
    obtain ⟨L, p, n⟩ := x
    have hx := hl (L, p, n) (List.mem_cons_self ..)
    have ihr := ih hl.tail
    unfold mseLinearExact at ihr ⊢
    simp only [List.map_cons, expectJoint, linErr, linTrace]
    have inner : ∀ c : Vec Nat m,
        expectJoint (r.map fun x => (x.2.1, x.2.2))
          (fun cs => normSq ((L.mulVec ((empi (K := K) c n).sub p)).add (linErr r cs)))
        = normSq (L.mulVec ((empi (K := K) c n).sub p)) + linTrace r := by
      intro c
      have e : ∀ cs, normSq ((L.mulVec ((empi (K := K) c n).sub p)).add (linErr r cs))
          = (normSq (L.mulVec ((empi (K := K) c n).sub p))
              + 2 * ∑ a, (L.mulVec ((empi (K := K) c n).sub p)).get a * (linErr r cs).get a)
            + normSq (linErr r cs) := fun cs => normSq_add _ _
      rw [expectJoint_congr _ e, expectJoint_add, expectJoint_add,
        expectJoint_const _ hl.tail.allProb, expectJoint_smul, expectJoint_finset_sum, ihr]
      have z : ∀ a ∈ (Finset.univ : Finset (Fin k)),
          expectJoint (r.map fun x => (x.2.1, x.2.2))
            (fun cs => (L.mulVec ((empi (K := K) c n).sub p)).get a * (linErr r cs).get a) = 0 := by
        intro a _
        rw [expectJoint_smul, linErr_mean_zero r hl.tail a, mul_zero]
      rw [Finset.sum_eq_zero z]; ring
    rw [expectN_congr p n inner, expectN_add, expectN_const p hx.1, mse_linear_single L p hx.1 n hx.2]

end joint


section formulas
variable {K : Type} [Field K] [CharZero K] {m : Nat}

/-- the linear-estimate trace of the code's block matrix splits over the schedules' column blocks -/
theorem mseLinearVar_eq_linTrace {a : Nat} (l : List (Vec K m × Nat))
    (X : Mat K a (dsSize (covBlocks (uniArgs l)))) :
    mseLinearVar (covBlocks (uniArgs l)) X = linTrace (splitCols l X) := by
  induction l with
  | nil =>
    simp only [splitCols, linTrace]
    exact mseLinearVar_nil X
  | cons x r ih =>
    obtain ⟨p, n⟩ := x
    simp only [splitCols, linTrace]
    rw [← ih]
    exact mseLinearVar_cons m (covMat p (n : K)) (covBlocks (uniArgs r)) X

theorem splitCols_good {a : Nat} (l : List (Vec K m × Nat))
    (hl : ∀ x ∈ l, (∑ i, x.1.get i = 1) ∧ 1 ≤ x.2)
    (X : Mat K a (dsSize (covBlocks (uniArgs l)))) : Good (splitCols l X) := by
  induction l with
  | nil => intro x hx; simp [splitCols] at hx
  | cons y r ih =>
    obtain ⟨p, n⟩ := y
    intro x hx
    simp only [splitCols, List.mem_cons] at hx
    rcases hx with rfl | hx
    · exact hl (p, n) (List.mem_cons_self ..)
    · exact ih (fun z hz => hl z (List.mem_cons_of_mem _ hz)) _ x hx

/-- C19 (`calc_mse_linear_analytical`, mode `var`): for schedules with a common outcome count (what
`calc_prob_dists` supports) the value the code computes, `trace(A⁺ · (⊕_s (diag p_s − p_s p_sᵀ)/n_s) · A⁺ᵀ)`,
equals the exact expectation `E‖A⁺(f − p)‖² = E‖v̂ − v‖²` over the product of the multinomial laws, for
every matrix `A⁺`, every number of schedules, all probability vectors and all sample sizes `≥ 1`. -/
theorem mse_linear_var_exact {a : Nat} (l : List (Vec K m × Nat))
    (hl : ∀ x ∈ l, (∑ i, x.1.get i = 1) ∧ 1 ≤ x.2)
    (Ainv : Mat K a (dsSize (covBlocks (uniArgs l)))) :
    mseLinearVar (covBlocks (uniArgs l)) Ainv = mseLinearExact (splitCols l Ainv) := by
  rw [mseLinearVar_eq_linTrace, mse_linear_joint _ (splitCols_good l hl Ainv)]

/-- C19 (`calc_mse_empi_dists_analytical`): the sum of the traces of the covariance blocks equals
`Σ_s E‖f_s − p_s‖²`, and equals the trace of the total (direct-sum) covariance matrix. -/
theorem mse_empi_total_exact (l : List (Vec K m × Nat))
    (hl : ∀ x ∈ l, (∑ i, x.1.get i = 1) ∧ 1 ≤ x.2) :
    mseEmpi (covBlocks (uniArgs l)) = mseEmpiExactTotal l
      ∧ (directSum (covBlocks (uniArgs l))).trace = mseEmpi (covBlocks (uniArgs l)) := by
  refine ⟨?_, trace_directSum _⟩
  induction l with
  | nil => simp [uniArgs, covBlocks, mseEmpi, mseEmpiExactTotal]
  | cons x r ih =>
    obtain ⟨p, n⟩ := x
    have hx := hl (p, n) (List.mem_cons_self ..)
    simp only [uniArgs, covBlocks, mseEmpi, mseEmpiExactTotal]
    rw [ih (fun z hz => hl z (List.mem_cons_of_mem _ hz)), mse_empi_exact p hx.1 n hx.2]

end formulas

section helpers
variable {K : Type} [Field K]

/-- C19 (`calc_direct_sum`): block structure — a block sits on the diagonal at its running index,
everything outside the blocks is zero, the rest is the direct sum of the remaining blocks. -/
theorem direct_sum_blocks (k : Nat) (B : Mat K k k) (r : List (Block K)) :
    (∀ i j : Fin k, (directSum (⟨k, B⟩ :: r)).get (Fin.castAdd (dsSize r) i) (Fin.castAdd (dsSize r) j)
        = B.get i j)
    ∧ (∀ (i : Fin k) (j : Fin (dsSize r)),
        (directSum (⟨k, B⟩ :: r)).get (Fin.castAdd (dsSize r) i) (Fin.natAdd k j) = 0
        ∧ (directSum (⟨k, B⟩ :: r)).get (Fin.natAdd k j) (Fin.castAdd (dsSize r) i) = 0)
    ∧ (∀ i j : Fin (dsSize r), (directSum (⟨k, B⟩ :: r)).get (Fin.natAdd k i) (Fin.natAdd k j)
        = (directSum r).get i j) :=
  ⟨ds_get_LL k B r, fun i j => ⟨ds_get_LR k B r i j, ds_get_RL k B r j i⟩, ds_get_RR k B r⟩

/-- C19 (`calc_conjugate`): the model value is `x v xᵀ` in Mathlib's matrix algebra. -/
theorem conjugate_spec {k n : Nat} (X : Mat K k n) (V : Mat K n n) :
    (conjugate X V).toM = X.toM * V.toM * X.toMᵀ := conjugate_toM X V

/-- C19 (POVM tomography, mode `qoperation`, `on_para_eq_constraint = True`): the value the code returns is
`tr(A⁺VA⁺ᵀ) + tr((S A⁺) V (S A⁺)ᵀ)`; by `mse_linear_var_exact` (applied to `A⁺` and to `S A⁺`) these are
`E‖v̂ − v‖²` and `E‖S(v̂ − v)‖²`, the squared error of the explicit elements plus that of the implied last
element `−Σ_k δE_k` (`S = [I … I]`, `num_outcomes − 1` copies; layout checked by the correspondence). -/
theorem mse_linear_povm_qop (bs : List (Block K)) (d2 mo : Nat)
    (Ainv : Mat K ((mo - 1) * d2) (dsSize bs)) :
    mseLinearPovmQop bs Ainv d2 mo
      = .ok (mseLinearVar bs Ainv + mseLinearVar bs ((matS d2 mo).mul Ainv)) := by
  unfold mseLinearPovmQop
  rw [dif_pos rfl]
  simp only [mseLinearVar]
  congr 2
  apply congrArg
  apply Mat.toM_injective
  simp [conjugate, Matrix.mul_assoc, Matrix.transpose_mul]

/-- C19 (POVM tomography, object mode, as an expectation): for schedules with a common outcome count the value the code returns is
`E‖v̂ − v‖² + E‖S(v̂ − v)‖²` over the product of the multinomial laws — the exact mean squared error of all POVM elements, the
implied last one included (`povm_last_element_error`). -/
theorem mse_linear_povm_qop_exact [CharZero K] {m : Nat} (l : List (Vec K m × Nat))
    (hl : ∀ x ∈ l, (∑ i, x.1.get i = 1) ∧ 1 ≤ x.2) (d2 mo : Nat)
    (Ainv : Mat K ((mo - 1) * d2) (dsSize (covBlocks (uniArgs l)))) :
    mseLinearPovmQop (covBlocks (uniArgs l)) Ainv d2 mo
      = .ok (mseLinearExact (splitCols l Ainv) + mseLinearExact (splitCols l ((matS d2 mo).mul Ainv))) := by
  rw [mse_linear_povm_qop, mse_linear_var_exact l hl, mse_linear_var_exact l hl]

/-- `calc_left_inv` accepts a WIDE matrix of full row rank (its test is `min(shape) == rank`) and then returns something that is not
a left inverse: `A = [1 0]`, `pinv(AᵀA) = diag(1,0)`, result `[1 0]ᵀ`, `L·A = diag(1,0) ≠ 1` — so the contract `hG` of
`left_inv_spec` cannot hold for wide matrices (forward models of tomography are tall). -/
theorem left_inv_wide_fails :
    ∃ (L : Mat Rat 2 1), leftInv (K := Rat) (Mat.ofFn (m := 1) (n := 2) fun _ j => if j.val = 0 then 1 else 0) 1
        (Mat.ofFn fun i j => if i.val = 0 ∧ j.val = 0 then 1 else 0) = .ok L ∧
      (L.mul (Mat.ofFn (m := 1) (n := 2) fun _ j => if j.val = 0 then (1 : Rat) else 0)) ≠ Mat.one := by
  refine ⟨Mat.ofFn fun i _ => if i.val = 0 then 1 else 0, by decide +kernel, by decide +kernel⟩

/-- C19 (`calc_left_inv`): when the rank test passes and numpy's `pinv(AᵀA)` is an inverse of `AᵀA`
(full column rank), the result is a left inverse of `A`; so `v̂ = A⁺(f − b)` recovers `v` from `f = Av + b`. -/
theorem left_inv_spec {m n : Nat} (A : Mat K m n) (rank : Nat) (G : Mat K n n) (L : Mat K n m)
    (hG : G.toM * (A.toMᵀ * A.toM) = 1) (h : leftInv A rank G = .ok L) :
    L.toM * A.toM = 1 ∧ min m n = rank := by
  unfold leftInv at h
  split at h
  · cases h
  · rename_i hr
    injection h with h
    subst h
    refine ⟨?_, by simpa using hr⟩
    rw [Mat.toM_mul, Mat.toM_transpose, Matrix.mul_assoc, hG]

/-- C19 (`calc_se`, inner term): for arrays of equal length the value is `Σ (x_i − y_i)²`. -/
theorem sqDist_eq (x y : List K) (h : x.length = y.length) :
    sqDist x y = .ok (lsum ((x.zip y).map fun (a, b) => (a - b) * (a - b))) := by
  simp [sqDist, h]

/-- arrays of different lengths, neither of length 1 (no broadcast): numpy's `x - y` raises, so does the model. -/
theorem sqDist_mismatch (x y : List K) (h : x.length ≠ y.length) (hx : x.length ≠ 1) (hy : y.length ≠ 1) :
    sqDist x y = .error .broadcast := by
  have h1 : ¬ (x.length = 1 ∧ y.length ≠ 1) := fun hh => hx hh.1
  have h2 : ¬ (y.length = 1 ∧ x.length ≠ 1) := fun hh => hy hh.1
  simp only [sqDist, if_neg h1, if_neg h2, if_neg h]

/-- C19 (`calc_se`): the squared error of two lists of arrays is the sum of the squared distances, pair by pair. -/
theorem se_cons (x y : List K) (xs ys : List (List K)) (d r : K)
    (hd : sqDist x y = .ok d) (hr : se xs ys = .ok r) : se (x :: xs) (y :: ys) = .ok (d + r) := by
  unfold se at hr ⊢
  simp only [List.zip_cons_cons, List.mapM_cons, hd, bind, Except.bind, pure, Except.pure] at hr ⊢
  cases hm : List.mapM (fun p : List K × List K => sqDist p.1 p.2) (xs.zip ys) with
  | error e => simp [hm] at hr
  | ok ds =>
    simp only [hm] at hr ⊢
    injection hr with hr
    simp [lsum, ← hr]

/-- C19 (mean): the arithmetic mean (numpy gives `nan` for an empty list: `mean? [] = none`). -/
theorem mean?_spec (l : List K) (h : l ≠ []) : mean? l = some (lsum l / (l.length : K)) := by
  simp [mean?, h]

/-- C19 (standard deviation): for more than `ddof` samples the squared `np.std(·, ddof)` is `Σ(x − mean)²/(len − ddof)`, any length. -/
theorem varDdof?_spec (ddof : Nat) (l : List K) (h : ddof < l.length) :
    varDdof? ddof l = some (lsum (l.map fun x => (x - lsum l / (l.length : K)) * (x - lsum l / (l.length : K)))
      / ((l.length - ddof : Nat) : K)) := by
  simp [varDdof?, not_le.mpr h]

/-- with at most `ddof` samples numpy returns `nan` (one repetition with `ddof = 1`): the model returns `none`, not 0. -/
theorem varDdof?_nan (ddof : Nat) (l : List K) (h : l.length ≤ ddof) : varDdof? ddof l = none := by
  simp [varDdof?, h]

/-- two repetitions: `var = (x − y)²/2`. -/
theorem varDdof1_pair [CharZero K] (x y : K) : varDdof? 1 [x, y] = some ((x - y) * (x - y) / 2) := by
  simp [varDdof?, lsum]
  ring

/-- C19 (`calc_mse_prob_dists`, and source tie of `ddof`): (mean, std²) of the per-repetition squared errors with the `ddof` read from
the source (`QGen.C19.ddofMseProbDists`); a change of the model's `ddof` or of the source's breaks this proof. -/
theorem mseProbDists_eq (xsl ysl : List (List (List K))) (ses : List K)
    (h : (xsl.zip ysl).mapM (fun p : List (List K) × List (List K) => se p.1 p.2) = .ok ses) :
    mseProbDists xsl ysl = .ok (mean? ses, varDdof? QGen.C19.ddofMseProbDists ses) := by
  unfold mseProbDists
  simp only [h, bind, Except.bind, pure, Except.pure]
  rfl


end helpers

section fisherThm
variable {K : Type} [Field K] [LinearOrder K] [IsStrictOrderedRing K]

/-- C19 (`replace_prob_dist`): away from the clipping threshold the distribution is unchanged, so the
Fisher matrix is computed from the true probabilities. -/
theorem replace_noop (ps : List K) (eps : K) (h : ∀ p ∈ ps, eps ≤ p) :
    replaceProbDist ps eps = ps := by
  unfold replaceProbDist
  have hc : (ps.filter fun p => decide (p < eps)) = [] := by
    rw [List.filter_eq_nil_iff]
    intro p hp
    simpa using h p hp
  simp only [hc, List.length_nil, Nat.cast_zero, mul_zero, zero_div, sub_zero]
  conv_rhs => rw [← List.map_id ps]
  apply List.map_congr_left
  intro p hp
  simp [not_lt.mpr (h p hp)]

/-- entry `(a,b)` of the matrix the code accumulates: `Σ_x g_x[a]·g_x[b] / prob_x` over the outcomes, in list order -/
theorem fisherRaw_entry (sv : Nat) (probs : List K) (grads : List (List K)) (a b : Nat) (ha : a < sv) (hb : b < sv) :
    ((fisherRaw sv probs grads)[a]?).bind (·[b]?)
      = some (lsum ((probs.zip grads).map fun (pr, g) => g.getD a 0 * g.getD b 0 / pr)) := by
  simp [fisherRaw, List.getElem?_map, List.getElem?_range, ha, hb]


/-- C19 (`calc_fisher_matrix`, textbook definition): when the call succeeds and no probability is below `eps`, all gradient
vectors have the length `sv` of the first one (so no default value of `getD` is ever read), `eps > 0`, and entry `(a,b)` of the
returned matrix is `Σ_x ∂_a p_x · ∂_b p_x / p_x` over the outcomes. -/
theorem fisher_formula (ps : List K) (grads : List (List K)) (eps : K) (sv : Nat) (F : List (List K))
    (hok : fisher ps grads eps = .ok (sv, F)) (h : ∀ p ∈ ps, eps ≤ p) :
    ps.length = grads.length ∧ 0 < eps ∧ (∀ g ∈ grads, g.length = sv) ∧ (∃ g0 r, grads = g0 :: r) ∧
    ∀ a b, a < sv → b < sv →
      (F[a]?).bind (·[b]?) = some (lsum ((ps.zip grads).map fun (pr, g) => g.getD a 0 * g.getD b 0 / pr)) := by
  unfold fisher at hok
  simp only [bind, Except.bind, pure, Except.pure] at hok
  split at hok
  · cases hok
  · split at hok
    · cases hok
    · rename_i hlen
      split at hok
      · cases hok
      · rename_i heps
        split at hok
        · cases hok
        · rename_i g0 r
          split at hok
          · cases hok
          · rename_i hrag
            injection hok with hok
            injection hok with h1 h2
            subst h1
            rw [replace_noop ps eps h] at h2
            subst h2
            refine ⟨by simpa using hlen, lt_of_not_ge heps, ?_, ⟨g0, r, rfl⟩, ?_⟩
            · intro g hg
              by_contra hne
              apply hrag
              rw [List.any_eq_true]
              exact ⟨g, hg, by simpa using hne⟩
            · intro a b ha hb
              exact fisherRaw_entry _ ps (g0 :: r) a b ha hb

end fisherThm

section score
variable {K : Type} [Field K] {m : Nat}

/-- C19 (Fisher information identity): for positive probabilities `Σ_x g_x(a) g_x(b) / p_x` is the
expectation over one draw `x ~ p` of the product of the score components `(g_x(a)/p_x)(g_x(b)/p_x)`,
i.e. `E[∇log p ∇log pᵀ]` — written with the multinomial law at `n = 1`. -/
theorem fisher_is_score_covariance (p : Vec K m) (hpos : ∀ x, p.get x ≠ 0) (ga gb : Vec K m) :
    (∑ x, ga.get x * gb.get x / p.get x)
      = expectN p 1 (fun c => ∑ x, (c.get x : K) * ((ga.get x / p.get x) * (gb.get x / p.get x))) := by
  rw [expectN_succ]
  refine Finset.sum_congr rfl fun i _ => ?_
  rw [expectN_zero]
  have : ∀ x : Fin m, (((bump (Vec.ofFn fun _ => 0) i).get x : Nat) : K)
      = if x = i then 1 else 0 := by
    intro x; rw [bump_get]; split <;> simp
  simp only [this, ite_mul, one_mul, zero_mul, Finset.sum_ite_eq', Finset.mem_univ, if_true]
  have := hpos i
  field_simp

/-- the list form of the Fisher entry on typed inputs is the finite sum over the outcomes -/
theorem fisher_entry_sum (p : Vec K m) (G : Mat K m nv) (a b : Fin nv) :
    lsum (((List.ofFn p.get).zip (List.ofFn fun x => List.ofFn (G.get x))).map
        fun (pr, g) => g.getD a.val 0 * g.getD b.val 0 / pr)
      = ∑ x, G.get x a * G.get x b / p.get x := by
  rw [lsum_zip_ofFn]
  refine Finset.sum_congr rfl fun x _ => ?_
  simp [List.getD_eq_getElem?_getD]

/-- C19 (Fisher matrix = score covariance, on the model's own matrix): entry `(a,b)` of what `calc_fisher_matrix` accumulates for
probabilities `p` and gradient rows `G` is `E_{x∼p}[(∂_a p_x/p_x)(∂_b p_x/p_x)]` (one draw of the multinomial law). -/
theorem fisher_entry_is_score_expectation (p : Vec K m) (hpos : ∀ x, p.get x ≠ 0) {nv : Nat} (G : Mat K m nv) (a b : Fin nv) :
    lsum (((List.ofFn p.get).zip (List.ofFn fun x => List.ofFn (G.get x))).map
        fun (pr, g) => g.getD a.val 0 * g.getD b.val 0 / pr)
      = expectN p 1 (fun c => ∑ x, (c.get x : K) * ((G.get x a / p.get x) * (G.get x b / p.get x))) := by
  rw [fisher_entry_sum]
  have := fisher_is_score_covariance p hpos (Vec.ofFn fun x => G.get x a) (Vec.ofFn fun x => G.get x b)
  simpa using this

/-- C19 (`_calc_cramer_rao_bound`): with `Finv` numpy's inverse of the total Fisher matrix `F` (contract `Finv·F = 1`), the bound is
`tr(F⁻¹)/N` (Mathlib's matrix inverse). -/
theorem crb_formula {nv : Nat} (F Finv : Mat K nv nv) (N : K) (h : Finv.toM * F.toM = 1) :
    crb Finv N = (F.toM⁻¹).trace / N := by
  rw [Matrix.inv_eq_left_inv h]
  simp [crb]

/-- C19 (`StandardPovmt.calc_cramer_rao_bound`, flag on): `[tr(F⁻¹) + tr(S F⁻¹ Sᵀ)]/N` — the bound for the explicit elements plus the
bound for the implied last element `−S·δv` (`matS_mulVec`, `povm_last_element_error`). -/
theorem crb_povm_formula (d2 mo : Nat) (F Finv : Mat K ((mo - 1) * d2) ((mo - 1) * d2)) (N : K)
    (h : Finv.toM * F.toM = 1) :
    crbPovm d2 mo Finv N
      = ((F.toM⁻¹).trace + ((matS (K := K) d2 mo).toM * F.toM⁻¹ * (matS (K := K) d2 mo).toMᵀ).trace) / N := by
  rw [Matrix.inv_eq_left_inv h]
  simp only [crbPovm, crb, Mat.trace_eq, conjugate_toM]
  rw [add_div]


end score

section layout

/-- C19 (`_generate_matS` is the hstack of identities): `S v` is the sum of the `num_outcomes − 1` blocks of
`v` — component `a` of `S v` is `Σ_k v[k·d² + a]`. So for a POVM whose last element is implied,
`E_last = c − Σ_k E_k`, the second term of the object-mode MSE, `tr(S Cov_v Sᵀ) = E‖S(v̂ − v)‖²`, is exactly the
squared error of the implied element (`povm_last_element_error`), with no hypothesis on `S`. -/
theorem matS_mulVec {K : Type} [Field K] (d2 mo : Nat) (v : Vec K ((mo - 1) * d2)) (a : Fin d2) :
    ((matS (K := K) d2 mo).mulVec v).get a
      = ∑ k : Fin (mo - 1), v.get (finProdFinEquiv (k, a)) := by
  rw [mulVec_get]
  rw [← (finProdFinEquiv (m := mo - 1) (n := d2)).sum_comp, Fintype.sum_prod_type]
  refine Finset.sum_congr rfl fun k _ => ?_
  have : ∀ b : Fin d2, (matS (K := K) d2 mo).get a (finProdFinEquiv (k, b)) * v.get (finProdFinEquiv (k, b))
      = if b = a then v.get (finProdFinEquiv (k, b)) else 0 := by
    intro b
    simp only [matS, matSWith, Mat.get_ofFn, finProdFinEquiv_apply_val]
    have hb : (b.val + d2 * k.val) % d2 = b.val := by
      rw [Nat.add_mul_mod_self_left]; exact Nat.mod_eq_of_lt b.isLt
    rw [hb]
    by_cases h : b = a
    · subst h; simp
    · have : b.val ≠ a.val := fun hh => h (Fin.ext hh)
      simp [h, this]
  simp only [this, Finset.sum_ite_eq', Finset.mem_univ, if_true]

/-- C19 (POVM, implied last element): the error of the implied element is `−S(v̂ − v)`. -/
theorem povm_last_element_error {K : Type} [Field K] (d2 mo : Nat) (c : Vec K d2)
    (v v' : Vec K ((mo - 1) * d2)) (a : Fin d2) :
    (lastElem d2 mo c v).get a - (lastElem d2 mo c v').get a
      = -((matS (K := K) d2 mo).mulVec (v.sub v')).get a := by
  rw [matS_mulVec]
  simp only [lastElem, Vec.get_ofFn, vsub_get, Finset.sum_sub_distrib]
  ring

/-- C19 (`StandardQTomography.calc_fisher_matrix`, row slices): when `matA` / `vecB` are the stack of one block per
schedule with a common outcome count `m` (what `calc_prob_dists` supports), the call for schedule `j` is
`matrix_util.calc_fisher_matrix` on exactly the `j`-th block: probabilities `A_j · var + b_j`, gradients the rows
of `A_j` — `int(len(matA)/num_schedules) = m` and the slices `[m·j : m·(j+1)]` pick block `j`. -/
theorem fisherQt_block {K : Type} [Add K] [Sub K] [Mul K] [Div K] [Neg K] [Zero K] [One K] [NatCast K]
    [LT K] [DecidableLT K] [LE K] [DecidableLE K]
    (blocks : List (List (List K))) (bvecs : List (List K)) (m : Nat)
    (hb : ∀ b ∈ blocks, b.length = m) (hv : ∀ b ∈ bvecs, b.length = m)
    (hlen : bvecs.length = blocks.length) (j : Nat) (hj : j < blocks.length) (var : List K) (eps : K) :
    fisherQt blocks.flatten bvecs.flatten blocks.length j var eps
      = fisher ((blocks[j].zip (bvecs[j]'(hlen ▸ hj))).map fun (r, b) =>
          lsum ((r.zip var).map fun (a, v) => a * v) + b) blocks[j] eps := by
  unfold fisherQt
  have hsize : blocks.flatten.length / blocks.length = m := by
    rw [length_flatten_uniform blocks m hb]
    exact Nat.mul_div_cancel m (by omega)
  simp only [hsize]
  rw [slice_flatten_uniform blocks m hb j hj, slice_flatten_uniform bvecs m hv j (hlen ▸ hj)]

end layout

/-! ## tie to the source: constants and structure regenerated from the anchored files (QGen.C19) -/

/-- C19 (source tie): the constants the model hard-wires are the ones in the source — `ddof = 1` of both sample standard
deviations, default `eps = 1e-8` of the three Fisher helpers, `num_outcomes − 1` identity blocks in `_generate_matS`,
`shape[0]` compared with `shape[1]` in `calc_direct_sum` — and `StandardQmpt` overrides neither the object-mode MSE nor
the Cramér–Rao bound of the base class, so `mseLinearQopBase` / `crb` are its model (findings D13 / D13b stay open; an
upstream override flips these booleans and breaks this proof, forcing the model to follow). The formula skeletons
themselves (`(diag q − q qᵀ)/n`, `x @ v @ x.T`, `pinv(AᵀA) Aᵀ`, `Σ w_j·F_j(eps)`, `tr(F⁻¹)/N`, row slicing by
`int(len(matA)/num_schedules)`) are matched statement by statement by the translator, which fails loudly otherwise. -/
theorem gen_constants_match_model :
    QGen.C19.ddofMseProbDists = 1 ∧ QGen.C19.ddofMseQoperations = 1 ∧
    QGen.C19.epsFisher = 1 / 100000000 ∧ QGen.C19.epsReplace = 1 / 100000000 ∧ QGen.C19.epsFisherTotal = 1 / 100000000 ∧
    QGen.C19.matSOffset = 1 ∧ QGen.C19.directSumSquareAxis = 1 ∧
    QGen.C19.qmptOverridesQop = false ∧ QGen.C19.qmptOverridesCrb = false := by
  decide +kernel

/-- C19 (source tie, `_generate_matS`): the model's `matS` IS the hstack with the block count read from the source
(`num_outcomes − QGen.C19.matSOffset`); changing either the model's offset or the source's breaks this proof. -/
theorem matS_eq_gen {K : Type} [Zero K] [One K] (d2 mo : Nat) :
    matS (K := K) d2 mo = matSWith QGen.C19.matSOffset d2 mo := rfl

/-- C19 (source tie, default `eps`): the threshold the driver uses when the implementation is called without `eps` is the one read
from the three functions of the source. -/
theorem defaultEps_eq_gen :
    defaultEps = QGen.C19.epsFisher ∧ defaultEps = QGen.C19.epsReplace ∧ defaultEps = QGen.C19.epsFisherTotal := by
  decide +kernel

/-! ## measurement-process tomography in object mode (open findings D13 / D13b) -/
section qmpt
variable {K : Type} [Field K] [CharZero K] {m : Nat}

/-- C19 (QMPT, what the object-mode MSE has to be): `tr(A⁺VA⁺ᵀ) + tr((S A⁺)V(S A⁺)ᵀ)` is the exact expectation
`E‖v̂ − v‖² + E‖S(v̂ − v)‖²` — error of the stored entries plus error of the implied first row — for every `A⁺`, all
probability vectors and sample sizes (`S = matSQmpt`). -/
theorem qmpt_object_mse_exact (l : List (Vec K m × Nat)) (hl : ∀ x ∈ l, (∑ i, x.1.get i = 1) ∧ 1 ≤ x.2)
    (d2 mo : Nat) (Ainv : Mat K (mo * (d2 * d2) - d2) (dsSize (covBlocks (uniArgs l)))) :
    mseLinearQmptObject (covBlocks (uniArgs l)) d2 mo Ainv
      = mseLinearExact (splitCols l Ainv) + mseLinearExact (splitCols l ((matSQmpt d2 mo).mul Ainv)) := by
  unfold mseLinearQmptObject
  rw [mse_linear_var_exact l hl, mse_linear_var_exact l hl]

end qmpt

/-- C19 (QMPT, the implied row): `matSQmpt` sums, for every column `a`, the first-row entries `v[k·d2² + a]` of the
`mo − 1` completely stored HS matrices — the implied first row of the last HS matrix is `e₀ −` this sum, so its error is
`−S(v̂ − v)` and the second term of `mseLinearQmptObject` is its squared error. -/
theorem matSQmpt_mulVec {K : Type} [Field K] (d2 mo : Nat) (v : Vec K (mo * (d2 * d2) - d2)) (a : Fin d2) :
    ((matSQmpt (K := K) d2 mo).mulVec v).get a
      = ∑ k : Fin (mo - 1), if h : k.val * (d2 * d2) + a.val < mo * (d2 * d2) - d2
          then v.get ⟨k.val * (d2 * d2) + a.val, h⟩ else 0 := by
  rw [mulVec_get]
  have hD : a.val < d2 * d2 := lt_of_lt_of_le a.isLt (Nat.le_mul_self d2)
  have hDpos : 0 < d2 * d2 := by omega
  have key : ∀ j : Fin (mo * (d2 * d2) - d2),
      (matSQmpt (K := K) d2 mo).get a j * v.get j
        = ∑ k : Fin (mo - 1), if j.val = k.val * (d2 * d2) + a.val then v.get j else 0 := by
    intro j
    simp only [matSQmpt, Mat.get_ofFn]
    by_cases hc : j.val < (mo - 1) * (d2 * d2) ∧ j.val % (d2 * d2) = a.val
    · rw [if_pos hc, one_mul]
      have hk : j.val / (d2 * d2) < mo - 1 := (Nat.div_lt_iff_lt_mul hDpos).mpr hc.1
      rw [Finset.sum_eq_single (⟨j.val / (d2 * d2), hk⟩ : Fin (mo - 1))]
      · have : j.val = j.val / (d2 * d2) * (d2 * d2) + a.val := by
          rw [← hc.2]; exact (Nat.div_add_mod' j.val (d2 * d2)).symm
        rw [if_pos this]
      · intro k _ hne
        rw [if_neg]
        intro hj
        apply hne
        apply Fin.ext
        simp only
        rw [hj, Nat.mul_comm, Nat.mul_add_div hDpos, Nat.div_eq_of_lt hD, Nat.add_zero]
      · intro h; exact absurd (Finset.mem_univ _) h
    · rw [if_neg hc, zero_mul]
      symm
      apply Finset.sum_eq_zero
      intro k _
      rw [if_neg]
      intro hj
      apply hc
      constructor
      · rw [hj]
        have := k.isLt
        calc k.val * (d2 * d2) + a.val < k.val * (d2 * d2) + d2 * d2 := by omega
          _ = (k.val + 1) * (d2 * d2) := by ring
          _ ≤ (mo - 1) * (d2 * d2) := Nat.mul_le_mul_right _ (by omega)
      · rw [hj, Nat.mul_comm, Nat.mul_add_mod, Nat.mod_eq_of_lt hD]
  simp only [key]
  rw [Finset.sum_comm]
  refine Finset.sum_congr rfl fun k _ => ?_
  by_cases h : k.val * (d2 * d2) + a.val < mo * (d2 * d2) - d2
  · rw [dif_pos h, Finset.sum_eq_single (⟨k.val * (d2 * d2) + a.val, h⟩ : Fin _)]
    · simp
    · intro j _ hne
      rw [if_neg]
      intro hj; exact hne (Fin.ext hj)
    · intro hh; exact absurd (Finset.mem_univ _) hh
  · rw [dif_neg h]
    apply Finset.sum_eq_zero
    intro j _
    rw [if_neg]
    intro hj
    exact h (hj ▸ j.isLt)

/-- OPEN (D13): the object-mode MSE the code returns for `StandardQmpt` (the base-class value) is not the exact object error.
Instance with `d² = 2`, two outcomes (6 variables), one schedule `p = (1/2,1/2)`, `n = 2`, `A⁺[i] = (i+1, −(i+1))`. -/
theorem qmpt_object_mse_fails :
    ¬ ∀ (bs : List (Block Rat)) (Ainv : Mat Rat (2 * (2 * 2) - 2) (dsSize bs)),
        mseLinearQopBase bs Ainv = mseLinearQmptObject bs 2 2 Ainv := by
  intro h
  have h' := h (covBlocks [⟨2, Vec.ofFn fun _ => 1/2, 2⟩])
    (Mat.ofFn fun i j => if j.val = 0 then (i.val : Rat) + 1 else -((i.val : Rat) + 1))
  revert h'
  decide +kernel

/-- OPEN (D13b): likewise the Cramér–Rao bound the code returns for `StandardQmpt` with the flag on is `tr(F⁻¹)/N` of the variables, not
the object-parametrisation bound (instance `d² = 2`, two outcomes, `F⁻¹ = 1`, `N = 10`: `6/10` vs `8/10`). -/
theorem qmpt_crb_fails :
    ¬ ∀ (Finv : Mat Rat (2 * (2 * 2) - 2) (2 * (2 * 2) - 2)) (N : Rat), crb Finv N = crbQmptObject 2 2 Finv N := by
  intro h
  have h' := h Mat.one 10
  revert h'
  decide +kernel

section indep
variable {K : Type} [Field K] [CharZero K] {m : Nat}

/-- C19 (independence of the schedules): the expectation of (a function of the first schedule's counts) × (a function of the others') factorises -/
theorem expectJoint_head_indep (p : Vec K m) (n : Nat) (r : List (Vec K m × Nat))
    (u : Vec Nat m → K) (g : List (Vec Nat m) → K) :
    expectJoint ((p, n) :: r) (fun cs => match cs with | c :: rest => u c * g rest | [] => 0)
      = expectN p n u * expectJoint r g := by
  simp only [expectJoint]
  have : ∀ c : Vec Nat m, expectJoint r (fun cs => u c * g cs) = u c * expectJoint r g :=
    fun c => expectJoint_smul r (u c) g
  rw [expectN_congr p n this, expectN_mul_const]

/-- C19 (joint covariance = direct sum): cross-schedule covariance vanishes — the joint covariance matrix of all empirical distributions is the DIRECT SUM of the
per-schedule covariances (what `calc_covariance_mat_total` builds with `calc_direct_sum`) -/
theorem cross_covariance_zero (p : Vec K m) (hp : ∑ i, p.get i = 1) (n : Nat) (hn : 1 ≤ n) (r : List (Vec K m × Nat))
    (i : Fin m) (g : List (Vec Nat m) → K) :
    expectJoint ((p, n) :: r)
        (fun cs => match cs with | c :: rest => ((empi (K := K) c n).get i - p.get i) * g rest | [] => 0) = 0 := by
  rw [expectJoint_head_indep p n r (fun c => (empi (K := K) c n).get i - p.get i) g, multinomial_mean p hp n hn i, zero_mul]

end indep

section clip
variable {K : Type} [Field K] [LinearOrder K] [IsStrictOrderedRing K]

/-- C19 (`replace_prob_dist`, clipping active): every entry below `eps` becomes `eps`, every other entry is lowered by the same amount
`eps·cnt/(size − cnt)` -/
theorem replace_entries (ps : List K) (eps : K) :
    replaceProbDist ps eps = ps.map fun p =>
      if p < eps then eps
      else p - eps * ((ps.filter fun x => decide (x < eps)).length : K)
            / ((ps.length - (ps.filter fun x => decide (x < eps)).length : Nat) : K) := rfl

/-- C19 (`replace_prob_dist`, mass is moved, not created): when at least one entry is not clipped, the replaced distribution sums to
the mass of the unclipped entries, `Σ_{p ≥ eps} p = 1 − Σ_{p < eps} p` for a distribution. -/
theorem replace_sum (ps : List K) (eps : K)
    (hbig : (ps.filter fun x => decide (x < eps)).length < ps.length) :
    lsum (replaceProbDist ps eps) = lsum (ps.filter fun x => !decide (x < eps)) := by
  rw [replace_entries, lsum_map_split, filter_lengths]
  have hne : (((ps.length - (ps.filter fun x => decide (x < eps)).length : Nat)) : K) ≠ 0 := by
    have : 0 < ps.length - (ps.filter fun x => decide (x < eps)).length := by omega
    exact_mod_cast this.ne'
  field_simp
  ring
end clip

/-! ## validation of the helpers (repaired code) -/

/-- C19 (`calc_fisher_matrix_total`, size): a successful call returns a square matrix whose size is the
number of *variables* (length of the first gradient vector), and the three argument lists have equal length. -/
theorem fisher_total_size (pss : List (List Rat)) (gradss : List (List (List Rat))) (ws : List Rat) (eps : Rat)
    (n : Nat) (M : List (List Rat)) (h : fisherTotal pss gradss ws eps = .ok (n, M)) :
    (∃ g00 g0r gr, gradss = (g00 :: g0r) :: gr ∧ n = g00.length) ∧
      pss.length = gradss.length ∧ pss.length = ws.length := by
  unfold fisherTotal at h
  split at h
  · cases h
  · rename_i h1
    split at h
    · cases h
    · rename_i h2
      split at h
      · cases h
      · split at h
        · cases h
        · cases h
        · rename_i g00 g0r gr
          simp only [] at h
          split at h
          · injection h with h
            injection h with hn hM
            exact ⟨⟨g00, g0r, gr, rfl, hn.symm⟩, by simpa using h1, by simpa using h2⟩
          · cases h

section totalValue
variable {K : Type} [Field K] [LinearOrder K] [IsStrictOrderedRing K]

/-- C19 (`calc_fisher_matrix_total`, one step of the accumulation): a distribution whose Fisher matrix has the accumulator's size adds
`w · F` to it. -/
theorem fisherAcc_step (size : Nat) (eps : K) (ps : List K) (grads : List (List K))
    (r : List (List K × List (List K))) (w : K) (ws : List K) (acc F : List (List K))
    (hF : fisher ps grads eps = .ok (size, F)) :
    fisherAcc size eps ((ps, grads) :: r) (w :: ws) acc
      = fisherAcc size eps r ws (addRows acc (scaleRows w F)) := by
  simp [fisherAcc, hF, accumulate, bind, Except.bind, scaleRows]

/-- C19 (`calc_fisher_matrix_total`, one distribution): the total is `0 + w·F` (special case of `fisherTotal_value`). -/
theorem fisherTotal_single (ps : List K) (g0 : List K) (gr : List (List K)) (w eps : K) (F : List (List K))
    (hw : ¬ w < 0)
    (hF : fisher ps (g0 :: gr) eps = .ok (g0.length, F)) :
    fisherTotal [ps] [g0 :: gr] [w] eps = .ok (g0.length, addRows (zeroRows g0.length) (scaleRows w F)) := by
  unfold fisherTotal
  simp only [List.length_cons, List.length_nil, ne_eq, not_true_eq_false, if_false, List.any_cons,
    List.any_nil, Bool.or_false, decide_eq_true_eq, hw, List.zip_cons_cons, List.zip_nil_right]
  rw [fisherAcc_step _ _ _ _ _ _ _ _ F hF]
  simp [fisherAcc]
/-- C19 (`calc_fisher_matrix_total`, closed form of the loop): when every distribution's Fisher matrix has the accumulator's size, the loop
returns `acc + Σ_j w_j·F_j` (fold in list order), for any number of distributions. -/
theorem fisherAcc_value (size : Nat) (eps : K)
    (trip : List ((List K × List (List K)) × K × List (List K)))
    (h : ∀ t ∈ trip, fisher t.1.1 t.1.2 eps = .ok (size, t.2.2)) (acc : List (List K)) :
    fisherAcc size eps (trip.map (·.1)) (trip.map (·.2.1)) acc
      = .ok (trip.foldl (fun a t => addRows a (scaleRows t.2.1 t.2.2)) acc) := by
  induction trip generalizing acc with
  | nil => simp [fisherAcc]
  | cons t r ih =>
    obtain ⟨⟨ps, grads⟩, w, F⟩ := t
    simp only [List.map_cons, List.foldl_cons]
    rw [fisherAcc_step size eps ps grads _ w _ acc F (h _ (List.mem_cons_self ..))]
    exact ih (fun t ht => h t (List.mem_cons_of_mem _ ht)) _

/-- C19 (`calc_fisher_matrix_total`, value): for any number of distributions with non-negative weights whose single Fisher matrices are
`F_j` (all of the size `len(grad_prob_dists[0][0])`), the call returns `Σ_j w_j·F_j`. -/
theorem fisherTotal_value (eps : K) (g00 : List K) (g0r : List (List K)) (ps0 : List K) (w0 : K) (F0 : List (List K))
    (trip : List ((List K × List (List K)) × K × List (List K)))
    (hw : ∀ t ∈ ((ps0, g00 :: g0r), w0, F0) :: trip, ¬ t.2.1 < 0)
    (h : ∀ t ∈ ((ps0, g00 :: g0r), w0, F0) :: trip, fisher t.1.1 t.1.2 eps = .ok (g00.length, t.2.2)) :
    fisherTotal (ps0 :: trip.map (·.1.1)) ((g00 :: g0r) :: trip.map (·.1.2)) (w0 :: trip.map (·.2.1)) eps
      = .ok (g00.length, (((ps0, g00 :: g0r), w0, F0) :: trip).foldl
          (fun a t => addRows a (scaleRows t.2.1 t.2.2)) (zeroRows g00.length)) := by
  unfold fisherTotal
  have hneg : ((w0 :: trip.map (·.2.1)).any fun w => decide (w < 0)) = false := by
    rw [List.any_eq_false]
    intro w hw'
    have : ∃ t ∈ ((ps0, g00 :: g0r), w0, F0) :: trip, t.2.1 = w := by
      rcases List.mem_cons.mp hw' with rfl | hm
      · exact ⟨_, List.mem_cons_self .., rfl⟩
      · obtain ⟨t, ht, rfl⟩ := List.mem_map.mp hm
        exact ⟨t, List.mem_cons_of_mem _ ht, rfl⟩
    obtain ⟨t, ht, rfl⟩ := this
    simpa using hw t ht
  simp only [List.length_cons, List.length_map, ne_eq, not_true_eq_false, if_false, hneg, Bool.false_eq_true]
  have hz : (ps0 :: trip.map (·.1.1)).zip ((g00 :: g0r) :: trip.map (·.1.2))
      = (((ps0, g00 :: g0r), w0, F0) :: trip).map (·.1) := by
    have hz2 : ∀ l : List ((List K × List (List K)) × K × List (List K)),
        (l.map (·.1.1)).zip (l.map (·.1.2)) = l.map (·.1) := by
      intro l; induction l with
      | nil => rfl
      | cons t r ih => simp [ih]
    simp only [List.zip_cons_cons, List.map_cons, List.cons.injEq, true_and]
    exact hz2 trip
  have hws : w0 :: trip.map (·.2.1) = (((ps0, g00 :: g0r), w0, F0) :: trip).map (·.2.1) := by simp
  rw [hz, hws, fisherAcc_value g00.length eps _ h]
/-- all summands of `calc_fisher_matrix_total(var, weights)` computed: schedule `j` contributes `w_j · F_j` -/
theorem fisherQtTerms_value (matA : List (List K)) (vecB : List K) (numSched : Nat) (var ws : List K) (eps : K) (sv : Nat)
    (js : List Nat) (Fs : Nat → List (List K)) (w : Nat → K)
    (hw : ∀ j ∈ js, ws[j]? = some (w j))
    (hF : ∀ j ∈ js, fisherQt matA vecB numSched j var eps = .ok (sv, Fs j)) :
    js.mapM (fisherQtTerm matA vecB numSched var ws eps) = .ok (js.map fun j => (sv, scaleRows (w j) (Fs j))) := by
  induction js with
  | nil => rfl
  | cons j r ih =>
    have h1 : fisherQtTerm matA vecB numSched var ws eps j = .ok (sv, scaleRows (w j) (Fs j)) := by
      simp [fisherQtTerm, hw j (List.mem_cons_self ..), hF j (List.mem_cons_self ..), bind, Except.bind, pure, Except.pure, scaleRows]
    rw [List.mapM_cons, h1, ih (fun k hk => hw k (List.mem_cons_of_mem _ hk)) (fun k hk => hF k (List.mem_cons_of_mem _ hk))]
    rfl

/-- C19 (`StandardQTomography.calc_fisher_matrix_total`, value): with one weight per schedule and every schedule's Fisher matrix `F_j`
(of the common size `sv`), the call returns `w_0·F_0 + w_1·F_1 + …` (python `sum`), for any number `numSched ≥ 1` of schedules. -/
theorem fisherQtTotal_value (matA : List (List K)) (vecB : List K) (numSched : Nat) (var ws : List K) (eps : K) (sv : Nat)
    (Fs : Nat → List (List K)) (w : Nat → K)
    (hw : ∀ j < numSched + 1, ws[j]? = some (w j))
    (hF : ∀ j < numSched + 1, fisherQt matA vecB (numSched + 1) j var eps = .ok (sv, Fs j)) :
    fisherQtTotal matA vecB (numSched + 1) var ws eps
      = .ok (sv, ((List.range (numSched + 1)).tail.foldl (fun acc j => addRows acc (scaleRows (w j) (Fs j)))
          (scaleRows (w 0) (Fs 0)))) := by
  unfold fisherQtTotal
  rw [fisherQtTerms_value matA vecB (numSched + 1) var ws eps sv (List.range (numSched + 1)) Fs w
    (fun j hj => hw j (List.mem_range.mp hj)) (fun j hj => hF j (List.mem_range.mp hj))]
  simp only [bind, Except.bind]
  rw [List.range_succ_eq_map]
  simp only [List.map_cons, List.map_map, sumTerms, List.tail_cons, List.foldl_map]
  rfl
end totalValue

/-- C19 (`calc_direct_sum`, squareness): a block is accepted exactly when it is square. -/
theorem direct_sum_accepts_iff_square {K : Type} (k l : Nat) (B : Mat K k l) :
    (∃ b, dsCheckOne (⟨k, l, B⟩ : RBlock K) = .ok b) ↔ l = k := by
  unfold dsCheckOne
  by_cases h : l = k
  · simp [h]
  · simp [h]

-- two outcomes / three variables and two outcomes / one variable now give 3×3 and 1×1 matrices
example : (fisherTotal (K := Rat) [[1/2, 1/2]] [[[1, 2, 3], [-1, -2, -3]]] [1] (1/100000000)).toOption
    = some (3, [[4, 8, 12], [8, 16, 24], [12, 24, 36]]) := by
  decide +kernel
example : (fisherTotal (K := Rat) [[1/2, 1/2]] [[[1], [-1]]] [1] (1/100000000)).toOption = some (1, [[4]]) := by
  decide +kernel
-- a weights list of the wrong length is rejected
example : (fisherTotal (K := Rat) [[1/2, 1/2]] [[[1], [-1]]] [1, 1] (1/100000000)).toOption = none := by
  decide +kernel
-- a 2×1 block is rejected
example : (dsCheck (K := Rat) [⟨2, 1, Mat.ofFn fun i _ => (i.val : Rat) + 1⟩]).toOption.isNone = true := by
  decide +kernel

-- non-vacuity: concrete instances of the hypotheses
example : (matSQmpt (K := Rat) 2 2).toList.map (·.toList) = [[1, 0, 0, 0, 0, 0], [0, 1, 0, 0, 0, 0]] := by decide +kernel
example : covExact (K := Rat) (Vec.ofFn fun i : Fin 3 => if i.val = 2 then 1/2 else 1/4) 3
    = covMat (Vec.ofFn fun i : Fin 3 => if i.val = 2 then 1/2 else 1/4) 3 := by decide +kernel
example : (fisher (K := Rat) [1/4, 3/4] [[1, 2], [-1, -2]] (1/100000000)).toOption
    = some (2, [[16/3, 32/3], [32/3, 64/3]]) := by decide +kernel
example : mseLinearExact (K := Rat) (m := 2) (k := 1)
    [(Mat.ofFn fun _ j => (j.val : Rat) + 1, Vec.ofFn fun j => if j.val = 0 then 1/4 else 3/4, 2),
     (Mat.ofFn fun _ j => if j.val = 0 then 1 else 0, Vec.ofFn fun _ => 1/2, 3)] = 17/96 := by
  decide +kernel


-- further non-vacuity instances (hypotheses of the theorems above on concrete rational data)
/-- `left_inv_spec`: a 3×2 matrix of full column rank, rank 2, and the exact inverse of `AᵀA` -/
example : (leftInv (K := Rat) (Mat.ofFn (m := 3) (n := 2) fun i j => if i.val = j.val ∨ i.val = 2 then 1 else 0) 2
    (Mat.ofFn fun i j => if i = j then 2/3 else -1/3)).toOption.map (fun L => (L.mul
      (Mat.ofFn (m := 3) (n := 2) fun i j => if i.val = j.val ∨ i.val = 2 then (1 : Rat) else 0)).toList.map (·.toList))
    = some [[1, 0], [0, 1]] := by decide +kernel
/-- `mse_linear_var_exact`, code side: the same two-schedule instance as the enumeration example gives `17/96` -/
example : mseLinearVar (K := Rat)
    (covBlocks (uniArgs [(Vec.ofFn fun j : Fin 2 => if j.val = 0 then (1/4 : Rat) else 3/4, 2), (Vec.ofFn fun _ => 1/2, 3)]))
    (Mat.ofFn (m := 1) fun _ j => if j.val = 0 then 1 else if j.val = 1 then 2 else if j.val = 2 then 1 else 0) = 17/96 := by
  decide +kernel
/-- `mse_linear_povm_qop(_exact)`: `d² = 1`, three outcomes (two explicit elements), one schedule -/
example : (mseLinearPovmQop (K := Rat) (covBlocks [⟨2, Vec.ofFn fun _ => 1/2, 2⟩])
    (Mat.ofFn (m := (3 - 1) * 1) fun i j => if i.val = j.val then 1 else 0) 1 3).toOption = some (1/4) := by decide +kernel
/-- `crb_formula` / `crb_povm_formula`: a Fisher matrix and its exact inverse -/
example : (Mat.ofFn (m := 2) (n := 2) fun i j => if i = j then (1/2 : Rat) else 0).mul
    (Mat.ofFn fun i j => if i = j then 2 else 0) = Mat.one := by decide +kernel
example : crb (K := Rat) (Mat.ofFn (m := 2) (n := 2) fun i j => if i = j then 1/2 else 0) 10 = 1/10 := by decide +kernel
example : crbPovm (K := Rat) 1 3 (Mat.ofFn fun i j => if i = j then 1/2 else 0) 10 = 2/10 := by decide +kernel
/-- `replace_noop` / clipping active: probabilities above `eps` are kept, one below is replaced and the others shifted -/
example : replaceProbDist (K := Rat) [1/4, 3/4] (1/100) = [1/4, 3/4] := by decide +kernel
example : replaceProbDist (K := Rat) [0, 1/4, 3/4] (1/100) = [1/100, 1/4 - 1/200, 3/4 - 1/200] := by decide +kernel
/-- `fisherQt_block`: two schedules with two outcomes each; schedule 1 is computed from rows 2–3 -/
example : (fisherQt (K := Rat) [[1, 0], [-1, 0], [0, 1], [0, -1]] [1/2, 1/2, 1/4, 3/4] 2 1 [0, 0] defaultEps).toOption
    = (fisher (K := Rat) [1/4, 3/4] [[0, 1], [0, -1]] defaultEps).toOption := by decide +kernel
/-- sample statistics: one repetition has no standard deviation (numpy: nan), an empty list no mean; a length-1 array broadcasts -/
example : varDdof? (K := Rat) 1 [5] = none ∧ mean? (K := Rat) [] = none ∧
    (sqDist (K := Rat) [1, 2, 3] [1]).toOption = some 5 ∧ (sqDist (K := Rat) [1, 2, 3] [1, 2]).toOption = none := by
  decide +kernel
example : (mseProbDists (K := Rat) [[[1, 2]], [[3, 4]], [[0, 0]]] [[[1, 1]], [[1, 1]], [[1, 1]]]).toOption
    = some (some (16/3), some (133/3)) := by decide +kernel

/-- `fisherTotal_value`: two distributions, weights 2 and 3 -/
example : (fisherTotal (K := Rat) [[1/2, 1/2], [1/4, 3/4]] [[[1], [-1]], [[1], [-1]]] [2, 3] defaultEps).toOption
    = some (1, [[2 * 4 + 3 * (16/3)]]) := by decide +kernel
/-- `replace_sum`: one of three entries is clipped, the sum is the mass of the other two -/
example : lsum (replaceProbDist (K := Rat) [0, 1/4, 3/4] (1/100)) = 1/4 + 3/4 := by decide +kernel
/-- `cross_covariance_zero` on two schedules: E[(f¹₀ − p¹₀)(f²₁ − p²₁)] = 0 -/
example : expectJoint (K := Rat) [(Vec.ofFn fun i : Fin 2 => if i.val = 0 then (1/4 : Rat) else 3/4, 2), (Vec.ofFn fun _ => 1/2, 3)]
    (fun cs => match cs with
      | [c1, c2] => ((empi (K := Rat) c1 2).get 0 - 1/4) * ((empi (K := Rat) c2 3).get 1 - 1/2)
      | _ => 0) = 0 := by decide +kernel

/-- `fisherQtTotal_value`: two schedules with two outcomes each, weights 2 and 3 -/
example : (fisherQtTotal (K := Rat) [[1, 0], [-1, 0], [0, 1], [0, -1]] [1/2, 1/2, 1/4, 3/4] 2 [0, 0] [2, 3] defaultEps).toOption
    = some (2, [[2 * 4, 0], [0, 3 * (16/3)]]) := by decide +kernel

end QM.C19
