import QProofs.C16
import QProofs.C16Sum
import QProofs.C16Cond
import QProofs.C16Gen
import QProofs.C16Ens
import QProofs.C16Lay
import Mathlib.Tactic.FieldSimp
/-!
# C16 — property theorems (index maps, constructor normalisation)

All statements are unbounded in the number of variables and their sizes.
-/
namespace QM.C16

/-- every length positive, as a Bool test and as a Prop -/
theorem all_pos_iff (lens : List Nat) : lens.all (0 < ·) = true ↔ ∀ l ∈ lens, 0 < l := by
  simp [List.all_eq_true]

/-- C16.a `multi_in_range`: the multi-index has one entry per variable and each entry is in range. -/
theorem multi_in_range (lens : List Nat) (s : Nat) (mi : List Nat)
    (h : multiFromSerial lens s = some mi) :
    mi.length = lens.length ∧ ∀ p ∈ lens.zip mi, p.2 < p.1 := by
  unfold multiFromSerial at h
  split at h
  · rename_i hpos
    have hpos' := (all_pos_iff lens).1 hpos
    injection h with h; subst h
    refine ⟨by simp [multiRevLoop_length], ?_⟩
    have hz := multiRevLoop_lt lens.reverse s (by simpa using hpos')
    intro p hp
    have : p ∈ (lens.reverse.zip (multiRevLoop lens.reverse s)).reverse := by
      rw [reverse_zip (by simp [multiRevLoop_length])]; simpa using hp
    exact hz p (by simpa using this)
  · cases h

/-- the model rejects exactly the inputs on which Python divides by zero -/
theorem multi_none_iff (lens : List Nat) (s : Nat) :
    multiFromSerial lens s = none ↔ ∃ l ∈ lens, l = 0 := by
  unfold multiFromSerial
  split
  · rename_i h
    simp only [reduceCtorEq, false_iff, not_exists, not_and]
    intro l hl h0
    have := (all_pos_iff lens).1 h l hl; omega
  · rename_i h
    simp only [true_iff]
    have : ¬ ∀ l ∈ lens, 0 < l := fun hh => h ((all_pos_iff lens).2 hh)
    apply Classical.byContradiction
    intro hc
    exact this fun l hl => Nat.pos_of_ne_zero fun h0 => hc ⟨l, hl, h0⟩

/-- C16.b `serial_multi`: serial → multi → serial is the identity on `[0, ∏ lens)`
(in general it reduces modulo `∏ lens`). -/
theorem serial_of_multi_of_serial (lens : List Nat) (s : Nat) (mi : List Nat)
    (h : multiFromSerial lens s = some mi) :
    serialFromMulti lens mi = some (s % prod lens) := by
  have hr := multi_in_range lens s mi h
  unfold multiFromSerial at h
  split at h
  · injection h with h; subst h
    unfold serialFromMulti
    rw [if_neg (by simp [multiRevLoop_length])]
    rw [reverse_zip (by simp [multiRevLoop_length])]
    simp only [List.reverse_reverse, serialRevLoop_eq, Nat.zero_add, Nat.one_mul, val_digits,
      prod_reverse]
  · cases h

theorem serial_of_multi_of_serial_lt (lens : List Nat) (s : Nat) (mi : List Nat)
    (h : multiFromSerial lens s = some mi) (hs : s < prod lens) :
    serialFromMulti lens mi = some s := by
  rw [serial_of_multi_of_serial lens s mi h, Nat.mod_eq_of_lt hs]

/-- C16.c `multi_serial`: multi → serial → multi is the identity on in-range multi-indices,
and the serial index is in range. -/
theorem multi_of_serial_of_multi (lens idx : List Nat) (hlen : lens.length = idx.length)
    (hr : ∀ p ∈ lens.zip idx, p.2 < p.1) :
    ∃ s, serialFromMulti lens idx = some s ∧ s < prod lens ∧
      multiFromSerial lens s = some idx := by
  have hlen' : lens.reverse.length = idx.reverse.length := by simpa using hlen
  have hr' : ∀ p ∈ lens.reverse.zip idx.reverse, p.2 < p.1 := by
    intro p hp
    rw [← reverse_zip hlen] at hp
    exact hr p (by simpa using hp)
  refine ⟨val (lens.reverse.zip idx.reverse), ?_, ?_, ?_⟩
  · unfold serialFromMulti
    rw [if_neg (by simpa using hlen), reverse_zip hlen]
    simp [serialRevLoop_eq]
  · have := val_lt _ _ hlen' hr'
    rwa [prod_reverse] at this
  · unfold multiFromSerial
    have hpos : lens.all (0 < ·) = true := by
      rw [all_pos_iff]
      intro l hl
      obtain ⟨i, hi, rfl⟩ := List.mem_iff_getElem.1 hl
      have := hr (lens[i], idx[i]'(hlen ▸ hi))
        (by
          rw [List.mem_iff_getElem]
          exact ⟨i, by simpa [List.length_zip, ← hlen] using hi, by simp⟩)
      simp at this; omega
    rw [if_pos hpos, digits_val _ _ hlen' hr']
    simp

/-- C16.d `serial_row_major`: the first variable is the slowest one. -/
theorem serial_row_major (l i : Nat) (ls is : List Nat) (hlen : ls.length = is.length) :
    ∃ s, serialFromMulti ls is = some s ∧
      serialFromMulti (l :: ls) (i :: is) = some (i * prod ls + s) := by
  refine ⟨val (ls.reverse.zip is.reverse), ?_, ?_⟩
  · unfold serialFromMulti
    rw [if_neg (by simpa using hlen), reverse_zip hlen]
    simp [serialRevLoop_eq]
  · unfold serialFromMulti
    rw [if_neg (by simpa using hlen)]
    simp only [List.zip_cons_cons, List.reverse_cons, serialRevLoop_eq, Nat.zero_add, Nat.one_mul,
      val_append, val, Nat.mul_zero, Nat.add_zero]
    rw [reverse_zip hlen, prodFst_zip _ _ (by simpa using hlen), prod_reverse]
    congr 1
    rw [Nat.add_comm, Nat.mul_comm]

/-! ## constructor -/

/-- C16.e `normalised_after_ctor`: a successfully constructed distribution is either flagged as the
zero distribution or passes `validate_prob_dist` with sum check (|Σ − 1| ≤ 1e-8, no entry below −1e-8);
its shape is the requested one and the number of entries matches it. -/
theorem ctor_ok (ps : List Rat) (shape : List Nat) (eps : Rat) (d : Dist)
    (h : ctor ps shape eps = .ok d) :
    d.shape = shape ∧ d.ps.length = prod shape ∧
      (d.isZero = true ∨ validate d.ps true = .ok ()) := by
  unfold ctor at h
  simp only [bind, Except.bind, pure, Except.pure] at h
  split at h
  · cases h
  · split at h
    · cases h
    · split at h
      · cases h
      · rename_i hsz
        split at h
        · split at h
          · cases h
          · rename_i hv
            injection h with h; subst h
            refine ⟨rfl, ?_, ?_⟩
            · simp only []; split <;> simp_all
            · right
              cases hv' : validate _ true with
              | error e => simp_all
              | ok u => rfl
        · rename_i hz
          injection h with h; subst h
          refine ⟨rfl, ?_, ?_⟩
          · simp only []; split <;> simp_all
          · left; simpa using hz

/-- the zero-distribution flag means every input entry was below the threshold, and then every
stored entry is 0 -/
theorem ctor_zero (ps : List Rat) (shape : List Nat) (eps : Rat) (d : Dist)
    (h : ctor ps shape eps = .ok d) (hz : d.isZero = true) :
    (∀ p ∈ ps, p < eps) ∧ ∀ q ∈ d.ps, q = 0 := by
  unfold ctor at h
  simp only [bind, Except.bind, pure, Except.pure] at h
  repeat (split at h <;> try cases h)
  all_goals
    simp only at hz
    simp_all
  intro q hq
  have hne : ¬ (∃ x, x ∈ ps ∧ eps ≤ x) := fun ⟨x, hx, hn⟩ => absurd (hz x hx) (not_lt.mpr hn)
  rw [if_neg (fun hh => hne hh.1)] at hq
  simp only [List.mem_map] at hq
  obtain ⟨p, hp, rfl⟩ := hq
  simp [hz p hp]

/-! ## marginals -/

/-- C16.f `marginal_total`: summing out variables preserves the total mass, for every shape, every
tensor of matching size and every set of retained variables (the raw `np.sum(..., axis=removed)`
step of `marginalize`, before the constructor's thresholding). -/
theorem marginal_total (ps : List Rat) (shape keep : List Nat) (hlen : ps.length = prod shape) :
    rsum (marginalRaw ps shape keep).2 = rsum ps := by
  unfold marginalRaw
  simp only []
  have h := rsum_partition ((allMulti shape).zip ps) (fun x => project x.1 keep) Prod.snd
    (allMulti (project shape keep)) (allMulti_nodup _)
    (by
      intro x hx
      exact project_mem_allMulti (List.of_mem_zip hx).1 keep)
  rw [List.map_snd_zip (by rw [allMulti_length, hlen])] at h
  rw [← h]

/-- the marginal has one entry per multi-index of the retained variables, whose sizes are the
retained entries of the shape in ascending position order -/
theorem marginal_shape (ps : List Rat) (shape keep : List Nat) :
    (marginalRaw ps shape keep).1 = project shape keep ∧
    (marginalRaw ps shape keep).2.length = prod (project shape keep) := by
  simp [marginalRaw, allMulti_length]

/-- C16.g `joint_eq_marginal_mul_conditional` (one conditioning variable): the mass of the slice
`x_i = v` that `conditionalize([i],[v])` renormalises by is exactly entry `v` of the marginal of
variable `i`.  Hence every entry of the joint equals marginal × conditional whenever that mass is
non-zero (`conditional_entry` below).  Unbounded in the number and sizes of the variables. -/
theorem conditional_mass_eq_marginal (ps : List Rat) (shape : List Nat) (i v : Nat)
    (hlen : ps.length = prod shape) (hi : i < shape.length) (hv : v < shape[i]) :
    (marginalRaw ps shape [i]).2[v]? = some (rsum (conditionalRaw ps shape [i] [v]).2) := by
  unfold marginalRaw conditionalRaw
  simp only []
  rw [project_single i shape hi, allMulti_single, List.map_map, List.getElem?_map,
    List.getElem?_range hv]
  simp only [Option.map_some, Function.comp]
  congr 2
  apply List.filterMap_congr
  intro x hx
  have hmem := (List.of_mem_zip hx).1
  have hl : i < x.1.length := by rw [length_of_mem_allMulti hmem]; exact hi
  rw [project_single i x.1 hl]
  by_cases h : x.1[i] = v
  · simp [h, (matchesCond_single x.1 i v hl).2 h]
  · have : matchesCond x.1 [i] [v] = false := by
      cases hm : matchesCond x.1 [i] [v] with
      | false => rfl
      | true => exact absurd ((matchesCond_single x.1 i v hl).1 hm) h
    simp [h, this]

/-- joint = marginal × conditional, entrywise: dividing a slice entry by the slice mass `s` and
multiplying by the marginal entry (= `s`) gives the joint entry back. -/
theorem conditional_entry (p s : Rat) (hs : s ≠ 0) : s * (p / s) = p := by
  field_simp

/-- C16.i `ProbDist` tuple access is row-major: the model does what the code does — reshape, then index the leading axis, then the
next one, … (`sliceGet`: index `i` selects the block `ps[i·∏rest : (i+1)·∏rest]`) — and for an in-range multi-index that iterated
slicing returns the entry at the serial index `i₀·(n₁⋯n_k) + …`, i.e. the entry the index maps of C16.a–d address (so
`dist[(i,j,…)]`, `dist[serial]` and `ps.reshape(shape)[idx]` agree). -/
theorem probDistGet_row_major (ps : List Rat) (shape idx : List Nat) (hps : ps.length = prod shape)
    (hlen : shape.length = idx.length) (hr : ∀ p ∈ shape.zip idx, p.2 < p.1) :
    ∃ s, serialFromMulti shape idx = some s ∧ s < ps.length ∧ probDistGet ps shape idx = ps[s]? := by
  refine ⟨_, serial_some shape idx hlen, by rw [hps]; exact val_lt' shape idx hlen hr, ?_⟩
  unfold probDistGet
  rw [if_neg (by omega), if_neg (by omega)]
  exact sliceGet_eq_serial ps shape idx hlen hr

/-- out-of-range or wrong-length tuples are rejected (IndexError), never wrapped into another entry -/
theorem probDistGet_rejects (ps : List Rat) (l i : Nat) (ls is : List Nat) (hi : l ≤ i) :
    probDistGet ps (l :: ls) (i :: is) = none := by
  unfold probDistGet
  split
  · rfl
  · split
    · rfl
    · simp [sliceGet, Nat.not_lt.mpr hi]

-- non-vacuity: concrete instances of the hypotheses
example : probDistGet [1/6, 1/6, 1/6, 1/12, 1/12, 1/3] [2, 3] [1, 2] = some (1/3) := by decide +kernel
example : marginalRaw [1/8, 1/8, 1/4, 1/2] [2, 2] [1] = ([2], [3/8, 5/8]) := by decide +kernel
example : multiFromSerial [2, 3, 4] 17 = some [1, 1, 1] := by decide
example : serialFromMulti [2, 3, 4] [1, 1, 1] = some 17 := by decide
example : (ctor [1/2, 0, 1/2] [3] epsValidate).toOption = some ⟨[1/2, 0, 1/2], [3], false⟩ := by
  decide +kernel

/-- C16.h `joint_eq_marginal_mul_conditional` (any set of conditioning variables): for a strictly
ascending, in-range list `idxs` of conditioning variables and an in-range assignment `vals` of
them, the mass of the slice `x_{idxs} = vals` that `conditionalize(idxs, vals)` renormalises by is
exactly the entry of the marginal of the variables `idxs` that belongs to the multi-index `vals`
(the marginal's entries are listed in the order of `allMulti (project shape idxs)`).  Hence every
entry of the joint equals marginal × conditional whenever that mass is non-zero
(`conditional_entry`).  Unbounded in the number and sizes of the variables and in the number of
conditioning variables.  (`_hlen` is the constructor's size guard; the identity itself does not
depend on it.)  NOT covered by this theorem: conditioning lists given in another order (`[2, 0]`), which the code accepts and
which `marginalize` would list in ascending variable order — those are compared with the implementation by the correspondence
check (every permutation of every subset) and the oracle only. -/
theorem conditional_mass_eq_marginal_multi (ps : List Rat) (shape idxs vals : List Nat)
    (_hlen : ps.length = prod shape) (hasc : idxs.Pairwise (· < ·))
    (hr : ∀ i ∈ idxs, i < shape.length) (hv : vals ∈ allMulti (project shape idxs)) :
    (vals, rsum (conditionalRaw ps shape idxs vals).2) ∈
      (allMulti (project shape idxs)).zip (marginalRaw ps shape idxs).2 := by
  have hvl : vals.length = idxs.length := by
    rw [length_of_mem_allMulti hv, project_length shape idxs hasc hr]
  have hcond : rsum (conditionalRaw ps shape idxs vals).2 =
      (fun o => rsum (((allMulti shape).zip ps).filterMap fun x =>
        if project x.1 idxs = o then some x.2 else none)) vals := by
    unfold conditionalRaw
    simp only []
    congr 1
    apply List.filterMap_congr
    intro x hx
    have hmem := (List.of_mem_zip hx).1
    have hl : ∀ i ∈ idxs, i < x.1.length := by
      intro i hi; rw [length_of_mem_allMulti hmem]; exact hr i hi
    have hiff := matchesCond_iff_project x.1 idxs vals hasc hl hvl
    by_cases h : project x.1 idxs = vals
    · simp [h, hiff.2 h]
    · have : matchesCond x.1 idxs vals = false := by
        cases hm : matchesCond x.1 idxs vals with
        | false => rfl
        | true => exact absurd (hiff.1 hm) h
      simp [h, this]
  rw [hcond]
  exact mem_zip_map_self (allMulti (project shape idxs)) _ vals hv

-- non-vacuity of C16.h: 2×2×2 tensor, conditioning on variables 0 and 2 (x0 = 1, x2 = 0)
example : ([1, 0], rsum (conditionalRaw [1/16, 1/16, 1/8, 1/4, 1/16, 3/16, 1/8, 1/8] [2, 2, 2]
      [0, 2] [1, 0]).2) ∈
    (allMulti (project [2, 2, 2] [0, 2])).zip
      (marginalRaw [1/16, 1/16, 1/8, 1/4, 1/16, 3/16, 1/8, 1/8] [2, 2, 2] [0, 2]).2 :=
  conditional_mass_eq_marginal_multi _ [2, 2, 2] [0, 2] [1, 0] (by decide +kernel)
    (by decide +kernel) (by decide +kernel) (by decide +kernel)
example : marginalRaw [1/16, 1/16, 1/8, 1/4, 1/16, 3/16, 1/8, 1/8] [2, 2, 2] [0, 2]
    = ([2, 2], [3/16, 5/16, 3/16, 5/16]) := by decide +kernel
example : conditionalRaw [1/16, 1/16, 1/8, 1/4, 1/16, 3/16, 1/8, 1/8] [2, 2, 2] [0, 2] [1, 0]
    = ([2], [1/16, 1/8]) := by decide +kernel

/-! ## the enumeration behind marginals and conditionals IS the serial layout of C16.a–d -/

/-- C16.m `marginalRaw` / `conditionalRaw` pair the probability vector with `allMulti shape`; that enumeration is the row-major
layout: its `k`-th element is the multi-index of serial index `k` (so the sums and slices of C16.f–h are taken over the very
positions the index maps address), for every shape. -/
theorem allMulti_is_serial_layout (shape : List Nat) (k : Nat) (hk : k < prod shape) :
    (allMulti shape)[k]? = multiFromSerial shape k ∧ (allMulti shape).length = prod shape := by
  obtain ⟨mi, h1, h2, h3, h4⟩ := allMulti_serial shape k hk
  obtain ⟨s, hs, _, hm⟩ := multi_of_serial_of_multi shape mi h2 h3
  have : s = k := Option.some.inj (hs.symm.trans h4)
  subst this
  exact ⟨h1.trans hm.symm, allMulti_length shape⟩

example : (allMulti [2, 3])[4]? = some [1, 1] ∧ multiFromSerial [2, 3] 4 = some [1, 1] := by decide

/-- C16.f (entries) entry `t` of the raw marginal, in terms of SERIAL indices of the joint tensor: it is the sum of the joint entries `ps[s]`
over those serial positions `s` whose multi-index (index map of C16.a) projects onto the `t`-th multi-index of the retained variables -/
theorem marginalRaw_entry_serial (ps : List Rat) (shape keep : List Nat) (hlen : ps.length = prod shape) (t : Nat) :
    (marginalRaw ps shape keep).2[t]? = ((allMulti (project shape keep))[t]?).map fun o =>
      rsum ((List.range (prod shape)).filterMap fun s =>
        match multiFromSerial shape s, ps[s]? with
        | some mi, some p => if project mi keep = o then some p else none
        | _, _ => none) := by
  unfold marginalRaw
  simp only [List.getElem?_map]
  congr 1
  funext o
  congr 1
  rw [zip_eq_range_map _ _ (by rw [allMulti_length, hlen]), List.filterMap_filterMap, allMulti_length]
  apply filterMap_congr'
  intro s hs
  have hs' : s < prod shape := by simpa using hs
  rw [(allMulti_is_serial_layout shape s hs').1]
  cases hm : multiFromSerial shape s with
  | none => simp
  | some mi =>
    cases hp : ps[s]? with
    | none => simp
    | some p => simp

example : (marginalRaw [1/8, 1/8, 1/4, 1/2] [2, 2] [1]).2[1]? = some (1/8 + 1/2) := by decide +kernel

/-- C16.g (entries) the raw conditional slice in terms of SERIAL positions of the joint tensor: it lists, in ascending serial order,
the joint entries `ps[s]` whose multi-index (index map of C16.a) agrees with the conditioning assignment -/
theorem conditionalRaw_entries_serial (ps : List Rat) (shape idxs vals : List Nat) (hlen : ps.length = prod shape) :
    (conditionalRaw ps shape idxs vals).2 =
      (List.range (prod shape)).filterMap fun s =>
        match multiFromSerial shape s, ps[s]? with
        | some mi, some p => if matchesCond mi idxs vals then some p else none
        | _, _ => none := by
  unfold conditionalRaw
  simp only
  rw [zip_eq_range_map _ _ (by rw [allMulti_length, hlen]), List.filterMap_filterMap, allMulti_length]
  apply filterMap_congr'
  intro s hs
  have hs' : s < prod shape := by simpa using hs
  rw [(allMulti_is_serial_layout shape s hs').1]
  cases hm : multiFromSerial shape s with
  | none => simp
  | some mi =>
    cases hp : ps[s]? with
    | none => simp
    | some p => simp
example : (conditionalRaw [1/8, 1/8, 1/4, 1/2] [2, 2] [0] [1]).2 = [1/4, 1/2] := by decide +kernel

/-! ## what the constructor stores -/

/-- C16.e (entries) a successfully constructed distribution stores the thresholded entries — unchanged when nothing was below the
threshold or everything was, otherwise divided by their sum — in the input order; nothing else. -/
theorem ctor_entries (ps : List Rat) (shape : List Nat) (eps : Rat) (d : Dist)
    (h : ctor ps shape eps = .ok d) :
    d.ps = (if (!(ps.all fun p => p < eps) && ps.any fun p => p < eps)
              then (zeroedOf ps eps).map (· / rsum (zeroedOf ps eps)) else zeroedOf ps eps) ∧
    d.isZero = ps.all fun p => p < eps := by
  unfold ctor at h
  simp only [bind, Except.bind, pure, Except.pure] at h
  repeat (split at h <;> try cases h)
  all_goals exact ⟨rfl, rfl⟩

/-- liveness, identity case: non-negative entries none of which is below the threshold, matching the shape and summing to 1
(within 1e-8) are accepted and stored unchanged. -/
theorem ctor_identity (ps : List Rat) (shape : List Nat) (eps : Rat)
    (hshape : shape ≠ []) (hlen : ps.length = prod shape)
    (hge : ∀ p ∈ ps, eps ≤ p) (hnn : ∀ p ∈ ps, 0 ≤ p) (hne : ps ≠ [])
    (hsum : rabs (rsum ps - 1) ≤ epsValidate) :
    ctor ps shape eps = .ok ⟨ps, shape, false⟩ := by
  have hz : zeroedOf ps eps = ps := by
    unfold zeroedOf
    conv => rhs; rw [← List.map_id ps]
    apply List.map_congr_left
    intro p hp
    simp [not_lt.mpr (hge p hp)]
  have hall : (ps.all fun p => decide (p < eps)) = false := by
    obtain ⟨p, hp⟩ := List.exists_mem_of_ne_nil ps hne
    rw [List.all_eq_false]
    exact ⟨p, hp, by simpa using hge p hp⟩
  have hany : (ps.any fun p => decide (p < eps)) = false := by
    rw [List.any_eq_false]
    intro p hp
    simpa using hge p hp
  have hneg : (ps.any fun p => decide (p < 0) && !decide (rabs p ≤ epsValidate)) = false := by
    rw [List.any_eq_false]
    intro p hp
    simp [not_lt.mpr (hnn p hp)]
  have hv1 : validate ps false = .ok () := by simp [validate, hneg]
  have hv2 : validate ps true = .ok () := by simp [validate, hneg, hsum]
  unfold ctor
  have hz' : (ps.map fun p => if p < eps then 0 else p) = ps := hz
  simp only [bind, Except.bind, pure, Except.pure, hv1, hall, hany, hz', List.isEmpty_iff, hshape, hlen,
    Bool.not_false, Bool.and_false, Bool.false_eq_true, if_false, if_true, ne_eq, not_true_eq_false, hv2]

example : ctor [1/2, 1/4, 1/4] [3] epsValidate = .ok ⟨[1/2, 1/4, 1/4], [3], false⟩ :=
  ctor_identity _ _ _ (by decide) (by decide) (by decide +kernel) (by decide +kernel) (by decide) (by decide +kernel)

/-- C16.f/l `marginalize` returns exactly the constructor's result on the raw sums over the removed variables, arranged by
ascending retained variable; its only other outcomes are the two validation errors. -/
theorem marginalize_is_ctor_of_raw (d : Dist) (remain : List Nat) :
    marginalize d remain = .error .outOfRange ∨ marginalize d remain = .error .duplicate ∨
    marginalize d remain = ctor (marginalRaw d.ps d.shape remain).2 (marginalRaw d.ps d.shape remain).1 epsValidate := by
  unfold marginalize
  simp only [bind, Except.bind]
  cases hv : margValidate d.shape.length remain [] with
  | ok u => right; right; rfl
  | error e =>
    have : ∀ (l seen : List Nat) (e : Err), margValidate d.shape.length l seen = .error e → e = .outOfRange ∨ e = .duplicate := by
      intro l
      induction l with
      | nil => intro seen e h; simp [margValidate] at h
      | cons i rest ih =>
        intro seen e h
        unfold margValidate at h
        split at h
        · injection h with h; exact Or.inl h.symm
        · split at h
          · injection h with h; exact Or.inr h.symm
          · exact ih _ _ h
    rcases this _ _ _ hv with rfl | rfl
    · left; rfl
    · right; left; rfl

/-- C16.g/l `conditionalize`, once its arguments pass validation and the slice has non-zero mass `s`, returns exactly the
constructor's result on the slice divided by `s`. -/
theorem conditionalize_is_ctor_of_scaled_raw (d : Dist) (idxs vals : List Nat) (d' : Dist)
    (h : conditionalize d idxs vals = .ok d') :
    rsum (conditionalRaw d.ps d.shape idxs vals).2 ≠ 0 ∧
    ctor ((conditionalRaw d.ps d.shape idxs vals).2.map (· / rsum (conditionalRaw d.ps d.shape idxs vals).2))
      (conditionalRaw d.ps d.shape idxs vals).1 epsValidate = .ok d' := by
  unfold conditionalize at h
  simp only [bind, Except.bind] at h
  repeat (split at h <;> try cases h)
  rename_i hs
  exact ⟨hs, h⟩

/-- joint = marginal × conditional, entrywise: multiplying the renormalised slice by the slice mass `s` (which is the marginal
probability of the conditioning event, `conditional_mass_eq_marginal(_multi)`) gives back the joint entries of the slice, in order. -/
theorem conditional_times_marginal (raw : List Rat) (s : Rat) (hs : s ≠ 0) :
    (raw.map (· / s)).map (s * ·) = raw := by
  rw [List.map_map]
  conv => rhs; rw [← List.map_id raw]
  apply List.map_congr_left
  intro p _
  simp only [Function.comp, id]
  field_simp

example : ∃ d, ctor [1/1000000000, 0] [2] epsValidate = .ok d ∧ d.isZero = true :=
  ⟨⟨[0, 0], [2], true⟩, by decide +kernel, rfl⟩
example : (marginalRaw [1/6, 1/6, 1/6, 1/12, 1/12, 1/3] [2, 3] [1]).2[2]?
    = some (rsum (conditionalRaw [1/6, 1/6, 1/6, 1/12, 1/12, 1/3] [2, 3] [1] [2]).2) :=
  conditional_mass_eq_marginal _ [2, 3] 1 2 (by decide +kernel) (by decide) (by decide)

/-! ## marginals and conditionals "stay normalised with the documented zero threshold" -/

/-- C16.l whatever `marginalize` returns went through the constructor with the documented default threshold: it is either the flagged
zero distribution or passes the sum check (|Σ − 1| ≤ 1e-8), its shape is the projection of the shape onto the retained variables
(ascending), and it has one entry per multi-index of that shape. -/
theorem marginalize_normalised (d : Dist) (remain : List Nat) (d' : Dist)
    (h : marginalize d remain = .ok d') :
    d'.shape = project d.shape remain ∧ d'.ps.length = prod d'.shape ∧
      (d'.isZero = true ∨ validate d'.ps true = .ok ()) := by
  unfold marginalize at h
  simp only [bind, Except.bind] at h
  split at h
  · cases h
  · obtain ⟨h1, h2, h3⟩ := ctor_ok _ _ _ _ h
    refine ⟨by rw [h1]; rfl, by rw [h2, h1], h3⟩

/-- C16.l the same for `conditionalize`: a returned conditional is the flagged zero distribution or passes the sum check, over the
variables that were not conditioned on. -/
theorem conditionalize_normalised (d : Dist) (idxs vals : List Nat) (d' : Dist)
    (h : conditionalize d idxs vals = .ok d') :
    d'.shape = (conditionalRaw d.ps d.shape idxs vals).1 ∧ d'.ps.length = prod d'.shape ∧
      (d'.isZero = true ∨ validate d'.ps true = .ok ()) := by
  unfold conditionalize at h
  simp only [bind, Except.bind] at h
  repeat (split at h <;> try cases h)
  obtain ⟨h1, h2, h3⟩ := ctor_ok _ _ _ _ h
  exact ⟨h1, by rw [h2, h1], h3⟩

example : (marginalize ⟨[1/8, 1/8, 1/4, 1/2], [2, 2], false⟩ [1]).toOption = some ⟨[3/8, 5/8], [2], false⟩ := by decide +kernel
example : (conditionalize ⟨[1/8, 1/8, 1/4, 1/2], [2, 2], false⟩ [0] [1]).toOption = some ⟨[1/3, 2/3], [2], false⟩ := by
  decide +kernel

/-! ## the definitions regenerated from /repo's source on this run (`QGen/C16.lean`)

`harness/c16_translate.py` rewrites `QGen.C16.multiBody`, `serialBody`, their initial states, iteration / result directions,
the length guard and the numeric defaults from quara/utils/index_util.py, quara/math/probability.py and
quara/objects/multinomial_distribution.py on every run.  The theorems below are about those generated definitions: a source edit
that changes the arithmetic, a direction, the guard, a default or a tolerance makes one of them fail to check. -/

/-- C16.j the generated `index_multi_dimensional_from_index_serial` computes the model's multi-index, for every shape and serial
index the real function accepts (Python raises ZeroDivisionError exactly where the model returns `none`: `multi_none_iff`). -/
theorem generated_multi_agrees (lens : List Nat) (s : Nat) (mi : List Nat)
    (h : multiFromSerial lens s = some mi) :
    QGen.C16.multiFromSerial (lens.map Int.ofNat) (Int.ofNat s) = mi.map Int.ofNat := by
  unfold multiFromSerial at h
  split at h
  · injection h with h; subst h; exact gen_multiFromSerial lens s
  · cases h

/-- C16.j the generated `index_serial_from_index_multi_dimensional` is the model's, including the ValueError branch. -/
theorem generated_serial_agrees (lens idx : List Nat) :
    QGen.C16.serialFromMulti (lens.map Int.ofNat) (idx.map Int.ofNat)
      = (serialFromMulti lens idx).map Int.ofNat :=
  gen_serialFromMulti lens idx

/-- C16.b on the generated code: serial → multi → serial is the identity on `[0, ∏ lens)`, every shape with positive sizes. -/
theorem generated_serial_of_multi (lens : List Nat) (hpos : ∀ l ∈ lens, 0 < l) (s : Nat) (hs : s < prod lens) :
    QGen.C16.serialFromMulti (lens.map Int.ofNat)
        (QGen.C16.multiFromSerial (lens.map Int.ofNat) (Int.ofNat s)) = some (Int.ofNat s) := by
  have hm : multiFromSerial lens s = some (multiRevLoop lens.reverse s).reverse := by
    unfold multiFromSerial; rw [if_pos ((all_pos_iff lens).2 hpos)]
  rw [generated_multi_agrees lens s _ hm, generated_serial_agrees,
    serial_of_multi_of_serial_lt lens s _ hm hs]
  rfl

/-- C16.c on the generated code: multi → serial → multi is the identity on in-range multi-indices and the serial index is in range. -/
theorem generated_multi_of_serial (lens idx : List Nat) (hlen : lens.length = idx.length)
    (hr : ∀ p ∈ lens.zip idx, p.2 < p.1) :
    ∃ s : Nat, QGen.C16.serialFromMulti (lens.map Int.ofNat) (idx.map Int.ofNat) = some (Int.ofNat s) ∧ s < prod lens ∧
      QGen.C16.multiFromSerial (lens.map Int.ofNat) (Int.ofNat s) = idx.map Int.ofNat := by
  obtain ⟨s, h1, h2, h3⟩ := multi_of_serial_of_multi lens idx hlen hr
  exact ⟨s, by rw [generated_serial_agrees, h1]; rfl, h2, generated_multi_agrees lens s idx h3⟩

/-- the generated defaults and tolerances are the ones the model (and the statement of the property: "the documented zero threshold")
uses: validate_prob_dist's default eps 1e-8 compared absolutely (rtol 0) at both sites, the constructor's default zero threshold 1e-8,
first validation without the sum test, second with it. -/
theorem generated_constants :
    QGen.C16.validateEpsDefault = epsValidate ∧ QGen.C16.validateNegRtol = 0 ∧ QGen.C16.validateSumRtol = 0 ∧
    QGen.C16.epsZeroDefault = mkRat 1 100000000 ∧
    QGen.C16.ctorValidateSumFirst = false ∧ QGen.C16.ctorValidateSumSecond = true := by
  decide +kernel

/-- the threshold the constructor uses: the caller's value when it is given and non-zero, otherwise (omitted, `None`, `0`, `0.0`) the
documented default 1e-8 — about the generated default. -/
theorem resolveEpsZero_spec (e : Option Rat) :
    resolveEpsZero e = (match e with
      | none => mkRat 1 100000000
      | some x => if x = 0 then mkRat 1 100000000 else x) := by
  have h : QGen.C16.epsZeroDefault = mkRat 1 100000000 := generated_constants.2.2.2.1
  unfold resolveEpsZero
  cases e with
  | none => simp [h]
  | some x => simp [h]

example : resolveEpsZero (some (mkRat 1 1000)) = mkRat 1 1000 := by decide +kernel
example : QGen.C16.multiFromSerial [2, 3, 4] 17 = [1, 1, 1] := by decide
example : QGen.C16.serialFromMulti [2, 3, 4] [1, 1, 1] = some 17 := by decide
example : QGen.C16.serialFromMulti [2, 3, 4] [1, 1] = none := by decide
example : (∀ l ∈ [2, 3, 4], 0 < l) ∧ 17 < prod [2, 3, 4] := by decide

/-! ## state ensembles produced by measurements index states and probabilities with the same layout -/

/-- C16.k `StateEnsemble.state(outcome)` with a tuple outcome of an ensemble whose shape is `shape2 ++ shape1` (old ensemble's
shape followed by the instrument's shape, as `_compose_qoperations_MProcess_StateEnsemble` sets it) and whose members were
appended block by block (`states.extend(states_local)`, one block of `∏ shape1` members per old member): the member at
`mi2 ++ mi1` is member `mi1` of the block produced from old member `mi2`.  Any number of earlier measurements, any shapes. -/
theorem ensemble_after_measurement_layout {α β : Type} (old : List α) (f : α → List β)
    (shape2 shape1 mi2 mi1 : List Nat)
    (h2 : shape2.length = mi2.length) (h1 : shape1.length = mi1.length)
    (hr2 : ∀ p ∈ shape2.zip mi2, p.2 < p.1) (hr1 : ∀ p ∈ shape1.zip mi1, p.2 < p.1)
    (hold : old.length = prod shape2) (hblock : ∀ x ∈ old, (f x).length = prod shape1) :
    ∃ (i j : Nat) (hi : i < old.length), serialFromMulti shape2 mi2 = some i ∧ serialFromMulti shape1 mi1 = some j ∧
      ensGet (extendLoop old f) (shape2 ++ shape1) (mi2 ++ mi1) = (f old[i])[j]? := by
  have hi : val (shape2.reverse.zip mi2.reverse) < old.length := hold ▸ val_lt' shape2 mi2 h2 hr2
  have hj := val_lt' shape1 mi1 h1 hr1
  refine ⟨_, _, hi, serial_some shape2 mi2 h2, serial_some shape1 mi1 h1, ?_⟩
  unfold ensGet extendLoop
  rw [serial_some _ _ (by simp [h1, h2]), serial_append shape2 shape1 mi2 mi1 h2 h1]
  exact flatMap_block old f (prod shape1) hblock _ _ hi hj

/-- C16.k states and probabilities of such an ensemble are extended in lock step (`states.extend(states_local)`,
`ps.extend(ps_local)` with blocks of equal length), so the tuple outcome `mi2 ++ mi1` addresses in BOTH lists the entry that
local outcome `mi1` contributed for old member `mi2`: same layout. -/
theorem ensemble_states_probs_same_layout {α β γ : Type} (old : List α) (fs : α → List β) (fp : α → List γ)
    (shape2 shape1 mi2 mi1 : List Nat)
    (h2 : shape2.length = mi2.length) (h1 : shape1.length = mi1.length)
    (hr2 : ∀ p ∈ shape2.zip mi2, p.2 < p.1) (hr1 : ∀ p ∈ shape1.zip mi1, p.2 < p.1)
    (hold : old.length = prod shape2)
    (hs : ∀ x ∈ old, (fs x).length = prod shape1) (hp : ∀ x ∈ old, (fp x).length = prod shape1) :
    ∃ (i j : Nat) (hi : i < old.length),
      ensGet (extendLoop old fs) (shape2 ++ shape1) (mi2 ++ mi1) = (fs old[i])[j]? ∧
      ensGet (extendLoop old fp) (shape2 ++ shape1) (mi2 ++ mi1) = (fp old[i])[j]? := by
  obtain ⟨i, j, hi, e2, e1, hS⟩ := ensemble_after_measurement_layout old fs shape2 shape1 mi2 mi1 h2 h1 hr2 hr1 hold hs
  obtain ⟨i', j', hi', e2', e1', hP⟩ := ensemble_after_measurement_layout old fp shape2 shape1 mi2 mi1 h2 h1 hr2 hr1 hold hp
  have hii : i = i' := Option.some.inj (e2.symm.trans e2')
  have hjj : j = j' := Option.some.inj (e1.symm.trans e1')
  subst hii; subst hjj
  exact ⟨i, j, hi, hS, hP⟩

/-- C16.k product of two ensembles (`_tensor_product_StateEnsemble_StateEnsemble`: nested loops, shape = shape1 ++ shape2):
the member at `mi1 ++ mi2` is built from member `mi1` of the first and member `mi2` of the second ensemble. -/
theorem ensemble_product_layout {α β γ : Type} (xs : List α) (ys : List β) (g : α → β → γ)
    (shape1 shape2 mi1 mi2 : List Nat)
    (h1 : shape1.length = mi1.length) (h2 : shape2.length = mi2.length)
    (hr1 : ∀ p ∈ shape1.zip mi1, p.2 < p.1) (hr2 : ∀ p ∈ shape2.zip mi2, p.2 < p.1)
    (hx : xs.length = prod shape1) (hy : ys.length = prod shape2) :
    ∃ (i j : Nat) (hi : i < xs.length) (hj : j < ys.length),
      serialFromMulti shape1 mi1 = some i ∧ serialFromMulti shape2 mi2 = some j ∧
      ensGet (nestedLoop xs ys g) (shape1 ++ shape2) (mi1 ++ mi2) = some (g xs[i] ys[j]) := by
  obtain ⟨i, j, hi, e1, e2, h⟩ := ensemble_after_measurement_layout xs (fun x => ys.map (g x)) shape1 shape2 mi1 mi2
    h1 h2 hr1 hr2 hx (by intro x _; simp [hy])
  have hj : j < ys.length := by
    have := val_lt' shape2 mi2 h2 hr2
    rw [serial_some shape2 mi2 h2] at e2
    have hj' := Option.some.inj e2
    omega
  refine ⟨i, j, hi, hj, e1, e2, ?_⟩
  unfold nestedLoop; unfold extendLoop at h
  rw [h]; simp [hj]

example : ensGet (extendLoop [10, 20] fun x => [x, x + 1, x + 2]) ([2] ++ [3]) ([1] ++ [2]) = some 22 := by decide
example : ensGet (nestedLoop [1, 2, 3] [10, 20] fun a b => a + b) ([3] ++ [2]) ([2] ++ [1]) = some 23 := by decide
example : (∀ p ∈ [2].zip [1], p.2 < p.1) ∧ (∀ p ∈ [3].zip [2], p.2 < p.1) ∧ [10, 20].length = prod [2] := by decide

end QM.C16
