import QProofs.C08
import QProofs.C09
import QGen.C08
/-!
# C08 — tomography forward model = circuit Born-rule statistics (property theorems)

All statements are about the executed definitions of `QModel/C08.lean` and hold for every dimension
(`n` = length of the tester vectors), every number of outcomes, every tester list, every schedule list
(subsets, repetitions, permutations — schedules are arbitrary index lists) and both flags, over any field
`K` (in particular the executed `K = ℚ`), for **every** variable vector `var` of the right length
(the affine identities are proved symbolically, not on a basis).

`rowVal var (a, b) = a · var + b` is the prediction of one dictionary entry;
`predictRaw cs var` is `calc_matA() @ var + calc_vecB()`.
-/
namespace QM.C08

variable {K : Type}

/-- C08.order-a: `sorted(dict.items())` in `calc_matA / calc_vecB` leaves the loop order
`for schedule_index … for element_index …` unchanged. -/
theorem dict_sorted (per : List (List (List K × K))) : sortCoeffs (mkCoeffs per) = mkCoeffs per :=
  sortCoeffs_mkCoeffs per

/-- C08.order-b: the keys, in row order of matA / vecB, are `(0,0),(0,1),…,(1,0),…`: row block `s` belongs to
schedule `s` and has one row per outcome, in outcome order. -/
theorem dict_keys (per : List (List (List K × K))) :
    (sortCoeffs (mkCoeffs per)).map (·.key) =
      (per.zipIdx.map fun (rows, si) => (List.range rows.length).map fun x => (si, x)).flatten := by
  rw [dict_sorted, mkCoeffs_eq, coeffsFrom_keys]

/-- C08.order-c: `matA @ var + vecB` is the concatenation, schedule by schedule, of the entries' predictions. -/
theorem predictRaw_mkCoeffs [Field K] (per : List (List (List K × K))) (var : List K) :
    predictRaw (mkCoeffs per) var = (per.map fun rows => rows.map (rowVal var)).flatten := by
  unfold predictRaw
  rw [dict_sorted, mkCoeffs_eq]
  exact coeffsFrom_map 0 per (fun a b => ldot a var + b)

/-- C08.1 (QST, both flags): every entry `(s, x)` of the dictionaries predicts outcome `x` of the circuit
`state → povm_s` run on the state built from `var`; schedule by schedule, same order. No hypothesis on the testers or
on the schedule list.  Remark: the identity is about the truncating dot product `ldot` (`zipWith`): for a `var` whose
length is not `num_variables` both sides truncate alike, whereas numpy raises — that shape error is modelled by
`predict`; `qst_predict_ok` (and `povmt_ / qpt_ / qmpt_predict_ok`) is the variant with the length hypotheses on `predict`. -/
theorem qst_affine [Field K] (flag : Bool) (r : K) (povms : List (List (List K))) (scheds : List Nat)
    (cs : List (Coeff K)) (var : List K) (h : qstCoeffs flag r povms scheds = some cs) :
    ∃ per, cs = mkCoeffs per ∧
      qstCircuit flag r povms scheds var = some (per.map fun rows => rows.map (rowVal var)) := by
  unfold qstCoeffs at h
  simp only [Option.bind_eq_bind, Option.bind_eq_some_iff, Option.pure_def, Option.some.injEq] at h
  obtain ⟨per, hper, rfl⟩ := h
  refine ⟨per, rfl, ?_⟩
  unfold qstCircuit
  apply mapM_opt_lift _ _ (fun rows => rows.map (rowVal var)) _ scheds per hper
  intro pj rows hrows
  simp only [Option.bind_eq_bind, Option.bind_eq_some_iff] at hrows
  obtain ⟨povm, hp, hs⟩ := hrows
  simp [hp, qstSched_eq flag r povm var rows hs]

/-- C08.1 (POVMT, both flags): the same for `state_s → povm`, the POVM being built from `var`
(`m` outcomes, last element `I − Σ others` when flag). -/
theorem povmt_affine [Field K] (flag : Bool) (r : K) (n m : Nat) (states : List (List K))
    (scheds : List Nat) (cs : List (Coeff K)) (var : List K) (hm : 0 < m)
    (hstates : ∀ rho ∈ states, rho.length = n)
    (hvar : var.length = (if flag then m - 1 else m) * n)
    (h : povmtCoeffs flag r m states scheds = some cs) :
    ∃ per, cs = mkCoeffs per ∧
      povmtCircuit flag r n m states scheds var = some (per.map fun rows => rows.map (rowVal var)) := by
  unfold povmtCoeffs at h
  simp only [Option.bind_eq_bind, Option.bind_eq_some_iff, Option.pure_def, Option.some.injEq] at h
  obtain ⟨per, hper, rfl⟩ := h
  refine ⟨per, rfl, ?_⟩
  unfold povmtCircuit
  apply mapM_opt_lift _ _ (fun rows => rows.map (rowVal var)) _ scheds per hper
  intro i rows hrows
  simp only [Option.bind_eq_bind, Option.bind_eq_some_iff] at hrows
  obtain ⟨rho, hp, hs⟩ := hrows
  have hl : rho.length = n := hstates rho (List.mem_of_getElem? hp)
  subst hl
  simp [hp, povmtSched_eq flag r m rho var rows hm hvar hs]

/-- C08.1 (QPT, both flags): the same for `state_i → gate → povm_j`, the gate being built from `var`
(first row `e₀` when flag). -/
theorem qpt_affine [Field K] (flag : Bool) (n : Nat) (states : List (List K))
    (povms : List (List (List K))) (scheds : List (Nat × Nat)) (cs : List (Coeff K)) (var : List K)
    (hstates : ∀ rho ∈ states, rho.length = n)
    (hvar : var.length = (if flag then n - 1 else n) * n)
    (h : qptCoeffs flag states povms scheds = some cs) :
    ∃ per, cs = mkCoeffs per ∧
      qptCircuit flag n states povms scheds var = some (per.map fun rows => rows.map (rowVal var)) := by
  unfold qptCoeffs at h
  simp only [Option.bind_eq_bind, Option.bind_eq_some_iff, Option.pure_def, Option.some.injEq] at h
  obtain ⟨per, hper, rfl⟩ := h
  refine ⟨per, rfl, ?_⟩
  unfold qptCircuit
  apply mapM_opt_lift _ _ (fun rows => rows.map (rowVal var)) _ scheds per hper
  rintro ⟨i, j⟩ rows hrows
  simp only [Option.bind_eq_bind, Option.bind_eq_some_iff] at hrows
  obtain ⟨rho, hp, povm, hq, hs⟩ := hrows
  have hl : rho.length = n := hstates rho (List.mem_of_getElem? hp)
  subst hl
  simp [hp, hq, qptSched_eq flag rho povm var rows hvar hs]

/-- C08.1 (QMPT, both flags): the same for `state_i → mprocess → povm_j`, the measurement process being built
from `var` (`m` outcomes; when flag, the first row of the last gate is `e₀ − Σ_k (first row of gate k)`), joint
outcomes ordered (mprocess outcome, povm outcome). -/
theorem qmpt_affine [Field K] (flag : Bool) (n m : Nat) (states : List (List K))
    (povms : List (List (List K))) (scheds : List (Nat × Nat)) (cs : List (Coeff K)) (var : List K)
    (hm : 0 < m) (hn : 0 < n)
    (hstates : ∀ rho ∈ states, rho.length = n)
    (hpovms : ∀ povm ∈ povms, ∀ e ∈ povm, e.length = n)
    (hvar : var.length = if flag then (m - 1) * (n * n) + (n - 1) * n else m * (n * n))
    (h : qmptCoeffs flag m states povms scheds = some cs) :
    ∃ per, cs = mkCoeffs per ∧
      qmptCircuit flag n m states povms scheds var = some (per.map fun rows => rows.map (rowVal var)) := by
  unfold qmptCoeffs at h
  simp only [Option.bind_eq_bind, Option.bind_eq_some_iff, Option.pure_def, Option.some.injEq] at h
  obtain ⟨per, hper, rfl⟩ := h
  refine ⟨per, rfl, ?_⟩
  unfold qmptCircuit
  apply mapM_opt_lift _ _ (fun rows => rows.map (rowVal var)) _ scheds per hper
  rintro ⟨i, j⟩ rows hrows
  simp only [Option.bind_eq_bind, Option.bind_eq_some_iff] at hrows
  obtain ⟨rho, hp, povm, hq, hs⟩ := hrows
  have hl : rho.length = n := hstates rho (List.mem_of_getElem? hp)
  subst hl
  have hE := hpovms povm (List.mem_of_getElem? hq)
  cases flag with
  | false =>
    simp only [Bool.false_eq_true, if_false] at hvar
    have this' : rows.map (rowVal var) = _ := qmpt_sched_eq_false m rho povm var rows hE hvar hs
    simp [hp, hq, this']
  | true =>
    simp only [if_true] at hvar
    have this' := qmpt_sched_eq_true m rho povm var rows hm hn hE hvar hs
    simp [hp, hq, this']

/-- C08.1 (QMPT) the circuit as the code walks it — (MProcess, State) gives the ensemble
`p_x = r·(hs_x ρ)[0]`, `ρ_x = hs_x ρ / p_x`, then (Povm, StateEnsemble) gives `p_x · (E_y · ρ_x)` — equals the
ideal joint probabilities `E_y · (hs_x ρ)` whenever no `p_x` vanishes (clipping by `eps_zero` is not modelled). -/
theorem qmpt_walk_eq_born [Field K] [DecidableEq K] (r : K) (povm : List (List K))
    (hss : List (List (List K))) (rho : List K)
    (hp : ∀ hs ∈ hss, r * firstEntry (matVec hs rho) ≠ 0) :
    circuitPovmMprocessState r povm hss rho = bornPovmMprocessState povm hss rho := by
  unfold circuitPovmMprocessState bornPovmMprocessState
  apply List.flatMap_congr
  intro hs hhs
  have hne := hp hs hhs
  simp only [bornPovmGateState, bornPovmState, List.map_map]
  rw [if_neg hne]
  apply List.map_congr_left
  intro e _
  simp only [Function.comp_apply]
  rw [ldot_comm, ldot_div_left, ldot_comm, ← mul_div_assoc]
  exact mul_div_cancel_left₀ _ hne

/-- C08.1 (QMPT) the circuit walk WITH the code's thresholds (`eps_zero` clipping and renormalisation of the ensemble,
unrenormalised post states, `< eps_zero` members skipped, `truncate_and_normalize` of every (Povm, State) step) equals the
ideal joint probabilities when no outcome probability is clipped (`p_x > eps_zero ≥ 0`) and every conditional
distribution is proper (entries 0 or ≥ `atol`, sum 1). Boundary objects with exact zeros: `qmpt_walk_eps_eq_born_boundary`. -/
theorem qmpt_walk_eps_eq_born [Field K] [LinearOrder K] [IsStrictOrderedRing K] (r epsZero epsTrunc : K)
    (povm : List (List K)) (hss : List (List (List K))) (rho : List K) (h0 : 0 ≤ epsZero)
    (h1 : ∀ hs ∈ hss, ¬ r * firstEntry (matVec hs rho) ≤ epsZero)
    (h2 : ∀ hs ∈ hss,
      (∀ q ∈ bornPovmState povm ((matVec hs rho).map (· / (r * firstEntry (matVec hs rho)))), q < epsTrunc → q = 0) ∧
      lsum (bornPovmState povm ((matVec hs rho).map (· / (r * firstEntry (matVec hs rho))))) = 1) :
    circuitPovmMprocessStateEps r epsZero epsTrunc povm hss rho = bornPovmMprocessState povm hss rho := by
  unfold circuitPovmMprocessStateEps bornPovmMprocessState
  have hraw : ((hss.map fun hs => matVec hs rho).map fun mrho =>
        (let p := r * firstEntry mrho; if p ≤ epsZero then 0 else p)) =
      (hss.map fun hs => matVec hs rho).map fun mrho => r * firstEntry mrho := by
    apply List.map_congr_left
    intro m hm
    obtain ⟨hs, hhs, rfl⟩ := List.mem_map.1 hm
    simp [h1 hs hhs]
  have htr : ((hss.map fun hs => matVec hs rho).any fun mrho => decide (r * firstEntry mrho ≤ epsZero)) = false := by
    rw [List.any_eq_false]
    intro m hm
    obtain ⟨hs, hhs, rfl⟩ := List.mem_map.1 hm
    simp [h1 hs hhs]
  simp only [hraw, htr, Bool.false_and, Bool.false_eq_true, if_false]
  rw [zip_zip_map_self, List.flatMap_map, List.flatMap_map]
  apply List.flatMap_congr
  intro hs hhs
  have hp := h1 hs hhs
  have hlt : epsZero < r * firstEntry (matVec hs rho) := lt_of_not_ge hp
  have hne : r * firstEntry (matVec hs rho) ≠ 0 := ne_of_gt (lt_of_le_of_lt h0 hlt)
  simp only [hne, if_false, not_lt_of_gt hlt]
  rw [truncNorm_id_zero_or_large' epsTrunc _ (h2 hs hhs).1 (h2 hs hhs).2]
  simp only [bornPovmGateState, bornPovmState, List.map_map]
  apply List.map_congr_left
  intro e _
  simp only [Function.comp_apply]
  rw [ldot_comm, ldot_div_left, ldot_comm, ← mul_div_assoc]
  exact mul_div_cancel_left₀ _ hne


/-- C08.1 (QMPT) the thresholded walk on BOUNDARY objects: outcomes with `p_x ≤ eps_zero` are clipped (`truncate`), the
ensemble is renormalised by the sum of the remaining probabilities, clipped members contribute zeros.  If the clipped
outcomes have Born value exactly 0 on every tester element (projective instruments probed with eigenstates: `hs_x ρ = 0`),
the remaining probabilities sum to one and their conditional distributions are proper, the coded circuit still equals the
ideal joint distribution.  (Outcomes with `0 < p_x ≤ eps_zero` are genuinely changed by the code; that case stays with
the `circuiteps` correspondence.) -/
theorem qmpt_walk_eps_eq_born_boundary [Field K] [LinearOrder K] [IsStrictOrderedRing K] (r epsZero epsTrunc : K)
    (povm : List (List K)) (hss : List (List (List K))) (rho : List K) (h0 : 0 < epsZero)
    (hsum : lsum (rawProbs r epsZero hss rho) = 1)
    (hclip : ∀ hs ∈ hss, r * firstEntry (matVec hs rho) ≤ epsZero → ∀ e ∈ povm, ldot e (matVec hs rho) = 0)
    (hprop : ∀ hs ∈ hss, ¬ r * firstEntry (matVec hs rho) ≤ epsZero →
      (∀ q ∈ bornPovmState povm ((matVec hs rho).map (· / (r * firstEntry (matVec hs rho)))), q < epsTrunc → q = 0) ∧
      lsum (bornPovmState povm ((matVec hs rho).map (· / (r * firstEntry (matVec hs rho))))) = 1) :
    circuitPovmMprocessStateEps r epsZero epsTrunc povm hss rho = bornPovmMprocessState povm hss rho := by
  unfold circuitPovmMprocessStateEps bornPovmMprocessState
  unfold rawProbs at hsum
  simp only [hsum, div_one, List.map_id', ite_self]
  rw [zip_zip_map_self, List.flatMap_map, List.flatMap_map]
  apply List.flatMap_congr
  intro hs hhs
  by_cases hp : r * firstEntry (matVec hs rho) ≤ epsZero
  · simp only [hp, if_true, h0]
    simp only [bornPovmGateState, bornPovmState]
    apply List.map_congr_left
    intro e he
    exact (hclip hs hhs hp e he).symm
  · have hlt : epsZero < r * firstEntry (matVec hs rho) := lt_of_not_ge hp
    have hne : r * firstEntry (matVec hs rho) ≠ 0 := ne_of_gt (lt_trans h0 hlt)
    simp only [hp, if_false, hne, not_lt_of_gt hlt]
    rw [truncNorm_id_zero_or_large' epsTrunc _ (hprop hs hhs hp).1 (hprop hs hhs hp).2]
    simp only [bornPovmGateState, bornPovmState, List.map_map]
    apply List.map_congr_left
    intro e _
    simp only [Function.comp_apply]
    rw [ldot_comm, ldot_div_left, ldot_comm, ← mul_div_assoc]
    exact mul_div_cancel_left₀ _ hne


/-- the same, lifted to the executed `qmptCircuitWalkEps` (driver op `circuiteps`) for all schedules. -/
theorem qmptCircuitWalkEps_eq [Field K] [LinearOrder K] [IsStrictOrderedRing K] (flag : Bool)
    (r epsZero epsTrunc : K) (n m : Nat) (states : List (List K)) (povms : List (List (List K)))
    (scheds : List (Nat × Nat)) (var : List K) (h0 : 0 ≤ epsZero)
    (hp : ∀ ij ∈ scheds, ∀ rho, states[ij.1]? = some rho → ∀ povm, povms[ij.2]? = some povm →
      ∀ hs ∈ mprocessOf flag n m var, ¬ r * firstEntry (matVec hs rho) ≤ epsZero ∧
        (∀ q ∈ bornPovmState povm ((matVec hs rho).map (· / (r * firstEntry (matVec hs rho)))), q < epsTrunc → q = 0) ∧
        lsum (bornPovmState povm ((matVec hs rho).map (· / (r * firstEntry (matVec hs rho))))) = 1) :
    qmptCircuitWalkEps flag r epsZero epsTrunc n m states povms scheds var =
      qmptCircuit flag n m states povms scheds var := by
  unfold qmptCircuitWalkEps qmptCircuit
  apply mapM_opt_congr
  rintro ⟨i, j⟩ hij
  cases hs : states[i]? with
  | none => simp [hs]
  | some rho =>
    cases hq : povms[j]? with
    | none => simp [hs, hq]
    | some povm =>
      simp only [hs, hq, Option.bind_eq_bind, Option.bind_some, Option.pure_def, Option.some.injEq]
      exact qmpt_walk_eps_eq_born r epsZero epsTrunc povm _ rho h0
        (fun hs' hh => (hp (i, j) hij rho hs povm hq hs' hh).1)
        (fun hs' hh => (hp (i, j) hij rho hs povm hq hs' hh).2)

/-- the boundary case lifted to the executed `qmptCircuitWalkEps` for all schedules. -/
theorem qmptCircuitWalkEps_eq_boundary [Field K] [LinearOrder K] [IsStrictOrderedRing K] (flag : Bool)
    (r epsZero epsTrunc : K) (n m : Nat) (states : List (List K)) (povms : List (List (List K)))
    (scheds : List (Nat × Nat)) (var : List K) (h0 : 0 < epsZero)
    (hp : ∀ ij ∈ scheds, ∀ rho, states[ij.1]? = some rho → ∀ povm, povms[ij.2]? = some povm →
      lsum (rawProbs r epsZero (mprocessOf flag n m var) rho) = 1 ∧
      ∀ hs ∈ mprocessOf flag n m var,
        (r * firstEntry (matVec hs rho) ≤ epsZero → ∀ e ∈ povm, ldot e (matVec hs rho) = 0) ∧
        (¬ r * firstEntry (matVec hs rho) ≤ epsZero →
          (∀ q ∈ bornPovmState povm ((matVec hs rho).map (· / (r * firstEntry (matVec hs rho)))), q < epsTrunc → q = 0) ∧
          lsum (bornPovmState povm ((matVec hs rho).map (· / (r * firstEntry (matVec hs rho))))) = 1)) :
    qmptCircuitWalkEps flag r epsZero epsTrunc n m states povms scheds var =
      qmptCircuit flag n m states povms scheds var := by
  unfold qmptCircuitWalkEps qmptCircuit
  apply mapM_opt_congr
  rintro ⟨i, j⟩ hij
  cases hs : states[i]? with
  | none => simp [hs]
  | some rho =>
    cases hq : povms[j]? with
    | none => simp [hs, hq]
    | some povm =>
      simp only [hs, hq, Option.bind_eq_bind, Option.bind_some, Option.pure_def, Option.some.injEq]
      have h := hp (i, j) hij rho hs povm hq
      exact qmpt_walk_eps_eq_born_boundary r epsZero epsTrunc povm _ rho h0 h.1
        (fun hs' hh => (h.2 hs' hh).1) (fun hs' hh => (h.2 hs' hh).2)

/-- C08.1 (QMPT) lifted to the executed circuit walk (driver op `circuit … walk=1`): if on every scheduled tester state
no outcome of the measurement process built from `var` has `p_x = 0`, the walked circuit of all schedules equals the
ideal one, hence (with `qmpt_affine`) the forward model. -/
theorem qmptCircuitWalk_eq [Field K] [DecidableEq K] (flag : Bool) (r : K) (n m : Nat) (states : List (List K))
    (povms : List (List (List K))) (scheds : List (Nat × Nat)) (var : List K)
    (hp : ∀ ij ∈ scheds, ∀ rho, states[ij.1]? = some rho →
      ∀ hs ∈ mprocessOf flag n m var, r * firstEntry (matVec hs rho) ≠ 0) :
    qmptCircuitWalk flag r n m states povms scheds var = qmptCircuit flag n m states povms scheds var := by
  unfold qmptCircuitWalk qmptCircuit
  apply mapM_opt_congr
  rintro ⟨i, j⟩ hij
  cases hs : states[i]? with
  | none => simp [hs]
  | some rho =>
    cases hq : povms[j]? with
    | none => simp [hs, hq]
    | some povm =>
      simp only [hs, hq, Option.bind_eq_bind, Option.bind_some, Option.pure_def, Option.some.injEq]
      exact qmpt_walk_eq_born r povm _ rho (hp (i, j) hij rho hs)

/-- C08.1 corollary, in the form the estimators use it: from the conclusion of any of the four `*_affine` theorems,
`calc_matA() @ var + calc_vecB()` **is** the concatenation, in schedule order, of the distributions the circuits produce
(the existential `dists` is the circuit's own output, not a hypothesis). -/
theorem predict_eq_circuit_of_affine [Field K] (cs : List (Coeff K)) (circuit : Option (List (List K)))
    (var : List K)
    (h : ∃ per, cs = mkCoeffs per ∧ circuit = some (per.map fun rows => rows.map (rowVal var))) :
    ∃ dists, circuit = some dists ∧ predictRaw cs var = dists.flatten := by
  obtain ⟨per, rfl, hc⟩ := h
  exact ⟨_, hc, predictRaw_mkCoeffs per var⟩

/-- C08.1 for QST in that form: `matA·var + vecB` = concatenated circuit distributions, for every `var`. -/
theorem qst_predict_eq_circuit [Field K] (flag : Bool) (r : K) (povms : List (List (List K)))
    (scheds : List Nat) (cs : List (Coeff K)) (var : List K) (h : qstCoeffs flag r povms scheds = some cs) :
    ∃ dists, qstCircuit flag r povms scheds var = some dists ∧ predictRaw cs var = dists.flatten :=
  predict_eq_circuit_of_affine cs _ var (qst_affine flag r povms scheds cs var h)

/-- bookkeeping lemma for C08.3 (no rank content): `var ↦ matA·var + vecB` separates two vectors iff the
schedule-by-schedule statistics do (flattening lists of equal shape is injective). -/
theorem predictRaw_injective_iff [Field K] (per : List (List (List K × K))) (P : List K → Prop) :
    (∀ v v', P v → P v' → predictRaw (mkCoeffs per) v = predictRaw (mkCoeffs per) v' → v = v') ↔
    (∀ v v', P v → P v' →
      (per.map fun rows => rows.map (rowVal v)) = (per.map fun rows => rows.map (rowVal v')) → v = v') := by
  constructor
  · intro h v v' hv hv' hd
    apply h v v' hv hv'
    rw [predictRaw_mkCoeffs, predictRaw_mkCoeffs, hd]
  · intro h v v' hv hv' hp
    apply h v v' hv hv'
    rw [predictRaw_mkCoeffs, predictRaw_mkCoeffs] at hp
    exact flatten_map_inj (rowVal v) (rowVal v') per hp

/-- C08.3a two variable vectors have the same statistics iff matA maps them to the same vector: the offsets `vecB`
cancel, so informational completeness is a property of matA alone. (`A` = `calc_matA()` as executable matrix.) -/
theorem statistics_eq_iff_matA [Field K] {m n : Nat} (per : List (List (List K × K))) (A : Mat K m n)
    (hA : QM.C09.rowsOf A = matA (mkCoeffs per)) (v v' : Vec K n) :
    ((per.map fun rows => rows.map (rowVal v.toList)) = per.map fun rows => rows.map (rowVal v'.toList)) ↔
      A.mulVec v = A.mulVec v' :=
  dists_eq_iff_mulVec per A hA v v'

/-- C08.3b `full column rank ⇔ informationally complete`: `rank(matA) = num_variables` (Mathlib's `Matrix.rank`, the
quantity `np.linalg.matrix_rank` approximates) iff the statistics map `var ↦ (distributions of all schedules)` is
injective.  With the `*_affine` theorems the statistics are the circuits' Born distributions on the object built from
`var`, so the right-hand side is the definition of an informationally complete tester set. -/
theorem rank_iff_IC [Field K] {m n : Nat} (per : List (List (List K × K))) (A : Mat K m n)
    (hA : QM.C09.rowsOf A = matA (mkCoeffs per)) :
    A.toM.rank = n ↔ ∀ v v' : Vec K n,
      ((per.map fun rows => rows.map (rowVal v.toList)) = per.map fun rows => rows.map (rowVal v'.toList)) → v = v' :=
  rank_iff_IC' per A hA

/-- C08.3c the coded verdict `is_fullrank_matA` (`min(shape) == rank`, exact rank) on a forward model with at least as
many rows as variables: true iff the tester set is informationally complete. -/
theorem is_fullrank_iff_IC [Field K] {m n : Nat} (per : List (List (List K × K))) (A : Mat K m n)
    (hA : QM.C09.rowsOf A = matA (mkCoeffs per)) (hmn : n ≤ m) :
    QM.C09.isFullRank m n A.toM.rank = true ↔ ∀ v v' : Vec K n,
      ((per.map fun rows => rows.map (rowVal v.toList)) = per.map fun rows => rows.map (rowVal v'.toList)) → v = v' := by
  rw [← rank_iff_IC per A hA]
  unfold QM.C09.isFullRank
  rw [Nat.min_eq_right hmn]
  constructor
  · intro h; exact (beq_iff_eq.1 h).symm
  · intro h; exact beq_iff_eq.2 h.symm

/-- C08.2 `matA_cols` (QST): with tester vectors of length `n`, every row of matA has `n − 1` (flag) resp. `n`
entries = `num_variables`. -/
theorem qst_cols [Field K] (flag : Bool) (r : K) (n : Nat) (vec a : List K) (b : K)
    (hv : vec.length = n) (h : qstRow flag r vec = some (a, b)) :
    a.length = if flag then n - 1 else n := by
  cases flag with
  | false => simp [qstRow] at h; simp [← h.1, hv]
  | true =>
    cases vec with
    | nil => simp [qstRow] at h
    | cons v0 rest => simp [qstRow] at h; simp [← h.1, ← hv]

/-- C08.2 `matA_cols` (QPT): `n² − n` (flag) resp. `n²` columns. -/
theorem qpt_cols [Field K] (flag : Bool) (rho e a : List K) (b : K) (he : e.length = rho.length)
    (h : qptRow flag rho.length (outerFlat e rho) = some (a, b)) :
    a.length = if flag then rho.length * rho.length - rho.length else rho.length * rho.length := by
  cases flag with
  | false => simp [qptRow] at h; simp [← h.1, outerFlat_length, he]
  | true =>
    cases hc : outerFlat e rho with
    | nil => simp [qptRow, hc] at h
    | cons c0 cs =>
      simp [qptRow, hc] at h
      have hl := outerFlat_length e rho
      rw [hc] at hl
      simp [← h.1, List.length_drop, he] at hl ⊢
      omega

/-- C08.2 `matA_cols` (POVMT): every row has `(m−1)·n` (flag) resp. `m·n` entries = `num_variables`. -/
theorem povmt_cols [Field K] (flag : Bool) (r : K) (m : Nat) (rho : List K) (x : Nat) (a : List K) (b : K)
    (hx : x < m) (h : povmtRow flag r m rho x = some (a, b)) :
    a.length = (if flag then m - 1 else m) * rho.length :=
  povmt_cols' flag r m rho x a b hx h

/-- C08.2 `matA_cols` (QMPT): every row built by `cqpt_to_cqmpt` for a schedule has `m·n² − n` (flag; written
`(m−1)·n² + (n² − n)`) resp. `m·n²` entries = `num_variables`. -/
theorem qmpt_cols [Field K] (flag : Bool) (m : Nat) (rho : List K) (povm : List (List K))
    (rows : List (List K × K)) (hm : 0 < m) (hr : 0 < rho.length)
    (hE : ∀ e ∈ povm, e.length = rho.length) (h : qmptSched flag m rho povm = some rows) :
    ∀ ab ∈ rows, ab.1.length =
      if flag then (m - 1) * (rho.length * rho.length) + (rho.length * rho.length - rho.length)
      else m * (rho.length * rho.length) :=
  qmpt_cols' flag m rho povm rows hm hr hE h

/-! ### length-checked variants on the executed `predict` -/

/-- C08.1/2 (QST) on the EXECUTED `predict` (numpy's `matA @ var` with its shape check): tester vectors of length `n` and
`var` of length `num_variables` ⇒ `calc_matA() @ var + calc_vecB()` does not raise and is the concatenation, in schedule
order, of the circuit distributions on the state built from `var`. -/
theorem qst_predict_ok [Field K] (flag : Bool) (r : K) (n : Nat) (povms : List (List (List K))) (scheds : List Nat)
    (cs : List (Coeff K)) (var : List K) (hp : ∀ povm ∈ povms, ∀ vec ∈ povm, vec.length = n)
    (hv : var.length = if flag then n - 1 else n) (h : qstCoeffs flag r povms scheds = some cs) :
    ∃ dists, qstCircuit flag r povms scheds var = some dists ∧ predict cs var = .ok dists.flatten := by
  unfold qstCoeffs at h
  simp only [Option.bind_eq_bind, Option.bind_eq_some_iff, Option.pure_def, Option.some.injEq] at h
  obtain ⟨per, hper, rfl⟩ := h
  have hc : qstCircuit flag r povms scheds var = some (per.map fun rows => rows.map (rowVal var)) := by
    unfold qstCircuit
    apply mapM_opt_lift _ _ (fun rows => rows.map (rowVal var)) _ scheds per hper
    intro pj rows hrows
    simp only [Option.bind_eq_bind, Option.bind_eq_some_iff] at hrows
    obtain ⟨povm, hp', hs⟩ := hrows
    simp [hp', qstSched_eq flag r povm var rows hs]
  refine ⟨_, hc, ?_⟩
  have hrows : ∀ rows ∈ per, ∀ ab ∈ rows, ab.1.length = var.length := by
    intro rows hr ab hab
    obtain ⟨pj, _, hf⟩ := mapM_opt_mem _ scheds per hper rows hr
    simp only [Option.bind_eq_bind, Option.bind_eq_some_iff] at hf
    obtain ⟨povm, hpv, hs⟩ := hf
    obtain ⟨vec, hvec, hrow⟩ := mapM_opt_mem _ povm rows hs ab hab
    rw [qst_cols flag r n vec ab.1 ab.2 (hp povm (List.mem_of_getElem? hpv) vec hvec) hrow, hv]
  rw [predict_mkCoeffs per var hrows, predictRaw_mkCoeffs]

/-- C08.1/2 (QPT) on the executed `predict`, with the length hypotheses. -/
theorem qpt_predict_ok [Field K] (flag : Bool) (n : Nat) (states : List (List K))
    (povms : List (List (List K))) (scheds : List (Nat × Nat)) (cs : List (Coeff K)) (var : List K)
    (hstates : ∀ rho ∈ states, rho.length = n) (hpovms : ∀ povm ∈ povms, ∀ e ∈ povm, e.length = n)
    (hvar : var.length = (if flag then n - 1 else n) * n)
    (h : qptCoeffs flag states povms scheds = some cs) :
    ∃ dists, qptCircuit flag n states povms scheds var = some dists ∧ predict cs var = .ok dists.flatten := by
  obtain ⟨per0, hcs0, hc⟩ := qpt_affine flag n states povms scheds cs var hstates hvar h
  unfold qptCoeffs at h
  simp only [Option.bind_eq_bind, Option.bind_eq_some_iff, Option.pure_def, Option.some.injEq] at h
  obtain ⟨per, hper, rfl⟩ := h
  have hrows : ∀ rows ∈ per, ∀ ab ∈ rows, ab.1.length = var.length := by
    intro rows hr ab hab
    obtain ⟨⟨i, j⟩, _, hf⟩ := mapM_opt_mem _ scheds per hper rows hr
    simp only [Option.bind_eq_bind, Option.bind_eq_some_iff] at hf
    obtain ⟨rho, hrho, povm, hpv, hs⟩ := hf
    unfold qptSched cQpt at hs
    rw [mapM_map_opt] at hs
    obtain ⟨e, he, hrow⟩ := mapM_opt_mem _ povm rows hs ab hab
    have hl : rho.length = n := hstates rho (List.mem_of_getElem? hrho)
    have hel : e.length = rho.length := by rw [hl]; exact hpovms povm (List.mem_of_getElem? hpv) e he
    rw [qpt_cols flag rho e ab.1 ab.2 hel hrow, hvar, hl]
    cases flag <;> simp [Nat.sub_mul]
  refine ⟨_, hc, ?_⟩
  rw [predict_mkCoeffs per var hrows, hcs0, predictRaw_mkCoeffs per0 var]

/-- C08.1/2 (POVMT) on the executed `predict`, with the length hypotheses. -/
theorem povmt_predict_ok [Field K] (flag : Bool) (r : K) (n m : Nat) (states : List (List K))
    (scheds : List Nat) (cs : List (Coeff K)) (var : List K) (hm : 0 < m)
    (hstates : ∀ rho ∈ states, rho.length = n)
    (hvar : var.length = (if flag then m - 1 else m) * n)
    (h : povmtCoeffs flag r m states scheds = some cs) :
    ∃ dists, povmtCircuit flag r n m states scheds var = some dists ∧ predict cs var = .ok dists.flatten := by
  obtain ⟨per0, hcs0, hc⟩ := povmt_affine flag r n m states scheds cs var hm hstates hvar h
  unfold povmtCoeffs at h
  simp only [Option.bind_eq_bind, Option.bind_eq_some_iff, Option.pure_def, Option.some.injEq] at h
  obtain ⟨per, hper, rfl⟩ := h
  have hrows : ∀ rows ∈ per, ∀ ab ∈ rows, ab.1.length = var.length := by
    intro rows hr ab hab
    obtain ⟨i, _, hf⟩ := mapM_opt_mem _ scheds per hper rows hr
    simp only [Option.bind_eq_bind, Option.bind_eq_some_iff] at hf
    obtain ⟨rho, hrho, hs⟩ := hf
    obtain ⟨x, hx, hrow⟩ := mapM_opt_mem _ _ rows hs ab hab
    rw [povmt_cols flag r m rho x ab.1 ab.2 (List.mem_range.1 hx) hrow, hvar,
      hstates rho (List.mem_of_getElem? hrho)]
  refine ⟨_, hc, ?_⟩
  rw [predict_mkCoeffs per var hrows, hcs0, predictRaw_mkCoeffs per0 var]

/-- C08.1/2 (QMPT) on the executed `predict`, with the length hypotheses. -/
theorem qmpt_predict_ok [Field K] (flag : Bool) (n m : Nat) (states : List (List K))
    (povms : List (List (List K))) (scheds : List (Nat × Nat)) (cs : List (Coeff K)) (var : List K)
    (hm : 0 < m) (hn : 0 < n) (hstates : ∀ rho ∈ states, rho.length = n)
    (hpovms : ∀ povm ∈ povms, ∀ e ∈ povm, e.length = n)
    (hvar : var.length = if flag then (m - 1) * (n * n) + (n - 1) * n else m * (n * n))
    (h : qmptCoeffs flag m states povms scheds = some cs) :
    ∃ dists, qmptCircuit flag n m states povms scheds var = some dists ∧ predict cs var = .ok dists.flatten := by
  obtain ⟨per0, hcs0, hc⟩ := qmpt_affine flag n m states povms scheds cs var hm hn hstates hpovms hvar h
  unfold qmptCoeffs at h
  simp only [Option.bind_eq_bind, Option.bind_eq_some_iff, Option.pure_def, Option.some.injEq] at h
  obtain ⟨per, hper, rfl⟩ := h
  have hrows : ∀ rows ∈ per, ∀ ab ∈ rows, ab.1.length = var.length := by
    intro rows hr ab hab
    obtain ⟨⟨i, j⟩, _, hf⟩ := mapM_opt_mem _ scheds per hper rows hr
    simp only [Option.bind_eq_bind, Option.bind_eq_some_iff] at hf
    obtain ⟨rho, hrho, povm, hpv, hs⟩ := hf
    have hl : rho.length = n := hstates rho (List.mem_of_getElem? hrho)
    have hE : ∀ e ∈ povm, e.length = rho.length := by
      intro e he; rw [hl]; exact hpovms povm (List.mem_of_getElem? hpv) e he
    rw [qmpt_cols flag m rho povm rows hm (by rw [hl]; exact hn) hE hs ab hab, hvar, hl]
    cases flag <;> simp [Nat.sub_mul]
  refine ⟨_, hc, ?_⟩
  rw [predict_mkCoeffs per var hrows, hcs0, predictRaw_mkCoeffs per0 var]


/-- C08.4 `calc_prob_dists` as coded (`reshape((num_schedules, -1))`, then `truncate_and_normalize` row by row):
it returns the circuit's per-schedule distributions (each passed through `truncate_and_normalize`, the identity on
proper distributions by `truncNorm_id`) **if and only if all schedules have the same number of outcomes**.
This is the exact guard under which the coded grouping is right (remark: for a row whose entries are all below `eps`
`truncNorm` divides by 0 — Lean's `x/0 = 0`, numpy's nan; the statement compares the model's two sides and is meant
for proper distributions, see `truncNorm_id*`); outside it the code raises or regroups silently
(defect D8: `calcProbDists_mixed_counts_fails`, `calcProbDists_mixed_counts_regroups_fails`). -/
theorem calcProbDists_eq_circuit_iff [Field K] [LinearOrder K] (eps : K) (cs : List (Coeff K))
    (var : List K) (dists : List (List K)) (hk : 0 < dists.length)
    (hp : predict cs var = .ok dists.flatten) :
    calcProbDists eps dists.length cs var = .ok (dists.map (truncNorm eps)) ↔
      ∃ c, ∀ d ∈ dists, d.length = c :=
  calcProbDists_iff eps cs var dists hk hp

/-- C08.4b `calc_prob_dist(qope, i)` under the guard: entry `i` of the circuit's distributions. -/
theorem calcProbDist_eq_circuit [Field K] [LinearOrder K] (eps : K) (cs : List (Coeff K))
    (var : List K) (dists : List (List K)) (c : Nat) (hk : 0 < dists.length)
    (hd : ∀ d ∈ dists, d.length = c) (hp : predict cs var = .ok dists.flatten) (i : Nat) (hi : i < dists.length) :
    calcProbDist eps dists.length cs var i = .ok (truncNorm eps dists[i]) := by
  unfold calcProbDist
  rw [(calcProbDists_eq_circuit_iff eps cs var dists hk hp).2 ⟨c, hd⟩]
  simp [bind, Except.bind, pure, Except.pure, hi]

/-- `truncate_and_normalize` is the identity on a distribution that sums to one and has no entry below `eps`. -/
theorem truncNorm_id [Field K] [LinearOrder K] (eps : K) (row : List K)
    (h1 : ∀ p ∈ row, ¬ p < eps) (h2 : lsum row = 1) : truncNorm eps row = row := by
  unfold truncNorm
  have e : (row.map fun p => if p < eps then 0 else p) = row := by
    conv_rhs => rw [← List.map_id row]
    apply List.map_congr_left
    intro p hp
    simp [h1 p hp]
  simp only [e, h2, div_one]
  simp

/-- `truncate_and_normalize` is also the identity when exact zeros are present: entries are 0 or at least `eps`
(boundary objects probed with their own eigenstates), sum one. Strictly weaker hypothesis than `truncNorm_id`. -/
theorem truncNorm_id_zero_or_large [Field K] [LinearOrder K] (eps : K) (row : List K)
    (h1 : ∀ p ∈ row, p < eps → p = 0) (h2 : lsum row = 1) : truncNorm eps row = row :=
  truncNorm_id_zero_or_large' eps row h1 h2

/-- C08.4 defect D8 (negation witness, raises): tester POVMs with outcome counts `[2, 2, 3]` (one-dimensional
toy vectors, `var = [1]`): the circuit gives three distributions, `calc_prob_dists` fails in its reshape
(`cannot reshape array of size 7 into shape (3, newaxis)`). -/
theorem calcProbDists_mixed_counts_fails :
    ¬ ∀ (povms : List (List (List Rat))) (scheds : List Nat) (cs : List (Coeff Rat)) (var : List Rat)
        (dists : List (List Rat)),
        qstCoeffs false 1 povms scheds = some cs → qstCircuit false 1 povms scheds var = some dists →
        calcProbDists (1 / 10000000000000) scheds.length cs var = .ok dists := by
  intro h
  have h' := h [[[1/2], [1/2]], [[1/3], [2/3]], [[1/4], [1/4], [1/2]]] [0, 1, 2]
    (mkCoeffs [[([1/2], 0), ([1/2], 0)], [([1/3], 0), ([2/3], 0)], [([1/4], 0), ([1/4], 0), ([1/2], 0)]])
    [1] [[1/2, 1/2], [1/3, 2/3], [1/4, 1/4, 1/2]] (by decide +kernel) (by decide +kernel)
  unfold calcProbDists predict predictRaw at h'
  rw [dict_sorted] at h'
  revert h'
  decide +kernel

/-- C08.4 defect D8 (negation witness, silent regrouping): outcome counts `[1, 3]` — the total 4 is divisible by
the 2 schedules, so the reshape succeeds and returns rows of 2 that cut across the schedule boundary. -/
theorem calcProbDists_mixed_counts_regroups_fails :
    ∃ (povms : List (List (List Rat))) (scheds : List Nat) (cs : List (Coeff Rat)) (var : List Rat)
        (dists out : List (List Rat)),
        qstCoeffs false 1 povms scheds = some cs ∧ qstCircuit false 1 povms scheds var = some dists ∧
        calcProbDists (1 / 10000000000000) scheds.length cs var = .ok out ∧ out ≠ dists := by
  refine ⟨[[[1]], [[1/2], [1/4], [1/4]]], [0, 1],
    mkCoeffs [[([1], 0)], [([1/2], 0), ([1/4], 0), ([1/4], 0)]], [1],
    [[1], [1/2, 1/4, 1/4]], [[2/3, 1/3], [1/2, 1/2]], ?_, ?_, ?_, ?_⟩
  · decide +kernel
  · decide +kernel
  · unfold calcProbDists predict predictRaw
    rw [dict_sorted]
    decide +kernel
  · decide +kernel

/-! ## tie to the source: the definitions regenerated from the four `_set_coeffs` / `calc_c_qpt` / `cqpt_to_cqmpt` /
`_get_target_index` (`lean/QGen/C08.lean`, rewritten by `harness/c08.py:translate` on every run) are the model's -/

/-- C08.src-a the QST row read from the source (`vec[1:]`, `vec[0] / np.sqrt(dim)` resp. `vec`, `0`) is the model's. -/
theorem gen_qst_row [Field K] (flag : Bool) (r : K) (vec : List K) :
    QGen.C08.qst_row flag r vec = qstRow flag r vec := gen_qst_row' flag r vec

/-- C08.src-b the QPT row read from `calc_c_qpt` (`c[int(dim*dim):]`, `c[0]` resp. `c`, `0`) and the outer product with
its argument order (`np.outer(povm_vec, state.vec).flatten()`) are the model's. -/
theorem gen_qpt_row [Field K] (flag : Bool) (n : Nat) (c e rho : List K) :
    QGen.C08.qpt_row flag n c = qptRow flag n c ∧ QGen.C08.qpt_c e rho = outerFlat e rho :=
  ⟨gen_qpt_row' flag n c, rfl⟩

/-- C08.src-c the POVMT row read from the source — hstack order, paddings `m_index·vec_size` and
`((m−1)−m_index)·vec_size`, split point `vec_size·(m−1)`, `a_prime − tile(c_prime, m−1)`, offset `np.sqrt(dim)·c_prime[0]`
— is the model's `povmtRow`. -/
theorem gen_povmt_row [Field K] (flag : Bool) (r : K) (m : Nat) (rho : List K) (x : Nat) :
    QGen.C08.povmt_row flag r m rho x = povmtRow flag r m rho x := gen_povmt_row' flag r m rho x

/-- C08.src-d the dictionary keys of all four classes are `(schedule_index, element_index)` in this order, which is the
key the model's `mkCoeffs` uses (and what makes `sorted(items)` the identity, `dict_sorted`). -/
theorem gen_keys (per : List (List (List K × K))) :
    QGen.C08.qst_key = Prod.mk ∧ QGen.C08.povmt_key = Prod.mk ∧ QGen.C08.qpt_key = Prod.mk ∧
    QGen.C08.qmpt_key = Prod.mk ∧
    mkCoeffs per = per.zipIdx.flatMap fun (rows, si) =>
      rows.zipIdx.map fun (ab, x) => ⟨QGen.C08.qst_key si x, ab.1, ab.2⟩ :=
  ⟨rfl, rfl, rfl, rfl, rfl⟩

/-- C08.src-e positions inside a schedule, as the code reads them (`_set_coeffs`, `calc_c_qpt`, `_get_target_index`):
the model's decoding `schedPair` of a schedule into (tester state index, tester POVM index) is the decoding through the
GENERATED item positions, and the unknown sits at the generated target position (QST item 0, POVMT / QPT / QMPT item 1),
which is never a tester position. -/
theorem gen_schedPair (sched : List Nat) :
    schedPair "qst" sched = (do let j ← itemAt sched QGen.C08.qst_tester_item; pure (0, j)) ∧
    schedPair "povmt" sched = (do let i ← itemAt sched QGen.C08.povmt_state_item; pure (i, 0)) ∧
    schedPair "qpt" sched = (do let i ← itemAt sched QGen.C08.qpt_state_item
                                let j ← itemAt sched QGen.C08.qpt_povm_item; pure (i, j)) ∧
    QGen.C08.qst_target_item = 0 ∧ QGen.C08.povmt_target_item = 1 ∧ QGen.C08.qpt_target_item = 1 ∧
    QGen.C08.qmpt_target_item = 1 ∧
    QGen.C08.qst_target_item ≠ QGen.C08.qst_tester_item ∧ QGen.C08.povmt_target_item ≠ QGen.C08.povmt_state_item ∧
    QGen.C08.qpt_target_item ≠ QGen.C08.qpt_state_item ∧ QGen.C08.qpt_target_item ≠ QGen.C08.qpt_povm_item :=
  ⟨rfl, rfl, rfl, rfl, rfl, rfl, rfl, by decide, by decide, by decide, by decide⟩

/-- C08.src-f `cqpt_to_cqmpt` as translated statement by statement from the source (`d_qpt / e_qpt` column slices,
`block_diag(*[c_qpt]*(m−1))`, the zero paddings, `d_dash = hstack([-d_qpt, 0])`, `a_1 = hstack([d_dash]*(m−1) + [e_qpt])`,
`vstack`, `b_0`, `b_1 = d_qpt.T[0]`; resp. `block_diag(*[c_qpt]*m)` without the flag) produces exactly the rows and offsets
of the hand model `cqptToCqmpt` that `qmpt_affine` is proved about (`dim ≥ 1`, rows `c` of length `dim⁴`). A tile / repeat /
slice edit of the source changes the generated definition and breaks this proof. -/
theorem gen_cqpt_to_cqmpt [Field K] (flag : Bool) (dim m : Nat) (cq : List (List K)) (hd : 0 < dim)
    (hw : ∀ c ∈ cq, c.length = dim ^ 2 * dim ^ 2) :
    (QGen.C08.cqpt_to_cqmpt flag dim m cq).map (fun ab => ab.1.zip ab.2) = cqptToCqmpt flag (dim ^ 2) m cq := by
  cases flag
  · exact gen_cqpt_false dim m cq (dim ^ 2 * dim ^ 2) hw rfl
  · exact gen_cqpt_true dim m cq hd hw

/-- C08.src-f' the remaining constants read from the QMPT source: `num_outcomes = povm outcomes × m-process outcomes`,
and the column constants used above. -/
theorem gen_qmpt_constants (d m p : Nat) :
    QGen.C08.qmpt_d_cols d = d ^ 2 ∧ QGen.C08.qmpt_e_from d = d ^ 2 ∧ QGen.C08.qmpt_blocks_flag m = m - 1 ∧
    QGen.C08.qmpt_blocks m = m ∧ QGen.C08.qmpt_b1_col = 0 ∧ QGen.C08.qmpt_num_outcomes p m = p * m :=
  ⟨rfl, rfl, rfl, rfl, rfl, rfl⟩

/-- C08.src-g the headline identity on the generated QST row: what the source's expressions put into the dictionary
predicts the Born value on the state built from `var`. -/
theorem gen_qst_row_affine [Field K] (flag : Bool) (r : K) (vec var a : List K) (b : K)
    (h : QGen.C08.qst_row flag r vec = some (a, b)) : ldot a var + b = ldot vec (stateOf flag r var) := by
  rw [gen_qst_row] at h
  exact qst_row_eq flag r vec var a b h

/-! ## non-vacuity -/

example : schedPair "qst" [0, 2] = some (0, 2) ∧ schedPair "qpt" [3, 0, 1] = some (3, 1) ∧ schedPair "povmt" [4, 0] = some (4, 0) ∧
    schedPair "qpt" [3, 0] = none := by decide
/-- the generated `cqpt_to_cqmpt` on the toy instance (`dim = 1` would be degenerate: here `dim² = 2` is not a square, so
the instance is evaluated directly; the hypotheses of `gen_cqpt_to_cqmpt` hold e.g. for `dim = 1`, rows of length 1) -/
example : (QGen.C08.cqpt_to_cqmpt (K := Rat) true 1 2 [[3], [5]]).map (fun ab => ab.1.zip ab.2) =
    cqptToCqmpt true 1 2 [[3], [5]] := by decide +kernel
example : QGen.C08.qst_row true (2 : Rat) [1, 3, 5] = some ([3, 5], 1/2) := by decide +kernel
example : QGen.C08.qpt_row true 2 ([1, 2, 3, 4] : List Rat) = some ([3, 4], 1) := by decide +kernel
example : QGen.C08.povmt_row true (2 : Rat) 3 [1, 2] 2 = some ([-1, -2, -1, -2], 2) := by decide +kernel
example : QGen.C08.povmt_row true (2 : Rat) 3 [1, 2] 0 = some ([1, 2, 0, 0], 0) := by decide +kernel

example : truncNorm (1 / 10000000000000 : Rat) [0, 1/4, 3/4, 0] = [0, 1/4, 3/4, 0] := by decide +kernel

/-- equal outcome counts `[2, 2]`: the guard of `calcProbDists_eq_circuit_iff` holds and `calc_prob_dist` returns entry 1 -/
example : calcProbDist (1 / 10000000000000 : Rat) 2 (mkCoeffs [[([1/2], 0), ([1/2], 0)], [([1/4], 0), ([3/4], 0)]]) [1] 1
    = .ok [1/4, 3/4] := by
  unfold calcProbDist calcProbDists predict predictRaw
  rw [dict_sorted]
  decide +kernel


/-- 1 qubit QST, flag = True, z-measurement with `r = 1` standing for `√d`: the hypothesis of `qst_affine` holds
and the predictions are the circuit values -/
example : qstCoeffs true (1 : Rat) [[[1, 0, 0, 1], [1, 0, 0, -1]]] [0, 0] =
    some (mkCoeffs [[([0, 0, 1], 1), ([0, 0, -1], 1)], [([0, 0, 1], 1), ([0, 0, -1], 1)]]) := by decide +kernel

example : qstCircuit true (1 : Rat) [[[1, 0, 0, 1], [1, 0, 0, -1]]] [0, 0] [1/2, 1/3, 1/4]
    = some [[5/4, 3/4], [5/4, 3/4]] := by decide +kernel

/-- QPT, `n = 2` toy vectors, flag = True: `var` has `(n−1)·n = 2` entries -/
example : (qptCoeffs (K := Rat) true [[1, 2]] [[[1, 1], [3, -1]]] [(0, 0)]) =
    some (mkCoeffs [[([1, 2], 1), ([-1, -2], 3)]]) := by decide +kernel

example : qptCircuit (K := Rat) true 2 [[1, 2]] [[[1, 1], [3, -1]]] [(0, 0)] [1/2, 1/3] = some [[13/6, 11/6]] := by
  decide +kernel

/-- POVMT, `n = 2`, `m = 3`, flag = True: `var` has `(m−1)·n = 4` entries -/
example : (povmtCoeffs true (2 : Rat) 3 [[1, 2], [0, 1]] [1]) =
    some (mkCoeffs [[([0, 1, 0, 0], 0), ([0, 0, 0, 1], 0), ([0, -1, 0, -1], 0)]]) := by decide +kernel

example : povmtCircuit true (2 : Rat) 2 3 [[1, 2], [0, 1]] [1] [1, 2, 3, 4] = some [[2, 4, -6]] := by
  decide +kernel

/-- QMPT, `n = 2`, `m = 2`, both flags -/
example : (qmptCoeffs (K := Rat) false 2 [[1, 2]] [[[1, 1], [3, -1]]] [(0, 0)]).isSome = true := by decide +kernel

example : (qmptCoeffs (K := Rat) true 2 [[1, 2]] [[[1, 1], [3, -1]]] [(0, 0)]).map
      (fun cs => cs.map fun c => ldot c.a [1, 2, 3, 4, 5, 6] + c.b)
    = (qmptCircuit true 2 2 [[1, 2]] [[[1, 1], [3, -1]]] [(0, 0)] [1, 2, 3, 4, 5, 6]).map List.flatten := by
  decide +kernel

/-! ### informational completeness: 1-qubit QST, flag on, testers X, Y, Z (and the incomplete set X, Y) -/

/-- the dictionary of the X, Y, Z tester set (`r = 1` stands for `√d`; basis coefficients `(1/2, ±1/2 e_i)`) -/
example : qstCoeffs true (1 : Rat)
    [[[1/2, 1/2, 0, 0], [1/2, -1/2, 0, 0]], [[1/2, 0, 1/2, 0], [1/2, 0, -1/2, 0]], [[1/2, 0, 0, 1/2], [1/2, 0, 0, -1/2]]]
    [0, 1, 2] =
    some (mkCoeffs [[([1/2, 0, 0], 1/2), ([-1/2, 0, 0], 1/2)], [([0, 1/2, 0], 1/2), ([0, -1/2, 0], 1/2)],
      [([0, 0, 1/2], 1/2), ([0, 0, -1/2], 1/2)]]) := by decide +kernel

/-- X, Y, Z: matA has rank 3 = number of variables, hence (by `rank_iff_IC`) the statistics determine the state -/
example : ∀ v v' : Vec ℚ 3,
    (([[(([1/2, 0, 0] : List ℚ), (1/2 : ℚ)), ([-1/2, 0, 0], 1/2)], [([0, 1/2, 0], 1/2), ([0, -1/2, 0], 1/2)],
        [([0, 0, 1/2], 1/2), ([0, 0, -1/2], 1/2)]].map fun rows => rows.map (rowVal v.toList)) =
     [[(([1/2, 0, 0] : List ℚ), (1/2 : ℚ)), ([-1/2, 0, 0], 1/2)], [([0, 1/2, 0], 1/2), ([0, -1/2, 0], 1/2)],
        [([0, 0, 1/2], 1/2), ([0, 0, -1/2], 1/2)]].map fun rows => rows.map (rowVal v'.toList)) → v = v' := by
  have hA : QM.C09.rowsOf (#v[#v[1/2, 0, 0], #v[-1/2, 0, 0], #v[0, 1/2, 0], #v[0, -1/2, 0], #v[0, 0, 1/2],
      #v[0, 0, -1/2]] : Mat ℚ 6 3) = matA (mkCoeffs
        [[(([1/2, 0, 0] : List ℚ), (1/2 : ℚ)), ([-1/2, 0, 0], 1/2)], [([0, 1/2, 0], 1/2), ([0, -1/2, 0], 1/2)],
          [([0, 0, 1/2], 1/2), ([0, 0, -1/2], 1/2)]]) := by
    rw [matA, dict_sorted]; decide +kernel
  have hc : QM.C09.Contract (#v[#v[2, 0, 0], #v[0, 2, 0], #v[0, 0, 2]] : Mat ℚ 3 3)
      (#v[#v[1/2, 0, 0], #v[-1/2, 0, 0], #v[0, 1/2, 0], #v[0, -1/2, 0], #v[0, 0, 1/2], #v[0, 0, -1/2]] : Mat ℚ 6 3) := by
    unfold QM.C09.Contract; decide +kernel
  exact (rank_iff_IC _ _ hA).1 (QM.C09.m_contract_rank hc.toM).1

/-- X, Y only: the forward model is rank deficient — the z-component is invisible -/
example : ¬ (Mat.toM (#v[#v[1/2, 0, 0], #v[-1/2, 0, 0], #v[0, 1/2, 0], #v[0, -1/2, 0]] : Mat ℚ 4 3)).rank = 3 := by
  intro hr
  have hA : QM.C09.rowsOf (#v[#v[1/2, 0, 0], #v[-1/2, 0, 0], #v[0, 1/2, 0], #v[0, -1/2, 0]] : Mat ℚ 4 3) =
      matA (mkCoeffs [[(([1/2, 0, 0] : List ℚ), (1/2 : ℚ)), ([-1/2, 0, 0], 1/2)],
        [([0, 1/2, 0], 1/2), ([0, -1/2, 0], 1/2)]]) := by
    rw [matA, dict_sorted]; decide +kernel
  have := (rank_iff_IC _ _ hA).1 hr (#v[0, 0, 1] : Vec ℚ 3) (#v[0, 0, 0] : Vec ℚ 3) (by decide +kernel)
  revert this; decide +kernel

/-- the executed circuit walk on an instance where no `p_x` vanishes: equal to the ideal circuit -/
example : qmptCircuitWalk (K := Rat) true 1 2 2 [[1, 2]] [[[1, 1], [3, -1]]] [(0, 0)] [1, 2, 3, 4, 5, 6] =
    qmptCircuit true 2 2 [[1, 2]] [[[1, 1], [3, -1]]] [(0, 0)] [1, 2, 3, 4, 5, 6] := by decide +kernel

/-- hypotheses of `calcProbDists_eq_circuit_iff` on an instance with equal outcome counts `[2, 2]` -/
example : predict (mkCoeffs [[(([1/2] : List Rat), (0 : Rat)), ([1/2], 0)], [([1/4], 0), ([3/4], 0)]]) [1] =
    .ok [[(1/2 : Rat), 1/2], [1/4, 3/4]].flatten := by
  unfold predict predictRaw; rw [dict_sorted]; decide +kernel

/-- `qmpt_cols` on an instance (`n = 2`, `m = 2`, flag on: `m·n² − n = 6` columns in every row) -/
example : (qmptSched (K := Rat) true 2 [1, 2] [[1, 1], [3, -1]]).map (fun rows => rows.map (·.1.length)) =
    some [6, 6, 6, 6] := by decide +kernel

/-- `qst_predict_ok` on the X, Y, Z instance: `predict` succeeds (3 variables) and gives the six Born probabilities -/
example : (qstCoeffs true (1 : Rat)
    [[[1/2, 1/2, 0, 0], [1/2, -1/2, 0, 0]], [[1/2, 0, 1/2, 0], [1/2, 0, -1/2, 0]], [[1/2, 0, 0, 1/2], [1/2, 0, 0, -1/2]]]
    [0, 1, 2]).map (fun cs => predict cs [1/2, 1/4, 0]) =
    some (.ok [3/4, 1/4, 5/8, 3/8, 1/2, 1/2]) := by
  have h : qstCoeffs true (1 : Rat)
      [[[1/2, 1/2, 0, 0], [1/2, -1/2, 0, 0]], [[1/2, 0, 1/2, 0], [1/2, 0, -1/2, 0]], [[1/2, 0, 0, 1/2], [1/2, 0, 0, -1/2]]]
      [0, 1, 2] = some (mkCoeffs [[([1/2, 0, 0], 1/2), ([-1/2, 0, 0], 1/2)], [([0, 1/2, 0], 1/2), ([0, -1/2, 0], 1/2)],
        [([0, 0, 1/2], 1/2), ([0, 0, -1/2], 1/2)]]) := by decide +kernel
  rw [h]
  simp only [Option.map_some, predict, predictRaw]
  rw [dict_sorted]
  decide +kernel

/-- a `var` of the wrong length: numpy's shape error -/
example : predict (mkCoeffs [[(([1/2, 0, 0] : List Rat), (1/2 : Rat))]]) [1/2, 1/4] = .error .shape := by
  unfold predict; rw [dict_sorted]; decide +kernel

/-- the thresholded walk on an interior toy instance (no clipping, proper conditionals): equals the ideal circuit;
and on a boundary instance (second gate annihilates the state: `p = 0` is clipped) it returns the zero block -/
example : circuitPovmMprocessStateEps (K := Rat) 1 (1/100000000) (1/10000000000000) [[1/2, 1/2], [1/2, -1/2]]
    [[[1/2, 0], [0, 1/2]], [[1/2, 0], [0, -1/2]]] [1, 1/2] =
    bornPovmMprocessState [[1/2, 1/2], [1/2, -1/2]] [[[1/2, 0], [0, 1/2]], [[1/2, 0], [0, -1/2]]] [1, 1/2] := by
  decide +kernel
example : circuitPovmMprocessStateEps (K := Rat) 1 (1/100000000) (1/10000000000000) [[1/2, 1/2], [1/2, -1/2]]
    [[[1, 0], [0, 1]], [[0, 0], [0, 0]]] [1, 1/2] = [3/4, 1/4, 0, 0] := by decide +kernel

/-- the hypotheses of `qmpt_walk_eps_eq_born_boundary` on that boundary instance: the clipped second outcome has Born
value 0, the remaining probability is 1 -/
example : rawProbs (K := Rat) 1 (1/100000000) [[[1, 0], [0, 1]], [[0, 0], [0, 0]]] [1, 1/2] = [1, 0] ∧
    bornPovmMprocessState (K := Rat) [[1/2, 1/2], [1/2, -1/2]] [[[1, 0], [0, 1]], [[0, 0], [0, 0]]] [1, 1/2] =
      [3/4, 1/4, 0, 0] := by decide +kernel

end QM.C08
