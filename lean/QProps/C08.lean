import QProofs.C08
import QGen.C08
/-!
# C08 — tomography forward model = circuit Born-rule statistics (property theorems)

All statements are about the executed definitions of `QModel/C08.lean` and hold for every dimension
(`n` = length of the tester vectors), every number of outcomes, every tester list, every schedule list
(subsets, repetitions, permutations — schedules are arbitrary index lists) and both flags, over any field
`K` (in particular the executed `K = ℚ`), for **every** variable vector `var` of the right length
(the affine identities are proved symbolically, not on a basis).

`rowVal var (a, b) = a · var + b` is the prediction of one dictionary entry;
`predictRaw cs var` is `calc_matA() @ var + calc_vecB()`.
-/
namespace QM.C08

variable {K : Type}

/-- C08.order-a: `sorted(dict.items())` in `calc_matA / calc_vecB` leaves the loop order
`for schedule_index … for element_index …` unchanged. -/
theorem dict_sorted (per : List (List (List K × K))) : sortCoeffs (mkCoeffs per) = mkCoeffs per :=
  sortCoeffs_mkCoeffs per

/-- C08.order-b: the keys, in row order of matA / vecB, are `(0,0),(0,1),…,(1,0),…`: row block `s` belongs to
schedule `s` and has one row per outcome, in outcome order. -/
theorem dict_keys (per : List (List (List K × K))) :
    (sortCoeffs (mkCoeffs per)).map (·.key) =
      (per.zipIdx.map fun (rows, si) => (List.range rows.length).map fun x => (si, x)).flatten := by
  rw [dict_sorted, mkCoeffs_eq, coeffsFrom_keys]

/-- C08.order-c: `matA @ var + vecB` is the concatenation, schedule by schedule, of the entries' predictions. -/
theorem predictRaw_mkCoeffs [Field K] (per : List (List (List K × K))) (var : List K) :
    predictRaw (mkCoeffs per) var = (per.map fun rows => rows.map (rowVal var)).flatten := by
  unfold predictRaw
  rw [dict_sorted, mkCoeffs_eq]
  exact coeffsFrom_map 0 per (fun a b => ldot a var + b)

/-- C08.1 (QST, both flags): every entry `(s, x)` of the dictionaries predicts outcome `x` of the circuit
`state → povm_s` run on the state built from `var`; schedule by schedule, same order. No hypothesis on `var`,
on the testers or on the schedule list. -/
theorem qst_affine [Field K] (flag : Bool) (r : K) (povms : List (List (List K))) (scheds : List Nat)
    (cs : List (Coeff K)) (var : List K) (h : qstCoeffs flag r povms scheds = some cs) :
    ∃ per, cs = mkCoeffs per ∧
      qstCircuit flag r povms scheds var = some (per.map fun rows => rows.map (rowVal var)) := by
  unfold qstCoeffs at h
  simp only [Option.bind_eq_bind, Option.bind_eq_some_iff, Option.pure_def, Option.some.injEq] at h
  obtain ⟨per, hper, rfl⟩ := h
  refine ⟨per, rfl, ?_⟩
  unfold qstCircuit
  apply mapM_opt_lift _ _ (fun rows => rows.map (rowVal var)) _ scheds per hper
  intro pj rows hrows
  simp only [Option.bind_eq_bind, Option.bind_eq_some_iff] at hrows
  obtain ⟨povm, hp, hs⟩ := hrows
  simp [hp, qstSched_eq flag r povm var rows hs]

/-- C08.1 (POVMT, both flags): the same for `state_s → povm`, the POVM being built from `var`
(`m` outcomes, last element `I − Σ others` when flag). -/
theorem povmt_affine [Field K] (flag : Bool) (r : K) (n m : Nat) (states : List (List K))
    (scheds : List Nat) (cs : List (Coeff K)) (var : List K) (hm : 0 < m)
    (hstates : ∀ rho ∈ states, rho.length = n)
    (hvar : var.length = (if flag then m - 1 else m) * n)
    (h : povmtCoeffs flag r m states scheds = some cs) :
    ∃ per, cs = mkCoeffs per ∧
      povmtCircuit flag r n m states scheds var = some (per.map fun rows => rows.map (rowVal var)) := by
  unfold povmtCoeffs at h
  simp only [Option.bind_eq_bind, Option.bind_eq_some_iff, Option.pure_def, Option.some.injEq] at h
  obtain ⟨per, hper, rfl⟩ := h
  refine ⟨per, rfl, ?_⟩
  unfold povmtCircuit
  apply mapM_opt_lift _ _ (fun rows => rows.map (rowVal var)) _ scheds per hper
  intro i rows hrows
  simp only [Option.bind_eq_bind, Option.bind_eq_some_iff] at hrows
  obtain ⟨rho, hp, hs⟩ := hrows
  have hl : rho.length = n := hstates rho (List.mem_of_getElem? hp)
  subst hl
  simp [hp, povmtSched_eq flag r m rho var rows hm hvar hs]

/-- C08.1 (QPT, both flags): the same for `state_i → gate → povm_j`, the gate being built from `var`
(first row `e₀` when flag). -/
theorem qpt_affine [Field K] (flag : Bool) (n : Nat) (states : List (List K))
    (povms : List (List (List K))) (scheds : List (Nat × Nat)) (cs : List (Coeff K)) (var : List K)
    (hstates : ∀ rho ∈ states, rho.length = n)
    (hvar : var.length = (if flag then n - 1 else n) * n)
    (h : qptCoeffs flag states povms scheds = some cs) :
    ∃ per, cs = mkCoeffs per ∧
      qptCircuit flag n states povms scheds var = some (per.map fun rows => rows.map (rowVal var)) := by
  unfold qptCoeffs at h
  simp only [Option.bind_eq_bind, Option.bind_eq_some_iff, Option.pure_def, Option.some.injEq] at h
  obtain ⟨per, hper, rfl⟩ := h
  refine ⟨per, rfl, ?_⟩
  unfold qptCircuit
  apply mapM_opt_lift _ _ (fun rows => rows.map (rowVal var)) _ scheds per hper
  rintro ⟨i, j⟩ rows hrows
  simp only [Option.bind_eq_bind, Option.bind_eq_some_iff] at hrows
  obtain ⟨rho, hp, povm, hq, hs⟩ := hrows
  have hl : rho.length = n := hstates rho (List.mem_of_getElem? hp)
  subst hl
  simp [hp, hq, qptSched_eq flag rho povm var rows hvar hs]

/-- C08.1 (QMPT, both flags): the same for `state_i → mprocess → povm_j`, the measurement process being built
from `var` (`m` outcomes; when flag, the first row of the last gate is `e₀ − Σ_k (first row of gate k)`), joint
outcomes ordered (mprocess outcome, povm outcome). -/
theorem qmpt_affine [Field K] (flag : Bool) (n m : Nat) (states : List (List K))
    (povms : List (List (List K))) (scheds : List (Nat × Nat)) (cs : List (Coeff K)) (var : List K)
    (hm : 0 < m) (hn : 0 < n)
    (hstates : ∀ rho ∈ states, rho.length = n)
    (hpovms : ∀ povm ∈ povms, ∀ e ∈ povm, e.length = n)
    (hvar : var.length = if flag then (m - 1) * (n * n) + (n - 1) * n else m * (n * n))
    (h : qmptCoeffs flag m states povms scheds = some cs) :
    ∃ per, cs = mkCoeffs per ∧
      qmptCircuit flag n m states povms scheds var = some (per.map fun rows => rows.map (rowVal var)) := by
  unfold qmptCoeffs at h
  simp only [Option.bind_eq_bind, Option.bind_eq_some_iff, Option.pure_def, Option.some.injEq] at h
  obtain ⟨per, hper, rfl⟩ := h
  refine ⟨per, rfl, ?_⟩
  unfold qmptCircuit
  apply mapM_opt_lift _ _ (fun rows => rows.map (rowVal var)) _ scheds per hper
  rintro ⟨i, j⟩ rows hrows
  simp only [Option.bind_eq_bind, Option.bind_eq_some_iff] at hrows
  obtain ⟨rho, hp, povm, hq, hs⟩ := hrows
  have hl : rho.length = n := hstates rho (List.mem_of_getElem? hp)
  subst hl
  have hE := hpovms povm (List.mem_of_getElem? hq)
  cases flag with
  | false =>
    simp only [Bool.false_eq_true, if_false] at hvar
    have this' : rows.map (rowVal var) = _ := qmpt_sched_eq_false m rho povm var rows hE hvar hs
    simp [hp, hq, this']
  | true =>
    simp only [if_true] at hvar
    have this' := qmpt_sched_eq_true m rho povm var rows hm hn hE hvar hs
    simp [hp, hq, this']

/-- C08.1 (QMPT) the circuit as the code walks it — (MProcess, State) gives the ensemble
`p_x = r·(hs_x ρ)[0]`, `ρ_x = hs_x ρ / p_x`, then (Povm, StateEnsemble) gives `p_x · (E_y · ρ_x)` — equals the
ideal joint probabilities `E_y · (hs_x ρ)` whenever no `p_x` vanishes (clipping by `eps_zero` is not modelled). -/
theorem qmpt_walk_eq_born [Field K] [DecidableEq K] (r : K) (povm : List (List K))
    (hss : List (List (List K))) (rho : List K)
    (hp : ∀ hs ∈ hss, r * firstEntry (matVec hs rho) ≠ 0) :
    circuitPovmMprocessState r povm hss rho = bornPovmMprocessState povm hss rho := by
  unfold circuitPovmMprocessState bornPovmMprocessState
  apply List.flatMap_congr
  intro hs hhs
  have hne := hp hs hhs
  simp only [bornPovmGateState, bornPovmState, List.map_map]
  rw [if_neg hne]
  apply List.map_congr_left
  intro e _
  simp only [Function.comp_apply]
  rw [ldot_comm, ldot_div_left, ldot_comm, ← mul_div_assoc]
  exact mul_div_cancel_left₀ _ hne

/-- C08.1 corollary: whenever the dictionary entries predict the circuit schedule by schedule,
`calc_matA() @ var + calc_vecB()` is the concatenation of the circuit's distributions in schedule order. -/
theorem predict_eq_circuit [Field K] (per : List (List (List K × K))) (var : List K)
    (dists : List (List K)) (h : dists = per.map fun rows => rows.map (rowVal var)) :
    predictRaw (mkCoeffs per) var = dists.flatten := by
  rw [h, predictRaw_mkCoeffs]

/-- C08.3 `full rank ⇔ informationally complete`: the forward model separates two variable vectors iff the
schedule-by-schedule statistics do.  With `qst_affine / povmt_affine / qpt_affine / qmpt_affine` the right-hand
side is the circuits' statistics map `var ↦ (Born distributions of all schedules)`, whose injectivity is the
definition of an informationally complete tester set; the left-hand side is injectivity of
`var ↦ matA·var + vecB`, i.e. full column rank of matA. (`P` restricts to variable vectors of the right length.) -/
theorem fullrank_iff_IC [Field K] (per : List (List (List K × K))) (P : List K → Prop) :
    (∀ v v', P v → P v' → predictRaw (mkCoeffs per) v = predictRaw (mkCoeffs per) v' → v = v') ↔
    (∀ v v', P v → P v' →
      (per.map fun rows => rows.map (rowVal v)) = (per.map fun rows => rows.map (rowVal v')) → v = v') := by
  constructor
  · intro h v v' hv hv' hd
    apply h v v' hv hv'
    rw [predictRaw_mkCoeffs, predictRaw_mkCoeffs, hd]
  · intro h v v' hv hv' hp
    apply h v v' hv hv'
    rw [predictRaw_mkCoeffs, predictRaw_mkCoeffs] at hp
    exact flatten_map_inj (rowVal v) (rowVal v') per hp

/-- C08.2 `matA_cols` (QST): with tester vectors of length `n`, every row of matA has `n − 1` (flag) resp. `n`
entries = `num_variables`. -/
theorem qst_cols [Field K] (flag : Bool) (r : K) (n : Nat) (vec a : List K) (b : K)
    (hv : vec.length = n) (h : qstRow flag r vec = some (a, b)) :
    a.length = if flag then n - 1 else n := by
  cases flag with
  | false => simp [qstRow] at h; simp [← h.1, hv]
  | true =>
    cases vec with
    | nil => simp [qstRow] at h
    | cons v0 rest => simp [qstRow] at h; simp [← h.1, ← hv]

/-- C08.2 `matA_cols` (QPT): `n² − n` (flag) resp. `n²` columns. -/
theorem qpt_cols [Field K] (flag : Bool) (rho e a : List K) (b : K) (he : e.length = rho.length)
    (h : qptRow flag rho.length (outerFlat e rho) = some (a, b)) :
    a.length = if flag then rho.length * rho.length - rho.length else rho.length * rho.length := by
  cases flag with
  | false => simp [qptRow] at h; simp [← h.1, outerFlat_length, he]
  | true =>
    cases hc : outerFlat e rho with
    | nil => simp [qptRow, hc] at h
    | cons c0 cs =>
      simp [qptRow, hc] at h
      have hl := outerFlat_length e rho
      rw [hc] at hl
      simp [← h.1, List.length_drop, he] at hl ⊢
      omega

/-- C08.2 `matA_cols` (POVMT): every row has `(m−1)·n` (flag) resp. `m·n` entries = `num_variables`. -/
theorem povmt_cols [Field K] (flag : Bool) (r : K) (m : Nat) (rho : List K) (x : Nat) (a : List K) (b : K)
    (hx : x < m) (h : povmtRow flag r m rho x = some (a, b)) :
    a.length = (if flag then m - 1 else m) * rho.length :=
  povmt_cols' flag r m rho x a b hx h

/-- C08.2 `matA_cols` (QMPT): every row built by `cqpt_to_cqmpt` for a schedule has `m·n² − n` (flag; written
`(m−1)·n² + (n² − n)`) resp. `m·n²` entries = `num_variables`. -/
theorem qmpt_cols [Field K] (flag : Bool) (m : Nat) (rho : List K) (povm : List (List K))
    (rows : List (List K × K)) (hm : 0 < m) (hr : 0 < rho.length)
    (hE : ∀ e ∈ povm, e.length = rho.length) (h : qmptSched flag m rho povm = some rows) :
    ∀ ab ∈ rows, ab.1.length =
      if flag then (m - 1) * (rho.length * rho.length) + (rho.length * rho.length - rho.length)
      else m * (rho.length * rho.length) :=
  qmpt_cols' flag m rho povm rows hm hr hE h

/-- C08.4 `calc_prob_dists` as coded (`reshape((num_schedules, -1))`, then `truncate_and_normalize` row by row):
it returns the circuit's per-schedule distributions (each passed through `truncate_and_normalize`, the identity on
proper distributions by `truncNorm_id`) **if and only if all schedules have the same number of outcomes**.
This is the exact guard under which the coded grouping is right; outside it the code raises or regroups silently
(defect D8: `calcProbDists_mixed_counts_fails`, `calcProbDists_mixed_counts_regroups_fails`). -/
theorem calcProbDists_eq_circuit_iff [Field K] [LinearOrder K] (eps : K) (cs : List (Coeff K))
    (var : List K) (dists : List (List K)) (hk : 0 < dists.length)
    (hp : predict cs var = .ok dists.flatten) :
    calcProbDists eps dists.length cs var = .ok (dists.map (truncNorm eps)) ↔
      ∃ c, ∀ d ∈ dists, d.length = c :=
  calcProbDists_iff eps cs var dists hk hp

/-- C08.4b `calc_prob_dist(qope, i)` under the guard: entry `i` of the circuit's distributions. -/
theorem calcProbDist_eq_circuit [Field K] [LinearOrder K] (eps : K) (cs : List (Coeff K))
    (var : List K) (dists : List (List K)) (c : Nat) (hk : 0 < dists.length)
    (hd : ∀ d ∈ dists, d.length = c) (hp : predict cs var = .ok dists.flatten) (i : Nat) (hi : i < dists.length) :
    calcProbDist eps dists.length cs var i = .ok (truncNorm eps dists[i]) := by
  unfold calcProbDist
  rw [(calcProbDists_eq_circuit_iff eps cs var dists hk hp).2 ⟨c, hd⟩]
  simp [bind, Except.bind, pure, Except.pure, hi]

/-- `truncate_and_normalize` is the identity on a distribution that sums to one and has no entry below `eps`. -/
theorem truncNorm_id [Field K] [LinearOrder K] (eps : K) (row : List K)
    (h1 : ∀ p ∈ row, ¬ p < eps) (h2 : lsum row = 1) : truncNorm eps row = row := by
  unfold truncNorm
  have e : (row.map fun p => if p < eps then 0 else p) = row := by
    conv_rhs => rw [← List.map_id row]
    apply List.map_congr_left
    intro p hp
    simp [h1 p hp]
  simp only [e, h2, div_one]
  simp

/-- `truncate_and_normalize` is also the identity when exact zeros are present: entries are 0 or at least `eps`
(boundary objects probed with their own eigenstates), sum one. Strictly weaker hypothesis than `truncNorm_id`. -/
theorem truncNorm_id_zero_or_large [Field K] [LinearOrder K] (eps : K) (row : List K)
    (h1 : ∀ p ∈ row, p < eps → p = 0) (h2 : lsum row = 1) : truncNorm eps row = row :=
  truncNorm_id_zero_or_large' eps row h1 h2

/-- C08.4 defect D8 (negation witness, raises): tester POVMs with outcome counts `[2, 2, 3]` (one-dimensional
toy vectors, `var = [1]`): the circuit gives three distributions, `calc_prob_dists` fails in its reshape
(`cannot reshape array of size 7 into shape (3, newaxis)`). -/
theorem calcProbDists_mixed_counts_fails :
    ¬ ∀ (povms : List (List (List Rat))) (scheds : List Nat) (cs : List (Coeff Rat)) (var : List Rat)
        (dists : List (List Rat)),
        qstCoeffs false 1 povms scheds = some cs → qstCircuit false 1 povms scheds var = some dists →
        calcProbDists (1 / 10000000000000) scheds.length cs var = .ok dists := by
  intro h
  have h' := h [[[1/2], [1/2]], [[1/3], [2/3]], [[1/4], [1/4], [1/2]]] [0, 1, 2]
    (mkCoeffs [[([1/2], 0), ([1/2], 0)], [([1/3], 0), ([2/3], 0)], [([1/4], 0), ([1/4], 0), ([1/2], 0)]])
    [1] [[1/2, 1/2], [1/3, 2/3], [1/4, 1/4, 1/2]] (by decide +kernel) (by decide +kernel)
  unfold calcProbDists predict predictRaw at h'
  rw [dict_sorted] at h'
  revert h'
  decide +kernel

/-- C08.4 defect D8 (negation witness, silent regrouping): outcome counts `[1, 3]` — the total 4 is divisible by
the 2 schedules, so the reshape succeeds and returns rows of 2 that cut across the schedule boundary. -/
theorem calcProbDists_mixed_counts_regroups_fails :
    ∃ (povms : List (List (List Rat))) (scheds : List Nat) (cs : List (Coeff Rat)) (var : List Rat)
        (dists out : List (List Rat)),
        qstCoeffs false 1 povms scheds = some cs ∧ qstCircuit false 1 povms scheds var = some dists ∧
        calcProbDists (1 / 10000000000000) scheds.length cs var = .ok out ∧ out ≠ dists := by
  refine ⟨[[[1]], [[1/2], [1/4], [1/4]]], [0, 1],
    mkCoeffs [[([1], 0)], [([1/2], 0), ([1/4], 0), ([1/4], 0)]], [1],
    [[1], [1/2, 1/4, 1/4]], [[2/3, 1/3], [1/2, 1/2]], ?_, ?_, ?_, ?_⟩
  · decide +kernel
  · decide +kernel
  · unfold calcProbDists predict predictRaw
    rw [dict_sorted]
    decide +kernel
  · decide +kernel

/-! ## tie to the source: the definitions regenerated from the four `_set_coeffs` / `calc_c_qpt` / `cqpt_to_cqmpt` /
`_get_target_index` (`lean/QGen/C08.lean`, rewritten by `harness/c08.py:translate` on every run) are the model's -/

/-- C08.src-a the QST row read from the source (`vec[1:]`, `vec[0] / np.sqrt(dim)` resp. `vec`, `0`) is the model's. -/
theorem gen_qst_row [Field K] (flag : Bool) (r : K) (vec : List K) :
    QGen.C08.qst_row flag r vec = qstRow flag r vec := gen_qst_row' flag r vec

/-- C08.src-b the QPT row read from `calc_c_qpt` (`c[int(dim*dim):]`, `c[0]` resp. `c`, `0`) and the outer product with
its argument order (`np.outer(povm_vec, state.vec).flatten()`) are the model's. -/
theorem gen_qpt_row [Field K] (flag : Bool) (n : Nat) (c e rho : List K) :
    QGen.C08.qpt_row flag n c = qptRow flag n c ∧ QGen.C08.qpt_c e rho = outerFlat e rho :=
  ⟨gen_qpt_row' flag n c, rfl⟩

/-- C08.src-c the POVMT row read from the source — hstack order, paddings `m_index·vec_size` and
`((m−1)−m_index)·vec_size`, split point `vec_size·(m−1)`, `a_prime − tile(c_prime, m−1)`, offset `np.sqrt(dim)·c_prime[0]`
— is the model's `povmtRow`. -/
theorem gen_povmt_row [Field K] (flag : Bool) (r : K) (m : Nat) (rho : List K) (x : Nat) :
    QGen.C08.povmt_row flag r m rho x = povmtRow flag r m rho x := gen_povmt_row' flag r m rho x

/-- C08.src-d the dictionary keys of all four classes are `(schedule_index, element_index)` in this order, which is the
key the model's `mkCoeffs` uses (and what makes `sorted(items)` the identity, `dict_sorted`). -/
theorem gen_keys (per : List (List (List K × K))) :
    QGen.C08.qst_key = Prod.mk ∧ QGen.C08.povmt_key = Prod.mk ∧ QGen.C08.qpt_key = Prod.mk ∧
    QGen.C08.qmpt_key = Prod.mk ∧
    mkCoeffs per = per.zipIdx.flatMap fun (rows, si) =>
      rows.zipIdx.map fun (ab, x) => ⟨QGen.C08.qst_key si x, ab.1, ab.2⟩ :=
  ⟨rfl, rfl, rfl, rfl, rfl⟩

/-- C08.src-e positions inside a schedule, as the code reads them: QST `[unknown state, tester povm (last item)]`,
POVMT `[tester state, unknown povm]`, QPT / QMPT `[tester state, unknown, tester povm]`.  The model's schedules are the
pairs (tester state index, tester povm index) taken from exactly these positions. -/
theorem gen_schedule_items :
    QGen.C08.qst_target_item = 0 ∧ QGen.C08.qst_tester_item = -1 ∧
    QGen.C08.povmt_state_item = 0 ∧ QGen.C08.povmt_target_item = 1 ∧
    QGen.C08.qpt_state_item = 0 ∧ QGen.C08.qpt_target_item = 1 ∧ QGen.C08.qpt_povm_item = 2 ∧
    QGen.C08.qmpt_target_item = 1 := by decide

/-- C08.src-f the constants of `cqpt_to_cqmpt` (`d_qpt = c[:, :dim²]`, `e_qpt = c[:, dim²:]`, `m−1` resp. `m` diagonal
blocks, `b_1 = d_qpt.T[0]`) and `num_outcomes = povm outcomes × m-process outcomes` as read from the source; the model's
last block row written with them. -/
theorem gen_qmpt_consts [Neg K] [Zero K] (d m p : Nat) (c : List K) :
    QGen.C08.qmpt_d_cols d = d ^ 2 ∧ QGen.C08.qmpt_e_from d = d ^ 2 ∧ QGen.C08.qmpt_blocks_flag m = m - 1 ∧
    QGen.C08.qmpt_blocks m = m ∧ QGen.C08.qmpt_b1_col = 0 ∧ QGen.C08.qmpt_num_outcomes p m = p * m ∧
    qmptLastRow (QGen.C08.qmpt_d_cols d) m c =
      (match c with
       | c0 :: _ => some (tile (QGen.C08.qmpt_blocks_flag m)
            (lneg (c.take (QGen.C08.qmpt_d_cols d)) ++
              zeros (QGen.C08.qmpt_d_cols d * QGen.C08.qmpt_d_cols d - QGen.C08.qmpt_d_cols d)) ++
            c.drop (QGen.C08.qmpt_e_from d), c0)
       | [] => none) :=
  ⟨rfl, rfl, rfl, rfl, rfl, rfl, rfl⟩

/-- C08.src-g the headline identity on the generated QST row: what the source's expressions put into the dictionary
predicts the Born value on the state built from `var`. -/
theorem gen_qst_row_affine [Field K] (flag : Bool) (r : K) (vec var a : List K) (b : K)
    (h : QGen.C08.qst_row flag r vec = some (a, b)) : ldot a var + b = ldot vec (stateOf flag r var) := by
  rw [gen_qst_row] at h
  exact qst_row_eq flag r vec var a b h

/-! ## non-vacuity -/

example : QGen.C08.qst_row true (2 : Rat) [1, 3, 5] = some ([3, 5], 1/2) := by decide +kernel
example : QGen.C08.qpt_row true 2 ([1, 2, 3, 4] : List Rat) = some ([3, 4], 1) := by decide +kernel
example : QGen.C08.povmt_row true (2 : Rat) 3 [1, 2] 2 = some ([-1, -2, -1, -2], 2) := by decide +kernel
example : QGen.C08.povmt_row true (2 : Rat) 3 [1, 2] 0 = some ([1, 2, 0, 0], 0) := by decide +kernel

example : truncNorm (1 / 10000000000000 : Rat) [0, 1/4, 3/4, 0] = [0, 1/4, 3/4, 0] := by decide +kernel

/-- equal outcome counts `[2, 2]`: the guard of `calcProbDists_eq_circuit_iff` holds and `calc_prob_dist` returns entry 1 -/
example : calcProbDist (1 / 10000000000000 : Rat) 2 (mkCoeffs [[([1/2], 0), ([1/2], 0)], [([1/4], 0), ([3/4], 0)]]) [1] 1
    = .ok [1/4, 3/4] := by
  unfold calcProbDist calcProbDists predict predictRaw
  rw [dict_sorted]
  decide +kernel


/-- 1 qubit QST, flag = True, z-measurement with `r = 1` standing for `√d`: the hypothesis of `qst_affine` holds
and the predictions are the circuit values -/
example : qstCoeffs true (1 : Rat) [[[1, 0, 0, 1], [1, 0, 0, -1]]] [0, 0] =
    some (mkCoeffs [[([0, 0, 1], 1), ([0, 0, -1], 1)], [([0, 0, 1], 1), ([0, 0, -1], 1)]]) := by decide +kernel

example : qstCircuit true (1 : Rat) [[[1, 0, 0, 1], [1, 0, 0, -1]]] [0, 0] [1/2, 1/3, 1/4]
    = some [[5/4, 3/4], [5/4, 3/4]] := by decide +kernel

/-- QPT, `n = 2` toy vectors, flag = True: `var` has `(n−1)·n = 2` entries -/
example : (qptCoeffs (K := Rat) true [[1, 2]] [[[1, 1], [3, -1]]] [(0, 0)]) =
    some (mkCoeffs [[([1, 2], 1), ([-1, -2], 3)]]) := by decide +kernel

example : qptCircuit (K := Rat) true 2 [[1, 2]] [[[1, 1], [3, -1]]] [(0, 0)] [1/2, 1/3] = some [[13/6, 11/6]] := by
  decide +kernel

/-- POVMT, `n = 2`, `m = 3`, flag = True: `var` has `(m−1)·n = 4` entries -/
example : (povmtCoeffs true (2 : Rat) 3 [[1, 2], [0, 1]] [1]) =
    some (mkCoeffs [[([0, 1, 0, 0], 0), ([0, 0, 0, 1], 0), ([0, -1, 0, -1], 0)]]) := by decide +kernel

example : povmtCircuit true (2 : Rat) 2 3 [[1, 2], [0, 1]] [1] [1, 2, 3, 4] = some [[2, 4, -6]] := by
  decide +kernel

/-- QMPT, `n = 2`, `m = 2`, both flags -/
example : (qmptCoeffs (K := Rat) false 2 [[1, 2]] [[[1, 1], [3, -1]]] [(0, 0)]).isSome = true := by decide +kernel

example : (qmptCoeffs (K := Rat) true 2 [[1, 2]] [[[1, 1], [3, -1]]] [(0, 0)]).map
      (fun cs => cs.map fun c => ldot c.a [1, 2, 3, 4, 5, 6] + c.b)
    = (qmptCircuit true 2 2 [[1, 2]] [[[1, 1], [3, -1]]] [(0, 0)] [1, 2, 3, 4, 5, 6]).map List.flatten := by
  decide +kernel

end QM.C08
